// C53: pooled buffers are released exactly once and never leak old data.
//
// Family "ops": random operation sequences over the mem package
// run with a *tracking* BufferPool.  The pool keeps a ledger of every buffer it
// handed out, poisons memory on Put (0xDB over the whole capacity) and reports
// every Put to the monitor.  A reference model written from the statement
// tracks, per piece of pooled memory ("root"), who still holds a reference
// (handles, BufferSlices, Readers) and which bytes each reference must read.
//
// Oracles (audited after every operation):
//   - a root's memory is Put at most once, never while a reference that still
//     has bytes to read is live, and it has been Put as soon as nothing can
//     hold it any more;
//   - every live reference reads its original bytes (poison would show);
//   - Reader / CopyTo / Materialize / ReadAll / ReadUnsafe return exactly the
//     referenced bytes.
//
// R2 notes (weakest sound reading):
//   - NewBuffer documents that memory whose capacity is <= the pooling
//     threshold becomes a no-op buffer that is never returned; for such roots
//     "never Put" is accepted (at-most-once + not-while-referenced still hold).
//   - A Reader may keep its reference to an already consumed buffer until
//     Close/Reset (zero-length buffers are only released there); consumed and
//     zero-length references therefore count as "may hold", not "must hold".
//   - SplitUnsafe/ReadUnsafe modify the handle they are given (documented), so
//     they are applied to exclusively owned handles only (DESIGN.md §4 C53).
package c53

import (
	"bytes"
	"errors"
	"fmt"
	"io"
	"math/rand"
	"reflect"
	"sort"
	"strings"
	"testing"
	"unsafe"

	"google.golang.org/grpc/internal"
	imem "google.golang.org/grpc/internal/mem"
	"google.golang.org/grpc/mem"
	"google.golang.org/grpc/verif/vlib"
)

const poisonByte = 0xDB

// ---------- tracking pool ----------

type ledgerEntry struct {
	id   int
	ptr  *[]byte
	full []byte // the whole allocation (len == cap)
	live bool   // handed out and not yet returned
	puts int
	root *rootModel
	via  string // "get" or "adopt"
}

type trackPool struct {
	c       *caseRun
	entries []*ledgerEntry
	capMode int
	gets    int
	putsN   int
}

func (p *trackPool) alloc(n int, via string) *ledgerEntry {
	capn := n
	switch p.capMode {
	case 1:
		capn = n + p.c.rng.Intn(n/2+2)
	case 2:
		capn = 1
		for capn < n {
			capn <<= 1
		}
	}
	full := make([]byte, capn)
	for i := range full {
		full[i] = 0xC3 // "uninitialised" pattern: must never show up as content
	}
	b := full[:n]
	e := &ledgerEntry{id: len(p.entries), ptr: &b, full: full, live: true, via: via}
	p.entries = append(p.entries, e)
	return e
}

func (p *trackPool) Get(n int) *[]byte {
	p.gets++
	e := p.alloc(n, "get")
	return e.ptr
}

func (p *trackPool) find(b []byte) *ledgerEntry {
	b = b[:cap(b)]
	if len(b) == 0 {
		return nil
	}
	a := uintptr(unsafe.Pointer(&b[0]))
	for _, e := range p.entries {
		if len(e.full) == 0 {
			continue
		}
		lo := uintptr(unsafe.Pointer(&e.full[0]))
		if a >= lo && a < lo+uintptr(len(e.full)) {
			return e
		}
	}
	return nil
}

func (p *trackPool) Put(bp *[]byte) {
	p.putsN++
	var e *ledgerEntry
	for _, x := range p.entries {
		if x.ptr == bp {
			e = x
		}
	}
	if e == nil && bp != nil {
		e = p.find(*bp)
	}
	c := p.c
	if e == nil {
		c.viol("put-foreign-buffer", "Put(%p) of a buffer this pool never handed out (len %d cap %d) during %s", bp, len(*bp), cap(*bp), c.curOp)
		return
	}
	if !e.live {
		c.viol("double-put", "buffer #%d returned to the pool a second time during %s", e.id, c.curOp)
		return
	}
	if len(e.full) > 0 {
		b := (*bp)[:cap(*bp)]
		if len(b) == 0 || &b[0] != &e.full[0] || cap(*bp) != len(e.full) {
			c.viol("put-not-a-prefix", "Put of buffer #%d with a slice that is not a prefix of what Get returned (cap %d, want %d) during %s", e.id, cap(*bp), len(e.full), c.curOp)
		}
	}
	e.live = false
	e.puts++
	for i := range e.full {
		e.full[i] = poisonByte
	}
	c.putsThisOp = append(c.putsThisOp, e)
}

// ---------- reference model ----------

type rootModel struct {
	id     int
	entry  *ledgerEntry // nil: memory not owned by the tracking pool
	base   uintptr
	bytes  []byte // expected content of the whole allocation
	keep   []byte // the allocation itself: pinned so that its address range is never reused
	pooled bool   // must go back to the pool (capacity above the pooling threshold)
}

type objModel struct {
	buf    mem.Buffer
	root   *rootModel
	off, n int
	shared bool // more than one reference to this very object may exist: no Unsafe ops
	kind   string
}

func (o *objModel) want() []byte {
	if o.n == 0 {
		return nil
	}
	return o.root.bytes[o.off : o.off+o.n]
}

type bsModel struct {
	bs   mem.BufferSlice
	objs []*objModel
}

func (b *bsModel) concat() []byte {
	var out []byte
	for _, o := range b.objs {
		out = append(out, o.want()...)
	}
	return out
}

type rdModel struct {
	rd       *mem.Reader
	objs     []*objModel
	consumed int // bytes consumed so far
	total    []byte
	closed   bool
}

func (r *rdModel) remaining() []byte { return r.total[r.consumed:] }

type caseRun struct {
	r          *vlib.Run
	fam        string
	idx        int
	rng        *rand.Rand
	pool       *trackPool
	thr        int
	handles    []*objModel
	slices     []*bsModel
	readers    []*rdModel
	roots      []*rootModel
	trace      []string
	feats      map[string]bool
	curOp      string
	putsThisOp []*ledgerEntry
	bad        bool
}

func (c *caseRun) viol(key, f string, a ...any) {
	if c.bad {
		return
	}
	c.bad = true
	tr := c.trace
	if len(tr) > 80 {
		tr = tr[len(tr)-80:]
	}
	c.r.Violation(key, c.fam, c.idx, map[string]any{"threshold": c.thr, "cap_mode": c.pool.capMode, "trace_tail": tr},
		f+" | thr=%d | last ops: %s", append(a, c.thr, strings.Join(tailS(tr, 8), " ; "))...)
}

func tailS(s []string, n int) []string {
	if len(s) > n {
		return s[len(s)-n:]
	}
	return s
}

func (c *caseRun) genData(n int) []byte {
	b := make([]byte, n)
	seed := byte(c.rng.Intn(200))
	for i := range b {
		b[i] = seed + byte(i*7) | 1 // never 0xDB-only runs, never all zero
		if b[i] == poisonByte || b[i] == 0xC3 {
			b[i] = 0x11
		}
	}
	return b
}

func (c *caseRun) genSize() int {
	t := c.thr
	switch c.rng.Intn(12) {
	case 0:
		return 0
	case 1:
		return 1 + c.rng.Intn(8)
	case 2:
		return t
	case 3:
		return t + 1
	case 4:
		if t > 1 {
			return t - 1
		}
		return 1
	case 5:
		return t + 1 + c.rng.Intn(4096)
	default:
		return t + 1 + c.rng.Intn(300)
	}
}

// adopt builds the model object for a Buffer the library just returned, whose
// content must be want.
func (c *caseRun) adopt(buf mem.Buffer, want []byte, kind string) *objModel {
	data := buf.ReadOnlyData()
	if !bytes.Equal(data, want) {
		c.viol("wrong-bytes-"+kind, "%s: new buffer reads %s, want %s", c.curOp, short(data), short(want))
	}
	o := &objModel{buf: buf, n: len(data), kind: kind}
	if len(data) == 0 {
		return o
	}
	a := uintptr(unsafe.Pointer(&data[0]))
	for _, r := range c.roots {
		if a >= r.base && a < r.base+uintptr(len(r.bytes)) {
			o.root, o.off = r, int(a-r.base)
			return o
		}
	}
	r := &rootModel{id: len(c.roots)}
	if e := c.pool.find(data); e != nil {
		r.entry, e.root = e, r
		r.base = uintptr(unsafe.Pointer(&e.full[0]))
		r.bytes = append([]byte{}, e.full...)
		r.pooled = len(e.full) > c.thr
		o.off = int(a - r.base)
	} else {
		full := data[:cap(data)]
		r.base = a
		r.keep = full
		r.bytes = append([]byte{}, full...)
	}
	c.roots = append(c.roots, r)
	o.root = r
	return o
}

func short(b []byte) string {
	if len(b) > 24 {
		return fmt.Sprintf("%x…(%d bytes)", b[:24], len(b))
	}
	return fmt.Sprintf("%x(%d bytes)", b, len(b))
}

func sameObject(a, b mem.Buffer) bool {
	va, vb := reflect.ValueOf(a), reflect.ValueOf(b)
	if va.Kind() == reflect.Ptr && vb.Kind() == reflect.Ptr {
		return va.Pointer() == vb.Pointer()
	}
	return false
}

// holders counts, for each root, references that must still be able to read
// bytes ("must") and references that may or may not still be held ("may").
func (c *caseRun) holders() (must, may map[*rootModel]int) {
	must, may = map[*rootModel]int{}, map[*rootModel]int{}
	add := func(o *objModel, definite bool) {
		if o.root == nil {
			return
		}
		if definite && o.n > 0 {
			must[o.root]++
		} else {
			may[o.root]++
		}
	}
	for _, o := range c.handles {
		add(o, true)
	}
	for _, b := range c.slices {
		for _, o := range b.objs {
			add(o, true)
		}
	}
	for _, r := range c.readers {
		if r.closed {
			continue
		}
		sum := 0
		for _, o := range r.objs {
			sum += o.n
			add(o, sum > r.consumed) // some of its bytes are still unread
		}
	}
	return
}

func (c *caseRun) audit() {
	if c.bad {
		return
	}
	must, may := c.holders()
	for _, r := range c.roots {
		if r.entry == nil {
			continue
		}
		returned := !r.entry.live
		if returned && must[r] > 0 {
			c.viol("put-while-referenced", "memory #%d was returned to the pool during %q while %d reference(s) with unread bytes are live", r.entry.id, c.curOp, must[r])
			return
		}
		if !returned && r.pooled && must[r] == 0 && may[r] == 0 {
			c.viol("not-returned-after-last-free", "memory #%d (cap %d > threshold %d) has no reference left after %q but was not returned to the pool", r.entry.id, len(r.entry.full), c.thr, c.curOp)
			return
		}
	}
	for _, e := range c.putsThisOp {
		if e.root != nil && e.root.pooled {
			c.feats["put-by:"+strings.SplitN(c.curOp, "(", 2)[0]] = true
			c.r.Count("pooled_roots_returned", 1)
		}
	}
	// every live reference reads its original bytes
	chk := func(o *objModel, where string) {
		if c.bad {
			return
		}
		got := o.buf.ReadOnlyData()
		if !bytes.Equal(got, o.want()) {
			key := "live-reference-changed"
			if bytes.Contains(got, []byte{poisonByte, poisonByte, poisonByte, poisonByte}) {
				key = "live-reference-reads-freed-memory"
			}
			c.viol(key, "after %q a live %s (%s) reads %s, want %s", c.curOp, where, o.kind, short(got), short(o.want()))
		}
		if o.buf.Len() != o.n {
			c.viol("len-mismatch", "after %q a live %s (%s) has Len %d want %d", c.curOp, where, o.kind, o.buf.Len(), o.n)
		}
	}
	for _, o := range c.handles {
		chk(o, "handle")
	}
	for _, b := range c.slices {
		for _, o := range b.objs {
			chk(o, "BufferSlice element")
		}
	}
	for _, r := range c.readers {
		if r.closed {
			continue
		}
		sum := 0
		for _, o := range r.objs {
			sum += o.n
			if sum > r.consumed && o.n > 0 {
				chk(o, "Reader-held buffer")
			}
		}
	}
	c.r.Count("audits", 1)
}

func (c *caseRun) do(op string, f func()) {
	if c.bad {
		return
	}
	c.curOp = op
	c.putsThisOp = c.putsThisOp[:0]
	c.trace = append(c.trace, op)
	func() {
		defer func() {
			if p := recover(); p != nil {
				c.viol("panic-in-contract-op", "%s panicked: %v", op, p)
			}
		}()
		f()
	}()
	c.audit()
}

func (c *caseRun) takeHandle(pred func(*objModel) bool) (*objModel, int) {
	var idx []int
	for i, o := range c.handles {
		if pred == nil || pred(o) {
			idx = append(idx, i)
		}
	}
	if len(idx) == 0 {
		return nil, -1
	}
	i := idx[c.rng.Intn(len(idx))]
	return c.handles[i], i
}

func (c *caseRun) dropHandle(i int) {
	c.handles = append(c.handles[:i], c.handles[i+1:]...)
}

// exclusive: exactly one reference to this object exists anywhere.
func (c *caseRun) exclusive(o *objModel) bool {
	if o.shared {
		return false
	}
	n := 0
	for _, h := range c.handles {
		if h == o {
			n++
		}
	}
	for _, b := range c.slices {
		for _, h := range b.objs {
			if h == o {
				n++
			}
		}
	}
	for _, r := range c.readers {
		for _, h := range r.objs {
			if h == o && !r.closed {
				n++
			}
		}
	}
	return n == 1
}

type chunkReader struct {
	data    []byte
	rng     *rand.Rand
	failAt  int // -1: never
	eofWith bool
}

var errInjected = errors.New("injected read error")

func (r *chunkReader) Read(p []byte) (int, error) {
	if r.failAt == 0 {
		return 0, errInjected
	}
	if len(r.data) == 0 {
		return 0, io.EOF
	}
	n := 1 + r.rng.Intn(len(p))
	if r.rng.Intn(3) == 0 {
		n = len(p)
	}
	if n > len(r.data) {
		n = len(r.data)
	}
	if r.failAt > 0 && n > r.failAt {
		n = r.failAt
	}
	copy(p, r.data[:n])
	r.data = r.data[n:]
	if r.failAt > 0 {
		r.failAt -= n
	}
	if len(r.data) == 0 && r.eofWith {
		return n, io.EOF
	}
	return n, nil
}

func (c *caseRun) step() {
	rng := c.rng
	switch op := rng.Intn(24); op {
	case 0, 1: // NewBuffer over memory that belongs to the pool
		n := c.genSize()
		e := c.pool.alloc(n, "adopt")
		d := c.genData(n)
		copy(*e.ptr, d)
		c.do(fmt.Sprintf("NewBuffer(len %d cap %d)", n, len(e.full)), func() {
			b := mem.NewBuffer(e.ptr, c.pool)
			c.handles = append(c.handles, c.adopt(b, d, "NewBuffer"))
		})
		if len(e.full) > c.thr {
			c.feats["newbuffer-pooled"] = true
		} else {
			c.feats["newbuffer-below-threshold"] = true
		}
	case 2, 3: // Copy
		n := c.genSize()
		d := c.genData(n)
		c.do(fmt.Sprintf("Copy(len %d)", n), func() {
			src := append([]byte{}, d...)
			b := mem.Copy(src, c.pool)
			for i := range src {
				src[i] = 0xEE // the source may be reused by the caller
			}
			c.handles = append(c.handles, c.adopt(b, d, "Copy"))
		})
	case 4: // Ref
		if o, _ := c.takeHandle(nil); o != nil {
			c.do("Ref("+o.kind+")", func() {
				o.buf.Ref()
				o.shared = true
				c.handles = append(c.handles, o)
			})
			c.feats["ref"] = true
		}
	case 5, 6, 7: // Free
		if o, i := c.takeHandle(nil); o != nil {
			c.do(fmt.Sprintf("Free(%s len %d)", o.kind, o.n), func() {
				c.dropHandle(i)
				o.buf.Free()
			})
		}
	case 8, 9: // Slice
		if o, _ := c.takeHandle(nil); o != nil {
			s := rng.Intn(o.n + 1)
			e := s + rng.Intn(o.n-s+1)
			if rng.Intn(5) == 0 {
				s, e = 0, o.n
			}
			c.do(fmt.Sprintf("Slice(%s len %d)[%d:%d]", o.kind, o.n, s, e), func() {
				res := o.buf.Slice(s, e)
				if sameObject(res, o.buf) {
					o.shared = true
					c.handles = append(c.handles, o)
					c.feats["slice-full-range-same-object"] = true
					return
				}
				var want []byte
				if e > s {
					want = o.root.bytes[o.off+s : o.off+e]
				}
				c.handles = append(c.handles, c.adopt(res, want, "Slice"))
				if e > s && o.root != nil && o.root.pooled {
					c.feats["slice-of-pooled"] = true
				}
			})
		}
	case 10, 11: // SplitUnsafe on an exclusively owned handle
		if o, _ := c.takeHandle(c.exclusive); o != nil {
			k := rng.Intn(o.n + 1)
			switch rng.Intn(6) {
			case 0:
				k = 0
			case 1:
				k = o.n
			}
			c.do(fmt.Sprintf("SplitUnsafe(%s len %d, %d)", o.kind, o.n, k), func() {
				l, r := mem.SplitUnsafe(o.buf, k)
				var lw, rw []byte
				if o.n > 0 {
					lw, rw = o.root.bytes[o.off:o.off+k], o.root.bytes[o.off+k:o.off+o.n]
				}
				if !bytes.Equal(l.ReadOnlyData(), lw) || !bytes.Equal(r.ReadOnlyData(), rw) {
					c.viol("split-wrong-bytes", "SplitUnsafe(len %d, %d) = %s | %s, want %s | %s", o.n, k, short(l.ReadOnlyData()), short(r.ReadOnlyData()), short(lw), short(rw))
					return
				}
				root, off := o.root, o.off
				o.buf, o.n = l, k
				ro := &objModel{buf: r, root: root, off: off + k, n: len(rw), kind: "split-right"}
				c.handles = append(c.handles, ro)
				if root != nil && root.pooled {
					c.feats["split-of-pooled"] = true
				}
			})
		}
	case 12, 13: // ReadUnsafe on an exclusively owned handle
		if o, i := c.takeHandle(c.exclusive); o != nil {
			dn := rng.Intn(o.n + 3)
			if rng.Intn(4) == 0 {
				dn = o.n
			}
			c.do(fmt.Sprintf("ReadUnsafe(dst %d, %s len %d)", dn, o.kind, o.n), func() {
				dst := make([]byte, dn)
				n, rest := mem.ReadUnsafe(dst, o.buf)
				want := min(dn, o.n)
				if n != want || !bytes.Equal(dst[:n], o.want()[:n]) {
					c.viol("readunsafe-wrong-bytes", "ReadUnsafe(dst %d, len %d) = %d %s, want %d %s", dn, o.n, n, short(dst[:max(n, 0)]), want, short(o.want()[:want]))
					return
				}
				left := o.n - n
				if rest == nil {
					if left > 0 {
						c.viol("readunsafe-dropped-data", "ReadUnsafe consumed %d of %d bytes but returned no remainder", n, o.n)
						return
					}
					c.dropHandle(i) // fully consumed: the reference was released
					c.feats["readunsafe-consumed"] = true
					return
				}
				o.buf = rest
				o.off += n
				o.n = left
				if left > 0 && o.root != nil && o.root.pooled {
					c.feats["readunsafe-partial-pooled"] = true
				}
			})
		}
	case 14, 15: // build a BufferSlice out of some handles
		if len(c.handles) > 0 {
			k := 1 + rng.Intn(min(4, len(c.handles)))
			b := &bsModel{}
			for j := 0; j < k; j++ {
				o, i := c.takeHandle(nil)
				c.dropHandle(i)
				b.objs = append(b.objs, o)
				b.bs = append(b.bs, o.buf)
			}
			c.do(fmt.Sprintf("BufferSlice{%d buffers}", k), func() {
				c.slices = append(c.slices, b)
				want := b.concat()
				if got := b.bs.Len(); got != len(want) {
					c.viol("bufferslice-len", "BufferSlice.Len() = %d want %d", got, len(want))
				}
				dst := make([]byte, rng.Intn(len(want)+3))
				if n := b.bs.CopyTo(dst); n != min(len(dst), len(want)) || !bytes.Equal(dst[:n], want[:n]) {
					c.viol("copyto-wrong-bytes", "CopyTo(dst %d) = %d %s want %s", len(dst), n, short(dst[:n]), short(want))
				}
				if m := b.bs.Materialize(); !bytes.Equal(m, want) {
					c.viol("materialize-wrong-bytes", "Materialize() = %s want %s", short(m), short(want))
				}
			})
		}
	case 16: // BufferSlice: Ref (a second owner of every element), Free, MaterializeToBuffer
		if len(c.slices) == 0 {
			break
		}
		bi := rng.Intn(len(c.slices))
		b := c.slices[bi]
		switch rng.Intn(3) {
		case 0:
			c.do(fmt.Sprintf("BufferSlice.Ref(%d buffers)", len(b.objs)), func() {
				b.bs.Ref()
				nb := &bsModel{bs: append(mem.BufferSlice{}, b.bs...), objs: append([]*objModel{}, b.objs...)}
				for _, o := range b.objs {
					o.shared = true
				}
				c.slices = append(c.slices, nb)
			})
		case 1:
			c.do(fmt.Sprintf("BufferSlice.Free(%d buffers)", len(b.objs)), func() {
				c.slices = append(c.slices[:bi], c.slices[bi+1:]...)
				b.bs.Free()
			})
		default:
			want := b.concat()
			c.do(fmt.Sprintf("MaterializeToBuffer(%d buffers, %d bytes)", len(b.objs), len(want)), func() {
				res := b.bs.MaterializeToBuffer(c.pool)
				for _, o := range b.objs {
					if sameObject(res, o.buf) {
						o.shared = true
						c.handles = append(c.handles, o)
						c.feats["materialize-single-ref"] = true
						return
					}
				}
				c.handles = append(c.handles, c.adopt(res, want, "MaterializeToBuffer"))
				if len(b.objs) > 1 && len(want) > c.thr {
					c.feats["materialize-multi-pooled"] = true
				}
			})
		}
	case 17: // Reader over a BufferSlice (or Reset of a zero Reader)
		if len(c.slices) == 0 {
			break
		}
		b := c.slices[rng.Intn(len(c.slices))]
		c.do(fmt.Sprintf("Reader(%d buffers)", len(b.objs)), func() {
			rm := &rdModel{objs: append([]*objModel{}, b.objs...), total: b.concat()}
			if rng.Intn(3) == 0 {
				rm.rd = new(mem.Reader)
				rm.rd.Reset(b.bs)
				c.feats["reader-reset-zero-value"] = true
			} else {
				rm.rd = b.bs.Reader()
			}
			for _, o := range b.objs {
				o.shared = true
			}
			c.readers = append(c.readers, rm)
		})
	case 18, 19, 20, 21: // Reader operations
		if len(c.readers) == 0 {
			break
		}
		ri := rng.Intn(len(c.readers))
		rm := c.readers[ri]
		rem := rm.remaining()
		switch rng.Intn(8) {
		case 0, 1, 2: // Read
			p := make([]byte, rng.Intn(len(rem)+4))
			if rng.Intn(4) == 0 {
				p = make([]byte, 1+rng.Intn(16))
			}
			c.do(fmt.Sprintf("Reader.Read(%d) remaining %d", len(p), len(rem)), func() {
				n, err := rm.rd.Read(p)
				if rm.closed || len(rem) == 0 {
					if n != 0 || err != io.EOF {
						c.viol("reader-eof", "Read on exhausted/closed reader = %d,%v want 0,EOF", n, err)
					}
					return
				}
				if n > len(rem) || n > len(p) || !bytes.Equal(p[:n], rem[:n]) || (n == 0 && len(p) > 0) {
					c.viol("reader-wrong-bytes", "Reader.Read(%d) = %d %s, want prefix of %s", len(p), n, short(p[:min(n, len(p))]), short(rem))
					return
				}
				if err != nil && !(err == io.EOF && n == len(rem)) {
					c.viol("reader-unexpected-error", "Reader.Read(%d) with %d bytes remaining returned %v", len(p), len(rem), err)
					return
				}
				rm.consumed += n
				if n > 0 {
					c.feats["reader-read"] = true
				}
			})
		case 3: // ReadByte
			c.do(fmt.Sprintf("Reader.ReadByte remaining %d", len(rem)), func() {
				bt, err := rm.rd.ReadByte()
				if rm.closed || len(rem) == 0 {
					if err != io.EOF {
						c.viol("reader-eof", "ReadByte on exhausted/closed reader err=%v want EOF", err)
					}
					return
				}
				if err != nil || bt != rem[0] {
					c.viol("reader-wrong-bytes", "ReadByte = %#x,%v want %#x", bt, err, rem[0])
					return
				}
				rm.consumed++
			})
		case 4: // Discard
			k := rng.Intn(len(rem) + 3)
			c.do(fmt.Sprintf("Reader.Discard(%d) remaining %d", k, len(rem)), func() {
				n, err := rm.rd.Discard(k)
				want := min(k, len(rem))
				if rm.closed {
					want = 0
				}
				if n != want || (err == nil) != (k <= want) {
					c.viol("reader-discard", "Discard(%d) with %d remaining = %d,%v want %d (error iff short)", k, len(rem), n, err, want)
					return
				}
				rm.consumed += n
				if n > 0 {
					c.feats["reader-discard"] = true
				}
			})
		case 5: // Peek
			k := rng.Intn(len(rem) + 3)
			c.do(fmt.Sprintf("Reader.Peek(%d) remaining %d", k, len(rem)), func() {
				pre := [][]byte{[]byte("pre")}
				res, err := rm.rd.Peek(k, pre[:rng.Intn(2)])
				avail := len(rem)
				if rm.closed {
					avail = 0
				}
				if k > avail {
					if err == nil {
						c.viol("reader-peek", "Peek(%d) with %d remaining returned no error", k, avail)
					}
					return
				}
				if err != nil {
					c.viol("reader-peek", "Peek(%d) with %d remaining returned %v", k, avail, err)
					return
				}
				var got []byte
				for _, s := range res {
					if string(s) == "pre" && len(got) == 0 {
						continue
					}
					got = append(got, s...)
				}
				if !bytes.Equal(got, rem[:k]) {
					c.viol("reader-peek", "Peek(%d) = %s want %s", k, short(got), short(rem[:k]))
				}
				if got := rm.rd.Remaining(); got != avail {
					c.viol("reader-remaining", "Remaining() = %d after Peek, want %d", got, avail)
				}
			})
		case 6: // Close
			c.do(fmt.Sprintf("Reader.Close remaining %d", len(rem)), func() {
				rm.closed = true
				_ = rm.rd.Close()
				if n, err := rm.rd.Read(make([]byte, 4)); n != 0 || err != io.EOF {
					c.viol("reader-eof", "Read after Close = %d,%v want 0,EOF", n, err)
				}
			})
			c.feats["reader-close"] = true
		default: // Reset onto another slice
			if len(c.slices) == 0 {
				break
			}
			b := c.slices[rng.Intn(len(c.slices))]
			c.do(fmt.Sprintf("Reader.Reset(%d buffers) remaining %d", len(b.objs), len(rem)), func() {
				rm.rd.Reset(b.bs)
				rm.closed = false
				rm.objs = append([]*objModel{}, b.objs...)
				rm.total = b.concat()
				rm.consumed = 0
				for _, o := range b.objs {
					o.shared = true
				}
				if got := rm.rd.Remaining(); got != len(rm.total) {
					c.viol("reader-remaining", "Remaining() = %d after Reset, want %d", got, len(rm.total))
				}
			})
			c.feats["reader-reset"] = true
		}
	case 22: // ReadAll
		n := c.genSize()
		if rng.Intn(4) == 0 {
			n = 32*1024 + rng.Intn(40000) // spans several 32 KiB buffers
		}
		d := c.genData(n)
		mode := rng.Intn(4)
		c.do(fmt.Sprintf("ReadAll(%d bytes, mode %d)", n, mode), func() {
			var src io.Reader
			failAt := -1
			switch mode {
			case 0:
				src = &chunkReader{data: append([]byte{}, d...), rng: rng, failAt: -1, eofWith: rng.Intn(2) == 0}
			case 1:
				src = bytes.NewReader(append([]byte{}, d...)) // io.WriterTo path
				c.feats["readall-writerto"] = true
			case 2:
				failAt = rng.Intn(n + 1)
				src = &chunkReader{data: append([]byte{}, d...), rng: rng, failAt: failAt}
				c.feats["readall-error"] = true
			default:
				src = io.MultiReader(bytes.NewReader(append([]byte{}, d[:n/2]...)), &chunkReader{data: append([]byte{}, d[n/2:]...), rng: rng, failAt: -1})
			}
			bs, err := mem.ReadAll(src, c.pool)
			want := d
			if mode == 2 { // the source fails after failAt bytes
				if err == nil {
					c.viol("readall-error-lost", "ReadAll swallowed the injected read error (after %d bytes)", failAt)
				}
				got := bs.Materialize()
				if !bytes.HasPrefix(d, got) {
					c.viol("readall-wrong-bytes", "ReadAll (failing source) returned %s which is not a prefix of the source", short(got))
					return
				}
				want = d[:len(got)]
			} else if err != nil {
				c.viol("readall-unexpected-error", "ReadAll returned %v", err)
			}
			b := &bsModel{bs: bs}
			off := 0
			for _, buf := range bs {
				l := buf.Len()
				if off+l > len(want) {
					c.viol("readall-wrong-bytes", "ReadAll returned %d bytes, source had %d", bs.Len(), len(want))
					return
				}
				b.objs = append(b.objs, c.adopt(buf, want[off:off+l], "ReadAll"))
				off += l
			}
			if off != len(want) {
				c.viol("readall-wrong-bytes", "ReadAll returned %d bytes, want %d", off, len(want))
			}
			c.slices = append(c.slices, b)
			if len(bs) > 1 {
				c.feats["readall-multi-buffer"] = true
			}
		})
	default: // NewWriter
		n := c.genSize()
		d := c.genData(n)
		c.do(fmt.Sprintf("Writer.Write(%d)", n), func() {
			var bs mem.BufferSlice
			w := mem.NewWriter(&bs, c.pool)
			k, err := w.Write(append([]byte{}, d...))
			if k != n || err != nil || len(bs) != 1 {
				c.viol("writer", "Writer.Write(%d) = %d,%v with %d buffers", n, k, err, len(bs))
				return
			}
			c.handles = append(c.handles, c.adopt(bs[0], d, "Writer"))
		})
	}
}

func setThreshold(n int) {
	internal.SetBufferPoolingThresholdForTesting.(func(int))(n)
}

func runCase(r *vlib.Run, fam string, idx int) {
	rng := r.Rand(fam, idx)
	c := &caseRun{r: r, fam: fam, idx: idx, rng: rng, feats: map[string]bool{}}
	c.thr = []int{1024, 1024, 64, 16, 0}[rng.Intn(5)]
	c.pool = &trackPool{c: c, capMode: rng.Intn(3)}
	old := imem.BufferPoolingThreshold
	setThreshold(c.thr)
	defer setThreshold(old)
	nops := 15 + rng.Intn(60)
	for i := 0; i < nops && !c.bad; i++ {
		c.step()
	}
	// release everything, in random order; afterwards every pooled root must be back
	for !c.bad && (len(c.handles) > 0 || len(c.slices) > 0 || len(c.readers) > 0) {
		switch k := rng.Intn(3); {
		case k == 0 && len(c.handles) > 0:
			o, i := c.takeHandle(nil)
			c.do(fmt.Sprintf("final Free(%s len %d)", o.kind, o.n), func() { c.dropHandle(i); o.buf.Free() })
		case k == 1 && len(c.slices) > 0:
			b := c.slices[0]
			c.do("final BufferSlice.Free", func() { c.slices = c.slices[1:]; b.bs.Free() })
		case k == 2 && len(c.readers) > 0:
			rm := c.readers[0]
			c.do("final Reader.Close", func() { c.readers = c.readers[1:]; rm.closed = true; _ = rm.rd.Close() })
		}
	}
	if !c.bad {
		leaked, small := 0, 0
		for _, e := range c.pool.entries {
			if e.puts > 1 {
				c.viol("double-put", "buffer #%d was Put %d times", e.id, e.puts)
			}
			if e.live && len(e.full) > c.thr {
				leaked++
				if e.root == nil || e.root.pooled {
					c.viol("not-returned-after-last-free", "buffer #%d (cap %d > threshold %d, obtained by %s) was never returned to the pool although every reference is released", e.id, len(e.full), c.thr, e.via)
				}
			} else if e.live {
				small++
			}
		}
		r.Count("small_buffers_not_returned_documented", int64(small))
	}
	r.Eval(1)
	r.Count("ops", int64(len(c.trace)))
	r.Count("pool_gets", int64(c.pool.gets))
	r.Count("pool_puts", int64(c.pool.putsN))
	var fs []string
	for f := range c.feats {
		fs = append(fs, f)
		r.Nontrivial("feature:" + f)
	}
	sort.Strings(fs)
	// non-trivial: some pooled memory went back to the pool; signature = who triggered the Puts + threshold class
	var trig []string
	for _, f := range fs {
		if strings.HasPrefix(f, "put-by:") {
			trig = append(trig, strings.TrimPrefix(f, "put-by:"))
		}
	}
	if len(trig) > 0 {
		r.Nontrivial(fmt.Sprintf("thr%d/cap%d/put-by:%s", c.thr, c.pool.capMode, strings.Join(trig, ",")))
	}
	if idx < 3 {
		r.Sample(map[string]any{"case": idx, "threshold": c.thr, "features": fs, "first_ops": tailS(c.trace[:min(len(c.trace), 8)], 8)})
	}
}

func TestVerifC53(t *testing.T) {
	r := vlib.Start(t, "C53")
	const fam = "ops"
	n := r.N(12000, 150000)
	for i := 0; i < n; i++ {
		if !r.Want(fam, i) {
			continue
		}
		runCase(r, fam, i)
	}
	runPools(r)
	r.Finish(vlib.Spec{
		Level: "exploration",
		Rule: "PRNG operation sequences (15-75 ops + random-order release of everything) over NewBuffer/Copy/Ref/Free/Slice/SplitUnsafe/ReadUnsafe/BufferSlice{Len,CopyTo,Materialize,MaterializeToBuffer,Ref,Free,Reader}/Reader{Read,ReadByte,Discard,Peek,Reset,Close}/ReadAll(4 source kinds)/NewWriter with a tracking pool (ledger, poison on Put) and pooling thresholds 1024/64/16/0; audited after every op; distinct = feature flags + (threshold, pool capacity policy, set of operation kinds whose call returned pooled memory to the pool) || family pools: PRNG Get/Put sequences (incl. shortened prefixes and foreign buffers of arbitrary capacity, sizes at tier boundaries +-1) on the real tiered/binary-tiered/default/dirty/simple/nop pools; every Get: len==n, cap>=n, zeroing pools all-zero over len and capacity after the memory was dirtied and reused; distinct = (pool kind, size class, reused)",
		Assumptions: []string{
			"reference model: per pooled allocation the set of live references (handles, BufferSlice elements, unread Reader buffers) and the bytes each must read",
			"R2: memory with cap <= pooling threshold may never be returned (documented NewBuffer special case); consumed/zero-length buffers held by a Reader may be released any time up to Close/Reset",
			"SplitUnsafe/ReadUnsafe are applied to exclusively owned handles only (they are documented to modify their argument)",
			"the pooling threshold is changed through internal.SetBufferPoolingThresholdForTesting",
			"zeroing is observable only when sync.Pool hands a dirtied buffer back (same goroutine, no -race): the count of such reuses is reported and must be > 0",
		},
		Floor: 30,
	})
}

// ---------- family "pools": the real pool implementations ----------

func allZero(b []byte) bool {
	for _, x := range b {
		if x != 0 {
			return false
		}
	}
	return true
}

func runPools(r *vlib.Run) {
	const fam = "pools"
	n := r.N(1500, 30000)
	var reusedTotal int64
	for i := 0; i < n; i++ {
		if !r.Want(fam, i) {
			continue
		}
		rng := r.Rand(fam, i)
		var pool mem.BufferPool
		var desc string
		zeroing := true
		var tiers []int
		switch kind := rng.Intn(7); kind {
		case 0, 1:
			all := []int{256, 1000, 4096, 5000, 16384, 65536}
			for _, s := range all {
				if rng.Intn(2) == 0 {
					tiers = append(tiers, s)
				}
			}
			pool = mem.NewTieredBufferPool(append([]int{}, tiers...)...)
			desc = fmt.Sprintf("tiered%v", tiers)
		case 2, 3:
			var exps []uint8
			for e := 0; e <= 17; e++ {
				if rng.Intn(4) == 0 {
					exps = append(exps, uint8(e))
					tiers = append(tiers, 1<<e)
				}
			}
			if rng.Intn(3) == 0 && len(exps) > 1 { // unsorted, duplicated
				exps = append(exps, exps[0])
				exps[0], exps[len(exps)-2] = exps[len(exps)-2], exps[0]
			}
			bp, err := mem.NewBinaryTieredBufferPool(append([]uint8{}, exps...)...)
			if err != nil {
				r.Violation("binary-pool-constructor", fam, i, map[string]any{"exps": exps}, "NewBinaryTieredBufferPool(%v) failed: %v", exps, err)
				continue
			}
			pool = bp
			desc = fmt.Sprintf("binary%v", exps)
		case 4:
			pool = mem.DefaultBufferPool()
			tiers = []int{256, 4096, 16384, 32768, 1 << 20}
			desc = "default"
		case 5:
			var exps []uint8
			for e := 4; e <= 16; e += 1 + rng.Intn(4) {
				exps = append(exps, uint8(e))
				tiers = append(tiers, 1<<e)
			}
			bp, err := imem.NewDirtyBinaryTieredBufferPool(exps...)
			if err != nil {
				r.Violation("binary-pool-constructor", fam, i, map[string]any{"exps": exps}, "NewDirtyBinaryTieredBufferPool(%v) failed: %v", exps, err)
				continue
			}
			pool, zeroing = bp, false
			desc = fmt.Sprintf("dirty-binary%v", exps)
		default:
			if rng.Intn(2) == 0 {
				pool, zeroing, desc = imem.NewDirtySimplePool(), false, "dirty-simple"
			} else {
				pool, desc = mem.NopBufferPool{}, "nop"
			}
		}
		genN := func() int {
			if len(tiers) > 0 && rng.Intn(3) > 0 {
				t := tiers[rng.Intn(len(tiers))]
				return max(0, t+rng.Intn(3)-1)
			}
			switch rng.Intn(6) {
			case 0:
				return 0
			case 1:
				return 1 + rng.Intn(300)
			case 2:
				return 70000 + rng.Intn(70000) // above every generated tier except the default pool's 1 MiB
			default:
				return rng.Intn(40000)
			}
		}
		sizeClass := func(n int) string {
			if n == 0 {
				return "zero"
			}
			cls := "above-all-tiers"
			for _, t := range tiers {
				if n == t {
					return "exact-tier"
				}
				if n < t {
					cls = "between-tiers"
				}
			}
			if len(tiers) == 0 {
				cls = "no-tiers"
			}
			return cls
		}
		type held struct {
			p    *[]byte
			base *byte
		}
		var hs []held
		put := map[*byte]bool{}
		var log []string
		bad := false
		nops := 40 + rng.Intn(200)
		for k := 0; k < nops && !bad; k++ {
			switch op := rng.Intn(10); {
			case op < 5 || len(hs) == 0: // Get
				want := genN()
				log = append(log, fmt.Sprintf("Get(%d)", want))
				var bp *[]byte
				func() {
					defer func() {
						if p := recover(); p != nil {
							bad = true
							r.Violation("pool-get-panic", fam, i, map[string]any{"pool": desc, "ops": tailS(log, 30)}, "%s.Get(%d) panicked: %v", desc, want, p)
						}
					}()
					bp = pool.Get(want)
				}()
				if bad {
					break
				}
				r.Count("real_pool_gets", 1)
				b := *bp
				if len(b) != want || cap(b) < want {
					bad = true
					r.Violation("pool-get-len-cap", fam, i, map[string]any{"pool": desc, "ops": tailS(log, 30)}, "%s.Get(%d) returned len %d cap %d", desc, want, len(b), cap(b))
					break
				}
				full := b[:cap(b)]
				reused := false
				if len(full) > 0 {
					if put[&full[0]] {
						reused = true
						reusedTotal++
						delete(put, &full[0])
					}
				}
				if zeroing {
					if !allZero(b) {
						bad = true
						r.Violation("zeroing-pool-dirty-buffer", fam, i, map[string]any{"pool": desc, "ops": tailS(log, 30)}, "%s.Get(%d) returned a buffer whose first %d bytes are not all zero (reused=%v)", desc, want, want, reused)
						break
					}
					if !allZero(full[len(b):]) {
						bad = true
						r.Violation("zeroing-pool-dirty-capacity", fam, i, map[string]any{"pool": desc, "ops": tailS(log, 30)}, "%s.Get(%d) returned a buffer whose capacity beyond len (%d..%d) holds old data (reused=%v)", desc, want, len(b), cap(b), reused)
						break
					}
				}
				for j := range full {
					full[j] = 0xEE
				}
				h := held{p: bp}
				if len(full) > 0 {
					h.base = &full[0]
				}
				hs = append(hs, h)
				sig := fmt.Sprintf("pool:%s/%s/reused=%v", strings.SplitN(desc, "[", 2)[0], sizeClass(want), reused)
				if reused || !zeroing {
					r.Nontrivial(sig)
				}
			case op < 9: // Put something we hold, possibly shortened to a prefix
				j := rng.Intn(len(hs))
				h := hs[j]
				hs = append(hs[:j], hs[j+1:]...)
				if rng.Intn(3) == 0 && len(*h.p) > 0 {
					*h.p = (*h.p)[:rng.Intn(len(*h.p))]
				}
				log = append(log, fmt.Sprintf("Put(len %d cap %d)", len(*h.p), cap(*h.p)))
				if h.base != nil {
					put[h.base] = true
				}
				pool.Put(h.p)
			default: // Put a foreign buffer of arbitrary capacity (what NewBuffer(userData, pool) does on Free)
				capn := genN()
				b := make([]byte, rng.Intn(capn+1), capn)
				full := b[:capn]
				for j := range full {
					full[j] = 0xEE
				}
				log = append(log, fmt.Sprintf("Put(foreign len %d cap %d)", len(b), capn))
				if capn > 0 {
					put[&full[0]] = true
				}
				pool.Put(&b)
			}
		}
		r.Eval(1)
	}
	r.Count("real_pool_buffers_reused_after_dirtying", reusedTotal)
	if reusedTotal == 0 && r.Replaying() == nil {
		r.Inconclusive("no dirtied buffer was ever handed out again by a real pool: the zeroing clause was not exercised")
	}
}
