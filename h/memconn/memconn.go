// Package memconn provides a buffered in-memory net.Conn pair that is usable
// inside testing/synctest bubbles: all blocking is on channels created by
// Pipe (so it is "durable" for the bubble's scheduler when Pipe is called inside
// the bubble) and deadlines run on time.Timer (virtual time inside a bubble).
//
// Writes never block unless a capacity is set: the peer under test is throttled
// by HTTP/2 flow control, not by the byte pipe.  Options allow a monitor to
// stall, fail or observe traffic.
package memconn

import (
	"errors"
	"io"
	"net"
	"os"
	"sync"
	"time"
)

type addr string

func (a addr) Network() string { return "mem" }
func (a addr) String() string  { return string(a) }

// half is one direction of the pipe.
type half struct {
	mu       sync.Mutex
	buf      []byte
	closed   bool          // writer closed: reader drains then EOF
	broken   error         // reader closed / reset: writer fails
	wake     chan struct{} // cap 1: data or state change for the reader
	space    chan struct{} // cap 1: space for a blocked writer
	capacity int           // 0 = unbounded
	total    int64
}

func newHalf(capacity int) *half {
	return &half{wake: make(chan struct{}, 1), space: make(chan struct{}, 1), capacity: capacity}
}

func poke(c chan struct{}) {
	select {
	case c <- struct{}{}:
	default:
	}
}

// Conn is one end of the pipe.
type Conn struct {
	rd, wr *half
	local  addr
	remote addr

	dmu       sync.Mutex
	rdeadline time.Time
	rdTimer   *time.Timer
	rdExpired chan struct{}
	closeOnce sync.Once
	closedCh  chan struct{}

	// WriteHook, if set before use, is called with every Write before the
	// bytes are queued; returning an error fails the write (fault injection).
	WriteHook func(p []byte) error
}

// Pipe returns the two ends of a fresh in-memory connection.  capacity bounds
// each direction's buffer (0 = unbounded).
func Pipe(capacity int) (client, server *Conn) {
	a, b := newHalf(capacity), newHalf(capacity)
	client = &Conn{rd: a, wr: b, local: "mem-client", remote: "mem-server", closedCh: make(chan struct{}), rdExpired: make(chan struct{})}
	server = &Conn{rd: b, wr: a, local: "mem-server", remote: "mem-client", closedCh: make(chan struct{}), rdExpired: make(chan struct{})}
	return client, server
}

func (c *Conn) Read(p []byte) (int, error) {
	if len(p) == 0 {
		return 0, nil
	}
	for {
		c.rd.mu.Lock()
		if len(c.rd.buf) > 0 {
			n := copy(p, c.rd.buf)
			c.rd.buf = c.rd.buf[n:]
			if len(c.rd.buf) == 0 {
				c.rd.buf = nil
			} else {
				poke(c.rd.wake) // more to read for a possible concurrent reader
			}
			c.rd.mu.Unlock()
			poke(c.rd.space)
			return n, nil
		}
		if c.rd.broken != nil {
			err := c.rd.broken
			c.rd.mu.Unlock()
			return 0, err
		}
		if c.rd.closed {
			c.rd.mu.Unlock()
			return 0, io.EOF
		}
		c.rd.mu.Unlock()
		c.dmu.Lock()
		exp := c.rdExpired
		dl := c.rdeadline
		c.dmu.Unlock()
		if !dl.IsZero() && !time.Now().Before(dl) {
			return 0, os.ErrDeadlineExceeded
		}
		select {
		case <-c.rd.wake:
		case <-c.closedCh:
			return 0, net.ErrClosed
		case <-exp:
		}
	}
}

func (c *Conn) Write(p []byte) (int, error) {
	if c.WriteHook != nil {
		if err := c.WriteHook(p); err != nil {
			return 0, err
		}
	}
	written := 0
	for len(p) > 0 {
		select {
		case <-c.closedCh:
			return written, net.ErrClosed
		default:
		}
		c.wr.mu.Lock()
		if c.wr.broken != nil || c.wr.closed {
			c.wr.mu.Unlock()
			return written, io.ErrClosedPipe
		}
		room := len(p)
		if c.wr.capacity > 0 {
			room = c.wr.capacity - len(c.wr.buf)
			if room > len(p) {
				room = len(p)
			}
		}
		if room > 0 {
			c.wr.buf = append(c.wr.buf, p[:room]...)
			c.wr.total += int64(room)
			p = p[room:]
			written += room
			c.wr.mu.Unlock()
			poke(c.wr.wake)
			continue
		}
		c.wr.mu.Unlock()
		select {
		case <-c.wr.space:
		case <-c.closedCh:
			return written, net.ErrClosed
		}
	}
	return written, nil
}

// Close closes both directions: the peer reads EOF after draining, and its
// writes fail.
func (c *Conn) Close() error {
	c.closeOnce.Do(func() {
		close(c.closedCh)
		c.wr.mu.Lock()
		c.wr.closed = true
		c.wr.mu.Unlock()
		poke(c.wr.wake)
		poke(c.wr.space)
		c.rd.mu.Lock()
		if c.rd.broken == nil {
			c.rd.broken = io.ErrClosedPipe
		}
		c.rd.buf = nil
		c.rd.mu.Unlock()
		poke(c.rd.space)
		poke(c.rd.wake)
		c.dmu.Lock()
		if c.rdTimer != nil {
			c.rdTimer.Stop()
		}
		c.dmu.Unlock()
	})
	return nil
}

// Reset makes the peer's next Read fail with err immediately (connection reset)
// without draining.
func (c *Conn) Reset(err error) {
	if err == nil {
		err = errors.New("memconn: connection reset by peer")
	}
	c.wr.mu.Lock()
	c.wr.broken = err
	c.wr.buf = nil
	c.wr.mu.Unlock()
	poke(c.wr.wake)
	c.Close()
}

// BytesWritten reports how many bytes this end has queued so far.
func (c *Conn) BytesWritten() int64 {
	c.wr.mu.Lock()
	defer c.wr.mu.Unlock()
	return c.wr.total
}

// Pending reports how many bytes are queued for this end to read.
func (c *Conn) Pending() int {
	c.rd.mu.Lock()
	defer c.rd.mu.Unlock()
	return len(c.rd.buf)
}

func (c *Conn) LocalAddr() net.Addr  { return c.local }
func (c *Conn) RemoteAddr() net.Addr { return c.remote }

func (c *Conn) SetDeadline(t time.Time) error {
	c.SetReadDeadline(t)
	return nil
}

func (c *Conn) SetReadDeadline(t time.Time) error {
	c.dmu.Lock()
	defer c.dmu.Unlock()
	if c.rdTimer != nil {
		c.rdTimer.Stop()
		c.rdTimer = nil
	}
	// a fresh expiry channel: an already expired one must not wake later reads
	select {
	case <-c.rdExpired:
		c.rdExpired = make(chan struct{})
	default:
	}
	c.rdeadline = t
	if t.IsZero() {
		return nil
	}
	exp := c.rdExpired
	d := time.Until(t)
	if d <= 0 {
		close(exp)
		return nil
	}
	c.rdTimer = time.AfterFunc(d, func() { close(exp) })
	return nil
}

func (c *Conn) SetWriteDeadline(time.Time) error { return nil }

// Listener is a net.Listener fed by Dial; usable inside bubbles.
type Listener struct {
	ch   chan net.Conn
	done chan struct{}
	once sync.Once
	Cap  int
}

// NewListener returns a listener whose Dial creates Pipe pairs.
func NewListener() *Listener {
	return &Listener{ch: make(chan net.Conn, 64), done: make(chan struct{})}
}

func (l *Listener) Accept() (net.Conn, error) {
	select {
	case c := <-l.ch:
		return c, nil
	case <-l.done:
		return nil, net.ErrClosed
	}
}

func (l *Listener) Close() error {
	l.once.Do(func() { close(l.done) })
	return nil
}

func (l *Listener) Addr() net.Addr { return addr("mem-listener") }

// Dial creates a new connection to the listener and returns the client end.
func (l *Listener) Dial() (*Conn, error) {
	c, s := Pipe(l.Cap)
	select {
	case l.ch <- s:
		return c, nil
	case <-l.done:
		return nil, net.ErrClosed
	}
}
