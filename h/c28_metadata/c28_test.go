// C28: the metadata package as a case-insensitive ordered multimap.
//
// Random operation sequences are run against the real package and against a
// reference written from the property statement: an ordered multimap keyed by
// the ASCII-lowercased key.  Every value returned by Copy / FromXContext /
// ValueFromXContext is poisoned (elements overwritten, entries appended,
// keys deleted and added) and all contexts / MDs are looked up again later: a
// lookup must never change because a caller mutated something it was given.
//
// Scope (DESIGN.md §4 C28): keys are ASCII; hand-built maps use one spelling
// per key; Set/Append are never called with zero values (undocumented corner).
// MDs attached to a context are never mutated afterwards (API contract).
package c28

import (
	"context"
	"fmt"
	"math/rand"
	"sort"
	"strings"
	"testing"

	"google.golang.org/grpc/metadata"
	"google.golang.org/grpc/verif/vlib"
)

// ---------- reference model ----------

type model map[string][]string // key: ASCII-lowercased

func asciiLower(s string) string {
	b := []byte(s)
	for i, c := range b {
		if c >= 'A' && c <= 'Z' {
			b[i] = c + 32
		}
	}
	return string(b)
}

func (m model) clone() model {
	o := model{}
	for k, v := range m {
		o[k] = append([]string{}, v...)
	}
	return o
}

type mdObj struct {
	real      metadata.MD
	ref       model
	handBuilt bool // keys may be mixed case (single spelling): only attach / Copy / Len
	frozen    bool // attached to a context: must not be mutated by the caller any more
	desc      string
}

type ctxObj struct {
	ctx     context.Context
	outOK   bool
	outBase model       // lowercased base (nil if none)
	outAdd  [][2]string // appended pairs, lowercased key, in call order
	depth   int         // number of AppendToOutgoingContext links since the last NewOutgoingContext
	inOK    bool
	inRef   model
	desc    string
}

func (c *ctxObj) outModel() model {
	m := model{}
	for k, v := range c.outBase {
		m[k] = append([]string{}, v...)
	}
	for _, p := range c.outAdd {
		m[p[0]] = append(m[p[0]], p[1])
	}
	return m
}

// ---------- generators ----------

var keyAlphabet = []string{"k", "key", "x-y", "a_b.c", "user-id", "z9", "grpc-foo", "m-bin"}

func mixCase(rng *rand.Rand, k string) string {
	b := []byte(k)
	mode := rng.Intn(4)
	for i, c := range b {
		if c >= 'a' && c <= 'z' {
			switch mode {
			case 0: // lower
			case 1:
				b[i] = c - 32
			default:
				if rng.Intn(2) == 0 {
					b[i] = c - 32
				}
			}
		}
	}
	return string(b)
}

func genKey(rng *rand.Rand, nkeys int) string {
	return mixCase(rng, keyAlphabet[rng.Intn(nkeys)])
}

var valPieces = []string{"", "v", "V", "a,b", " ", "\x00\xff", "é", "POISON", "long-value-0123456789", "="}

func genVal(rng *rand.Rand, ctr *int) string {
	*ctr++
	switch rng.Intn(4) {
	case 0:
		return valPieces[rng.Intn(len(valPieces))]
	default:
		return fmt.Sprintf("%s#%d", valPieces[rng.Intn(len(valPieces))], *ctr)
	}
}

// ---------- comparison ----------

func eqVals(a, b []string) bool {
	if len(a) != len(b) {
		return false
	}
	for i := range a {
		if a[i] != b[i] {
			return false
		}
	}
	return true
}

// diffMD compares a real MD with the model.  lowerKeys: the real MD must have
// lowercase keys exactly (results of library functions); otherwise real keys
// are lowercased first (hand-built input maps).
func diffMD(real metadata.MD, ref model, lowerKeys bool) string {
	got := model{}
	for k, v := range real {
		lk := k
		if !lowerKeys {
			lk = asciiLower(k)
		} else if k != asciiLower(k) {
			return fmt.Sprintf("key %q is not lowercase", k)
		}
		if _, dup := got[lk]; dup {
			return fmt.Sprintf("key %q appears twice", lk)
		}
		got[lk] = v
	}
	var keys []string
	for k := range ref {
		keys = append(keys, k)
	}
	for k := range got {
		if _, ok := ref[k]; !ok {
			keys = append(keys, k)
		}
	}
	sort.Strings(keys)
	for _, k := range keys {
		g, gok := got[k]
		w, wok := ref[k]
		if gok != wok {
			return fmt.Sprintf("key %q: present=%v want present=%v (got %q want %q)", k, gok, wok, g, w)
		}
		if !eqVals(g, w) {
			return fmt.Sprintf("key %q: got %q want %q", k, g, w)
		}
	}
	return ""
}

func poisonSlice(s []string) {
	for i := range s {
		s[i] = "\x00POISONED\x00"
	}
	if cap(s) > len(s) { // write into spare capacity as well
		s = s[:cap(s)]
		for i := range s {
			s[i] = "\x00POISONED\x00"
		}
	}
}

func poisonMD(rng *rand.Rand, md metadata.MD) {
	if md == nil {
		return
	}
	for k, v := range md {
		poisonSlice(v)
		switch rng.Intn(4) {
		case 0:
			delete(md, k)
		case 1:
			md[k] = append(v, "\x00POISON-APPENDED\x00")
		case 2:
			md[k] = nil
		}
	}
	md["poison-key"] = []string{"\x00POISON-NEW\x00"}
}

// ---------- one case ----------

type caseRun struct {
	r     *vlib.Run
	fam   string
	idx   int
	rng   *rand.Rand
	objs  []*mdObj
	ctxs  []*ctxObj
	trace []string
	feats map[string]bool
	vctr  int
	nkeys int
	bad   bool
}

func (c *caseRun) logf(f string, a ...any) {
	c.trace = append(c.trace, fmt.Sprintf(f, a...))
}

func (c *caseRun) viol(key, f string, a ...any) {
	c.bad = true
	tr := c.trace
	if len(tr) > 60 {
		tr = tr[len(tr)-60:]
	}
	c.r.Violation(key, c.fam, c.idx, map[string]any{"trace_tail": tr}, f+" | last ops: %s", append(a, strings.Join(tail(tr, 6), " ; "))...)
}

func tail(s []string, n int) []string {
	if len(s) > n {
		return s[len(s)-n:]
	}
	return s
}

func (c *caseRun) checkObj(o *mdObj, when string) {
	if d := diffMD(o.real, o.ref, !o.handBuilt); d != "" {
		key := "md-differs-from-model"
		if strings.HasPrefix(when, "final") || strings.HasPrefix(when, "after-poison") {
			key = "md-changed-by-aliasing"
		}
		c.viol(key, "%s: MD %s differs from the reference multimap: %s", when, o.desc, d)
	}
	if got, want := o.real.Len(), len(o.ref); got != want {
		c.viol("md-len", "%s: MD %s Len() = %d want %d", when, o.desc, got, want)
	}
}

// checkCtx performs the full and the per-key lookups of one context against
// the model and poisons everything that was returned.
func (c *caseRun) checkCtx(x *ctxObj, when string) {
	aliasKey := func(k string) string {
		if strings.HasPrefix(when, "final") || strings.HasPrefix(when, "again") {
			return k + "-changed-later" // a later lookup differs: aliasing / sibling interference
		}
		return k
	}
	// outgoing
	got, ok := metadata.FromOutgoingContext(x.ctx)
	c.r.Count("lookups_full", 1)
	if ok != x.outOK {
		c.viol(aliasKey("outgoing-ok"), "%s: FromOutgoingContext(%s) ok=%v want %v", when, x.desc, ok, x.outOK)
	}
	want := model{}
	if x.outOK {
		want = x.outModel()
		if d := diffMD(got, want, true); d != "" {
			c.viol(aliasKey("outgoing-lookup"), "%s: FromOutgoingContext(%s) differs from model: %s", when, x.desc, d)
		}
	} else if got != nil {
		c.viol(aliasKey("outgoing-ok"), "%s: FromOutgoingContext(%s) returned a map without metadata attached", when, x.desc)
	}
	// per-key lookups, any spelling, including absent keys
	for i := 0; i < c.nkeys+1; i++ {
		var k string
		if i < c.nkeys {
			k = mixCase(c.rng, keyAlphabet[i])
		} else {
			k = "absent-Key"
		}
		v := metadata.ValueFromOutgoingContext(x.ctx, k)
		c.r.Count("lookups_value", 1)
		if !eqVals(v, want[asciiLower(k)]) {
			c.viol(aliasKey("outgoing-value-lookup"), "%s: ValueFromOutgoingContext(%s, %q) = %q, full lookup/model has %q", when, x.desc, k, v, want[asciiLower(k)])
		}
		poisonSlice(v)
	}
	poisonMD(c.rng, got)

	// incoming
	gin, iok := metadata.FromIncomingContext(x.ctx)
	if iok != x.inOK {
		c.viol(aliasKey("incoming-ok"), "%s: FromIncomingContext(%s) ok=%v want %v", when, x.desc, iok, x.inOK)
	}
	wantIn := model{}
	if x.inOK {
		wantIn = x.inRef
		if d := diffMD(gin, wantIn, true); d != "" {
			c.viol(aliasKey("incoming-lookup"), "%s: FromIncomingContext(%s) differs from model: %s", when, x.desc, d)
		}
	}
	for i := 0; i < c.nkeys+1; i++ {
		var k string
		if i < c.nkeys {
			k = mixCase(c.rng, keyAlphabet[i])
		} else {
			k = "absent-Key"
		}
		v := metadata.ValueFromIncomingContext(x.ctx, k)
		if !eqVals(v, wantIn[asciiLower(k)]) {
			c.viol(aliasKey("incoming-value-lookup"), "%s: ValueFromIncomingContext(%s, %q) = %q, full lookup/model has %q", when, x.desc, k, v, wantIn[asciiLower(k)])
		}
		poisonSlice(v)
	}
	poisonMD(c.rng, gin)
}

func (c *caseRun) newObj(real metadata.MD, ref model, hand bool, desc string) *mdObj {
	o := &mdObj{real: real, ref: ref, handBuilt: hand, desc: fmt.Sprintf("md%d(%s)", len(c.objs), desc)}
	c.objs = append(c.objs, o)
	return o
}

func (c *caseRun) pickObj(pred func(*mdObj) bool) *mdObj {
	var cand []*mdObj
	for _, o := range c.objs {
		if pred(o) {
			cand = append(cand, o)
		}
	}
	if len(cand) == 0 {
		return nil
	}
	return cand[c.rng.Intn(len(cand))]
}

func (c *caseRun) genPairs(n int) (kv []string, low [][2]string) {
	for i := 0; i < n; i++ {
		k := genKey(c.rng, c.nkeys)
		v := genVal(c.rng, &c.vctr)
		kv = append(kv, k, v)
		low = append(low, [2]string{asciiLower(k), v})
	}
	return
}

func (c *caseRun) makeObj() *mdObj {
	switch c.rng.Intn(4) {
	case 0: // New: one spelling per key (map iteration order would otherwise decide)
		m := map[string]string{}
		ref := model{}
		for i := 0; i < c.nkeys; i++ {
			if c.rng.Intn(2) == 0 {
				k := mixCase(c.rng, keyAlphabet[i])
				v := genVal(c.rng, &c.vctr)
				m[k] = v
				ref[asciiLower(k)] = []string{v}
				if k != asciiLower(k) {
					c.feats["new-mixed"] = true
				}
			}
		}
		c.logf("New(%q)", m)
		return c.newObj(metadata.New(m), ref, false, "New")
	case 1, 2: // Pairs: repeated keys in different spellings keep call order
		kv, low := c.genPairs(c.rng.Intn(7))
		ref := model{}
		for _, p := range low {
			ref[p[0]] = append(ref[p[0]], p[1])
		}
		for _, v := range ref {
			if len(v) > 1 {
				c.feats["pairs-multi"] = true
			}
		}
		c.logf("Pairs(%q)", kv)
		return c.newObj(metadata.Pairs(kv...), ref, false, "Pairs")
	default: // hand-built map, one mixed-case spelling per key
		real := metadata.MD{}
		ref := model{}
		for i := 0; i < c.nkeys; i++ {
			if c.rng.Intn(2) == 0 {
				k := mixCase(c.rng, keyAlphabet[i])
				var vs []string
				for n := c.rng.Intn(4); n > 0; n-- {
					vs = append(vs, genVal(c.rng, &c.vctr))
				}
				if vs == nil {
					vs = []string{} // present with no values
				}
				real[k] = vs
				ref[asciiLower(k)] = append([]string{}, vs...)
				if k != asciiLower(k) {
					c.feats["hand-mixed"] = true
				}
			}
		}
		c.logf("hand-built %q", map[string][]string(real))
		return c.newObj(real, ref, true, "hand")
	}
}

func (c *caseRun) step() {
	rng := c.rng
	usable := func(o *mdObj) bool { return !o.handBuilt && !o.frozen }
	helper := func(o *mdObj) bool { return !o.handBuilt }
	switch op := rng.Intn(16); op {
	case 0:
		c.makeObj()
	case 1: // Set
		if o := c.pickObj(usable); o != nil {
			k := genKey(rng, c.nkeys)
			var vs []string
			for n := 1 + rng.Intn(3); n > 0; n-- {
				vs = append(vs, genVal(rng, &c.vctr))
			}
			c.logf("%s.Set(%q,%q)", o.desc, k, vs)
			o.real.Set(k, append([]string{}, vs...)...)
			o.ref[asciiLower(k)] = vs
			c.feats["set"] = true
			c.checkObj(o, "after Set")
		}
	case 2: // Append
		if o := c.pickObj(usable); o != nil {
			k := genKey(rng, c.nkeys)
			var vs []string
			for n := 1 + rng.Intn(3); n > 0; n-- {
				vs = append(vs, genVal(rng, &c.vctr))
			}
			c.logf("%s.Append(%q,%q)", o.desc, k, vs)
			if len(o.ref[asciiLower(k)]) > 0 {
				c.feats["append-existing"] = true
			}
			o.real.Append(k, vs...)
			o.ref[asciiLower(k)] = append(o.ref[asciiLower(k)], vs...)
			c.checkObj(o, "after Append")
		}
	case 3: // Delete
		if o := c.pickObj(usable); o != nil {
			k := genKey(rng, c.nkeys)
			c.logf("%s.Delete(%q)", o.desc, k)
			if _, ok := o.ref[asciiLower(k)]; ok && k != asciiLower(k) {
				c.feats["delete-mixed"] = true
			}
			o.real.Delete(k)
			delete(o.ref, asciiLower(k))
			c.checkObj(o, "after Delete")
		}
	case 4: // Get (any spelling)
		if o := c.pickObj(helper); o != nil {
			k := genKey(rng, c.nkeys)
			got := o.real.Get(k)
			c.r.Count("md_gets", 1)
			if !eqVals(got, o.ref[asciiLower(k)]) {
				c.viol("md-get", "%s.Get(%q) = %q want %q", o.desc, k, got, o.ref[asciiLower(k)])
			}
		}
	case 5: // Copy, then poison one side
		if o := c.pickObj(func(*mdObj) bool { return true }); o != nil {
			cp := o.real.Copy()
			c.logf("%s.Copy()", o.desc)
			if d := diffMD(cp, o.ref, !o.handBuilt); d != "" {
				c.viol("copy-differs", "%s.Copy() differs from the original: %s", o.desc, d)
			}
			if rng.Intn(2) == 0 {
				poisonMD(rng, cp)
				c.feats["copy-poisoned"] = true
				c.checkObj(o, "after-poison of Copy()")
			} else {
				n := c.newObj(cp, o.ref.clone(), o.handBuilt, "copy-of-"+o.desc)
				// mutate the original (if allowed): the copy must keep its contents
				if usable(o) {
					k := genKey(rng, c.nkeys)
					v := genVal(rng, &c.vctr)
					o.real.Append(k, v)
					o.ref[asciiLower(k)] = append(o.ref[asciiLower(k)], v)
					// the owner of an unattached MD may also overwrite its own elements
					for lk, vs := range o.real {
						if len(vs) > 0 {
							vs[0] = "overwritten-by-owner"
							o.ref[lk][0] = "overwritten-by-owner"
						}
					}
					c.logf("%s.Append(%q,%q) + overwrite of first elements after Copy", o.desc, k, v)
					c.feats["copy-then-mutate-original"] = true
				}
				c.checkObj(n, "after-poison: original mutated after Copy()")
			}
		}
	case 6: // Join
		var ins []*mdObj
		var mds []metadata.MD
		ref := model{}
		for n := rng.Intn(4); n > 0; n-- {
			if o := c.pickObj(helper); o != nil {
				ins = append(ins, o)
				mds = append(mds, o.real)
			}
		}
		for _, o := range ins {
			for k, v := range o.ref {
				ref[k] = append(ref[k], v...)
			}
		}
		var names []string
		for _, o := range ins {
			names = append(names, o.desc)
		}
		c.logf("Join(%s)", strings.Join(names, ","))
		j := c.newObj(metadata.Join(mds...), ref, false, "Join")
		if len(ins) >= 2 {
			c.feats["join-multi"] = true
		}
		c.checkObj(j, "after Join")
		for _, o := range ins {
			c.checkObj(o, "after Join (input)")
		}
	case 7, 8: // NewOutgoingContext on some context
		o := c.pickObj(func(*mdObj) bool { return true })
		if o == nil {
			o = c.makeObj()
		}
		parent := c.ctxs[rng.Intn(len(c.ctxs))]
		o.frozen = true
		x := &ctxObj{ctx: metadata.NewOutgoingContext(parent.ctx, o.real), outOK: true, outBase: o.ref.clone(),
			inOK: parent.inOK, inRef: parent.inRef, desc: fmt.Sprintf("ctx%d", len(c.ctxs))}
		c.logf("%s = NewOutgoingContext(%s, %s)", x.desc, parent.desc, o.desc)
		if parent.outOK {
			c.feats["new-outgoing-overwrites"] = true
		}
		if o.handBuilt {
			c.feats["outgoing-hand-built"] = true
		}
		c.ctxs = append(c.ctxs, x)
		c.checkCtx(x, "after NewOutgoingContext")
	case 9, 10, 11, 12: // AppendToOutgoingContext, preferring deep parents and creating siblings
		parent := c.ctxs[rng.Intn(len(c.ctxs))]
		if rng.Intn(3) > 0 { // prefer the deepest chain so far (chains up to 6+), or branch off it
			for _, p := range c.ctxs {
				if p.depth > parent.depth {
					parent = p
				}
			}
		}
		if parent.depth >= 7 {
			break
		}
		kids := 1
		if rng.Intn(3) == 0 {
			kids = 2 + rng.Intn(2) // siblings from the same parent must be independent
		}
		for kid := 0; kid < kids; kid++ {
			kv, low := c.genPairs(rng.Intn(4))
			x := &ctxObj{ctx: metadata.AppendToOutgoingContext(parent.ctx, kv...), outOK: true, outBase: parent.outBase,
				outAdd: append(append([][2]string{}, parent.outAdd...), low...), depth: parent.depth + 1,
				inOK: parent.inOK, inRef: parent.inRef, desc: fmt.Sprintf("ctx%d", len(c.ctxs))}
			c.logf("%s = AppendToOutgoingContext(%s, %q)", x.desc, parent.desc, kv)
			c.ctxs = append(c.ctxs, x)
			c.feats[fmt.Sprintf("append-depth-%d", x.depth)] = true
			if kid > 0 {
				c.feats[fmt.Sprintf("siblings-at-depth-%d", x.depth)] = true
			}
			for _, p := range low {
				if len(parent.outBase[p[0]]) > 0 {
					c.feats["append-key-also-in-base"] = true
				}
			}
			if !parent.outOK {
				c.feats["append-without-base"] = true
			}
			c.checkCtx(x, "after AppendToOutgoingContext")
		}
		c.checkCtx(parent, "again: parent after AppendToOutgoingContext")
	case 13: // NewIncomingContext
		o := c.pickObj(func(*mdObj) bool { return true })
		if o == nil {
			o = c.makeObj()
		}
		parent := c.ctxs[rng.Intn(len(c.ctxs))]
		o.frozen = true
		x := &ctxObj{ctx: metadata.NewIncomingContext(parent.ctx, o.real), outOK: parent.outOK, outBase: parent.outBase,
			outAdd: parent.outAdd, depth: parent.depth, inOK: true, inRef: o.ref.clone(), desc: fmt.Sprintf("ctx%d", len(c.ctxs))}
		c.logf("%s = NewIncomingContext(%s, %s)", x.desc, parent.desc, o.desc)
		if o.handBuilt {
			c.feats["incoming-hand-built"] = true
		}
		c.ctxs = append(c.ctxs, x)
		c.checkCtx(x, "after NewIncomingContext")
	default: // re-check an old context: earlier poisoning / later siblings must not show
		x := c.ctxs[rng.Intn(len(c.ctxs))]
		c.checkCtx(x, "again: old context")
	}
}

func runCase(r *vlib.Run, fam string, idx int) {
	rng := r.Rand(fam, idx)
	c := &caseRun{r: r, fam: fam, idx: idx, rng: rng, feats: map[string]bool{}, nkeys: 2 + rng.Intn(len(keyAlphabet)-1)}
	c.ctxs = []*ctxObj{{ctx: context.Background(), desc: "ctx0(background)"}}
	c.makeObj()
	nops := 10 + rng.Intn(50)
	for i := 0; i < nops && !c.bad; i++ {
		c.step()
	}
	// final sweep: every context and every MD must still read as the model says
	for _, x := range c.ctxs {
		if c.bad {
			break
		}
		c.checkCtx(x, "final")
	}
	for _, o := range c.objs {
		if c.bad {
			break
		}
		c.checkObj(o, "final")
	}
	r.Eval(1)
	r.Count("ops", int64(nops))
	r.Count("contexts", int64(len(c.ctxs)))
	r.Count("md_objects", int64(len(c.objs)))
	maxDepth := 0
	for _, x := range c.ctxs {
		if x.depth > maxDepth {
			maxDepth = x.depth
		}
	}
	r.Max("max_append_chain", int64(maxDepth))
	// non-trivial: at least one context carries appended pairs or a mixed-case hand-built map
	var fs []string
	for f := range c.feats {
		fs = append(fs, f)
		r.Nontrivial("feature:" + f)
	}
	sort.Strings(fs)
	// coarse shape of the context tree: deepest chain, deepest sibling split and the context-related flags
	sibDepth := 0
	for d := 1; d <= 8; d++ {
		if c.feats[fmt.Sprintf("siblings-at-depth-%d", d)] {
			sibDepth = d
		}
	}
	shape := fmt.Sprintf("shape:depth%d/sib%d", maxDepth, sibDepth)
	for _, f := range []string{"new-outgoing-overwrites", "append-without-base", "append-key-also-in-base", "outgoing-hand-built", "incoming-hand-built"} {
		if c.feats[f] {
			shape += "/" + f
		}
	}
	if maxDepth > 0 || c.feats["outgoing-hand-built"] || c.feats["incoming-hand-built"] {
		r.Nontrivial(shape)
	}
	if idx < 3 {
		r.Sample(map[string]any{"case": idx, "features": fs, "first_ops": tail(c.trace[:min(len(c.trace), 8)], 8)})
	}
}

func TestVerifC28(t *testing.T) {
	r := vlib.Start(t, "C28")
	const fam = "ops"
	n := r.N(30000, 600000)
	for i := 0; i < n; i++ {
		if !r.Want(fam, i) {
			continue
		}
		runCase(r, fam, i)
	}
	r.Finish(vlib.Spec{
		Level: "exploration",
		Rule: "PRNG operation sequences (10-60 ops) over New/Pairs/hand-built maps/Set/Append/Delete/Get/Copy/Join/NewOutgoingContext/AppendToOutgoingContext (chains up to 7, 2-3 siblings per parent)/NewIncomingContext/FromX/ValueFromX with mixed-case ASCII keys; every returned map/slice is poisoned and every context/MD is re-read at the end; distinct = feature flags seen (append depth d, siblings at depth d, overwrite, hand-built mixed case, key in base and appended, copy poisoned, ...) plus context-tree shapes (deepest chain, deepest sibling split, context flags) of cases that attached metadata",
		Assumptions: []string{
			"reference: ordered multimap keyed by the ASCII-lowercased key, written from the statement",
			"scope: ASCII keys; hand-built maps have one spelling per key; Set/Append never called with zero values; MDs attached to a context are not mutated afterwards",
			"ValueFromXContext results are treated as caller-owned copies like FromXContext results",
		},
		Floor: 40,
	})
}
