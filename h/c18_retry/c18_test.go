// C18: retries are bounded, policy-driven and replay the exact request.
//
// A real grpc.ClientConn (retryPolicy / retryThrottling from
// grpc.WithDefaultServiceConfig, WithMaxCallAttempts, MaxRetryRPCBufferSize)
// issues unary / client-streaming / bidi calls against a scripted raw HTTP/2
// server (engine E1) inside a synctest bubble.  The server audits, per wire
// attempt (= per HEADERS), the decoded request messages, END_STREAM and
// grpc-previous-rpc-attempts against the application's send history and answers
// per a PRNG plan.  The executable gRFC A6 reference in package retryplan then
// says for every attempt whether another attempt must / must not follow and
// how the call must end.  See retryplan/model.go for the deliberately weak
// spots of the reference.
package c18

import (
	"fmt"
	"os"
	"sort"
	"testing"
	"time"

	"google.golang.org/grpc/verif/retryplan"
	"google.golang.org/grpc/verif/vlib"
)

func light() int {
	if os.Getenv("VERIF_LIGHT") != "" {
		return 8
	}
	return 1
}

func has(props []string, p string) bool {
	for _, x := range props {
		if x == p {
			return true
		}
	}
	return false
}

// runFam returns false when a case got stuck (wall-clock guard): the run stops.
func runFam(t *testing.T, r *vlib.Run, fam string, bias retryplan.Bias, n int) bool {
	for i := 0; i < n; i++ {
		if !r.Want(fam, i) {
			continue
		}
		var sc retryplan.Scenario
		if fam == "replay-interrupted" {
			sc = retryplan.GenReplayInterrupted(r.Rand(fam, i), i)
		} else {
			sc = retryplan.Gen(r.Rand(fam, i), bias)
		}
		r.Progress(fam, i, fmt.Sprintf("rpcs=%d", len(sc.RPCs)))
		obs, ok := retryplan.RunGuarded(t, &sc, 3*time.Minute)
		if !ok {
			r.Inconclusive("case %s/%d did not finish within 3 min of wall-clock time (virtual time cannot advance: see retryplan.RunGuarded)", fam, i)
			return false
		}
		v := retryplan.Judge(&sc, obs)
		r.Eval(1)
		for _, f := range v.Findings {
			if has(f.Props, "C18") {
				r.Violation(f.Key, fam, i, map[string]any{"scenario": sc, "observed": obs}, "%s", f.Msg)
			}
		}
		keys := make([]string, 0, len(v.Counters))
		for k := range v.Counters {
			keys = append(keys, k)
		}
		sort.Strings(keys)
		for _, k := range keys {
			r.Count(k, v.Counters[k])
		}
		for _, s := range v.RetrySigs {
			r.Nontrivial(s)
		}
		if i < 2 {
			r.Sample(map[string]any{"family": fam, "scenario": sc, "retry_signatures": v.RetrySigs, "conns": obs.Conns})
		}
	}
	return true
}

func TestVerifC18(t *testing.T) {
	r := vlib.Start(t, "C18")
	// must-hit prefix (not reduced by VERIF_LIGHT): retry attempts answered while
	// the client is still replaying buffered sends
	_ = runFam(t, r, "replay-interrupted", retryplan.Bias{}, r.N(2*retryplan.MustHitVariants, 10*retryplan.MustHitVariants)) &&
		runFam(t, r, "mixed", retryplan.BiasMixed, r.N(3000, 40000)/light()) &&
		runFam(t, r, "throttled", retryplan.BiasThrottle, r.N(600, 8000)/light())
	r.Finish(vlib.Spec{
		Level: "exploration",
		Rule: "family replay-interrupted (fixed prefix, 40 variants x shapes/final answers, repeated): retryPolicy{UNAVAILABLE}, attempt 1 failed trailers-only UNAVAILABLE after the whole request, retry attempt(s) answered on HEADERS (non-retryable code / UNAVAILABLE at maxAttempts / headers+messages+OK / RST / headers+message+failure) while the replay of a >64 KiB first message plus 1-2 more sends blocks on a 16-byte stream window; other families per case: random retryPolicy (maxAttempts 2-7, 1-4 codes, backoff) or none, WithMaxCallAttempts unset/1-6, retryThrottling on/off, WithDisableRetry (4%), then 1-4 (family throttled: 5-14) sequential calls: unary / client-streaming / bidi (one or two application goroutines), 0-5 messages of 0-5000 bytes with think times, CloseSend or not, MaxRetryRPCBufferSize default or at/around the cumulative message sizes, deadline 1-60 s; the scripted server answers wire attempt w per plan (trailers-only(code[,pushback valid/negative/malformed/multiple]), headers-then-trailers, headers+message-then-fail, RST(REFUSED/CANCEL/INTERNAL/ENHANCE_YOUR_CALM), GOAWAY below the id, silence, OK) after HEADERS / after the k-th message / after END_STREAM; " +
			"oracles: every received message equals the application's message at that position, END_STREAM only after the whole history, a live attempt at quiescence holds exactly the completed sends; grpc-previous-rpc-attempts == non-transparent attempts before; A6 reference decides retry must/must-not/may for every attempt (committed, headers seen, code, pushback, throttle interval, maxAttempts=min(policy,cap), transparent once for the first unprocessed wire attempt) and the allowed final status / delivered messages; non-trivial = a call with >=1 retry decision; distinct = (shape, buffer, throttle, sequence of (server action, code, decision reason))",
		Assumptions: []string{
			"the scripted server executes its plan faithfully (harness code); its frame log is the record",
			"RST_STREAM codes map to statuses per the gRPC-over-HTTP/2 spec (REFUSED_STREAM->UNAVAILABLE, CANCEL->CANCELLED, ENHANCE_YOUR_CALM->RESOURCE_EXHAUSTED, other->INTERNAL)",
			"'a retry must happen when A6 allows it' is part of the reference although the statement only says 'only if' (A6 is the documented design)",
			"token accounting for failures after response headers / after commit / at the deadline is left open (interval model)",
		},
		Floor: 60,
	})
}
