// C42: ADS requests carry correct versions, nonces and subscriptions; the first
// request of a stream carries the node; a response is read only after every
// watcher finished with the previous one.
//
// The real generic xDS client (internal/xds/clients/xdsclient) runs unmodified
// on the scripted transport of engine E6 (h/xdsfake) inside testing/synctest
// bubbles.  Every DiscoveryRequest the client sends and every Recv call is
// judged against xdsfake.ProtoModel, a reference protocol state written from the
// xDS protocol specification and the property statement (see its doc comment
// for the R2 readings).  Script steps are separated by synctest.Wait(), so
// "at quiescence" facts are exact and no verdict depends on wall-clock time.
package c42

import (
	"fmt"
	"math/rand"
	"sort"
	"strings"
	"testing"
	"testing/synctest"
	"time"

	"google.golang.org/grpc/verif/vlib"
	x "google.golang.org/grpc/verif/xdsfake"
)

type detail struct {
	Config x.SimConfig `json:"config"`
	Steps  []string    `json:"steps"`
	Tail   []string    `json:"log_tail"`
}

type caseOut struct {
	findings []x.Finding
	stats    map[string]int
	feat     map[string]int
	det      detail
	steps    int
}

// prelude i: deterministic openings that make sure every seed exercises the
// main protocol situations (the "must-hit" prefix).
func prelude(i int, s *x.Sim, g *x.Gen) [][2]any {
	var st [][2]any
	add := func(note string, f func()) { st = append(st, [2]any{note, f}) }
	w := func(typ, name string, hold bool) *x.Watcher { return s.NewWatcher(typ, name, hold) }
	switch i % 7 {
	case 0: // ACK, NACK (previous version), identical, restart keeps version and clears nonce
		a := w(x.TypeURLA, "r0", false)
		add("watch r0", func() { a.Start(s.C) })
		add("respond valid", func() { s.W.Server(0).Respond(g.MakeResponse(0, x.TypeURLA, "valid")) })
		add("respond invalid", func() { s.W.Server(0).Respond(g.MakeResponse(0, x.TypeURLA, "invalid")) })
		add("break", func() { s.W.Server(0).Break() })
		add("respond valid on new stream", func() { s.W.Server(0).Respond(g.MakeResponse(0, x.TypeURLA, "valid")) })
	case 1: // held done blocks the next Recv; release unblocks it
		a := w(x.TypeURLA, "r1", true)
		add("watch r1 (holds done)", func() { a.Start(s.C) })
		add("burst of two", func() {
			s.W.Server(0).Respond(g.MakeResponse(0, x.TypeURLA, "valid"))
			s.W.Server(0).Respond(g.MakeResponse(0, x.TypeURLA, "valid"))
		})
		add("release", func() { s.ReleaseAll() })
		add("release", func() { s.ReleaseAll() })
	case 2: // subscribe / unsubscribe, two types, unsubscribe-all
		a := w(x.TypeURLA, "r0", false)
		b := w(x.TypeURLA, "r2", false)
		c := w(x.TypeURLB, "r3", false)
		add("watch r0", func() { a.Start(s.C) })
		add("watch r2", func() { b.Start(s.C) })
		add("watch B/r3", func() { c.Start(s.C) })
		add("respond A", func() { s.W.Server(0).Respond(g.MakeResponse(0, x.TypeURLA, "valid")) })
		add("cancel r0", func() { a.Stop() })
		add("cancel B/r3", func() { c.Stop() })
		add("respond B empty", func() { s.W.Server(0).Respond(g.MakeResponse(0, x.TypeURLB, "empty")) })
	case 3: // stream that fails before any response, reconnect after backoff
		a := w(x.TypeURLB, "r4", false)
		add("watch B/r4", func() { a.Start(s.C) })
		add("break before response", func() { s.W.Server(0).Break() })
		add("sleep 3s", func() { s.W.Add(x.Event{Kind: x.EvScript, Note: "sleep"}); s.Sleep(3e9) })
		add("respond", func() { s.W.Server(0).Respond(g.MakeResponse(0, x.TypeURLB, "valid")) })
	case 4: // first response rejected: NACK with empty version
		a := w(x.TypeURLA, "r5", true)
		add("watch r5", func() { a.Start(s.C) })
		add("respond invalid", func() { s.W.Server(0).Respond(g.MakeResponse(0, x.TypeURLA, "invalid")) })
		add("release", func() { s.ReleaseAll() })
		add("respond garbage", func() { s.W.Server(0).Respond(g.MakeResponse(0, x.TypeURLA, "garbage")) })
		add("release", func() { s.ReleaseAll() })
	case 6: // cached SotW-complete resource, then a response in which every resource is undecodable, slow watcher
		a := w(x.TypeURLA, "r2", true)
		b := w(x.TypeURLA, "r3", true)
		add("watch r2 (holds done)", func() { a.Start(s.C) })
		add("watch r3 (holds done)", func() { b.Start(s.C) })
		add("respond valid", func() { s.W.Server(0).Respond(g.MakeResponse(0, x.TypeURLA, "valid")) })
		add("release", func() { s.ReleaseAll() })
		add("all-undecodable response followed by a valid one", func() {
			s.W.Server(0).Respond(g.MakeResponse(0, x.TypeURLA, "all-garbage"))
			s.W.Server(0).Respond(g.MakeResponse(0, x.TypeURLA, "valid"))
		})
		add("release one", func() { a.Release(0) })
		add("release all", func() { s.ReleaseAll() })
		add("release all", func() { s.ReleaseAll() })
	case 5: // NewStream failing, then recovering
		a := w(x.TypeURLA, "r0", false)
		add("stream-fail on", func() { s.W.Server(0).SetStreamFail(true) })
		add("watch r0", func() { a.Start(s.C) })
		add("sleep 5s", func() { s.W.Add(x.Event{Kind: x.EvScript, Note: "sleep"}); s.Sleep(5e9) })
		add("stream-fail off", func() { s.W.Server(0).SetStreamFail(false) })
		add("sleep 150s", func() { s.W.Add(x.Event{Kind: x.EvScript, Note: "sleep"}); s.Sleep(150e9) })
		add("respond", func() { s.W.Server(0).Respond(g.MakeResponse(0, x.TypeURLA, "valid")) })
	}
	return st
}

// sharedPrelude drives the two-authority configuration (top-level: srv-0 then
// srv-1; authority b: srv-1 only) into the state "top-level authority fell back
// to srv-1, whose channel it shares with b; srv-0 is back": from there a
// response of srv-0 makes the top-level authority revert while srv-1 may have a
// response in flight.
func sharedPrelude(i int, s *x.Sim, g *x.Gen) [][2]any {
	var st [][2]any
	add := func(note string, f func()) { st = append(st, [2]any{note, f}) }
	a := s.NewWatcher(x.TypeURLA, "r0", false)
	b := s.NewWatcher(x.TypeURLA, "xdstp://b/verif.xdsfake.TypeA/q0", i%3 == 2)
	add("stream-fail srv0 on", func() { s.W.Server(0).SetStreamFail(true) })
	add("watch r0 (falls back to srv1)", func() { a.Start(s.C) })
	add("watch b/q0 (shares srv1)", func() { b.Start(s.C) })
	add("respond srv1", func() { s.W.Server(1).Respond(g.MakeResponse(1, x.TypeURLA, "valid")) })
	add("release", func() { s.ReleaseAll() })
	add("stream-fail srv0 off", func() { s.W.Server(0).SetStreamFail(false) })
	add("sleep 150s (srv0 reconnects)", func() { s.W.Add(x.Event{Kind: x.EvScript, Note: "sleep"}); s.Sleep(150e9) })
	if i%3 != 1 {
		add("simultaneous srv0 + srv1", func() {
			r0 := g.MakeResponse(0, x.TypeURLA, "valid")
			r1 := g.MakeResponse(1, x.TypeURLA, "valid")
			if !s.W.RespondOrdered(s.W.Server(0), r0, s.W.Server(1), r1) {
				s.W.Server(0).Respond(r0)
				s.W.Server(1).Respond(r1)
			}
		})
		add("release", func() { s.ReleaseAll() })
	}
	return st
}

func runCase(t *testing.T, fam string, i int, rng *rand.Rand) caseOut {
	var out caseOut
	synctest.Test(t, func(t *testing.T) {
		cfg := x.SimConfig{Servers: 1, NodeID: fmt.Sprintf("node-%d", i)}
		opts := x.GenOpts{Names: []string{"r0", "r1", "r2", "r3", "r4", "r5"}, HoldProb: 0.35, MaxWatchers: 8,
			Batch: true, Burst: true, Garbage: true, AllGarbage: true, StreamFail: true}
		steps := 25 + rng.Intn(30)
		switch fam {
		case "proto":
			opts.UnknownType = i%4 == 3 // ends the case with the unknown-type situation (see below)
		case "shared":
			// two authorities sharing srv-1: top-level [srv-0, srv-1], "b" [srv-1]
			cfg = x.SimConfig{Servers: 2, AuthB: []int{1}, NodeID: fmt.Sprintf("node-%d", i)}
			opts.NamesB = []string{"xdstp://b/verif.xdsfake.TypeA/q0", "xdstp://b/verif.xdsfake.TypeA/q1"}
			opts.Simultaneous = true
			opts.Batch = false
			opts.HoldProb = 0.15
			opts.Weights = map[string]int{"simultaneous": 25, "break": 10, "stream-fail": 8, "sleep": 14}
		}
		s, err := x.NewSim(cfg)
		if err != nil {
			t.Fatalf("xdsclient.New: %v", err)
		}
		defer s.Close()
		pm := x.NewProtoModel(s)
		g := x.NewGen(s, rng, opts)
		out.det.Config = cfg
		do := func(note string, f func()) bool {
			out.det.Steps = append(out.det.Steps, note)
			evs := s.Step(note, f)
			out.steps++
			pm.Feed(evs)
			if fs := pm.Take(); len(fs) > 0 {
				out.findings = fs
				out.det.Tail = s.W.Tail(80)
				return false
			}
			return true
		}
		ok := true
		if fam == "shared" {
			for _, p := range sharedPrelude(i, s, g) {
				if ok = do(p[0].(string), p[1].(func())); !ok {
					break
				}
			}
		}
		if fam == "proto" {
			for _, p := range prelude(i, s, g) {
				if ok = do(p[0].(string), p[1].(func())); !ok {
					break
				}
			}
		}
		unknownSent := false
		for k := 0; ok && k < steps; k++ {
			note, f := g.Next()
			ok = do(note, f)
			if strings.Contains(note, "unknown-type") {
				unknownSent = true
				break
			}
		}
		if ok && !unknownSent {
			ok = do("final: release all", func() { s.ReleaseAll() })
		}
		if ok && unknownSent {
			// the stream must go on reading once nobody holds a done
			if ok = do("release all after unknown-type response", func() { s.ReleaseAll() }); ok {
				ok = do("release all again", func() { s.ReleaseAll() })
			}
		}
		out.stats = pm.Stats
		out.feat = g.Feat
	})
	return out
}

func signature(o caseOut) string {
	var bits []string
	on := func(name string, c bool) {
		if c {
			bits = append(bits, name)
		}
	}
	st := o.stats
	on("ack", st["acks"] > 0)
	on("nack", st["nacks"] > 0)
	on("restart+version", st["restart_requests_with_version"] > 0)
	on("multi-stream", st["streams"] > 1)
	on("held-done-blocked-recv", st["quiescent_recv_blocked_by_held_done"] > 0)
	on("recv-after-done", st["recv_after_all_done"] > 0)
	on("unsubscribe-all", st["unsubscribe_all_requests"] > 0)
	on("unknown-type", st["responses_unknown_type"] > 0)
	on("send-failed", st["sends_failed"] > 0)
	on("batch", o.feat["batch"] > 0)
	on("burst", o.feat["burst"] > 0)
	on("simultaneous", o.feat["simultaneous"] > 0)
	sort.Strings(bits)
	return strings.Join(bits, "+")
}

func TestVerifC42(t *testing.T) {
	r := vlib.Start(t, "C42")
	stop := r.Watchdog(time.Duration(r.N(20, 60)) * time.Minute)
	defer stop()
	for _, fam := range []string{"proto", "shared"} {
		n := r.N(240, 4000)
		if fam == "shared" {
			n = r.N(120, 2000)
		}
		for i := 0; i < n; i++ {
			if !r.Want(fam, i) {
				continue
			}
			rng := r.Rand(fam, i)
			r.Progress(fam, i, "")
			o := runCase(t, fam, i, rng)
			r.Eval(1)
			for k, v := range o.stats {
				r.Count(k, int64(v))
			}
			r.Count("steps", int64(o.steps))
			if o.stats["assumption_broken_response_before_request"] > 0 {
				r.Inconclusive("harness defect: the scripted server answered a type before it was requested on that stream (family %s case %d)", fam, i)
			}
			for _, f := range o.findings {
				r.Violation(f.Key, fam, i, o.det, "%s", f.Msg)
			}
			if o.stats["requests_judged"] >= 3 && (o.stats["acks"] > 0 || o.stats["nacks"] > 0) {
				r.Nontrivial(fam + ":" + signature(o))
			}
			if i < 2 && fam == "proto" {
				r.Sample(map[string]any{"family": fam, "case": i, "steps": o.det.Steps, "stats": o.stats})
			}
		}
	}
	r.Finish(vlib.Spec{
		Level: "fault_enumeration",
		Rule: "PRNG-generated scripts (25-55 steps after a deterministic prelude that rotates over 7 protocol situations) of watch/cancel (1-6 names, 2 types, single and concurrent batches), " +
			"server responses (valid, identical, subset, one invalid, one undecodable, all undecodable, empty, extra name, unknown type, bursts), stream breaks before/after the first response, NewStream failures, virtual-time sleeps (backoff, 15 s expiry) and watchers that park their done callbacks; " +
			"family 'shared': two authorities sharing one server with simultaneous responses. Every DiscoveryRequest and every Recv call is judged; quiescent checks after every step. " +
			"non-trivial = >=3 requests judged and >=1 ACK/NACK; distinct = family + set of protocol situations the case actually reached (ack, nack, restart with retained version, held done blocking Recv, unsubscribe-all, unknown type, failed send, batch, burst, simultaneous)",
		Assumptions: []string{
			"the scripted server never sends a response of a registered type before it received a request of that type on that stream",
			"testing/synctest: synctest.Wait() returns only when every goroutine of the client is durably blocked; timers run on virtual time",
			"a request may carry the pre-response (version, nonce) until the ACK/NACK of the response just read is sent; names of a request sent during a step may be any subset of the names watched during that step, exactness is required at quiescence",
			"the error class of a watcher callback is recognised from the client's documented error texts",
		},
		Floor: 8,
	})
}
