package c14

// Half (b): a real grpc server with gated handlers drained gracefully
// (GracefulStop, or MaxConnectionAge) at a script-chosen point while scripted
// HTTP/2 clients keep opening streams before, between and after the two
// GOAWAY frames.

import (
	"context"
	"fmt"
	"math/rand"
	"os"
	"runtime"
	"strconv"
	"sync"
	"testing/synctest"
	"time"

	"golang.org/x/net/http2"
	"google.golang.org/grpc"
	"google.golang.org/grpc/codes"
	"google.golang.org/grpc/keepalive"
	"google.golang.org/grpc/metadata"
	"google.golang.org/grpc/status"
	"google.golang.org/grpc/tap"
	"google.golang.org/grpc/verif/vlib"
	"google.golang.org/grpc/verif/wire"
)

type bstep struct {
	K string        `json:"k"` // open | release | rst | drain | ack | sleep | wait
	C int           `json:"c,omitempty"`
	N int           `json:"n,omitempty"`
	D time.Duration `json:"d,omitempty"`
}

type bscenario struct {
	Mode    string        `json:"mode"` // gstop | maxage
	Age     time.Duration `json:"age,omitempty"`
	NConn   int           `json:"nconn"`
	AutoAck bool          `json:"auto_ack"` // the scripted clients ack the drain PING at once
	Seed    int64         `json:"seed"`
	// Yield > 0 installs a tap handle (runs inside the transport's header
	// processing) that yields the processor that many times: a collaborator we own
	// that stretches the window between accepting a stream and registering it.
	Yield int     `json:"yield,omitempty"`
	Steps []bstep `json:"steps"`
}

func genServer(rng *rand.Rand) bscenario {
	sc := bscenario{Mode: vlib.Pick(rng, "gstop", "gstop", "gstop", "maxage"), NConn: vlib.Pick(rng, 1, 1, 2), AutoAck: rng.Intn(2) == 0, Seed: rng.Int63()}
	if sc.Mode == "maxage" {
		sc.Age = vlib.Pick(rng, 10*time.Second, time.Minute)
	}
	sc.Yield = vlib.Pick(rng, 0, 0, 0, 20, 200)
	n := 8 + rng.Intn(28)
	drainAt := rng.Intn(n)
	for k := 0; k < n; k++ {
		if k == drainAt {
			sc.Steps = append(sc.Steps, bstep{K: "drain"})
			continue
		}
		c := rng.Intn(sc.NConn)
		switch r := rng.Intn(100); {
		case r < 38:
			sc.Steps = append(sc.Steps, bstep{K: "open", C: c, N: 1 + rng.Intn(4)})
		case r < 55:
			sc.Steps = append(sc.Steps, bstep{K: "release", N: 1 + rng.Intn(3)})
		case r < 60:
			sc.Steps = append(sc.Steps, bstep{K: "rst", C: c})
		case r < 70:
			sc.Steps = append(sc.Steps, bstep{K: "ack", C: c})
		case r < 80:
			sc.Steps = append(sc.Steps, bstep{K: "sleep", D: vlib.Pick(rng, time.Millisecond, time.Second, 4999*time.Millisecond, 5*time.Second, 6*time.Second)})
		default:
			sc.Steps = append(sc.Steps, bstep{K: "wait"})
		}
	}
	return sc
}

// genServerRace is a directed template for the window between the drain PING's
// ack and the final GOAWAY: streams are opened, and an older stream is reset,
// in the same burst as the ack.
func genServerRace(rng *rand.Rand) bscenario {
	sc := bscenario{Mode: "gstop", NConn: 1, AutoAck: false, Seed: rng.Int63(), Yield: vlib.Pick(rng, 0, 10, 100, 1000)}
	sc.Steps = append(sc.Steps, bstep{K: "open", N: 1 + rng.Intn(3)}, bstep{K: "wait"}, bstep{K: "drain"}, bstep{K: "wait"})
	if rng.Intn(3) == 0 {
		sc.Steps = append(sc.Steps, bstep{K: "open", N: 1 + rng.Intn(2)}, bstep{K: "wait"})
	}
	burst := []bstep{{K: "ack"}, {K: vlib.Pick(rng, "rst", "release", "release"), N: 3}, {K: "open", N: 1 + rng.Intn(4)}}
	if rng.Intn(2) == 0 { // the ack last: streams precede it
		burst[0], burst[2] = burst[2], burst[0]
	}
	if rng.Intn(2) == 0 {
		burst = append(burst, bstep{K: vlib.Pick(rng, "rst", "release"), N: 1}, bstep{K: "open", N: 1 + rng.Intn(2)})
	}
	sc.Steps = append(sc.Steps, burst...)
	return sc
}

type bstream struct {
	key      string
	conn     int
	id       uint32
	code     codes.Code
	gate     chan struct{}
	released bool
	rst      bool
	phase    string // before | between | after (relative to the GOAWAYs already READ when it was opened)
	// filled by the handler (under mu)
	runs      int
	cancelled bool
}

type bconn struct {
	idx      int
	peer     *wire.Peer
	nextID   uint32
	pingData *[8]byte // drain PING seen and not yet acked
	acked    bool
}

func runServer(sc bscenario) *result {
	res := newResult()
	v := res.v
	rng := rand.New(rand.NewSource(sc.Seed))
	var (
		mu      sync.Mutex
		streams = map[string]*bstream{}
		order   []*bstream
	)
	handler := func(_ any, ss grpc.ServerStream) error {
		md, _ := metadata.FromIncomingContext(ss.Context())
		key := ""
		if k := md.Get("x-key"); len(k) > 0 {
			key = k[0]
		}
		mu.Lock()
		s := streams[key]
		if s != nil {
			s.runs++
		}
		mu.Unlock()
		if s == nil {
			return status.Error(codes.Internal, "unknown stream key")
		}
		select {
		case <-s.gate:
		case <-ss.Context().Done():
			mu.Lock()
			s.cancelled = true
			mu.Unlock()
			return status.FromContextError(ss.Context().Err()).Err()
		}
		if err := ss.SendMsg([]byte("resp " + key)); err != nil {
			return err
		}
		if s.code != codes.OK {
			return status.Error(s.code, "handler status")
		}
		return nil
	}
	// static windows: no BDP pings, so every PING the server sends is the drain PING
	opts := []grpc.ServerOption{grpc.StaticStreamWindowSize(1 << 16), grpc.StaticConnWindowSize(1 << 16)}
	if sc.Yield > 0 {
		opts = append(opts, grpc.InTapHandle(func(ctx context.Context, _ *tap.Info) (context.Context, error) {
			for i := 0; i < sc.Yield; i++ {
				runtime.Gosched()
			}
			return ctx, nil
		}))
	}
	if sc.Mode == "maxage" {
		opts = append(opts, grpc.KeepaliveParams(keepalive.ServerParameters{MaxConnectionAge: sc.Age}))
	}
	fx := wire.NewServerFixture(handler, opts...)
	fx.Serve()
	var conns []*bconn
	for i := 0; i < sc.NConn; i++ {
		p, err := fx.Connect()
		if err != nil {
			v("harness", "connect: %v", err)
			return res
		}
		c := &bconn{idx: i, peer: p, nextID: 1}
		p.AutoPingAck = false
		p.OnFrame = func(e wire.Entry) {
			if e.Type != http2.FramePing || e.Ack() {
				return
			}
			if sc.AutoAck {
				p.WritePing(true, e.Ping)
				return
			}
			mu.Lock()
			d := e.Ping
			c.pingData = &d
			mu.Unlock()
		}
		if err := p.Start(); err != nil {
			v("harness", "start: %v", err)
			return res
		}
		conns = append(conns, c)
	}
	synctest.Wait()

	goawaysRead := func(c *bconn) int {
		n := 0
		for _, e := range c.peer.Log() {
			if e.Dir == wire.In && e.Type == http2.FrameGoAway {
				n++
			}
		}
		return n
	}
	openStream := func(c *bconn) {
		if ended, _ := c.peer.ReadEnded(); ended {
			return
		}
		id := c.nextID
		c.nextID += 2
		s := &bstream{key: fmt.Sprintf("%d:%d", c.idx, id), conn: c.idx, id: id, gate: make(chan struct{}),
			code: vlib.Pick(rng, codes.OK, codes.OK, codes.NotFound, codes.Aborted, codes.DataLoss)}
		switch goawaysRead(c) {
		case 0:
			s.phase = "before"
		case 1:
			s.phase = "between"
		default:
			s.phase = "after"
		}
		mu.Lock()
		streams[s.key] = s
		order = append(order, s)
		mu.Unlock()
		hdr := wire.RequestHeaders("/verif.GA/Drain", wire.F("x-key", s.key))
		if rng.Intn(2) == 0 {
			c.peer.WriteHeaders(id, true, 0, hdr...)
		} else {
			c.peer.WriteHeaders(id, false, 0, hdr...)
			c.peer.WriteData(id, wire.Msg([]byte("req")), true, -1)
		}
	}
	ackPing := func(c *bconn) {
		mu.Lock()
		d := c.pingData
		c.pingData = nil
		mu.Unlock()
		if d != nil {
			c.peer.WritePing(true, *d)
		}
	}
	release := func(s *bstream) {
		if !s.released {
			s.released = true
			close(s.gate)
		}
	}
	stopReturned := false
	var stopMu sync.Mutex
	draining := false
	var wg sync.WaitGroup
	startDrain := func() {
		if draining {
			return
		}
		draining = true
		if sc.Mode == "gstop" {
			wg.Add(1)
			go func() {
				defer wg.Done()
				fx.S.GracefulStop()
				stopMu.Lock()
				stopReturned = true
				stopMu.Unlock()
			}()
		} else {
			// MaxConnectionAge (+-10% jitter) elapses in virtual time
			time.Sleep(sc.Age + sc.Age/5)
		}
	}
	for _, st := range sc.Steps {
		switch st.K {
		case "open":
			for k := 0; k < st.N; k++ {
				openStream(conns[st.C])
			}
		case "release":
			mu.Lock()
			var cand []*bstream
			for _, s := range order {
				if !s.released {
					cand = append(cand, s)
				}
			}
			mu.Unlock()
			for k := 0; k < st.N && len(cand) > 0; k++ {
				j := rng.Intn(len(cand))
				release(cand[j])
				cand = append(cand[:j], cand[j+1:]...)
			}
		case "rst":
			mu.Lock()
			var cand []*bstream
			for _, s := range order {
				if s.conn == st.C && !s.rst && !s.released {
					cand = append(cand, s)
				}
			}
			mu.Unlock()
			if len(cand) > 0 {
				s := cand[rng.Intn(len(cand))]
				s.rst = true
				conns[st.C].peer.WriteRST(s.id, http2.ErrCodeCancel)
			}
		case "drain":
			startDrain()
		case "ack":
			ackPing(conns[st.C])
		case "sleep":
			time.Sleep(st.D)
			synctest.Wait()
		case "wait":
			synctest.Wait()
		}
	}
	startDrain()
	// ---- let the drain finish: ack the PINGs, release every handler ----
	allEnded := func() bool {
		for _, c := range conns {
			if ended, _ := c.peer.ReadEnded(); !ended {
				return false
			}
		}
		return true
	}
	for round := 0; round < 30; round++ {
		synctest.Wait()
		for _, c := range conns {
			ackPing(c)
		}
		mu.Lock()
		for _, s := range order {
			release(s)
		}
		mu.Unlock()
		time.Sleep(2 * time.Second)
		synctest.Wait()
		if allEnded() {
			break
		}
	}
	synctest.Wait()
	if sc.Mode == "gstop" {
		stopMu.Lock()
		ok := stopReturned
		stopMu.Unlock()
		if !ok {
			v("graceful-stop-did-not-return", "every handler was released and every drain PING acked, yet GracefulStop has not returned (connections ended: %v)", allEnded())
		}
	}

	// ---- verdicts per connection, from the wire log and the handler records ----
	mu.Lock()
	if os.Getenv("VERIF_DEBUG") != "" {
		for _, c := range conns {
			for _, e := range c.peer.Log() {
				fmt.Printf("DBG conn%d %s\n", c.idx, e.String())
			}
		}
		for _, s := range order {
			fmt.Printf("DBG stream %s phase=%s runs=%d cancelled=%v rst=%v code=%v\n", s.key, s.phase, s.runs, s.cancelled, s.rst, s.code)
		}
	}
	for _, c := range conns {
		log := c.peer.Log()
		var goaways []wire.Entry
		pingAfterFirst := false
		hdrSeq, hdrAt := map[uint32]int{}, map[uint32]time.Duration{} // when the scripted client wrote a stream's HEADERS
		lastAckSeq := -1                                              // the last PING ack written before the final GOAWAY was read
		trailers := map[uint32]*wire.Entry{}
		data := map[uint32][]byte{}
		responded := map[uint32]bool{} // the server sent HEADERS or DATA on the stream (RST_STREAM is a refusal, not a response)
		for i := range log {
			e := &log[i]
			if e.Dir != wire.In {
				switch {
				case e.Type == http2.FrameHeaders:
					hdrSeq[e.Stream], hdrAt[e.Stream] = e.Seq, e.At
				case e.Type == http2.FramePing && e.Ack() && len(goaways) == 1:
					lastAckSeq = e.Seq
				}
				continue
			}
			switch e.Type {
			case http2.FrameGoAway:
				goaways = append(goaways, *e)
			case http2.FramePing:
				if !e.Ack() && len(goaways) == 1 {
					pingAfterFirst = true
				}
			case http2.FrameHeaders:
				responded[e.Stream] = true
				if e.EndStream() {
					if trailers[e.Stream] != nil {
						v("stream-ended-twice", "conn %d stream %d: two END_STREAM header blocks", c.idx, e.Stream)
					}
					trailers[e.Stream] = e
				}
			case http2.FrameData:
				responded[e.Stream] = true
				data[e.Stream] = append(data[e.Stream], e.Data...)
			}
		}
		if len(goaways) == 0 {
			v("no-goaway-on-drain", "conn %d: the server was drained (%s) but never sent GOAWAY", c.idx, sc.Mode)
			continue
		}
		res.counters["connections_drained"]++
		first := goaways[0]
		if first.LastID != maxInt31 || first.Code != http2.ErrCodeNo {
			v("first-goaway-not-maxint", "conn %d: graceful drain must start with GOAWAY(2^31-1, NO_ERROR); got %s", c.idx, first)
		}
		if len(goaways) < 2 {
			v("no-final-goaway", "conn %d: only %s was sent; the final GOAWAY carrying the last accepted stream id never came although the drain PING was acked", c.idx, first)
			continue
		}
		if len(goaways) > 2 {
			v("too-many-goaways", "conn %d: %d GOAWAY frames", c.idx, len(goaways))
		}
		if !pingAfterFirst {
			v("no-ping-between-goaways", "conn %d: no PING between the first and the final GOAWAY", c.idx)
		}
		final := goaways[len(goaways)-1]
		F := final.LastID
		maxOpened, maxHandled := uint32(0), uint32(0)
		for _, s := range order {
			if s.conn != c.idx {
				continue
			}
			maxOpened = max(maxOpened, s.id)
			res.counters["streams_opened_"+s.phase]++
			if s.runs > 1 {
				v("handler-ran-twice", "conn %d stream %d: the handler ran %d times", c.idx, s.id, s.runs)
			}
			if s.runs > 0 || responded[s.id] {
				maxHandled = max(maxHandled, s.id)
			}
			if s.id > F {
				res.counters["streams_above_final_id"]++
				if s.runs > 0 {
					v("handler-ran-above-final-id", "conn %d: a handler ran for stream %d although the final GOAWAY announced last-stream-id %d", c.idx, s.id, F)
				}
				if responded[s.id] {
					v("response-above-final-id", "conn %d: the server answered stream %d although the final GOAWAY announced last-stream-id %d", c.idx, s.id, F)
				}
				continue
			}
			// accepted stream: must be served to completion with the handler's status
			res.counters["streams_accepted"]++
			if s.rst {
				continue // the scripted client cancelled it
			}
			if s.runs != 1 {
				v("accepted-stream-not-run", "conn %d stream %d (<= final GOAWAY id %d, opened %s the GOAWAYs) : handler ran %d times", c.idx, s.id, F, s.phase, s.runs)
				continue
			}
			tr := trailers[s.id]
			if tr == nil && !responded[s.id] &&
				(lastAckSeq >= 0 && hdrSeq[s.id] > lastAckSeq || lastAckSeq < 0 && hdrAt[s.id] == final.At) {
				// Class of a known defect: the stream's HEADERS raced with the creation of the
				// final GOAWAY (written after the drain PING's ack, or at the instant of the
				// fallback timer), the GOAWAY id covers it, the handler ran, and yet the
				// connection was closed without a single response frame for it.
				v("stream-covered-by-final-goaway-lost-in-race", "conn %d stream %d (<= final GOAWAY id %d): its HEADERS were written after the drain PING ack (log seq %d > %d, at %v; final GOAWAY read at %v); the handler ran (saw cancellation: %v), but the server closed the connection without any response frame for it", c.idx, s.id, F, hdrSeq[s.id], lastAckSeq, hdrAt[s.id], final.At, s.cancelled)
				res.counters["accepted_streams_lost_in_final_goaway_race"]++
				continue
			}
			if tr == nil {
				v("accepted-stream-not-completed", "conn %d stream %d (<= final GOAWAY id %d): the handler ran but no trailers reached the client (handler saw cancellation: %v)", c.idx, s.id, F, s.cancelled)
				continue
			}
			if gs, _ := tr.Field("grpc-status"); gs != strconv.Itoa(int(s.code)) {
				v("wrong-status", "conn %d stream %d: trailers carry grpc-status %q, the handler returned %d (%v)", c.idx, s.id, gs, int(s.code), s.code)
			}
			msgs, _, rest := wire.SplitMsgs(data[s.id])
			if len(msgs) != 1 || len(rest) != 0 || string(msgs[0]) != "resp "+s.key {
				v("wrong-response", "conn %d stream %d: response messages %q (rest %d bytes), want exactly [%q]", c.idx, s.id, msgs, len(rest), "resp "+s.key)
			}
			res.counters["accepted_streams_completed"]++
		}
		if F != 0 && F > maxOpened {
			v("final-goaway-id-not-a-stream", "conn %d: final GOAWAY last-stream-id %d, but the client never opened a stream above %d", c.idx, F, maxOpened)
		} else if F != maxHandled {
			v("final-goaway-id-not-highest-accepted", "conn %d: final GOAWAY last-stream-id %d, but the highest stream for which a handler ran or a response was produced is %d", c.idx, F, maxHandled)
		}
	}
	mu.Unlock()

	for _, c := range conns {
		c.peer.Close()
	}
	fx.S.Stop()
	wg.Wait()
	for _, c := range conns {
		<-c.peer.Done()
	}
	if res.counters["connections_drained"] > 0 {
		res.sig = fmt.Sprintf("server/%s/autoack=%v/conns=%d/before=%d/between=%d/after=%d/above=%v", sc.Mode, sc.AutoAck, sc.NConn,
			min(res.counters["streams_opened_before"], 3), min(res.counters["streams_opened_between"], 3), min(res.counters["streams_opened_after"], 3), res.counters["streams_above_final_id"] > 0)
	}
	return res
}
