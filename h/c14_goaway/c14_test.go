// C14: GOAWAY and graceful drain never lose or double-run accepted work.
// Engine E1 inside synctest bubbles; two halves (client_test.go, server_test.go).
package c14

import (
	"fmt"
	"os"
	"sort"
	"testing"
	"testing/synctest"

	"google.golang.org/grpc/verif/vlib"
)

type result struct {
	viol     [][2]string
	counters map[string]int64
	sig      string
	v        func(key, f string, a ...any)
}

func newResult() *result {
	r := &result{counters: map[string]int64{}}
	r.v = func(key, f string, a ...any) { r.viol = append(r.viol, [2]string{key, fmt.Sprintf(f, a...)}) }
	return r
}

func light() int {
	if os.Getenv("VERIF_LIGHT") != "" {
		return 8
	}
	return 1
}

func report(r *vlib.Run, fam string, i int, sc any, res *result) {
	r.Eval(1)
	for _, x := range res.viol {
		r.Violation(x[0], fam, i, sc, "%s", x[1])
	}
	keys := make([]string, 0, len(res.counters))
	for k := range res.counters {
		keys = append(keys, k)
	}
	sort.Strings(keys)
	for _, k := range keys {
		if k == "connections" {
			r.Max(fam+"_max_connections", res.counters[k])
			continue
		}
		r.Count(fam+"_"+k, res.counters[k])
	}
	if res.sig != "" {
		r.Nontrivial(res.sig)
	}
	if i < 2 {
		r.Sample(map[string]any{"family": fam, "scenario": sc, "counters": res.counters, "signature": res.sig})
	}
}

func TestVerifC14(t *testing.T) {
	r := vlib.Start(t, "C14")
	n := r.N(1200, 15000) / light()
	for i := 0; i < n; i++ {
		if !r.Want("client", i) {
			continue
		}
		sc := genClient(r.Rand("client", i))
		r.Progress("client", i, fmt.Sprintf("rpcs=%d mcs=%d steps=%d", sc.NRPC, sc.MCS, len(sc.Steps)))
		var res *result
		synctest.Test(t, func(t *testing.T) { res = runClient(sc) })
		report(r, "client", i, sc, res)
	}
	n = r.N(600, 8000) / light()
	for i := 0; i < n; i++ {
		if !r.Want("client-trap", i) {
			continue
		}
		sc := genClientTrap(r.Rand("client-trap", i))
		r.Progress("client-trap", i, fmt.Sprintf("rpcs=%d trap=%v steps=%d", sc.NRPC, sc.Trap, len(sc.Steps)))
		var res *result
		synctest.Test(t, func(t *testing.T) { res = runClient(sc) })
		if res.sig != "" {
			res.sig = "trap-" + res.sig
		}
		report(r, "client-trap", i, sc, res)
	}
	n = r.N(600, 8000) / light()
	for i := 0; i < n; i++ {
		if !r.Want("client-swap", i) {
			continue
		}
		sc := genClientSwap(r.Rand("client-swap", i))
		r.Progress("client-swap", i, fmt.Sprintf("rpcs=%d steps=%d", sc.NRPC, len(sc.Steps)))
		var res *result
		synctest.Test(t, func(t *testing.T) { res = runClient(sc) })
		if res.sig != "" {
			res.sig = "swap-" + res.sig
		}
		report(r, "client-swap", i, sc, res)
	}
	n = r.N(1200, 15000) / light()
	for i := 0; i < n; i++ {
		if !r.Want("server", i) {
			continue
		}
		sc := genServer(r.Rand("server", i))
		r.Progress("server", i, fmt.Sprintf("mode=%s conns=%d steps=%d", sc.Mode, sc.NConn, len(sc.Steps)))
		var res *result
		synctest.Test(t, func(t *testing.T) { res = runServer(sc) })
		report(r, "server", i, sc, res)
	}
	n = r.N(600, 8000) / light()
	for i := 0; i < n; i++ {
		if !r.Want("server-race", i) {
			continue
		}
		sc := genServerRace(r.Rand("server-race", i))
		r.Progress("server-race", i, fmt.Sprintf("steps=%d", len(sc.Steps)))
		var res *result
		synctest.Test(t, func(t *testing.T) { res = runServer(sc) })
		if res.sig != "" {
			res.sig = "race-" + res.sig
		}
		report(r, "server-race", i, sc, res)
	}
	r.Finish(vlib.Spec{
		Level: "exploration",
		Rule:  "client: 4-31 RPCs (one request, one response) on a real channel whose every dial lands on a scripted server (optionally MAX_CONCURRENT_STREAMS 1/2/5); bursts of steps without quiescence in between: start RPCs, GOAWAY with last-stream-id in {0, highest answered, random odd, highest seen, above it, 2^31-1, even, larger than the previous one, same, lower}, answer accepted streams, sleeps; the scripted servers answer every stream not above their smallest valid GOAWAY id; verdicts: no new stream on a connection after quiescence with GOAWAY, at most one accepted attempt per RPC, an RPC whose accepted attempt was answered finishes OK with exactly that answer, an RPC whose only begun attempt (stats.Handler ledger) was on the wire above the id must begin a transparent retry (no grpc-previous-rpc-attempts), every RPC ends OK or UNAVAILABLE, invalid GOAWAYs tear the connection down; client-trap: the same with GOAWAY(0) pushing RPCs onto connections whose server answers the first HEADERS with GOAWAY(0) from its reader goroutine, optionally with a stats.Handler that yields in OutHeader (widens the window between stream creation and the replayed SendMsg); client-swap: a manual resolver replaces the only address while streams are in flight, so the client GracefulClose()s that transport itself; only then its scripted server sends a single GOAWAY(N) (0 / highest answered / random odd / highest seen) and never answers the streams above N; same verdicts (streams above N must end: a retry is begun or UNAVAILABLE, never left open); server: real server, 1-2 scripted client connections, gated handlers with scripted statuses, GracefulStop or MaxConnectionAge at a random step while streams are opened before/between/after the GOAWAYs, drain PING acked at once, at a scripted step or never before the 5 s fallback; verdicts: GOAWAY(2^31-1) then PING then final GOAWAY(F), F = highest stream with a handler run or response, no handler/response above F, every stream <= F not reset by the client ran once and completed with its handler's status and message; server-race: directed bursts {PING ack, reset/finish of an older stream, new streams} right after the first GOAWAY, optionally with a tap handle that yields inside header processing; non-trivial = a stream was above a GOAWAY id or an accepted stream completed after a GOAWAY (client) / a connection was drained (server); distinct = (mcs, connections, GOAWAY classes, retried, unavailable, racing) resp. (mode, ack mode, connections, streams opened before/between/after capped at 3, streams above F)",
		Assumptions: []string{
			"the yielding stats.Handler / tap handle only perturb scheduling (public callbacks, no state touched); no verdict depends on them",
			"the scripted server is consistent: it never declares unprocessed a stream it has already answered, and it answers every stream it accepted",
			"attempts are counted at a public boundary (stats.Handler Begin events per x-rid), including attempts that never reach the wire; 'must be retried' is judged only for an RPC of which the channel began exactly one attempt, that attempt being on the wire above a valid GOAWAY id (gRFC A6: one transparent retry once the RPC reached the wire); an RPC that was retried and then ended UNAVAILABLE is allowed by the statement",
			"an even non-zero last-stream-id is treated as a connection error as DESIGN.md §4 C14 prescribes (RFC 7540: the id names a client-initiated stream)",
		},
		Floor: 30,
	})
}
