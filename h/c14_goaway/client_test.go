package c14

// Half (a): a real grpc client against scripted HTTP/2 servers that send
// GOAWAY(N) variants while RPCs race.  Every dial of the channel lands on a
// fresh scripted connection (wire.ClientFixture).

import (
	"context"
	"fmt"
	"io"
	"math/rand"
	"os"
	"runtime"
	"sort"
	"strconv"
	"strings"
	"sync"
	"testing/synctest"
	"time"

	"golang.org/x/net/http2"
	"google.golang.org/grpc"
	"google.golang.org/grpc/codes"
	"google.golang.org/grpc/metadata"
	"google.golang.org/grpc/resolver"
	"google.golang.org/grpc/resolver/manual"
	"google.golang.org/grpc/stats"
	"google.golang.org/grpc/status"
	"google.golang.org/grpc/verif/vlib"
	"google.golang.org/grpc/verif/wire"
)

const maxInt31 = uint32(1<<31 - 1)

type astep struct {
	K string        `json:"k"`           // start | goaway | complete | headers | sleep | wait | swap
	N int           `json:"n,omitempty"` // count
	V string        `json:"v,omitempty"` // goaway variant
	T string        `json:"t,omitempty"` // goaway target: "" = newest live connection, "old" = oldest live connection
	D time.Duration `json:"d,omitempty"`
}

type ascenario struct {
	Seed int64 `json:"seed"`
	NRPC int   `json:"nrpc"`
	MCS  int   `json:"mcs"` // SETTINGS_MAX_CONCURRENT_STREAMS of every scripted connection, -1 = none
	// Trap lists connection indices whose scripted server answers the first
	// HEADERS it reads with GOAWAY(0) at once (from its reader goroutine): the
	// GOAWAY races with whatever the client does next on that fresh stream.
	Trap []int `json:"trap,omitempty"`
	// Yield > 0 installs a stats.Handler whose OutHeader callback (run by the
	// transport right after a new stream was registered and its HEADERS queued)
	// yields the processor that many times: a collaborator we own that widens the
	// window between creating a stream and the RPC's next operation on it.
	Yield int `json:"yield,omitempty"`
	// Swap: the channel gets a manual resolver; a "swap" step replaces the only
	// address, so pick_first shuts the old subchannel down and its transport is
	// GracefulClose()d by the client while streams may still run on it.
	Swap  bool    `json:"swap,omitempty"`
	Steps []astep `json:"steps"`
}

// genClientSwap: streams are in flight on a connection that the CLIENT drains
// (address replaced by the resolver -> subchannel shutdown -> GracefulClose);
// only then does its scripted server send a single GOAWAY(N), N typically below
// some in-flight stream, and never answers the streams above N.
func genClientSwap(rng *rand.Rand) ascenario {
	sc := ascenario{Seed: rng.Int63(), NRPC: 6 + rng.Intn(16), MCS: -1, Swap: true}
	sc.Steps = append(sc.Steps, astep{K: "start", N: 2 + rng.Intn(5)}, astep{K: "wait"})
	if rng.Intn(2) == 0 {
		sc.Steps = append(sc.Steps, astep{K: vlib.Pick(rng, "complete", "headers"), N: 1}, astep{K: "wait"})
	}
	sc.Steps = append(sc.Steps, astep{K: "swap"})
	if rng.Intn(4) != 0 {
		sc.Steps = append(sc.Steps, astep{K: "wait"}) // otherwise the GOAWAY races with the client-side drain
	}
	if rng.Intn(2) == 0 {
		sc.Steps = append(sc.Steps, astep{K: "start", N: 1 + rng.Intn(3)})
	}
	sc.Steps = append(sc.Steps, astep{K: "goaway", T: "old", V: vlib.Pick(rng, "zero", "touched", "touched", "mid", "mid", "max")}, astep{K: "wait"})
	n := rng.Intn(10)
	for k := 0; k < n; k++ {
		switch r := rng.Intn(100); {
		case r < 25:
			sc.Steps = append(sc.Steps, astep{K: "start", N: 1 + rng.Intn(3)})
		case r < 40:
			sc.Steps = append(sc.Steps, astep{K: "goaway", T: vlib.Pick(rng, "old", "old", ""), V: vlib.Pick(rng, "zero", "touched", "mid", "max", "lower", "same", "maxint")})
		case r < 50:
			sc.Steps = append(sc.Steps, astep{K: "swap"})
		case r < 75:
			sc.Steps = append(sc.Steps, astep{K: "complete", N: 1 + rng.Intn(3)})
		default:
			sc.Steps = append(sc.Steps, astep{K: "wait"})
		}
	}
	return sc
}

// genClientTrap: RPCs are pushed off connection 0 by GOAWAY(0) and land, as
// transparent retries, on trap connections.
func genClientTrap(rng *rand.Rand) ascenario {
	sc := ascenario{Seed: rng.Int63(), NRPC: 6 + rng.Intn(14), MCS: -1, Trap: vlib.Pick(rng, []int{1}, []int{1}, []int{1, 2}, []int{1, 3}), Yield: vlib.Pick(rng, 0, 50, 500, 2000)}
	sc.Steps = append(sc.Steps, astep{K: "start", N: 2 + rng.Intn(5)}, astep{K: "wait"}, astep{K: "goaway", V: "zero"})
	if rng.Intn(2) == 0 {
		sc.Steps = append(sc.Steps, astep{K: "start", N: 1 + rng.Intn(3)})
	}
	sc.Steps = append(sc.Steps, astep{K: "wait"})
	n := rng.Intn(10)
	for k := 0; k < n; k++ {
		switch r := rng.Intn(100); {
		case r < 35:
			sc.Steps = append(sc.Steps, astep{K: "start", N: 1 + rng.Intn(3)})
		case r < 55:
			sc.Steps = append(sc.Steps, astep{K: "goaway", V: vlib.Pick(rng, "zero", "touched", "mid", "max")})
		case r < 75:
			sc.Steps = append(sc.Steps, astep{K: "complete", N: 1 + rng.Intn(3)})
		default:
			sc.Steps = append(sc.Steps, astep{K: "wait"})
		}
	}
	return sc
}

func genClient(rng *rand.Rand) ascenario {
	sc := ascenario{Seed: rng.Int63(), NRPC: 4 + rng.Intn(28), MCS: vlib.Pick(rng, -1, -1, -1, 1, 2, 5)}
	sc.Steps = append(sc.Steps, astep{K: "start", N: 1 + rng.Intn(6)}, astep{K: "wait"})
	n := 8 + rng.Intn(30)
	for k := 0; k < n; k++ {
		switch r := rng.Intn(100); {
		case r < 24:
			sc.Steps = append(sc.Steps, astep{K: "start", N: 1 + rng.Intn(4)})
		case r < 44:
			sc.Steps = append(sc.Steps, astep{K: "goaway", V: vlib.Pick(rng, "zero", "touched", "mid", "mid", "max", "max", "above", "maxint", "maxint", "same", "lower", "lower", "even", "larger")})
		case r < 58:
			sc.Steps = append(sc.Steps, astep{K: "complete", N: 1 + rng.Intn(3)})
		case r < 64:
			sc.Steps = append(sc.Steps, astep{K: "headers", N: 1})
		case r < 70:
			sc.Steps = append(sc.Steps, astep{K: "sleep", D: vlib.Pick(rng, time.Millisecond, time.Second, 3*time.Second)})
		default:
			sc.Steps = append(sc.Steps, astep{K: "wait"})
		}
	}
	return sc
}

// attemptLedger is a stats.Handler (public observation boundary): it counts,
// per RPC (x-rid of the outgoing metadata), the attempts the channel BEGINS -
// including those that never reach the wire (failed NewStream, HEADERS orphaned
// in the control buffer) - and how many of them were announced as transparent
// retries.  Optionally it yields inside OutHeader (see ascenario.Yield).
type attemptLedger struct {
	yield int
	mu    sync.Mutex
	begun map[int]int
	trans map[int]int
}

type ridKey struct{}

func (l *attemptLedger) TagRPC(ctx context.Context, _ *stats.RPCTagInfo) context.Context {
	rid := -1
	if md, ok := metadata.FromOutgoingContext(ctx); ok {
		if v := md.Get("x-rid"); len(v) > 0 {
			rid, _ = strconv.Atoi(v[0])
		}
	}
	return context.WithValue(ctx, ridKey{}, rid)
}
func (*attemptLedger) TagConn(ctx context.Context, _ *stats.ConnTagInfo) context.Context { return ctx }
func (*attemptLedger) HandleConn(context.Context, stats.ConnStats)                       {}
func (l *attemptLedger) HandleRPC(ctx context.Context, s stats.RPCStats) {
	switch e := s.(type) {
	case *stats.Begin:
		rid, _ := ctx.Value(ridKey{}).(int)
		l.mu.Lock()
		l.begun[rid]++
		if e.IsTransparentRetryAttempt {
			l.trans[rid]++
		}
		l.mu.Unlock()
	case *stats.OutHeader:
		for i := 0; i < l.yield; i++ {
			runtime.Gosched()
		}
	}
}

type attempt struct {
	conn      int
	id        uint32
	prevHdr   string // grpc-previous-rpc-attempts, "" when absent
	touched   bool   // the script sent response headers / data / trailers
	completed bool   // the script sent the response message and OK trailers
	payload   string
	clientRST bool
	rid       int
	openSeen  bool // already reported as left open above a GOAWAY id
}

type aconn struct {
	idx        int
	peer       *wire.Peer
	fed        int
	streams    map[uint32]*attempt
	order      []uint32
	maxSeen    uint32
	maxTouched uint32
	goaways    []uint32 // ids of the GOAWAYs written, in order
	validN     int64    // smallest valid last-stream-id announced, -1 = none
	poisoned   bool     // a GOAWAY that must be treated as a connection error was written and not yet judged
	poisonKey  string
	poisonWhy  string
	hadInvalid bool // some invalid GOAWAY was written on this connection (its RPCs are judged leniently)
	swappedOut bool // existed when the resolver replaced the address: the client GracefulClose()s it
	trap       bool // answers its first HEADERS with GOAWAY(0) from the reader goroutine
	trapFired  bool // that GOAWAY has been seen in the log (main goroutine's view)
	sealedAt   int  // log length at the first quiescent point after the first GOAWAY, -1 = not yet
	ended      bool
	endJudged  bool
}

type arpc struct {
	idx      int
	started  bool
	racing   bool // started in a burst that also contains a GOAWAY
	finished bool
	code     codes.Code
	errText  string
	msgs     []string
	cancel   context.CancelFunc
	attempts []*attempt
}

func runClient(sc ascenario) *result {
	res := newResult()
	v := res.v
	ledger := &attemptLedger{yield: sc.Yield, begun: map[int]int{}, trans: map[int]int{}}
	dopts := []grpc.DialOption{grpc.WithIdleTimeout(0), grpc.WithStatsHandler(ledger)}
	var mr *manual.Resolver
	swaps := 0
	if sc.Swap {
		// overrides the passthrough scheme of the fixture's target for this channel only
		mr = manual.NewBuilderWithScheme("passthrough")
		mr.InitialState(resolver.State{Addresses: []resolver.Address{{Addr: "srv-0"}}})
		dopts = append(dopts, grpc.WithResolvers(mr))
	}
	fx, err := wire.NewClientFixture(dopts...)
	if err != nil {
		v("harness", "fixture: %v", err)
		return res
	}
	var (
		mu    sync.Mutex // guards conns (appended by the acceptor) and rpc outcome fields
		conns []*aconn
		wg    sync.WaitGroup
		stop  = make(chan struct{})
	)
	// acceptor: every dial of the channel becomes a scripted server connection
	accDone := make(chan struct{})
	go func() {
		defer close(accDone)
		for {
			select {
			case c := <-fx.AcceptCh():
				p := wire.NewPeer(c, true)
				var init []http2.Setting
				if sc.MCS >= 0 {
					init = append(init, http2.Setting{ID: http2.SettingMaxConcurrentStreams, Val: uint32(sc.MCS)})
				}
				mu.Lock()
				idx := len(conns) // only this goroutine appends
				mu.Unlock()
				ac := &aconn{idx: idx, peer: p, streams: map[uint32]*attempt{}, validN: -1, sealedAt: -1}
				for _, t := range sc.Trap {
					ac.trap = ac.trap || t == ac.idx
				}
				if ac.trap {
					fired := false // reader goroutine only
					p.OnFrame = func(e wire.Entry) {
						if e.Type == http2.FrameHeaders && !fired {
							fired = true
							p.WriteGoAway(0, http2.ErrCodeNo, "trap")
						}
					}
				}
				if err := p.Start(init...); err != nil {
					c.Close()
					continue
				}
				// visible to the script only once the server preface (SETTINGS) is written
				mu.Lock()
				conns = append(conns, ac)
				mu.Unlock()
			case <-stop:
				return
			}
		}
	}()
	fx.CC.Connect()
	synctest.Wait()

	rpcs := make([]*arpc, sc.NRPC)
	for i := range rpcs {
		rpcs[i] = &arpc{idx: i}
	}
	next := 0
	startRPC := func(i int) {
		r := rpcs[i]
		ctx, cancel := context.WithCancel(metadata.AppendToOutgoingContext(context.Background(), "x-rid", strconv.Itoa(i)))
		r.started, r.cancel = true, cancel
		wg.Add(1)
		go func() {
			defer wg.Done()
			var msgs []string
			st, err := fx.CC.NewStream(ctx, &grpc.StreamDesc{ClientStreams: true, ServerStreams: true}, "/verif.GA/Call")
			ok := false
			if err == nil {
				// SendMsg returning io.EOF only says that the stream has ended: the
				// real status comes from RecvMsg.
				if serr := st.SendMsg([]byte("req-" + strconv.Itoa(i))); serr == nil {
					st.CloseSend()
				} else if serr != io.EOF {
					err = serr
				}
				for err == nil {
					var m []byte
					if err = st.RecvMsg(&m); err == nil {
						msgs = append(msgs, string(m))
					}
				}
				ok = err == io.EOF // RecvMsg: io.EOF <=> status OK
			}
			mu.Lock()
			r.finished, r.msgs = true, msgs
			r.code, r.errText = status.Code(err), fmt.Sprint(err)
			if ok {
				r.code = codes.OK
			}
			mu.Unlock()
		}()
	}

	variants := map[string]bool{}
	snapshot := func() []*aconn { mu.Lock(); defer mu.Unlock(); return append([]*aconn(nil), conns...) }
	// ingest feeds new log entries of every connection into the audit state.
	ingest := func() {
		for _, c := range snapshot() {
			log := c.peer.LogFrom(c.fed)
			for i := range log {
				e := &log[i]
				switch {
				case e.Dir == wire.In && e.Type == http2.FrameHeaders:
					rid := -1
					if s, ok := e.Field("x-rid"); ok {
						rid, _ = strconv.Atoi(s)
					}
					a := &attempt{conn: c.idx, id: e.Stream, rid: rid}
					a.prevHdr, _ = e.Field("grpc-previous-rpc-attempts")
					c.streams[e.Stream] = a
					c.order = append(c.order, e.Stream)
					if e.Stream > c.maxSeen {
						c.maxSeen = e.Stream
					}
					if rid >= 0 && rid < len(rpcs) {
						rpcs[rid].attempts = append(rpcs[rid].attempts, a)
					}
					res.counters["streams_on_wire"]++
					if a.prevHdr != "" {
						v("transparent-retry-counted", "conn %d stream %d (rpc %d) carries grpc-previous-rpc-attempts=%q although no retry policy is configured: only transparent retries are possible and they must not be counted", c.idx, e.Stream, rid, a.prevHdr)
					}
					if c.sealedAt >= 0 && e.Seq >= c.sealedAt {
						v("new-stream-after-goaway", "conn %d: stream %d (rpc %d) was opened after the client had quiesced with GOAWAY(%v) received on that connection: %s", c.idx, e.Stream, rid, c.goaways, e)
					}
				case e.Dir == wire.Out && e.Type == http2.FrameGoAway && e.Debug == "trap":
					c.trapFired = true
					c.goaways = append(c.goaways, 0)
					c.validN = 0
					variants["trap"] = true
					res.counters["goaways_sent"]++
				case e.Dir == wire.In && e.Type == http2.FrameRSTStream:
					if a := c.streams[e.Stream]; a != nil {
						a.clientRST = true
					}
				case e.Dir == wire.In && e.Type == wire.TypeConnEnd:
					c.ended = true
				}
			}
			c.fed += len(log)
		}
	}
	// accepted reports whether the scripted server of conn c is bound to process stream id.
	accepted := func(c *aconn, id uint32) bool { return c.validN < 0 || int64(id) <= c.validN }
	respond := func(c *aconn, a *attempt, full bool) {
		if !a.touched {
			c.peer.WriteHeaders(a.id, false, 0, wire.ResponseHeaders()...)
			a.touched = true
			if a.id > c.maxTouched {
				c.maxTouched = a.id
			}
		}
		if full && !a.completed {
			a.payload = fmt.Sprintf("resp conn=%d stream=%d", c.idx, a.id)
			c.peer.WriteData(a.id, wire.Msg([]byte(a.payload)), false, -1)
			c.peer.WriteHeaders(a.id, true, 0, wire.Trailers(0, "")...)
			a.completed = true
			res.counters["streams_completed_by_script"]++
			if len(c.goaways) > 0 {
				res.counters["accepted_streams_completed_after_goaway"]++
			}
		}
	}
	openAccepted := func(c *aconn) []*attempt {
		var out []*attempt
		if c.trap && !c.trapFired {
			return nil // its server has not decided yet what it accepts
		}
		for _, id := range c.order {
			if a := c.streams[id]; !a.completed && !a.clientRST && accepted(c, id) {
				out = append(out, a)
			}
		}
		return out
	}
	current := func() *aconn {
		cs := snapshot()
		for i := len(cs) - 1; i >= 0; i-- {
			if !cs[i].ended && !cs[i].poisoned {
				return cs[i]
			}
		}
		return nil
	}
	quiesce := func() {
		synctest.Wait()
		ingest()
		res.counters["quiescent_checks"]++
		for _, c := range snapshot() {
			if c.validN >= 0 && c.sealedAt < 0 {
				c.sealedAt = c.peer.Len()
			}
			if c.poisoned {
				if c.ended {
					res.counters["invalid_goaway_tore_connection_down"]++
				} else {
					v(c.poisonKey, "conn %d: %s, but the client still has the connection open at quiescence (GOAWAY ids so far %v)", c.idx, c.poisonWhy, c.goaways)
					res.counters["invalid_goaway_ignored_by_client"]++
				}
				// From here on the connection is served again as if the invalid frame had
				// not been sent (that is how a client that did not tear it down behaves).
				c.poisoned = false
			}
			// Streams above a valid GOAWAY id must have ended at the client by the
			// quiescent point after the GOAWAY: their RPC has returned or the channel
			// has begun a further attempt for it (every GOAWAY the script knows of was
			// written before this quiescent point, hence handled by the client).
			if c.validN >= 0 && !c.hadInvalid && !c.ended {
				for _, id := range c.order {
					a := c.streams[id]
					if int64(id) <= c.validN || a.clientRST || a.openSeen || a.rid < 0 || a.rid >= len(rpcs) {
						continue
					}
					mu.Lock()
					fin := rpcs[a.rid].finished
					mu.Unlock()
					ledger.mu.Lock()
					b := ledger.begun[a.rid]
					ledger.mu.Unlock()
					// b == 1: the channel began a single attempt for this RPC, so this stream is
					// it (no reliance on the order in which the readers of different
					// connections logged their frames).
					if !fin && b == 1 {
						a.openSeen = true
						v("stream-above-goaway-id-left-open", "conn %d stream %d (rpc %d) is above the GOAWAY id %v the client has quiesced with, but it is the only attempt the channel ever began for its RPC, and the RPC has not returned: the stream was not failed as unprocessed", c.idx, id, a.rid, c.goaways)
					}
				}
			}
			// Once the resolver has swapped the address away, the client itself closes
			// connections without any GOAWAY (including ones whose handshake was still
			// in progress at the swap and that the script cannot tell apart): this
			// sanity verdict - not part of the statement - is then not taken.
			if c.ended && len(c.goaways) == 0 && !c.endJudged && swaps == 0 {
				c.endJudged = true
				v("conn-closed-without-goaway", "conn %d was closed by the client although the scripted server never sent GOAWAY", c.idx)
			}
		}
	}
	oddAtMost := func(x uint32) uint32 {
		if x == 0 {
			return 0
		}
		if x%2 == 0 {
			return x - 1
		}
		return x
	}
	sendGoAway := func(variant string, rng *rand.Rand, target string) {
		ingest()
		c := current()
		if target == "old" {
			for _, o := range snapshot() {
				if !o.ended && !o.poisoned {
					c = o
					break
				}
			}
		}
		if c == nil || c.trap && !c.trapFired {
			return
		}
		if c.swappedOut {
			res.counters["goaways_on_client_drained_conn"]++
		}
		ingest() // use what the reader has logged so far (racing streams may be missing: that is the point)
		lo := c.maxTouched
		var id uint32
		first := c.validN < 0 // no valid GOAWAY so far (ignored invalid ones do not count)
		prev := uint32(0)
		if !first {
			prev = uint32(c.validN)
		}
		switch variant {
		case "zero":
			id = lo // 0 unless streams were already answered
		case "touched":
			id = lo
		case "mid":
			hi := c.maxSeen
			if !first && prev < hi {
				hi = prev
			}
			id = lo
			if hi > lo {
				id = oddAtMost(lo + uint32(rng.Intn(int(hi-lo)+1)))
				if id < lo {
					id = lo
				}
			}
		case "max":
			id = max(c.maxSeen, lo)
		case "above":
			id = max(c.maxSeen, lo) + 2*uint32(1+rng.Intn(3))
			if id%2 == 0 {
				id++
			}
		case "maxint":
			id = maxInt31
		case "same":
			if first {
				id = max(c.maxSeen, lo)
			} else {
				id = prev
			}
		case "lower":
			if first || prev <= lo {
				id = lo
			} else {
				id = oddAtMost(lo + uint32(rng.Intn(int(prev-lo)+1)))
				if id < lo {
					id = lo
				}
			}
		case "even":
			id = max(c.maxSeen, lo) + 1
			if id%2 == 1 {
				id++
			}
		case "larger":
			if first || prev >= maxInt31 {
				id = max(c.maxSeen, lo)
			} else {
				id = prev + 2
				if id%2 == 0 {
					id++
				}
			}
		}
		// classify from the statement, not from the variant name
		switch {
		case id != 0 && id%2 == 0:
			c.poisoned, c.hadInvalid, c.poisonKey, c.poisonWhy = true, true, "goaway-even-id-not-conn-error", fmt.Sprintf("GOAWAY with the even non-zero last-stream-id %d was sent, which must tear the connection down", id)
			variants["even"] = true
		case !first && id > prev:
			c.poisoned, c.hadInvalid, c.poisonKey, c.poisonWhy = true, true, "goaway-larger-id-not-conn-error", fmt.Sprintf("GOAWAY(%d) was sent after GOAWAY(%d): a larger id is a connection error", id, prev)
			variants["larger"] = true
		default:
			if id < lo { // never declare unprocessed what the script already answered
				id = lo
			}
			c.validN = int64(id)
			switch {
			case !first:
				variants["second"] = true
			case id == maxInt31:
				variants["maxint"] = true
			case id == 0:
				variants["zero"] = true
			case id >= c.maxSeen:
				variants["all"] = true
			default:
				variants["partial"] = true
			}
		}
		c.goaways = append(c.goaways, id)
		res.counters["goaways_sent"]++
		c.peer.WriteGoAway(id, http2.ErrCodeNo, "verif")
	}

	rng := rand.New(rand.NewSource(sc.Seed))
	// bursts: steps between two "wait"/"sleep" steps run without quiescence in between
	burstHasGoAway := func(from int) bool {
		for k := from; k < len(sc.Steps) && sc.Steps[k].K != "wait" && sc.Steps[k].K != "sleep"; k++ {
			if sc.Steps[k].K == "goaway" {
				return true
			}
		}
		return false
	}
	burstStart := 0
	for si, st := range sc.Steps {
		switch st.K {
		case "start":
			racing := burstHasGoAway(burstStart)
			for k := 0; k < st.N && next < len(rpcs); k++ {
				rpcs[next].racing = racing
				startRPC(next)
				next++
			}
		case "goaway":
			sendGoAway(st.V, rng, st.T)
		case "swap":
			if mr != nil {
				for _, c := range snapshot() {
					c.swappedOut = true
				}
				swaps++
				res.counters["address_swaps"]++
				mr.UpdateState(resolver.State{Addresses: []resolver.Address{{Addr: fmt.Sprintf("srv-%d", swaps)}}})
			}
		case "complete", "headers":
			ingest()
			var cand []*aconn
			for _, c := range snapshot() {
				if !c.ended && !c.poisoned && len(openAccepted(c)) > 0 {
					cand = append(cand, c)
				}
			}
			if len(cand) > 0 {
				c := cand[rng.Intn(len(cand))]
				oa := openAccepted(c)
				for k := 0; k < st.N && len(oa) > 0; k++ {
					j := rng.Intn(len(oa))
					respond(c, oa[j], st.K == "complete")
					oa = append(oa[:j], oa[j+1:]...)
				}
			}
		case "sleep":
			time.Sleep(st.D)
			quiesce()
			burstStart = si + 1
		case "wait":
			quiesce()
			burstStart = si + 1
		}
	}
	// ---- drain: start the rest, answer everything the scripted servers accepted ----
	for next < len(rpcs) {
		startRPC(next)
		next++
	}
	// ends when every RPC has returned, or after 5 consecutive rounds (5 virtual
	// seconds each preceded by exact quiescence) in which nothing was left to answer
	for round, idle := 0, 0; round < 400 && idle < 5; round++ {
		time.Sleep(time.Second) // lets timers of the channel (re-dial) elapse
		quiesce()
		did := false
		for _, c := range snapshot() {
			if c.ended || c.poisoned {
				continue
			}
			for _, a := range openAccepted(c) {
				respond(c, a, true)
				did = true
			}
		}
		if did {
			idle = 0
			continue
		}
		idle++
		mu.Lock()
		all := true
		for _, r := range rpcs {
			all = all && r.finished
		}
		mu.Unlock()
		if all {
			break
		}
	}
	quiesce()

	// ---- final verdicts per RPC ----
	cs := snapshot()
	mu.Lock()
	ledger.mu.Lock()
	begun, trans := ledger.begun, ledger.trans // every RPC goroutine has quiesced
	ledger.mu.Unlock()
	if os.Getenv("VERIF_DEBUG") != "" {
		for _, c := range cs {
			for _, e := range c.peer.Log() {
				fmt.Printf("DBG conn%d %s\n", c.idx, e.String())
			}
		}
		for _, r := range rpcs {
			fmt.Printf("DBG rpc %d finished=%v code=%v err=%q msgs=%q attempts_begun=%d transparent=%d wire_attempts=%d\n", r.idx, r.finished, r.code, r.errText, r.msgs, begun[r.idx], trans[r.idx], len(r.attempts))
		}
	}
	retried, unavailable, okCount := int64(0), int64(0), int64(0)
	for _, r := range rpcs {
		var acc []*attempt
		onPoisoned := false
		for _, a := range r.attempts {
			c := cs[a.conn]
			if c.hadInvalid {
				onPoisoned = true
			}
			if accepted(c, a.id) {
				acc = append(acc, a)
			} else {
				res.counters["unprocessed_attempts"]++
				if c.swappedOut {
					res.counters["unprocessed_attempts_on_client_drained_conn"]++
				}
			}
		}
		desc := func() string {
			var parts []string
			for _, a := range r.attempts {
				c := cs[a.conn]
				parts = append(parts, fmt.Sprintf("conn%d/stream%d(goaways=%v accepted=%v answered=%v)", a.conn, a.id, c.goaways, accepted(c, a.id), a.completed))
			}
			return strings.Join(parts, " -> ")
		}
		if len(r.attempts) > 1 {
			retried++
		}
		if len(acc) > 1 {
			v("accepted-work-rerun", "rpc %d reached the application logic of %d scripted servers (streams not above any GOAWAY id): %s", r.idx, len(acc), desc())
		}
		if !r.finished {
			v("rpc-never-finished", "rpc %d has not returned although every accepted stream was answered and new connections were served: %s", r.idx, desc())
			continue
		}
		switch r.code {
		case codes.OK:
			okCount++
			answered := false
			for _, a := range r.attempts {
				answered = answered || a.touched
			}
			switch {
			case len(r.msgs) == 0 && !answered && begun[r.idx] >= 2:
				// Class of a known defect: the RPC was retried (the channel began a
				// second attempt) and the new attempt died before the buffered SendMsg
				// was replayed on it.
				v("rpc-ok-although-never-answered-after-retry", "rpc %d finished OK (RecvMsg returned io.EOF) with no response message although no scripted server ever answered any of its streams: %s", r.idx, desc())
				res.counters["rpcs_ok_without_any_answer"]++
			case len(r.msgs) != 1:
				v("response-count", "rpc %d finished OK with %d response messages %q, want exactly 1: %s", r.idx, len(r.msgs), r.msgs, desc())
			default:
				var from *attempt
				for _, a := range r.attempts {
					if a.completed && a.payload == r.msgs[0] {
						from = a
					}
				}
				if from == nil {
					v("response-from-nowhere", "rpc %d finished OK with message %q which no scripted server sent on any of its streams: %s", r.idx, r.msgs[0], desc())
				} else if !accepted(cs[from.conn], from.id) {
					v("response-from-unprocessed-stream", "rpc %d delivered the response of conn %d stream %d, a stream above the GOAWAY id: %s", r.idx, from.conn, from.id, desc())
				}
			}
		case codes.Unavailable:
			unavailable++
			for _, a := range acc {
				if c := cs[a.conn]; !c.hadInvalid && a.completed {
					v("accepted-stream-failed", "rpc %d failed with %q although its stream %d on conn %d is not above the GOAWAY id(s) %v and the scripted server completed it with OK: %s", r.idx, r.errText, a.id, a.conn, c.goaways, desc())
				}
			}
			// R2: the statement itself lets an unprocessed RPC end UNAVAILABLE; what it
			// requires is that a stream above the id "fails as unprocessed (eligible for
			// transparent retry)".  The only black-box effect of that marking is gRFC A6's
			// single transparent retry of an RPC's FIRST attempt.  It is therefore judged
			// only when the attempt ledger shows that the channel began exactly one
			// attempt (so the unprocessed wire attempt was the first one and no retry -
			// not even one that died before reaching the wire - was ever started), and
			// the connection was not one the client had to tear down for a protocol
			// violation (then streams fail with the connection error, which is allowed).
			if len(acc) == 0 && !onPoisoned && len(r.attempts) == 1 && begun[r.idx] == 1 {
				v("unprocessed-not-retried", "rpc %d failed with %q: the channel began exactly one attempt; it reached the wire as conn %d stream %d, above GOAWAY id %v, i.e. unprocessed and eligible for the one transparent retry, but no retry attempt was ever begun", r.idx, r.errText, r.attempts[0].conn, r.attempts[0].id, cs[r.attempts[0].conn].goaways)
			}
			if begun[r.idx] >= 2 {
				res.counters["rpcs_unavailable_after_a_retry_attempt"]++
			}
		default:
			v("unexpected-status", "rpc %d finished with %v (%s); only OK or UNAVAILABLE can result from GOAWAY handling: %s", r.idx, r.code, r.errText, desc())
		}
		if r.racing {
			res.counters["rpcs_racing_with_goaway"]++
		}
	}
	for _, r := range rpcs {
		if r.cancel != nil {
			r.cancel()
		}
	}
	mu.Unlock()
	res.counters["rpcs_ok"] = okCount
	res.counters["rpcs_unavailable"] = unavailable
	res.counters["rpcs_with_several_wire_attempts"] = retried
	res.counters["connections"] = int64(len(cs))
	poisoned := int64(0)
	for _, c := range cs {
		if c.hadInvalid {
			poisoned++
		}
	}
	res.counters["connections_with_invalid_goaway"] = poisoned

	fx.CC.Close()
	close(stop)
	<-accDone
	for _, c := range snapshot() {
		c.peer.Close()
	}
	for {
		select {
		case c := <-fx.AcceptCh():
			c.Close()
			continue
		default:
		}
		break
	}
	wg.Wait()
	for _, c := range snapshot() {
		<-c.peer.Done()
	}
	if res.counters["unprocessed_attempts"] > 0 || res.counters["accepted_streams_completed_after_goaway"] > 0 {
		var vs []string
		for k := range variants {
			vs = append(vs, k)
		}
		sort.Strings(vs)
		res.sig = fmt.Sprintf("client/mcs=%v/conns=%d/%s/retried=%v/unavail=%v/race=%v", sc.MCS >= 0, min(len(cs), 4), strings.Join(vs, "+"), retried > 0, unavailable > 0, res.counters["rpcs_racing_with_goaway"] > 0)
		if sc.Swap {
			res.sig += fmt.Sprintf("/swaps=%d/goaway-on-drained=%v/unprocessed-on-drained=%v", min(swaps, 3), res.counters["goaways_on_client_drained_conn"] > 0, res.counters["unprocessed_attempts_on_client_drained_conn"] > 0)
		}
	}
	return res
}
