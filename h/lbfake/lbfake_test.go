package lbfake

import (
	"sync"
	"testing"

	"google.golang.org/grpc/balancer"
	"google.golang.org/grpc/connectivity"
	"google.golang.org/grpc/resolver"
)

// TestSelfRace hammers the recorder from several goroutines; run with -race.
func TestSelfRace(t *testing.T) {
	cc := New("self")
	defer cc.Release()
	cc.SetHook(func(Event) {})
	var wg sync.WaitGroup
	for g := 0; g < 8; g++ {
		wg.Add(1)
		go func() {
			defer wg.Done()
			for i := 0; i < 40; i++ {
				got := 0
				sc, err := cc.NewSubConn([]resolver.Address{{Addr: "a"}}, balancer.NewSubConnOptions{StateListener: func(balancer.SubConnState) { got++ }})
				if err != nil {
					t.Error(err)
					return
				}
				f := sc.(*SubConn)
				f.Connect()
				for _, st := range f.NextStates() {
					f.Deliver(balancer.SubConnState{ConnectivityState: st})
				}
				f.Deliver(balancer.SubConnState{ConnectivityState: connectivity.Ready})
				f.RegisterHealthListener(func(balancer.SubConnState) {})
				f.DeliverHealth(balancer.SubConnState{ConnectivityState: connectivity.Ready})
				cc.UpdateState(balancer.State{ConnectivityState: connectivity.Ready, Picker: &Picker{Tag: "x"}})
				f.Shutdown()
				_ = cc.Since(cc.Len() - 3)
				_ = f.String()
				_, _ = cc.LastState()
				if got != 2 {
					t.Errorf("listener calls = %d, want 2", got)
				}
			}
		}()
	}
	wg.Wait()
	if n := len(cc.SubConns()); n != 320 {
		t.Fatalf("subconns = %d", n)
	}
}

// TestLegalStates pins the subchannel state machine NextStates proposes.
func TestLegalStates(t *testing.T) {
	cc := New("self")
	defer cc.Release()
	sc0, _ := cc.NewSubConn([]resolver.Address{{Addr: "a"}}, balancer.NewSubConnOptions{StateListener: func(balancer.SubConnState) {}})
	sc := sc0.(*SubConn)
	if ns := sc.NextStates(); ns != nil {
		t.Fatalf("before Connect: %v", ns)
	}
	sc.Connect()
	if ns := sc.NextStates(); len(ns) != 1 || ns[0] != connectivity.Connecting {
		t.Fatalf("after Connect: %v", ns)
	}
	sc.Deliver(balancer.SubConnState{ConnectivityState: connectivity.Connecting})
	sc.Deliver(balancer.SubConnState{ConnectivityState: connectivity.TransientFailure})
	sc.Connect() // ignored by a real subchannel in TRANSIENT_FAILURE
	sc.Deliver(balancer.SubConnState{ConnectivityState: connectivity.Idle})
	if ns := sc.NextStates(); ns != nil {
		t.Fatalf("IDLE after backoff without a new Connect: %v", ns)
	}
	sc.Shutdown()
	if ns := sc.NextStates(); len(ns) != 1 || ns[0] != connectivity.Shutdown {
		t.Fatalf("after Shutdown: %v", ns)
	}
	sc.Deliver(balancer.SubConnState{ConnectivityState: connectivity.Shutdown})
	if ns := sc.NextStates(); ns != nil || sc.NextStatesStale() != nil {
		t.Fatalf("after final SHUTDOWN: %v", ns)
	}
}
