// Package lbfake is engine E3 of /verif: a recording balancer.ClientConn with
// scriptable fake SubConns and recordable stub child policies, for monitors
// that drive a real LB policy of grpc-go without a channel.
//
// # What it is
//
//   - ClientConn implements the full current balancer.ClientConn interface
//     (NewSubConn, RemoveSubConn, UpdateAddresses, UpdateState, ResolveNow,
//     Target, MetricsRecorder; the embedding the interface demands is
//     satisfied by embedding a nil balancer.ClientConn).  Every call made by
//     the policy under test is appended to ONE ordered event log guarded by
//     ONE mutex, stamped with a sequence number and time.Now() (virtual time
//     inside a testing/synctest bubble).
//   - SubConn is the fake subchannel NewSubConn returns.  Connect, Shutdown,
//     UpdateAddresses and RegisterHealthListener are logged.  The *script*
//     (the test) moves a subchannel by calling Deliver / DeliverHealth, which
//     log the delivery and then invoke the StateListener given in
//     NewSubConnOptions (resp. the registered health listener) on the caller's
//     goroutine, outside lbfake's mutex — exactly where the real channel's
//     serializer would call the policy.  lbfake never delivers anything by
//     itself (no automatic CONNECTING after Connect, no automatic SHUTDOWN
//     notification): the script owns the subchannel's history.  NextStates
//     tells a generator which deliveries a real subchannel could make now;
//     NextStatesStale which updates may still be queued for a subchannel the
//     policy already shut down.
//   - Stub child policies: RegisterStub(name) registers (through
//     internal/balancer/stub) a builder whose instances are *Child values
//     recorded in the owning ClientConn's log (ChildBuild,
//     ChildUpdateClientConnState, ChildResolverError, ChildExitIdle,
//     ChildClose).  A Child is attributed to its ClientConn through the routing
//     token that ClientConn.BuildOptions() puts into BuildOptions.Authority
//     (parents such as gracefulswitch, endpointsharding, priority hand their
//     BuildOptions down unchanged), so cases may run in parallel.  The script
//     makes a child "report" by calling the balancer.ClientConn the child was
//     given: child.CC.UpdateState(...), child.NewSubConn(...).
//   - Picker is a tagged constant picker that counts its picks; monitors use
//     it to see which child's picker a parent published / delegated to.
//   - A Hook (SetHook) runs synchronously, on the calling goroutine and
//     outside lbfake's mutex, right after an event was logged and before the
//     logged call returns to the policy.  Scripts use it to inject an action in
//     the middle of a call (a child reporting inline from Build, a policy
//     switch while NewSubConn is in flight, ...).
//
// # Concurrency
//
// All methods are safe for concurrent use.  lbfake holds its mutex only while
// it touches its own state, never while calling a listener, a hook or the
// policy, so it adds no lock-order edges to the code under test.  Event
// slices returned by Events/Since are copies.
//
// # Faithfulness notes (what a real channel does, mirrored here)
//
//   - Delivering any connectivity state invalidates the registered health
//     listener (balancer_wrapper.go: updateState); RegisterHealthListener is
//     ignored unless the last delivered state is READY.  Both mirror
//     acBalancerWrapper.
//   - A StateListener is never invoked before Connect was called unless the
//     script chooses to (NextStates never proposes it), and a script must not
//     Deliver to a SubConn before NewSubConn has returned to the policy (a real
//     channel cannot; wrappers such as gracefulswitch rely on it).
//   - After Shutdown() a real subchannel delivers exactly one final SHUTDOWN
//     update and nothing else; NextStates proposes only that.
//
// # Minimal use
//
//	cc := lbfake.New("dns:///svc")
//	defer cc.Release()
//	b := balancer.Get("pick_first").Build(cc, cc.BuildOptions())
//	b.UpdateClientConnState(...)
//	sc := cc.SubConns()[0]
//	sc.Deliver(balancer.SubConnState{ConnectivityState: connectivity.Connecting})
//	for _, ev := range cc.Events() { ... judge ... }
package lbfake
