package lbfake

import (
	"fmt"
	"sync"
	"sync/atomic"
	"time"

	"google.golang.org/grpc/balancer"
	"google.golang.org/grpc/connectivity"
	estats "google.golang.org/grpc/experimental/stats"
	istats "google.golang.org/grpc/internal/stats"
	"google.golang.org/grpc/resolver"
)

// Kind names what an Event records.
type Kind uint8

// Event kinds.  "policy" is the LB policy under test, "script" is the test.
const (
	_                          Kind = iota
	NewSubConn                      // policy: cc.NewSubConn succeeded (SC, Addrs)
	NewSubConnFailed                // policy: cc.NewSubConn returned the injected error (Addrs, Err)
	Connect                         // policy: sc.Connect()
	Shutdown                        // policy: sc.Shutdown() or cc.RemoveSubConn(sc) (Note says which)
	UpdateAddresses                 // policy: sc.UpdateAddresses / cc.UpdateAddresses (SC, Addrs)
	RegisterHealthListener          // policy: sc.RegisterHealthListener (Note "ignored: not READY" if dropped, "nil" if cleared)
	UpdateState                     // policy: cc.UpdateState (State)
	ResolveNow                      // policy: cc.ResolveNow
	Deliver                         // script: sc.Deliver, logged BEFORE the StateListener runs (SC, SCState)
	DeliverHealth                   // script: sc.DeliverHealth, logged BEFORE the health listener runs (SC, SCState)
	ChildBuild                      // a stub child was built (Child)
	ChildUpdateClientConnState      // parent → stub child (Child, CCS)
	ChildResolverError              // parent → stub child (Child, Err)
	ChildExitIdle                   // parent → stub child (Child)
	ChildClose                      // parent → stub child, logged at entry of Close (Child)
	Note                            // script marker (Note)
)

var kindNames = [...]string{"?", "NewSubConn", "NewSubConnFailed", "Connect", "Shutdown", "UpdateAddresses",
	"RegisterHealthListener", "UpdateState", "ResolveNow", "Deliver", "DeliverHealth", "ChildBuild",
	"ChildUpdateClientConnState", "ChildResolverError", "ChildExitIdle", "ChildClose", "Note"}

func (k Kind) String() string {
	if int(k) < len(kindNames) {
		return kindNames[k]
	}
	return fmt.Sprintf("Kind(%d)", int(k))
}

// Event is one entry of the ordered log.
type Event struct {
	Seq     int       // position in the log, starting at 0
	At      time.Time // time.Now() when logged (virtual inside a synctest bubble)
	Kind    Kind
	SC      *SubConn
	Child   *Child
	Addrs   []resolver.Address
	State   balancer.State           // UpdateState
	SCState balancer.SubConnState    // Deliver, DeliverHealth
	CCS     balancer.ClientConnState // ChildUpdateClientConnState
	Err     error
	Note    string
}

// String renders an event compactly (for violation details).
func (e Event) String() string {
	s := fmt.Sprintf("#%d %s", e.Seq, e.Kind)
	if e.SC != nil {
		s += " " + e.SC.String()
	}
	if e.Child != nil {
		s += " " + e.Child.String()
	}
	switch e.Kind {
	case UpdateState:
		s += " " + e.State.ConnectivityState.String()
		if p, ok := e.State.Picker.(*Picker); ok {
			s += " picker=" + p.Tag
		}
	case Deliver, DeliverHealth:
		s += " " + e.SCState.ConnectivityState.String()
	case NewSubConnFailed, ChildResolverError:
		s += fmt.Sprintf(" err=%v", e.Err)
	}
	if e.Note != "" {
		s += " (" + e.Note + ")"
	}
	return s
}

// Hook is called synchronously after an event was logged; see the package doc.
type Hook func(Event)

// ClientConn is the recording balancer.ClientConn.
type ClientConn struct {
	balancer.ClientConn // nil; satisfies the interface's embedding requirement

	target string
	token  string

	mu        sync.Mutex
	log       []Event
	scs       []*SubConn
	children  []*Child
	states    int
	lastState balancer.State
	failNew   error
	hook      Hook
}

var (
	regMu     sync.Mutex
	regByTok  = map[string]*ClientConn{}
	regNext   atomic.Int64
	defaultCC *ClientConn
)

// New returns a ClientConn whose Target() is target.  Call Release when the
// case is over so that the routing token is forgotten.
func New(target string) *ClientConn {
	cc := &ClientConn{target: target}
	cc.token = fmt.Sprintf("lbfake-%d", regNext.Add(1))
	regMu.Lock()
	regByTok[cc.token] = cc
	regMu.Unlock()
	return cc
}

// Release forgets the routing token of cc and its stub children.  Call it only
// after the policy under test was closed and is quiescent: a later call into
// one of cc's stub children panics.
func (cc *ClientConn) Release() {
	regMu.Lock()
	delete(regByTok, cc.token)
	if defaultCC == cc {
		defaultCC = nil
	}
	regMu.Unlock()
	for _, c := range cc.Children() {
		childByData.Delete(c.data)
	}
}

// SetDefault makes cc the owner of stub children whose BuildOptions carry no
// (or an unknown) routing token — for parents that do not forward their
// BuildOptions.  Only meaningful for non-parallel cases.
func SetDefault(cc *ClientConn) {
	regMu.Lock()
	defaultCC = cc
	regMu.Unlock()
}

// BuildOptions returns balancer.BuildOptions carrying cc's routing token in
// Authority (and the parsed Target).  Pass them to the policy under test.
func (cc *ClientConn) BuildOptions() balancer.BuildOptions {
	return balancer.BuildOptions{Authority: cc.token, Target: resolver.Target{}}
}

// SetHook installs (or, with nil, removes) the hook.
func (cc *ClientConn) SetHook(h Hook) {
	cc.mu.Lock()
	cc.hook = h
	cc.mu.Unlock()
}

// FailNewSubConn makes every following NewSubConn fail with err (nil: succeed again).
func (cc *ClientConn) FailNewSubConn(err error) {
	cc.mu.Lock()
	cc.failNew = err
	cc.mu.Unlock()
}

// record appends e and runs the hook outside the mutex.
func (cc *ClientConn) record(e Event, under func(e *Event)) Event {
	cc.mu.Lock()
	e.Seq = len(cc.log)
	e.At = time.Now()
	if under != nil {
		under(&e)
	}
	cc.log = append(cc.log, e)
	h := cc.hook
	cc.mu.Unlock()
	if h != nil {
		h(e)
	}
	return e
}

// Note appends a script marker to the log.
func (cc *ClientConn) Note(format string, args ...any) {
	cc.record(Event{Kind: Note, Note: fmt.Sprintf(format, args...)}, nil)
}

// Events returns a copy of the whole log.
func (cc *ClientConn) Events() []Event { return cc.Since(0) }

// Since returns a copy of the log from position n on.
func (cc *ClientConn) Since(n int) []Event {
	cc.mu.Lock()
	defer cc.mu.Unlock()
	if n > len(cc.log) {
		n = len(cc.log)
	}
	return append([]Event(nil), cc.log[n:]...)
}

// Len returns the current length of the log.
func (cc *ClientConn) Len() int {
	cc.mu.Lock()
	defer cc.mu.Unlock()
	return len(cc.log)
}

// SubConns returns every SubConn ever created, in creation order.
func (cc *ClientConn) SubConns() []*SubConn {
	cc.mu.Lock()
	defer cc.mu.Unlock()
	return append([]*SubConn(nil), cc.scs...)
}

// Children returns every stub child ever built for cc, in build order.
func (cc *ClientConn) Children() []*Child {
	cc.mu.Lock()
	defer cc.mu.Unlock()
	return append([]*Child(nil), cc.children...)
}

// LastState returns the latest state given to UpdateState and how many
// UpdateState calls were made so far (0: none yet).
func (cc *ClientConn) LastState() (balancer.State, int) {
	cc.mu.Lock()
	defer cc.mu.Unlock()
	return cc.lastState, cc.states
}

// ---- balancer.ClientConn ----

// NewSubConn implements balancer.ClientConn.
func (cc *ClientConn) NewSubConn(addrs []resolver.Address, opts balancer.NewSubConnOptions) (balancer.SubConn, error) {
	var sc *SubConn
	var err error
	cc.record(Event{Kind: NewSubConn, Addrs: cloneAddrs(addrs)}, func(e *Event) {
		if cc.failNew != nil {
			err = cc.failNew
			e.Kind, e.Err = NewSubConnFailed, err
			return
		}
		sc = &SubConn{cc: cc, id: len(cc.scs), addrs: cloneAddrs(addrs), listener: opts.StateListener, opts: opts}
		cc.scs = append(cc.scs, sc)
		e.SC = sc
	})
	if err != nil {
		return nil, err
	}
	return sc, nil
}

// RemoveSubConn implements balancer.ClientConn (deprecated path): same as sc.Shutdown().
func (cc *ClientConn) RemoveSubConn(sc balancer.SubConn) {
	if f, ok := sc.(*SubConn); ok {
		f.shutdown("RemoveSubConn")
		return
	}
	cc.record(Event{Kind: Shutdown, Note: fmt.Sprintf("RemoveSubConn of foreign SubConn %T", sc)}, nil)
}

// UpdateAddresses implements balancer.ClientConn.
func (cc *ClientConn) UpdateAddresses(sc balancer.SubConn, addrs []resolver.Address) {
	if f, ok := sc.(*SubConn); ok {
		f.UpdateAddresses(addrs)
		return
	}
	cc.record(Event{Kind: UpdateAddresses, Addrs: cloneAddrs(addrs), Note: fmt.Sprintf("foreign SubConn %T", sc)}, nil)
}

// UpdateState implements balancer.ClientConn.
func (cc *ClientConn) UpdateState(s balancer.State) {
	cc.record(Event{Kind: UpdateState, State: s}, func(*Event) {
		cc.lastState = s
		cc.states++
	})
}

// ResolveNow implements balancer.ClientConn.
func (cc *ClientConn) ResolveNow(resolver.ResolveNowOptions) {
	cc.record(Event{Kind: ResolveNow}, nil)
}

// Target implements balancer.ClientConn.
func (cc *ClientConn) Target() string { return cc.target }

// MetricsRecorder implements balancer.ClientConn with a no-op recorder.
func (cc *ClientConn) MetricsRecorder() estats.MetricsRecorder {
	return istats.NewMetricsRecorderList(nil)
}

func cloneAddrs(a []resolver.Address) []resolver.Address {
	return append([]resolver.Address(nil), a...)
}

// ---- SubConn ----

// SubConn is a fake subchannel.
type SubConn struct {
	balancer.SubConn // nil; satisfies the interface's embedding requirement

	cc       *ClientConn
	id       int
	listener func(balancer.SubConnState)
	opts     balancer.NewSubConnOptions

	// guarded by cc.mu
	addrs        []resolver.Address
	connects     int
	shutdowns    int
	health       func(balancer.SubConnState)
	healthRegs   int
	delivered    int
	last         balancer.SubConnState
	lastHealth   balancer.SubConnState
	healthSent   int
	shutdownSent bool
	// connectPending: Connect() was called while IDLE and nothing was delivered since.
	connectPending bool
}

// ID is the creation index of the subchannel within its ClientConn.
func (sc *SubConn) ID() int { return sc.id }

// String implements fmt.Stringer.
func (sc *SubConn) String() string {
	sc.cc.mu.Lock()
	defer sc.cc.mu.Unlock()
	a := ""
	if len(sc.addrs) > 0 {
		a = sc.addrs[0].Addr
	}
	return fmt.Sprintf("sc%d[%s]", sc.id, a)
}

// Options returns the NewSubConnOptions the subchannel was created with.
func (sc *SubConn) Options() balancer.NewSubConnOptions { return sc.opts }

// Addrs returns the current address list of the subchannel.
func (sc *SubConn) Addrs() []resolver.Address {
	sc.cc.mu.Lock()
	defer sc.cc.mu.Unlock()
	return cloneAddrs(sc.addrs)
}

// Addr returns the first address (the only one for modern policies).
func (sc *SubConn) Addr() resolver.Address {
	sc.cc.mu.Lock()
	defer sc.cc.mu.Unlock()
	if len(sc.addrs) == 0 {
		return resolver.Address{}
	}
	return sc.addrs[0]
}

// Connects returns how many times Connect was called.
func (sc *SubConn) Connects() int {
	sc.cc.mu.Lock()
	defer sc.cc.mu.Unlock()
	return sc.connects
}

// ShutdownCalls returns how many times Shutdown (or RemoveSubConn) was called.
func (sc *SubConn) ShutdownCalls() int {
	sc.cc.mu.Lock()
	defer sc.cc.mu.Unlock()
	return sc.shutdowns
}

// IsShutdown reports whether Shutdown was called at least once.
func (sc *SubConn) IsShutdown() bool { return sc.ShutdownCalls() > 0 }

// Last returns the last connectivity state delivered with Deliver (IDLE,
// false if none was delivered yet).
func (sc *SubConn) Last() (balancer.SubConnState, bool) {
	sc.cc.mu.Lock()
	defer sc.cc.mu.Unlock()
	if sc.delivered == 0 {
		return balancer.SubConnState{ConnectivityState: connectivity.Idle}, false
	}
	return sc.last, true
}

// LastHealth returns the last health state delivered to the currently
// registered health listener (ok=false if none since it was registered).
func (sc *SubConn) LastHealth() (balancer.SubConnState, bool) {
	sc.cc.mu.Lock()
	defer sc.cc.mu.Unlock()
	return sc.lastHealth, sc.healthSent > 0 && sc.health != nil
}

// HealthRegistered reports whether a health listener is currently registered.
func (sc *SubConn) HealthRegistered() bool {
	sc.cc.mu.Lock()
	defer sc.cc.mu.Unlock()
	return sc.health != nil
}

// Connect implements balancer.SubConn.
func (sc *SubConn) Connect() {
	sc.cc.record(Event{Kind: Connect, SC: sc}, func(*Event) {
		sc.connects++
		if sc.delivered == 0 || sc.last.ConnectivityState == connectivity.Idle {
			sc.connectPending = true
		}
	})
}

// Shutdown implements balancer.SubConn.
func (sc *SubConn) Shutdown() { sc.shutdown("") }

func (sc *SubConn) shutdown(note string) {
	sc.cc.record(Event{Kind: Shutdown, SC: sc, Note: note}, func(*Event) { sc.shutdowns++ })
}

// UpdateAddresses implements balancer.SubConn.
func (sc *SubConn) UpdateAddresses(addrs []resolver.Address) {
	sc.cc.record(Event{Kind: UpdateAddresses, SC: sc, Addrs: cloneAddrs(addrs)}, func(*Event) { sc.addrs = cloneAddrs(addrs) })
}

// GetOrBuildProducer implements balancer.SubConn; fake subchannels have no producers.
func (sc *SubConn) GetOrBuildProducer(balancer.ProducerBuilder) (balancer.Producer, func()) {
	return nil, func() {}
}

// RegisterHealthListener implements balancer.SubConn.  Like the real
// subchannel it ignores the registration unless the last delivered
// connectivity state is READY; a nil listener clears the registration.
func (sc *SubConn) RegisterHealthListener(l func(balancer.SubConnState)) {
	sc.cc.record(Event{Kind: RegisterHealthListener, SC: sc}, func(e *Event) {
		sc.healthRegs++
		switch {
		case sc.delivered == 0 || sc.last.ConnectivityState != connectivity.Ready:
			e.Note = "ignored: not READY"
		case l == nil:
			sc.health = nil
			e.Note = "nil"
		default:
			sc.health = l
			sc.healthSent = 0
		}
	})
}

// Deliver reports connectivity state s to the StateListener the policy gave
// in NewSubConnOptions, on the caller's goroutine.  It returns false (and
// logs nothing) if the subchannel has no StateListener.  Delivering any state
// drops the registered health listener, as the real subchannel does.
func (sc *SubConn) Deliver(s balancer.SubConnState) bool {
	if sc.listener == nil {
		return false
	}
	sc.cc.record(Event{Kind: Deliver, SC: sc, SCState: s}, func(*Event) {
		sc.delivered++
		sc.last = s
		sc.connectPending = false
		sc.health = nil
		sc.healthSent = 0
		if s.ConnectivityState == connectivity.Shutdown {
			sc.shutdownSent = true
		}
	})
	sc.listener(s)
	return true
}

// DeliverHealth reports health state s to the currently registered health
// listener.  It returns false (and logs nothing) if none is registered.
func (sc *SubConn) DeliverHealth(s balancer.SubConnState) bool {
	sc.cc.mu.Lock()
	l := sc.health
	sc.cc.mu.Unlock()
	if l == nil {
		return false
	}
	sc.cc.record(Event{Kind: DeliverHealth, SC: sc, SCState: s}, func(*Event) {
		sc.lastHealth = s
		sc.healthSent++
	})
	l(s)
	return true
}

// NextStates lists the connectivity states a real subchannel could deliver
// next, given what was delivered so far and which calls the policy made:
// IDLE→CONNECTING only after Connect() was called while IDLE;
// CONNECTING→READY|TRANSIENT_FAILURE; READY→IDLE; TRANSIENT_FAILURE→IDLE;
// after Shutdown() only one final SHUTDOWN.  (The rare CONNECTING→IDLE
// transition of grpc-go issue #7862 is not proposed; scripts that want it
// deliver it explicitly.)
func (sc *SubConn) NextStates() []connectivity.State {
	sc.cc.mu.Lock()
	defer sc.cc.mu.Unlock()
	if sc.shutdowns > 0 {
		if sc.shutdownSent {
			return nil
		}
		return []connectivity.State{connectivity.Shutdown}
	}
	return sc.nextLocked()
}

// NextStatesStale is NextStates as if Shutdown() had not been called: the
// updates a real channel may still have queued for the policy when the policy
// shut the subchannel down, and which it delivers before the final SHUTDOWN.
// It returns nil once the final SHUTDOWN was delivered.
func (sc *SubConn) NextStatesStale() []connectivity.State {
	sc.cc.mu.Lock()
	defer sc.cc.mu.Unlock()
	if sc.shutdownSent {
		return nil
	}
	return sc.nextLocked()
}

func (sc *SubConn) nextLocked() []connectivity.State {
	cur := connectivity.Idle
	if sc.delivered > 0 {
		cur = sc.last.ConnectivityState
	}
	switch cur {
	case connectivity.Idle:
		if sc.connectPending {
			return []connectivity.State{connectivity.Connecting}
		}
		return nil
	case connectivity.Connecting:
		return []connectivity.State{connectivity.Ready, connectivity.TransientFailure}
	case connectivity.Ready, connectivity.TransientFailure:
		return []connectivity.State{connectivity.Idle}
	}
	return nil
}

// ---- tagged picker ----

// Picker is a constant picker with a tag and a pick counter.
type Picker struct {
	Tag    string
	ID     int
	Result balancer.PickResult
	Err    error
	picks  atomic.Int64
}

// Pick implements balancer.Picker.
func (p *Picker) Pick(balancer.PickInfo) (balancer.PickResult, error) {
	p.picks.Add(1)
	return p.Result, p.Err
}

// Picks returns how many times Pick was called.
func (p *Picker) Picks() int64 { return p.picks.Load() }
