package lbfake

import (
	"fmt"
	"sync"

	"google.golang.org/grpc/balancer"
	"google.golang.org/grpc/internal/balancer/stub"
	"google.golang.org/grpc/resolver"
)

// Child is one instance of a stub child policy registered with RegisterStub.
// What the parent does to it is recorded in the owning ClientConn's log; what
// it "does" is decided by the script through CC (the balancer.ClientConn the
// parent handed to the child), usually from the test goroutine or a Hook.
type Child struct {
	Name string                // registered policy name
	ID   int                   // build index within the owning ClientConn
	CC   balancer.ClientConn   // the ClientConn the parent gave this child
	Opts balancer.BuildOptions // the BuildOptions the parent gave this child

	owner *ClientConn
	data  *stub.BalancerData

	// guarded by owner.mu
	updates   []balancer.ClientConnState
	resErrs   []error
	exitIdles int
	closes    int
	updateErr error
}

// String implements fmt.Stringer.
func (c *Child) String() string { return fmt.Sprintf("child%d[%s]", c.ID, c.Name) }

// Owner returns the recording ClientConn this child is attributed to.
func (c *Child) Owner() *ClientConn { return c.owner }

// CloseCalls returns how many times the parent called Close on the child.
func (c *Child) CloseCalls() int {
	c.owner.mu.Lock()
	defer c.owner.mu.Unlock()
	return c.closes
}

// Closed reports whether the parent closed the child.
func (c *Child) Closed() bool { return c.CloseCalls() > 0 }

// ExitIdleCalls returns how many times the parent called ExitIdle.
func (c *Child) ExitIdleCalls() int {
	c.owner.mu.Lock()
	defer c.owner.mu.Unlock()
	return c.exitIdles
}

// Updates returns the ClientConnStates the parent sent to the child.
func (c *Child) Updates() []balancer.ClientConnState {
	c.owner.mu.Lock()
	defer c.owner.mu.Unlock()
	return append([]balancer.ClientConnState(nil), c.updates...)
}

// ResolverErrors returns the resolver errors the parent sent to the child.
func (c *Child) ResolverErrors() []error {
	c.owner.mu.Lock()
	defer c.owner.mu.Unlock()
	return append([]error(nil), c.resErrs...)
}

// SetUpdateErr sets the error the child returns from UpdateClientConnState.
func (c *Child) SetUpdateErr(err error) {
	c.owner.mu.Lock()
	c.updateErr = err
	c.owner.mu.Unlock()
}

// NewSubConn makes the child create a subchannel through the ClientConn its
// parent gave it, with a recording no-op StateListener (deliveries that reach
// the child are visible as listener calls through the returned *Listener).
func (c *Child) NewSubConn(addrs []resolver.Address) (balancer.SubConn, *Listener, error) {
	l := &Listener{}
	sc, err := c.CC.NewSubConn(addrs, balancer.NewSubConnOptions{StateListener: l.on})
	if err != nil {
		return nil, nil, err
	}
	return sc, l, nil
}

// Listener records the SubConnStates that reached a stub child's StateListener.
type Listener struct {
	mu     sync.Mutex
	states []balancer.SubConnState
}

func (l *Listener) on(s balancer.SubConnState) {
	l.mu.Lock()
	l.states = append(l.states, s)
	l.mu.Unlock()
}

// States returns what the listener received so far.
func (l *Listener) States() []balancer.SubConnState {
	l.mu.Lock()
	defer l.mu.Unlock()
	return append([]balancer.SubConnState(nil), l.states...)
}

// RegisterStub registers a stub child policy under name (through
// internal/balancer/stub).  balancer.Register is not safe for concurrent use:
// call this from init() or TestMain, once per name.  Instances are attributed
// to the ClientConn whose BuildOptions() the parent forwarded (see package doc).
func RegisterStub(name string) {
	stub.Register(name, stub.BalancerFuncs{
		Init: func(bd *stub.BalancerData) {
			cc := ownerOf(bd.BuildOptions)
			c := &Child{Name: name, CC: bd.ClientConn, Opts: bd.BuildOptions, owner: cc}
			childByData.Store(bd, c)
			cc.record(Event{Kind: ChildBuild, Child: c}, func(*Event) {
				c.ID = len(cc.children)
				cc.children = append(cc.children, c)
				c.data = bd
			})
		},
		UpdateClientConnState: func(bd *stub.BalancerData, s balancer.ClientConnState) error {
			c := childOf(bd)
			var err error
			c.owner.record(Event{Kind: ChildUpdateClientConnState, Child: c, CCS: s}, func(*Event) {
				c.updates = append(c.updates, s)
				err = c.updateErr
			})
			return err
		},
		ResolverError: func(bd *stub.BalancerData, err error) {
			c := childOf(bd)
			c.owner.record(Event{Kind: ChildResolverError, Child: c, Err: err}, func(*Event) { c.resErrs = append(c.resErrs, err) })
		},
		ExitIdle: func(bd *stub.BalancerData) {
			c := childOf(bd)
			c.owner.record(Event{Kind: ChildExitIdle, Child: c}, func(*Event) { c.exitIdles++ })
		},
		Close: func(bd *stub.BalancerData) {
			c := childOf(bd)
			c.owner.record(Event{Kind: ChildClose, Child: c}, func(*Event) { c.closes++ })
		},
	})
}

// StubBuilder returns the registered builder of a stub policy (nil if unknown).
func StubBuilder(name string) balancer.Builder { return balancer.Get(name) }

func ownerOf(o balancer.BuildOptions) *ClientConn {
	regMu.Lock()
	defer regMu.Unlock()
	if cc := regByTok[o.Authority]; cc != nil {
		return cc
	}
	if defaultCC != nil {
		return defaultCC
	}
	panic(fmt.Sprintf("lbfake: stub child built with BuildOptions.Authority=%q that routes to no lbfake.ClientConn (pass cc.BuildOptions() to the parent policy or call lbfake.SetDefault)", o.Authority))
}

// childByData maps *stub.BalancerData → *Child until the owner is Released.
var childByData sync.Map

func childOf(bd *stub.BalancerData) *Child {
	c, ok := childByData.Load(bd)
	if !ok {
		panic("lbfake: call into a stub child that was never built through lbfake, or whose ClientConn was already Released")
	}
	return c.(*Child)
}
