// C44: management-server fallback of the generic xDS client follows gRFC A71.
//
// The real client runs unmodified on 1..3 scripted management servers of
// engine E6 (h/xdsfake) inside testing/synctest bubbles.  The transports the
// client creates and closes, the requests it sends and the origin of every
// resource handed to a watcher are judged against xdsfake.FallbackModel (rules
// F1-F4 in its doc comment, from the property statement and gRFC A71) after every
// script step at exact quiescence; that the client, once reverted to a
// higher-priority server, actually asks that server for every watched resource is
// judged with the quiescent names check of xdsfake.ProtoModel.
package c44

import (
	"fmt"
	"math/rand"
	"sort"
	"strings"
	"testing"
	"testing/synctest"
	"time"

	"google.golang.org/grpc/verif/vlib"
	x "google.golang.org/grpc/verif/xdsfake"
)

type detail struct {
	Config x.SimConfig `json:"config"`
	Steps  []string    `json:"steps"`
	Tail   []string    `json:"log_tail"`
}

type caseOut struct {
	findings []x.Finding
	stats    map[string]int
	pstats   map[string]int
	feat     map[string]int
	det      detail
	steps    int
	known    int
}

type step struct {
	note string
	f    func()
}

func sleepStep(s *x.Sim, d time.Duration) step {
	return step{fmt.Sprintf("sleep %v", d), func() { s.W.Add(x.Event{Kind: x.EvScript, Note: "sleep"}); s.Sleep(d) }}
}

// prelude returns the number of servers and a deterministic opening for case i.
func preludeServers(i int) int {
	switch i % 9 {
	case 2, 5, 7:
		return 3
	case 6:
		return 1 + i/9%3
	}
	return 2
}

func prelude(i int, s *x.Sim, g *x.Gen) []step {
	var st []step
	add := func(note string, f func()) { st = append(st, step{note, f}) }
	resp := func(srv int, typ, kind string) func() {
		return func() { s.W.Server(srv).Respond(g.MakeResponse(srv, typ, kind)) }
	}
	fail := func(srv int, v bool) func() { return func() { s.W.Server(srv).SetStreamFail(v) } }
	a := s.NewWatcher(x.TypeURLA, "r0", false)
	switch i % 9 {
	case 0: // fallback at start-up, revert when the primary answers, new watch goes to the primary
		b := s.NewWatcher(x.TypeURLB, "r1", false)
		add("srv0 streams fail", fail(0, true))
		add("watch r0", func() { a.Start(s.C) })
		add("srv1 answers", resp(1, x.TypeURLA, "valid"))
		add("srv0 recovers", fail(0, false))
		st = append(st, sleepStep(s, 150*time.Second))
		add("srv0 answers", resp(0, x.TypeURLA, "valid"))
		add("watch B/r1", func() { b.Start(s.C) })
	case 1: // no fallback while everything is cached, nor after a response; fallback once something is uncached
		b := s.NewWatcher(x.TypeURLA, "r1", false)
		add("watch r0", func() { a.Start(s.C) })
		add("srv0 answers", resp(0, x.TypeURLA, "valid"))
		add("srv0 breaks after a response", func() { s.W.Server(0).Break() })
		add("srv0 breaks before a response (all cached)", func() { s.W.Server(0).Break() })
		add("srv0 streams fail", fail(0, true))
		st = append(st, sleepStep(s, 5*time.Second))
		add("watch r1 (uncached)", func() { b.Start(s.C) })
		st = append(st, sleepStep(s, 9*time.Second))
	case 2: // three servers: fall back twice, revert to the middle one
		add("srv0 streams fail", fail(0, true))
		add("srv1 streams fail", fail(1, true))
		add("watch r0", func() { a.Start(s.C) })
		add("srv2 answers", resp(2, x.TypeURLA, "valid"))
		add("srv1 recovers", fail(1, false))
		st = append(st, sleepStep(s, 150*time.Second))
		add("srv1 answers", resp(1, x.TypeURLA, "valid"))
	case 3: // a resource first watched during fallback, then revert
		b := s.NewWatcher(x.TypeURLA, "r1", false)
		add("srv0 streams fail", fail(0, true))
		add("watch r0", func() { a.Start(s.C) })
		add("watch r1 during fallback", func() { b.Start(s.C) })
		add("srv1 answers", resp(1, x.TypeURLA, "valid"))
		add("srv0 recovers", fail(0, false))
		st = append(st, sleepStep(s, 150*time.Second))
		add("srv0 answers", resp(0, x.TypeURLA, "valid"))
	case 4: // primary and fallback server answer in the same instant
		add("srv0 streams fail", fail(0, true))
		add("watch r0", func() { a.Start(s.C) })
		add("srv1 answers", resp(1, x.TypeURLA, "valid"))
		add("srv0 recovers", fail(0, false))
		st = append(st, sleepStep(s, 150*time.Second))
		add("srv0 and srv1 answer simultaneously", func() {
			r0 := g.MakeResponse(0, x.TypeURLA, "valid")
			r1 := g.MakeResponse(1, x.TypeURLA, "valid")
			if !s.W.RespondOrdered(s.W.Server(0), r0, s.W.Server(1), r1) {
				s.W.Server(0).Respond(r0)
				s.W.Server(1).Respond(r1)
			}
		})
	case 5: // three servers: the primary keeps failing while the fallback server is healthy
		b := s.NewWatcher(x.TypeURLA, "r1", false)
		add("srv0 streams fail", fail(0, true))
		add("watch r0", func() { a.Start(s.C) })
		add("srv1 answers", resp(1, x.TypeURLA, "valid"))
		add("watch r1 (pending on srv1)", func() { b.Start(s.C) })
		st = append(st, sleepStep(s, 9*time.Second))
		add("srv1 answers", resp(1, x.TypeURLA, "valid"))
	case 6:
		add("watch r0", func() { a.Start(s.C) })
	case 7: // three servers: fallen back past the still-failing secondary to the tertiary, then the primary recovers
		add("srv0 streams fail", fail(0, true))
		add("srv1 streams fail", fail(1, true))
		add("watch r0", func() { a.Start(s.C) })
		add("srv2 answers", resp(2, x.TypeURLA, "valid"))
		add("srv0 recovers (srv1 keeps failing)", fail(0, false))
		st = append(st, sleepStep(s, 150*time.Second))
		add("srv0 answers", resp(0, x.TypeURLA, "valid"))
		st = append(st, sleepStep(s, 150*time.Second))
	case 8: // a resource known not to exist (watch expired) must not trigger fallback when the stream then fails
		b := s.NewWatcher(x.TypeURLB, "r1", false)
		add("watch r0", func() { a.Start(s.C) })
		st = append(st, sleepStep(s, 16*time.Second))
		add("srv0 breaks before any response (r0 is known not to exist)", func() { s.W.Server(0).Break() })
		st = append(st, sleepStep(s, 3*time.Second))
		add("watch B/r1", func() { b.Start(s.C) })
		add("srv0 answers B", resp(0, x.TypeURLB, "valid"))
		add("srv0 answers A without r0", resp(0, x.TypeURLA, "empty"))
		add("srv0 streams fail", fail(0, true))
		add("srv0 breaks after a response", func() { s.W.Server(0).Break() })
		st = append(st, sleepStep(s, 9*time.Second))
	}
	return st
}

func runCase(t *testing.T, fam string, i int, rng *rand.Rand, report func(x.Finding, detail) bool) caseOut {
	var out caseOut
	synctest.Test(t, func(t *testing.T) {
		cfg := x.SimConfig{Servers: preludeServers(i), NodeID: fmt.Sprintf("node-%d", i)}
		opts := x.GenOpts{Names: []string{"r0", "r1", "r2", "r3"}, HoldProb: 0.1, MaxWatchers: 7,
			StreamFail: true, Simultaneous: true,
			Weights: map[string]int{"stream-fail": 16, "break": 14, "sleep": 18, "simultaneous": 12, "respond": 30, "watch": 14, "cancel": 8}}
		steps := 25 + rng.Intn(30)
		s, err := x.NewSim(cfg)
		if err != nil {
			t.Fatalf("xdsclient.New: %v", err)
		}
		defer s.Close()
		fm := x.NewFallbackModel(s)
		pm := x.NewProtoModel(s)
		g := x.NewGen(s, rng, opts)
		out.det.Config = cfg
		do := func(note string, f func()) bool {
			out.det.Steps = append(out.det.Steps, note)
			evs := s.Step(note, f)
			out.steps++
			fm.Feed(evs)
			pm.Feed(evs)
			fs := fm.Take()
			for _, f := range pm.Take() {
				switch f.Key {
				case "watched-resource-not-subscribed-on-active-server-after-revert", "names-mismatch-at-quiescence":
					fs = append(fs, f)
				}
			}
			if len(fs) > 0 {
				out.det.Tail = s.W.Tail(90)
				fresh := false
				for _, f := range fs {
					// a listed known finding does not end the case: the rest of the history is still judged
					if report(f, out.det) {
						fresh = true
					}
				}
				out.known += len(fs)
				return !fresh
			}
			return true
		}
		ok := true
		for _, p := range prelude(i, s, g) {
			if ok = do(p.note, p.f); !ok {
				break
			}
		}
		for k := 0; ok && k < steps; k++ {
			note, f := g.Next()
			ok = do(note, f)
		}
		if ok {
			do("final: release all", func() { s.ReleaseAll() })
		}
		out.stats = fm.Stats
		out.pstats = pm.Stats
		out.feat = g.Feat
	})
	return out
}

func signature(o caseOut) string {
	var bits []string
	on := func(name string, c bool) {
		if c {
			bits = append(bits, name)
		}
	}
	st := o.stats
	on(fmt.Sprintf("servers=%d", o.det.Config.Servers), true)
	on("fallback", st["fallback_transports_built"] > 0)
	on("fallback-twice", st["fallback_transports_built"] > 1)
	on("must-fallback-checked", st["fallbacks_observed"] > 0)
	on("nothing-left", st["failures_with_nothing_to_fall_back_to"] > 0)
	on("revert", st["reverts_observed"] > 0)
	on("origin-checked", st["deliveries_with_origin_checked"] > 0)
	on("simultaneous", o.feat["simultaneous"] > 0)
	sort.Strings(bits)
	return strings.Join(bits, "+")
}

func TestVerifC44(t *testing.T) {
	r := vlib.Start(t, "C44")
	stop := r.Watchdog(time.Duration(r.N(20, 60)) * time.Minute)
	defer stop()
	const fam = "fallback"
	n := r.N(350, 5000)
	for i := 0; i < n; i++ {
		if !r.Want(fam, i) {
			continue
		}
		rng := r.Rand(fam, i)
		r.Progress(fam, i, "")
		o := runCase(t, fam, i, rng, func(f x.Finding, d detail) bool {
			return r.Violation(f.Key, fam, i, d, "%s", f.Msg)
		})
		r.Eval(1)
		for k, v := range o.stats {
			r.Count(k, int64(v))
		}
		r.Count("steps", int64(o.steps))
		r.Count("quiescent_names_checks", int64(o.pstats["quiescent_names_checks"]))
		if o.stats["failures_before_response"] > 0 && o.stats["transports_built"] > 0 {
			r.Nontrivial(signature(o))
		}
		if i < 3 {
			r.Sample(map[string]any{"case": i, "servers": o.det.Config.Servers, "steps": o.det.Steps, "stats": o.stats})
		}
	}
	r.Finish(vlib.Spec{
		Level: "fault_enumeration",
		Rule: "PRNG-generated scripts (25-55 steps after a deterministic prelude rotating over 9 fallback situations) against 1-3 scripted management servers: NewStream failures and recoveries per server, stream breaks before/after the first response, responses from any server incl. two servers answering in the same instant, watch/cancel of 1-4 names, virtual-time sleeps (backoff retries, 15 s expiry); " +
			"every transport creation/closure and every resource delivery is judged (F1-F4) at exact quiescence after each step, plus exact request names on the active server. " +
			"non-trivial = >=1 stream failure before a response; distinct = (#servers, fallback once/twice, must-fallback rule exercised, nothing left to fall back to, revert, origin of deliveries checked, simultaneous answers)",
		Assumptions: []string{
			"the scripted servers never send a response of a type before they received a request of that type on that stream",
			"testing/synctest: synctest.Wait() returns only when every goroutine of the client is durably blocked; timers run on virtual time",
			"'has a cached value' is read off the callbacks watchers received (last non-ambient callback is ResourceChanged); F1 uses the literal reading (no cached value), F2 the narrow one (never received anything but connectivity errors), so both directions are never stricter than gRFC A71",
			"one authority; the active server is the lowest-priority server with an open transport",
		},
		Floor: 8,
	})
}
