// C32: RPCs are only sent on READY subchannels through the latest picker.
//
// A real grpc.ClientConn inside a synctest bubble uses a test LB policy that
// creates one subchannel per address (hot = connected, cold = never connected,
// hc = connected with client-side health checking, so that a live transport
// exists while the subchannel is not READY) and publishes a new, numbered picker
// only when the script says so.  Every Pick is logged with (generation, rpc id,
// outcome); scripted HTTP/2 servers log on which connection every RPC arrives.
package c32

import (
	"context"
	"errors"
	"fmt"
	"io"
	"math/rand"
	"os"
	"sort"
	"strconv"
	"strings"
	"sync"
	"sync/atomic"
	"testing"
	"testing/synctest"
	"time"

	"google.golang.org/grpc"
	"google.golang.org/grpc/backoff"
	"google.golang.org/grpc/balancer"
	"google.golang.org/grpc/codes"
	"google.golang.org/grpc/connectivity"
	"google.golang.org/grpc/credentials/insecure"
	_ "google.golang.org/grpc/health" // installs the client-side health check function
	"google.golang.org/grpc/metadata"
	"google.golang.org/grpc/resolver"
	"google.golang.org/grpc/resolver/manual"
	"google.golang.org/grpc/status"
	"google.golang.org/grpc/verif/chanfix"
	"google.golang.org/grpc/verif/vlib"
	"google.golang.org/grpc/verif/wire"
)

// ---------------------------------------------------------------- scenario

type pickSpec struct {
	Kind string     `json:"kind"` // nosc | err | status | sc
	Addr string     `json:"addr,omitempty"`
	Code codes.Code `json:"code,omitempty"`
	Conn int        `json:"state"` // connectivity state published together with the picker
}

type step struct {
	K    string        `json:"k"` // publish | rpc | cancel | kill | goaway | health | behav | sleep | wait | idle | connect
	P    *pickSpec     `json:"p,omitempty"`
	WFR  bool          `json:"wfr,omitempty"`
	D    time.Duration `json:"d,omitempty"`
	N    int           `json:"n,omitempty"`
	Addr string        `json:"addr,omitempty"`
	B    []int         `json:"b,omitempty"`
}

type scenario struct {
	Fam   string        `json:"fam"`
	Addrs []string      `json:"addrs"`
	Idle  time.Duration `json:"idle"` // channel idle timeout, 0 = idleness off
	Steps []step        `json:"steps"`
}

var statusCodes = []codes.Code{codes.PermissionDenied, codes.ResourceExhausted, codes.Unavailable, codes.Unauthenticated, codes.Internal, codes.NotFound, codes.DataLoss, codes.Aborted}

func restricted(c codes.Code) bool {
	switch c {
	case codes.InvalidArgument, codes.NotFound, codes.AlreadyExists, codes.FailedPrecondition, codes.Aborted, codes.OutOfRange, codes.DataLoss:
		return true // gRFC A54
	}
	return false
}

func genPick(rng *rand.Rand, addrs []string) *pickSpec {
	p := &pickSpec{Conn: vlib.Pick(rng, int(connectivity.Ready), int(connectivity.Ready), int(connectivity.Connecting), int(connectivity.TransientFailure), int(connectivity.Idle))}
	switch r := rng.Intn(100); {
	case r < 28:
		p.Kind = "nosc"
	case r < 40:
		p.Kind = "err"
	case r < 50:
		p.Kind = "status"
		p.Code = statusCodes[rng.Intn(len(statusCodes))]
	default:
		p.Kind = "sc"
		p.Addr = addrs[rng.Intn(len(addrs))]
	}
	return p
}

func gen(rng *rand.Rand, fam string) scenario {
	sc := scenario{Fam: fam, Addrs: []string{"hot0", "hot1", "cold0"}}
	if fam == "health" {
		sc.Addrs = []string{"hot0", "hc0", "hc1", "cold0"}
	}
	n := 15 + rng.Intn(45)
	for k := 0; k < n; k++ {
		switch r := rng.Intn(100); {
		case r < 30:
			sc.Steps = append(sc.Steps, step{K: "publish", P: genPick(rng, sc.Addrs)})
		case r < 62:
			sc.Steps = append(sc.Steps, step{K: "rpc", WFR: rng.Intn(2) == 0, D: vlib.Pick(rng, 0, 0, 300*time.Millisecond, 2*time.Second), N: 1 + rng.Intn(3)})
		case r < 68:
			sc.Steps = append(sc.Steps, step{K: "cancel", N: rng.Intn(32)})
		case r < 74:
			sc.Steps = append(sc.Steps, step{K: "kill", N: rng.Intn(8)})
		case r < 80:
			sc.Steps = append(sc.Steps, step{K: "goaway", N: rng.Intn(8)})
		case r < 86 && fam == "health":
			sc.Steps = append(sc.Steps, step{K: "health", Addr: vlib.Pick(rng, "hc0", "hc1"), N: vlib.Pick(rng, 1, 1, 1, 2)})
		case r < 90:
			sc.Steps = append(sc.Steps, step{K: "behav", Addr: sc.Addrs[rng.Intn(len(sc.Addrs))], B: []int{int(vlib.Pick(rng, chanfix.Refuse, chanfix.Accept, chanfix.Accept, chanfix.AcceptClose))}})
		case r < 96:
			sc.Steps = append(sc.Steps, step{K: "sleep", D: vlib.Pick(rng, 10*time.Millisecond, 200*time.Millisecond, time.Second, 3*time.Second)})
		default:
			sc.Steps = append(sc.Steps, step{K: "wait"})
		}
		if fam == "idle" && rng.Intn(7) == 0 {
			// Let the channel go IDLE behind whatever picker is installed (often an error
			// picker, published right before), then wake it up with RPCs or Connect while
			// the re-created policy instance has not published anything yet.
			if rng.Intn(2) == 0 {
				sc.Steps = append(sc.Steps, step{K: "publish", P: genPick(rng, sc.Addrs)})
			}
			sc.Steps = append(sc.Steps, step{K: "idle"})
			if rng.Intn(4) == 0 {
				sc.Steps = append(sc.Steps, step{K: "connect"})
			}
			sc.Steps = append(sc.Steps, step{K: "rpc", WFR: rng.Intn(3) == 0, D: vlib.Pick(rng, 0, 0, 300*time.Millisecond, 2*time.Second), N: 1 + rng.Intn(3)})
		}
	}
	if fam == "idle" {
		sc.Idle = vlib.Pick(rng, time.Second, 2*time.Second, 5*time.Second)
	}
	return sc
}

// ---------------------------------------------------------------- the test LB policy

const lbName = "verif_c32_generations"

type ridKey struct{}

type pubRec struct {
	g       int
	spec    pickSpec
	callSeq int
	doneSeq int // 0 while UpdateState has not returned
}

type pickRec struct {
	seq     int
	g       int
	rid     int
	outcome string // nosc | err | status | sc
	addr    string
	code    codes.Code
	floor   int // latest generation whose publication had completed when this Pick ran
	cold    bool
}

type rpcRec struct {
	id         int
	wfr        bool
	deadlineAt time.Duration // 0 = none
	startSeq   int
	gStart     int
	epochFloor int // c.epochFloor when the RPC started
	cancel     context.CancelFunc
	cancelled  bool
	picked     bool // NewStream returned without error
	finished   bool
	finishSeq  int
	code       codes.Code
	msg        string
	picks      []*pickRec
	judged     bool
}

type ctl struct {
	t0    time.Time
	mu    sync.Mutex
	clock int
	lb    *genLB
	gen   int
	// A channel that goes IDLE closes its LB policy and builds a new instance when
	// it leaves IDLE.  epochFloor is the smallest generation the current (or next)
	// instance can publish: pickers of closed instances (generations below it) must
	// never be used by an RPC started after the instance was closed.
	epoch      int
	epochFloor int
	pubs       []*pubRec
	rpcs       []*rpcRec
	picks      int
	// subchannels as delivered to the policy
	scState map[string][]connectivity.State
	closing bool
	viol    [][2]string
	seen    map[string]bool
	cnt     map[string]int64
	sigs    map[string]bool
}

func (c *ctl) tick() int { c.clock++; return c.clock }

func (c *ctl) v(key, f string, a ...any) {
	msg := fmt.Sprintf(f, a...)
	if c.seen[key+msg] {
		return
	}
	c.seen[key+msg] = true
	c.viol = append(c.viol, [2]string{key, msg})
}

func (c *ctl) completed() int {
	g := 0
	for _, p := range c.pubs {
		if p.doneSeq != 0 && p.g > g {
			g = p.g
		}
	}
	return g
}

// floorNow is the oldest picker generation an operation starting now may use:
// the latest completely published one, but never one of a closed policy instance.
func (c *ctl) floorNow() int {
	g := c.completed()
	if c.epochFloor > g {
		g = c.epochFloor
	}
	return g
}

// completedCurrent is the latest completely published generation of the
// current policy instance (0 = it has not published yet).
func (c *ctl) completedCurrent() int {
	if g := c.completed(); g >= c.epochFloor {
		return g
	}
	return 0
}

var registry = struct {
	mu sync.Mutex
	m  map[string]*ctl
}{m: map[string]*ctl{}}

func init() { balancer.Register(genBuilder{}) }

type genBuilder struct{}

func (genBuilder) Name() string { return lbName }

func (genBuilder) Build(cc balancer.ClientConn, opts balancer.BuildOptions) balancer.Balancer {
	registry.mu.Lock()
	c := registry.m[opts.Target.Endpoint()]
	registry.mu.Unlock()
	lb := &genLB{cc: cc, c: c, scs: map[string]balancer.SubConn{}}
	if c != nil {
		c.mu.Lock()
		c.lb = lb
		c.epoch++
		c.cnt["policy_instances"]++
		c.mu.Unlock()
	}
	return lb
}

type genLB struct {
	cc     balancer.ClientConn
	c      *ctl
	mu     sync.Mutex
	scs    map[string]balancer.SubConn
	closed bool
}

func (lb *genLB) UpdateClientConnState(s balancer.ClientConnState) error {
	lb.mu.Lock()
	defer lb.mu.Unlock()
	for _, a := range s.ResolverState.Addresses {
		if _, ok := lb.scs[a.Addr]; ok {
			continue
		}
		addr := a.Addr
		var sc balancer.SubConn
		opts := balancer.NewSubConnOptions{HealthCheckEnabled: strings.HasPrefix(addr, "hc")}
		opts.StateListener = func(st balancer.SubConnState) {
			if lb.c != nil {
				lb.c.mu.Lock()
				lb.c.scState[addr] = append(lb.c.scState[addr], st.ConnectivityState)
				lb.c.cnt["subchannel_states"]++
				lb.c.mu.Unlock()
			}
			// keep connected subchannels connected
			if st.ConnectivityState == connectivity.Idle && !strings.HasPrefix(addr, "cold") {
				sc.Connect()
			}
		}
		var err error
		sc, err = lb.cc.NewSubConn([]resolver.Address{a}, opts)
		if err != nil {
			continue
		}
		lb.scs[addr] = sc
		if !strings.HasPrefix(addr, "cold") {
			sc.Connect()
		}
	}
	return nil
}

func (lb *genLB) ResolverError(error) {}
func (lb *genLB) UpdateSubConnState(balancer.SubConn, balancer.SubConnState) {
}
func (lb *genLB) ExitIdle() {}
func (lb *genLB) Close() {
	lb.mu.Lock()
	lb.closed = true
	lb.mu.Unlock()
	if c := lb.c; c != nil {
		// enterIdleMode resets the picker wrapper BEFORE it schedules this Close, so
		// from this stamp on no pick may see a picker of this instance
		c.mu.Lock()
		if c.lb == lb {
			c.lb = nil
		}
		c.epochFloor = c.gen + 1
		if !c.closing {
			c.cnt["policy_instances_closed_by_idle"]++
		}
		c.mu.Unlock()
	}
}

type genPicker struct {
	c    *ctl
	lb   *genLB
	g    int
	spec pickSpec
	sc   balancer.SubConn
}

func (p *genPicker) Pick(info balancer.PickInfo) (balancer.PickResult, error) {
	rid := -1
	if v, ok := info.Ctx.Value(ridKey{}).(int); ok {
		rid = v
	}
	c := p.c
	c.mu.Lock()
	rec := &pickRec{seq: c.tick(), g: p.g, rid: rid, outcome: p.spec.Kind, addr: p.spec.Addr, code: p.spec.Code, floor: c.floorNow(),
		cold: p.spec.Kind == "sc" && strings.HasPrefix(p.spec.Addr, "cold")}
	c.picks++
	c.cnt["picks_"+p.spec.Kind]++
	if rid >= 0 && rid < len(c.rpcs) {
		r := c.rpcs[rid]
		if rec.g < r.gStart {
			if rec.g < r.epochFloor {
				c.v("stale-picker-used", "rpc %d started after the channel had gone IDLE and closed the LB policy instance that published picker generation %d (the next instance can only publish generation >= %d), yet a Pick for it ran on that stale generation (result: %s)", rid, rec.g, r.epochFloor, describe(rec))
			} else {
				c.v("stale-picker-used", "rpc %d started after the publication of picker generation %d had completed, yet a Pick for it ran on generation %d", rid, r.gStart, rec.g)
			}
		}
		if n := len(r.picks); n > 0 {
			prev := r.picks[n-1]
			if rec.g < prev.floor {
				c.v("stale-picker-used", "rpc %d: Pick on generation %d although generation %d had been completely published before its previous Pick (on generation %d)", rid, rec.g, prev.floor, prev.g)
			}
			mustAdvance := prev.outcome == "nosc" || prev.cold || (prev.outcome == "err" && r.wfr)
			if mustAdvance && rec.g <= prev.g {
				c.v("re-pick-on-same-picker", "rpc %d: its Pick on generation %d returned %s (the RPC must wait for a newer picker), but the next Pick ran on generation %d", rid, prev.g, describe(prev), rec.g)
			}
			if rec.g < prev.g {
				c.v("picker-generation-went-back", "rpc %d: Pick on generation %d after a Pick on generation %d", rid, rec.g, prev.g)
			}
			if (prev.outcome == "err" && !r.wfr) || prev.outcome == "status" {
				c.v("pick-after-terminal-result", "rpc %d: its Pick on generation %d returned %s, which ends the RPC, yet another Pick ran (generation %d)", rid, prev.g, describe(prev), rec.g)
			}
		}
		r.picks = append(r.picks, rec)
	}
	c.mu.Unlock()
	switch p.spec.Kind {
	case "nosc":
		return balancer.PickResult{}, balancer.ErrNoSubConnAvailable
	case "err":
		return balancer.PickResult{}, errors.New(errText(p.g))
	case "status":
		return balancer.PickResult{}, status.Error(p.spec.Code, errText(p.g))
	}
	if p.sc == nil {
		return balancer.PickResult{}, balancer.ErrNoSubConnAvailable
	}
	return balancer.PickResult{SubConn: p.sc}, nil
}

func errText(g int) string { return "picker-generation-" + strconv.Itoa(g) }

func describe(p *pickRec) string {
	switch p.outcome {
	case "sc":
		return "subchannel " + p.addr
	case "status":
		return "status " + p.code.String()
	case "err":
		return "a plain error"
	}
	return "ErrNoSubConnAvailable"
}

// publish hands picker generation g+1 to the channel.
func (c *ctl) publish(spec pickSpec) {
	c.mu.Lock()
	lb := c.lb
	if lb == nil {
		c.mu.Unlock()
		return
	}
	lb.mu.Lock()
	sc := lb.scs[spec.Addr]
	lb.mu.Unlock()
	if spec.Kind == "sc" && sc == nil {
		spec.Kind = "nosc"
	}
	c.gen++
	rec := &pubRec{g: c.gen, spec: spec, callSeq: c.tick()}
	c.pubs = append(c.pubs, rec)
	c.cnt["pickers_published"]++
	c.mu.Unlock()
	lb.cc.UpdateState(balancer.State{ConnectivityState: connectivity.State(spec.Conn), Picker: &genPicker{c: c, lb: lb, g: rec.g, spec: spec, sc: sc}})
	c.mu.Lock()
	rec.doneSeq = c.tick()
	c.mu.Unlock()
}

// ---------------------------------------------------------------- run

var chanSeq atomic.Int64

type result struct {
	viol     [][2]string
	counters map[string]int64
	sigs     []string
}

// stepTag keeps the signatures of the two check steps (full list without the
// race detector / short list with it) apart: the driver sums distinct counts.
func stepTag() string {
	if light() > 1 {
		return "race-step/"
	}
	return "plain-step/"
}

func light() int {
	if os.Getenv("VERIF_LIGHT") != "" {
		return 6
	}
	return 1
}

func run(sc scenario) *result {
	c := &ctl{t0: time.Now(), scState: map[string][]connectivity.State{}, seen: map[string]bool{}, cnt: map[string]int64{}, sigs: map[string]bool{}}
	now := func() time.Duration { return time.Since(c.t0) }
	res := &result{}
	endpoint := fmt.Sprintf("c32-%d", chanSeq.Add(1))
	registry.mu.Lock()
	registry.m[endpoint] = c
	registry.mu.Unlock()
	defer func() {
		registry.mu.Lock()
		delete(registry.m, endpoint)
		registry.mu.Unlock()
	}()
	nw := chanfix.NewNet(chanfix.Accept)
	nw.DialDelay = 5 * time.Millisecond
	// connection-level ground truth kept by the script
	type connInfo struct {
		serving   bool // hc addresses: SERVING has been (started to be) written on this connection
		unhealthy int  // clock after the quiescent point that followed a NOT_SERVING (0 = none)
		drainedQ  int  // clock after the quiescent point that followed a GOAWAY (0 = none)
	}
	cinfo := map[*chanfix.SConn]*connInfo{}
	info := func(sc *chanfix.SConn) *connInfo {
		if cinfo[sc] == nil {
			cinfo[sc] = &connInfo{}
		}
		return cinfo[sc]
	}
	nw.OnStream = func(s chanfix.StreamSeen) {
		if strings.HasPrefix(s.Method, "/grpc.health.v1.Health/") {
			return
		}
		rid, err := strconv.Atoi(s.RID)
		c.mu.Lock()
		defer c.mu.Unlock()
		c.cnt["rpcs_seen_by_servers"]++
		if err != nil || rid < 0 || rid >= len(c.rpcs) {
			c.v("harness", "stream without rpc id on %s", s.Conn.Addr)
			return
		}
		r := c.rpcs[rid]
		chosen := false
		for _, p := range r.picks {
			if p.outcome == "sc" && p.addr == s.Conn.Addr {
				chosen = true
			}
		}
		if !chosen {
			c.v("rpc-on-unpicked-subchannel", "rpc %d arrived on a connection of %s, but no Pick for it ever returned that subchannel (picks: %s)", rid, s.Conn.Addr, pickList(r))
		}
		ci := info(s.Conn)
		if strings.HasPrefix(s.Conn.Addr, "hc") {
			c.cnt["rpcs_seen_on_health_checked_conns"]++
			if !ci.serving {
				c.v("rpc-on-non-ready-subchannel", "rpc %d arrived on connection #%d of %s, whose health stream has never reported SERVING: that subchannel was never READY on this connection (delivered states %v)", rid, s.Conn.N, s.Conn.Addr, c.scState[s.Conn.Addr])
			}
			if ci.unhealthy != 0 && r.startSeq > ci.unhealthy {
				c.v("rpc-on-non-ready-subchannel", "rpc %d was started after NOT_SERVING had been reported on connection #%d of %s and everything had quiesced, yet it arrived on that connection", rid, s.Conn.N, s.Conn.Addr)
			}
		}
		if ci.drainedQ != 0 && r.startSeq > ci.drainedQ {
			c.v("rpc-on-drained-connection", "rpc %d was started after connection #%d of %s had sent GOAWAY and everything had quiesced, yet it arrived on that connection", rid, s.Conn.N, s.Conn.Addr)
		}
	}
	for _, a := range sc.Addrs {
		if strings.HasPrefix(a, "hc") {
			nw.SetHealth(a, 0) // the script decides when SERVING is reported
		}
	}
	mr := manual.NewBuilderWithScheme("verifc32")
	var st resolver.State
	for _, a := range sc.Addrs {
		st.Addresses = append(st.Addresses, resolver.Address{Addr: a})
	}
	mr.InitialState(st)
	cc, err := grpc.NewClient("verifc32:///"+endpoint,
		grpc.WithTransportCredentials(insecure.NewCredentials()),
		grpc.WithResolvers(mr),
		grpc.WithContextDialer(nw.Dialer()),
		grpc.WithIdleTimeout(sc.Idle),
		grpc.WithDefaultServiceConfig(`{"loadBalancingConfig":[{"`+lbName+`":{}}],"healthCheckConfig":{"serviceName":"hc"}}`),
		grpc.WithConnectParams(grpc.ConnectParams{Backoff: backoff.Config{BaseDelay: 200 * time.Millisecond, Multiplier: 1.6, Jitter: 0.2, MaxDelay: time.Second}, MinConnectTimeout: time.Second}))
	if err != nil {
		res.viol = append(res.viol, [2]string{"harness", "NewClient: " + err.Error()})
		return res
	}
	cc.Connect()
	synctest.Wait()

	var wg sync.WaitGroup
	startRPC := func(wfr bool, d time.Duration) {
		c.mu.Lock()
		r := &rpcRec{id: len(c.rpcs), wfr: wfr, startSeq: c.tick(), gStart: c.floorNow(), epochFloor: c.epochFloor}
		ctx := context.WithValue(context.Background(), ridKey{}, r.id)
		ctx = metadata.AppendToOutgoingContext(ctx, "x-rid", strconv.Itoa(r.id))
		var cancel context.CancelFunc
		if d > 0 {
			ctx, cancel = context.WithTimeout(ctx, d)
			r.deadlineAt = now() + d
		} else {
			ctx, cancel = context.WithCancel(ctx)
		}
		r.cancel = cancel
		c.rpcs = append(c.rpcs, r)
		c.cnt["rpcs_started"]++
		c.mu.Unlock()
		wg.Add(1)
		go func() {
			defer wg.Done()
			defer cancel()
			cs, err := cc.NewStream(ctx, &grpc.StreamDesc{ClientStreams: true, ServerStreams: true}, "/verif.C32/Call", grpc.ForceCodec(wire.RawCodec{}), grpc.WaitForReady(wfr))
			if err == nil {
				c.mu.Lock()
				r.picked = true
				c.mu.Unlock()
				cs.CloseSend()
				var b []byte
				for err == nil {
					err = cs.RecvMsg(&b)
				}
				if err == io.EOF {
					err = nil
				}
			}
			s, _ := status.FromError(err)
			c.mu.Lock()
			r.finished, r.finishSeq, r.code, r.msg = true, c.tick(), s.Code(), s.Message()
			c.judgeFinished(r, now())
			c.mu.Unlock()
		}()
	}

	quiesce := func(label string) {
		synctest.Wait()
		c.mu.Lock()
		defer c.mu.Unlock()
		c.cnt["quiescent_checks"]++
		latest := c.completedCurrent()
		for _, r := range c.rpcs {
			if r.finished {
				continue
			}
			var last *pickRec
			if n := len(r.picks); n > 0 {
				last = r.picks[n-1]
			}
			if r.picked {
				continue // the pick is over, the RPC waits for its response
			}
			c.cnt["blocked_pick_checks"]++
			lg := 0
			if last != nil {
				lg = last.g
			}
			state := "blocked-on-latest"
			if latest > lg {
				state = "NOT-WOKEN"
				c.v("pick-not-woken", "after %q at %v: rpc %d is still blocked in its pick; its last Pick ran on generation %d but generation %d has been published completely (last outcome: %s)", label, now(), r.id, lg, latest, lastOutcome(last))
			}
			if last != nil && ((last.outcome == "err" && !r.wfr) || last.outcome == "status") {
				c.v("terminal-pick-not-ended", "after %q: rpc %d (wait-for-ready=%v) got %s from the picker of generation %d, which must end it, but it is still pending at quiescence", label, r.id, r.wfr, describe(last), last.g)
			}
			if r.cancelled {
				c.v("cancelled-rpc-still-blocked", "after %q: rpc %d was cancelled but is still blocked in its pick", label, r.id)
			}
			if r.deadlineAt > 0 && now() > r.deadlineAt {
				c.v("expired-rpc-still-blocked", "after %q at %v: rpc %d is blocked in its pick past its deadline %v", label, now(), r.id, r.deadlineAt)
			}
			c.sigs[state+"/"+lastOutcome(last)+"/wfr="+strconv.FormatBool(r.wfr)] = true
		}
	}
	quiesce("start")
	for _, s := range sc.Steps {
		switch s.K {
		case "publish":
			c.publish(*s.P)
		case "rpc":
			for i := 0; i < s.N; i++ {
				startRPC(s.WFR, s.D)
			}
		case "cancel":
			c.mu.Lock()
			var open []*rpcRec
			for _, r := range c.rpcs {
				if !r.finished && !r.cancelled {
					open = append(open, r)
				}
			}
			if len(open) > 0 {
				r := open[s.N%len(open)]
				r.cancelled = true
				r.cancel()
				c.cnt["client_cancels"]++
			}
			c.mu.Unlock()
		case "kill":
			if live := nw.Live(); len(live) > 0 {
				live[s.N%len(live)].Close()
				c.mu.Lock()
				c.cnt["conns_killed"]++
				c.mu.Unlock()
			}
		case "goaway":
			if live := nw.Live(); len(live) > 0 {
				conn := live[s.N%len(live)]
				conn.GoAway(1<<31 - 1)
				synctest.Wait()
				c.mu.Lock()
				info(conn).drainedQ = c.tick()
				c.cnt["goaways_sent"]++
				c.mu.Unlock()
			}
		case "health":
			for _, conn := range nw.Live() {
				if conn.Addr != s.Addr {
					continue
				}
				c.mu.Lock()
				if s.N == 1 {
					info(conn).serving = true
				}
				c.mu.Unlock()
				if conn.SendHealth(s.N) > 0 {
					c.mu.Lock()
					c.cnt["health_reports_sent"]++
					c.mu.Unlock()
				}
				if s.N != 1 {
					synctest.Wait()
					c.mu.Lock()
					info(conn).unhealthy = c.tick()
					c.mu.Unlock()
				} else {
					c.mu.Lock()
					info(conn).unhealthy = 0
					c.mu.Unlock()
				}
			}
		case "idle":
			// no RPC may be in flight for the idle timer to fire
			c.mu.Lock()
			for _, r := range c.rpcs {
				if !r.finished && !r.cancelled {
					r.cancelled = true
					r.cancel()
				}
			}
			before := c.cnt["policy_instances_closed_by_idle"]
			c.mu.Unlock()
			synctest.Wait()
			time.Sleep(sc.Idle + sc.Idle/2 + 10*time.Millisecond)
			synctest.Wait()
			c.mu.Lock()
			if c.cnt["policy_instances_closed_by_idle"] > before {
				c.cnt["idle_steps_that_idled"]++
			}
			c.mu.Unlock()
		case "connect":
			cc.Connect()
		case "behav":
			var q []chanfix.Behavior
			for _, b := range s.B {
				q = append(q, chanfix.Behavior(b))
			}
			nw.Set(s.Addr, q...)
		case "sleep":
			time.Sleep(s.D)
		}
		quiesce(s.K)
	}
	// tear down
	c.mu.Lock()
	c.closing = true
	for _, r := range c.rpcs {
		if !r.finished {
			r.cancelled = true
			r.cancel()
		}
	}
	c.mu.Unlock()
	synctest.Wait()
	c.mu.Lock()
	for _, r := range c.rpcs {
		if !r.finished {
			c.v("rpc-never-finished", "rpc %d did not return after its context was cancelled", r.id)
		}
	}
	c.mu.Unlock()
	cc.Close()
	wg.Wait()
	nw.Shutdown()
	c.mu.Lock()
	res.viol = c.viol
	res.counters = c.cnt
	res.counters["picks"] = int64(c.picks)
	res.counters["dials"] = int64(len(nw.Dials()))
	for s := range c.sigs {
		res.sigs = append(res.sigs, s)
	}
	sort.Strings(res.sigs)
	c.mu.Unlock()
	return res
}

func lastOutcome(p *pickRec) string {
	if p == nil {
		return "no-pick-yet"
	}
	if p.outcome == "sc" {
		return "sc-" + strings.TrimRight(p.addr, "0123456789")
	}
	return p.outcome
}

func pickList(r *rpcRec) string {
	var s []string
	for _, p := range r.picks {
		s = append(s, fmt.Sprintf("g%d:%s", p.g, describe(p)))
	}
	return "[" + strings.Join(s, ", ") + "]"
}

// judgeFinished is called (with c.mu held) when an RPC has returned.
func (c *ctl) judgeFinished(r *rpcRec, now time.Duration) {
	if r.judged {
		return
	}
	r.judged = true
	var last *pickRec
	if n := len(r.picks); n > 0 {
		last = r.picks[n-1]
	}
	ctxReason := func() bool {
		switch r.code {
		case codes.Canceled:
			return r.cancelled || c.closing
		case codes.DeadlineExceeded:
			return r.deadlineAt > 0 && now >= r.deadlineAt
		}
		return false
	}
	c.sigs["finished/"+lastOutcome(last)+"/wfr="+strconv.FormatBool(r.wfr)+"/"+r.code.String()] = true
	if last != nil && last.g < r.gStart && (last.outcome == "err" || last.outcome == "status") && strings.Contains(r.msg, errText(last.g)) {
		c.v("stale-picker-error-surfaced", "rpc %d ended with %v %q: that is the error of picker generation %d, which was no longer current when the RPC started (oldest usable generation %d)", r.id, r.code, r.msg, last.g, r.gStart)
	}
	switch {
	case last == nil || last.outcome == "nosc" || last.cold || (last.outcome == "err" && r.wfr):
		c.cnt["finished_while_pick_had_to_block"]++
		if !ctxReason() {
			c.v("blocked-pick-failed", "rpc %d (wait-for-ready=%v) ended with %v %q although its last Pick (%s) only allows it to wait for a newer picker; it was neither cancelled nor past its deadline", r.id, r.wfr, r.code, r.msg, pickList(r))
		}
	case last.outcome == "err":
		c.cnt["finished_by_picker_error"]++
		if !(r.code == codes.Unavailable && strings.Contains(r.msg, errText(last.g))) && !ctxReason() {
			c.v("failfast-picker-error-not-unavailable", "fail-fast rpc %d: the picker of generation %d returned a plain error, the RPC ended with %v %q instead of UNAVAILABLE carrying that error", r.id, last.g, r.code, r.msg)
		}
	case last.outcome == "status":
		c.cnt["finished_by_picker_status"]++
		want := last.code
		if restricted(want) {
			want = codes.Internal
		}
		if !(r.code == want && strings.Contains(r.msg, errText(last.g))) && !ctxReason() {
			c.v("picker-status-not-delivered", "rpc %d: the picker of generation %d returned status %v, the RPC ended with %v %q (expected %v)", r.id, last.g, last.code, r.code, r.msg, want)
		}
	default:
		c.cnt["finished_after_subchannel_pick"]++
	}
}

func runFam(t *testing.T, r *vlib.Run, fam string, n int) {
	for i := 0; i < n; i++ {
		if !r.Want(fam, i) {
			continue
		}
		sc := gen(r.Rand(fam, i), fam)
		r.Progress(fam, i, fmt.Sprintf("steps=%d", len(sc.Steps)))
		var res *result
		synctest.Test(t, func(t *testing.T) { res = run(sc) })
		r.Eval(1)
		for _, x := range res.viol {
			r.Violation(x[0], fam, i, sc, "%s", x[1])
		}
		keys := make([]string, 0, len(res.counters))
		for k := range res.counters {
			keys = append(keys, k)
		}
		sort.Strings(keys)
		for _, k := range keys {
			r.Count(k, res.counters[k])
		}
		if res.counters["blocked_pick_checks"] > 0 && res.counters["pickers_published"] > 1 {
			for _, s := range res.sigs {
				r.Nontrivial(stepTag() + fam + ":" + s)
			}
			r.Count("nontrivial_cases", 1)
		}
		if i < 2 {
			r.Sample(map[string]any{"family": fam, "steps": sc.Steps, "counters": res.counters})
		}
	}
}

func TestVerifC32(t *testing.T) {
	r := vlib.Start(t, "C32")
	runFam(t, r, "mixed", r.N(900, 16000)/light())
	runFam(t, r, "health", r.N(500, 9000)/light())
	runFam(t, r, "idle", r.N(600, 9000)/light())
	r.Finish(vlib.Spec{
		Level: "exploration",
		Rule:  "real ClientConn with a test LB policy (idleness off, except in family idle: idle timeout 1-5 s in virtual time, steps that cancel every RPC and sleep past the timeout so that the channel closes its policy instance, then RPCs / Connect wake it up while the re-created instance has not published yet; a Pick by an RPC started after an instance was closed must never run on one of that instance's pickers and its error must never be the RPC's status): one subchannel per address (hot = kept connected, cold = never connected, hc = connected with client-side health checking whose Watch stream the scripted server answers only when the script says so); 15-60 steps: publish picker generation g+1 (ErrNoSubConnAvailable / plain error / status error incl. A54-restricted codes / a fixed subchannel, together with a random connectivity state), start 1-3 RPCs (fail-fast or wait-for-ready, no deadline / 300ms / 2s), cancel one, kill or GOAWAY a live connection, report SERVING / NOT_SERVING, switch an address to refuse / accept / accept-then-close, virtual sleeps. Oracles on the Pick log: every Pick of an RPC uses a generation >= the one completely published before the RPC started and >= the one completely published before its previous Pick; after ErrNoSubConnAvailable, a never-connected subchannel or (wait-for-ready) a plain error the next Pick is on a strictly newer generation and the RPC only ends by cancellation/deadline; a plain error ends a fail-fast RPC with UNAVAILABLE carrying it, a status error ends any RPC with that status (INTERNAL for restricted codes); at every quiescent point no RPC is still blocked in its pick on an older generation than the latest completely published one, none is pending after a terminal pick result, after cancellation or past its deadline; server side: an RPC only arrives on a connection of a subchannel some Pick returned for it, never on a health-checked connection that has not reported SERVING (subchannel never READY), nor - for RPCs started after GOAWAY / NOT_SERVING + quiescence - on that connection. Non-trivial = blocked picks were checked and >= 2 pickers published; distinct = number of different (family, blocked|finished, last pick outcome, wait-for-ready, final status code) facts observed in non-trivial cases.",
		Assumptions: []string{"a publication is complete when balancer.ClientConn.UpdateState has returned",
			"no retry policy is configured; transparent retries re-enter the pick with the same rpc id, which the generation oracles allow (>=, strictly > only after a blocking result)"},
		Floor: 30,
	})
}
