// Package vlib is the shared runtime of every /verif monitor: seeded case
// lists, the evidence writer, violation / known-finding / inconclusive
// reporting and replay files.
//
// The same sources are compiled in two places: as
// google.golang.org/grpc/verif/vlib in the black-box harness module and, through
// `go test -overlay`, as google.golang.org/grpc/internal/verifvlib next to the
// repository's own packages for white-box monitors.  It must therefore depend
// on the standard library only.
package vlib

import (
	"encoding/json"
	"fmt"
	"hash/fnv"
	"math/rand"
	"os"
	"path/filepath"
	"sort"
	"strconv"
	"strings"
	"sync"
	"testing"
	"time"
)

// Run is the per-check monitor context.  All methods are safe for concurrent
// use.
type Run struct {
	t        testing.TB
	ID       string
	seed     int64
	tier     string
	start    time.Time
	evPath   string
	replayD  string
	replayIn *ReplayFile

	mu          sync.Mutex
	evaluations int64
	distinct    map[string]struct{}
	counters    map[string]int64
	samples     []any
	maxSamples  int
	violations  int
	violKeys    map[string]int
	known       map[string]string // key -> what
	knownSeen   map[string]bool
	inconcl     []string
	progressF   *os.File
	finished    bool
}

// ReplayFile is what a violation writes and what --replay reads back.
type ReplayFile struct {
	Property string          `json:"property"`
	Key      string          `json:"key"`
	Seed     int64           `json:"seed"`
	Tier     string          `json:"tier"`
	Case     int             `json:"case"`
	Family   string          `json:"family,omitempty"`
	Message  string          `json:"message"`
	Detail   json.RawMessage `json:"detail,omitempty"`
}

type knownFile struct {
	Findings []struct {
		Property string `json:"property"`
		Key      string `json:"key"`
		What     string `json:"what"`
	} `json:"findings"`
}

func envOr(k, d string) string {
	if v := os.Getenv(k); v != "" {
		return v
	}
	return d
}

// Start creates the monitor context for property id.  Environment:
// VERIF_SEED (int, default 1), VERIF_TIER (quick|thorough), VERIF_EVIDENCE
// (output path), VERIF_REPLAY_DIR, VERIF_KNOWN (known_findings.json),
// VERIF_REPLAY (a replay file: run only that case), VERIF_PROGRESS (file that
// receives one line per hostile case before it is executed).
func Start(t testing.TB, id string) *Run {
	seed, err := strconv.ParseInt(envOr("VERIF_SEED", "1"), 10, 64)
	if err != nil {
		seed = 1
	}
	tier := envOr("VERIF_TIER", "quick")
	if tier != "thorough" {
		tier = "quick"
	}
	r := &Run{
		t: t, ID: id, seed: seed, tier: tier, start: time.Now(),
		evPath:     os.Getenv("VERIF_EVIDENCE"),
		replayD:    envOr("VERIF_REPLAY_DIR", os.TempDir()),
		distinct:   map[string]struct{}{},
		counters:   map[string]int64{},
		violKeys:   map[string]int{},
		known:      map[string]string{},
		knownSeen:  map[string]bool{},
		maxSamples: 5,
	}
	if kp := os.Getenv("VERIF_KNOWN"); kp != "" {
		if b, err := os.ReadFile(kp); err == nil {
			var kf knownFile
			if json.Unmarshal(b, &kf) == nil {
				for _, f := range kf.Findings {
					if f.Property == id {
						r.known[f.Key] = f.What
					}
				}
			}
		}
	}
	if rp := os.Getenv("VERIF_REPLAY"); rp != "" {
		if b, err := os.ReadFile(rp); err == nil {
			var rf ReplayFile
			if json.Unmarshal(b, &rf) == nil && rf.Property == id {
				r.replayIn = &rf
				r.seed = rf.Seed
				if rf.Tier == "thorough" {
					r.tier = rf.Tier
				}
			}
		}
	}
	if pp := os.Getenv("VERIF_PROGRESS"); pp != "" {
		r.progressF, _ = os.OpenFile(pp, os.O_CREATE|os.O_WRONLY|os.O_APPEND, 0o644)
	}
	return r
}

// Seed returns the run's base seed.
func (r *Run) Seed() int64 { return r.seed }

// Tier returns "quick" or "thorough".
func (r *Run) Tier() string { return r.tier }

// Thorough reports whether the thorough tier was requested.
func (r *Run) Thorough() bool { return r.tier == "thorough" }

// N picks the tier-dependent size of a case list.
func (r *Run) N(quick, thorough int) int {
	if r.Thorough() {
		return thorough
	}
	return quick
}

// Replaying returns the replay request, if this run replays a single case.
func (r *Run) Replaying() *ReplayFile { return r.replayIn }

// Want reports whether case i of family fam should be executed (always true
// unless a replay file selects one case).
func (r *Run) Want(fam string, i int) bool {
	if r.replayIn == nil {
		return true
	}
	return r.replayIn.Case == i && (r.replayIn.Family == "" || r.replayIn.Family == fam)
}

// Rand returns the PRNG of case i of family fam: a pure function of
// (seed, fam, i), so any case can be regenerated alone.
func (r *Run) Rand(fam string, i int) *rand.Rand {
	h := fnv.New64a()
	fmt.Fprintf(h, "%d/%s/%d", r.seed, fam, i)
	return rand.New(rand.NewSource(int64(h.Sum64())))
}

// Eval counts n executed cases.
func (r *Run) Eval(n int) {
	r.mu.Lock()
	r.evaluations += int64(n)
	r.mu.Unlock()
}

// Nontrivial records the signature of a case that was non-trivial by the
// check's stated rule; distinct signatures are what evidence reports.
func (r *Run) Nontrivial(sig string) {
	r.mu.Lock()
	r.distinct[sig] = struct{}{}
	r.mu.Unlock()
}

// Count adds d to a free-form evidence counter.
func (r *Run) Count(name string, d int64) {
	r.mu.Lock()
	r.counters[name] += d
	r.mu.Unlock()
}

// Max keeps the maximum seen for a free-form evidence counter.
func (r *Run) Max(name string, v int64) {
	r.mu.Lock()
	if cur, ok := r.counters[name]; !ok || v > cur {
		r.counters[name] = v
	}
	r.mu.Unlock()
}

// Counter reads back a counter.
func (r *Run) Counter(name string) int64 {
	r.mu.Lock()
	defer r.mu.Unlock()
	return r.counters[name]
}

// Sample keeps up to five written-out cases for the evidence file.
func (r *Run) Sample(v any) {
	r.mu.Lock()
	if len(r.samples) < r.maxSamples {
		r.samples = append(r.samples, v)
	}
	r.mu.Unlock()
}

// Progress records, durably and before the case runs, which hostile case is
// about to execute, so a process-fatal event is attributable to an input.
func (r *Run) Progress(fam string, i int, desc string) {
	if r.progressF == nil {
		return
	}
	r.mu.Lock()
	fmt.Fprintf(r.progressF, "%s seed=%d family=%s case=%d %s\n", r.ID, r.seed, fam, i, desc)
	r.mu.Unlock()
}

// Violation reports a violated oracle.  key identifies the failing input
// class / call site (it is what known_findings.json lists); detail is stored in
// the replay file.  Returns true if it counted as a (new) violation.
func (r *Run) Violation(key, fam string, caseIdx int, detail any, format string, args ...any) bool {
	msg := fmt.Sprintf(format, args...)
	r.mu.Lock()
	defer r.mu.Unlock()
	if what, ok := r.known[key]; ok {
		if !r.knownSeen[key] {
			r.knownSeen[key] = true
			fmt.Printf("KNOWN-FINDING: property=%s %s [key=%s] (%s)\n", r.ID, what, key, oneLine(msg))
		}
		r.counters["known_finding_hits"]++
		return false
	}
	r.violations++
	r.violKeys[key]++
	if r.violKeys[key] > 3 { // do not flood: three replay files per key
		return true
	}
	var raw json.RawMessage
	if detail != nil {
		if b, err := json.Marshal(detail); err == nil {
			raw = b
		} else {
			raw, _ = json.Marshal(fmt.Sprintf("%+v", detail))
		}
	}
	rf := ReplayFile{Property: r.ID, Key: key, Seed: r.seed, Tier: r.tier, Case: caseIdx, Family: fam, Message: msg, Detail: raw}
	_ = os.MkdirAll(r.replayD, 0o755)
	name := fmt.Sprintf("%s-%d-%s-%d-%s.json", r.ID, r.seed, sanitize(fam), caseIdx, sanitize(key))
	path := filepath.Join(r.replayD, name)
	if b, err := json.MarshalIndent(rf, "", " "); err == nil {
		_ = os.WriteFile(path, b, 0o644)
	}
	fmt.Printf("VIOLATION property=%s replay=%s\n", r.ID, path)
	fmt.Printf("  detail: key=%s family=%s case=%d: %s\n", key, fam, caseIdx, oneLine(msg))
	return true
}

// Inconclusive records that the run could not decide (too few events, checker
// timeout, watchdog).  It is never folded into pass or fail.
func (r *Run) Inconclusive(format string, args ...any) {
	msg := fmt.Sprintf(format, args...)
	r.mu.Lock()
	r.inconcl = append(r.inconcl, msg)
	r.mu.Unlock()
	fmt.Printf("INCONCLUSIVE property=%s reason=%s\n", r.ID, oneLine(msg))
}

// Violations returns the number of (unlisted) violations so far.
func (r *Run) Violations() int {
	r.mu.Lock()
	defer r.mu.Unlock()
	return r.violations
}

// Spec describes what Finish writes into the evidence file.
type Spec struct {
	Level       string   // exploration | fault_enumeration | ...
	Rule        string   // how cases are generated and what makes one non-trivial
	Assumptions []string // trusted base
	Floor       int      // minimum distinct non-trivial cases (quick tier) for a verdict
	Exhaustive  bool
}

type evidence struct {
	PropertyID  string         `json:"property_id"`
	Tier        string         `json:"tier"`
	Seed        int64          `json:"seed"`
	Level       string         `json:"level"`
	Coverage    map[string]any `json:"coverage"`
	Assumptions []string       `json:"assumptions"`
	WallS       float64        `json:"wall_s"`
	Violations  int            `json:"violations"`
}

// Finish writes the evidence file and turns the verdict into the test result.
func (r *Run) Finish(s Spec) {
	r.mu.Lock()
	if r.finished {
		r.mu.Unlock()
		return
	}
	r.finished = true
	distinct := len(r.distinct)
	cov := map[string]any{
		"evaluations":         r.evaluations,
		"distinct_nontrivial": distinct,
		"rule":                s.Rule,
		"samples":             r.samples,
	}
	if s.Exhaustive {
		cov["exhaustive"] = true
	}
	keys := make([]string, 0, len(r.counters))
	for k := range r.counters {
		keys = append(keys, k)
	}
	sort.Strings(keys)
	cnt := map[string]int64{}
	for _, k := range keys {
		cnt[k] = r.counters[k]
	}
	cov["counters"] = cnt
	if len(r.samples) == 0 {
		cov["samples"] = []any{}
	}
	if len(r.inconcl) > 0 {
		cov["inconclusive"] = r.inconcl
	}
	if len(r.knownSeen) > 0 {
		ks := []string{}
		for k := range r.knownSeen {
			ks = append(ks, k)
		}
		sort.Strings(ks)
		cov["known_findings_reproduced"] = ks
	}
	level := s.Level
	if level == "" {
		level = "exploration"
	}
	ev := evidence{PropertyID: r.ID, Tier: r.tier, Seed: r.seed, Level: level, Coverage: cov,
		Assumptions: s.Assumptions, WallS: time.Since(r.start).Seconds(), Violations: r.violations}
	if ev.Assumptions == nil {
		ev.Assumptions = []string{}
	}
	viol := r.violations
	replaying := r.replayIn != nil
	inconcl := len(r.inconcl)
	r.mu.Unlock()

	if r.evPath != "" && !replaying {
		if b, err := json.MarshalIndent(ev, "", " "); err == nil {
			_ = os.MkdirAll(filepath.Dir(r.evPath), 0o755)
			_ = os.WriteFile(r.evPath, append(b, '\n'), 0o644)
		}
	}
	fmt.Printf("EVIDENCE property=%s tier=%s seed=%d evaluations=%d distinct_nontrivial=%d violations=%d wall_s=%.1f\n",
		r.ID, r.tier, r.seed, ev.Coverage["evaluations"], distinct, viol, ev.WallS)
	if viol > 0 {
		r.t.Errorf("%s: %d violation(s)", r.ID, viol)
		return
	}
	if !replaying && s.Floor > 0 && distinct < s.Floor && viol == 0 {
		fmt.Printf("INCONCLUSIVE property=%s reason=only %d distinct non-trivial cases observed (floor %d)\n", r.ID, distinct, s.Floor)
		inconcl++
	}
	if inconcl > 0 {
		r.t.Errorf("%s: inconclusive", r.ID)
	}
}

func oneLine(s string) string {
	s = strings.ReplaceAll(s, "\n", " | ")
	if len(s) > 600 {
		s = s[:600] + "…"
	}
	return s
}

func sanitize(s string) string {
	b := []byte(s)
	for i, c := range b {
		switch {
		case c >= 'a' && c <= 'z', c >= 'A' && c <= 'Z', c >= '0' && c <= '9', c == '-', c == '_', c == '.':
		default:
			b[i] = '_'
		}
	}
	if len(b) > 60 {
		b = b[:60]
	}
	return string(b)
}

// Pick returns a uniformly chosen element.
func Pick[T any](rng *rand.Rand, xs ...T) T { return xs[rng.Intn(len(xs))] }

// Watchdog arms a generous wall-clock guard; if it fires the run is reported
// inconclusive (never a violation) and the process exits with status 2 after
// dumping goroutines.  The returned function disarms it.
func (r *Run) Watchdog(d time.Duration) (stop func()) {
	tm := time.AfterFunc(d, func() {
		fmt.Printf("INCONCLUSIVE property=%s reason=watchdog %v fired\n", r.ID, d)
		r.Inconclusive("watchdog %v fired", d)
		r.Finish(Spec{Rule: "watchdog fired before the run completed"})
		panic("verif watchdog fired (inconclusive)")
	})
	return func() { tm.Stop() }
}
