// Adversarial VALUES for the response header fields the client parses
// (grpc-message percent-decoding, grpc-status, grpc-status-details-bin,
// grpc-encoding, content-type, :status, grpc-retry-pushback-ms, -bin metadata,
// and junk the client should ignore), delivered in initial headers,
// Trailers-Only responses and real trailers.
//
// Every field has a FIXED list of shapes that is walked deterministically by
// the "values" family (so that each shape is delivered whatever the seed) plus a
// random composer.
package c11

import (
	"encoding/base64"
	"fmt"
	"math/rand"
	"strings"
)

type shape struct {
	class string
	value string
}

// percent-escape shapes for grpc-message.  The decoder has a fast path (no
// complete escape => value returned verbatim), so the interesting shapes mix at
// least one COMPLETE escape with truncated / invalid ones.
var grpcMessageShapes = []shape{
	{"complete-then-trailing-percent", "%41%"},
	{"complete-then-trailing-percent-1hex", "%41%4"},
	{"literal-complete-literal-trailing-percent", "x%41y%"},
	{"complete-then-two-trailing-percents", "%41%%"},
	{"many-complete-then-trailing-percent", strings.Repeat("%20", 40) + "%"},
	{"many-complete-then-trailing-percent-1hex", strings.Repeat("%e4%b8%ad", 20) + "%e"},
	{"trailing-percent-only", "abc%"},
	{"trailing-percent-1hex-only", "H%6"},
	{"lone-percent", "%"},
	{"percent-1hex", "%4"},
	{"double-percent", "%%"},
	{"double-percent-then-complete", "%%41"},
	{"triple-percent", "%%%"},
	{"percent-run", strings.Repeat("%", 999)},
	{"percent-run-with-complete", "%41" + strings.Repeat("%", 500)},
	{"escaped-percent", "%25"},
	{"escaped-percent-then-percent", "100%25%"},
	{"invalid-hex", "%zz"},
	{"invalid-hex-2nd-digit", "%4g"},
	{"invalid-hex-1st-digit", "%g4"},
	{"complete-then-invalid-hex", "%41%zz"},
	{"invalid-hex-then-complete", "%zz%41"},
	{"invalid-hex-then-complete-then-trailing", "%zz%41%"},
	{"sign-in-hex", "%+1%-1%41"},
	{"space-in-hex", "% 1%41% "},
	{"invalid-utf8-result", "%ff%fe"},
	{"invalid-utf8-lead-only", "%c3"},
	{"invalid-utf8-bad-continuation", "%c3%28"},
	{"overlong-utf8", "%c0%af"},
	{"surrogate-utf8", "%ed%a0%80"},
	{"nul-byte", "a%00b"},
	{"control-bytes", "%0a%0d%09%1b"},
	{"valid-cjk", "%e4%b8%ad%e6%96%87"},
	{"truncated-cjk", "%E4%B8"},
	{"lowercase-uppercase-hex-mix", "%e4%B8%aD"},
	{"long-escapes", strings.Repeat("%41", 3000)},
	{"long-escapes-then-trailing", strings.Repeat("%41", 3000) + "%4"},
	{"long-literal", strings.Repeat("a", 9000)},
	{"raw-utf8", "café 中"},
	{"raw-high-bytes", "\xff\xfe%41\xff%"},
	{"leading-trailing-space", " %41 "},
	{"empty", ""},
	{"percent-at-second-to-last", "ok%2"},
	{"complete-percent-at-second-to-last", "%6fk%2"},
	{"alternating", "%4%41%4%41%4"},
}

var grpcStatusShapes = []shape{
	{"empty", ""}, {"zero", "0"}, {"leading-zeros", "0000"}, {"plus-zero", "+0"}, {"minus-zero", "-0"},
	{"plus-sign", "+5"}, {"minus-one", "-1"}, {"leading-space", " 1"}, {"trailing-space", "1 "}, {"tab", "\t1"},
	{"hex", "0x10"}, {"exponent", "1e3"}, {"decimal-point", "1.0"}, {"arabic-digits", "١"}, {"fullwidth-digit", "１"},
	{"max-known", "16"}, {"first-unknown", "17"}, {"int32-max", "2147483647"}, {"int32-max-plus-1", "2147483648"},
	{"uint32-max", "4294967295"}, {"uint32-max-plus-1", "4294967296"}, {"int32-min", "-2147483648"}, {"int32-min-minus-1", "-2147483649"},
	{"int64-max", "9223372036854775807"}, {"int64-overflow", "9223372036854775808"}, {"huge", strings.Repeat("9", 400)},
	{"many-zeros-then-digit", strings.Repeat("0", 2000) + "5"}, {"nan", "NaN"}, {"list", "1,2"}, {"underscore", "1_0"}, {"word", "OK"},
}

func b64std(b []byte) string { return base64.StdEncoding.EncodeToString(b) }
func b64raw(b []byte) string { return base64.RawStdEncoding.EncodeToString(b) }

// a well-formed google.rpc.Status{code: 3, message: "x"} and variants
var statusProto = []byte{0x08, 0x03, 0x12, 0x01, 'x'}

var detailsBinShapes = []shape{
	{"empty", ""}, {"pad-only-1", "="}, {"pad-only-2", "=="}, {"pad-only-4", "===="},
	{"len1", "A"}, {"len2", "AA"}, {"len3", "AAA"}, {"len4", "AAAA"}, {"len5", "AAAAA"},
	{"padded-2", "AA=="}, {"padded-1", "AAA="}, {"under-padded", "AA="}, {"over-padded", "AAAA===="}, {"pad-in-middle", "AA==AAAA"},
	{"invalid-chars", "!!!!"}, {"space-inside", "AA AA"}, {"url-safe-alphabet", "-_-_"}, {"non-canonical-bits", "AB=="},
	{"valid-status-std", b64std(statusProto)}, {"valid-status-raw", b64raw(statusProto)},
	{"truncated-proto", b64raw(statusProto[:3])},
	{"proto-bad-wiretype", b64raw([]byte{0x0f, 0xff, 0xff})},
	{"proto-huge-length-prefix", b64raw([]byte{0x12, 0xff, 0xff, 0xff, 0xff, 0x0f, 'x'})},
	{"proto-varint-overflow", b64raw([]byte{0x08, 0xff, 0xff, 0xff, 0xff, 0xff, 0xff, 0xff, 0xff, 0xff, 0xff, 0x01})},
	{"proto-negative-code", b64raw([]byte{0x08, 0xff, 0xff, 0xff, 0xff, 0xff, 0xff, 0xff, 0xff, 0xff, 0x01})},
	{"proto-code-ok-with-details", b64raw([]byte{0x08, 0x00, 0x1a, 0x02, 0x0a, 0x00})},
	{"proto-any-garbage", b64raw([]byte{0x08, 0x05, 0x1a, 0x08, 0x0a, 0x02, 'a', '/', 0x12, 0x02, 0xff, 0xff})},
	{"proto-invalid-utf8-message", b64raw([]byte{0x08, 0x02, 0x12, 0x02, 0xff, 0xfe})},
	{"proto-deep-groups", b64raw([]byte(strings.Repeat("\x0b", 300)))},
	{"huge-valid-base64", b64raw([]byte(strings.Repeat("\x12\x01x", 20000)))},
	{"huge-invalid", strings.Repeat("A", 50001)},
	{"comma-joined", b64raw(statusProto) + "," + b64raw(statusProto)},
}

var grpcEncodingShapes = []shape{
	{"empty", ""}, {"identity", "identity"}, {"gzip", "gzip"}, {"upper", "GZIP"}, {"list", "gzip,identity"}, {"unknown", "snappy-unknown"},
	{"leading-space", " gzip"}, {"deflate", "deflate"}, {"huge", strings.Repeat("z", 20000)}, {"wildcard", "*"}, {"q-value", "gzip;q=0.5"},
}

var contentTypeShapes = []shape{
	{"grpc", "application/grpc"}, {"grpc-plus-empty", "application/grpc+"}, {"grpc-semicolon-empty", "application/grpc;"},
	{"grpc-proto", "application/grpc+proto"}, {"grpc-proto-param", "application/grpc+proto;x=y"}, {"grpc-unknown-codec", "application/grpc+nosuchcodec"},
	{"grpc-web", "application/grpc-web"}, {"grpcx", "application/grpcx"}, {"prefix-only", "application/grp"}, {"upper", "APPLICATION/GRPC"},
	{"trailing-space", "application/grpc "}, {"leading-space", " application/grpc"}, {"empty", ""}, {"json", "application/json"},
	{"huge", strings.Repeat("a", 10000)}, {"huge-subtype", "application/grpc+" + strings.Repeat("x", 5000)}, {"open-quote", "application/grpc;charset=\""},
	{"plus-plus", "application/grpc++"}, {"slash", "application/grpc/proto"},
}

var httpStatusShapes = []shape{
	{"empty", ""}, {"zero", "0"}, {"leading-zeros", "00200"}, {"plus", "+200"}, {"minus", "-200"}, {"reason-phrase", "200 OK"},
	{"exponent", "2e2"}, {"two-digits", "99"}, {"100", "100"}, {"101", "101"}, {"199", "199"}, {"200", "200"}, {"204", "204"},
	{"301", "301"}, {"400", "400"}, {"401", "401"}, {"403", "403"}, {"404", "404"}, {"429", "429"}, {"500", "500"}, {"502", "502"}, {"503", "503"}, {"504", "504"},
	{"599", "599"}, {"600", "600"}, {"999", "999"}, {"1000", "1000"}, {"65536", "65536"}, {"int32-overflow", "2147483648"}, {"huge", strings.Repeat("9", 300)},
	{"arabic-digits", "٢٠٠"}, {"hex", "0x190"}, {"leading-space", " 200"}, {"decimal", "200.0"},
}

var pushbackShapes = []shape{
	{"empty", ""}, {"zero", "0"}, {"one", "1"}, {"minus-one", "-1"}, {"plus", "+5"}, {"decimal", "1.5"}, {"word", "abc"},
	{"int32-overflow", "2147483648"}, {"int64-overflow", "9223372036854775808"}, {"huge", strings.Repeat("9", 200)}, {"leading-space", " 5"}, {"trailing-space", "5 "},
	{"hex", "0x5"}, {"large-valid", "600000"},
}

var binMetadataShapes = []shape{
	{"empty", ""}, {"len1", "a"}, {"len2", "YQ"}, {"padded", "YQ=="}, {"under-padded", "YQ="}, {"invalid-chars", "YWJj*"}, {"pad-only", "===="},
	{"valid", "YWJj"}, {"huge", strings.Repeat("QUFB", 10000)}, {"comma", "YQ,Yg"}, {"url-safe", "-_-_"}, {"space", "Y Q"},
}

// junk the client must simply carry along or ignore
var junkFields = []hf{
	{Name: "grpc-timeout", Value: "1x"}, {Name: "grpc-timeout", Value: "99999999999H"}, {Name: "grpc-accept-encoding", Value: ",,,gzip,,"},
	{Name: "grpc-message-type", Value: "%41%"}, {Name: "user-agent", Value: "%41%"}, {Name: "grpc-previous-rpc-attempts", Value: "-1"},
	{Name: "grpc-previous-rpc-attempts", Value: "99999999999999999999"}, {Name: "grpc-tags-bin", Value: "!!"}, {Name: "grpc-trace-bin", Value: "A"},
	{Name: "grpc-server-stats-bin", Value: "===="}, {Name: "content-length", Value: "-5"}, {Name: "te", Value: "trailers"}, {Name: "grpc-status-details", Value: "AAAA"},
	{Name: "grpc-messagex", Value: "%41%"}, {Name: "x-grpc-message", Value: "%41%"},
}

type valueField struct {
	name   string
	shapes []shape
}

var valueFields = []valueField{
	{"grpc-message", grpcMessageShapes},
	{"grpc-status", grpcStatusShapes},
	{"grpc-status-details-bin", detailsBinShapes},
	{"grpc-encoding", grpcEncodingShapes},
	{"content-type", contentTypeShapes},
	{":status", httpStatusShapes},
	{"grpc-retry-pushback-ms", pushbackShapes},
	{"x-meta-bin", binMetadataShapes},
	// grpc-message gets extra weight: its decoder is the only hand-written
	// byte-level parser among them
	{"grpc-message", grpcMessageShapes},
}

// randomPercentValue composes a grpc-message value from escape segments.
func randomPercentValue(rng *rand.Rand) shape {
	var sb strings.Builder
	n := 1 + rng.Intn(7)
	complete := false
	for k := 0; k < n; k++ {
		switch rng.Intn(10) {
		case 0, 1:
			sb.WriteString(strings.Repeat("l", 1+rng.Intn(4)))
		case 2, 3, 4:
			fmt.Fprintf(&sb, []string{"%%%02x", "%%%02X"}[rng.Intn(2)], rng.Intn(256))
			complete = true
		case 5:
			sb.WriteString([]string{"%zz", "%4g", "%g4", "%-1", "% 4", "%+f"}[rng.Intn(6)])
		case 6:
			sb.WriteString("%%")
		case 7:
			sb.WriteString("%25")
			complete = true
		case 8:
			sb.WriteByte(byte(0x80 + rng.Intn(0x80)))
		default:
			sb.WriteString(" ")
		}
	}
	tail := ""
	switch rng.Intn(4) {
	case 0:
		tail = "%"
	case 1:
		tail = "%" + string("0123456789abcdefABCDEFgz"[rng.Intn(24)])
	case 2:
		tail = "%%"
	}
	sb.WriteString(tail)
	cls := "random"
	if complete {
		cls += "-with-complete-escape"
	}
	if tail != "" {
		cls += "-truncated-tail"
	}
	return shape{cls, sb.String()}
}

// pickValue returns the k-th fixed shape of field fi (k >= 0) or a random one.
func pickValue(rng *rand.Rand, fi int, k int) (name string, s shape) {
	vf := valueFields[fi%len(valueFields)]
	if k >= 0 {
		return vf.name, vf.shapes[k%len(vf.shapes)]
	}
	if vf.name == "grpc-message" && rng.Intn(2) == 0 {
		return vf.name, randomPercentValue(rng)
	}
	return vf.name, vf.shapes[rng.Intn(len(vf.shapes))]
}
