// Family "goaway": GOAWAYs that disown active streams while many application
// goroutines are opening streams on the same transport.
//
// W worker goroutines issue RPCs back to back (no quiescent point between
// script steps); the scripted server answers nothing and sends
// GOAWAY(last-stream-id = small odd id) from its reader goroutine as soon as it
// has read every N-th HEADERS frame of a connection, i.e. while the other
// workers are inside http2Client.NewStream on that very transport.  The reader
// goroutine handling the GOAWAY therefore really runs in parallel with
// application goroutines (goroutines of a bubble run on all Ps).  Streams above
// the GOAWAY id are closed as unprocessed and transparently retried on the next
// connection, which the server accepts 10 ms (virtual) later, so every RPC
// meets many GOAWAYs until its deadline.
//
// Oracles: as everywhere in C11 - every RPC returns exactly once with a status,
// none later than its deadline (judged at quiescent points), ClientConn.Close
// returns and the bubble ends; a lock-order deadlock inside the transport stops
// the bubble's clock and is reported by the stall monitor (classifyStall).
package c11

import (
	"context"
	"errors"
	"fmt"
	"io"
	"math/rand"
	"sync"
	"sync/atomic"
	"testing/synctest"
	"time"

	"golang.org/x/net/http2"
	"google.golang.org/grpc"
	"google.golang.org/grpc/status"
	"google.golang.org/grpc/verif/vlib"
	"google.golang.org/grpc/verif/wire"
)

type goawayScenario struct {
	Fam         string        `json:"fam"`
	Seed        int64         `json:"seed"`
	Workers     int           `json:"workers"`
	PerWorker   int           `json:"rpcs_per_worker"`
	GoAwayEvery int           `json:"goaway_every_n_headers"`
	LastID      string        `json:"goaway_last_id"` // one | three | middle
	MinDL       time.Duration `json:"min_deadline"`
	MaxDL       time.Duration `json:"max_deadline"`
	Streaming   bool          `json:"streaming_rpcs"`
	Complete    int           `json:"complete_every"` // the server completes every k-th stream (0 = none)
}

func genGoAway(rng *rand.Rand) goawayScenario {
	sc := goawayScenario{Fam: "goaway", Seed: rng.Int63(), Workers: vlib.Pick(rng, 16, 24, 32, 48), PerWorker: 3 + rng.Intn(6),
		LastID: vlib.Pick(rng, "one", "one", "three", "middle"), MinDL: 20 * time.Millisecond, MaxDL: time.Duration(100+rng.Intn(500)) * time.Millisecond,
		Streaming: rng.Intn(3) == 0, Complete: vlib.Pick(rng, 0, 0, 3, 7)}
	sc.GoAwayEvery = 2 + rng.Intn(sc.Workers/2)
	return sc
}

func runGoAway(sc goawayScenario, res *caseResult) {
	rng := rand.New(rand.NewSource(sc.Seed))
	t0 := time.Now()
	now := func() time.Duration { return time.Since(t0) }
	var mu sync.Mutex
	v := func(key, format string, a ...any) {
		mu.Lock()
		res.Viol = append(res.Viol, [2]string{key, fmt.Sprintf(format, a...)})
		mu.Unlock()
		progressTick.Add(1) // release: the stall monitor reads res after an atomic load of the tick
	}
	count := func(k string, d int64) {
		mu.Lock()
		res.Counters[k] += d
		mu.Unlock()
		progressTick.Add(1)
	}
	var noDial atomic.Bool
	fx, err := wire.NewClientFixture()
	if err != nil {
		v("harness", "fixture: %v", err)
		return
	}
	fx.DialHook = func(int) error {
		if noDial.Load() {
			return errors.New("scripted: no further connections")
		}
		return nil
	}

	// ---- the scripted server: accepts every connection 10 ms after it was
	// dialed, never answers, GOAWAY after every N-th HEADERS
	var peers []*wire.Peer
	stop := make(chan struct{})
	var srvWG sync.WaitGroup
	srvWG.Add(1)
	go func() {
		defer srvWG.Done()
		for {
			select {
			case <-stop:
				return
			case raw := <-fx.AcceptCh():
				time.Sleep(10 * time.Millisecond)
				p := wire.NewPeer(raw, true)
				var ids []uint32
				p.OnFrame = func(e wire.Entry) {
					if e.Type != http2.FrameHeaders {
						return
					}
					ids = append(ids, e.Stream)
					count("headers_read", 1)
					if sc.Complete > 0 && len(ids)%sc.Complete == 0 {
						p.WriteHeaders(e.Stream, true, 0, wire.TrailersOnly(0, "")...)
						count("streams_completed", 1)
					}
					if len(ids)%sc.GoAwayEvery != 0 {
						return
					}
					last := uint32(1)
					switch sc.LastID {
					case "three":
						last = 3
					case "middle":
						last = ids[len(ids)/2]
					}
					if len(ids) > sc.GoAwayEvery {
						last = 1 // a later GOAWAY must not raise the id
					}
					p.WriteGoAway(last, http2.ErrCodeNo, "scripted")
					count("goaways_sent", 1)
					if last < e.Stream {
						count("goaways_disowning_active_streams", 1)
					}
				}
				if p.Start() != nil {
					raw.Close()
					continue
				}
				mu.Lock()
				peers = append(peers, p)
				mu.Unlock()
				count("conns_accepted", 1)
			}
		}
	}()

	// ---- workers
	type cur struct {
		running    bool
		deadlineAt time.Duration
		late       bool
	}
	curs := make([]cur, sc.Workers)
	var wg sync.WaitGroup
	var done atomic.Int64
	dls := make([][]time.Duration, sc.Workers)
	for w := range dls {
		for k := 0; k < sc.PerWorker; k++ {
			dls[w] = append(dls[w], sc.MinDL+time.Duration(rng.Int63n(int64(sc.MaxDL-sc.MinDL))))
		}
	}
	for w := 0; w < sc.Workers; w++ {
		wg.Add(1)
		go func() {
			defer wg.Done()
			defer done.Add(1)
			for k := 0; k < sc.PerWorker; k++ {
				ctx, cancel := context.WithTimeout(context.Background(), dls[w][k])
				mu.Lock()
				curs[w] = cur{running: true, deadlineAt: now() + dls[w][k]}
				mu.Unlock()
				var err error
				if sc.Streaming && k%2 == 1 {
					var st grpc.ClientStream
					st, err = fx.CC.NewStream(ctx, &grpc.StreamDesc{ServerStreams: true}, "/verif.Hostile/SStream", grpc.WaitForReady(true))
					if err == nil {
						st.SendMsg([]byte("x"))
						st.CloseSend()
						var m []byte
						if err = st.RecvMsg(&m); err == io.EOF {
							err = nil // end of stream with status OK
						}
					}
				} else {
					var resp []byte
					err = fx.CC.Invoke(ctx, "/verif.Hostile/Unary", []byte("x"), &resp, grpc.WaitForReady(k%3 != 0))
				}
				fin := now()
				cancel()
				mu.Lock()
				dl := curs[w].deadlineAt
				curs[w].running = false
				res.Counters["rpcs_returned"]++
				if err == io.EOF {
					// specific class: a bare io.EOF handed to the application
					res.Viol = append(res.Viol, [2]string{"rpc-error-without-status:bare-io.EOF", fmt.Sprintf("worker %d rpc %d (streaming=%v) returned the bare error io.EOF, which carries no status", w, k, sc.Streaming && k%2 == 1)})
				} else if st, ok := status.FromError(err); !ok {
					res.Viol = append(res.Viol, [2]string{"rpc-error-without-status", fmt.Sprintf("worker %d rpc %d returned an error that carries no status: %T %v", w, k, err, err)})
				} else {
					res.Counters["rpc_code_"+st.Code().String()]++
				}
				if fin > dl {
					res.Viol = append(res.Viol, [2]string{"rpc-returned-after-deadline", fmt.Sprintf("worker %d rpc %d returned at %v, later than its deadline %v, with %v", w, k, fin, dl, err)})
				}
				mu.Unlock()
				progressTick.Add(1)
			}
		}()
	}

	// ---- the root goroutine only lets virtual time pass and looks at quiescent points
	limit := time.Duration(sc.PerWorker+2) * (sc.MaxDL + 50*time.Millisecond)
	for done.Load() < int64(sc.Workers) && now() < limit {
		progressTick.Add(1)
		time.Sleep(5 * time.Millisecond)
		synctest.Wait()
		progressTick.Add(1)
		mu.Lock()
		res.Counters["quiescent_checks"]++
		for w := range curs {
			if c := &curs[w]; c.running && now() > c.deadlineAt && !c.late {
				c.late = true
				res.Viol = append(res.Viol, [2]string{"rpc-running-past-deadline", fmt.Sprintf("worker %d: its rpc is still running at %v, the deadline was %v", w, now(), c.deadlineAt)})
			}
		}
		mu.Unlock()
		progressTick.Add(1)
	}
	if done.Load() < int64(sc.Workers) {
		v("rpc-running-past-deadline", "%d of %d workers have not finished their RPCs at %v although every deadline has passed", int64(sc.Workers)-done.Load(), sc.Workers, now())
	}
	noDial.Store(true)
	fx.CC.Close()
	synctest.Wait()
	if done.Load() < int64(sc.Workers) {
		v("rpc-not-finished-after-close", "%d workers are still inside an RPC after ClientConn.Close()", int64(sc.Workers)-done.Load())
		publishEarly(res)
	}
	wg.Wait()
	close(stop)
	srvWG.Wait()
	for {
		select {
		case raw := <-fx.AcceptCh():
			raw.Close()
			continue
		default:
		}
		break
	}
	mu.Lock()
	ps := peers
	mu.Unlock()
	for _, p := range ps {
		p.Close()
		<-p.Done()
	}
	mu.Lock()
	if res.Counters["goaways_disowning_active_streams"] > 0 {
		res.Sigs = append(res.Sigs, fmt.Sprintf("GOAWAY-RACE/workers=%d/every=%d/last=%s/streaming=%v/complete=%d", sc.Workers, sc.GoAwayEvery, sc.LastID, sc.Streaming, sc.Complete))
	}
	mu.Unlock()
}
