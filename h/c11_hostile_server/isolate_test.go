// Crash containment for hostile-input cases.
//
// A panic in a transport goroutine, a Go runtime "fatal error" or the synctest
// "blocked goroutines remain" panic (our goroutine-leak detector) kills the
// whole test process.  To keep exploring after such an event - and to give the
// event a stable key that known_findings.json can list - the cases are executed
// in child processes (the same test binary, run with -test.run=^TestWorker…$).
// The parent hands each child a chunk of case indices, the child appends
// "S fam i" before and "R {json}" after each case to a result file, and the
// parent turns a dead child into a violation of the case that was running.
//
// Nothing here judges by wall-clock time: the per-child watchdog only produces
// INCONCLUSIVE.
package c11

import (
	"bufio"
	"encoding/json"
	"fmt"
	"os"
	"os/exec"
	"path/filepath"
	"regexp"
	"runtime"
	"sort"
	"strconv"
	"strings"
	"sync"
	"sync/atomic"
	"time"
)

// caseID names one case of one family.
type caseID struct {
	Fam string
	I   int
}

// caseResult is what a child reports for one executed case.
type caseResult struct {
	Fam      string           `json:"fam"`
	I        int              `json:"i"`
	Desc     string           `json:"desc,omitempty"`
	Viol     [][2]string      `json:"viol,omitempty"` // (key, explanation)
	Counters map[string]int64 `json:"counters,omitempty"`
	Maxes    map[string]int64 `json:"maxes,omitempty"`
	Sigs     []string         `json:"sigs,omitempty"`  // non-trivial signatures observed
	Trace    []string         `json:"trace,omitempty"` // last operations (only with violations)
	Stall    string           `json:"stall,omitempty"` // the bubble could never make progress again (see stallMonitor)
}

// crashReport describes a child that died while (or right after) running a case.
type crashReport struct {
	Case    caseID
	Key     string // "" when the crash involves harness frames only
	Summary string
	Excerpt string
	// AfterResult: the case had already reported its result when the process died.
	AfterResult bool
	Harness     bool
}

type isoConfig struct {
	workerTest string // name of the child test function
	workers    int
	chunk      int
	watchdog   time.Duration // wall-clock per child; firing is INCONCLUSIVE only
	maxCrashes int           // stop handing out cases after that many dead children (the verdict is settled)
}

type isoOutcome struct {
	results      map[caseID]*caseResult
	crashes      []crashReport
	inconclusive []string
	children     int
	raceExits    int
	skipped      int // cases not run because of a crash storm
	stalls       int // children that ended a case because its bubble could never run again
}

const (
	envCases = "VERIF_ISO_CASES"
	envOut   = "VERIF_ISO_OUT"
)

func encodeCases(cs []caseID) string {
	var sb strings.Builder
	for k, c := range cs {
		if k > 0 {
			sb.WriteByte(',')
		}
		fmt.Fprintf(&sb, "%s:%d", c.Fam, c.I)
	}
	return sb.String()
}

func decodeCases(s string) []caseID {
	var out []caseID
	for _, p := range strings.Split(s, ",") {
		k := strings.LastIndexByte(p, ':')
		if k < 0 {
			continue
		}
		n, err := strconv.Atoi(p[k+1:])
		if err != nil {
			continue
		}
		out = append(out, caseID{p[:k], n})
	}
	return out
}

// childMain is the body of the worker test: it runs the cases named in the
// environment and streams the results to the result file.
func childMain(run func(c caseID) *caseResult) bool {
	spec := os.Getenv(envCases)
	if spec == "" {
		return false
	}
	f, err := os.OpenFile(os.Getenv(envOut), os.O_CREATE|os.O_WRONLY|os.O_APPEND, 0o644)
	if err != nil {
		fmt.Println("iso child: cannot open result file:", err)
		os.Exit(3)
	}
	defer f.Close()
	emit := func(res *caseResult) {
		b, _ := json.Marshal(res)
		f.Write(append(append([]byte("R "), b...), '\n'))
	}
	earlyEmit = emit
	go stallMonitor(emit)
	for _, c := range decodeCases(spec) {
		fmt.Fprintf(f, "S %s %d\n", c.Fam, c.I)
		emitted = false
		res := run(c)
		if !emitted {
			emit(res)
		}
	}
	return true
}

// ---- virtual-clock stall detection
//
// A goroutine of the bubble that waits for a sync.Mutex is not "durably
// blocked": if the holder of that mutex is itself blocked for good, the bubble's
// clock never advances, synctest.Wait never returns and the process would hang
// until a wall-clock watchdog.  stallMonitor runs OUTSIDE the bubble.  Wall-clock
// time only decides WHEN it looks; the judgement is a state fact taken from two
// identical goroutine dumps: every goroutine of the bubble is blocked (none
// running or runnable), at least one of them on a sync.Mutex.  Such a bubble can
// never run again (its timers only fire when all goroutines are durably blocked,
// and nothing outside touches it), so whatever the blocked goroutines were about
// to do will never happen.  stallClassifier decides whether that is a violation
// of the property; otherwise the case is INCONCLUSIVE.
var (
	progressTick    atomic.Int64
	currentRes      atomic.Pointer[caseResult]
	stallClassifier func(gs []gblock) (key, msg string)
)

const exitStalled = 7

func bubbleSnapshot() (stalled bool, sig string, gs []gblock, dump string) {
	buf := make([]byte, 16<<20)
	buf = buf[:runtime.Stack(buf, true)]
	dump = string(buf)
	var ids []string
	mutex := false
	for _, g := range parseGoroutines(dump) {
		if !strings.Contains(g.state, "synctest bubble") {
			continue
		}
		base := g.state
		if k := strings.Index(base, ","); k >= 0 {
			base = base[:k]
		}
		switch {
		case strings.HasSuffix(base, "(durable)"):
		case base == "sync.Mutex.Lock", base == "sync.RWMutex.Lock", base == "sync.RWMutex.RLock":
			mutex = true
		default:
			return false, "", nil, dump // something can still run
		}
		gs = append(gs, g)
		ids = append(ids, g.header[:strings.Index(g.header, "[")]+base)
	}
	sort.Strings(ids)
	return mutex && len(gs) > 0, strings.Join(ids, ";"), gs, dump
}

func stallMonitor(emit func(*caseResult)) {
	last, idle := progressTick.Load(), 0
	for {
		time.Sleep(2 * time.Second)
		now := progressTick.Load()
		if now != last {
			last, idle = now, 0
			continue
		}
		if idle++; idle < 6 {
			continue
		}
		ok1, sig1, _, _ := bubbleSnapshot()
		if !ok1 {
			continue
		}
		time.Sleep(time.Second)
		ok2, sig2, gs, dump := bubbleSnapshot()
		if !ok2 || sig1 != sig2 || progressTick.Load() != now {
			continue
		}
		res := currentRes.Load()
		if res == nil {
			continue
		}
		var where []string
		var stacks []string
		for _, g := range gs {
			if strings.HasPrefix(g.state, "sync.") {
				where = append(where, firstGrpcFunc(g))
			}
		}
		for _, blk := range strings.Split(dump, "\n\n") {
			if strings.Contains(blk, "synctest bubble") && (strings.Contains(blk, "[sync.") || strings.Contains(blk, "retryLocked") || strings.Contains(blk, "maxStreamMu")) && len(stacks) < 6 {
				if len(blk) > 2500 {
					blk = blk[:2500] + "…"
				}
				stacks = append(stacks, blk)
			}
		}
		res.Stall = fmt.Sprintf("the bubble can never run again: every goroutine is blocked, non-durably on a sync.Mutex in %v (virtual clock stopped)", where)
		if stallClassifier != nil {
			if key, msg := stallClassifier(gs); key != "" {
				res.Viol = append(res.Viol, [2]string{key, msg})
			}
		}
		res.Trace = append(res.Trace, stacks...)
		if !emitted {
			emitted = true
			emit(res)
		}
		os.Exit(exitStalled)
	}
}

// earlyEmit lets a case publish its result from inside the bubble when it knows
// that the bubble cannot terminate any more (the process is about to die with
// the synctest deadlock panic).
var (
	earlyEmit func(*caseResult)
	emitted   bool
)

func publishEarly(res *caseResult) {
	if earlyEmit != nil && !emitted {
		emitted = true
		earlyEmit(res)
	}
}

var (
	reGoroutine = regexp.MustCompile(`(?m)^goroutine (\d+) \[([^\]]*)\]:$`)
	reFuncLine  = regexp.MustCompile(`(?m)^([^\s].*)\(.*\)$|^(created by .*)$`)
)

type gblock struct {
	header string
	state  string
	funcs  []string
}

func parseGoroutines(out string) []gblock {
	idx := reGoroutine.FindAllStringSubmatchIndex(out, -1)
	var gs []gblock
	for k, m := range idx {
		end := len(out)
		if k+1 < len(idx) {
			end = idx[k+1][0]
		}
		body := out[m[1]:end]
		g := gblock{header: out[m[0]:m[1]], state: out[m[4]:m[5]]}
		for _, ln := range strings.Split(body, "\n") {
			if ln == "" || ln[0] == '\t' || ln[0] == ' ' {
				continue
			}
			if strings.HasPrefix(ln, "created by ") {
				continue
			}
			if p := strings.LastIndexByte(ln, '('); p > 0 {
				g.funcs = append(g.funcs, ln[:p])
			}
		}
		gs = append(gs, g)
	}
	return gs
}

func isGrpcFunc(fn string) bool {
	return strings.HasPrefix(fn, "google.golang.org/grpc") && !strings.Contains(fn, "/verif/") && !strings.Contains(fn, "grpc/verif.")
}

func firstGrpcFunc(g gblock) string {
	for _, fn := range g.funcs {
		if isGrpcFunc(fn) {
			fn = strings.TrimPrefix(fn, "google.golang.org/grpc/")
			fn = strings.TrimPrefix(fn, "google.golang.org/")
			// closures: keep the enclosing function only (stable across edits)
			if k := strings.Index(fn, ".func"); k > 0 {
				fn = fn[:k]
			}
			return fn
		}
	}
	return ""
}

// analyseCrash derives a stable key from the output of a dead child.
func analyseCrash(out string) (key, summary string, harnessOnly bool) {
	lines := strings.Split(out, "\n")
	msg := ""
	at := 0
	off := 0
	for _, ln := range lines {
		if strings.HasPrefix(ln, "panic: ") || strings.HasPrefix(ln, "fatal error: ") {
			msg = ln
			at = off
			break
		}
		off += len(ln) + 1
	}
	if msg == "" {
		return "", "child process died without a panic message", true
	}
	tail := out[at:]
	gs := parseGoroutines(tail)
	if strings.Contains(msg, "deadlock: main bubble goroutine has exited but blocked goroutines remain") ||
		strings.Contains(msg, "deadlock: all goroutines in bubble are blocked") {
		class := "goroutine-leak"
		if strings.Contains(msg, "all goroutines in bubble are blocked") {
			class = "bubble-deadlock"
		}
		var where []string
		seen := map[string]bool{}
		for _, g := range gs {
			if !strings.Contains(g.state, "synctest bubble") && !strings.Contains(g.state, "durable") {
				continue
			}
			if strings.HasPrefix(g.state, "running") {
				continue
			}
			if fn := firstGrpcFunc(g); fn != "" && !seen[fn] {
				seen[fn] = true
				where = append(where, fn)
			}
		}
		if len(where) == 0 {
			return "", msg + " (no blocked goroutine shows a grpc frame)", true
		}
		sort.Strings(where)
		return class + ":" + where[0], fmt.Sprintf("%s; goroutines remain blocked in: %s", msg, strings.Join(where, ", ")), false
	}
	// ordinary panic / fatal error: the first goroutine printed is the culprit
	if len(gs) > 0 {
		if fn := firstGrpcFunc(gs[0]); fn != "" {
			class := "panic"
			if strings.HasPrefix(msg, "fatal error: ") {
				class = "fatal"
			}
			short := strings.TrimPrefix(strings.TrimPrefix(msg, "panic: "), "fatal error: ")
			if len(short) > 160 {
				short = short[:160]
			}
			return class + ":" + fn, fmt.Sprintf("%s in %s", short, fn), false
		}
	}
	return "", msg + " (no grpc frame in the failing goroutine)", true
}

func excerpt(out string) string {
	k := strings.Index(out, "panic: ")
	if j := strings.Index(out, "fatal error: "); j >= 0 && (k < 0 || j < k) {
		k = j
	}
	if k < 0 {
		k = max(0, len(out)-4000)
	}
	e := out[k:]
	if len(e) > 6000 {
		e = e[:6000] + "\n…"
	}
	return e
}

// readResults parses a child's result file.
func readResults(path string) (started []caseID, results map[caseID]*caseResult) {
	results = map[caseID]*caseResult{}
	f, err := os.Open(path)
	if err != nil {
		return nil, results
	}
	defer f.Close()
	sc := bufio.NewScanner(f)
	sc.Buffer(make([]byte, 1<<20), 64<<20)
	for sc.Scan() {
		ln := sc.Text()
		switch {
		case strings.HasPrefix(ln, "S "):
			p := strings.Fields(ln)
			if len(p) == 3 {
				n, _ := strconv.Atoi(p[2])
				started = append(started, caseID{p[1], n})
			}
		case strings.HasPrefix(ln, "R "):
			var r caseResult
			if json.Unmarshal([]byte(ln[2:]), &r) == nil {
				results[caseID{r.Fam, r.I}] = &r
			}
		}
	}
	return started, results
}

// runIsolated executes all cases in child processes and returns what they
// reported.
func runIsolated(cfg isoConfig, cases []caseID) *isoOutcome {
	out := &isoOutcome{results: map[caseID]*caseResult{}}
	if len(cases) == 0 {
		return out
	}
	dir, err := os.MkdirTemp("", "verif-iso-")
	if err != nil {
		out.inconclusive = append(out.inconclusive, "cannot create scratch dir: "+err.Error())
		return out
	}
	defer os.RemoveAll(dir)
	if cfg.workers <= 0 {
		cfg.workers = min(8, max(2, runtime.NumCPU()/2))
	}
	if cfg.chunk <= 0 {
		cfg.chunk = 20
	}
	var mu sync.Mutex
	queue := append([]caseID(nil), cases...)
	if cfg.maxCrashes <= 0 {
		cfg.maxCrashes = 30
	}
	next := func() []caseID {
		mu.Lock()
		defer mu.Unlock()
		if len(out.crashes) >= cfg.maxCrashes {
			out.skipped += len(queue)
			queue = nil
		}
		n := min(cfg.chunk, len(queue))
		c := queue[:n]
		queue = queue[n:]
		return c
	}
	requeue := func(cs []caseID) {
		mu.Lock()
		queue = append(append([]caseID(nil), cs...), queue...)
		mu.Unlock()
	}
	var wg sync.WaitGroup
	seq := 0
	for w := 0; w < cfg.workers; w++ {
		wg.Add(1)
		go func() {
			defer wg.Done()
			for {
				chunk := next()
				if len(chunk) == 0 {
					return
				}
				mu.Lock()
				seq++
				id := seq
				out.children++
				mu.Unlock()
				resPath := filepath.Join(dir, fmt.Sprintf("res.%d.jsonl", id))
				logPath := filepath.Join(dir, fmt.Sprintf("out.%d.log", id))
				logF, _ := os.Create(logPath)
				cmd := exec.Command(os.Args[0], "-test.run=^"+cfg.workerTest+"$", "-test.timeout=0", "-test.count=1")
				cmd.Env = append(os.Environ(), envCases+"="+encodeCases(chunk), envOut+"="+resPath, "GOTRACEBACK=all")
				cmd.Stdout, cmd.Stderr = logF, logF
				var timedOut atomic.Bool
				err := cmd.Start()
				if err == nil {
					done := make(chan struct{})
					go func() {
						select {
						case <-done:
						case <-time.After(cfg.watchdog):
							timedOut.Store(true)
							cmd.Process.Kill()
						}
					}()
					err = cmd.Wait()
					close(done)
				}
				logF.Close()
				started, results := readResults(resPath)
				mu.Lock()
				for k, v := range results {
					out.results[k] = v
				}
				mu.Unlock()
				if err == nil {
					continue
				}
				logB, _ := os.ReadFile(logPath)
				text := string(logB)
				// which cases are still to run?
				var crashed *caseID
				after := false
				if len(started) > 0 {
					last := started[len(started)-1]
					crashed = &last
					_, after = results[last]
				}
				// without any progress the chunk is dropped (never retried forever)
				var remaining []caseID
				if crashed != nil {
					for k, c := range chunk {
						if c == *crashed {
							remaining = chunk[k+1:]
							break
						}
					}
				}
				isCrash := strings.Contains(text, "\npanic: ") || strings.HasPrefix(text, "panic: ") || strings.Contains(text, "fatal error: ")
				stalledExit := false
				if ee, ok := err.(*exec.ExitError); ok && ee.ExitCode() == exitStalled {
					stalledExit = true
				}
				switch {
				case stalledExit && crashed != nil:
					// the child reported a bubble whose virtual clock stopped for good
					mu.Lock()
					out.stalls++
					mu.Unlock()
					requeue(remaining)
				case timedOut.Load():
					mu.Lock()
					what := "before its first case"
					if crashed != nil {
						what = fmt.Sprintf("in case %s/%d", crashed.Fam, crashed.I)
					}
					out.inconclusive = append(out.inconclusive, fmt.Sprintf("child process exceeded the %v wall-clock watchdog %s", cfg.watchdog, what))
					mu.Unlock()
					requeue(remaining)
				case isCrash && crashed != nil:
					key, summary, harness := analyseCrash(text)
					mu.Lock()
					out.crashes = append(out.crashes, crashReport{Case: *crashed, Key: key, Summary: summary, Excerpt: excerpt(text), AfterResult: after, Harness: harness})
					mu.Unlock()
					requeue(remaining)
				case len(started) == len(chunk) && len(results) == len(chunk):
					// every case reported; a non-zero exit here is the race
					// detector's "race detected during execution" (judged by the
					// driver from the race logs) - nothing was lost
					mu.Lock()
					out.raceExits++
					mu.Unlock()
				default:
					mu.Lock()
					tail := text
					if len(tail) > 1500 {
						tail = tail[len(tail)-1500:]
					}
					out.inconclusive = append(out.inconclusive, fmt.Sprintf("child process failed (%v) without a crash signature; output tail: %s", err, tail))
					mu.Unlock()
					requeue(remaining)
				}
			}
		}()
	}
	wg.Wait()
	return out
}
