// C11: a misbehaving SERVER can never crash or hang the client transport.
//
// A real grpc.ClientConn (engine E1, inside a synctest bubble) runs 1-6
// concurrent RPCs with virtual deadlines against a scripted HTTP/2 server that
// plays sequences from a frame grammar (every frame type, random but
// length-consistent fields, illegal stream ids / states, broken header blocks,
// bogus SETTINGS / WINDOW_UPDATE / GOAWAY, floods) and byte-mutated variants of
// valid frame bytes.  Oracles, all from the statement:
//
//   - the process does not panic / die (cases run in child processes, a dead
//     child is attributed to the case that was running, see isolate_test.go);
//   - every RPC returns exactly once, with nil or an error carrying a status;
//   - no RPC is still running after its deadline (virtual time), and none
//     returns later than its deadline;
//   - once every connection has been closed by the server and no new one can be
//     established, every fail-fast RPC has returned (an RPC cannot outlive its
//     connection);
//   - after cc.Close() every RPC has returned and the bubble terminates, i.e.
//     no transport goroutine outlives the closed connection (synctest's
//     "blocked goroutines remain" panic is the leak detector).
package c11

import (
	"context"
	"errors"
	"fmt"
	"io"
	"math/rand"
	"os"
	"sort"
	"strings"
	"sync"
	"sync/atomic"
	"testing"
	"testing/synctest"
	"time"

	"golang.org/x/net/http2"
	"google.golang.org/grpc"
	"google.golang.org/grpc/codes"
	"google.golang.org/grpc/keepalive"
	"google.golang.org/grpc/status"
	"google.golang.org/grpc/verif/memconn"
	"google.golang.org/grpc/verif/vlib"
	"google.golang.org/grpc/verif/wire"
)

// ---------------------------------------------------------------- scenario

type rpcSpec struct {
	Kind     string        `json:"kind"` // unary | sstream | bidi
	Deadline time.Duration `json:"deadline"`
	WFR      bool          `json:"wfr,omitempty"`
	Sends    int           `json:"sends,omitempty"`
	Size     int           `json:"size,omitempty"`
	Header   bool          `json:"header,omitempty"` // calls Header() before receiving
}

type scenario struct {
	Fam        string    `json:"fam"`
	Seed       int64     `json:"seed"` // drives the operations drawn while the case runs
	MaxHdrList int       `json:"max_header_list,omitempty"`
	Keepalive  bool      `json:"keepalive,omitempty"`
	Handshakes []string  `json:"handshakes"` // per accepted connection
	AckSet     bool      `json:"ack_settings"`
	AckPing    bool      `json:"ack_pings"`
	RPCs       []rpcSpec `json:"rpcs"`
	StartFirst int       `json:"start_first"`
	NOps       int       `json:"nops"`
	MaxConns   int       `json:"max_conns"`
	Focus      string    `json:"focus,omitempty"` // frame type this case concentrates on ("" = all)
	Spares     int       `json:"spares"`              // RPCs held back, started when fewer than MinRunning are running
	MinRunning int       `json:"min_running"`
	Retry      bool      `json:"retry_policy,omitempty"` // channel has a retry policy (grpc-retry-pushback-ms is parsed)
	ValueBase  int       `json:"value_base,omitempty"`   // family "values": start of the deterministic walk over the fixed value shapes
}

var frameKinds = []string{"VALUES", "DATA", "HEADERS", "CONTINUATION", "RST_STREAM", "SETTINGS", "PING", "GOAWAY", "WINDOW_UPDATE", "PUSH_PROMISE", "PRIORITY", "UNKNOWN", "OVERSIZE"}

func gen(rng *rand.Rand, fam string, i int) scenario {
	sc := scenario{Fam: fam, Seed: rng.Int63(), AckSet: rng.Intn(5) != 0, AckPing: rng.Intn(5) != 0, MaxConns: 2 + rng.Intn(4)}
	if rng.Intn(4) == 0 {
		sc.MaxHdrList = vlib.Pick(rng, 64, 512, 4096)
	}
	sc.Keepalive = rng.Intn(5) == 0
	nr := 1 + rng.Intn(6)
	for k := 0; k < nr; k++ {
		sp := rpcSpec{Kind: vlib.Pick(rng, "unary", "unary", "sstream", "bidi"), WFR: rng.Intn(4) == 0, Header: rng.Intn(4) == 0}
		switch rng.Intn(8) {
		case 0:
			sp.Deadline = 0
		case 1:
			sp.Deadline = time.Millisecond
		default:
			sp.Deadline = time.Duration(1+rng.Intn(10000)) * time.Millisecond
		}
		if sp.WFR && sp.Deadline == 0 {
			sp.Deadline = time.Duration(1+rng.Intn(10000)) * time.Millisecond
		}
		sp.Sends = rng.Intn(4)
		sp.Size = vlib.Pick(rng, 0, 1, 10, 100, 5000, 70000)
		sc.RPCs = append(sc.RPCs, sp)
	}
	sc.StartFirst = 1 + rng.Intn(nr)
	// spare RPCs, started one at a time whenever no RPC is running any more (a
	// channel without RPCs neither reconnects nor exercises the transport)
	sc.Spares, sc.MinRunning = 8, 1
	if fam == "values" {
		sc.Spares, sc.MinRunning = 40, 2
	}
	for k := 0; k < sc.Spares; k++ {
		sc.RPCs = append(sc.RPCs, rpcSpec{Kind: vlib.Pick(rng, "unary", "sstream", "bidi"), Deadline: time.Duration(1+rng.Intn(8000)) * time.Millisecond, WFR: rng.Intn(3) == 0, Sends: rng.Intn(3), Size: vlib.Pick(rng, 0, 10, 1000, 70000)})
	}
	sc.NOps = 8 + rng.Intn(40)
	for k := 0; k < sc.MaxConns; k++ {
		h := "ok"
		if fam == "handshake" || rng.Intn(6) == 0 {
			h = vlib.Pick(rng, "ok", "hostile-settings", "first-frame-not-settings", "garbage", "close", "silent", "settings-ack-first", "huge-frame", "partial-then-close")
		}
		sc.Handshakes = append(sc.Handshakes, h)
	}
	if fam == "values" {
		sc.Focus, sc.ValueBase, sc.Retry = "VALUES", i, i%2 == 1
		sc.NOps = 25 + rng.Intn(30)
		sc.MaxHdrList = 0
		for k := range sc.Handshakes {
			sc.Handshakes[k] = "ok"
		}
	}
	if fam == "grammar" {
		// a deterministic rotation guarantees that every frame type is the
		// focus of some case whatever the seed
		if i%2 == 0 {
			sc.Focus = frameKinds[(i/2)%len(frameKinds)]
		}
	}
	return sc
}

// ---------------------------------------------------------------- run state

type rpcRec struct {
	spec       rpcSpec
	started    bool
	startAt    time.Duration
	deadlineAt time.Duration
	finished   int
	lateSeen   bool
	finishAt   time.Duration
	err        error
	cancel     context.CancelFunc
}

type sstream struct {
	id          uint32
	clientEnded bool
	hdrSent     bool
	closed      bool
}

type sconn struct {
	idx      int
	peer     *wire.Peer
	raw      *memconn.Conn
	alive    bool
	fed      int
	streams  map[uint32]*sstream
	order    []uint32
	maxSeen  uint32
	enc      *henc
	tainted  bool // raw bytes were written: frame alignment unknown
	goaways  int
	lastGoID uint32
	reader   bool // the peer's reader goroutine was started
}

type execState struct {
	sc     scenario
	rng    *rand.Rand
	res    *caseResult
	t0     time.Time
	fx     *wire.ClientFixture
	conns  []*sconn
	cur    *sconn
	mu     sync.Mutex
	rpcs   []*rpcRec
	wg     sync.WaitGroup
	next   int
	trace  []string
	sigs   map[string]bool
	noDial atomic.Bool
	dials  atomic.Int64
	nVal   int // VALUES operations delivered so far
}

func (x *execState) now() time.Duration { return time.Since(x.t0) }

func (x *execState) v(key, format string, a ...any) {
	x.res.Viol = append(x.res.Viol, [2]string{key, fmt.Sprintf(format, a...)})
	progressTick.Add(1) // release: the stall monitor reads the result after an atomic load of the tick
}

func (x *execState) tr(format string, a ...any) {
	s := fmt.Sprintf("@%v ", x.now()) + fmt.Sprintf(format, a...)
	x.trace = append(x.trace, s)
	if len(x.trace) > 60 {
		x.trace = x.trace[len(x.trace)-60:]
	}
	if os.Getenv("VERIF_DEBUG") != "" {
		fmt.Println("TRACE", s)
	}
}

func (x *execState) count(name string, d int64) {
	x.res.Counters[name] += d
	progressTick.Add(1) // see v
}

// sig records a (frame type, stream state, field class) triple that was sent
// while the connection was, as far as the script knows, still alive.
func (x *execState) sig(c *sconn, typ, sclass, fclass string) {
	x.tr("conn%d %s stream=%s %s", c.idx, typ, sclass, fclass)
	x.count("frames_ops_"+typ, 1)
	if c.alive {
		x.sigs[typ+"/"+sclass+"/"+fclass] = true
	} else {
		x.count("ops_on_dead_conn", 1)
	}
}

// ---------------------------------------------------------------- RPC side

func (x *execState) startRPC(i int) {
	r := x.rpcs[i]
	ctx := context.Background()
	var cancel context.CancelFunc
	x.mu.Lock()
	r.started, r.startAt = true, x.now()
	if r.spec.Deadline > 0 {
		ctx, cancel = context.WithTimeout(ctx, r.spec.Deadline)
		r.deadlineAt = r.startAt + r.spec.Deadline
	} else {
		ctx, cancel = context.WithCancel(ctx)
	}
	r.cancel = cancel
	x.mu.Unlock()
	x.count("rpcs_started", 1)
	x.wg.Add(1)
	go func() {
		defer x.wg.Done()
		err := x.doRPC(ctx, r.spec)
		x.mu.Lock()
		r.finished++
		r.finishAt = x.now()
		r.err = err
		x.mu.Unlock()
	}()
}

func (x *execState) running() int {
	x.mu.Lock()
	defer x.mu.Unlock()
	n := 0
	for _, r := range x.rpcs {
		if r.started && r.finished == 0 {
			n++
		}
	}
	return n
}

func (x *execState) doRPC(ctx context.Context, sp rpcSpec) error {
	opts := []grpc.CallOption{grpc.WaitForReady(sp.WFR)}
	payload := make([]byte, sp.Size)
	switch sp.Kind {
	case "unary":
		var resp []byte
		return x.fx.CC.Invoke(ctx, "/verif.Hostile/Unary", payload, &resp, opts...)
	case "sstream":
		st, err := x.fx.CC.NewStream(ctx, &grpc.StreamDesc{ServerStreams: true}, "/verif.Hostile/SStream", opts...)
		if err != nil {
			return err
		}
		if err := st.SendMsg(payload); err != nil && !errors.Is(err, io.EOF) {
			return err
		}
		st.CloseSend()
		if sp.Header {
			st.Header()
		}
		for {
			var m []byte
			if err := st.RecvMsg(&m); err != nil {
				if err == io.EOF {
					return nil
				}
				return err
			}
		}
	default:
		st, err := x.fx.CC.NewStream(ctx, &grpc.StreamDesc{ServerStreams: true, ClientStreams: true}, "/verif.Hostile/Bidi", opts...)
		if err != nil {
			return err
		}
		// Sends and receives stay on ONE goroutine: clientStream.withRetry holds
		// cs.mu while a transparent retry waits for a new transport, and a second
		// goroutine blocked on that sync.Mutex is not "durably blocked" for
		// synctest - the bubble's clock would stop for good (harness artefact,
		// not a grpc defect).
		for k := 0; k < sp.Sends; k++ {
			if err := st.SendMsg(payload); err != nil {
				// io.EOF - also when wrapped ("max retries exhausted: ...: EOF" of
				// the retry code) - means: the status is delivered by RecvMsg
				if errors.Is(err, io.EOF) {
					break
				}
				return err
			}
		}
		st.CloseSend()
		if sp.Header {
			st.Header()
		}
		for {
			var m []byte
			if err := st.RecvMsg(&m); err != nil {
				if err == io.EOF {
					return nil
				}
				return err
			}
		}
	}
}

// ---------------------------------------------------------------- server side

func (x *execState) feed() {
	for _, c := range x.conns {
		if c.peer == nil {
			continue
		}
		log := c.peer.LogFrom(c.fed)
		for k := range log {
			e := &log[k]
			if e.Dir != wire.In {
				continue
			}
			switch e.Type {
			case http2.FrameHeaders:
				if _, ok := c.streams[e.Stream]; !ok {
					c.streams[e.Stream] = &sstream{id: e.Stream}
					c.order = append(c.order, e.Stream)
					if e.Stream > c.maxSeen {
						c.maxSeen = e.Stream
					}
					x.count("client_streams_seen", 1)
				}
				if e.EndStream() {
					c.streams[e.Stream].clientEnded = true
				}
			case http2.FrameData:
				if s := c.streams[e.Stream]; s != nil && e.EndStream() {
					s.clientEnded = true
				}
			case http2.FrameRSTStream:
				x.count("client_rst_"+e.Code.String(), 1)
				if s := c.streams[e.Stream]; s != nil {
					s.closed = true
				}
			case http2.FrameGoAway:
				x.count("client_goaway", 1)
			case wire.TypeConnEnd:
				if c.alive {
					c.alive = false
					x.count("conn_ended_by_client", 1)
					x.tr("conn%d ended by the client: %s", c.idx, e.Err)
				}
			}
		}
		c.fed += len(log)
	}
}

// accept picks up connections the channel has dialed meanwhile and performs
// the scripted (possibly hostile) handshake.
func (x *execState) accept() {
	for {
		select {
		case raw := <-x.fx.AcceptCh():
			if x.noDial.Load() {
				// dialed just before dials were switched off: the final phases
				// require that no connection exists any more
				raw.Close()
				x.count("conns_closed_unanswered_in_final_phase", 1)
				continue
			}
			c := &sconn{idx: len(x.conns), raw: raw, streams: map[uint32]*sstream{}, enc: newHenc()}
			x.conns = append(x.conns, c)
			hs := "ok"
			if c.idx < len(x.sc.Handshakes) {
				hs = x.sc.Handshakes[c.idx]
			}
			p := wire.NewPeer(raw, true)
			p.AutoSettingsAck, p.AutoPingAck = x.sc.AckSet, x.sc.AckPing
			c.peer = p
			c.alive = true
			x.count("conns_accepted", 1)
			x.count("handshake_"+hs, 1)
			x.tr("conn%d accepted, handshake %s", c.idx, hs)
			var err error
			switch hs {
			case "ok":
				err = p.Start()
			case "hostile-settings":
				err = p.Start(x.randSettings(x.rng, 1+x.rng.Intn(5))...)
			case "first-frame-not-settings":
				if err = p.StartNoSettings(); err == nil {
					switch x.rng.Intn(4) {
					case 0:
						p.WritePing(false, [8]byte{1})
					case 1:
						p.WriteWindowUpdate(0, 100)
					case 2:
						p.WriteGoAway(0, http2.ErrCodeNo, "bye")
					default:
						p.WriteRawFrame(http2.FrameType(0x20+x.rng.Intn(100)), 0, 0, randBytes(x.rng, x.rng.Intn(30)))
					}
				}
			case "garbage":
				if err = p.StartNoSettings(); err == nil {
					p.WriteBytes(randBytes(x.rng, 1+x.rng.Intn(100)))
				}
			case "close":
				if err = p.StartNoSettings(); err == nil {
					p.Close()
					c.alive = false
				}
			case "silent":
				err = p.StartNoSettings()
			case "settings-ack-first":
				if err = p.StartNoSettings(); err == nil {
					p.WriteSettingsAck()
					p.WriteSettings()
				}
			case "huge-frame":
				if err = p.StartNoSettings(); err == nil {
					p.WriteBytes(frameBytes(http2.FrameSettings, 0, 0, nil)[:3])
					p.WriteBytes([]byte{0xff, 0xff, 0xff, 4, 0, 0, 0, 0, 0})
				}
			case "partial-then-close":
				if err = p.StartNoSettings(); err == nil {
					p.WriteBytes(frameBytes(http2.FrameSettings, 0, 0, settingsPayload(http2.Setting{ID: 4, Val: 100}))[:9+x.rng.Intn(6)])
					p.Close()
					c.alive = false
				}
			}
			c.reader = err == nil
			if err != nil {
				x.count("handshake_io_errors", 1)
				x.tr("conn%d handshake error: %v", c.idx, err)
				c.alive = false
				p.Close()
			}
			if hs != "ok" {
				x.sigs["HANDSHAKE/-/"+hs] = true
			}
			x.cur = c
		default:
			return
		}
	}
}

func (x *execState) quiesce() {
	progressTick.Add(1)
	synctest.Wait()
	progressTick.Add(1)
	x.feed()
	x.accept()
	synctest.Wait()
	x.feed()
	x.count("quiescent_checks", 1)
	// no RPC may still be running after its deadline
	x.mu.Lock()
	now := x.now()
	for i, r := range x.rpcs {
		if r.started && r.finished == 0 && r.deadlineAt > 0 && now > r.deadlineAt && !r.lateSeen {
			x.v("rpc-running-past-deadline", "rpc %d (%s, wfr=%v) is still running at %v, its deadline was %v", i, r.spec.Kind, r.spec.WFR, now, r.deadlineAt)
			r.lateSeen = true // report once
		}
	}
	x.mu.Unlock()
}

func (x *execState) randSettings(rng *rand.Rand, n int) []http2.Setting {
	var ss []http2.Setting
	for k := 0; k < n; k++ {
		ss = append(ss, x.oneSetting(rng))
	}
	return ss
}

func (x *execState) oneSetting(rng *rand.Rand) http2.Setting {
	switch rng.Intn(16) {
	case 0:
		return http2.Setting{ID: http2.SettingInitialWindowSize, Val: 0}
	case 1:
		return http2.Setting{ID: http2.SettingInitialWindowSize, Val: 1<<31 - 1}
	case 2:
		return http2.Setting{ID: http2.SettingInitialWindowSize, Val: 1 << 31}
	case 3:
		return http2.Setting{ID: http2.SettingMaxFrameSize, Val: uint32(rng.Intn(16384))}
	case 4:
		return http2.Setting{ID: http2.SettingMaxFrameSize, Val: 1 << 24}
	case 5:
		return http2.Setting{ID: http2.SettingMaxFrameSize, Val: uint32(16384 + rng.Intn(100000))}
	case 6:
		return http2.Setting{ID: http2.SettingEnablePush, Val: uint32(rng.Intn(4))}
	case 7:
		return http2.Setting{ID: http2.SettingHeaderTableSize, Val: vlib.Pick(rng, uint32(0), 1, 4096, 1<<20, 1<<32-1)}
	case 8:
		return http2.Setting{ID: http2.SettingMaxConcurrentStreams, Val: vlib.Pick(rng, uint32(0), 1, 2, 100, 1<<32-1)}
	case 9:
		return http2.Setting{ID: http2.SettingMaxHeaderListSize, Val: vlib.Pick(rng, uint32(0), 1, 50, 8192, 1<<32-1)}
	case 10:
		return http2.Setting{ID: 0, Val: rng.Uint32()}
	case 11:
		return http2.Setting{ID: http2.SettingID(7 + rng.Intn(0xfff8)), Val: rng.Uint32()}
	case 12:
		return http2.Setting{ID: http2.SettingInitialWindowSize, Val: uint32(rng.Intn(200000))}
	default:
		return http2.Setting{ID: http2.SettingID(1 + rng.Intn(6)), Val: rng.Uint32()}
	}
}

// pickStream returns a stream id of the requested class on connection c.
func (x *execState) pickStream(c *sconn, class string) (uint32, string) {
	var open, closed []uint32
	for _, id := range c.order {
		if c.streams[id].closed {
			closed = append(closed, id)
		} else {
			open = append(open, id)
		}
	}
	switch class {
	case "open":
		if len(open) > 0 {
			return open[x.rng.Intn(len(open))], "open"
		}
	case "closed":
		if len(closed) > 0 {
			return closed[x.rng.Intn(len(closed))], "closed"
		}
	case "even":
		return uint32(2 * (1 + x.rng.Intn(50))), "even"
	case "zero":
		return 0, "zero"
	case "huge":
		return 1<<31 - 1, "huge"
	}
	return c.maxSeen + 1 + uint32(2*(1+x.rng.Intn(4))) | 1, "idle"
}

func (x *execState) streamClass() string {
	return vlib.Pick(x.rng, "open", "open", "open", "open", "open", "closed", "idle", "even", "zero", "huge")
}

// writeBlock sends a header block as HEADERS (+CONTINUATIONs).
func (x *execState) writeBlock(c *sconn, id uint32, endStream bool, block []byte, frag int) {
	if frag <= 0 {
		frag = 16384
	}
	first := true
	for first || len(block) > 0 {
		n := min(frag, len(block))
		chunk := block[:n]
		block = block[n:]
		var fl http2.Flags
		if len(block) == 0 {
			fl |= http2.FlagHeadersEndHeaders
		}
		if first {
			if endStream {
				fl |= http2.FlagHeadersEndStream
			}
			c.peer.WriteRawFrame(http2.FrameHeaders, fl, id, chunk)
			first = false
		} else {
			c.peer.WriteRawFrame(http2.FrameContinuation, fl, id, chunk)
		}
	}
	if s := c.streams[id]; s != nil {
		s.hdrSent = true
		if endStream {
			s.closed = true
		}
	}
}

var goodHeaders = []hf{f(":status", "200"), f("content-type", "application/grpc")}

// headerVariant returns the fields of one header-field class.
func (x *execState) headerVariant() (fields []hf, class string, endStream bool) {
	rng := x.rng
	pick := rng.Intn(38)
	es := rng.Intn(2) == 0
	switch pick {
	case 0:
		return goodHeaders, "resp-valid", false
	case 1:
		return append(append([]hf{}, goodHeaders...), f("grpc-status", "0")), "trailers-only-ok", true
	case 2:
		return []hf{f("grpc-status", "0")}, "trailers-ok", true
	case 3:
		return []hf{f("grpc-status", fmt.Sprint(rng.Intn(20))), f("grpc-message", "scripted")}, "trailers-status-n", true
	case 4:
		return []hf{f(":status", "100")}, "status-1xx", false
	case 5:
		return []hf{f(":status", fmt.Sprint(100+rng.Intn(100)))}, "status-1xx-endstream", true
	case 6:
		return []hf{f(":status", vlib.Pick(rng, "404", "500", "502", "301", "204")), f("content-type", "text/html")}, "status-http-error", es
	case 7:
		return []hf{f(":status", vlib.Pick(rng, "abc", "", "2000000000000000000000", "-1", "20 0")), f("content-type", "text/plain")}, "status-non-numeric", es
	case 8:
		return []hf{f("content-type", "text/plain")}, "status-missing", es
	case 9:
		return []hf{f(":status", "200")}, "content-type-missing", es
	case 10:
		return []hf{f(":status", "200"), f("content-type", vlib.Pick(rng, "application/grpcx", "application/grp", "text/html", "", "APPLICATION/GRPC"))}, "content-type-bad", es
	case 11:
		return []hf{f(":status", "200"), f("content-type", vlib.Pick(rng, "application/grpc+proto", "application/grpc;x=y", "application/grpc+", "application/grpc+unknowncodec"))}, "content-type-subtype", es
	case 12:
		return []hf{f("grpc-status", vlib.Pick(rng, "x", "", "1.5", "0x1", " 0", "١"))}, "grpc-status-not-a-number", true
	case 13:
		return []hf{f("grpc-status", vlib.Pick(rng, "-1", "-2147483648"))}, "grpc-status-negative", true
	case 14:
		return []hf{f("grpc-status", vlib.Pick(rng, "17", "4294967295", "2147483648", "99999999999999999999"))}, "grpc-status-out-of-range", true
	case 15:
		return []hf{f("grpc-status", "2"), f("grpc-message", vlib.Pick(rng, "%", "%zz", "%E4%B8", "a%2", "%00%ff", strings.Repeat("%41", 500)))}, "grpc-message-bad-percent", true
	case 16:
		return append(append([]hf{}, goodHeaders...), f("x-meta-bin", vlib.Pick(rng, "!!!!", "a", "====", "YWJj*", "YQ=", "\x01\x02"))), "bin-header-bad-base64", es
	case 17:
		return []hf{f("grpc-status", "3"), f("grpc-status-details-bin", vlib.Pick(rng, "!!!", "AAAA", "CAMSBGFiY2Q", "/////w", "gICAgICAgICAgAE"))}, "status-details-bin-garbage", true
	case 18:
		return append(append([]hf{}, goodHeaders...), f("grpc-encoding", vlib.Pick(rng, "snappy-unknown", "", "gzip", "identity,gzip"))), "grpc-encoding-odd", false
	case 19:
		return []hf{f(":status", "200"), f(":status", "200"), f("content-type", "application/grpc"), f("content-type", "application/grpc"), f("grpc-status", "0"), f("grpc-status", "1")}, "duplicate-fields", es
	case 20:
		return append(append([]hf{}, goodHeaders...), f("connection", "close"), f("te", "gzip"), f("upgrade", "h2c"), f("transfer-encoding", "chunked"), f("keep-alive", "1")), "connection-specific", es
	case 21:
		return append(append([]hf{}, goodHeaders...), f("X-Upper", "v")), "uppercase-name", es
	case 22:
		return []hf{f("content-type", "application/grpc"), f(":status", "200")}, "pseudo-after-regular", es
	case 23:
		return []hf{f(":status", "200"), f(":bogus", "1"), f("content-type", "application/grpc")}, "unknown-pseudo", es
	case 24:
		return []hf{f(":status", "200"), f(":method", "POST"), f(":path", "/x"), f("content-type", "application/grpc")}, "request-pseudo-in-response", es
	case 25:
		n := vlib.Pick(rng, 100, 5000, 20000, 70000)
		return append(append([]hf{}, goodHeaders...), f("x-big", strings.Repeat("a", n))), "oversized-value", es
	case 26:
		fs := append([]hf{}, goodHeaders...)
		for k := 0; k < 300+rng.Intn(2000); k++ {
			fs = append(fs, f(fmt.Sprintf("x-h%d", k), "v"))
		}
		return fs, "many-fields", es
	case 27:
		return nil, "empty-block", es
	case 28:
		return append(append([]hf{}, goodHeaders...), f("x-ctl", "a\x00b\r\nc")), "invalid-value-bytes", es
	case 29:
		return append(append([]hf{}, goodHeaders...), f("x bad name", "v"), f("", "v")), "invalid-name", es
	case 30:
		return append(append([]hf{}, goodHeaders...), f("grpc-status", "0")), "headers-carrying-grpc-status-no-endstream", false
	case 31:
		return []hf{f(":status", "200"), f("content-type", "application/grpc"), f("grpc-status", "0"), f("grpc-message", "")}, "trailers-only-ok", true
	case 32:
		return []hf{f(":status", "200"), f("content-type", "application/grpc"), f("grpc-status", fmt.Sprint(1+rng.Intn(16))), f("grpc-message", "early")}, "trailers-only-error", true
	case 33:
		return append(append([]hf{}, goodHeaders...), f("grpc-previous-rpc-attempts", "x"), f("grpc-retry-pushback-ms", vlib.Pick(rng, "-1", "abc", "0", "99999999999"))), "retry-headers", es
	case 34:
		return []hf{f("grpc-status", "14"), f("grpc-retry-pushback-ms", "1")}, "trailers-unavailable-pushback", true
	case 35:
		return []hf{f(":status", "200"), f("content-type", "application/grpc"), f("grpc-tags-bin", "AAAA"), f("grpc-trace-bin", "!!")}, "reserved-bin", es
	case 36:
		return []hf{f(":status", "200"), f("content-type", "application/grpc"), f("content-length", "5"), f("content-length", "-5")}, "content-length", es
	default:
		return []hf{f("x-only", "v")}, "no-status-no-grpc-status", true
	}
}

// validBytes returns the bytes of a plausible, valid frame sequence for the
// current connection (material for byte-level mutation).
func (x *execState) validBytes(c *sconn) []byte {
	var b []byte
	n := 1 + x.rng.Intn(4)
	for k := 0; k < n; k++ {
		id, _ := x.pickStream(c, "open")
		switch x.rng.Intn(8) {
		case 0:
			b = append(b, frameBytes(http2.FrameHeaders, http2.FlagHeadersEndHeaders, id, c.enc.block(goodHeaders...))...)
		case 1:
			b = append(b, frameBytes(http2.FrameData, 0, id, wire.Msg(randBytes(x.rng, x.rng.Intn(50))))...)
		case 2:
			b = append(b, frameBytes(http2.FrameHeaders, http2.FlagHeadersEndHeaders|http2.FlagHeadersEndStream, id, c.enc.block(f("grpc-status", "0")))...)
		case 3:
			b = append(b, frameBytes(http2.FrameSettings, 0, 0, settingsPayload(http2.Setting{ID: http2.SettingInitialWindowSize, Val: 70000}))...)
		case 4:
			b = append(b, frameBytes(http2.FramePing, 0, 0, randBytes(x.rng, 8))...)
		case 5:
			b = append(b, frameBytes(http2.FrameWindowUpdate, 0, vlib.Pick(x.rng, 0, id), u32(1000))...)
		case 6:
			b = append(b, frameBytes(http2.FrameRSTStream, 0, id, u32(uint32(x.rng.Intn(14))))...)
		default:
			b = append(b, frameBytes(http2.FrameGoAway, 0, 0, append(append(u32(id), u32(0)...), []byte("dbg")...))...)
		}
	}
	return b
}

// hostileOp draws and executes one server-side operation.
func (x *execState) hostileOp() {
	c := x.cur
	if c == nil || c.peer == nil {
		x.count("ops_without_connection", 1)
		return
	}
	rng := x.rng
	p := c.peer
	kind := ""
	switch x.sc.Fam {
	case "bytes":
		kind = vlib.Pick(rng, "BYTES", "BYTES", "BYTES", "COMPLETE", "HEADERS", "VALUES", "DATA", "SETTINGS")
	default:
		if x.sc.Focus != "" && rng.Intn(3) != 0 {
			kind = x.sc.Focus
		} else {
			kind = vlib.Pick(rng, "VALUES", "VALUES", "VALUES", "DATA", "DATA", "HEADERS", "HEADERS", "HEADERS", "HEADERS-NOEND", "CONTINUATION", "RST_STREAM", "RST_STREAM", "SETTINGS", "SETTINGS", "PING", "GOAWAY", "WINDOW_UPDATE", "WINDOW_UPDATE", "PUSH_PROMISE", "PRIORITY", "UNKNOWN", "OVERSIZE", "BYTES", "COMPLETE", "COMPLETE", "CONN")
		}
	}
	switch kind {
	case "VALUES":
		x.valuesOp(c)
	case "COMPLETE":
		id, cl := x.pickStream(c, "open")
		if cl != "open" {
			x.count("complete_without_open_stream", 1)
			return
		}
		s := c.streams[id]
		if !s.hdrSent {
			x.writeBlock(c, id, false, c.enc.block(goodHeaders...), 0)
		}
		if rng.Intn(3) != 0 {
			p.WriteData(id, wire.Msg(randBytes(rng, rng.Intn(200))), false, -1)
		}
		x.writeBlock(c, id, true, c.enc.block(f("grpc-status", "0")), 0)
		x.sig(c, "COMPLETE", cl, "well-formed-response")
	case "DATA":
		id, cl := x.pickStream(c, x.streamClass())
		end := rng.Intn(4) == 0
		switch rng.Intn(11) {
		case 0:
			p.WriteData(id, wire.Msg(randBytes(rng, rng.Intn(300))), end, -1)
			x.sig(c, "DATA", cl, fmt.Sprintf("msg-valid/end=%v", end))
		case 1:
			m := wire.Msg(randBytes(rng, 10+rng.Intn(100)))
			p.WriteData(id, m[:rng.Intn(len(m))], end, -1)
			x.sig(c, "DATA", cl, fmt.Sprintf("msg-partial/end=%v", end))
		case 2:
			p.WriteData(id, []byte{0, 0xff, 0xff, 0xff, 0xff, 1, 2, 3}, end, -1)
			x.sig(c, "DATA", cl, fmt.Sprintf("msg-length-4G/end=%v", end))
		case 3:
			m := wire.Msg(randBytes(rng, 20))
			m[0] = byte(1 + rng.Intn(255))
			p.WriteData(id, m, end, -1)
			x.sig(c, "DATA", cl, fmt.Sprintf("msg-compressed-flag/end=%v", end))
		case 4:
			p.WriteData(id, randBytes(rng, rng.Intn(400)), end, -1)
			x.sig(c, "DATA", cl, fmt.Sprintf("random/end=%v", end))
		case 5:
			p.WriteData(id, nil, end, -1)
			x.sig(c, "DATA", cl, fmt.Sprintf("empty/end=%v", end))
		case 6:
			n := 5 + rng.Intn(4)
			for k := 0; k < n; k++ {
				p.WriteData(id, make([]byte, 16384), false, -1)
			}
			x.sig(c, "DATA", cl, "beyond-stream-and-connection-window")
		case 7:
			p.WriteData(id, wire.Msg(randBytes(rng, rng.Intn(100))), end, rng.Intn(256))
			x.sig(c, "DATA", cl, fmt.Sprintf("padded/end=%v", end))
		case 8:
			// pad length larger than the payload
			p.WriteRawFrame(http2.FrameData, http2.FlagDataPadded, id, []byte{200, 1, 2, 3})
			x.sig(c, "DATA", cl, "pad-exceeds-payload")
		case 9:
			p.WriteRawFrame(http2.FrameData, http2.FlagDataPadded, id, nil)
			x.sig(c, "DATA", cl, "padded-flag-empty-payload")
		default:
			// a message delivered in many tiny frames, then END_STREAM without trailers
			m := wire.Msg(randBytes(rng, 30))
			for k := 0; k < len(m); k += 7 {
				p.WriteData(id, m[k:min(len(m), k+7)], false, -1)
			}
			p.WriteData(id, nil, true, -1)
			x.sig(c, "DATA", cl, "fragments-then-endstream-no-trailers")
		}
		if s := c.streams[id]; s != nil && end {
			s.closed = true
		}
	case "HEADERS":
		id, cl := x.pickStream(c, x.streamClass())
		fields, fclass, es := x.headerVariant()
		frag := 0
		if rng.Intn(5) == 0 {
			frag = 1 + rng.Intn(40)
			fclass += "/continuations"
		}
		if s := c.streams[id]; s != nil && s.hdrSent {
			cl += "+headers-already-sent"
		}
		if rng.Intn(12) == 0 {
			// raw garbage instead of an HPACK block
			x.writeBlock(c, id, es, randBytes(rng, 1+rng.Intn(60)), frag)
			fclass = "hpack-garbage"
		} else if rng.Intn(15) == 0 {
			// PRIORITY / PADDED flags with (in)consistent fields
			blk := c.enc.block(fields...)
			pl := append([]byte{byte(rng.Intn(256))}, append(u32(rng.Uint32()), byte(rng.Intn(256)))...)
			pl = append(pl, blk...)
			c.peer.WriteRawFrame(http2.FrameHeaders, http2.FlagHeadersEndHeaders|http2.FlagHeadersPadded|http2.FlagHeadersPriority, id, pl)
			fclass += "/padded+priority-flags"
		} else {
			x.writeBlock(c, id, es, c.enc.block(fields...), frag)
		}
		x.sig(c, "HEADERS", cl, fclass)
	case "HEADERS-NOEND":
		id, cl := x.pickStream(c, x.streamClass())
		blk := c.enc.block(goodHeaders...)
		p.WriteRawFrame(http2.FrameHeaders, 0, id, blk[:len(blk)/2])
		switch rng.Intn(5) {
		case 0:
			p.WritePing(false, [8]byte{9})
			x.sig(c, "HEADERS", cl, "no-END_HEADERS-then-PING")
		case 1:
			p.WriteData(id, []byte("x"), false, -1)
			x.sig(c, "HEADERS", cl, "no-END_HEADERS-then-DATA")
		case 2:
			oid, _ := x.pickStream(c, "idle")
			p.WriteRawFrame(http2.FrameContinuation, http2.FlagContinuationEndHeaders, oid, blk[len(blk)/2:])
			x.sig(c, "HEADERS", cl, "no-END_HEADERS-then-CONTINUATION-other-stream")
		case 3:
			p.WriteRawFrame(http2.FrameHeaders, http2.FlagHeadersEndHeaders, id, blk)
			x.sig(c, "HEADERS", cl, "no-END_HEADERS-then-HEADERS")
		default:
			// never finished: the client waits for CONTINUATION
			x.sig(c, "HEADERS", cl, "no-END_HEADERS-then-silence")
		}
	case "CONTINUATION":
		id, cl := x.pickStream(c, x.streamClass())
		p.WriteRawFrame(http2.FrameContinuation, vlib.Pick(rng, http2.Flags(0), http2.FlagContinuationEndHeaders), id, c.enc.block(f("x-a", "b")))
		x.sig(c, "CONTINUATION", cl, "out-of-place")
	case "RST_STREAM":
		id, cl := x.pickStream(c, x.streamClass())
		switch rng.Intn(6) {
		case 0:
			p.WriteRawFrame(http2.FrameRSTStream, 0, id, randBytes(rng, vlib.Pick(rng, 0, 1, 3, 5, 8)))
			x.sig(c, "RST_STREAM", cl, "bad-length")
		case 1:
			p.WriteRST(id, http2.ErrCode(rng.Uint32()))
			x.sig(c, "RST_STREAM", cl, "unknown-code")
		default:
			code := http2.ErrCode(rng.Intn(14))
			p.WriteRST(id, code)
			x.sig(c, "RST_STREAM", cl, "code-"+code.String())
		}
		if s := c.streams[id]; s != nil {
			s.closed = true
		}
	case "SETTINGS":
		switch rng.Intn(9) {
		case 0:
			p.WriteSettings()
			x.sig(c, "SETTINGS", "zero", "empty")
		case 1:
			p.WriteRawFrame(http2.FrameSettings, 0, 0, randBytes(rng, vlib.Pick(rng, 1, 5, 7, 11)))
			x.sig(c, "SETTINGS", "zero", "length-not-multiple-of-6")
		case 2:
			p.WriteRawFrame(http2.FrameSettings, http2.FlagSettingsAck, 0, settingsPayload(x.oneSetting(rng)))
			x.sig(c, "SETTINGS", "zero", "ack-with-payload")
		case 3:
			id, cl := x.pickStream(c, vlib.Pick(rng, "open", "idle", "even"))
			p.WriteRawFrame(http2.FrameSettings, 0, id, settingsPayload(x.oneSetting(rng)))
			x.sig(c, "SETTINGS", cl, "non-zero-stream")
		case 4:
			n := 10 + rng.Intn(200)
			for k := 0; k < n; k++ {
				p.WriteSettingsAck()
			}
			x.sig(c, "SETTINGS", "zero", "ack-flood")
		case 5:
			n := 10 + rng.Intn(100)
			for k := 0; k < n; k++ {
				p.WriteSettings(x.oneSetting(rng))
			}
			x.sig(c, "SETTINGS", "zero", "settings-flood")
		default:
			s := x.oneSetting(rng)
			extra := x.randSettings(rng, rng.Intn(3))
			p.WriteSettings(append([]http2.Setting{s}, extra...)...)
			cls := fmt.Sprintf("id%d", min(int(s.ID), 7))
			switch {
			case s.ID == http2.SettingInitialWindowSize && s.Val > 1<<31-1:
				cls += "-overflow"
			case s.ID == http2.SettingInitialWindowSize && s.Val == 0:
				cls += "-zero"
			case s.ID == http2.SettingMaxFrameSize && (s.Val < 16384 || s.Val > 1<<24-1):
				cls += "-illegal"
			case s.ID == http2.SettingEnablePush && s.Val > 1:
				cls += "-illegal"
			case s.ID == http2.SettingMaxConcurrentStreams && s.Val == 0:
				cls += "-zero"
			}
			x.sig(c, "SETTINGS", "zero", cls)
		}
	case "PING":
		switch rng.Intn(5) {
		case 0:
			p.WritePing(false, [8]byte{byte(rng.Intn(256))})
			x.sig(c, "PING", "zero", "valid")
		case 1:
			var d [8]byte
			rng.Read(d[:])
			p.WritePing(true, d)
			x.sig(c, "PING", "zero", "ack-unsolicited")
		case 2:
			n := 20 + rng.Intn(300)
			for k := 0; k < n; k++ {
				p.WritePing(rng.Intn(4) == 0, [8]byte{byte(k)})
			}
			x.sig(c, "PING", "zero", "flood")
		case 3:
			p.WriteRawFrame(http2.FramePing, 0, 0, randBytes(rng, vlib.Pick(rng, 0, 7, 9, 16)))
			x.sig(c, "PING", "zero", "bad-length")
		default:
			id, cl := x.pickStream(c, vlib.Pick(rng, "open", "idle", "even"))
			p.WriteRawFrame(http2.FramePing, 0, id, randBytes(rng, 8))
			x.sig(c, "PING", cl, "non-zero-stream")
		}
	case "GOAWAY":
		code := http2.ErrCode(rng.Intn(14))
		debug := vlib.Pick(rng, "", "too_many_pings", "scripted", strings.Repeat("d", 1000))
		if debug == "too_many_pings" {
			code = http2.ErrCodeEnhanceYourCalm
		}
		switch rng.Intn(8) {
		case 0:
			p.WriteGoAway(0, code, debug)
			x.sig(c, "GOAWAY", "zero", "last-0/"+gaClass(c))
			c.lastGoID = 0
		case 1:
			p.WriteGoAway(1<<31-1, code, debug)
			x.sig(c, "GOAWAY", "zero", "last-max/"+gaClass(c))
			c.lastGoID = 1<<31 - 1
		case 2:
			id, _ := x.pickStream(c, "even")
			p.WriteGoAway(id, code, debug)
			x.sig(c, "GOAWAY", "zero", "last-even/"+gaClass(c))
		case 3:
			// a later GOAWAY whose last-stream-id grows
			p.WriteGoAway(c.lastGoID+2+uint32(2*rng.Intn(5)), code, debug)
			x.sig(c, "GOAWAY", "zero", "last-increasing/"+gaClass(c))
		case 4:
			p.WriteRawFrame(http2.FrameGoAway, 0, 0, randBytes(rng, rng.Intn(8)))
			x.sig(c, "GOAWAY", "zero", "bad-length")
		case 5:
			id, cl := x.pickStream(c, vlib.Pick(rng, "open", "idle"))
			p.WriteRawFrame(http2.FrameGoAway, 0, id, append(u32(1), u32(0)...))
			x.sig(c, "GOAWAY", cl, "non-zero-stream")
		default:
			id, _ := x.pickStream(c, vlib.Pick(rng, "open", "closed", "idle"))
			p.WriteGoAway(id, code, debug)
			x.sig(c, "GOAWAY", "zero", "last-mid/"+gaClass(c))
			c.lastGoID = id
		}
		c.goaways++
	case "WINDOW_UPDATE":
		id, cl := x.pickStream(c, vlib.Pick(rng, "zero", "zero", "open", "open", "closed", "idle", "even"))
		switch rng.Intn(6) {
		case 0:
			p.WriteWindowUpdate(id, 0)
			x.sig(c, "WINDOW_UPDATE", cl, "increment-0")
		case 1:
			p.WriteWindowUpdate(id, 1<<31-1)
			p.WriteWindowUpdate(id, 1<<31-1)
			x.sig(c, "WINDOW_UPDATE", cl, "overflow")
		case 2:
			p.WriteRawFrame(http2.FrameWindowUpdate, 0, id, randBytes(rng, vlib.Pick(rng, 0, 3, 5, 8)))
			x.sig(c, "WINDOW_UPDATE", cl, "bad-length")
		case 3:
			p.WriteRawFrame(http2.FrameWindowUpdate, 0, id, u32(0x80000000|uint32(rng.Intn(1000))))
			x.sig(c, "WINDOW_UPDATE", cl, "reserved-bit")
		default:
			p.WriteWindowUpdate(id, uint32(1+rng.Intn(100000)))
			x.sig(c, "WINDOW_UPDATE", cl, "normal")
		}
	case "PUSH_PROMISE":
		id, cl := x.pickStream(c, x.streamClass())
		switch rng.Intn(3) {
		case 0:
			pl := append(u32(uint32(2*(1+rng.Intn(100)))), c.enc.block(f(":method", "GET"), f(":path", "/pushed"), f(":scheme", "http"), f(":authority", "x"))...)
			p.WriteRawFrame(http2.FramePushPromise, http2.FlagPushPromiseEndHeaders, id, pl)
			x.sig(c, "PUSH_PROMISE", cl, "well-formed")
		case 1:
			p.WriteRawFrame(http2.FramePushPromise, http2.Flags(rng.Intn(256)), id, randBytes(rng, rng.Intn(40)))
			x.sig(c, "PUSH_PROMISE", cl, "garbage")
		default:
			pl := append(u32(2), c.enc.block(f(":method", "GET"))...)
			p.WriteRawFrame(http2.FramePushPromise, 0, id, pl)
			x.sig(c, "PUSH_PROMISE", cl, "no-END_HEADERS")
		}
	case "PRIORITY":
		id, cl := x.pickStream(c, x.streamClass())
		switch rng.Intn(3) {
		case 0:
			p.WriteRawFrame(http2.FramePriority, 0, id, append(u32(rng.Uint32()), byte(rng.Intn(256))))
			x.sig(c, "PRIORITY", cl, "valid-length")
		case 1:
			p.WriteRawFrame(http2.FramePriority, 0, id, append(u32(id), 1))
			x.sig(c, "PRIORITY", cl, "self-dependency")
		default:
			p.WriteRawFrame(http2.FramePriority, 0, id, randBytes(rng, vlib.Pick(rng, 0, 4, 6, 20)))
			x.sig(c, "PRIORITY", cl, "bad-length")
		}
	case "UNKNOWN":
		id, cl := x.pickStream(c, x.streamClass())
		p.WriteRawFrame(http2.FrameType(10+rng.Intn(246)), http2.Flags(rng.Intn(256)), id, randBytes(rng, rng.Intn(100)))
		x.sig(c, "UNKNOWN", cl, "random")
	case "OVERSIZE":
		id, cl := x.pickStream(c, x.streamClass())
		typ := http2.FrameType(rng.Intn(10))
		switch rng.Intn(3) {
		case 0:
			p.WriteRawFrame(typ, 0, id, make([]byte, 16385+rng.Intn(1000)))
			x.sig(c, "OVERSIZE", cl, fmt.Sprintf("16K+ type=%d", typ))
		case 1:
			// declares 16 MB-1 and delivers a few bytes
			b := frameBytes(typ, 0, id, randBytes(rng, 20))
			b[0], b[1], b[2] = 0xff, 0xff, 0xff
			p.WriteBytes(b)
			c.tainted = true
			x.sig(c, "OVERSIZE", cl, fmt.Sprintf("declared-16M type=%d", typ))
		default:
			p.WriteRawFrame(typ, 0, id, make([]byte, 100000))
			x.sig(c, "OVERSIZE", cl, fmt.Sprintf("100K type=%d", typ))
		}
	case "BYTES":
		valid := x.validBytes(c)
		b, how := mutate(rng, valid, x.validBytes(c))
		p.WriteBytes(b)
		c.tainted = true
		x.sig(c, "BYTES", "-", how)
		x.count("mutated_bytes_written", int64(len(b)))
	case "CONN":
		switch rng.Intn(3) {
		case 0:
			p.Close()
			c.alive = false
			x.sig(c, "CONN", "-", "close")
		case 1:
			c.raw.Reset(errors.New("scripted reset"))
			c.alive = false
			x.sig(c, "CONN", "-", "reset")
		default:
			// half a frame header, then close
			p.WriteBytes([]byte{0, 0, 8, 6})
			p.Close()
			c.alive = false
			x.sig(c, "CONN", "-", "partial-header-then-close")
		}
	}
}

// valuesOp delivers one adversarial header VALUE (values_test.go) on an open
// stream, in initial headers, a Trailers-Only response or real trailers.
func (x *execState) valuesOp(c *sconn) {
	rng := x.rng
	id, cl := x.pickStream(c, "open")
	if cl != "open" {
		x.count("values_without_open_stream", 1)
		return
	}
	st := c.streams[id]
	fi, k := rng.Intn(len(valueFields)), -1
	if x.sc.Fam == "values" && x.nVal < 6 {
		// deterministic walk: case i, operation j covers (field, shape) number 6i+j
		g := x.sc.ValueBase*6 + x.nVal
		fi, k = g%len(valueFields), g/len(valueFields)
	}
	x.nVal++
	name, sh := pickValue(rng, fi, k)
	field := f(name, sh.value)
	status := fmt.Sprint(vlib.Pick(rng, 0, 2, 2, 3, 13, 14))
	if name == "grpc-retry-pushback-ms" {
		status = "14"
	}
	var junk []hf
	for j := rng.Intn(3); j > 0; j-- {
		junk = append(junk, junkFields[rng.Intn(len(junkFields))])
	}
	head := []hf{f(":status", "200"), f("content-type", "application/grpc")}
	switch name {
	case ":status":
		head[0] = field
	case "content-type":
		head[1] = field
	}
	inHead := name == ":status" || name == "content-type"
	// the field under test goes before or after a well-formed grpc-status
	tail := func() []hf {
		var fs []hf
		if name == "grpc-status" {
			fs = []hf{field}
		} else if inHead {
			fs = []hf{f("grpc-status", status)}
		} else if rng.Intn(2) == 0 {
			fs = []hf{field, f("grpc-status", status)}
		} else {
			fs = []hf{f("grpc-status", status), field}
		}
		if name != "grpc-message" && rng.Intn(3) == 0 {
			_, m := pickValue(rng, 0, -1)
			fs = append(fs, f("grpc-message", m.value))
		}
		return append(fs, junk...)
	}
	form := vlib.Pick(rng, "trailers-only", "trailers-only", "trailers", "trailers", "initial-headers")
	if st.hdrSent {
		form = "trailers"
	}
	switch form {
	case "trailers-only":
		x.writeBlock(c, id, true, c.enc.block(append(append([]hf{}, head...), tail()...)...), 0)
	case "trailers":
		if !st.hdrSent {
			x.writeBlock(c, id, false, c.enc.block(goodHeaders...), 0)
			if rng.Intn(2) == 0 {
				c.peer.WriteData(id, wire.Msg(randBytes(rng, rng.Intn(50))), false, -1)
			}
		}
		fs := tail()
		if inHead {
			// :status / content-type repeated in the trailers
			fs = append([]hf{field}, fs...)
			if name == "content-type" {
				fs = append(fs[1:], field)
			}
		}
		x.writeBlock(c, id, true, c.enc.block(fs...), 0)
	default:
		fs := append([]hf{}, head...)
		if !inHead {
			fs = append(fs, field)
		}
		x.writeBlock(c, id, false, c.enc.block(append(fs, junk...)...), 0)
	}
	x.sig(c, "VALUES", form, name+":"+sh.class)
}

func gaClass(c *sconn) string {
	if c.goaways == 0 {
		return "first"
	}
	return "repeated"
}

// ---------------------------------------------------------------- the case

func run(sc scenario, res *caseResult) {
	x := &execState{sc: sc, rng: rand.New(rand.NewSource(sc.Seed)), res: res, t0: time.Now(), sigs: map[string]bool{}}
	defer func() {
		for s := range x.sigs {
			res.Sigs = append(res.Sigs, s)
		}
		sort.Strings(res.Sigs)
		if len(res.Viol) > 0 {
			res.Trace = x.trace
		}
	}()
	var dopts []grpc.DialOption
	if sc.MaxHdrList > 0 {
		dopts = append(dopts, grpc.WithMaxHeaderListSize(uint32(sc.MaxHdrList)))
	}
	if sc.Keepalive {
		dopts = append(dopts, grpc.WithKeepaliveParams(keepalive.ClientParameters{Time: 10 * time.Second, Timeout: 2 * time.Second, PermitWithoutStream: true}))
	}
	if sc.Retry {
		dopts = append(dopts, grpc.WithDefaultServiceConfig(`{"methodConfig":[{"name":[{}],"retryPolicy":{"maxAttempts":3,"initialBackoff":"0.01s","maxBackoff":"0.1s","backoffMultiplier":2,"retryableStatusCodes":["UNAVAILABLE","INTERNAL"]}}]}`))
	}
	fx, err := wire.NewClientFixture(dopts...)
	if err != nil {
		x.v("harness", "fixture: %v", err)
		return
	}
	x.fx = fx
	fx.DialHook = func(n int) error {
		x.dials.Add(1)
		if x.noDial.Load() || n >= sc.MaxConns {
			return errors.New("scripted: no further connections")
		}
		return nil
	}
	for _, sp := range sc.RPCs {
		x.rpcs = append(x.rpcs, &rpcRec{spec: sp})
	}
	for x.next < sc.StartFirst {
		x.startRPC(x.next)
		x.next++
	}
	x.quiesce()
	for k := 0; k < sc.NOps; k++ {
		if x.running() < sc.MinRunning && x.next < len(x.rpcs) {
			x.tr("no RPC running: start rpc %d", x.next)
			x.count("rpcs_replenished", 1)
			x.startRPC(x.next)
			x.next++
			x.quiesce()
		}
		switch r := x.rng.Intn(100); {
		case r < 6 && x.next < len(x.rpcs):
			x.tr("start rpc %d", x.next)
			x.startRPC(x.next)
			x.next++
		case r < 12:
			d := time.Duration(1+x.rng.Intn(3000)) * time.Millisecond
			x.tr("sleep %v", d)
			time.Sleep(d)
		case x.cur == nil || !x.cur.alive:
			// nothing to talk to: give the channel time to reconnect
			d := time.Duration(300+x.rng.Intn(1700)) * time.Millisecond
			x.tr("no live connection, sleep %v", d)
			x.count("waits_for_reconnect", 1)
			time.Sleep(d)
		default:
			x.hostileOp()
			x.count("ops", 1)
			if x.rng.Intn(3) == 0 {
				continue // let several frames pile up before the next quiescent point
			}
		}
		x.quiesce()
	}
	for x.next < len(x.rpcs)-sc.Spares {
		x.startRPC(x.next)
		x.next++
	}
	x.quiesce()

	// ---- phase 1: the server closes every connection, no new one is possible
	x.noDial.Store(true)
	for _, c := range x.conns {
		if c.peer != nil {
			c.peer.Close()
			c.alive = false
		}
	}
	x.tr("all connections closed by the server, dials refused")
	x.quiesce()
	x.mu.Lock()
	for i, r := range x.rpcs {
		if r.started && r.finished == 0 && !r.spec.WFR {
			if sc.Retry {
				// with a retry policy the RPC may legitimately sit in its retry
				// back-off or the server's push-back timer: judged by the deadline
				// oracles only
				x.count("outlive_checks_skipped_retry_backoff", 1)
				continue
			}
			x.v("rpc-outlives-its-connection", "rpc %d (%s, fail-fast, timeout %v) has not returned although the server closed every connection and no new connection can be established (quiescent at %v)", i, r.spec.Kind, r.spec.Deadline, x.now())
		}
	}
	var maxDL time.Duration
	for _, r := range x.rpcs {
		if r.deadlineAt > maxDL {
			maxDL = r.deadlineAt
		}
	}
	x.mu.Unlock()

	// ---- phase 2: every deadline has passed
	if rem := maxDL - x.now(); rem >= 0 {
		time.Sleep(rem + time.Millisecond)
	}
	x.quiesce()
	x.mu.Lock()
	for i, r := range x.rpcs {
		if r.spec.Deadline > 0 && r.finished > 0 {
			x.count("rpcs_finished_by_deadline", 1)
			dl := r.startAt + r.spec.Deadline
			if r.finishAt > dl {
				x.v("rpc-returned-after-deadline", "rpc %d (%s) returned at %v, later than its deadline %v, with %v", i, r.spec.Kind, r.finishAt, dl, r.err)
			}
		}
	}
	x.mu.Unlock()

	// ---- phase 3: close the channel
	if sc.Retry && x.running() > 0 {
		// With a retry policy an RPC without deadline may sit in its back-off /
		// server push-back timer holding clientStream.mu; ClientConn.Close would
		// park the stream's context watcher on that sync.Mutex until the timer
		// fires - which it never does once a goroutine of the bubble waits
		// non-durably (stopped virtual clock; in real time it fires).  Cancel
		// those RPCs first.
		x.count("rpcs_cancelled_before_close_retry_policy", int64(x.running()))
		x.mu.Lock()
		for _, r := range x.rpcs {
			if r.cancel != nil {
				r.cancel()
			}
		}
		x.mu.Unlock()
		synctest.Wait()
	}
	fx.CC.Close()
	synctest.Wait()
	x.feed()
	if sc.Retry && x.running() > 0 {
		// With a retry policy an RPC may sit in its back-off / server push-back
		// timer, which selects on the RPC's own context only: ClientConn.Close
		// does not wake it (it fails when the timer fires).  Not covered by the
		// statement; cancel those RPCs so that the case can end.
		x.count("rpcs_in_retry_backoff_after_close_cancelled", int64(x.running()))
		x.mu.Lock()
		for _, r := range x.rpcs {
			if r.cancel != nil {
				r.cancel()
			}
		}
		x.mu.Unlock()
		synctest.Wait()
	}
	stuck := x.judgeFinal(true)
	if stuck > 0 {
		// try to free them so that the process survives; the violation stands
		x.mu.Lock()
		for _, r := range x.rpcs {
			if r.cancel != nil {
				r.cancel()
			}
		}
		x.mu.Unlock()
		synctest.Wait()
		if x.judgeFinal(false) > 0 {
			res.Trace = x.trace
			for s := range x.sigs {
				res.Sigs = append(res.Sigs, s)
			}
			publishEarly(res) // the bubble cannot end: the process will die with the synctest deadlock panic
		}
	}
	x.mu.Lock()
	for _, r := range x.rpcs {
		if r.cancel != nil {
			r.cancel()
		}
	}
	x.mu.Unlock()
	for {
		select {
		case raw := <-fx.AcceptCh():
			raw.Close()
			continue
		default:
		}
		break
	}
	x.wg.Wait()
	for _, c := range x.conns {
		if c.peer != nil {
			c.peer.Close()
			if c.reader {
				<-c.peer.Done()
			}
		}
	}
	res.Counters["dials"] = x.dials.Load()
}

// judgeFinal checks the per-RPC return facts after cc.Close(); it returns the
// number of RPCs that still have not returned.
func (x *execState) judgeFinal(report bool) int {
	x.mu.Lock()
	defer x.mu.Unlock()
	stuck := 0
	for i, r := range x.rpcs {
		if !r.started {
			continue
		}
		switch {
		case r.finished == 0:
			stuck++
			if report {
				x.v("rpc-not-finished-after-close", "rpc %d (%s, wfr=%v, timeout %v) has not returned after ClientConn.Close()", i, r.spec.Kind, r.spec.WFR, r.spec.Deadline)
			}
		case r.finished > 1:
			if report {
				x.v("rpc-returned-twice", "rpc %d returned %d times", i, r.finished)
			}
		default:
			if !report {
				continue
			}
			x.count("rpcs_returned", 1)
			if r.err == nil {
				x.count("rpc_code_OK", 1)
				continue
			}
			st, ok := status.FromError(r.err)
			if !ok && errors.Is(r.err, io.EOF) && strings.Contains(r.err.Error(), "max retries exhausted") {
				// specific class: the retry code wraps the io.EOF of a replayed SendMsg
				x.v("rpc-error-without-status:max-retries-exhausted-wraps-EOF", "rpc %d (%s) returned an error that carries no status (the stream's real status is lost): %T %v", i, r.spec.Kind, r.err, r.err)
				continue
			}
			if !ok && r.err == io.EOF {
				x.v("rpc-error-without-status:bare-io.EOF", "rpc %d (%s) returned the bare error io.EOF, which carries no status", i, r.spec.Kind)
				continue
			}
			if !ok {
				x.v("rpc-error-without-status", "rpc %d (%s) returned an error that carries no status: %T %v", i, r.spec.Kind, r.err, r.err)
				continue
			}
			if st.Code() == codes.OK {
				x.v("rpc-error-with-ok-status", "rpc %d (%s) returned a non-nil error whose status code is OK: %v", i, r.spec.Kind, r.err)
			}
			x.count("rpc_code_"+st.Code().String(), 1)
		}
	}
	return stuck
}

// classifyStall judges a bubble that can never make progress again (every
// goroutine blocked, at least one on a sync.Mutex).  One pattern is a violation
// of the statement: the goroutine that must end the RPC when its context is done
// (deadline / cancellation / ClientConn.Close) waits for clientStream.mu, which
// the RPC goroutine holds while it replays buffered operations of a retry and is
// itself blocked - the RPC cannot terminate at its deadline.
func classifyStall(gs []gblock) (key, msg string) {
	watcher := false
	for _, g := range gs {
		if !strings.HasPrefix(g.state, "sync.Mutex.Lock") {
			continue
		}
		fin, ws := false, false
		for _, fn := range g.funcs {
			if strings.HasSuffix(fn, "grpc.(*clientStream).finish") {
				fin = true
			}
			if strings.Contains(fn, "grpc.newClientStreamWithParams.func") {
				ws = true
			}
		}
		watcher = watcher || (fin && ws)
	}
	if watcher {
		for _, g := range gs {
			replay := false
			for _, fn := range g.funcs {
				if strings.HasSuffix(fn, "grpc.(*clientStream).retryLocked") {
					replay = true
				}
			}
			if replay {
				top := firstGrpcFunc(g)
				// Only waits that neither a timer nor the RPC's context can end make
				// this a deadlock in real time as well: the client write quota
				// (woken by s.done only) and shouldRetry's wait for the attempt's
				// stream to finish.  A holder in the retry back-off / push-back
				// timer or in the picker is released by time - there only the
				// stopped virtual clock makes the state permanent (not a violation).
				real := strings.HasSuffix(top, "(*writeQuota).get") ||
					(strings.HasSuffix(top, "(*csAttempt).shouldRetry") && strings.HasPrefix(g.state, "chan receive"))
				if !real {
					return "", ""
				}
				return "rpc-cannot-end-at-deadline-during-retry-replay:" + top,
					"the goroutine that ends the RPC when its context is done is blocked on clientStream.mu in clientStream.finish, while the RPC goroutine holds that mutex in retryLocked/replayBufferLocked and is itself blocked in " + top + ": the RPC does not terminate at its deadline (only a later event from the server can end it)"
			}
		}
	}
	return classifyLockOrder(gs)
}

// classifyLockOrder recognises a lock-order deadlock between grpc's own
// goroutines in a dead bubble: some goroutine waits for a sync.Mutex from inside
// a controlBuffer.executeAndPut / execute callback (so it HOLDS controlBuf.mu and
// wants a second lock), while another goroutine waits at a controlBuffer method
// (it wants controlBuf.mu) - with every goroutine of the bubble blocked for good
// neither can ever proceed.  The transport mutexes are never held across a
// durable wait, so this state is a deadlock in real time as well, not an artefact
// of the stopped virtual clock.  The key names the two lock sites.
func classifyLockOrder(gs []gblock) (key, msg string) {
	inner, outer := "", ""
	nMutex := 0
	for _, g := range gs {
		if !strings.HasPrefix(g.state, "sync.Mutex.Lock") {
			continue
		}
		nMutex++
		var grpcFuncs []string
		for _, fn := range g.funcs {
			if isGrpcFunc(fn) {
				grpcFuncs = append(grpcFuncs, fn)
			}
		}
		if len(grpcFuncs) == 0 {
			continue
		}
		top := grpcFuncs[0]
		nested := false
		for _, fn := range grpcFuncs[1:] {
			if strings.HasSuffix(fn, "(*controlBuffer).executeAndPut") || strings.HasSuffix(fn, "(*controlBuffer).execute") {
				nested = true
			}
		}
		switch {
		case nested && !strings.Contains(top, "(*controlBuffer)"):
			// holds controlBuf.mu, wants the lock taken in `top`
			if inner == "" {
				inner = firstGrpcFunc(g)
			}
		case strings.Contains(top, "(*controlBuffer)"):
			// wants controlBuf.mu; name the site by the first caller outside controlBuffer
			site := ""
			for _, fn := range grpcFuncs {
				if !strings.Contains(fn, "(*controlBuffer)") {
					site = strings.TrimPrefix(fn, "google.golang.org/grpc/")
					if k := strings.Index(site, ".func"); k > 0 {
						site = site[:k]
					}
					break
				}
			}
			// prefer the transport's reader goroutine as the named waiter
			isReader := false
			for _, fn := range g.funcs {
				if strings.HasSuffix(fn, "(*http2Client).reader") || strings.HasSuffix(fn, "(*http2Server).HandleStreams") {
					isReader = true
				}
			}
			if outer == "" || isReader {
				outer = site
				if isReader {
					for _, fn := range grpcFuncs {
						if strings.Contains(fn, ".handle") || strings.HasSuffix(fn, "operateHeaders") {
							outer = strings.TrimPrefix(fn, "google.golang.org/grpc/") + "->" + site
							break
						}
					}
				}
			}
		}
	}
	if inner == "" || outer == "" {
		return "", ""
	}
	return "lock-order-deadlock:" + outer + "|" + inner,
		fmt.Sprintf("the transport is deadlocked (%d goroutines wait for a sync.Mutex, every goroutine of the bubble is blocked for good): %s waits for controlBuf.mu while holding another transport lock, and %s waits for that lock from inside a controlBuffer callback, i.e. while holding controlBuf.mu (lock-order inversion); RPCs can no longer terminate, ClientConn.Close would hang and the transport goroutines leak", nMutex, outer, inner)
}

// ---------------------------------------------------------------- driver glue

func light() int {
	if os.Getenv("VERIF_LIGHT") != "" {
		return 10
	}
	return 1
}

func runCase(t *testing.T, r *vlib.Run, c caseID) *caseResult {
	if c.Fam == "goaway" {
		gsc := genGoAway(r.Rand(c.Fam, c.I))
		res := &caseResult{Fam: c.Fam, I: c.I, Counters: map[string]int64{}}
		currentRes.Store(res)
		res.Desc = fmt.Sprintf("workers=%d per_worker=%d goaway_every=%d last=%s", gsc.Workers, gsc.PerWorker, gsc.GoAwayEvery, gsc.LastID)
		r.Progress(c.Fam, c.I, res.Desc)
		synctest.Test(t, func(t *testing.T) { runGoAway(gsc, res) })
		return res
	}
	sc := gen(r.Rand(c.Fam, c.I), c.Fam, c.I)
	res := &caseResult{Fam: c.Fam, I: c.I, Counters: map[string]int64{}}
	currentRes.Store(res)
	res.Desc = fmt.Sprintf("focus=%s rpcs=%d nops=%d conns=%d handshakes=%v", sc.Focus, len(sc.RPCs), sc.NOps, sc.MaxConns, sc.Handshakes)
	r.Progress(c.Fam, c.I, res.Desc)
	synctest.Test(t, func(t *testing.T) { run(sc, res) })
	return res
}

// TestWorkerC11 is the child-process entry point (see isolate_test.go).
func TestWorkerC11(t *testing.T) {
	if os.Getenv(envCases) == "" {
		t.Skip("child-process entry point of TestVerifC11")
	}
	r := vlib.Start(t, "C11")
	stallClassifier = classifyStall
	childMain(func(c caseID) *caseResult { return runCase(t, r, c) })
}

func TestVerifC11(t *testing.T) {
	r := vlib.Start(t, "C11")
	fams := []struct {
		name string
		n    int
	}{
		{"grammar", r.N(520, 5200) / light()},
		{"bytes", r.N(180, 1800) / light()},
		{"handshake", r.N(60, 600) / light()},
		{"values", r.N(160, 1600) / light()},
		{"goaway", r.N(60, 600) / light()},
	}
	var cases []caseID
	for _, fm := range fams {
		for i := 0; i < fm.n; i++ {
			if r.Want(fm.name, i) {
				cases = append(cases, caseID{fm.name, i})
			}
		}
	}
	out := runIsolated(isoConfig{workerTest: "TestWorkerC11", chunk: 25, watchdog: 6 * time.Minute}, cases)
	report(r, cases, out, func(c caseID) any {
		if c.Fam == "goaway" {
			return genGoAway(r.Rand(c.Fam, c.I))
		}
		return gen(r.Rand(c.Fam, c.I), c.Fam, c.I)
	})
	r.Finish(vlib.Spec{
		Level: "fault_enumeration",
		Rule: "1-6 concurrent RPCs (unary / server-streaming / bidi, deadlines 1 ms..10 s virtual or none, fail-fast or wait-for-ready) on a real ClientConn against a scripted HTTP/2 server over up to 5 successive connections (normal or hostile handshakes); 8-47 operations per case drawn from a frame grammar (DATA/HEADERS/CONTINUATION/RST_STREAM/SETTINGS/PING/GOAWAY/WINDOW_UPDATE/PUSH_PROMISE/PRIORITY/unknown/oversize frames on open|closed|idle|even|zero|huge stream ids, 38 header-field classes, frames without END_HEADERS followed by other frames, floods, connection close/reset) and, family 'bytes', bit-flipped/truncated/spliced/garbage bytes derived from valid frame bytes; family 'handshake' plays hostile connection prefaces; family 'goaway' runs 16-48 worker goroutines issuing RPCs back to back against a server that sends stream-disowning GOAWAYs after every N-th HEADERS (reader goroutine vs. NewStream in parallel; transport deadlocks are reported by the stall monitor); family 'values' (and the VALUES operation of the other families) delivers adversarial VALUES of the fields the client parses - grpc-message percent-escape shapes (complete escapes followed by a trailing '%' / '%X', invalid hex, '%%', invalid UTF-8, very long), grpc-status, grpc-status-details-bin, grpc-encoding, content-type, :status, grpc-retry-pushback-ms (with a retry policy), -bin metadata and junk fields - in initial headers, Trailers-Only responses and real trailers, walking every fixed shape deterministically; " +
			"non-trivial = a (frame type, stream state, field class) triple sent while the connection was alive; distinct = number of different triples",
		Assumptions: []string{
			"every case runs in a child process; a dead child (panic, fatal error, synctest 'blocked goroutines remain') is attributed to the case whose start was logged last",
			"an RPC 'outlives its connection' only when the server has closed every connection and dials are refused, and only fail-fast RPCs on channels without a retry policy are judged there (wait-for-ready RPCs legitimately wait until their deadline, retried RPCs sit in back-off / push-back timers)",
			"virtual time: an RPC returning at the instant of its deadline is on time",
		},
		Floor: 150 / light(),
	})
}

// report folds the children's results into the evidence and the verdict.
func report(r *vlib.Run, cases []caseID, out *isoOutcome, scenarioOf func(caseID) any) {
	samples := 0
	for _, c := range cases {
		res := out.results[c]
		if res == nil {
			continue
		}
		r.Eval(1)
		if res.Stall != "" {
			r.Count("virtual_clock_stalls", 1)
			if len(res.Viol) == 0 {
				r.Inconclusive("case %s/%d: %s", c.Fam, c.I, res.Stall)
			}
		}
		for _, v := range res.Viol {
			r.Violation(v[0], c.Fam, c.I, map[string]any{"scenario": scenarioOf(c), "trace": res.Trace}, "%s", v[1])
		}
		keys := make([]string, 0, len(res.Counters))
		for k := range res.Counters {
			keys = append(keys, k)
		}
		sort.Strings(keys)
		for _, k := range keys {
			r.Count(k, res.Counters[k])
		}
		for k, v := range res.Maxes {
			r.Max(k, v)
		}
		for _, s := range res.Sigs {
			r.Nontrivial(s)
		}
		if samples < 3 && len(res.Sigs) > 3 {
			samples++
			r.Sample(map[string]any{"family": c.Fam, "case": c.I, "desc": res.Desc, "triples": res.Sigs, "counters": res.Counters})
		}
	}
	for _, cr := range out.crashes {
		detail := map[string]any{"scenario": scenarioOf(cr.Case), "crash": cr.Excerpt, "after_result": cr.AfterResult}
		switch {
		case cr.Harness:
			r.Inconclusive("child process died in case %s/%d without a grpc frame in the failing goroutine: %s", cr.Case.Fam, cr.Case.I, cr.Summary)
		case cr.AfterResult && out.results[cr.Case] != nil && len(out.results[cr.Case].Viol) > 0:
			// the case had already reported why the bubble could not end
			r.Count("crashes_after_reported_violation", 1)
		default:
			r.Violation(cr.Key, cr.Case.Fam, cr.Case.I, detail, "the test process died while running this case: %s", cr.Summary)
		}
		r.Count("child_crashes", 1)
	}
	for _, m := range out.inconclusive {
		r.Inconclusive("%s", m)
	}
	r.Count("child_processes", int64(out.children))
	r.Count("child_exits_flagged_by_race_detector", int64(out.raceExits))
	missing := 0
	for _, c := range cases {
		if out.results[c] == nil {
			missing++
		}
	}
	r.Count("cases_without_result", int64(missing))
	r.Count("cases_skipped_after_crash_storm", int64(out.skipped))
}
