// C26: requests are dispatched only to the registered method.
//
// A real grpc.Server with a random registry (service names with dots and
// embedded slashes, empty names, unary methods and stream handlers, optional
// UnknownServiceHandler) runs inside a synctest bubble.  Requests reach it
//   - from a scripted raw HTTP/2 client (engine E1) that puts arbitrary bytes in
//     :path, and
//   - from a real grpc.ClientConn through cc.Invoke / cc.NewStream with arbitrary
//     method strings.
//
// Every registration has its own handler which records (request id, handler
// identity, the full method it was told).  Reference (from the statement; DESIGN
// §4 C26): a path is well formed iff it starts with '/' and contains a second
// '/'; it is split at the LAST '/': service = text between the first and the
// last '/', method = text after the last '/'.
//
//	well formed, (service, method) registered   -> exactly that handler ran once, the client got its reply and OK
//	well formed, not registered, unknown handler -> exactly the unknown-service handler ran, it saw the sent path
//	well formed, not registered, no such handler -> no handler ran, client status UNIMPLEMENTED
//	malformed                                    -> no handler ran (incl. the unknown-service handler), client status != OK
//
// R2 note: a :path that is not a legal HTTP field value (contains control bytes
// other than HTAB) may be refused by the HTTP/2 layer before dispatch; for such
// paths "no handler ran and the client got a non-OK status" is accepted as well
// (if a handler did run it must still be the expected one).
package c26

import (
	"context"
	"fmt"
	"io"
	"math/rand"
	"net"
	"os"
	"sort"
	"strconv"
	"strings"
	"sync"
	"testing"
	"testing/synctest"

	"golang.org/x/net/http2"
	"google.golang.org/grpc"
	"google.golang.org/grpc/codes"
	"google.golang.org/grpc/credentials/insecure"
	"google.golang.org/grpc/metadata"
	"google.golang.org/grpc/status"
	"google.golang.org/grpc/verif/vlib"
	"google.golang.org/grpc/verif/wire"
)

// ---------- scenario ----------

type svcDef struct {
	Name    string   `json:"name"`
	Methods []string `json:"methods"` // registered as unary MethodDesc
	Streams []string `json:"streams"` // registered as StreamDesc
}

type request struct {
	Path []byte `json:"path"` // bytes: JSON-safe (base64) for the replay file
	Via  string `json:"via"`  // raw | unary | stream
	Cat  string `json:"cat"`
}

type scenario struct {
	Services []svcDef  `json:"services"`
	Unknown  bool      `json:"unknown_handler"`
	Reqs     []request `json:"reqs"`
}

var servicePool = []string{"a", "a.B", "pkg.Svc", "a/b", "a/b.C", "x.y/z.W", "grpc.testing.TestService", "A", "", "svc/", "/lead", "é.Svc", "a//b", "a.b", "b"}
var methodPool = []string{"M", "Get", "get", "m", "b", "c", "C", "", "Ünary", "x.y", "M2", "b.C"}

var categories = []string{"exact", "unknown-method", "unknown-service", "no-leading-slash", "no-second-slash", "empty",
	"extra-leading-slash", "trailing-slash", "case-variant", "non-ascii", "ctl-bytes", "random-bytes", "decorated", "long", "resplit"}

func pickDistinct(rng *rand.Rand, pool []string, n int) []string {
	idx := rng.Perm(len(pool))
	if n > len(pool) {
		n = len(pool)
	}
	out := make([]string, 0, n)
	for _, i := range idx[:n] {
		out = append(out, pool[i])
	}
	return out
}

func gen(rng *rand.Rand, caseIdx int) scenario {
	sc := scenario{Unknown: rng.Intn(2) == 0}
	names := pickDistinct(rng, servicePool, 1+rng.Intn(5))
	// ambiguity seeds: "a" together with "a/b" (and "a/b.C") so that "/a/b/c" has two candidate splits
	if rng.Intn(3) == 0 {
		have := map[string]bool{}
		for _, n := range names {
			have[n] = true
		}
		for _, n := range []string{"a", "a/b"} {
			if !have[n] {
				names = append(names, n)
			}
		}
	}
	for _, n := range names {
		ms := pickDistinct(rng, methodPool, 1+rng.Intn(4))
		d := svcDef{Name: n}
		for _, m := range ms {
			if rng.Intn(2) == 0 {
				d.Methods = append(d.Methods, m)
			} else {
				d.Streams = append(d.Streams, m)
			}
		}
		sc.Services = append(sc.Services, d)
	}
	type pair struct{ s, m string }
	var regs []pair
	for _, d := range sc.Services {
		for _, m := range d.Methods {
			regs = append(regs, pair{d.Name, m})
		}
		for _, m := range d.Streams {
			regs = append(regs, pair{d.Name, m})
		}
	}
	nreq := 24
	vias := []string{"raw", "unary", "stream"}
	for i := 0; i < nreq; i++ {
		cat := categories[(i+caseIdx)%len(categories)]
		p := regs[rng.Intn(len(regs))]
		exact := "/" + p.s + "/" + p.m
		var path string
		switch cat {
		case "exact":
			path = exact
		case "unknown-method":
			path = "/" + p.s + "/" + vlib.Pick(rng, p.m+"x", "x"+p.m, methodPool[rng.Intn(len(methodPool))]+"_", strings.TrimSuffix(p.m+"#", "#")+"1")
		case "unknown-service":
			path = "/" + vlib.Pick(rng, p.s+"x", "x"+p.s, "nope.Svc", p.s+".") + "/" + p.m
		case "no-leading-slash":
			path = vlib.Pick(rng, p.s+"/"+p.m, strings.TrimLeft(exact, "/"), " "+exact, "x"+exact)
			if strings.HasPrefix(path, "/") { // e.g. service "" made TrimLeft leave nothing useful
				path = "x" + p.s + "/" + p.m
			}
		case "no-second-slash":
			path = "/" + strings.ReplaceAll(p.s+p.m, "/", "")
			if rng.Intn(4) == 0 {
				path = "/" + strings.ReplaceAll(p.m, "/", "")
			}
		case "empty":
			path = vlib.Pick(rng, "", "/", "", "/")
		case "extra-leading-slash":
			path = "/" + exact
		case "trailing-slash":
			path = exact + "/"
		case "case-variant":
			path = "/" + swapCase(p.s) + "/" + p.m
			if rng.Intn(2) == 0 {
				path = "/" + p.s + "/" + swapCase(p.m)
			}
		case "non-ascii":
			path = vlib.Pick(rng, "/"+p.s+"é/"+p.m, "/"+p.s+"/"+p.m+"\xff", "/\xc3\x28"+p.s+"/"+p.m, "/"+p.s+"/世界", "é"+exact)
		case "ctl-bytes":
			c := vlib.Pick(rng, "\x00", "\n", "\r\n", "\x7f", "\x01", "\x1f")
			switch rng.Intn(3) {
			case 0:
				path = exact + c
			case 1:
				path = c + exact
			default:
				path = "/" + p.s + c + "/" + p.m
			}
		case "random-bytes":
			b := make([]byte, rng.Intn(30))
			for j := range b {
				b[j] = byte(rng.Intn(256))
				if rng.Intn(4) == 0 {
					b[j] = '/'
				}
			}
			if rng.Intn(2) == 0 {
				b = append([]byte{'/'}, b...)
			}
			path = string(b)
		case "decorated":
			path = vlib.Pick(rng, exact+"?x=1", exact+" ", exact+"#f", "/"+strings.ReplaceAll(p.s, "/", "%2F")+"/"+p.m, "/"+p.s+"%2F"+p.m, exact+"\t", "*", "http://verif.test"+exact)
		case "long":
			path = exact + strings.Repeat("z", 1000+rng.Intn(5000))
			if rng.Intn(2) == 0 {
				path = "/" + strings.Repeat("s/", 500+rng.Intn(500)) + p.m
			}
		case "resplit":
			// move the boundary: the same bytes split elsewhere would name something else
			q := regs[rng.Intn(len(regs))]
			path = vlib.Pick(rng, "/"+p.s+"/"+q.s+"/"+q.m, "/"+p.s+"/"+p.m+"/"+q.m, "/"+q.s+"/"+p.s+"/"+p.m)
		}
		// the transport varies with the case index and a random offset so that every (category, transport)
		// pair is met over the case list
		sc.Reqs = append(sc.Reqs, request{Path: []byte(path), Via: vias[(i+caseIdx+rng.Intn(3))%3], Cat: cat})
	}
	return sc
}

func swapCase(s string) string {
	b := []byte(s)
	changed := false
	for i, c := range b {
		switch {
		case c >= 'a' && c <= 'z':
			b[i] = c - 32
			changed = true
		case c >= 'A' && c <= 'Z':
			b[i] = c + 32
			changed = true
		}
	}
	if !changed {
		return s + "Q"
	}
	return string(b)
}

// ---------- reference ----------

// split is the reference parser of the statement: ok=false means malformed.
func split(path string) (service, method string, ok bool) {
	if len(path) == 0 || path[0] != '/' {
		return "", "", false
	}
	last := -1
	for i := 1; i < len(path); i++ {
		if path[i] == '/' {
			last = i
		}
	}
	if last < 0 {
		return "", "", false
	}
	return path[1:last], path[last+1:], true
}

// fieldValueClean reports whether path is a legal HTTP field value (RFC 9110
// field-content plus the empty string): no control bytes except HTAB.
func fieldValueClean(path string) bool {
	for i := 0; i < len(path); i++ {
		b := path[i]
		if (b < 0x20 && b != '\t') || b == 0x7f {
			return false
		}
	}
	return true
}

// ---------- execution ----------

type ran struct {
	handler string
	method  string
	methOK  bool
}

type outcome struct {
	code   codes.Code
	noCode bool // stream was reset / no grpc-status seen
	reply  string
	rst    bool
}

type result struct {
	viol     [][2]string
	counters map[string]int64
	sigs     []string
}

func hid(svc, name, kind string) string { return kind + ":" + strconv.Quote(svc) + "/" + strconv.Quote(name) }

func run(sc scenario) *result {
	res := &result{counters: map[string]int64{}}
	v := func(key, f string, a ...any) { res.viol = append(res.viol, [2]string{key, fmt.Sprintf(f, a...)}) }

	var mu sync.Mutex
	ranBy := map[string][]ran{} // rid -> handlers that ran
	record := func(ctx context.Context, id string, meth string, ok bool) {
		rid := "?"
		if md, ok := metadata.FromIncomingContext(ctx); ok && len(md.Get("x-rid")) > 0 {
			rid = md.Get("x-rid")[0]
		}
		mu.Lock()
		ranBy[rid] = append(ranBy[rid], ran{handler: id, method: meth, methOK: ok})
		mu.Unlock()
	}
	var unknown grpc.StreamHandler
	if sc.Unknown {
		unknown = func(_ any, ss grpc.ServerStream) error {
			m, ok := grpc.MethodFromServerStream(ss)
			record(ss.Context(), "unknown", m, ok)
			var in []byte
			if err := ss.RecvMsg(&in); err != nil && err != io.EOF {
				return err
			}
			return ss.SendMsg([]byte("unknown"))
		}
	}
	fx := wire.NewServerFixture(unknown)
	registered := map[[2]string]string{}
	for _, d := range sc.Services {
		sd := &grpc.ServiceDesc{ServiceName: d.Name, HandlerType: (*any)(nil)}
		for _, m := range d.Methods {
			id := hid(d.Name, m, "unary")
			registered[[2]string{d.Name, m}] = id
			sd.Methods = append(sd.Methods, grpc.MethodDesc{MethodName: m, Handler: func(_ any, ctx context.Context, dec func(any) error, _ grpc.UnaryServerInterceptor) (any, error) {
				meth, ok := grpc.Method(ctx)
				record(ctx, id, meth, ok)
				var in []byte
				if err := dec(&in); err != nil {
					return nil, err
				}
				return []byte(id), nil
			}})
		}
		for _, m := range d.Streams {
			id := hid(d.Name, m, "stream")
			registered[[2]string{d.Name, m}] = id
			sd.Streams = append(sd.Streams, grpc.StreamDesc{StreamName: m, ClientStreams: true, ServerStreams: true, Handler: func(_ any, ss grpc.ServerStream) error {
				meth, ok := grpc.MethodFromServerStream(ss)
				record(ss.Context(), id, meth, ok)
				var in []byte
				if err := ss.RecvMsg(&in); err != nil && err != io.EOF {
					return err
				}
				return ss.SendMsg([]byte(id))
			}})
		}
		fx.S.RegisterService(sd, nil)
	}
	fx.Serve()

	cc, err := grpc.NewClient("passthrough:///c26",
		grpc.WithTransportCredentials(insecure.NewCredentials()),
		grpc.WithContextDialer(func(context.Context, string) (net.Conn, error) { return fx.L.Dial() }),
		grpc.WithDefaultCallOptions(grpc.ForceCodec(wire.RawCodec{})))
	if err != nil {
		v("harness", "NewClient: %v", err)
		return res
	}
	peer, err := fx.Connect()
	if err != nil {
		v("harness", "connect: %v", err)
		return res
	}
	if err := peer.Start(); err != nil {
		v("harness", "start: %v", err)
		return res
	}
	synctest.Wait()

	outs := make([]outcome, len(sc.Reqs))
	rawStream := map[int]uint32{}
	nextID := uint32(1)
	for i, rq := range sc.Reqs {
		rid := strconv.Itoa(i)
		path := string(rq.Path)
		switch rq.Via {
		case "raw":
			id := nextID
			nextID += 2
			rawStream[i] = id
			peer.WriteHeaders(id, false, 0, wire.RequestHeaders(path, wire.F("x-rid", rid))...)
			peer.WriteData(id, wire.Msg([]byte("req")), true, -1)
		case "unary":
			ctx := metadata.AppendToOutgoingContext(context.Background(), "x-rid", rid)
			var reply []byte
			err := cc.Invoke(ctx, path, []byte("req"), &reply)
			outs[i] = outcome{code: status.Code(err), reply: string(reply)}
		case "stream":
			ctx, cancel := context.WithCancel(metadata.AppendToOutgoingContext(context.Background(), "x-rid", rid))
			st, err := cc.NewStream(ctx, &grpc.StreamDesc{ClientStreams: true, ServerStreams: true}, path)
			var reply []byte
			if err == nil {
				if err = st.SendMsg([]byte("req")); err == nil {
					st.CloseSend()
				}
				// a failed SendMsg reports io.EOF; the status comes from RecvMsg
				var first []byte
				if err = st.RecvMsg(&first); err == nil {
					reply = first
					var more []byte
					err = st.RecvMsg(&more)
					if err == nil {
						err = fmt.Errorf("second reply %q", more)
					}
				}
				if err == io.EOF {
					err = nil
				}
			}
			cancel()
			outs[i] = outcome{code: status.Code(err), reply: string(reply)}
		}
	}
	synctest.Wait()
	// collect the raw outcomes from the frame log
	type rawAcc struct {
		data   []byte
		out    outcome
		closed bool
	}
	acc := map[uint32]*rawAcc{}
	connEnded := false
	for _, e := range peer.Log() {
		if e.Dir != wire.In {
			continue
		}
		if e.Type == wire.TypeConnEnd || e.Type == http2.FrameGoAway {
			connEnded = true
			continue
		}
		if e.Stream == 0 {
			continue
		}
		a := acc[e.Stream]
		if a == nil {
			a = &rawAcc{out: outcome{noCode: true}}
			acc[e.Stream] = a
		}
		switch e.Type {
		case http2.FrameData:
			a.data = append(a.data, e.Data...)
		case http2.FrameHeaders:
			if s, ok := e.Field("grpc-status"); ok {
				if n, err := strconv.Atoi(s); err == nil {
					a.out.code, a.out.noCode = codes.Code(n), false
				}
			}
			if e.EndStream() {
				a.closed = true
			}
		case http2.FrameRSTStream:
			if !a.closed { // RST(NO_ERROR) after trailers is legitimate
				a.out.rst = true
			}
			a.closed = true
		}
	}
	for i, id := range rawStream {
		a := acc[id]
		if a == nil {
			outs[i] = outcome{noCode: true}
			continue
		}
		if msgs, _, _ := wire.SplitMsgs(a.data); len(msgs) > 0 {
			a.out.reply = string(msgs[0])
		}
		outs[i] = a.out
		if !a.closed && !connEnded {
			v("raw-stream-not-answered", "request %d (raw, stream %d, path %q): neither trailers nor RST_STREAM at quiescence", i, id, sc.Reqs[i].Path)
		}
	}
	if connEnded {
		v("connection-killed", "the server ended the raw connection (GOAWAY / close) although every request was a syntactically valid HEADERS+DATA pair")
	}

	// ---------- judge ----------
	mu.Lock()
	defer mu.Unlock()
	for i, rq := range sc.Reqs {
		path := string(rq.Path)
		rid := strconv.Itoa(i)
		rans := ranBy[rid]
		out := outs[i]
		svc, meth, wf := split(path)
		clean := fieldValueClean(path)
		want := "" // handler identity that must run ("" = none)
		class := "malformed"
		if wf {
			if id, ok := registered[[2]string{svc, meth}]; ok {
				want, class = id, "registered"
			} else if sc.Unknown {
				want, class = "unknown", "to-unknown-handler"
			} else {
				class = "unimplemented"
			}
		}
		desc := fmt.Sprintf("request %d via %s cat %s path %q (reference: %s service=%q method=%q)", i, rq.Via, rq.Cat, path, class, svc, meth)
		if len(rans) > 1 {
			v("handler-ran-twice", "%s: %d handler invocations: %+v", desc, len(rans), rans)
		}
		for _, r := range rans {
			if !wf {
				v("malformed-path-reached-handler", "%s: handler %s ran", desc, r.handler)
			} else if r.handler != want {
				v("wrong-handler", "%s: handler %s ran, expected %q", desc, r.handler, want)
			}
			if !r.methOK || r.method != path {
				v("handler-saw-other-method", "%s: handler %s was told method %q (ok=%v)", desc, r.handler, r.method, r.methOK)
			}
		}
		outc := "none"
		switch {
		case len(rans) == 0 && want != "" && clean:
			v("handler-not-reached", "%s: no handler ran; client outcome %+v", desc, out)
		case len(rans) == 0 && want != "":
			outc = "refused-by-http2"
			res.counters["unclean_path_refused_before_dispatch"]++
		}
		if len(rans) == 1 && rans[0].handler == want {
			outc = "ran"
			res.counters["expected_handler_ran"]++
			if want == "unknown" {
				res.counters["unknown_handler_runs"]++
			}
			wantReply := want
			if out.noCode || out.code != codes.OK || out.reply != wantReply {
				v("reply-not-from-handler", "%s: handler %s ran but the client observed %+v", desc, want, out)
			}
		}
		if len(rans) == 0 {
			if !out.noCode && out.code == codes.OK {
				v("ok-without-handler", "%s: no handler ran but the client observed OK (%+v)", desc, out)
			}
			if class == "unimplemented" && clean {
				if out.noCode || out.code != codes.Unimplemented {
					v("not-unimplemented", "%s: expected UNIMPLEMENTED, client observed %+v", desc, out)
				} else {
					outc = "unimplemented"
					res.counters["unimplemented"]++
				}
			}
			if class == "malformed" {
				res.counters["malformed_reached_no_handler"]++
				if sc.Unknown {
					res.counters["malformed_reached_no_handler_with_unknown_handler_installed"]++
				}
				outc = "rejected"
				if out.rst || out.noCode {
					outc = "rejected-rst"
				} else if out.code == codes.Unimplemented {
					outc = "rejected-unimplemented"
				}
			}
		}
		slash := ""
		if strings.Contains(svc, "/") {
			slash = "+slashsvc"
		}
		res.sigs = append(res.sigs, fmt.Sprintf("%s/%s/%s%s/%s", rq.Via, rq.Cat, class, slash, outc))
	}
	for rid, rs := range ranBy {
		n, err := strconv.Atoi(rid)
		if err != nil || n < 0 || n >= len(sc.Reqs) {
			v("handler-ran-for-unknown-request", "handlers %+v ran for request id %q which was never sent", rs, rid)
		}
	}
	res.counters["requests"] = int64(len(sc.Reqs))
	res.counters["registered_pairs"] = int64(len(registered))

	cc.Close()
	peer.Close()
	fx.S.Stop()
	<-peer.Done()
	return res
}

func light() int {
	if os.Getenv("VERIF_LIGHT") != "" {
		return 5
	}
	return 1
}

func TestVerifC26(t *testing.T) {
	r := vlib.Start(t, "C26")
	n := r.N(600, 12000) / light()
	const fam = "registry"
	for i := 0; i < n; i++ {
		if !r.Want(fam, i) {
			continue
		}
		sc := gen(r.Rand(fam, i), i)
		r.Progress(fam, i, fmt.Sprintf("services=%d unknown=%v reqs=%d", len(sc.Services), sc.Unknown, len(sc.Reqs)))
		var res *result
		synctest.Test(t, func(t *testing.T) { res = run(sc) })
		r.Eval(len(sc.Reqs))
		for _, x := range res.viol {
			r.Violation(x[0], fam, i, sc, "%s", x[1])
		}
		keys := make([]string, 0, len(res.counters))
		for k := range res.counters {
			keys = append(keys, k)
		}
		sort.Strings(keys)
		for _, k := range keys {
			r.Count(k, res.counters[k])
		}
		for _, s := range res.sigs {
			r.Nontrivial(s)
		}
		if i < 2 {
			names := []string{}
			for _, d := range sc.Services {
				names = append(names, fmt.Sprintf("%q methods=%q streams=%q", d.Name, d.Methods, d.Streams))
			}
			paths := []string{}
			for _, q := range sc.Reqs[:8] {
				paths = append(paths, fmt.Sprintf("%s:%q", q.Via, q.Path))
			}
			r.Sample(map[string]any{"services": names, "unknown_handler": sc.Unknown, "first_paths": paths, "signatures": res.sigs[:8], "counters": res.counters})
		}
	}
	r.Finish(vlib.Spec{
		Level: "exploration",
		Rule: "per case a random registry (1-7 services from a pool with dots, embedded/leading/trailing slashes, empty and non-ASCII names; 1-4 unary or stream methods each; optional UnknownServiceHandler) on a real server in a synctest bubble and 24 requests cycling through 15 path categories (exact, unknown method/service, no leading slash, no second slash, empty, extra leading slash, trailing slash, case variant, non-ASCII, control bytes, random bytes, decorated, long, re-split) sent by a scripted raw HTTP/2 client (:path bytes) or a real ClientConn (Invoke / NewStream); each registration has its own recording handler; oracle = reference split at the LAST '/': the set of handlers that ran for the request == {expected}, reply and OK come from that handler, unregistered -> unknown-service handler or UNIMPLEMENTED, malformed -> no handler and non-OK; every request is judged (non-trivial); distinct = (transport, category, reference class, slash-in-service, outcome)",
		Assumptions: []string{
			"a :path containing control bytes other than HTAB may be refused by the HTTP/2 layer before dispatch (accepted: no handler, non-OK)",
			"handlers are attributed to requests through the x-rid metadata value they receive",
		},
		Floor: 40,
	})
}
