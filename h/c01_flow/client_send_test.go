// Shared scenario runner for C01 / C02 / C03, direction (a): a real grpc
// client is the DATA sender, the scripted HTTP/2 server (engine E1) owns the
// windows.  Everything runs inside a testing/synctest bubble; after every
// script step synctest.Wait() yields an exact quiescent point at which the
// oracles inspect the frame log.
package c01flow

import (
	"bytes"
	"context"
	"fmt"
	"io"
	"math/rand"
	"sort"
	"strconv"
	"sync"
	"testing"
	"testing/synctest"

	"golang.org/x/net/http2"
	"google.golang.org/grpc"
	"google.golang.org/grpc/metadata"
	"google.golang.org/grpc/verif/vlib"
	"google.golang.org/grpc/verif/wire"
)

// ---- scenario description (JSON-able: it is the replay detail) ----

type stepKind string

const (
	kConnGrant   stepKind = "conn+"
	kStreamGrant stepKind = "stream+"
	kSettings    stepKind = "iws="
	kPeerRST     stepKind = "peer-rst"
	kAppCancel   stepKind = "app-cancel"
	kPeerFinish  stepKind = "peer-trailers"
	kNop         stepKind = "wait"
)

type step struct {
	K stepKind `json:"k"`
	S int      `json:"s,omitempty"` // app stream index
	N uint32   `json:"n,omitempty"`
}

type scenario struct {
	Family       string   `json:"family"`
	IWS0         uint32   `json:"iws0"`
	Msgs         [][]int  `json:"msgs"`   // per app stream: message sizes
	BigHdr       []int    `json:"bighdr"` // per stream: extra metadata bytes (forces CONTINUATION when large)
	Steps        []step   `json:"steps"`
	RRGrants     []uint32 `json:"rr_grants,omitempty"`
	DeadlineRace []int    `json:"deadline_race_ms,omitempty"` // server direction, per stream: >0 = the request carries grpc-timeout of that many ms and the handler makes its first write at exactly that virtual instant
	Unary        []bool   `json:"unary,omitempty"`            // per stream: single message sent with END_STREAM on its last frame (non-client-streaming call shape)
}

func pattern(s, i, n int) []byte {
	b := make([]byte, n)
	x := uint32(s*1000003 + i*7919 + 17)
	for j := range b {
		x = x*1664525 + 1013904223
		b[j] = byte(x >> 24)
	}
	return b
}

func genScenario(rng *rand.Rand, fam string) scenario {
	sc := scenario{Family: fam}
	sc.IWS0 = vlib.Pick(rng, uint32(0), 1, 5, 16383, 16384, 65535, 1<<20)
	ns := 1 + rng.Intn(8)
	if fam == "many" || fam == "server-many" {
		ns = 4 + rng.Intn(5)
	}
	scale := 1
	if light() > 1 {
		scale = 6
	}
	for s := 0; s < ns; s++ {
		nm := 1 + rng.Intn(4)
		var ms []int
		for i := 0; i < nm; i++ {
			switch rng.Intn(7) {
			case 0:
				ms = append(ms, 0)
			case 1:
				ms = append(ms, 1+rng.Intn(10))
			case 2:
				ms = append(ms, 16384-5+rng.Intn(3)-1)
			case 3:
				ms = append(ms, (60000+rng.Intn(10000))/scale)
			case 4:
				ms = append(ms, (100000+rng.Intn(200000))/scale)
			default:
				ms = append(ms, rng.Intn(40000))
			}
		}
		un := rng.Intn(3) == 0
		if un {
			ms = ms[:1]
		}
		sc.Unary = append(sc.Unary, un)
		dr := 0
		if rng.Intn(3) == 0 {
			dr = 1 + rng.Intn(5)
		}
		sc.DeadlineRace = append(sc.DeadlineRace, dr)
		sc.Msgs = append(sc.Msgs, ms)
		bh := 0
		if rng.Intn(5) == 0 {
			bh = 10000 + rng.Intn(40000)
		}
		sc.BigHdr = append(sc.BigHdr, bh)
	}
	nsteps := 8 + rng.Intn(30)
	for k := 0; k < nsteps; k++ {
		s := rng.Intn(ns)
		switch r := rng.Intn(100); {
		case r < 30:
			sc.Steps = append(sc.Steps, step{K: kConnGrant, N: vlib.Pick(rng, uint32(1), 5, 100, 5000, 16384, 16385, 40000, 70000, uint32(1+rng.Intn(70000)))})
		case r < 60:
			sc.Steps = append(sc.Steps, step{K: kStreamGrant, S: s, N: vlib.Pick(rng, uint32(1), 5, 100, 5000, 16384, 16385, 40000, 70000, uint32(1+rng.Intn(70000)))})
		case r < 75:
			sc.Steps = append(sc.Steps, step{K: kSettings, N: vlib.Pick(rng, uint32(0), 0, 1, 7, 100, 16384, 30000, 65535, 200000, 1<<20, uint32(rng.Intn(100000)))})
		case r < 80:
			sc.Steps = append(sc.Steps, step{K: kPeerRST, S: s})
		case r < 85:
			sc.Steps = append(sc.Steps, step{K: kAppCancel, S: s})
		case r < 90:
			sc.Steps = append(sc.Steps, step{K: kPeerFinish, S: s})
		default:
			sc.Steps = append(sc.Steps, step{K: kNop})
		}
	}
	return sc
}

// ---- application side recorder ----

type appStream struct {
	idx       int
	msgs      [][]byte // framed (5-byte prefix + payload)
	all       []byte   // concatenation of msgs
	cum       []int    // cum[i] = total framed bytes of msgs[:i]
	attempted int      // number of SendMsg calls started
	okSent    int      // number of SendMsg calls that returned nil
	sendErr   error
	closeSent bool // CloseSend returned nil after all messages were accepted
	done      bool // goroutine finished
	recvErr   error
	cancel    context.CancelFunc
	cancelled bool
}

type recorder struct {
	mu sync.Mutex
	st []*appStream
}

func (r *recorder) with(i int, f func(a *appStream)) {
	r.mu.Lock()
	f(r.st[i])
	r.mu.Unlock()
}

// ---- wire-side per stream audit state ----

type wireStream struct {
	id               uint32
	idx              int
	data             []byte // concatenated DATA payloads
	verified         int    // bytes of data already compared with the application's stream
	endStream        int    // END_STREAM flags seen from the endpoint
	endSeq           int
	rstIn            bool // endpoint sent RST_STREAM
	rstOut           bool // peer sent RST_STREAM
	trailers         bool // peer sent trailers
	closedAt         int  // log length at the first quiescent point after the stream closed (0 = open)
	hdrs             int  // server direction: HEADERS frames seen from the server
	status           int  // server direction: grpc-status of the trailers
	halfClosed       bool // server direction: scripted client sent END_STREAM
	rstAfterTrailers int
	frames           int
}

type outcome struct {
	violations []violation
	sig        string
	counters   map[string]int64
}

type violation struct {
	prop, key, msg string
}

type runner struct {
	sc    scenario
	peer  *wire.Peer
	led   *wire.SendLedger
	fed   int
	rec   *recorder
	ws    map[uint32]*wireStream
	byIdx map[int]*wireStream
	out   *outcome
	// C03 bookkeeping
	quiescentChecks, pendingChecks int64
	pairs                          map[string]bool
	dataOrder                      []uint32 // stream ids of non-empty DATA frames in order
	rrStart                        int      // index into dataOrder from which every stream is backlogged in the writer
}

func (rn *runner) viol(prop, key, format string, a ...any) {
	rn.out.violations = append(rn.out.violations, violation{prop, key, fmt.Sprintf(format, a...)})
}

// feed processes new log entries through the ledger (C01) and the per-stream
// frame-sequence audit (C02).
func (rn *runner) feed() {
	log := rn.peer.LogFrom(rn.fed)
	for i := range log {
		e := &log[i]
		if why := rn.led.Feed(e); why != "" {
			rn.viol("C01", "window-exceeded", "%s at %s", why, e.String())
		}
		if e.Dir == wire.In {
			switch e.Type {
			case http2.FrameHeaders:
				if v, ok := e.Field("x-sid"); ok {
					idx, _ := strconv.Atoi(v)
					w := &wireStream{id: e.Stream, idx: idx}
					if old := rn.ws[e.Stream]; old != nil {
						rn.viol("C02", "headers-twice", "second HEADERS on stream %d: %s", e.Stream, e.String())
					}
					rn.ws[e.Stream] = w
					rn.byIdx[idx] = w
					if e.EndStream() {
						w.endStream++
						w.endSeq = e.Seq
					}
				}
			case http2.FrameData:
				w := rn.ws[e.Stream]
				if w == nil {
					rn.viol("C02", "data-unknown-stream", "DATA on a stream without HEADERS: %s", e.String())
					break
				}
				if w.closedAt != 0 && e.Seq >= w.closedAt {
					rn.viol("C02", "frame-after-close", "DATA for stream %d (app %d) after the stream was closed and the connection quiescent: %s", e.Stream, w.idx, e.String())
				}
				if w.rstIn {
					rn.viol("C02", "frame-after-own-rst", "DATA on stream %d after the client itself reset it: %s", e.Stream, e.String())
				}
				if w.endStream > 0 {
					rn.viol("C02", "data-after-endstream", "DATA after END_STREAM on stream %d: %s", e.Stream, e.String())
				}
				w.data = append(w.data, e.Data...)
				w.frames++
				if len(e.Data) > 0 {
					rn.dataOrder = append(rn.dataOrder, e.Stream)
				}
				if e.EndStream() {
					w.endStream++
					w.endSeq = e.Seq
				}
			case http2.FrameRSTStream:
				if w := rn.ws[e.Stream]; w != nil {
					w.rstIn = true
				}
			}
		}
	}
	rn.fed += len(log)
}

// quiesce waits for exact quiescence, feeds the log and runs the C03 and the
// prefix part of the C02 oracle.  last is a label of the step just executed.
func (rn *runner) quiesce(last string) {
	synctest.Wait()
	rn.feed()
	rn.quiescentChecks++
	// mark closed streams: from now on nothing may arrive for them
	for _, w := range rn.ws {
		if w.closedAt == 0 && (w.rstIn || w.rstOut || w.trailers) {
			w.closedAt = rn.fed
		}
	}
	rn.rec.mu.Lock()
	defer rn.rec.mu.Unlock()
	for _, a := range rn.rec.st {
		w := rn.byIdx[a.idx]
		if w == nil {
			continue
		}
		// C02: wire bytes are a prefix of what the application attempted, in order
		exp := a.all[:a.cum[a.attempted]]
		if len(w.data) > len(exp) || !bytes.Equal(exp[w.verified:len(w.data)], w.data[w.verified:]) {
			rn.viol("C02", "bytes-not-prefix", "stream %d (app %d): %d wire bytes are not a prefix of the %d bytes the application wrote (first diff at %d)", w.id, a.idx, len(w.data), len(exp), firstDiff(exp, w.data))
		} else {
			w.verified = len(w.data)
		}
		okBytes := a.cum[a.okSent]
		alive := !w.rstIn && !w.rstOut && !w.trailers && !a.cancelled && w.endStream == 0
		// C03: pending data + positive credits at quiescence = lost wake-up
		submitted := len(exp)
		if alive && submitted > len(w.data) {
			rn.pendingChecks++
			sc, cc := rn.led.StreamCredit(w.id), rn.led.Conn
			state := "starved"
			if sc > 0 && cc > 0 {
				state = "STUCK"
				rn.viol("C03", "stuck-with-credit", "after %q: stream %d (app %d) has %d of %d submitted bytes on the wire, stream credit %d and connection credit %d are positive, yet the connection is quiescent", last, w.id, a.idx, len(w.data), submitted, sc, cc)
			}
			rn.pairs[state+"/"+last] = true
		}
		// C03 (also C17's BB clause): a SendMsg accepted => eventually written
		// is covered by the final completeness check.
		_ = okBytes
	}
}

func firstDiff(a, b []byte) int {
	n := len(a)
	if len(b) < n {
		n = len(b)
	}
	for i := 0; i < n; i++ {
		if a[i] != b[i] {
			return i
		}
	}
	return n
}

// runClientSend executes one scenario in a fresh bubble and returns what the
// oracles saw.  Must be called from inside synctest.Test.
func runClientSend(sc scenario) *outcome { return runClientSendOpt(sc, false) }

func runClientSendOpt(sc scenario, rr bool) *outcome {
	out := &outcome{counters: map[string]int64{}}
	fx, err := wire.NewClientFixture()
	if err != nil {
		out.violations = append(out.violations, violation{"C01", "harness", "fixture: " + err.Error()})
		return out
	}
	rn := &runner{sc: sc, led: wire.NewSendLedger(), rec: &recorder{}, ws: map[uint32]*wireStream{}, byIdx: map[int]*wireStream{}, out: out, pairs: map[string]bool{}}
	for s, sizes := range sc.Msgs {
		a := &appStream{idx: s}
		a.cum = []int{0}
		for i, n := range sizes {
			m := wire.Msg(pattern(s, i, n))
			a.msgs = append(a.msgs, m)
			a.all = append(a.all, m...)
			a.cum = append(a.cum, len(a.all))
		}
		rn.rec.st = append(rn.rec.st, a)
	}
	fx.CC.Connect()
	rn.peer = fx.Accept()
	if err := rn.peer.Start(http2.Setting{ID: http2.SettingInitialWindowSize, Val: sc.IWS0}); err != nil {
		out.violations = append(out.violations, violation{"C01", "harness", "peer start: " + err.Error()})
		return out
	}
	synctest.Wait()

	var wg sync.WaitGroup
	for s := range sc.Msgs {
		a := rn.rec.st[s]
		ctx := metadata.AppendToOutgoingContext(context.Background(), "x-sid", strconv.Itoa(s))
		if sc.BigHdr[s] > 0 {
			ctx = metadata.AppendToOutgoingContext(ctx, "x-big", string(bytes.Repeat([]byte{'h'}, sc.BigHdr[s])))
		}
		ctx, cancel := context.WithCancel(ctx)
		a.cancel = cancel
		wg.Add(1)
		go func() {
			defer wg.Done()
			defer rn.rec.with(s, func(a *appStream) { a.done = true })
			unary := s < len(sc.Unary) && sc.Unary[s]
			st, err := fx.CC.NewStream(ctx, &grpc.StreamDesc{ClientStreams: !unary, ServerStreams: true}, "/verif.Flow/Send")
			if err != nil {
				rn.rec.with(s, func(a *appStream) { a.sendErr = err })
				return
			}
			for i := range a.msgs {
				payload := a.msgs[i][5:]
				rn.rec.with(s, func(a *appStream) { a.attempted = i + 1 })
				err := st.SendMsg(payload)
				if err != nil {
					rn.rec.with(s, func(a *appStream) { a.sendErr = err })
					break
				}
				rn.rec.with(s, func(a *appStream) { a.okSent = i + 1 })
			}
			var sendErr error
			rn.rec.with(s, func(a *appStream) { sendErr = a.sendErr })
			if sendErr == nil && unary {
				// the single message carried the half-close
				rn.rec.with(s, func(a *appStream) { a.closeSent = true })
			} else if sendErr == nil {
				if err := st.CloseSend(); err == nil {
					rn.rec.with(s, func(a *appStream) { a.closeSent = true })
				}
			}
			for {
				var m []byte
				if err := st.RecvMsg(&m); err != nil {
					rn.rec.with(s, func(a *appStream) { a.recvErr = err })
					return
				}
			}
		}()
	}
	rn.quiesce("start")
	// at this quiescent point every application goroutine has handed its whole
	// (single, large) message to the transport: all streams are backlogged.
	rn.rrStart = len(rn.dataOrder)

	respond := func(w *wireStream) {
		if w.trailers || w.rstOut || w.rstIn {
			return
		}
		w.trailers = true
		rn.peer.WriteHeaders(w.id, true, 0, wire.TrailersOnly(0, "")...)
	}

	for _, st := range sc.Steps {
		label := string(st.K)
		switch st.K {
		case kConnGrant:
			if rn.led.Conn+int64(st.N) > 1<<31-1 {
				continue
			}
			rn.peer.WriteWindowUpdate(0, st.N)
		case kStreamGrant:
			w := rn.byIdx[st.S]
			if w == nil || rn.led.StreamCredit(w.id)+int64(st.N) > 1<<31-1 {
				continue
			}
			if w.closedAt != 0 || w.rstIn || w.rstOut || w.trailers {
				// a WINDOW_UPDATE for a stream that already ended is legal (RFC 9113
				// 5.1) and must not be credited to anything else
				label = "late-stream+"
			}
			rn.peer.WriteWindowUpdate(w.id, st.N)
		case kSettings:
			ok := true
			for _, w := range rn.ws { // never push a stream window above 2^31-1
				if int64(st.N)+(rn.led.StreamCredit(w.id)-rn.led.IWS) > 1<<31-1 {
					ok = false
				}
			}
			if !ok {
				continue
			}
			if int64(st.N) < rn.led.IWS {
				label += "shrink"
			} else {
				label += "raise"
			}
			rn.peer.WriteSettings(http2.Setting{ID: http2.SettingInitialWindowSize, Val: st.N})
		case kPeerRST:
			w := rn.byIdx[st.S]
			if w == nil || w.rstOut || w.trailers {
				continue
			}
			w.rstOut = true
			rn.peer.WriteRST(w.id, http2.ErrCodeCancel)
		case kAppCancel:
			rn.rec.with(st.S, func(a *appStream) { a.cancelled = true })
			rn.rec.st[st.S].cancel()
		case kPeerFinish:
			w := rn.byIdx[st.S]
			if w == nil {
				continue
			}
			respond(w)
		case kNop:
		}
		rn.quiesce(label)
	}

	if rr {
		rn.checkRR()
	}
	// drain: give everything plenty of credit until all application goroutines are done
	total := 0
	for _, a := range rn.rec.st {
		for _, m := range a.msgs {
			total += len(m)
		}
	}
	rounds := total/(1<<20) + 6
	for r := 0; r < rounds; r++ {
		allDone := true
		rn.rec.mu.Lock()
		for _, a := range rn.rec.st {
			if !a.done {
				allDone = false
			}
		}
		rn.rec.mu.Unlock()
		if allDone {
			break
		}
		if r == 0 && rn.led.IWS < 1<<20 {
			rn.peer.WriteSettings(http2.Setting{ID: http2.SettingInitialWindowSize, Val: 1 << 20})
			rn.quiesce("drain-iws-raise")
		}
		if rn.led.Conn < 1<<20 {
			rn.peer.WriteWindowUpdate(0, 1<<20)
		}
		for _, w := range rn.ws {
			if w.closedAt == 0 && !w.trailers && !w.rstOut && !w.rstIn && w.endStream == 0 && rn.led.StreamCredit(w.id) < 1<<20 {
				rn.peer.WriteWindowUpdate(w.id, 1<<20)
			}
		}
		rn.quiesce("drain-grant")
		for _, w := range rn.ws {
			if w.endStream > 0 {
				respond(w)
			}
		}
		rn.quiesce("drain-respond")
	}
	rn.finalChecks()
	for _, a := range rn.rec.st {
		a.cancel()
	}
	fx.CC.Close()
	rn.peer.Close()
	wg.Wait()
	<-rn.peer.Done()
	// evidence counters + signature
	out.counters["frames_in"] = int64(rn.fed)
	out.counters["data_frames"] = rn.led.DataFrames
	out.counters["data_bytes"] = rn.led.DataBytes
	out.counters["conn_credit_zero_events"] = rn.led.ConnZero
	out.counters["stream_credit_zero_events"] = rn.led.StreamZero
	out.counters["iws_shrinks"] = rn.led.Shrinks
	out.counters["negative_window_episodes"] = rn.led.NegativeEpisodes
	out.counters["quiescent_checks"] = rn.quiescentChecks
	out.counters["quiescent_checks_with_pending_data"] = rn.pendingChecks
	var ps []string
	for p := range rn.pairs {
		ps = append(ps, p)
	}
	sort.Strings(ps)
	out.sig = fmt.Sprintf("z%d/%d sh%d neg%d %v", min64(rn.led.ConnZero, 3), min64(rn.led.StreamZero, 3), min64(rn.led.Shrinks, 2), min64(rn.led.NegativeEpisodes, 2), ps)
	if rn.led.ConnZero+rn.led.StreamZero+rn.led.NegativeEpisodes == 0 {
		out.sig = "" // window never constrained the sender: trivial
	}
	return out
}

func min64(a, b int64) int64 {
	if a < b {
		return a
	}
	return b
}

// finalChecks: completeness and END_STREAM placement (C02) and "everything
// accepted was written" (C03) after the drain phase.
func (rn *runner) finalChecks() {
	rn.rec.mu.Lock()
	defer rn.rec.mu.Unlock()
	for _, a := range rn.rec.st {
		w := rn.byIdx[a.idx]
		if !a.done {
			rn.viol("C03", "app-never-finished", "app stream %d: goroutine still blocked after the drain phase granted ample credit (attempted=%d ok=%d)", a.idx, a.attempted, a.okSent)
			continue
		}
		if w == nil {
			continue
		}
		okb := a.all[:a.cum[a.okSent]]
		disturbed := w.rstIn || w.rstOut || w.trailers && !a.closeSent || a.cancelled
		if a.closeSent && !a.cancelled && !w.rstOut && !w.rstIn {
			// the application half-closed successfully on an undisturbed stream
			// (trailers may have come after END_STREAM): must be complete
			if w.endStream == 1 && !bytes.Equal(w.data, okb) {
				rn.viol("C02", "bytes-incomplete", "stream %d (app %d) ended with END_STREAM but carries %d bytes, application wrote %d (first diff %d)", w.id, a.idx, len(w.data), len(okb), firstDiff(okb, w.data))
			}
			if w.endStream == 0 && !w.trailers {
				rn.viol("C02", "endstream-missing", "stream %d (app %d): CloseSend succeeded, stream undisturbed, but no END_STREAM on the wire", w.id, a.idx)
			}
		}
		if w.endStream > 1 {
			rn.viol("C02", "endstream-twice", "stream %d (app %d): END_STREAM seen %d times", w.id, a.idx, w.endStream)
		}
		if w.endStream == 1 && len(w.data) != len(okb) && !disturbed {
			rn.viol("C02", "endstream-not-last", "stream %d (app %d): END_STREAM placed after %d bytes but the application wrote %d", w.id, a.idx, len(w.data), len(okb))
		}
		if a.recvErr != nil && a.recvErr != io.EOF && !disturbed && w.trailers {
			// responded OK, undisturbed: the client must see a clean end
			rn.viol("C02", "clean-stream-error", "stream %d (app %d) was answered with OK trailers but RecvMsg returned %v", w.id, a.idx, a.recvErr)
		}
	}
}

// runInBubble runs fn inside a fresh synctest bubble and converts a bubble
// deadlock / panic into a violation record instead of killing the process.
func runInBubble(t *testing.T, name string, fn func()) (ok bool) {
	return t.Run(name, func(t *testing.T) {
		synctest.Test(t, func(t *testing.T) { fn() })
	})
}

// checkRR: all streams are still backlogged here (each has one message larger
// than everything granted so far), so the non-empty DATA frames seen so far
// must be in strict round-robin order.
func (rn *runner) checkRR() {
	n := len(rn.sc.Msgs)
	// only judge while every stream still has unsent bytes
	for _, a := range rn.rec.st {
		w := rn.byIdx[a.idx]
		if w == nil || len(w.data) >= len(a.msgs[0]) {
			return
		}
	}
	ord := rn.dataOrder[rn.rrStart:]
	for i := 0; i+n <= len(ord); i++ {
		seen := map[uint32]bool{}
		for _, id := range ord[i : i+n] {
			if seen[id] {
				rn.viol("C03", "round-robin-unfair", "with %d backlogged streams DATA frames %d..%d are for streams %v: stream %d served twice while another waits", n, i, i+n-1, ord[i:i+n], id)
				return
			}
			seen[id] = true
		}
	}
	rn.out.counters["rr_windows_checked"] += int64(len(ord) - n + 1)
	rn.pairs[fmt.Sprintf("rr/n=%d/frames=%d", n, len(ord)/8)] = true
}
