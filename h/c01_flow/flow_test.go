package c01flow

import (
	"fmt"
	"os"
	"testing"
	"testing/synctest"

	"google.golang.org/grpc/verif/vlib"
)

// runFamily executes n generated client-send scenarios and reports the
// violations that belong to property prop.
func runFamily(t *testing.T, r *vlib.Run, prop, fam string, n int) {
	for i := 0; i < n; i++ {
		if !r.Want(fam, i) {
			continue
		}
		sc := genScenario(r.Rand(fam, i), fam)
		r.Progress(fam, i, fmt.Sprintf("streams=%d steps=%d iws0=%d", len(sc.Msgs), len(sc.Steps), sc.IWS0))
		var out *outcome
		synctest.Test(t, func(t *testing.T) {
			if len(fam) >= 6 && fam[:6] == "server" {
				out = runServerSend(sc)
			} else {
				out = runClientSend(sc)
			}
		})
		report(r, prop, fam, i, sc, out)
	}
}

func report(r *vlib.Run, prop, fam string, i int, sc any, out *outcome) {
	r.Eval(1)
	for _, v := range out.violations {
		if v.prop == prop || v.key == "harness" {
			r.Violation(v.key, fam, i, sc, "%s", v.msg)
		} else {
			r.Count("alarms_of_sibling_oracle_"+v.prop, 1)
		}
	}
	if out.sig != "" {
		r.Nontrivial(fam + ":" + out.sig)
	}
	for k, v := range out.counters {
		r.Count(k, v)
	}
	if i < 2 {
		r.Sample(map[string]any{"scenario": sc, "signature": out.sig, "counters": out.counters})
	}
}

func TestVerifC01(t *testing.T) {
	r := vlib.Start(t, "C01")
	runFamily(t, r, "C01", "client-mixed", r.N(300, 6000)/light())
	runFamily(t, r, "C01", "server-mixed", r.N(300, 6000)/light())
	r.Finish(vlib.Spec{
		Level: "exploration",
		Rule:  "PRNG scenarios: 1-8 concurrent streams x 1-4 messages (0..300KB), initial stream window in {0,1,5,16383,16384,65535,1MB}, 8-37 script steps (connection/stream WINDOW_UPDATE of adversarial sizes, SETTINGS_INITIAL_WINDOW_SIZE raise/shrink incl. to 0 and below bytes in flight, peer RST, app cancel, early trailers, 10-50KB metadata forcing CONTINUATION); every DATA/HEADERS frame read by an independent http2.Framer is checked against the send-window ledger; non-trivial = a credit reached exactly 0 or a shrink made a window negative; distinct = (zero/shrink/negative counts capped, set of (stream state, last event) pairs at quiescent points)",
		Assumptions: []string{"ledger: SETTINGS k takes effect at the k-th SETTINGS ACK read from the endpoint; WINDOW_UPDATE credited when the scripted peer starts writing it",
			"runs inside testing/synctest bubbles over an in-memory conn; goroutine interleavings are sampled, not enumerated"},
		Floor: 15,
	})
}

func TestVerifC02(t *testing.T) {
	r := vlib.Start(t, "C02")
	runFamily(t, r, "C02", "many", r.N(300, 6000)/light())
	runFamily(t, r, "C02", "server-many", r.N(300, 6000)/light())
	r.Finish(vlib.Spec{
		Level:       "exploration",
		Rule:        "same generator as C01 biased to 4-8 streams; every message carries a unique (stream,index)-derived byte pattern; per stream the concatenated DATA payloads must be a prefix of what the application wrote at every quiescent point and exactly equal on undisturbed half-closed streams, END_STREAM exactly once on the last frame, nothing after close; non-trivial = window starvation occurred; distinct as C01",
		Assumptions: []string{"a frame logged before the first quiescent point after a close may legitimately have been in flight"},
		Floor:       15,
	})
}

func TestVerifC03(t *testing.T) {
	r := vlib.Start(t, "C03")
	runFamily(t, r, "C03", "client-mixed", r.N(300, 6000)/light())
	runFamily(t, r, "C03", "server-mixed", r.N(300, 6000)/light())
	runRR(t, r, r.N(60, 1200)/light())
	r.Finish(vlib.Spec{
		Level:       "exploration",
		Rule:        "C01's scenarios judged at every synctest quiescent point: a live stream with submitted-but-unsent bytes, positive stream credit and positive connection credit is a lost wake-up; plus a round-robin family (N backlogged streams, unlimited stream credit, dribbled connection credit: every window of N consecutive DATA frames holds each stream once); non-trivial = quiescent checks taken with pending data; distinct = (starved|stuck, last event) pairs + RR (N, grant pattern)",
		Assumptions: []string{"synctest.Wait() is exact quiescence: no goroutine of the transport can make progress without a new event"},
		Floor:       15,
	})
}

// light is the divisor applied to case counts in the -race step (the race
// detector makes bulk byte copies ~40x slower); VERIF_LIGHT=1 also scales the
// message sizes down.
func light() int {
	if os.Getenv("VERIF_LIGHT") != "" {
		return 12
	}
	return 1
}
