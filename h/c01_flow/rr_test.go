package c01flow

import (
	"fmt"
	"testing"
	"testing/synctest"

	"google.golang.org/grpc/verif/vlib"
)

// runRR: N streams each with one large message (whole message queued in the
// writer at once), huge stream windows, connection credit dribbled.  While all
// N streams are backlogged every window of N consecutive non-empty DATA
// frames must contain each stream exactly once.
func runRR(t *testing.T, r *vlib.Run, n int) {
	const fam = "round-robin"
	for i := 0; i < n; i++ {
		if !r.Want(fam, i) {
			continue
		}
		rng := r.Rand(fam, i)
		ns := 2 + rng.Intn(7)
		sc := scenario{Family: fam, IWS0: 1 << 24}
		for s := 0; s < ns; s++ {
			sc.Msgs = append(sc.Msgs, []int{ns*65536 + rng.Intn(100000)})
			sc.BigHdr = append(sc.BigHdr, 0)
		}
		// the initial 65535 bytes of connection credit are consumed first; then dribble
		ng := 10 + rng.Intn(30)
		for k := 0; k < ng; k++ {
			g := vlib.Pick(rng, uint32(1), 100, 16384, 16383, 16385, 30000, 65536, uint32(1+rng.Intn(100000)))
			sc.Steps = append(sc.Steps, step{K: kConnGrant, N: g})
		}
		r.Progress(fam, i, fmt.Sprintf("streams=%d grants=%d", ns, ng))
		var out *outcome
		synctest.Test(t, func(t *testing.T) { out = runClientSendRR(sc) })
		report(r, "C03", fam, i, sc, out)
	}
}

func runClientSendRR(sc scenario) *outcome {
	out := runClientSendOpt(sc, true)
	return out
}
