// Direction (b): a real grpc SERVER is the DATA sender (handlers stream
// responses), the scripted HTTP/2 client owns the windows.
package c01flow

import (
	"bytes"
	"fmt"
	"sort"
	"strconv"
	"sync"
	"testing/synctest"
	"time"

	"golang.org/x/net/http2"
	"google.golang.org/grpc"
	"google.golang.org/grpc/codes"
	"google.golang.org/grpc/metadata"
	"google.golang.org/grpc/status"
	"google.golang.org/grpc/verif/wire"
)

// feedServer audits frames sent by the server under test.
func (rn *runner) feedServer() {
	log := rn.peer.LogFrom(rn.fed)
	for i := range log {
		e := &log[i]
		if why := rn.led.Feed(e); why != "" {
			rn.viol("C01", "window-exceeded", "%s at %s", why, e.String())
		}
		if e.Dir != wire.In {
			continue
		}
		w := rn.ws[e.Stream]
		switch e.Type {
		case http2.FrameHeaders:
			if w == nil {
				rn.viol("C02", "headers-unknown-stream", "HEADERS on a stream the client never opened: %s", e.String())
				break
			}
			if w.rstIn {
				rn.viol("C02", "frame-after-own-rst", "HEADERS on stream %d after the server itself reset it: %s", e.Stream, e.String())
			}
			if w.closedAt != 0 && e.Seq >= w.closedAt {
				rn.viol("C02", "frame-after-close", "HEADERS for stream %d after it was closed and the connection quiescent: %s", e.Stream, e.String())
			}
			if w.endStream > 0 {
				rn.viol("C02", "headers-after-trailers", "HEADERS after trailers on stream %d: %s", e.Stream, e.String())
			}
			w.hdrs++
			if e.EndStream() {
				w.endStream++
				w.endSeq = e.Seq
				if v, ok := e.Field("grpc-status"); ok {
					w.status, _ = strconv.Atoi(v)
				} else {
					rn.viol("C02", "trailers-without-status", "END_STREAM HEADERS without grpc-status on stream %d: %s", e.Stream, e.String())
				}
			}
		case http2.FrameData:
			if w == nil {
				rn.viol("C02", "data-unknown-stream", "DATA on a stream the client never opened: %s", e.String())
				break
			}
			if w.closedAt != 0 && e.Seq >= w.closedAt {
				rn.viol("C02", "frame-after-close", "DATA for stream %d after it was closed and the connection quiescent: %s", e.Stream, e.String())
			}
			if w.endStream > 0 {
				rn.viol("C02", "data-after-trailers", "DATA after trailers on stream %d: %s", e.Stream, e.String())
			}
			if w.rstIn {
				rn.viol("C02", "frame-after-own-rst", "DATA on stream %d after the server itself reset it: %s", e.Stream, e.String())
			}
			if w.hdrs == 0 {
				rn.viol("C02", "data-before-headers", "DATA before response HEADERS on stream %d: %s", e.Stream, e.String())
			}
			if e.EndStream() {
				rn.viol("C02", "server-data-endstream", "server DATA frame carries END_STREAM on stream %d: %s", e.Stream, e.String())
			}
			w.data = append(w.data, e.Data...)
			if len(e.Data) > 0 {
				rn.dataOrder = append(rn.dataOrder, e.Stream)
			}
		case http2.FrameRSTStream:
			if w != nil {
				deadline := w.idx < len(rn.sc.DeadlineRace) && rn.sc.DeadlineRace[w.idx] > 0
				switch {
				case w.endStream > 0 && !w.rstIn && e.Code == http2.ErrCodeNo:
					w.rstAfterTrailers++ // RFC 9113 §8.1: legitimate after a complete response
				case w.endStream > 0 && deadline:
					// the stream's deadline timer fired as the handler returned: closeStream queues a
					// cleanupStream with rst=true although finishStream already ended the stream
					rn.viol("C02", "rst-after-trailers:deadline-fires-as-handler-returns", "RST_STREAM(%v) on stream %d after its trailers (and %d earlier RST): %s", e.Code, e.Stream, w.rstAfterTrailers, e.String())
				case w.endStream > 0:
					rn.viol("C02", "rst-after-trailers", "RST_STREAM(%v) after trailers on stream %d (second or non-NO_ERROR): %s", e.Code, e.Stream, e.String())
				}
				w.rstIn = true
			}
		}
	}
	rn.fed += len(log)
}

func (rn *runner) quiesceServer(last string) {
	synctest.Wait()
	rn.feedServer()
	rn.quiescentChecks++
	for _, w := range rn.ws {
		if w.closedAt == 0 && (w.rstIn || w.rstOut || w.endStream > 0) {
			w.closedAt = rn.fed
		}
	}
	rn.rec.mu.Lock()
	defer rn.rec.mu.Unlock()
	for _, a := range rn.rec.st {
		w := rn.byIdx[a.idx]
		if w == nil {
			continue
		}
		exp := a.all[:a.cum[a.attempted]]
		if len(w.data) > len(exp) || !bytes.Equal(exp[w.verified:len(w.data)], w.data[w.verified:]) {
			rn.viol("C02", "bytes-not-prefix", "stream %d (handler %d): %d wire bytes are not a prefix of the %d bytes the handler wrote (first diff at %d)", w.id, a.idx, len(w.data), len(exp), firstDiff(exp, w.data))
		} else {
			w.verified = len(w.data)
		}
		alive := !w.rstIn && !w.rstOut && w.endStream == 0
		if !alive {
			continue
		}
		pendingData := len(exp) > len(w.data)
		pendingTrailers := a.done && a.sendErr == nil && len(exp) == len(w.data)
		if pendingData {
			rn.pendingChecks++
			sc, cc := rn.led.StreamCredit(w.id), rn.led.Conn
			state := "srv-starved"
			if sc > 0 && cc > 0 {
				state = "STUCK"
				rn.viol("C03", "stuck-with-credit", "after %q: server stream %d (handler %d) has %d of %d submitted bytes on the wire, stream credit %d and connection credit %d are positive, yet the connection is quiescent", last, w.id, a.idx, len(w.data), len(exp), sc, cc)
			}
			rn.pairs[state+"/"+last] = true
		} else if pendingTrailers {
			rn.viol("C03", "trailers-stuck", "after %q: handler %d returned and all %d bytes are on the wire but the trailers of stream %d were not written at quiescence", last, a.idx, len(w.data), w.id)
		}
	}
}

// runServerSend executes one scenario against a real grpc.Server.
func runServerSend(sc scenario) *outcome {
	out := &outcome{counters: map[string]int64{}}
	rn := &runner{sc: sc, led: wire.NewSendLedger(), rec: &recorder{}, ws: map[uint32]*wireStream{}, byIdx: map[int]*wireStream{}, out: out, pairs: map[string]bool{}}
	for s, sizes := range sc.Msgs {
		a := &appStream{idx: s, cum: []int{0}}
		for i, n := range sizes {
			m := wire.Msg(pattern(s, i, n))
			a.msgs = append(a.msgs, m)
			a.all = append(a.all, m...)
			a.cum = append(a.cum, len(a.all))
		}
		rn.rec.st = append(rn.rec.st, a)
	}
	var hwg sync.WaitGroup
	handler := func(_ any, ss grpc.ServerStream) error {
		hwg.Add(1)
		defer hwg.Done()
		md, _ := metadata.FromIncomingContext(ss.Context())
		s, err := strconv.Atoi(first(md.Get("x-sid")))
		if err != nil || s < 0 || s >= len(rn.rec.st) {
			return status.Error(codes.InvalidArgument, "no x-sid")
		}
		defer rn.rec.with(s, func(a *appStream) { a.done = true })
		if sc.BigHdr[s] > 0 {
			ss.SetHeader(metadata.Pairs("x-big", string(bytes.Repeat([]byte{'h'}, sc.BigHdr[s]))))
		}
		a := rn.rec.st[s]
		if s < len(sc.DeadlineRace) && sc.DeadlineRace[s] > 0 {
			// first write at exactly the instant the stream's own deadline timer
			// fires: the server's RST_STREAM races with the response headers
			time.Sleep(time.Duration(sc.DeadlineRace[s]) * time.Millisecond)
		}
		for i := range a.msgs {
			rn.rec.with(s, func(a *appStream) { a.attempted = i + 1 })
			if err := ss.SendMsg(a.msgs[i][5:]); err != nil {
				rn.rec.with(s, func(a *appStream) { a.sendErr = err })
				return err
			}
			rn.rec.with(s, func(a *appStream) { a.okSent = i + 1 })
		}
		if s%3 == 2 {
			return status.Error(codes.Code(3+s%10), "handler status")
		}
		return nil
	}
	fx := wire.NewServerFixture(handler, grpc.MaxHeaderListSize(1<<20))
	fx.Serve()
	peer, err := fx.Connect()
	if err != nil {
		out.violations = append(out.violations, violation{"C01", "harness", "connect: " + err.Error()})
		return out
	}
	rn.peer = peer
	if err := peer.Start(http2.Setting{ID: http2.SettingInitialWindowSize, Val: sc.IWS0}); err != nil {
		out.violations = append(out.violations, violation{"C01", "harness", "peer start: " + err.Error()})
		return out
	}
	synctest.Wait()
	races := 0
	for s := range sc.Msgs {
		id := uint32(1 + 2*s)
		w := &wireStream{id: id, idx: s}
		rn.ws[id] = w
		rn.byIdx[s] = w
		// half of the calls half-close at once, the others leave the request side open
		hdrs := wire.RequestHeaders("/verif.Flow/Recv", wire.F("x-sid", strconv.Itoa(s)))
		if s < len(sc.DeadlineRace) && sc.DeadlineRace[s] > 0 {
			hdrs = append(hdrs, wire.F("grpc-timeout", strconv.Itoa(sc.DeadlineRace[s])+"m"))
			races++
		}
		peer.WriteHeaders(id, s%2 == 0, 0, hdrs...)
	}
	rn.quiesceServer("start")
	if races > 0 {
		time.Sleep(10 * time.Millisecond) // lets the deadlines and the sleeping handlers fire together
		rn.quiesceServer("deadline-race")
		out.counters["deadline_race_streams"] += int64(races)
	}
	for _, st := range sc.Steps {
		label := string(st.K)
		switch st.K {
		case kConnGrant:
			if rn.led.Conn+int64(st.N) > 1<<31-1 {
				continue
			}
			peer.WriteWindowUpdate(0, st.N)
		case kStreamGrant:
			w := rn.byIdx[st.S]
			if w == nil || rn.led.StreamCredit(w.id)+int64(st.N) > 1<<31-1 {
				continue
			}
			if w.closedAt != 0 || w.rstIn || w.rstOut || w.endStream > 0 {
				label = "late-stream+"
			}
			peer.WriteWindowUpdate(w.id, st.N)
		case kSettings:
			ok := true
			for _, w := range rn.ws {
				if int64(st.N)+(rn.led.StreamCredit(w.id)-rn.led.IWS) > 1<<31-1 {
					ok = false
				}
			}
			if !ok {
				continue
			}
			if int64(st.N) < rn.led.IWS {
				label += "shrink"
			} else {
				label += "raise"
			}
			peer.WriteSettings(http2.Setting{ID: http2.SettingInitialWindowSize, Val: st.N})
		case kPeerRST, kAppCancel:
			w := rn.byIdx[st.S]
			if w == nil || w.rstOut || w.closedAt != 0 {
				continue
			}
			w.rstOut = true
			label = "peer-rst"
			peer.WriteRST(w.id, http2.ErrCodeCancel)
		case kPeerFinish:
			// client half-closes the request side (empty DATA with END_STREAM) if still open
			w := rn.byIdx[st.S]
			if w == nil || st.S%2 == 0 || w.halfClosed || w.rstOut || w.closedAt != 0 {
				continue
			}
			w.halfClosed = true
			label = "peer-half-close"
			peer.WriteData(w.id, nil, true, -1)
		case kNop:
		}
		rn.quiesceServer(label)
	}
	total := 0
	for _, a := range rn.rec.st {
		total += len(a.all)
	}
	rounds := total/(1<<20) + 6
	for r := 0; r < rounds; r++ {
		allDone := true
		for _, w := range rn.ws {
			if !(w.rstIn || w.rstOut || w.endStream > 0) {
				allDone = false
			}
		}
		if allDone {
			break
		}
		if r == 0 && rn.led.IWS < 1<<20 {
			peer.WriteSettings(http2.Setting{ID: http2.SettingInitialWindowSize, Val: 1 << 20})
			rn.quiesceServer("drain-iws-raise")
		}
		if rn.led.Conn < 1<<20 {
			peer.WriteWindowUpdate(0, 1<<20)
		}
		for _, w := range rn.ws {
			if w.closedAt == 0 && !w.rstOut && !w.rstIn && w.endStream == 0 && rn.led.StreamCredit(w.id) < 1<<20 {
				peer.WriteWindowUpdate(w.id, 1<<20)
			}
		}
		rn.quiesceServer("drain-grant")
	}
	// final: completeness and trailer placement
	rn.rec.mu.Lock()
	for _, a := range rn.rec.st {
		w := rn.byIdx[a.idx]
		if w.rstOut || w.rstIn && w.endStream == 0 {
			continue
		}
		if !a.done {
			rn.viol("C03", "app-never-finished", "handler %d still blocked after the drain phase granted ample credit (attempted=%d ok=%d)", a.idx, a.attempted, a.okSent)
			continue
		}
		if w.endStream != 1 {
			rn.viol("C02", "trailers-count", "undisturbed server stream %d (handler %d, returned) carries %d trailers", w.id, a.idx, w.endStream)
			continue
		}
		okb := a.all[:a.cum[a.okSent]]
		if !bytes.Equal(w.data, okb) {
			rn.viol("C02", "bytes-incomplete", "server stream %d (handler %d) sent trailers after %d DATA bytes but the handler wrote %d (first diff %d)", w.id, a.idx, len(w.data), len(okb), firstDiff(okb, w.data))
		}
		want := 0
		if a.idx%3 == 2 {
			want = 3 + a.idx%10
		}
		if a.sendErr == nil && w.status != want {
			rn.viol("C02", "wrong-status", "server stream %d (handler %d): trailers carry grpc-status %d, handler returned %d", w.id, a.idx, w.status, want)
		}
		rn.out.counters["rst_no_error_after_trailers"] += int64(w.rstAfterTrailers)
	}
	rn.rec.mu.Unlock()
	peer.Close()
	fx.S.Stop()
	<-peer.Done()
	hwg.Wait()
	out.counters["frames_in"] = int64(rn.fed)
	out.counters["data_frames"] = rn.led.DataFrames
	out.counters["data_bytes"] = rn.led.DataBytes
	out.counters["conn_credit_zero_events"] = rn.led.ConnZero
	out.counters["stream_credit_zero_events"] = rn.led.StreamZero
	out.counters["iws_shrinks"] = rn.led.Shrinks
	out.counters["negative_window_episodes"] = rn.led.NegativeEpisodes
	out.counters["quiescent_checks"] = rn.quiescentChecks
	out.counters["quiescent_checks_with_pending_data"] = rn.pendingChecks
	var ps []string
	for p := range rn.pairs {
		ps = append(ps, p)
	}
	sort.Strings(ps)
	out.sig = fmt.Sprintf("srv z%d/%d sh%d neg%d %v", min64(rn.led.ConnZero, 3), min64(rn.led.StreamZero, 3), min64(rn.led.Shrinks, 2), min64(rn.led.NegativeEpisodes, 2), ps)
	if rn.led.ConnZero+rn.led.StreamZero+rn.led.NegativeEpisodes == 0 {
		out.sig = ""
	}
	return out
}

func first(v []string) string {
	if len(v) == 0 {
		return ""
	}
	return v[0]
}
