//go:build race

package c57

const raceEnabled = true
