// C57: internal/cache.TimeoutCache (cache_test.go, synctest bubbles),
// grpcsync.Event and grpcsync.RefCounted (this file): fire / clean up exactly
// once.  Verdicts are safety facts about finished histories or about values the
// harness itself holds (a reference it owns), never about wall-clock time.
package c57

import (
	"fmt"
	"math/rand"
	"runtime"
	"sync"
	"sync/atomic"
	"testing"
	"time"

	"google.golang.org/grpc/internal/grpcsync"
	"google.golang.org/grpc/verif/hist"
	"google.golang.org/grpc/verif/vlib"
)

func bucket(n int) int {
	b := 0
	for n > 0 {
		n /= 4
		b++
	}
	return b
}

func b2i(b bool) int {
	if b {
		return 1
	}
	return 0
}

var spinSink atomic.Int64

func spin(n int) {
	var x int64
	for i := 0; i < n; i++ {
		x += int64(i)
	}
	spinSink.Add(x & 1)
}

type barrier struct {
	n     int32
	ready atomic.Int32
}

func (b *barrier) wait() {
	b.ready.Add(1)
	for b.ready.Load() < b.n {
		runtime.Gosched()
	}
}

func forCases(r *vlib.Run, fam string, n, par int, f func(i int, rng *rand.Rand)) {
	var wg sync.WaitGroup
	ch := make(chan int)
	for w := 0; w < par; w++ {
		wg.Add(1)
		go func() {
			defer wg.Done()
			for i := range ch {
				f(i, r.Rand(fam, i))
			}
		}()
	}
	for i := 0; i < n; i++ {
		if r.Want(fam, i) {
			ch <- i
		}
	}
	close(ch)
	wg.Wait()
}

func TestVerifC57(t *testing.T) {
	r := vlib.Start(t, "C57")
	stop := r.Watchdog(time.Duration(r.N(8, 35)) * time.Minute)
	defer stop()
	mode := "norace"
	if raceEnabled {
		mode = "race"
	}
	timed := func(name string, f func()) {
		t0 := time.Now()
		f()
		r.Count("wall_ms_"+name, time.Since(t0).Milliseconds())
	}
	// Event and RefCounted storms run beside the (sequential) bubbles so the
	// bubbles' same-instant goroutines also meet a busy scheduler.
	var side sync.WaitGroup
	side.Add(1)
	go func() {
		defer side.Done()
		timed("event", func() { runEvent(r, mode) })
		timed("refcount", func() { runRefCounted(r, mode) })
	}()
	timed("cache", func() { runCache(t, r, mode) })
	side.Wait()
	r.Finish(vlib.Spec{
		Level: "exploration",
		Rule: "(" + mode + " build) cache: PRNG programs of 3-5 goroutines (Add/Remove on 1-3 keys, one Clear caller) in synctest bubbles, sleeps on a half-timeout grid so calls coincide with expiry timers at the same virtual instant; " +
			"judged per entry (callback <=1, never with Remove, expiry exactly at Add+timeout) and per key with porcupine (entry leaves by exactly one of Remove/expiry/Clear). " +
			"event: 2-16 firers released by a spin barrier. refcount: 2-6 workers running ownership-respecting Increment/TryIncrement/Decrement programs with speculative TryIncrement by non-owners. " +
			"non-trivial: a call fell on an expiry instant / Fire calls overlapped / a TryIncrement overlapped the final Decrement or failed; distinct = (family, mode, size, overlap bucket, outcome classes)",
		Assumptions: []string{
			"virtual time inside synctest bubbles is exact; goroutines woken at the same instant are scheduled by the real Go scheduler (sampled, not enumerated)",
			"the callback's origin (Clear vs expiry timer) is read from its call stack",
			"Event: Done() must be closed once the Fire that returned true has returned (the doc comment allows a false-returning Fire to return earlier)",
			"porcupine v1.3.0, 60 s budget per history (timeout => inconclusive)",
		},
		Floor: 25,
	})
}

// ---------------------------------------------------------------------------
// grpcsync.Event

type evViolation struct {
	Firers  int    `json:"firers"`
	Results []bool `json:"results,omitempty"`
	Note    string `json:"note,omitempty"`
}

func runEvent(r *vlib.Run, mode string) {
	const fam = "event"
	n := r.N(12000, 120000)
	if raceEnabled {
		n = r.N(6000, 60000)
	}
	forCases(r, fam, n, 3, func(i int, rng *rand.Rand) {
		firers := 2 + rng.Intn(15)
		e := grpcsync.NewEvent()
		r.Eval(1)
		if e.HasFired() {
			r.Violation("fired-before-fire", fam, i, evViolation{Firers: firers}, "HasFired() is true on a new Event")
		}
		select {
		case <-e.Done():
			r.Violation("fired-before-fire", fam, i, evViolation{Firers: firers}, "Done() is closed on a new Event")
		default:
		}
		res := make([]bool, firers)
		calls := make([]int64, firers)
		rets := make([]int64, firers)
		var notClosedAfterTrue, notFiredAfterReturn, panicked atomic.Int32
		bar := &barrier{n: int32(firers)}
		var wg sync.WaitGroup
		for f := 0; f < firers; f++ {
			wg.Add(1)
			go func(f int) {
				defer wg.Done()
				defer func() {
					if p := recover(); p != nil {
						panicked.Add(1)
					}
				}()
				bar.wait()
				calls[f] = hist.Tick()
				ok := e.Fire()
				rets[f] = hist.Tick()
				res[f] = ok
				if ok {
					select {
					case <-e.Done():
					default:
						notClosedAfterTrue.Add(1)
					}
				}
				if !e.HasFired() {
					notFiredAfterReturn.Add(1)
				}
			}(f)
		}
		wg.Wait()
		trues := 0
		for _, b := range res {
			if b {
				trues++
			}
		}
		det := evViolation{Firers: firers, Results: res}
		if panicked.Load() > 0 {
			r.Violation("fire-panicked", fam, i, det, "%d of %d concurrent Fire calls panicked (double close of the Done channel)", panicked.Load(), firers)
		} else if trues != 1 {
			r.Violation("fire-true-count", fam, i, det, "%d of %d concurrent Fire calls returned true, want exactly 1", trues, firers)
		}
		if notClosedAfterTrue.Load() > 0 {
			r.Violation("done-open-after-true-fire", fam, i, det, "Done() was still open after the Fire that returned true had returned")
		}
		if notFiredAfterReturn.Load() > 0 {
			r.Violation("hasfired-false-after-fire", fam, i, det, "HasFired() was false after a Fire call had returned")
		}
		select {
		case <-e.Done():
		default:
			r.Violation("done-open-after-fire", fam, i, det, "Done() is open after %d Fire calls returned", firers)
		}
		// overlap: how many Fire calls were invoked before the first one returned
		minRet := rets[0]
		for _, x := range rets {
			if x != 0 && x < minRet {
				minRet = x
			}
		}
		overl := 0
		for _, c := range calls {
			if c != 0 && c < minRet {
				overl++
			}
		}
		r.Count("event_fire_calls", int64(firers))
		r.Count("event_fires_overlapping_first_return", int64(overl))
		if overl >= 2 {
			r.Nontrivial(fmt.Sprintf("%s/event/n%d/ov%d", mode, firers, overl))
		}
	})
}

// ---------------------------------------------------------------------------
// grpcsync.RefCounted

type rcStep struct {
	Op   string `json:"op"` // inc | try | dec | spec (TryIncrement without owning a reference)
	Spin int    `json:"spin"`
}

type rcCfg struct {
	Workers [][]rcStep `json:"workers"` // worker 0 starts with the initial reference
}

type rcViolation struct {
	Cfg     rcCfg     `json:"cfg"`
	Witness any       `json:"witness,omitempty"`
	History []hist.Op `json:"history,omitempty"`
}

func genRC(rng *rand.Rand, i int) rcCfg {
	w := 2 + rng.Intn(5)
	var cfg rcCfg
	spinMax := vlib.Pick(rng, 0, 0, 10, 100)
	if i%2 == 0 {
		// "duel": the owner drops the last reference after a short PRNG delay while
		// the other workers keep taking and dropping speculative references, so a
		// TryIncrement runs next to the Decrement that reaches zero again and again
		// (whoever drops the count to zero, the others are still trying).
		owner := []rcStep{{Op: "dec", Spin: rng.Intn(400)}}
		if rng.Intn(2) == 0 {
			owner = []rcStep{{Op: "inc", Spin: rng.Intn(50)}, {Op: "dec", Spin: rng.Intn(200)}, {Op: "dec", Spin: rng.Intn(200)}}
		}
		cfg.Workers = append(cfg.Workers, owner)
		for k := 1; k < w; k++ {
			var steps []rcStep
			for s, n := 0, 2+rng.Intn(10); s < n; s++ {
				steps = append(steps, rcStep{Op: "spec", Spin: rng.Intn(spinMax + 1)}, rcStep{Op: "dec", Spin: rng.Intn(spinMax + 1)})
			}
			cfg.Workers = append(cfg.Workers, steps)
		}
		return cfg
	}
	for k := 0; k < w; k++ {
		n := 2 + rng.Intn(14)
		if i%3 == 0 { // owners release early while others speculate
			n = 2 + rng.Intn(4)
		}
		var steps []rcStep
		for s := 0; s < n; s++ {
			steps = append(steps, rcStep{Op: vlib.Pick(rng, "inc", "try", "dec", "dec", "spec", "spec"), Spin: rng.Intn(spinMax + 1)})
		}
		cfg.Workers = append(cfg.Workers, steps)
	}
	return cfg
}

func runRefCounted(r *vlib.Run, mode string) {
	const fam = "refcount"
	n := r.N(12000, 120000)
	if raceEnabled {
		n = r.N(6000, 60000)
	}
	forCases(r, fam, n, 3, func(i int, rng *rand.Rand) {
		cfg := genRC(rng, i)
		rcCase(r, mode, fam, i, cfg)
	})
}

func rcCase(r *vlib.Run, mode, fam string, ci int, cfg rcCfg) {
	r.Eval(1)
	rec := hist.NewRecorder()
	zl := rec.Client()
	var zeroRuns atomic.Int32
	var heldTotal atomic.Int64 // references the harness owns: +1 after an acquire returned, -1 before Decrement is invoked
	var heldAtZero atomic.Int64
	heldAtZero.Store(-1)
	rc := grpcsync.NewRefCounted(ci, func() {
		zl.Point("cleanup", "", nil)
		if zeroRuns.Add(1) == 1 {
			heldAtZero.Store(heldTotal.Load())
		}
	})
	heldTotal.Store(1)
	var cleanupWhileHeld, tryFailedWhileHeld atomic.Int32
	bar := &barrier{n: int32(len(cfg.Workers))}
	var wg sync.WaitGroup
	for w, steps := range cfg.Workers {
		l := rec.Client()
		wg.Add(1)
		go func(w int) {
			defer wg.Done()
			held := 0
			if w == 0 {
				held = 1
			}
			bar.wait()
			release := func() {
				// we own a reference: the cleanup cannot have run yet
				if zeroRuns.Load() != 0 {
					cleanupWhileHeld.Add(1)
				}
				held--
				heldTotal.Add(-1)
				h := l.Call("dec", "", nil)
				rc.Decrement()
				l.Return(h, nil)
			}
			for _, st := range steps {
				spin(st.Spin)
				switch {
				case st.Op == "dec" && held > 0:
					release()
				case st.Op == "inc" && held > 0:
					h := l.Call("inc", "", nil)
					rc.Increment()
					l.Return(h, nil)
					held++
					heldTotal.Add(1)
				case st.Op == "try" && held > 0:
					h := l.Call("try-owned", "", nil)
					ok := rc.TryIncrement()
					l.Return(h, ok)
					if ok {
						held++
						heldTotal.Add(1)
					} else {
						tryFailedWhileHeld.Add(1)
					}
				case st.Op == "spec" && held == 0:
					h := l.Call("try", "", nil)
					ok := rc.TryIncrement()
					l.Return(h, ok)
					if ok {
						held++
						heldTotal.Add(1)
						if zeroRuns.Load() != 0 {
							cleanupWhileHeld.Add(1)
						}
					}
				}
			}
			for held > 0 {
				release()
			}
		}(w)
	}
	wg.Wait()
	ops := rec.Ops()
	viol := func(key string, witness any, format string, a ...any) {
		r.Violation(key, fam, ci, rcViolation{Cfg: cfg, Witness: witness, History: ops}, format, a...)
	}
	switch z := zeroRuns.Load(); {
	case z == 0:
		viol("cleanup-not-run", nil, "every reference was released (harness holds %d) but the cleanup never ran", heldTotal.Load())
	case z > 1:
		viol("cleanup-ran-twice", nil, "the cleanup ran %d times", z)
	}
	if h := heldAtZero.Load(); h > 0 {
		viol("cleanup-while-referenced", h, "the cleanup ran while the harness still owned %d reference(s)", h)
	}
	if cleanupWhileHeld.Load() > 0 {
		viol("cleanup-while-referenced", nil, "a worker that owned a reference observed that the cleanup had already run (%d times)", cleanupWhileHeld.Load())
	}
	if tryFailedWhileHeld.Load() > 0 {
		viol("tryincrement-failed-while-owned", nil, "TryIncrement returned false for a worker that owned a reference")
	}
	// nothing is acquired after the cleanup; a failed TryIncrement is final
	var cleanupAt, firstFalseRet int64
	for _, o := range ops {
		if o.Kind == "cleanup" && cleanupAt == 0 {
			cleanupAt = o.Call
		}
		if o.Kind == "try" && o.Out == false && (firstFalseRet == 0 || o.Ret < firstFalseRet) {
			firstFalseRet = o.Ret
		}
	}
	specOK, specFail, overlapFinal := 0, 0, 0
	for _, o := range ops {
		if o.Kind != "try" && o.Kind != "try-owned" {
			continue
		}
		ok := o.Out == true
		if o.Kind == "try" {
			if ok {
				specOK++
			} else {
				specFail++
			}
		}
		if ok && cleanupAt != 0 && o.Call > cleanupAt {
			viol("acquired-after-cleanup", o, "TryIncrement invoked at stamp %d, after the cleanup ran (stamp %d), returned true", o.Call, cleanupAt)
		}
		if ok && firstFalseRet != 0 && o.Call > firstFalseRet {
			viol("acquired-after-refusal", o, "TryIncrement returned true although an earlier TryIncrement (returned at stamp %d) had already reported the resource dead", firstFalseRet)
		}
		if cleanupAt != 0 && o.Call < cleanupAt && o.Ret > cleanupAt {
			overlapFinal++
		}
	}
	r.Count("rc_ops", int64(len(ops)))
	r.Count("rc_speculative_try_ok", int64(specOK))
	r.Count("rc_speculative_try_refused", int64(specFail))
	r.Count("rc_try_overlapping_cleanup", int64(overlapFinal))
	if overlapFinal > 0 || specFail > 0 && specOK > 0 {
		r.Nontrivial(fmt.Sprintf("%s/rc/w%d/ov%d/ok%d/ref%d", mode, len(cfg.Workers), bucket(overlapFinal), bucket(specOK), bucket(specFail)))
	}
	if ci < 1 {
		r.Sample(map[string]any{"family": fam, "case": ci, "cfg": cfg, "spec_ok": specOK, "spec_refused": specFail})
	}
}
