package c57

import (
	"fmt"
	"math/rand"
	"runtime"
	"strings"
	"sync"
	"testing"
	"testing/synctest"
	"time"

	"github.com/anishathalye/porcupine"
	"google.golang.org/grpc/internal/cache"
	"google.golang.org/grpc/verif/hist"
	"google.golang.org/grpc/verif/vlib"
)

// The cache family runs inside synctest bubbles.  All sleeps are multiples of
// half the cache timeout (plus, sometimes, +-1ns), so Add / Remove / Clear calls
// of different goroutines and the expiry timers of earlier entries fall on the
// same virtual instants: goroutines woken at one instant really run in
// parallel, which is what puts Remove next to a timer that has already fired.

const cacheTimeout = 10 * time.Millisecond

type cacheStep struct {
	SleepHalves int    `json:"sleep_half_timeouts"`
	Nudge       int    `json:"nudge_ns"` // -1, 0, +1
	Op          string `json:"op"`       // add | remove | clear_cb | clear_nocb
	Key         string `json:"key,omitempty"`
}

type cacheCfg struct {
	Keys   int           `json:"keys"`
	Actors [][]cacheStep `json:"actors"` // the last actor is the only one that calls Clear
}

type cacheViolation struct {
	Cfg     cacheCfg  `json:"cfg"`
	Witness any       `json:"witness,omitempty"`
	History []hist.Op `json:"history,omitempty"`
}

type addOut struct {
	Item int64 `json:"item"`
	OK   bool  `json:"ok"`
}

type cbIn struct {
	Entry  int64  `json:"entry"`
	Origin string `json:"origin"` // expiry | clear
}

func genCacheCfg(rng *rand.Rand, i int) cacheCfg {
	cfg := cacheCfg{Keys: 1 + rng.Intn(3)}
	actors := 2 + rng.Intn(3)
	if i%4 == 0 { // must-hit prefix: one key, add then remove exactly one timeout later
		cfg.Keys = 1
	}
	key := func() string { return fmt.Sprintf("k%d", rng.Intn(cfg.Keys)) }
	for a := 0; a < actors; a++ {
		var steps []cacheStep
		n := 3 + rng.Intn(6)
		for s := 0; s < n; s++ {
			st := cacheStep{SleepHalves: vlib.Pick(rng, 0, 0, 1, 2, 2, 2, 3, 4), Key: key()}
			if rng.Intn(8) == 0 {
				st.Nudge = vlib.Pick(rng, -1, 1)
			}
			switch {
			case a == 0:
				st.Op = vlib.Pick(rng, "add", "add", "add", "remove")
			case a == 1:
				st.Op = vlib.Pick(rng, "remove", "remove", "remove", "add")
			default:
				st.Op = vlib.Pick(rng, "add", "remove")
			}
			steps = append(steps, st)
		}
		cfg.Actors = append(cfg.Actors, steps)
	}
	// the clearer
	var steps []cacheStep
	for s, n := 0, rng.Intn(3); s < n; s++ {
		steps = append(steps, cacheStep{SleepHalves: 1 + rng.Intn(6), Op: vlib.Pick(rng, "clear_cb", "clear_nocb")})
	}
	cfg.Actors = append(cfg.Actors, steps)
	return cfg
}

// callbackOrigin tells whether the cache invoked the callback from Clear (it
// runs synchronously on Clear's stack) or from the expiry timer.
func callbackOrigin() string {
	var pcs [24]uintptr
	n := runtime.Callers(2, pcs[:])
	fr := runtime.CallersFrames(pcs[:n])
	for {
		f, more := fr.Next()
		if strings.HasSuffix(f.Function, "(*TimeoutCache).Clear") {
			return "clear"
		}
		if !more {
			return "expiry"
		}
	}
}

func runCache(t *testing.T, r *vlib.Run, mode string) {
	const fam = "cache"
	n := r.N(2500, 25000)
	if raceEnabled {
		n = r.N(1500, 12000)
	}
	for i := 0; i < n; i++ {
		if !r.Want(fam, i) {
			continue
		}
		rng := r.Rand(fam, i)
		cfg := genCacheCfg(rng, i)
		var ops []hist.Op
		synctest.Test(t, func(t *testing.T) {
			ops = cacheBubble(cfg)
		})
		judgeCache(r, mode, fam, i, cfg, ops)
	}
}

func vnow() int64 { return time.Now().UnixNano() }

// cacheBubble executes the program against the real TimeoutCache in virtual
// time and returns the recorded history.
func cacheBubble(cfg cacheCfg) []hist.Op {
	c := cache.NewTimeoutCache(cacheTimeout)
	rec := hist.NewRecorder()
	cbLog := rec.Client()
	var nextEntry int64
	var idMu sync.Mutex
	newEntry := func() int64 { idMu.Lock(); defer idMu.Unlock(); nextEntry++; return nextEntry }
	var wg sync.WaitGroup
	for a, steps := range cfg.Actors {
		l := rec.Client()
		clearer := a == len(cfg.Actors)-1
		wg.Add(1)
		go func() {
			defer wg.Done()
			for _, st := range steps {
				time.Sleep(time.Duration(st.SleepHalves)*cacheTimeout/2 + time.Duration(st.Nudge))
				switch st.Op {
				case "add":
					id := newEntry()
					key := st.Key
					h := l.CallVT("add", key, id, vnow())
					got, ok := c.Add(key, id, func() {
						cbLog.PointVT("cb", key, cbIn{Entry: id, Origin: callbackOrigin()}, vnow())
					})
					l.Return(h, addOut{Item: got.(int64), OK: ok})
				case "remove":
					h := l.CallVT("remove", st.Key, nil, vnow())
					got, ok := c.Remove(st.Key)
					out := addOut{OK: ok}
					if ok {
						out.Item = got.(int64)
					}
					l.Return(h, out)
				case "clear_cb", "clear_nocb":
					if !clearer {
						continue
					}
					h := l.CallVT(st.Op, "", nil, vnow())
					c.Clear(st.Op == "clear_cb")
					l.Return(h, nil)
				}
			}
		}()
	}
	wg.Wait()
	// let every remaining timer expire, reach exact quiescence, then probe
	time.Sleep(2*cacheTimeout + 1)
	synctest.Wait()
	pl := rec.Client()
	for k := 0; k < cfg.Keys; k++ {
		key := fmt.Sprintf("k%d", k)
		h := pl.CallVT("remove", key, "final-probe", vnow())
		got, ok := c.Remove(key)
		out := addOut{OK: ok}
		if ok {
			out.Item = got.(int64)
		}
		pl.Return(h, out)
	}
	h := pl.CallVT("len", "", nil, vnow())
	pl.Return(h, c.Len())
	return rec.Ops()
}

// cacheKeyModel is the per-key sequential specification written from the
// statement: a key holds at most one entry; Add on an occupied key returns the
// existing item; Remove takes the entry (and is the only one to get it); an
// entry leaves the cache by exactly one of Remove / expiry callback / Clear.
// State: id of the entry held by the key (0 = none).
var cacheKeyModel = porcupine.Model{
	Partition: hist.PartitionByKey,
	Init:      func() any { return int64(0) },
	Step: func(st, in, out any) (bool, any) {
		cur := st.(int64)
		op := in.(hist.Op)
		switch op.Kind {
		case "add":
			o := out.(addOut)
			id := op.In.(int64)
			if cur == 0 {
				return o.OK && o.Item == id, id
			}
			return !o.OK && o.Item == cur, cur
		case "remove":
			o := out.(addOut)
			if cur == 0 {
				return !o.OK, cur
			}
			return o.OK && o.Item == cur, int64(0)
		case "expire": // synthetic: the expiry callback of entry In ran
			return cur == op.In.(int64), int64(0)
		case "clear_cb": // projected on this key; Out = entry whose callback this Clear ran (0 = none)
			return cur == out.(int64), int64(0)
		case "clear_nocb":
			return true, int64(0)
		}
		return false, cur
	},
}

func judgeCache(r *vlib.Run, mode, fam string, ci int, cfg cacheCfg, ops []hist.Op) {
	r.Eval(1)
	viol := func(key string, witness any, format string, a ...any) {
		r.Violation(key, fam, ci, cacheViolation{Cfg: cfg, Witness: witness, History: ops}, format, a...)
	}
	type entry struct {
		key               string
		addVT             int64
		addRet            int64
		cbs               []hist.Op
		removedBy         []hist.Op
		expiryCb, clearCb int
	}
	entries := map[int64]*entry{}
	for _, o := range ops {
		if o.Kind == "add" && o.Out.(addOut).OK {
			entries[o.In.(int64)] = &entry{key: o.Key, addVT: o.VT, addRet: o.Ret}
		}
	}
	sameInstant := 0 // Remove / Clear calls at the very instant an entry expires
	nCb, nExpiry, nClearCb, nRemoved := 0, 0, 0, 0
	for _, o := range ops {
		switch o.Kind {
		case "cb":
			in := o.In.(cbIn)
			e := entries[in.Entry]
			if e == nil {
				viol("callback-of-unknown-entry", o, "callback ran for entry %d whose Add did not succeed", in.Entry)
				continue
			}
			nCb++
			e.cbs = append(e.cbs, o)
			if in.Origin == "clear" {
				e.clearCb++
				nClearCb++
			} else {
				e.expiryCb++
				nExpiry++
				if o.VT != e.addVT+int64(cacheTimeout) {
					viol("expiry-at-wrong-time", o, "expiry callback of entry %d ran at virtual +%v after its Add, timeout is %v", in.Entry, time.Duration(o.VT-e.addVT), cacheTimeout)
				}
			}
		case "remove":
			out := o.Out.(addOut)
			if out.OK {
				nRemoved++
				if e := entries[out.Item]; e != nil {
					e.removedBy = append(e.removedBy, o)
				} else {
					viol("removed-unknown-entry", o, "Remove(%s) returned item %d that no successful Add stored", o.Key, out.Item)
				}
			}
			for _, e := range entries {
				if e.key == o.Key && o.VT == e.addVT+int64(cacheTimeout) {
					sameInstant++
				}
			}
		case "clear_cb", "clear_nocb":
			for _, e := range entries {
				if o.VT == e.addVT+int64(cacheTimeout) {
					sameInstant++
				}
			}
		case "len":
			if o.Out.(int) != 0 {
				viol("entries-left-after-expiry", o, "Len() = %d after every timeout elapsed and the keys were probed", o.Out)
			}
		}
	}
	for id, e := range entries {
		if len(e.cbs) > 1 {
			viol("callback-ran-twice", e.cbs, "expiry callback of entry %d (%s) ran %d times", id, e.key, len(e.cbs))
		}
		if len(e.removedBy) > 1 {
			viol("entry-removed-twice", e.removedBy, "entry %d (%s) was returned by %d Remove calls", id, e.key, len(e.removedBy))
		}
		if len(e.removedBy) > 0 && len(e.cbs) > 0 {
			viol("callback-after-remove", []any{e.removedBy[0], e.cbs[0]}, "entry %d (%s) was returned by Remove and its callback ran as well (%s)", id, e.key, e.cbs[0].In.(cbIn).Origin)
		}
	}
	// ---- porcupine, per key.  Build the per-key history: real ops as recorded,
	// expiry callbacks as synthetic "expire" operations that were pending from
	// the first moment the virtual clock could have reached Add+timeout (the
	// largest stamp issued at an earlier virtual time is a sound lower bound)
	// until the callback was observed, and each Clear projected on every key.
	var lin []hist.Op
	keys := map[string]bool{}
	for k := 0; k < cfg.Keys; k++ {
		keys[fmt.Sprintf("k%d", k)] = true
	}
	lowerBound := func(vt int64) int64 {
		var lb int64
		for _, o := range ops {
			// VT is sampled just before the Call stamp is taken, and virtual time
			// cannot advance while the sampling goroutine is running
			if o.VT != 0 && o.VT < vt && o.Call > lb {
				lb = o.Call
			}
		}
		return lb
	}
	for _, o := range ops {
		switch o.Kind {
		case "add", "remove":
			lin = append(lin, o)
		case "cb":
			in := o.In.(cbIn)
			e := entries[in.Entry]
			if e == nil || in.Origin != "expiry" {
				continue
			}
			lin = append(lin, hist.Op{Client: 90, Kind: "expire", Key: o.Key, In: in.Entry, Call: lowerBound(e.addVT + int64(cacheTimeout)), Ret: o.Call})
		case "clear_cb", "clear_nocb":
			for k := range keys {
				p := hist.Op{Client: o.Client, Kind: o.Kind, Key: k, Call: o.Call, Ret: o.Ret, Out: int64(0)}
				if o.Kind == "clear_cb" {
					for _, c := range ops {
						if c.Kind == "cb" && c.Key == k && c.In.(cbIn).Origin == "clear" && c.Call > o.Call && c.Call < o.Ret {
							p.Out = c.In.(cbIn).Entry
						}
					}
				}
				lin = append(lin, p)
			}
		}
	}
	for i := range lin {
		if lin[i].Kind == "expire" && lin[i].Call == 0 {
			lin[i].Call = 1
		}
	}
	switch hist.CheckLinearizable(cacheKeyModel, lin) {
	case hist.NotLinearizable:
		viol("cache-history-not-linearizable", lin, "no sequential explanation: some entry was handed out by more than one of Remove / expiry / Clear, or by none, or an Add/Remove result contradicts the entries present")
	case hist.Unknown:
		r.Inconclusive("cache case %d: porcupine timed out on %d operations", ci, len(lin))
	default:
		r.Count("cache_porcupine_histories_ok", 1)
	}
	r.Count("cache_porcupine_ops", int64(len(lin)))
	r.Count("cache_entries_added", int64(len(entries)))
	r.Count("cache_callbacks", int64(nCb))
	r.Count("cache_callbacks_from_expiry", int64(nExpiry))
	r.Count("cache_callbacks_from_clear", int64(nClearCb))
	r.Count("cache_entries_removed", int64(nRemoved))
	r.Count("cache_calls_at_expiry_instant", int64(sameInstant))
	if sameInstant > 0 || (nRemoved > 0 && nExpiry > 0) {
		r.Nontrivial(fmt.Sprintf("%s/cache/k%d/a%d/same%d/rm%d/exp%d/clr%d", mode, cfg.Keys, len(cfg.Actors), bucket(sameInstant), b2i(nRemoved > 0), b2i(nExpiry > 0), b2i(nClearCb > 0)))
	}
	if ci < 2 {
		r.Sample(map[string]any{"family": fam, "case": ci, "cfg": cfg, "entries": len(entries), "callbacks": nCb, "removed": nRemoved, "calls_at_expiry_instant": sameInstant})
	}
}
