package msgfix

import (
	"bytes"
	"fmt"
	"io"

	"google.golang.org/grpc/codes"
	"google.golang.org/grpc/status"
)

// Finding is one oracle failure (key = stable class name).
type Finding struct{ Key, Msg string }

// Findings collects oracle failures and free counters of one case.
type Findings struct {
	V []Finding
	C map[string]int64
}

// NewFindings returns an empty collector.
func NewFindings() *Findings { return &Findings{C: map[string]int64{}} }

// Add records a failure.
func (f *Findings) Add(key, format string, a ...any) {
	f.V = append(f.V, Finding{key, fmt.Sprintf(format, a...)})
}

// CodeOf maps nil / io.EOF to OK and everything else through status.Code.
func CodeOf(err error) codes.Code {
	if err == nil || err == io.EOF {
		return codes.OK
	}
	return status.Code(err)
}

// Observed is what a receiving application saw on one stream.
type Observed struct {
	Who     string   // "server" | "client" (for messages)
	Msgs    [][]byte // messages RecvMsg returned, in order
	Err     error    // the error that ended the RecvMsg loop (io.EOF = clean)
	Done    bool     // the loop ended
	Invoked bool     // server: the handler ran at all
	// WireStatus is the grpc-status read from the wire for this RPC (-1 unknown).
	WireStatus int
	// Terminal: the input stream ended regularly (END_STREAM / trailers, no RST
	// from the sender), so the end of the loop can be judged too.
	Terminal bool
}

// PrefixOK checks that what was delivered is, byte for byte, a prefix of the
// acceptable messages (never a message the reference does not accept).
func (f *Findings) PrefixOK(ex Expect, ob Observed, rs RecvSide) bool {
	for i, m := range ob.Msgs {
		if i >= len(ex.Msgs) {
			key := "extra-message-delivered"
			switch ex.End {
			case EndTooLarge:
				key = "oversize-message-delivered"
			case EndBadFlag:
				key = "unknown-flag-delivered"
			case EndFlagIdentity, EndNoDecomp, EndUnsupported:
				key = "undecoded-message-delivered"
			case EndTruncBody, EndTruncHeader:
				key = "truncated-message-delivered"
			case EndCorrupt:
				key = "corrupt-message-delivered"
			}
			f.Add(key, "%s application received message %d (%d bytes) but the wire holds only %d acceptable messages and then %q (grpc-encoding %q, usable=%v, declared %d, inflated %d, limit %d)", ob.Who, i, len(m), len(ex.Msgs), ex.End, rs.Encoding, rs.Usable, ex.EndDeclared, ex.EndInflated, rs.Limit)
			return false
		}
		if !bytes.Equal(m, ex.Msgs[i]) {
			f.Add("delivered-bytes-differ", "%s application received message %d with %d bytes; decoding the wire with grpc-encoding %q gives %d bytes (first difference at %d)", ob.Who, i, len(m), rs.Encoding, len(ex.Msgs[i]), firstDiff(m, ex.Msgs[i]))
			return false
		}
	}
	return true
}

// JudgeRecv compares a receiver's observations with the reference.
func (f *Findings) JudgeRecv(ex Expect, ob Observed, rs RecvSide) {
	if !f.PrefixOK(ex, ob, rs) {
		return
	}
	if rs.Server && ex.End == EndUnsupported {
		if ob.WireStatus != int(codes.Unimplemented) {
			f.Add("unsupported-encoding-wrong-status", "request with grpc-encoding %q (no decompressor at the server) ended with wire grpc-status %d, want UNIMPLEMENTED(12); handler invoked=%v, delivered %d", rs.Encoding, ob.WireStatus, ob.Invoked, len(ob.Msgs))
		}
		return
	}
	if !ob.Terminal {
		return
	}
	if !ob.Done {
		f.Add("receiver-never-finished", "%s application still blocked in RecvMsg at quiescence after the stream ended (got %d messages, expected end %q)", ob.Who, len(ob.Msgs), ex.End)
		return
	}
	if len(ob.Msgs) < len(ex.Msgs) {
		f.Add("messages-lost", "%s application received %d of the %d acceptable messages before failing with %v (expected end %q, grpc-encoding %q, limit %d)", ob.Who, len(ob.Msgs), len(ex.Msgs), ob.Err, ex.End, rs.Encoding, rs.Limit)
		return
	}
	c := CodeOf(ob.Err)
	switch ex.End {
	case EndClean:
		// the caller judges the final status (it is the peer's trailers)
	case EndTooLarge:
		if ex.TooLargeAlsoTruncated && c != codes.OK {
			break
		}
		if c != codes.ResourceExhausted {
			f.Add("oversize-wrong-status", "%s: message declares %d bytes / inflates to %d with limit %d: RecvMsg ended with %v, want RESOURCE_EXHAUSTED", ob.Who, ex.EndDeclared, ex.EndInflated, rs.Limit, ob.Err)
		}
	case EndTruncBody:
		if c == codes.OK {
			f.Add("truncated-body-accepted", "%s: stream ended inside a payload declared as %d bytes, RecvMsg ended with %v", ob.Who, ex.EndDeclared, ob.Err)
		}
	case EndTruncHeader:
	case EndFlagIdentity:
		if c != codes.Internal && c != codes.Unimplemented {
			f.Add("compressed-flag-identity-wrong-status", "%s: compressed flag on a stream with grpc-encoding %q: RecvMsg ended with %v, want INTERNAL", ob.Who, rs.Encoding, ob.Err)
		}
	case EndNoDecomp:
		if c != codes.Internal {
			f.Add("unsupported-encoding-wrong-status", "%s: compressed message with grpc-encoding %q for which no decompressor exists: RecvMsg ended with %v, want INTERNAL", ob.Who, rs.Encoding, ob.Err)
		}
	case EndBadFlag, EndCorrupt:
		if c == codes.OK {
			f.Add("malformed-message-accepted", "%s: stream ends with %q but RecvMsg ended with %v", ob.Who, ex.End, ob.Err)
		}
	}
	if rs.Server && ex.End != EndClean && ob.WireStatus >= 0 && ob.WireStatus != int(c) {
		f.Add("wire-status-differs", "server handler returned the RecvMsg error %v (code %d) but the trailers carry grpc-status %d", ob.Err, c, ob.WireStatus)
	}
}

func firstDiff(a, b []byte) int {
	for i := 0; i < len(a) && i < len(b); i++ {
		if a[i] != b[i] {
			return i
		}
	}
	return min(len(a), len(b))
}

// SenderView is the result of reading one direction of a stream as a sender's
// output.
type SenderView struct {
	Encoding string   // grpc-encoding of the header block ("" absent)
	Plain    [][]byte // reference-decoded messages
	Flags    []byte
	WireLen  []int
}

// CheckSender applies the sender-side rules of C27 to the bytes one endpoint
// put on the wire: flag in {0,1}; flag=1 => the stream's grpc-encoding is a
// non-identity compressor; non-identity encoding and NON-EMPTY message =>
// flag=1 (R2: grpc-go deliberately sends empty messages uncompressed); each
// message decodes, with the reference decoder of the encoding named on the
// wire, to the message the application passed to SendMsg (prefix).
func (f *Findings) CheckSender(who string, sv *StreamView, sent [][]byte) SenderView {
	enc, _ := sv.Field("grpc-encoding")
	out := SenderView{Encoding: enc}
	ident := enc == "" || enc == "identity"
	payloads, flags, _ := sv.Msgs()
	for i, pl := range payloads {
		if i >= len(sent) {
			f.Add("sender-extra-message", "%s put %d messages on the wire, its application sent %d", who, len(payloads), len(sent))
			return out
		}
		var plain []byte
		switch flags[i] {
		case 0:
			plain = pl
			if !ident && len(sent[i]) > 0 {
				f.Add("uncompressed-on-compressed-stream", "%s message %d (%d bytes, non-empty) has flag 0 although the stream's grpc-encoding is %q", who, i, len(sent[i]), enc)
				return out
			}
			if len(sent[i]) == 0 && !ident {
				f.C["empty_messages_sent_uncompressed_on_compressed_stream"]++
			}
		case 1:
			if ident {
				f.Add("compressed-flag-on-identity-stream", "%s message %d has the compressed flag but the stream's grpc-encoding is %q", who, i, enc)
				return out
			}
			dec, _, err := Decode(enc, pl, int64(len(sent[i]))+64)
			if err != nil {
				f.Add("sender-bytes-undecodable", "%s message %d is flagged compressed on a stream with grpc-encoding %q but does not decode with that encoding: %v", who, i, enc, err)
				return out
			}
			plain = dec
			f.C["compressed_messages_on_wire"]++
		default:
			f.Add("sender-bad-flag", "%s message %d carries flag byte %d", who, i, flags[i])
			return out
		}
		if !bytes.Equal(plain, sent[i]) {
			f.Add("sender-bytes-differ", "%s message %d on the wire (flag %d, grpc-encoding %q) decodes to %d bytes, the application sent %d bytes (first difference at %d)", who, i, flags[i], enc, len(plain), len(sent[i]), firstDiff(plain, sent[i]))
			return out
		}
		out.Plain = append(out.Plain, plain)
		out.Flags = append(out.Flags, flags[i])
		out.WireLen = append(out.WireLen, len(pl))
		f.C["wire_messages_checked"]++
	}
	return out
}
