package msgfix

import (
	"encoding/binary"
)

// Terminal outcomes of the reference parser.
const (
	EndClean        = "clean"           // the byte stream is a whole number of acceptable messages
	EndTooLarge     = "too-large"       // declared or decompressed size > limit            => RESOURCE_EXHAUSTED
	EndTruncHeader  = "trunc-header"    // stream ends inside a 5-byte prefix
	EndTruncBody    = "trunc-body"      // stream ends inside a payload (declared > actual)
	EndFlagIdentity = "flag-identity"   // compressed flag, encoding identity/absent         => INTERNAL
	EndNoDecomp     = "no-decompressor" // compressed flag, encoding not usable at receiver  => UNIMPLEMENTED (server) / INTERNAL (client)
	EndBadFlag      = "bad-flag"        // flag byte not in {0,1}                            => error
	EndCorrupt      = "corrupt"         // payload is not a well-formed stream of its encoding => error
	EndUnsupported  = "unsupported-enc" // server only: grpc-encoding unusable, rejected before any message => UNIMPLEMENTED
)

// Expect is what a conforming receiver must do with a byte stream.
type Expect struct {
	Msgs [][]byte // messages that must be delivered, in order, before End
	End  string
	// TooLargeAlsoTruncated: the oversized declaration is also cut short by the
	// end of the stream; either RESOURCE_EXHAUSTED or a truncation error is
	// acceptable there.
	TooLargeAlsoTruncated bool
	// Wire facts about the message that ended the stream (for evidence).
	EndDeclared int64
	EndInflated int64
}

// RecvSide describes the receiver for the reference parser.
type RecvSide struct {
	Server   bool
	Limit    int64
	Encoding string // grpc-encoding of the stream ("" = absent)
	// Usable reports whether the receiver has a decompressor for Encoding
	// (registered compressor, or matching legacy decompressor).
	Usable bool
}

// Reference parses stream (the concatenation of all DATA payloads of one
// direction of one HTTP/2 stream, which then ended) exactly as
// PROTOCOL-HTTP2.md / compression.md define it, independently of grpc-go.
func Reference(stream []byte, rs RecvSide) Expect {
	var ex Expect
	ident := rs.Encoding == "" || rs.Encoding == "identity"
	if rs.Server && !ident && !rs.Usable {
		// compression.md: a server that does not support the request's
		// message encoding MUST respond UNIMPLEMENTED.
		ex.End = EndUnsupported
		return ex
	}
	b := stream
	for len(b) > 0 {
		if len(b) < 5 {
			ex.End = EndTruncHeader
			return ex
		}
		flag := b[0]
		n := int64(binary.BigEndian.Uint32(b[1:5]))
		ex.EndDeclared = n
		if n > rs.Limit {
			ex.End = EndTooLarge
			ex.TooLargeAlsoTruncated = int64(len(b)-5) < n
			return ex
		}
		if int64(len(b)-5) < n {
			ex.End = EndTruncBody
			return ex
		}
		payload := b[5 : 5+n]
		b = b[5+n:]
		switch flag {
		case 0:
			ex.Msgs = append(ex.Msgs, payload)
		case 1:
			if ident {
				ex.End = EndFlagIdentity
				return ex
			}
			if !rs.Usable {
				ex.End = EndNoDecomp
				return ex
			}
			out, total, err := Decode(rs.Encoding, payload, rs.Limit)
			if err != nil {
				ex.End = EndCorrupt
				return ex
			}
			ex.EndInflated = total
			if total > rs.Limit {
				ex.End = EndTooLarge
				return ex
			}
			ex.Msgs = append(ex.Msgs, out)
		default:
			ex.End = EndBadFlag
			return ex
		}
	}
	ex.End = EndClean
	ex.EndDeclared, ex.EndInflated = 0, 0
	return ex
}

// Frame builds one length-prefixed message with the given flag byte and a
// declared length that may lie.
func Frame(flag byte, declared uint32, payload []byte) []byte {
	b := make([]byte, 5+len(payload))
	b[0] = flag
	binary.BigEndian.PutUint32(b[1:5], declared)
	copy(b[5:], payload)
	return b
}
