package msgfix

import (
	"bytes"
	"context"
	"fmt"
	"io"
	"net"
	"sync"

	"golang.org/x/net/http2"
	"golang.org/x/net/http2/hpack"
	"google.golang.org/grpc"
	"google.golang.org/grpc/credentials/insecure"
	"google.golang.org/grpc/verif/memconn"
	"google.golang.org/grpc/verif/wire"
)

// Tap passively records the bytes both ends of memconn connections write (via
// memconn.Conn.WriteHook) and decodes them afterwards with an independent
// http2.Framer + hpack decoder.  It is the "wire" of the real-client <->
// real-server monitors: flag bytes, grpc-encoding / grpc-accept-encoding and
// wire lengths are read from here, never from grpc's own state.
type Tap struct {
	mu    sync.Mutex
	conns []*tapConn
}

type tapConn struct {
	c2s, s2c []byte
}

// StreamView is one direction of one HTTP/2 stream as seen on the wire.
type StreamView struct {
	ID       uint32
	Headers  []hpack.HeaderField   // first HEADERS block
	Trailers []hpack.HeaderField   // second HEADERS block (or the only one when it carried END_STREAM and grpc-status)
	Blocks   [][]hpack.HeaderField // all header blocks in order
	Data     []byte                // concatenated DATA payloads
	Ended    bool                  // END_STREAM seen
	Reset    bool
}

// Field returns the first header (not trailer) field with that name.
func (s *StreamView) Field(name string) (string, bool) {
	for _, f := range s.Headers {
		if f.Name == name {
			return f.Value, true
		}
	}
	return "", false
}

// AnyField searches all header blocks.
func (s *StreamView) AnyField(name string) (string, bool) {
	for _, b := range s.Blocks {
		for _, f := range b {
			if f.Name == name {
				return f.Value, true
			}
		}
	}
	return "", false
}

// Msgs splits Data into complete length-prefixed messages.
func (s *StreamView) Msgs() (payloads [][]byte, flags []byte, rest []byte) {
	return wire.SplitMsgs(s.Data)
}

func (t *Tap) newConn() *tapConn {
	t.mu.Lock()
	defer t.mu.Unlock()
	c := &tapConn{}
	t.conns = append(t.conns, c)
	return c
}

// Conns reports how many connections were tapped.
func (t *Tap) Conns() int {
	t.mu.Lock()
	defer t.mu.Unlock()
	return len(t.conns)
}

// Decode parses connection i.  Call when the endpoints are quiescent.
func (t *Tap) Decode(i int) (c2s, s2c map[uint32]*StreamView, err error) {
	t.mu.Lock()
	if i >= len(t.conns) {
		t.mu.Unlock()
		return nil, nil, fmt.Errorf("msgfix: no tapped connection %d", i)
	}
	a := append([]byte(nil), t.conns[i].c2s...)
	b := append([]byte(nil), t.conns[i].s2c...)
	t.mu.Unlock()
	if len(a) >= len(http2.ClientPreface) && string(a[:len(http2.ClientPreface)]) == http2.ClientPreface {
		a = a[len(http2.ClientPreface):]
	} else if len(a) > 0 {
		return nil, nil, fmt.Errorf("msgfix: client bytes do not start with the preface")
	}
	if c2s, err = decodeDir(a); err != nil {
		return nil, nil, fmt.Errorf("client->server: %w", err)
	}
	if s2c, err = decodeDir(b); err != nil {
		return nil, nil, fmt.Errorf("server->client: %w", err)
	}
	return c2s, s2c, nil
}

func decodeDir(b []byte) (map[uint32]*StreamView, error) {
	out := map[uint32]*StreamView{}
	fr := http2.NewFramer(io.Discard, bytes.NewReader(b))
	fr.SetMaxReadFrameSize(1 << 24)
	fr.ReadMetaHeaders = hpack.NewDecoder(4096, nil)
	fr.MaxHeaderListSize = 1 << 26
	get := func(id uint32) *StreamView {
		s := out[id]
		if s == nil {
			s = &StreamView{ID: id}
			out[id] = s
		}
		return s
	}
	for {
		f, err := fr.ReadFrame()
		if err == io.EOF {
			return out, nil
		}
		if err == io.ErrUnexpectedEOF {
			return out, nil // a frame still being written when the tap was read
		}
		if err != nil {
			return out, err
		}
		switch f := f.(type) {
		case *http2.MetaHeadersFrame:
			s := get(f.StreamID)
			fields := append([]hpack.HeaderField(nil), f.Fields...)
			s.Blocks = append(s.Blocks, fields)
			if len(s.Blocks) == 1 {
				s.Headers = fields
				if f.StreamEnded() {
					for _, x := range fields {
						if x.Name == "grpc-status" {
							s.Trailers = fields
						}
					}
				}
			} else {
				s.Trailers = fields
			}
			if f.StreamEnded() {
				s.Ended = true
			}
		case *http2.DataFrame:
			s := get(f.StreamID)
			s.Data = append(s.Data, f.Data()...)
			if f.StreamEnded() {
				s.Ended = true
			}
		case *http2.RSTStreamFrame:
			get(f.StreamID).Reset = true
		}
	}
}

// hook returns a WriteHook that appends to *dst under the tap's lock.
func (t *Tap) hook(dst *[]byte) func(p []byte) error {
	return func(p []byte) error {
		t.mu.Lock()
		*dst = append(*dst, p...)
		t.mu.Unlock()
		return nil
	}
}

// Pair is a real grpc.ClientConn connected to a real grpc.Server over a tapped
// memconn listener (server.Serve(listener); the channel's dialer calls
// listener.Dial()).  Both ends use wire.RawCodec: messages are []byte / *[]byte.
type Pair struct {
	CC  *grpc.ClientConn
	S   *grpc.Server
	L   *memconn.Listener
	Tap *Tap
}

// NewPair builds and starts the pair.  handler serves every method (unknown
// service handler, bidi streaming descriptor).  Create it inside the bubble.
func NewPair(handler grpc.StreamHandler, sopts []grpc.ServerOption, dopts []grpc.DialOption) (*Pair, error) {
	p := &Pair{L: memconn.NewListener(), Tap: &Tap{}}
	base := []grpc.ServerOption{grpc.ForceServerCodec(wire.RawCodec{}), grpc.UnknownServiceHandler(handler)}
	p.S = grpc.NewServer(append(base, sopts...)...)
	go p.S.Serve(p.L)
	dbase := []grpc.DialOption{
		grpc.WithTransportCredentials(insecure.NewCredentials()),
		grpc.WithContextDialer(func(ctx context.Context, _ string) (net.Conn, error) {
			return p.dialTapped(p.Tap.newConn())
		}),
		grpc.WithDefaultCallOptions(grpc.ForceCodec(wire.RawCodec{})),
	}
	cc, err := grpc.NewClient("passthrough:///verif-pair", append(dbase, dopts...)...)
	if err != nil {
		p.S.Stop()
		return nil, err
	}
	p.CC = cc
	return p, nil
}

// dialTapped calls listener.Dial() and taps both directions at the client end:
// client->server through memconn's WriteHook (bytes are recorded before they are
// queued), server->client through a tee on Read (every byte the server wrote is
// a byte the client transport's reader consumes; at a quiescent point it has
// consumed all of them).
func (p *Pair) dialTapped(tc *tapConn) (net.Conn, error) {
	c, err := p.L.Dial()
	if err != nil {
		return nil, err
	}
	c.WriteHook = p.Tap.hook(&tc.c2s)
	return &teeConn{Conn: c, tap: p.Tap, dst: &tc.s2c}, nil
}

// teeConn records everything read from the connection (= everything the server
// wrote and the client transport consumed).
type teeConn struct {
	*memconn.Conn
	tap *Tap
	dst *[]byte
}

func (t *teeConn) Read(b []byte) (int, error) {
	n, err := t.Conn.Read(b)
	if n > 0 {
		t.tap.mu.Lock()
		*t.dst = append(*t.dst, b[:n]...)
		t.tap.mu.Unlock()
	}
	return n, err
}

// Close tears the pair down; everything has exited afterwards (bubble-safe).
func (p *Pair) Close() {
	p.CC.Close()
	p.S.Stop()
}
