// Package msgfix is the shared helper of the message-layer monitors C06
// (framing), C21 (size limits) and C27 (compression): custom compressors with
// byte accounting, bomb builders, an independent reference parser for the gRPC
// length-prefixed message stream, a passive wire tap for real client <-> real
// server pairs over memconn, and the pair fixture itself.
//
// Compressors registered with encoding.RegisterCompressor are process-global and
// are registered exactly once from this package's init (the registry is not
// thread-safe); names are unique to /verif ("vz-a", "vz-b") and are never
// unregistered.
package msgfix

import (
	"bytes"
	"compress/gzip"
	"encoding/binary"
	"errors"
	"fmt"
	"io"
	"sync"
	"sync/atomic"

	"google.golang.org/grpc"
	"google.golang.org/grpc/encoding"
	_ "google.golang.org/grpc/encoding/gzip" // registers "gzip"
)

// Names of the encodings the monitors use.
const (
	Gzip = "gzip" // registered by google.golang.org/grpc/encoding/gzip
	VZA  = "vz-a" // registered custom compressor (magic 0xA1)
	VZB  = "vz-b" // registered custom compressor (magic 0xB2)
	// LZQ / LZR are NOT registered: they only exist as legacy
	// grpc.Compressor / grpc.Decompressor values (WithCompressor,
	// WithDecompressor, RPCCompressor, RPCDecompressor).
	LZQ = "lz-q" // legacy-only custom (magic 0xC3)
	LZR = "lz-r" // legacy-only custom (magic 0xD4)
	// Unknown is never registered anywhere.
	Unknown = "zz-unknown"
)

var magics = map[string]byte{VZA: 0xA1, VZB: 0xB2, LZQ: 0xC3, LZR: 0xD4}

// SafetyCap bounds what one vz reader will ever produce: a decompression bomb
// that the code under test fails to bound must not take the shared machine
// down.  Every oracle limit is far below it.
const SafetyCap = 48 << 20

// ErrOverdraw is returned by a vz reader that was asked for more than SafetyCap bytes.
var ErrOverdraw = errors.New("msgfix: decompressor drawn past the safety cap")

// ---- the vz format ----
//
//	stream  = magic record*
//	record  = 0x00 uvarint(n) n literal bytes
//	        | 0x01 uvarint(n) b          (b repeated n times)
//
// The format is trivial on purpose: its expansion ratio is unbounded (a
// 12-byte payload can declare 2^40 bytes), its output is produced lazily by the
// reader (so the bytes the receiver draws can be counted exactly) and its
// compressed size is a pure function of the input.

// VZEncode compresses p with the vz variant of the given encoding name.
func VZEncode(name string, p []byte) []byte {
	m, ok := magics[name]
	if !ok {
		panic("msgfix: no vz variant " + name)
	}
	out := []byte{m}
	var tmp [binary.MaxVarintLen64]byte
	lit := 0 // start of pending literal run
	flushLit := func(end int) {
		if end > lit {
			out = append(out, 0x00)
			out = append(out, tmp[:binary.PutUvarint(tmp[:], uint64(end-lit))]...)
			out = append(out, p[lit:end]...)
		}
	}
	for i := 0; i < len(p); {
		j := i
		for j < len(p) && p[j] == p[i] {
			j++
		}
		if j-i >= 4 {
			flushLit(i)
			out = append(out, 0x01)
			out = append(out, tmp[:binary.PutUvarint(tmp[:], uint64(j-i))]...)
			out = append(out, p[i])
			lit = j
		}
		i = j
	}
	flushLit(len(p))
	return out
}

// VZBomb is a vz payload of a dozen bytes that declares n copies of b.
func VZBomb(name string, n int64, b byte) []byte {
	var tmp [binary.MaxVarintLen64]byte
	out := []byte{magics[name], 0x01}
	out = append(out, tmp[:binary.PutUvarint(tmp[:], uint64(n))]...)
	return append(out, b)
}

// DrawRecord is what one Decompress reader of a vz compressor produced.
type DrawRecord struct {
	Name     string
	Drawn    int64 // bytes handed out through Read
	Reads    int64 // Read calls
	Overdraw bool  // hit SafetyCap
	Closed   bool
}

type drawLog struct {
	mu   sync.Mutex
	recs []*vzReader
}

// Draws is the process-wide log of vz readers (registered and legacy variants).
var Draws drawLog

// Mark returns a position in the log.
func (l *drawLog) Mark() int {
	l.mu.Lock()
	defer l.mu.Unlock()
	return len(l.recs)
}

// Since returns the records of the readers created at or after mark.
func (l *drawLog) Since(mark int) []DrawRecord {
	l.mu.Lock()
	rs := append([]*vzReader(nil), l.recs[mark:]...)
	l.mu.Unlock()
	out := make([]DrawRecord, len(rs))
	for i, r := range rs {
		out[i] = DrawRecord{Name: r.name, Drawn: r.drawn.Load(), Reads: r.reads.Load(), Overdraw: r.over.Load(), Closed: r.closed.Load()}
	}
	return out
}

type vzReader struct {
	name   string
	src    io.ByteReader
	raw    io.Reader
	begun  bool
	err    error
	kind   byte   // current record kind
	left   uint64 // bytes left in the current record
	rep    byte
	drawn  atomic.Int64
	reads  atomic.Int64
	over   atomic.Bool
	closed atomic.Bool
}

type byteReader struct{ r io.Reader }

func (b byteReader) ReadByte() (byte, error) {
	var x [1]byte
	for {
		n, err := b.r.Read(x[:])
		if n == 1 {
			return x[0], nil
		}
		if err != nil {
			return 0, err
		}
	}
}

func newVZReader(name string, r io.Reader) *vzReader {
	z := &vzReader{name: name, raw: r, src: byteReader{r}}
	Draws.mu.Lock()
	Draws.recs = append(Draws.recs, z)
	Draws.mu.Unlock()
	return z
}

var errCorrupt = errors.New("msgfix: corrupt vz stream")

func (z *vzReader) Read(p []byte) (int, error) {
	z.reads.Add(1)
	if z.err != nil {
		return 0, z.err
	}
	if len(p) == 0 {
		return 0, nil
	}
	if !z.begun {
		z.begun = true
		m, err := z.src.ReadByte()
		if err != nil || m != magics[z.name] {
			z.err = fmt.Errorf("%w: bad magic for %s", errCorrupt, z.name)
			return 0, z.err
		}
	}
	for z.left == 0 {
		k, err := z.src.ReadByte()
		if err == io.EOF {
			z.err = io.EOF
			return 0, io.EOF
		}
		if err != nil {
			z.err = err
			return 0, err
		}
		if k > 1 {
			z.err = fmt.Errorf("%w: record kind %d", errCorrupt, k)
			return 0, z.err
		}
		n, err := binary.ReadUvarint(z.src)
		if err != nil {
			z.err = fmt.Errorf("%w: length: %v", errCorrupt, err)
			return 0, z.err
		}
		z.kind, z.left = k, n
		if k == 1 {
			b, err := z.src.ReadByte()
			if err != nil {
				z.err = fmt.Errorf("%w: run byte: %v", errCorrupt, err)
				return 0, z.err
			}
			z.rep = b
		}
	}
	n := len(p)
	if uint64(n) > z.left {
		n = int(z.left)
	}
	if z.drawn.Load()+int64(n) > SafetyCap {
		z.over.Store(true)
		z.err = ErrOverdraw
		return 0, z.err
	}
	if z.kind == 1 {
		for i := 0; i < n; i++ {
			p[i] = z.rep
		}
	} else {
		if k, err := io.ReadFull(z.raw, p[:n]); err != nil {
			z.err = fmt.Errorf("%w: literal truncated: %v", errCorrupt, err)
			z.drawn.Add(int64(k))
			return k, z.err
		}
	}
	z.left -= uint64(n)
	z.drawn.Add(int64(n))
	return n, nil
}

func (z *vzReader) Close() error { z.closed.Store(true); return nil }

// VZDecode is the reference decoder (no accounting, bounded by max: the
// returned slice has at most max+1 bytes and total reports the full declared
// size if the stream is well-formed).
func VZDecode(name string, comp []byte, max int64) (out []byte, total int64, err error) {
	if len(comp) == 0 || comp[0] != magics[name] {
		return nil, 0, errCorrupt
	}
	b := comp[1:]
	for len(b) > 0 {
		k := b[0]
		if k > 1 {
			return nil, 0, errCorrupt
		}
		n, w := binary.Uvarint(b[1:])
		if w <= 0 {
			return nil, 0, errCorrupt
		}
		b = b[1+w:]
		if k == 1 {
			if len(b) < 1 {
				return nil, 0, errCorrupt
			}
			total += int64(n)
			for i := uint64(0); i < n && int64(len(out)) <= max; i++ {
				out = append(out, b[0])
			}
			b = b[1:]
		} else {
			if uint64(len(b)) < n {
				return nil, 0, errCorrupt
			}
			total += int64(n)
			take := b[:n]
			if room := max + 1 - int64(len(out)); int64(len(take)) > room {
				if room < 0 {
					room = 0
				}
				take = take[:room]
			}
			out = append(out, take...)
			b = b[n:]
		}
	}
	return out, total, nil
}

// ---- registered (encoding.Compressor) variants ----

type vzCompressor struct{ name string }

type vzWriter struct {
	name string
	w    io.Writer
	buf  bytes.Buffer
}

func (w *vzWriter) Write(p []byte) (int, error) { return w.buf.Write(p) }
func (w *vzWriter) Close() error {
	_, err := w.w.Write(VZEncode(w.name, w.buf.Bytes()))
	return err
}

func (c vzCompressor) Compress(w io.Writer) (io.WriteCloser, error) {
	return &vzWriter{name: c.name, w: w}, nil
}
func (c vzCompressor) Decompress(r io.Reader) (io.Reader, error) { return newVZReader(c.name, r), nil }
func (c vzCompressor) Name() string                              { return c.name }

func init() {
	encoding.RegisterCompressor(vzCompressor{VZA})
	encoding.RegisterCompressor(vzCompressor{VZB})
}

// ---- legacy (grpc.Compressor / grpc.Decompressor) variants ----

// Legacy is a deprecated-API compressor and decompressor of the named vz
// variant (any of VZA, VZB, LZQ, LZR) — or, with Raw set, a compressor that
// writes Raw verbatim whatever the message is (hostile sender through the real
// client: lets a real grpc endpoint emit a bomb).
type Legacy struct {
	TypeName string
	Variant  string // vz variant used for the bytes; defaults to TypeName
	Raw      []byte
}

func (l Legacy) variant() string {
	if l.Variant != "" {
		return l.Variant
	}
	return l.TypeName
}

// DoCompress is grpc.Compressor.Do.
func (l Legacy) compress(w io.Writer, p []byte) error {
	if l.Raw != nil {
		_, err := w.Write(l.Raw)
		return err
	}
	_, err := w.Write(VZEncode(l.variant(), p))
	return err
}

// LegacyCompressor adapts Legacy to grpc.Compressor.
type LegacyCompressor struct{ Legacy }

func (l LegacyCompressor) Do(w io.Writer, p []byte) error { return l.compress(w, p) }
func (l LegacyCompressor) Type() string                   { return l.TypeName }

// LegacyDecompressor adapts Legacy to grpc.Decompressor.  Like every
// third-party legacy Decompressor it has no way to learn the receive limit: it
// reads the whole stream (bounded only by SafetyCap).
type LegacyDecompressor struct{ Legacy }

func (l LegacyDecompressor) Do(r io.Reader) ([]byte, error) {
	return io.ReadAll(newVZReader(l.variant(), r))
}
func (l LegacyDecompressor) Type() string { return l.TypeName }

var (
	_ grpc.Compressor   = LegacyCompressor{}
	_ grpc.Decompressor = LegacyDecompressor{}
)

// ---- gzip helpers (independent of grpc: straight compress/gzip) ----

// GzipEncode compresses p at the default level (what both grpc gzip
// compressors use).
func GzipEncode(p []byte) []byte {
	var b bytes.Buffer
	b.Grow(len(p) + len(p)/1024 + 64)
	z := gzWriters.Get().(*gzip.Writer)
	z.Reset(&b)
	z.Write(p)
	z.Close()
	gzWriters.Put(z)
	return b.Bytes()
}

// a fresh flate compressor costs >1 MB of cleared memory: reuse them
var gzWriters = sync.Pool{New: func() any { return gzip.NewWriter(io.Discard) }}

// GzipDecode decompresses at most max+1 bytes; total is the full size when the
// stream is well-formed.
func GzipDecode(comp []byte, max int64) (out []byte, total int64, err error) {
	z, err := gzip.NewReader(bytes.NewReader(comp))
	if err != nil {
		return nil, 0, err
	}
	var b bytes.Buffer
	n, err := io.Copy(&b, io.LimitReader(z, max+1))
	if err != nil {
		return nil, 0, err
	}
	rest, err := io.Copy(io.Discard, z)
	if err != nil {
		return nil, 0, err
	}
	return b.Bytes(), n + rest, nil
}

var (
	bombOnce sync.Once
	bombGz   []byte
)

// GzipBombSize is the decompressed size of GzipBomb.
const GzipBombSize = 64 << 20

// GzipBomb is a ~64 KB gzip stream that inflates to 64 MB of zeros.
func GzipBomb() []byte {
	bombOnce.Do(func() {
		var b bytes.Buffer
		z, _ := gzip.NewWriterLevel(&b, gzip.BestSpeed)
		chunk := make([]byte, 1<<20)
		for i := 0; i < GzipBombSize>>20; i++ {
			z.Write(chunk)
		}
		z.Close()
		bombGz = b.Bytes()
	})
	return bombGz
}

// Encode compresses p for the named encoding with the harness' own
// implementation (never grpc's).
func Encode(name string, p []byte) []byte {
	if name == Gzip {
		return GzipEncode(p)
	}
	return VZEncode(name, p)
}

// Decode is the reference decompressor for the named encoding.
func Decode(name string, comp []byte, max int64) (out []byte, total int64, err error) {
	if name == Gzip {
		return GzipDecode(comp, max)
	}
	if _, ok := magics[name]; !ok {
		return nil, 0, fmt.Errorf("msgfix: no reference decoder for %q", name)
	}
	return VZDecode(name, comp, max)
}

// Pattern returns n deterministic bytes; Pattern(tag,n) is a prefix of
// Pattern(tag,n+1).  kind: 0 incompressible, 1 all zero, 2 short runs.
func Pattern(tag uint32, n int, kind int) []byte {
	b := make([]byte, n)
	x := tag*2654435761 + 12345
	switch kind {
	case 1:
	case 2:
		for j := 0; j < n; {
			x = x*1664525 + 1013904223
			run := 1 + int(x>>28)
			v := byte(x >> 16)
			for k := 0; k < run && j < n; k++ {
				b[j] = v
				j++
			}
		}
	default:
		var prev byte
		for j := range b {
			x = x*1664525 + 1013904223
			v := byte(x >> 24)
			if v == prev { // no runs at all: vz literal size is exact
				v++
			}
			b[j], prev = v, v
		}
	}
	return b
}
