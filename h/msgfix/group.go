package msgfix

import "sync"

// Group is a minimal WaitGroup built on a mutex and channels.
//
// Why not sync.WaitGroup: inside a synctest bubble every WaitGroup.Add attaches
// a runtime "bubble special" to the WaitGroup's heap span.  With go1.25.0 one
// run of these monitors (under heavy machine load) ended with a goroutine
// spinning forever inside runtime.getOrSetBubbleSpecial /
// mspan.specialFindSplicePoint below sync.(*WaitGroup).Add, with the whole
// process frozen (the spinner is non-preemptible, so not even the test timeout
// could fire).  grpc's own WaitGroups cannot be avoided, the harness' can.
type Group struct {
	mu      sync.Mutex
	n       int
	waiters []chan struct{}
}

// Add registers one more running activity.
func (g *Group) Add() {
	g.mu.Lock()
	g.n++
	g.mu.Unlock()
}

// Done marks one activity finished.
func (g *Group) Done() {
	g.mu.Lock()
	g.n--
	if g.n == 0 {
		for _, w := range g.waiters {
			close(w)
		}
		g.waiters = nil
	}
	g.mu.Unlock()
}

// Wait blocks until the count is zero (channel receive: durably blocking in a bubble).
func (g *Group) Wait() {
	g.mu.Lock()
	if g.n == 0 {
		g.mu.Unlock()
		return
	}
	w := make(chan struct{})
	g.waiters = append(g.waiters, w)
	g.mu.Unlock()
	<-w
}
