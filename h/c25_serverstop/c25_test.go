// C25: server stop semantics and the per-connection handler limit.
//
// A real grpc.Server (registered unary + streaming methods whose handlers log
// entry/exit and block on gates, timers or nothing but a gate) is driven by real
// grpc clients over in-memory connections (family "clients") or by a scripted
// HTTP/2 client that ignores the advertised limits (family "hostile"), inside a
// synctest bubble.  GracefulStop / Stop are called at script-chosen points, also
// both at the same instant and repeatedly.
package c25

import (
	"context"
	"fmt"
	"io"
	"math/rand"
	"os"
	"runtime"
	"sort"
	"strconv"
	"sync"
	"sync/atomic"
	"testing"
	"testing/synctest"
	"time"

	"golang.org/x/net/http2"
	"google.golang.org/grpc"
	"google.golang.org/grpc/codes"
	"google.golang.org/grpc/credentials/insecure"
	"google.golang.org/grpc/metadata"
	"google.golang.org/grpc/peer"
	"google.golang.org/grpc/stats"
	"google.golang.org/grpc/status"
	"google.golang.org/grpc/verif/chanfix"
	"google.golang.org/grpc/verif/vlib"
	"google.golang.org/grpc/verif/wire"
)

// ---------------------------------------------------------------- scenario

type rpcSpec struct {
	Kind  string        `json:"kind"` // gated (gate or ctx) | stubborn (gate only) | timed (timer or ctx)
	Unary bool          `json:"unary,omitempty"`
	Dur   time.Duration `json:"dur,omitempty"`
	Code  codes.Code    `json:"code"`
}

type step struct {
	K string        `json:"k"` // release | releaseall | sleep | cancel | wait | gstop | stop | both | newchan
	N int           `json:"n,omitempty"`
	D time.Duration `json:"d,omitempty"`
}

type scenario struct {
	Fam             string        `json:"fam"`
	MaxStreams      int           `json:"max_streams"` // 0 = option not set
	StreamWorkers   int           `json:"stream_workers"`
	WaitForHandlers bool          `json:"wait_for_handlers"`
	Chans           [][][]rpcSpec `json:"chans"` // [channel][worker][rpc]; channels beyond Initial are started by newchan steps
	Initial         int           `json:"initial"`
	Steps           []step        `json:"steps"`
	// hostile family
	Opens []rpcSpec `json:"opens,omitempty"`
	// handshake family
	StopKind string `json:"stop_kind,omitempty"` // stop | gstop
	Teardown string `json:"teardown,omitempty"`  // quota (reader parked behind orphaned handlers) | connend (slow stats.Handler ConnEnd)
	Pending  int    `json:"pending,omitempty"`   // connections whose handshake is held open across the stop call
}

var handlerCodes = []codes.Code{codes.OK, codes.OK, codes.OK, codes.OK, codes.NotFound, codes.Internal, codes.Aborted,
	codes.ResourceExhausted, codes.Unavailable, codes.Canceled, codes.DeadlineExceeded, codes.Unknown, codes.PermissionDenied, codes.DataLoss}

func genSpec(rng *rand.Rand) rpcSpec {
	sp := rpcSpec{Unary: rng.Intn(2) == 0, Code: handlerCodes[rng.Intn(len(handlerCodes))]}
	switch r := rng.Intn(100); {
	case r < 45:
		sp.Kind = "gated"
	case r < 70:
		sp.Kind = "stubborn"
	default:
		sp.Kind = "timed"
		sp.Dur = time.Duration(1+rng.Intn(50)) * time.Millisecond
	}
	return sp
}

func gen(rng *rand.Rand, fam string) scenario {
	sc := scenario{Fam: fam, MaxStreams: vlib.Pick(rng, 1, 1, 2, 2, 3, 4, 0), StreamWorkers: vlib.Pick(rng, 0, 0, 0, 2, 8),
		WaitForHandlers: rng.Intn(4) == 0}
	if fam == "handshake" {
		// Directed: one or two connections are accepted by the server but their
		// HTTP/2 handshake is held open (the scripted client withholds its preface);
		// another connection is made slow to tear down; the stop call is made; only
		// then are the handshakes allowed to finish and streams opened on them.
		sc.MaxStreams = vlib.Pick(rng, 1, 1, 2)
		sc.StopKind = vlib.Pick(rng, "stop", "stop", "stop", "stop", "gstop")
		sc.Teardown = vlib.Pick(rng, "quota", "connend")
		sc.Pending = 1 + rng.Intn(2)
		for i := 0; i < sc.MaxStreams; i++ {
			sc.Opens = append(sc.Opens, rpcSpec{Kind: "stubborn", Code: handlerCodes[rng.Intn(len(handlerCodes))]})
		}
		for i := 0; i < 1+2*sc.Pending; i++ {
			sc.Opens = append(sc.Opens, rpcSpec{Kind: vlib.Pick(rng, "gated", "gated", "timed"), Dur: 10 * time.Millisecond, Code: handlerCodes[rng.Intn(len(handlerCodes))]})
		}
		return sc
	}
	if fam == "parked" {
		// Directed: fill the handler quota of every connection with handlers that
		// ignore their context, cancel those RPCs at the client (the streams go, the
		// handlers stay), let the next RPC of every worker park the server's reader
		// behind the quota, then call a lone Stop under WaitForHandlers and only then
		// let handlers return: the parked streams' handlers are spawned while Stop is
		// on its way out.
		sc.MaxStreams = vlib.Pick(rng, 1, 1, 2)
		sc.WaitForHandlers = rng.Intn(5) != 0
		nch := 1 + rng.Intn(2)
		sc.Initial = nch
		for c := 0; c < nch; c++ {
			var ws [][]rpcSpec
			for w := 0; w < sc.MaxStreams+rng.Intn(2); w++ {
				rs := []rpcSpec{{Kind: "stubborn", Unary: rng.Intn(2) == 0, Code: handlerCodes[rng.Intn(len(handlerCodes))]}}
				for k := 0; k < 1+rng.Intn(3); k++ {
					sp := genSpec(rng)
					if sp.Kind == "stubborn" {
						sp.Kind = "gated"
					}
					rs = append(rs, sp)
				}
				ws = append(ws, rs)
			}
			sc.Chans = append(sc.Chans, ws)
		}
		sc.Steps = []step{{K: "wait"}, {K: "cancelstub"}, {K: "wait"}, {K: vlib.Pick(rng, "stop", "stop", "stop", "gstop"), N: 1}, {K: "wait"}}
		for k := 0; k < 2+rng.Intn(4); k++ {
			sc.Steps = append(sc.Steps, step{K: vlib.Pick(rng, "release", "release", "releaseall", "sleep"), N: 1 + rng.Intn(2), D: 20 * time.Millisecond})
		}
		return sc
	}
	if fam == "hostile" {
		sc.MaxStreams = vlib.Pick(rng, 1, 2, 3, 5)
		n := 6 + rng.Intn(30)
		for i := 0; i < n; i++ {
			sp := genSpec(rng)
			sp.Unary = false
			if sp.Kind == "timed" && rng.Intn(2) == 0 {
				sp.Kind = "stubborn"
			}
			sc.Opens = append(sc.Opens, sp)
		}
		ns := 10 + rng.Intn(30)
		stops := 0
		for k := 0; k < ns; k++ {
			switch r := rng.Intn(100); {
			case r < 30:
				sc.Steps = append(sc.Steps, step{K: "open", N: 1 + rng.Intn(4)})
			case r < 50:
				sc.Steps = append(sc.Steps, step{K: "rst", N: rng.Intn(8)})
			case r < 72:
				sc.Steps = append(sc.Steps, step{K: "release", N: 1 + rng.Intn(3)})
			case r < 82:
				sc.Steps = append(sc.Steps, step{K: "sleep", D: time.Duration(1+rng.Intn(60)) * time.Millisecond})
			case r < 92 && stops < 2:
				stops++
				sc.Steps = append(sc.Steps, step{K: vlib.Pick(rng, "gstop", "gstop", "stop", "both"), N: rng.Intn(2)})
			default:
				sc.Steps = append(sc.Steps, step{K: "wait"})
			}
		}
		return sc
	}
	nch := 1 + rng.Intn(3)
	sc.Initial = nch
	extra := rng.Intn(3)
	for c := 0; c < nch+extra; c++ {
		var ws [][]rpcSpec
		nw := 1 + rng.Intn(5)
		for w := 0; w < nw; w++ {
			var rs []rpcSpec
			nr := 2 + rng.Intn(7)
			for r := 0; r < nr; r++ {
				rs = append(rs, genSpec(rng))
			}
			ws = append(ws, rs)
		}
		sc.Chans = append(sc.Chans, ws)
	}
	ns := 10 + rng.Intn(35)
	stops, newch := 0, 0
	for k := 0; k < ns; k++ {
		switch r := rng.Intn(100); {
		case r < 35:
			sc.Steps = append(sc.Steps, step{K: "release", N: 1 + rng.Intn(3)})
		case r < 40:
			sc.Steps = append(sc.Steps, step{K: "releaseall"})
		case r < 55:
			sc.Steps = append(sc.Steps, step{K: "sleep", D: time.Duration(1+rng.Intn(60)) * time.Millisecond})
		case r < 72:
			sc.Steps = append(sc.Steps, step{K: "cancel", N: rng.Intn(64)})
		case r < 84 && stops < 3:
			stops++
			sc.Steps = append(sc.Steps, step{K: vlib.Pick(rng, "gstop", "gstop", "stop", "both"), N: rng.Intn(2)})
		case r < 92 && newch < extra:
			newch++
			sc.Steps = append(sc.Steps, step{K: "newchan"})
		default:
			sc.Steps = append(sc.Steps, step{K: "wait"})
		}
	}
	if stops == 0 {
		at := rng.Intn(len(sc.Steps) + 1)
		sc.Steps = append(sc.Steps[:at], append([]step{{K: vlib.Pick(rng, "gstop", "stop", "both"), N: rng.Intn(2)}}, sc.Steps[at:]...)...)
	}
	return sc
}

// ---------------------------------------------------------------- monitor

type rpcRec struct {
	id   int
	spec rpcSpec
	gate chan struct{}

	// client side
	started    bool
	startSeq   int
	cancel     context.CancelFunc
	cancelled  bool
	finished   bool
	finishSeq  int
	clientCode codes.Code
	clientMsg  string

	// server side
	entries     int
	entrySeq    int
	conn        string
	hctx        context.Context
	running     bool
	released    bool
	exitSeq     int
	exitReason  string // gate | ctx | timer
	cut         bool   // the handler was still running when a Stop call returned
	lateOpen    bool   // hostile family: opened after the peer had read the final GOAWAY
	postStop    bool   // handshake family: opened on a connection whose handshake finished after the stop call, one quiescent point later
	handlerCode codes.Code
	handlerMsg  string
}

type stopCall struct {
	kind      string // gstop | stop
	callSeq   int
	returned  bool
	returnSeq int
}

type monitor struct {
	mu      sync.Mutex
	clock   int
	rpcs    []*rpcRec
	limit   int // 0 = none
	running map[string]int
	maxRun  int
	viol    [][2]string
	cnt     map[string]int64

	stops            []*stopCall
	firstStopQ       int // clock value at the first quiescent point after the first stop/gracefulstop call (0 = none yet)
	stopCalled       bool
	stopReturned     bool // some Stop() has returned
	gsReturned       bool
	waitHandlers     bool
	hostile          bool // the generic start-after-stop rule does not bind a client that ignores GOAWAY
	handshakePending bool // a stop call legitimately waits for an in-flight handshake: nothing is judged about its effect yet
	emit             func(key, msg string)
	flushed          int
	stuck            bool
}

func (m *monitor) v(key, f string, a ...any) {
	m.viol = append(m.viol, [2]string{key, fmt.Sprintf(f, a...)})
}

func (m *monitor) tick() int { m.clock++; return m.clock }

func (m *monitor) flushSoft() {
	m.mu.Lock()
	v := m.viol[m.flushed:]
	m.flushed = len(m.viol)
	m.mu.Unlock()
	for _, x := range v {
		m.emit(x[0], x[1])
	}
}

// flush hands the violations recorded so far to the run (they are printed at
// once, so they survive a later hang of the tear-down on a broken tree).
func (m *monitor) flush() {
	m.flushSoft()
	m.mu.Lock()
	stuck := m.stuck
	m.mu.Unlock()
	if stuck {
		panic("C25: a stop call never returned although every handler is gone; the bubble cannot be unwound (violation already reported)")
	}
}

func (m *monitor) runningList() []string {
	var out []string
	for _, r := range m.rpcs {
		if r.running {
			out = append(out, fmt.Sprintf("rpc%d(%s,%s)", r.id, r.spec.Kind, r.conn))
		}
	}
	return out
}

// enter is the first thing a handler does.
func (m *monitor) enter(ctx context.Context) *rpcRec {
	id := -1
	if md, ok := metadata.FromIncomingContext(ctx); ok {
		if v := md.Get("x-rid"); len(v) > 0 {
			id, _ = strconv.Atoi(v[0])
		}
	}
	conn := "?"
	if p, ok := peer.FromContext(ctx); ok && p.Addr != nil {
		conn = p.Addr.String()
	}
	m.mu.Lock()
	defer m.mu.Unlock()
	if id < 0 || id >= len(m.rpcs) {
		m.v("harness", "handler entered for unknown rpc id %d", id)
		return nil
	}
	r := m.rpcs[id]
	r.entries++
	r.entrySeq = m.tick()
	r.conn, r.hctx, r.running = conn, ctx, true
	m.cnt["handler_entries"]++
	if r.entries > 1 {
		m.v("handler-entered-twice", "the handler of rpc %d was entered %d times (no retry policy is configured; transparent retry is only legal for streams the server never processed)", id, r.entries)
	}
	m.running[conn]++
	if m.running[conn] > m.maxRun {
		m.maxRun = m.running[conn]
	}
	if m.limit > 0 {
		if m.running[conn] == m.limit {
			m.cnt["entries_at_exact_limit"]++
			for _, o := range m.rpcs {
				if o.running && o.conn == conn && o.cancelled {
					// a handler that outlived its stream holds quota: the transport's own
					// stream count no longer protects the limit, only the semaphore does
					m.cnt["entries_at_limit_beside_orphaned_handler"]++
					break
				}
			}
		}
		if m.running[conn] > m.limit {
			m.v("handler-limit-exceeded", "connection %s: %d handlers run at once, MaxConcurrentStreams is %d; running: %v", conn, m.running[conn], m.limit, m.runningList())
		}
	}
	if r.postStop {
		m.v("accepted-after-stop", "rpc %d was opened on a connection whose handshake completed after the server's Stop call (and after a further quiescent point), yet its handler was entered", id)
	}
	if r.lateOpen {
		m.v("accepted-after-goaway", "stream of rpc %d was opened after the scripted client had read the server's final GOAWAY, yet its handler was entered", id)
	}
	if !m.hostile && m.firstStopQ != 0 && r.started && r.startSeq > m.firstStopQ {
		m.v("accepted-after-stop", "rpc %d was started by the client (t=%d) after the server's stop/GracefulStop call had been made and everything had quiesced (t=%d), yet its handler was entered", id, r.startSeq, m.firstStopQ)
	}
	if m.gsReturned {
		m.v("handler-entered-after-gracefulstop-returned", "the handler of rpc %d was entered after a GracefulStop call had returned", id)
	}
	if m.stopReturned {
		m.cnt["entries_after_stop_returned"]++
		if ctx.Err() == nil {
			m.v("stop-did-not-cancel-handler", "the handler of rpc %d was entered after Stop returned and its context is not done", id)
		}
		if m.waitHandlers {
			m.v("handler-entered-after-stop-returned", "the handler of rpc %d was entered after Stop returned although WaitForHandlers(true) is set", id)
		}
	}
	return r
}

func (m *monitor) exit(r *rpcRec, reason string, code codes.Code, msg string) {
	m.mu.Lock()
	defer m.mu.Unlock()
	r.running = false
	r.exitSeq = m.tick()
	r.exitReason, r.handlerCode, r.handlerMsg = reason, code, msg
	m.running[r.conn]--
	m.cnt["handler_exits_"+reason]++
}

func (m *monitor) handle(ctx context.Context) (codes.Code, string) {
	r := m.enter(ctx)
	if r == nil {
		return codes.Unknown, "harness"
	}
	reason := ""
	switch r.spec.Kind {
	case "gated":
		select {
		case <-r.gate:
			reason = "gate"
		case <-ctx.Done():
			reason = "ctx"
		}
	case "stubborn":
		<-r.gate
		reason = "gate"
	default:
		t := time.NewTimer(r.spec.Dur)
		select {
		case <-t.C:
			reason = "timer"
		case <-ctx.Done():
			t.Stop()
			reason = "ctx"
		case <-r.gate: // only opened by the "release everything" paths (virtual time cannot advance while a stop call is parked on a mutex)
			t.Stop()
			reason = "gate"
		}
	}
	code, msg := r.spec.Code, ""
	if reason == "ctx" {
		code = codes.Canceled
	}
	if code != codes.OK {
		msg = fmt.Sprintf("h-%d-%s", r.id, reason)
	}
	m.exit(r, reason, code, msg)
	return code, msg
}

func (m *monitor) service() *grpc.ServiceDesc {
	return &grpc.ServiceDesc{
		ServiceName: "verif.Stop",
		HandlerType: (*any)(nil),
		Methods: []grpc.MethodDesc{{MethodName: "Unary", Handler: func(_ any, ctx context.Context, dec func(any) error, _ grpc.UnaryServerInterceptor) (any, error) {
			var in []byte
			if err := dec(&in); err != nil {
				return nil, err
			}
			code, msg := m.handle(ctx)
			if code != codes.OK {
				return nil, status.Error(code, msg)
			}
			return []byte("ok"), nil
		}}},
		Streams: []grpc.StreamDesc{{StreamName: "Stream", ClientStreams: true, ServerStreams: true, Handler: func(_ any, ss grpc.ServerStream) error {
			code, msg := m.handle(ss.Context())
			if code != codes.OK {
				return status.Error(code, msg)
			}
			ss.SendMsg([]byte("ok"))
			return nil
		}}},
	}
}

// release opens the gates of up to n running handlers (oldest entry first);
// n < 0 = all, including handlers not entered yet.
func (m *monitor) release(n int) int {
	m.mu.Lock()
	defer m.mu.Unlock()
	if n < 0 {
		k := 0
		for _, r := range m.rpcs {
			if !r.released {
				r.released = true
				close(r.gate)
				k++
			}
		}
		return k
	}
	var run []*rpcRec
	for _, r := range m.rpcs {
		if r.running && !r.released && r.spec.Kind != "timed" {
			run = append(run, r)
		}
	}
	sort.Slice(run, func(i, j int) bool { return run[i].entrySeq < run[j].entrySeq })
	k := 0
	for _, r := range run {
		if k == n {
			break
		}
		r.released = true
		close(r.gate)
		k++
	}
	return k
}

// releaseStubborn opens the gate of every stubborn handler, also of those that
// have not been entered yet.
func (m *monitor) releaseStubborn() {
	m.mu.Lock()
	defer m.mu.Unlock()
	for _, r := range m.rpcs {
		if r.spec.Kind == "stubborn" && !r.released {
			r.released = true
			close(r.gate)
		}
	}
}

type result struct {
	counters map[string]int64
	sig      string
}

func newMonitor(sc scenario, specs []rpcSpec, emit func(key, msg string)) *monitor {
	m := &monitor{emit: emit, limit: sc.MaxStreams, running: map[string]int{}, cnt: map[string]int64{}, waitHandlers: sc.WaitForHandlers}
	for i, sp := range specs {
		m.rpcs = append(m.rpcs, &rpcRec{id: i, spec: sp, gate: make(chan struct{})})
	}
	return m
}

func serverOpts(sc scenario) []grpc.ServerOption {
	opts := []grpc.ServerOption{grpc.ForceServerCodec(wire.RawCodec{})}
	if sc.MaxStreams > 0 {
		opts = append(opts, grpc.MaxConcurrentStreams(uint32(sc.MaxStreams)))
	}
	if sc.StreamWorkers > 0 {
		opts = append(opts, grpc.NumStreamWorkers(uint32(sc.StreamWorkers)))
	}
	if sc.WaitForHandlers {
		opts = append(opts, grpc.WaitForHandlers(true))
	}
	return opts
}

// stopper issues Stop / GracefulStop calls in their own goroutines and judges
// the facts that hold at the moment such a call returns.
type stopper struct {
	m   *monitor
	srv *grpc.Server
	wg  sync.WaitGroup
}

// issue makes one or two stop calls.  grpc's Server.stop holds the server mutex
// while it waits for handlers (after every connection is gone), so a second
// stop call made while handlers that ignore their context are still running
// parks on that mutex; a goroutine parked on a mutex is not durably blocked and
// synctest.Wait would never return.  Whenever two stop calls can be outstanding
// at once the gates of all stubborn handlers (present and future) are therefore
// opened: either before the calls (exact variant) or shortly after them, once
// the calls had a chance to run into each other (no verdict depends on how far
// they got).  The same is done for every GracefulStop: the server transport's
// reader holds maxStreamMu while it is parked behind the handler quota (which
// takes handlers that outlive their stream, i.e. stubborn ones), and the loopy
// writer needs that mutex to write GOAWAY, so it would park on a mutex as well.
// A lone Stop keeps the stubborn handlers running.
func (s *stopper) issue(spinFirst bool, kinds ...string) {
	m := s.m
	if sawViolation.Load() {
		// the verdict is already decided: on a tree that is known to be broken
		// (e.g. contexts that are never cancelled turn every gated handler into
		// a stubborn one) only make sure the remaining cases cannot park on the
		// server mutex for ever
		m.release(-1)
		synctest.Wait()
	}
	m.mu.Lock()
	outstanding, stopInvolved := false, false
	for _, c := range m.stops {
		if !c.returned {
			outstanding = true
			if c.kind == "stop" {
				stopInvolved = true
			}
		}
	}
	m.mu.Unlock()
	for _, k := range kinds {
		if k == "stop" {
			stopInvolved = true
		}
	}
	if len(kinds) < 2 && !outstanding && kinds[0] == "stop" {
		s.call(kinds[0])
		return
	}
	m.mu.Lock()
	m.cnt["overlapping_stop_calls"]++
	m.mu.Unlock()
	if stopInvolved {
		// A Stop overlapping another stop call: Stop closes the connections, which
		// on a correct tree makes every gated/timed handler return at once; the
		// calls get a window to run into each other, then every gate is opened so
		// that nothing can outlive its connection while two calls contend for the
		// server mutex (on a tree where Stop fails to cancel handlers this keeps the
		// bubble from wedging; the lone-Stop cases judge that defect).
		for _, k := range kinds {
			s.call(k)
		}
		for i := 0; i < 300; i++ {
			runtime.Gosched()
		}
		m.release(-1)
		return
	}
	if !spinFirst {
		m.releaseStubborn()
		synctest.Wait()
	}
	for _, k := range kinds {
		s.call(k)
	}
	if spinFirst {
		for i := 0; i < 300; i++ {
			runtime.Gosched()
		}
		m.releaseStubborn()
	}
}

func (s *stopper) call(kind string) {
	m := s.m
	m.mu.Lock()
	c := &stopCall{kind: kind, callSeq: m.tick()}
	m.stops = append(m.stops, c)
	if kind == "stop" {
		m.stopCalled = true
	}
	m.cnt["calls_"+kind]++
	m.mu.Unlock()
	s.wg.Add(1)
	go func() {
		defer s.wg.Done()
		if kind == "gstop" {
			s.srv.GracefulStop()
		} else {
			s.srv.Stop()
		}
		m.mu.Lock()
		defer m.mu.Unlock()
		c.returned, c.returnSeq = true, m.tick()
		run := m.runningList()
		if kind == "gstop" {
			m.gsReturned = true
			if len(run) > 0 {
				m.cnt["gracefulstop_returns_with_running_handlers"]++
				m.v("gracefulstop-returned-with-running-handlers", "GracefulStop returned while %d handler(s) are still running: %v", len(run), run)
			} else {
				m.cnt["gracefulstop_returns_checked"]++
			}
			return
		}
		m.stopReturned = true
		m.cnt["stop_returns_checked"]++
		if m.waitHandlers && len(run) > 0 {
			m.v("stop-returned-with-running-handlers", "Stop returned with WaitForHandlers(true) while %d handler(s) are still running: %v", len(run), run)
		}
		for _, r := range m.rpcs {
			if r.running {
				m.cnt["handlers_running_at_stop_return"]++
				if r.hctx.Err() == nil {
					m.v("stop-did-not-cancel-handler", "Stop returned but the context of the running handler of rpc %d (%s, %s) is not done", r.id, r.spec.Kind, r.conn)
				}
				// the handler has not returned, the connection is closed: its status can never arrive
				r.cut = true
			}
		}
	}()
}

// atQuiescence judges what must hold once everything has settled after a stop call.
func (m *monitor) atQuiescence(label string) {
	m.mu.Lock()
	defer m.mu.Unlock()
	m.cnt["quiescent_checks"]++
	if m.handshakePending {
		return
	}
	if len(m.stops) > 0 && m.firstStopQ == 0 {
		m.firstStopQ = m.tick()
	}
	if m.stopCalled {
		for _, r := range m.rpcs {
			if !r.running {
				continue
			}
			if r.hctx.Err() == nil {
				m.v("stop-did-not-cancel-handler", "after %q: Stop was called and everything has quiesced, but the context of the running handler of rpc %d (%s, %s) is not done", label, r.id, r.spec.Kind, r.conn)
			} else if r.spec.Kind != "stubborn" {
				m.v("harness", "handler of rpc %d has a done context but is still running at quiescence", r.id)
			} else {
				m.cnt["stubborn_handlers_outliving_stop"]++
			}
		}
	}
}

// sawViolation is set once any case of this process reported a violation.
var sawViolation atomic.Bool

// stepTag keeps the signatures of the two check steps apart: the driver sums
// distinct counts.
func stepTag() string {
	if light() > 1 {
		return "race-step/"
	}
	return "plain-step/"
}

func light() int {
	if os.Getenv("VERIF_LIGHT") != "" {
		return 6
	}
	return 1
}

// ---------------------------------------------------------------- family "clients"

func runClients(sc scenario, emit func(key, msg string)) *result {
	var specs []rpcSpec
	type loc struct{ ch, w, first, n int }
	var locs []loc
	for c, ws := range sc.Chans {
		for w, rs := range ws {
			locs = append(locs, loc{c, w, len(specs), len(rs)})
			specs = append(specs, rs...)
		}
	}
	m := newMonitor(sc, specs, emit)
	lis := chanfix.NewListener()
	srv := grpc.NewServer(serverOpts(sc)...)
	srv.RegisterService(m.service(), nil)
	var srvWG sync.WaitGroup
	srvWG.Add(1)
	go func() { defer srvWG.Done(); srv.Serve(lis) }()
	st := &stopper{m: m, srv: srv}

	var ccs []*grpc.ClientConn
	var wg sync.WaitGroup
	doRPC := func(cc *grpc.ClientConn, r *rpcRec) {
		ctx, cancel := context.WithCancel(metadata.AppendToOutgoingContext(context.Background(), "x-rid", strconv.Itoa(r.id)))
		defer cancel()
		m.mu.Lock()
		r.started, r.startSeq, r.cancel = true, m.tick(), cancel
		m.mu.Unlock()
		var err error
		if r.spec.Unary {
			var reply []byte
			err = cc.Invoke(ctx, "/verif.Stop/Unary", []byte("q"), &reply, grpc.ForceCodec(wire.RawCodec{}))
		} else {
			var cs grpc.ClientStream
			cs, err = cc.NewStream(ctx, &grpc.StreamDesc{ClientStreams: true, ServerStreams: true}, "/verif.Stop/Stream", grpc.ForceCodec(wire.RawCodec{}))
			if err == nil {
				// SendMsg returning io.EOF only says that the stream has already ended;
				// the status is what RecvMsg returns
				if serr := cs.SendMsg([]byte("q")); serr == nil {
					cs.CloseSend()
				} else if serr != io.EOF {
					err = serr
				}
				for err == nil {
					var b []byte
					err = cs.RecvMsg(&b)
				}
				if err == io.EOF {
					err = nil
				}
			}
		}
		s, _ := status.FromError(err)
		m.mu.Lock()
		r.finished, r.finishSeq, r.clientCode, r.clientMsg = true, m.tick(), s.Code(), s.Message()
		m.mu.Unlock()
	}
	startChan := func(c int) {
		cc, err := grpc.NewClient("passthrough:///c25", grpc.WithTransportCredentials(insecure.NewCredentials()), grpc.WithContextDialer(lis.Dialer()))
		if err != nil {
			m.mu.Lock()
			m.v("harness", "NewClient: %v", err)
			m.mu.Unlock()
			return
		}
		ccs = append(ccs, cc)
		for _, l := range locs {
			if l.ch != c {
				continue
			}
			wg.Add(1)
			go func() {
				defer wg.Done()
				for i := 0; i < l.n; i++ {
					doRPC(cc, m.rpcs[l.first+i])
				}
			}()
		}
	}
	for c := 0; c < sc.Initial; c++ {
		startChan(c)
	}
	nextChan := sc.Initial
	quiesce := func(label string) {
		m.flushSoft() // what is known so far survives a Wait that never returns on a broken tree
		synctest.Wait()
		m.atQuiescence(label)
		m.flushSoft()
	}
	quiesce("start")
	for _, s := range sc.Steps {
		switch s.K {
		case "release":
			m.release(s.N)
		case "releaseall":
			m.release(1 << 30)
		case "sleep":
			time.Sleep(s.D)
		case "cancel":
			m.mu.Lock()
			var open []*rpcRec
			for _, r := range m.rpcs {
				if r.started && !r.finished && !r.cancelled {
					open = append(open, r)
				}
			}
			if len(open) > 0 {
				r := open[s.N%len(open)]
				r.cancelled = true
				r.cancel()
				m.cnt["client_cancels"]++
			}
			m.mu.Unlock()
		case "cancelstub":
			m.mu.Lock()
			for _, r := range m.rpcs {
				if r.started && !r.finished && !r.cancelled && r.spec.Kind == "stubborn" {
					r.cancelled = true
					r.cancel()
					m.cnt["client_cancels"]++
				}
			}
			m.mu.Unlock()
		case "gstop":
			st.issue(s.N%2 == 0, "gstop")
		case "stop":
			st.issue(s.N%2 == 0, "stop")
		case "both":
			st.issue(s.N%2 == 0, "gstop", "stop")
		case "newchan":
			if nextChan < len(sc.Chans) {
				startChan(nextChan)
				nextChan++
			}
		}
		quiesce(s.K)
	}
	// drain: open every gate (also of handlers entered later), give the drain
	// timers of the server transports room, then everything must have ended.
	for nextChan < len(sc.Chans) {
		startChan(nextChan)
		nextChan++
	}
	m.release(-1)
	quiesce("drain-release")
	for round := 0; round < 4; round++ {
		time.Sleep(8 * time.Second)
		quiesce("drain-sleep")
	}
	m.mu.Lock()
	anyStop := m.stopCalled
	for _, c := range m.stops {
		if !c.returned {
			m.v(c.kind+"-never-returned", "%s was called at t=%d; every handler gate is open, every timer has fired and everything is quiescent, but the call has not returned; running handlers: %v", c.kind, c.callSeq, m.runningList())
			m.stuck = true
		}
	}
	firstStopCall := 0
	for _, c := range m.stops {
		if c.kind == "stop" && (firstStopCall == 0 || c.callSeq < firstStopCall) {
			firstStopCall = c.callSeq
		}
	}
	var sigKinds = map[string]bool{}
	for _, r := range m.rpcs {
		if r.running {
			m.v("handler-never-returned", "handler of rpc %d (%s) is still running although its gate is open", r.id, r.spec.Kind)
		}
		if !r.started {
			continue
		}
		if !r.finished {
			m.v("client-rpc-hung", "rpc %d (handler entries %d, exit %q) has not completed at the client although the server has been stopped and everything is quiescent", r.id, r.entries, r.exitReason)
			continue
		}
		if r.entries == 0 {
			m.cnt["rpcs_never_entered"]++
			continue
		}
		m.cnt["rpcs_entered"]++
		if r.cancelled {
			m.cnt["rpcs_cancelled_by_client"]++
			continue
		}
		switch {
		case !anyStop || r.finishSeq < firstStopCall:
			// no Stop could have cut this RPC short: the status oracle applies
			m.cnt["rpcs_status_compared"]++
			sigKinds["status"] = true
			if r.clientCode != r.handlerCode || r.clientMsg != r.handlerMsg {
				m.v("handler-status-not-delivered", "rpc %d (%s, unary=%v): the handler was entered and returned %v %q (exit %q), the client observed %v %q (no Stop was involved)", r.id, r.spec.Kind, r.spec.Unary, r.handlerCode, r.handlerMsg, r.exitReason, r.clientCode, r.clientMsg)
			}
		case r.cut || r.exitReason == "ctx":
			// Stop ran while the handler was unfinished (or cancelled it)
			m.cnt["rpcs_cut_by_stop"]++
			sigKinds["cut"] = true
			if r.clientCode == codes.OK {
				m.v("ok-for-unfinished-rpc", "rpc %d: the handler had not finished when Stop hit it (exit %q), yet the client observed OK", r.id, r.exitReason)
			}
		}
	}
	res := &result{counters: m.cnt}
	res.counters["max_handlers_per_conn"] = int64(m.maxRun)
	res.counters["connections"] = int64(lis.Dials())
	nstops := len(m.stops)
	kinds := ""
	for _, c := range m.stops {
		kinds += c.kind[:1]
	}
	m.mu.Unlock()
	m.flush()
	for _, cc := range ccs {
		cc.Close()
	}
	srv.Stop()
	st.wg.Wait()
	wg.Wait()
	srvWG.Wait()
	m.flush()
	m.mu.Lock()
	if nstops > 0 && res.counters["rpcs_entered"] > 0 {
		var ks []string
		for k := range sigKinds {
			ks = append(ks, k)
		}
		sort.Strings(ks)
		res.sig = fmt.Sprintf(sc.Fam+"/stops=%s/limit=%d/atlimit=%v/afterstop=%v/%v", kinds, sc.MaxStreams, res.counters["entries_at_exact_limit"] > 0, res.counters["entries_after_stop_returned"] > 0, ks)
	}
	m.mu.Unlock()
	return res
}

// ---------------------------------------------------------------- family "hostile"

// A scripted HTTP/2 client that does not honour SETTINGS_MAX_CONCURRENT_STREAMS
// nor GOAWAY: it opens streams whenever the script says so, resets some, and
// keeps opening streams after the server announced its shutdown.
func runHostile(sc scenario, emit func(key, msg string)) *result {
	m := newMonitor(sc, sc.Opens, emit)
	m.hostile = true
	lis := chanfix.NewListener()
	srv := grpc.NewServer(serverOpts(sc)...)
	srv.RegisterService(m.service(), nil)
	var srvWG sync.WaitGroup
	srvWG.Add(1)
	go func() { defer srvWG.Done(); srv.Serve(lis) }()
	st := &stopper{m: m, srv: srv}
	res := &result{counters: m.cnt}
	conn, _, err := lis.Dial()
	if err != nil {
		emit("harness", "dial: "+err.Error())
		srv.Stop()
		srvWG.Wait()
		return res
	}
	p := wire.NewPeer(conn, false)
	if err := p.Start(); err != nil {
		emit("harness", "start: "+err.Error())
		srv.Stop()
		srvWG.Wait()
		return res
	}
	quiesce := func(label string) {
		m.flushSoft() // what is known so far survives a Wait that never returns on a broken tree
		synctest.Wait()
		m.atQuiescence(label)
		m.flushSoft()
	}
	quiesce("start")
	next := 0
	var opened []int // rpc ids by stream order; stream id = 1+2*index
	rstDone := map[int]bool{}
	for _, s := range sc.Steps {
		switch s.K {
		case "open":
			for k := 0; k < s.N && next < len(sc.Opens); k++ {
				id := next
				next++
				sid := uint32(1 + 2*len(opened))
				opened = append(opened, id)
				m.mu.Lock()
				m.rpcs[id].started, m.rpcs[id].startSeq = true, m.tick()
				m.cnt["streams_opened"]++
				m.mu.Unlock()
				p.WriteHeaders(sid, false, 0, wire.RequestHeaders("/verif.Stop/Stream", wire.F("x-rid", strconv.Itoa(id)))...)
				p.WriteData(sid, wire.Msg([]byte("q")), true, -1)
			}
		case "rst":
			if len(opened) > 0 {
				i := s.N % len(opened)
				if !rstDone[i] {
					rstDone[i] = true
					p.WriteRST(uint32(1+2*i), http2.ErrCodeCancel)
					m.mu.Lock()
					m.rpcs[opened[i]].cancelled = true
					m.cnt["client_cancels"]++
					m.mu.Unlock()
				}
			}
		case "release":
			m.release(s.N)
		case "sleep":
			time.Sleep(s.D)
		case "gstop":
			st.issue(s.N%2 == 0, "gstop")
		case "stop":
			st.issue(s.N%2 == 0, "stop")
		case "both":
			st.issue(s.N%2 == 0, "gstop", "stop")
		}
		quiesce(s.K)
	}
	m.mu.Lock()
	called := len(m.stops) > 0
	m.mu.Unlock()
	if !called {
		st.issue(false, "gstop")
		quiesce("final-gstop")
	}
	// a client that ignores GOAWAY: streams opened after it has read the final
	// GOAWAY (the one that carries a real last-stream-id; the server stops
	// accepting streams before it writes that frame) must never reach a handler.
	// The final GOAWAY may have to wait for the 5 s drain timer when the server's
	// reader is parked behind the handler quota.
	time.Sleep(6 * time.Second)
	quiesce("drain-timer")
	final := false
	for _, e := range p.Log() {
		if e.Dir == wire.In && e.Type == http2.FrameGoAway && e.LastID < 1<<31-1 {
			final = true
		}
	}
	for k := 0; k < 3 && next < len(sc.Opens) && final; k++ {
		id := next
		next++
		sid := uint32(1 + 2*len(opened))
		opened = append(opened, id)
		m.mu.Lock()
		m.rpcs[id].started, m.rpcs[id].startSeq, m.rpcs[id].lateOpen = true, m.tick(), true
		m.cnt["streams_opened_after_final_goaway"]++
		m.mu.Unlock()
		p.WriteHeaders(sid, false, 0, wire.RequestHeaders("/verif.Stop/Stream", wire.F("x-rid", strconv.Itoa(id)))...)
		p.WriteData(sid, wire.Msg([]byte("q")), true, -1)
	}
	quiesce("late-open")
	m.release(-1)
	quiesce("drain-release")
	for round := 0; round < 3; round++ {
		time.Sleep(6 * time.Second)
		quiesce("drain-sleep")
	}
	// wire-level status check for streams the handler finished without any Stop
	trailers := map[uint32]string{}
	for _, e := range p.Log() {
		if e.Dir == wire.In && e.Type == http2.FrameHeaders && e.EndStream() {
			if v, ok := e.Field("grpc-status"); ok {
				trailers[e.Stream] = v
			}
		}
	}
	m.mu.Lock()
	kinds := ""
	for _, c := range m.stops {
		kinds += c.kind[:1]
		if !c.returned {
			m.v(c.kind+"-never-returned", "%s was called at t=%d; every gate is open and everything is quiescent, but the call has not returned; running: %v", c.kind, c.callSeq, m.runningList())
			m.stuck = true
		}
	}
	for i, id := range opened {
		r := m.rpcs[id]
		if r.running {
			m.v("handler-never-returned", "handler of rpc %d is still running although its gate is open", id)
		}
		if r.entries > 0 {
			m.cnt["rpcs_entered"]++
		}
		if r.entries > 0 && !m.stopCalled && !r.cancelled && r.exitReason != "" {
			m.cnt["rpcs_status_compared"]++
			want := strconv.Itoa(int(r.handlerCode))
			if got, ok := trailers[uint32(1+2*i)]; !ok || got != want {
				m.v("handler-status-not-delivered", "stream %d (rpc %d): handler returned %v, trailers on the wire carry grpc-status %q (present=%v); no Stop was involved", 1+2*i, id, r.handlerCode, got, ok)
			}
		}
	}
	res.counters["max_handlers_per_conn"] = int64(m.maxRun)
	if res.counters["rpcs_entered"] > 0 {
		res.sig = fmt.Sprintf("hostile/stops=%s/limit=%d/atlimit=%v/rst=%v", kinds, sc.MaxStreams, res.counters["entries_at_exact_limit"] > 0, res.counters["client_cancels"] > 0)
	}
	m.mu.Unlock()
	m.flush()
	p.Close()
	srv.Stop()
	st.wg.Wait()
	srvWG.Wait()
	<-p.Done()
	m.flush()
	return res
}

// ---------------------------------------------------------------- family "handshake"

// slowConnEnd is a stats.Handler whose ConnEnd notification blocks until
// released: it only delays the moment at which the server forgets a connection
// that is already closed, which keeps Server.stop in its wait loop.
type slowConnEnd struct{ release chan struct{} }

func (h *slowConnEnd) TagRPC(ctx context.Context, _ *stats.RPCTagInfo) context.Context { return ctx }
func (h *slowConnEnd) HandleRPC(context.Context, stats.RPCStats)                       {}
func (h *slowConnEnd) TagConn(ctx context.Context, _ *stats.ConnTagInfo) context.Context {
	return ctx
}
func (h *slowConnEnd) HandleConn(_ context.Context, s stats.ConnStats) {
	if _, ok := s.(*stats.ConnEnd); ok {
		<-h.release
	}
}

// runHandshake: connections that are in the middle of their handshake when the
// stop call is made must not survive it.
func runHandshake(sc scenario, emit func(key, msg string)) *result {
	m := newMonitor(sc, sc.Opens, emit)
	m.hostile = true
	lis := chanfix.NewListener()
	opts := serverOpts(sc)
	sh := &slowConnEnd{release: make(chan struct{})}
	if sc.Teardown == "connend" {
		opts = append(opts, grpc.StatsHandler(sh))
	}
	srv := grpc.NewServer(opts...)
	srv.RegisterService(m.service(), nil)
	var srvWG sync.WaitGroup
	srvWG.Add(1)
	go func() { defer srvWG.Done(); srv.Serve(lis) }()
	st := &stopper{m: m, srv: srv}
	res := &result{counters: m.cnt}
	quiesce := func(label string) {
		m.flushSoft()
		synctest.Wait()
		m.atQuiescence(label)
		m.flushSoft()
	}
	connA, _, err := lis.Dial()
	if err != nil {
		emit("harness", "dial: "+err.Error())
		srv.Stop()
		srvWG.Wait()
		return res
	}
	a := wire.NewPeer(connA, false)
	if err := a.Start(); err != nil {
		emit("harness", "start: "+err.Error())
		srv.Stop()
		srvWG.Wait()
		return res
	}
	var pend []*wire.Peer
	for i := 0; i < sc.Pending; i++ {
		c, _, err := lis.Dial()
		if err != nil {
			emit("harness", "dial: "+err.Error())
			continue
		}
		pend = append(pend, wire.NewPeer(c, false)) // accepted by the server, client preface withheld
	}
	quiesce("start")
	next := 0
	open := func(p *wire.Peer, sid uint32, post bool) {
		if next >= len(sc.Opens) {
			return
		}
		id := next
		next++
		m.mu.Lock()
		m.rpcs[id].started, m.rpcs[id].startSeq, m.rpcs[id].postStop = true, m.tick(), post
		if post {
			m.cnt["streams_opened_on_late_handshake_conns"]++
		} else {
			m.cnt["streams_opened"]++
		}
		m.mu.Unlock()
		p.WriteHeaders(sid, false, 0, wire.RequestHeaders("/verif.Stop/Stream", wire.F("x-rid", strconv.Itoa(id)))...)
		p.WriteData(sid, wire.Msg([]byte("q")), true, -1)
	}
	sidA := uint32(1)
	if sc.Teardown == "quota" {
		// fill A's handler quota with handlers that ignore their context, reset
		// those streams, and let one more stream park the server's reader
		for i := 0; i < sc.MaxStreams; i++ {
			open(a, sidA, false)
			sidA += 2
		}
		quiesce("fill")
		for i := 0; i < sc.MaxStreams; i++ {
			a.WriteRST(uint32(1+2*i), http2.ErrCodeCancel)
			m.mu.Lock()
			m.rpcs[i].cancelled = true
			m.cnt["client_cancels"]++
			m.mu.Unlock()
		}
		quiesce("orphan")
		open(a, sidA, false)
		sidA += 2
		quiesce("park")
	} else {
		next = sc.MaxStreams // the stubborn specs are not used here
		open(a, sidA, false)
		sidA += 2
		quiesce("open")
	}
	m.mu.Lock()
	m.handshakePending = true
	m.mu.Unlock()
	st.issue(false, sc.StopKind)
	quiesce("stop-with-handshakes-pending")
	// now the held handshakes complete
	readerUp := make([]bool, len(pend))
	for i, p := range pend {
		if err := p.Start(); err != nil {
			m.mu.Lock()
			m.cnt["late_handshake_conn_already_closed"]++
			m.mu.Unlock()
		} else {
			readerUp[i] = true
		}
	}
	m.mu.Lock()
	m.handshakePending = false
	m.cnt["handshakes_released_after_stop_call"] += int64(len(pend))
	m.mu.Unlock()
	quiesce("handshakes-released")
	if sc.StopKind == "stop" {
		for i, p := range pend {
			ended, _ := p.ReadEnded()
			ended = ended || !readerUp[i]
			m.mu.Lock()
			m.cnt["late_handshake_conns_checked"]++
			if !ended {
				m.v("connection-alive-after-stop", "connection %d finished its handshake after Stop() had been called; everything is quiescent, but the server has not closed it (Stop must leave no live connection behind)", i+1)
			}
			m.mu.Unlock()
		}
	}
	for _, p := range pend {
		open(p, 1, true)
		open(p, 3, true)
	}
	quiesce("post-stop-open")
	m.release(-1)
	close(sh.release)
	quiesce("drain-release")
	for round := 0; round < 2; round++ {
		time.Sleep(6 * time.Second)
		quiesce("drain-sleep")
	}
	m.mu.Lock()
	pendingStop := false
	for _, c := range m.stops {
		if !c.returned {
			pendingStop = true
			m.v(c.kind+"-never-returned", "%s was called at t=%d; every gate is open, every connection that existed when it was called is gone and everything is quiescent, but the call has not returned; running: %v", c.kind, c.callSeq, m.runningList())
		}
	}
	for id, r := range m.rpcs {
		if r.running {
			m.v("handler-never-returned", "handler of rpc %d is still running although its gate is open", id)
		}
		if r.entries > 0 {
			m.cnt["rpcs_entered"]++
		}
	}
	res.counters["max_handlers_per_conn"] = int64(m.maxRun)
	res.sig = fmt.Sprintf("handshake/%s/%s/limit=%d/pending=%d", sc.StopKind, sc.Teardown, sc.MaxStreams, sc.Pending)
	m.mu.Unlock()
	m.flushSoft()
	a.Close()
	for _, p := range pend {
		p.Close()
	}
	if pendingStop {
		synctest.Wait()
		m.mu.Lock()
		for _, c := range m.stops {
			if !c.returned {
				m.stuck = true
			}
		}
		m.mu.Unlock()
	}
	m.flush()
	srv.Stop()
	st.wg.Wait()
	srvWG.Wait()
	<-a.Done()
	for i, p := range pend {
		if readerUp[i] {
			<-p.Done()
		}
	}
	m.flush()
	return res
}

// ---------------------------------------------------------------- driver

func runFam(t *testing.T, r *vlib.Run, fam string, n int) {
	for i := 0; i < n; i++ {
		if !r.Want(fam, i) {
			continue
		}
		sc := gen(r.Rand(fam, i), fam)
		r.Progress(fam, i, fmt.Sprintf("limit=%d steps=%d", sc.MaxStreams, len(sc.Steps)))
		var res *result
		emit := func(key, msg string) {
			if r.Violation(key, fam, i, sc, "%s", msg) {
				sawViolation.Store(true)
			}
		}
		synctest.Test(t, func(t *testing.T) {
			if fam == "hostile" {
				res = runHostile(sc, emit)
			} else if fam == "handshake" {
				res = runHandshake(sc, emit)
			} else {
				res = runClients(sc, emit)
			}
		})
		r.Eval(1)
		keys := make([]string, 0, len(res.counters))
		for k := range res.counters {
			keys = append(keys, k)
		}
		sort.Strings(keys)
		for _, k := range keys {
			if k == "max_handlers_per_conn" {
				r.Max(k, res.counters[k])
			} else {
				r.Count(k, res.counters[k])
			}
		}
		if res.sig != "" {
			r.Nontrivial(stepTag() + res.sig)
		}
		if i < 2 {
			r.Sample(map[string]any{"family": fam, "max_streams": sc.MaxStreams, "wait_for_handlers": sc.WaitForHandlers, "steps": sc.Steps, "counters": res.counters})
		}
	}
}

func TestVerifC25(t *testing.T) {
	r := vlib.Start(t, "C25")
	runFam(t, r, "clients", r.N(1500, 24000)/light())
	runFam(t, r, "hostile", r.N(1000, 16000)/light())
	runFam(t, r, "parked", r.N(1200, 12000)/light())
	runFam(t, r, "handshake", r.N(400, 4000)/light())
	r.Finish(vlib.Spec{
		Level: "exploration",
		Rule:  "real grpc.Server (unary + streaming methods, MaxConcurrentStreams in {unset,1..5}, NumStreamWorkers in {0,2,8}, WaitForHandlers on in 1/4) whose handlers log entry/exit and block on a gate or ctx (gated), on a gate only (stubborn) or on a virtual timer; family clients: 1-5 real channels x 1-5 workers issuing 2-8 sequential RPCs each, 10-45 steps: release 1-3 gates, cancel an open RPC at the client, virtual sleeps, GracefulStop / Stop / both at the same instant (up to 3 stop operations), channels created after the stop; family parked: the directed sequence 'fill every connection's handler quota with stubborn handlers, cancel those RPCs, let the next RPC of each worker park the server's reader behind the quota, lone Stop (WaitForHandlers in 4/5) or GracefulStop, then release'; family handshake: 1-2 connections accepted by the server with their client preface withheld, another connection made slow to tear down (reader parked behind orphaned handlers, or a stats.Handler whose ConnEnd blocks), Stop (4/5) or GracefulStop, then the handshakes are released and streams opened on those connections; family hostile: a scripted HTTP/2 client that ignores MAX_CONCURRENT_STREAMS and GOAWAY, opens 6-35 streams in bursts, resets some and opens more after the shutdown was announced. Oracles: at every GracefulStop return (and Stop return under WaitForHandlers) no handler is running and none is entered later; without Stop every RPC whose handler was entered and that the client did not cancel completes with exactly the handler's code and message; an RPC started after (stop call + quiescence) never reaches a handler; at (Stop call + quiescence) and at Stop's return every running handler's context is done; an RPC whose handler was unfinished at Stop's return is never OK at the client; a connection whose handshake finished after Stop was called is closed at the next quiescent point and streams opened on it never reach a handler; handlers running per connection <= MaxConcurrentStreams at every handler entry; no handler entered twice; after opening all gates every stop call returns and every RPC ends. Non-trivial = a stop operation ran and at least one handler was entered; distinct = (family, sequence of stop kinds, limit, limit reached exactly, entries after Stop, which status oracles applied).",
		Assumptions: []string{"connections are told apart by the remote address the test listener assigns",
			"'accepted afterwards' is judged for RPCs the client starts after the stop call plus one exact quiescent point: streams already in flight or parked behind the handler quota when the stop call is made are legitimately served later",
			"a handler's exit is stamped before it returns to grpc, its entry after grpc called it, so the monitored running-set is a subset of the real one"},
		Floor: 25,
	})
}
