package c06

import (
	"bytes"
	"context"
	"fmt"
	"io"
	"math/rand"
	"os"
	"strconv"
	"sync"
	"testing"
	"testing/synctest"

	"google.golang.org/grpc"
	"google.golang.org/grpc/codes"
	"google.golang.org/grpc/verif/msgfix"
	"google.golang.org/grpc/verif/vlib"
)

// e2eSc: a real client sends Sizes[i]-byte messages to a real echoing server.
type e2eSc struct {
	Comp  string `json:"comp"` // "" | gzip | vz-a | legacy-gzip | legacy-lzq
	LimS  int    `json:"lim_s"`
	LimC  int    `json:"lim_c"`
	Sizes []int  `json:"sizes"`
	PK    []int  `json:"pk"`
	Tag   uint32 `json:"tag"`
}

var e2eComps = []string{"", msgfix.Gzip, msgfix.VZA, "legacy-gzip", "legacy-lzq"}

func genE2E(rng *rand.Rand, i int) e2eSc {
	sc := e2eSc{Comp: e2eComps[i%len(e2eComps)], Tag: rng.Uint32()}
	lims := []int{1, 5, 100, 1000, 16384, 70000}
	sc.LimS, sc.LimC = vlib.Pick(rng, lims...), vlib.Pick(rng, lims...)
	n := rng.Intn(7)
	for k := 0; k < n; k++ {
		l := vlib.Pick(rng, sc.LimS, sc.LimC)
		s := vlib.Pick(rng, 0, 1, l-1, l, l, rng.Intn(l+1), rng.Intn(200))
		if k == n-1 && rng.Intn(2) == 0 {
			s = l + vlib.Pick(rng, 1, 1, 2, 50)
		}
		if s < 0 {
			s = 0
		}
		sc.Sizes = append(sc.Sizes, s)
		sc.PK = append(sc.PK, rng.Intn(3))
	}
	return sc
}

func runE2EOne(sc e2eSc) *result {
	res := &result{counters: map[string]int64{}}
	var sopts []grpc.ServerOption
	var dopts []grpc.DialOption
	var copts []grpc.CallOption
	sopts = append(sopts, grpc.MaxRecvMsgSize(sc.LimS), grpc.InitialWindowSize(window), grpc.InitialConnWindowSize(window))
	dopts = append(dopts, grpc.WithDefaultCallOptions(grpc.MaxCallRecvMsgSize(sc.LimC)), grpc.WithInitialWindowSize(window), grpc.WithInitialConnWindowSize(window))
	legacyS, legacyC := "", ""
	switch sc.Comp {
	case msgfix.Gzip, msgfix.VZA:
		copts = append(copts, grpc.UseCompressor(sc.Comp))
	case "legacy-gzip":
		dopts = append(dopts, grpc.WithCompressor(grpc.NewGZIPCompressor()), grpc.WithDecompressor(grpc.NewGZIPDecompressor()))
		sopts = append(sopts, grpc.RPCCompressor(grpc.NewGZIPCompressor()), grpc.RPCDecompressor(grpc.NewGZIPDecompressor()))
		legacyS, legacyC = "gzip", "gzip"
	case "legacy-lzq":
		l := msgfix.Legacy{TypeName: msgfix.LZQ}
		dopts = append(dopts, grpc.WithCompressor(msgfix.LegacyCompressor{Legacy: l}), grpc.WithDecompressor(msgfix.LegacyDecompressor{Legacy: l}))
		sopts = append(sopts, grpc.RPCCompressor(msgfix.LegacyCompressor{Legacy: l}), grpc.RPCDecompressor(msgfix.LegacyDecompressor{Legacy: l}))
		legacyS, legacyC = msgfix.LZQ, msgfix.LZQ
	}
	srv := &recvRec{}
	var smu sync.Mutex
	var srvSent [][]byte
	var hwg msgfix.Group
	handler := func(_ any, ss grpc.ServerStream) error {
		hwg.Add()
		defer hwg.Done()
		srv.mu.Lock()
		srv.invoked = true
		srv.mu.Unlock()
		for {
			var m []byte
			err := ss.RecvMsg(&m)
			srv.mu.Lock()
			if err != nil {
				srv.err, srv.done = err, true
				srv.mu.Unlock()
				if err == io.EOF {
					return nil
				}
				return err
			}
			srv.msgs = append(srv.msgs, m)
			srv.mu.Unlock()
			smu.Lock()
			srvSent = append(srvSent, m)
			smu.Unlock()
			if err := ss.SendMsg(m); err != nil {
				return err
			}
		}
	}
	mark := msgfix.Draws.Mark()
	p, err := msgfix.NewPair(handler, sopts, dopts)
	if err != nil {
		res.v("harness", "pair: %v", err)
		return res
	}
	var sent [][]byte
	for i, s := range sc.Sizes {
		sent = append(sent, msgfix.Pattern(sc.Tag+uint32(i), s, sc.PK[i]))
	}
	cli := &recvRec{}
	ctx, cancel := context.WithCancel(context.Background())
	var wg msgfix.Group
	wg.Add()
	go func() {
		defer wg.Done()
		st, err := p.CC.NewStream(ctx, &grpc.StreamDesc{ClientStreams: true, ServerStreams: true}, "/verif.Framing/Echo", copts...)
		if err != nil {
			cli.mu.Lock()
			cli.err, cli.done = err, true
			cli.mu.Unlock()
			return
		}
		for _, m := range sent {
			if err := st.SendMsg(m); err != nil {
				break
			}
		}
		st.CloseSend()
		cli.loop(func(m *[]byte) error { return st.RecvMsg(m) })
	}()
	synctest.Wait()

	c2s, s2c, derr := p.Tap.Decode(0)
	if derr != nil || p.Tap.Conns() != 1 || c2s[1] == nil {
		res.v("harness", "tap: conns=%d err=%v", p.Tap.Conns(), derr)
	} else {
		req, rsp := c2s[1], s2c[1]
		if rsp == nil {
			rsp = &msgfix.StreamView{ID: 1}
		}
		reqEnc, _ := req.Field("grpc-encoding")
		rspEnc, _ := rsp.Field("grpc-encoding")
		// (1) what the client put on the wire decodes to a prefix of what its application sent
		checkSender(res, "client", req, reqEnc, sent)
		smu.Lock()
		ss := append([][]byte(nil), srvSent...)
		smu.Unlock()
		checkSender(res, "server", rsp, rspEnc, ss)
		// (2) server as receiver of the request bytes
		se := ecfg{Enc: reqEnc, Legacy: legacyS}
		rsS := msgfix.RecvSide{Server: true, Limit: int64(sc.LimS), Encoding: reqEnc, Usable: se.usable()}
		exS := msgfix.Reference(req.Data, rsS)
		srv.mu.Lock()
		sgot, serr, sdone, sinv := srv.msgs, srv.err, srv.done, srv.invoked
		srv.mu.Unlock()
		wireStatus := -1
		if v, ok := rsp.AnyField("grpc-status"); ok {
			wireStatus, _ = strconv.Atoi(v)
		}
		if req.Ended && !req.Reset {
			judge(res, "server", exS, sgot, serr, sdone, sinv, wireStatus, rsS)
			res.counters["e2e_server_end_"+exS.End]++
		} else {
			prefixOnly(res, "server", exS, sgot, rsS)
			res.counters["e2e_server_request_aborted"]++
		}
		// (3) client as receiver of the response bytes
		ce := ecfg{Enc: rspEnc, Legacy: legacyC}
		rsC := msgfix.RecvSide{Server: false, Limit: int64(sc.LimC), Encoding: rspEnc, Usable: ce.usable()}
		exC := msgfix.Reference(rsp.Data, rsC)
		cli.mu.Lock()
		cgot, cerr, cdone := cli.msgs, cli.err, cli.done
		cli.mu.Unlock()
		if exC.End == msgfix.EndClean {
			// whole messages followed by the server's trailers: the RPC status is the trailers'
			prefixOnly(res, "client", exC, cgot, rsC)
			if !cdone {
				res.v("receiver-never-finished", "client application still blocked at quiescence (got %d messages)", len(cgot))
			} else if len(cgot) != len(exC.Msgs) {
				res.v("messages-lost", "client application received %d of the %d acceptable response messages, then %v", len(cgot), len(exC.Msgs), cerr)
			} else if wireStatus >= 0 && int(code(cerr)) != wireStatus {
				res.v("client-status-differs-from-trailers", "server trailers carry grpc-status %d, client RecvMsg ended with %v", wireStatus, cerr)
			}
		} else {
			judge(res, "client", exC, cgot, cerr, cdone, true, -1, rsC)
		}
		res.counters["e2e_client_end_"+exC.End]++
		res.counters["messages_expected"] += int64(len(exS.Msgs) + len(exC.Msgs))
		res.counters["messages_delivered"] += int64(len(sgot) + len(cgot))
		res.sig = fmt.Sprintf("e2e/%s/%s/%s/%s/%s", sc.Comp, exS.End, boundary(exS, rsS), exC.End, boundary(exC, rsC))
		for _, d := range msgfix.Draws.Since(mark) {
			res.counters["vz_readers"]++
			if sc.Comp == "legacy-lzq" {
				continue
			}
			lim := int64(max(sc.LimS, sc.LimC))
			if d.Drawn > lim+1 || d.Overdraw {
				res.v("decompressor-overdrawn", "a %s reader was drawn for %d bytes, limits are %d (server) / %d (client)", d.Name, d.Drawn, sc.LimS, sc.LimC)
			}
		}
	}
	cancel()
	p.Close()
	wg.Wait()
	hwg.Wait()
	return res
}

// checkSender: every complete message on the wire must decode (reference
// decoder) to the corresponding message the application handed to SendMsg.
func checkSender(res *result, who string, sv *msgfix.StreamView, enc string, sent [][]byte) {
	payloads, flags, _ := sv.Msgs()
	for i, pl := range payloads {
		if i >= len(sent) {
			res.v("sender-extra-message", "%s put %d messages on the wire, its application sent %d", who, len(payloads), len(sent))
			return
		}
		var plain []byte
		switch flags[i] {
		case 0:
			plain = pl
		case 1:
			out, _, err := msgfix.Decode(enc, pl, int64(len(sent[i]))+16)
			if err != nil {
				res.v("sender-bytes-undecodable", "%s message %d has the compressed flag on a stream with grpc-encoding %q and does not decode: %v", who, i, enc, err)
				return
			}
			plain = out
		default:
			res.v("sender-bad-flag", "%s message %d carries flag byte %d", who, i, flags[i])
			return
		}
		if !bytes.Equal(plain, sent[i]) {
			res.v("sender-bytes-differ", "%s message %d on the wire decodes to %d bytes, the application sent %d bytes (first difference at %d)", who, i, len(plain), len(sent[i]), firstDiff(plain, sent[i]))
			return
		}
		res.counters["wire_messages_checked"]++
	}
}

// prefixOnly checks delivered-vs-acceptable without judging the terminal status.
func prefixOnly(res *result, role string, ex msgfix.Expect, got [][]byte, rs msgfix.RecvSide) {
	for i, m := range got {
		if i >= len(ex.Msgs) {
			res.v("extra-message-delivered", "%s application received message %d (%d bytes) but the wire holds only %d acceptable messages (then %q, limit %d)", role, i, len(m), len(ex.Msgs), ex.End, rs.Limit)
			return
		}
		if !bytes.Equal(m, ex.Msgs[i]) {
			res.v("delivered-bytes-differ", "%s application received message %d with %d bytes, the wire holds %d bytes there", role, i, len(m), len(ex.Msgs[i]))
			return
		}
	}
}

var _ = codes.OK

func runE2E(t *testing.T, r *vlib.Run, n int) {
	if f := os.Getenv("VERIF_FAM"); f != "" && f != "e2e" { // debugging aid only
		return
	}
	for i := 0; i < n; i++ {
		if !r.Want("e2e", i) {
			continue
		}
		sc := genE2E(r.Rand("e2e", i), i)
		r.Progress("e2e", i, fmt.Sprintf("comp=%s limS=%d limC=%d sizes=%v", sc.Comp, sc.LimS, sc.LimC, sc.Sizes))
		var res *result
		synctest.Test(t, func(t *testing.T) { res = runE2EOne(sc) })
		report(r, "e2e", i, sc, res)
	}
}
