// C06: gRPC message framing round-trips and receive-size limits, judged against
// an independent reference parser (msgfix.Reference).
//
// Engine E1 (families seg / hostile / bomb / gzbomb): a scripted HTTP/2 peer
// writes an arbitrary byte stream, arbitrarily segmented into DATA frames, to a
// real grpc server (handler calling RecvMsg) or a real grpc client (application
// calling RecvMsg) inside a synctest bubble.  Engine E2 (family e2e): a real
// client talks to a real server over a tapped memconn; the bytes each side put
// on the wire are read back from the tap and fed to the same reference.
package c06

import (
	"bytes"
	"context"
	"fmt"
	"io"
	"math/rand"
	"os"
	"runtime"
	"sort"
	"strconv"
	"sync"
	"testing"
	"testing/synctest"

	"golang.org/x/net/http2"
	"google.golang.org/grpc"
	"google.golang.org/grpc/codes"
	"google.golang.org/grpc/status"
	"google.golang.org/grpc/verif/msgfix"
	"google.golang.org/grpc/verif/vlib"
	"google.golang.org/grpc/verif/wire"
)

const defaultLimit = 4 << 20 // documented default receive limit of both endpoints

// ecfg is one decompressor configuration of the receiver plus the stream's
// grpc-encoding.
type ecfg struct {
	Enc    string `json:"enc"`    // grpc-encoding sent by the scripted peer ("" = header absent)
	Legacy string `json:"legacy"` // "" | "gzip" (grpc.NewGZIPDecompressor) | a vz name (msgfix.LegacyDecompressor)
}

var ecfgs = []ecfg{
	{"", ""}, {"identity", ""}, {msgfix.Gzip, ""}, {msgfix.VZA, ""}, {msgfix.VZB, ""},
	{msgfix.Gzip, "gzip"}, {msgfix.LZQ, msgfix.LZQ}, {msgfix.VZA, msgfix.VZA},
	{msgfix.Unknown, ""}, {msgfix.Gzip, msgfix.LZQ}, {msgfix.LZR, msgfix.LZQ}, {"", "gzip"},
}

func (e ecfg) usable() bool {
	switch e.Enc {
	case msgfix.Gzip, msgfix.VZA, msgfix.VZB:
		return true
	case "", "identity":
		return false
	}
	return e.Legacy == e.Enc
}

// legacyCustom reports whether a third-party legacy Decompressor decodes the
// stream (it cannot know the limit: the drawn-bytes oracle does not apply).
func (e ecfg) legacyCustom() bool { return e.Legacy == e.Enc && e.Legacy != "gzip" && e.Legacy != "" }

// encForBytes is the encoding the scripted sender uses to build compressed
// payloads on this stream (something decodable even when the receiver must
// refuse it).
func (e ecfg) encForBytes() string {
	switch e.Enc {
	case msgfix.Gzip, msgfix.VZA, msgfix.VZB, msgfix.LZQ, msgfix.LZR:
		return e.Enc
	}
	return msgfix.Gzip
}

type item struct {
	K    string `json:"k"` // plain | comp | empty1 | lie-long | lie-short | lie-huge | flag | corrupt | bomb | gzbomb
	Size int    `json:"size"`
	PK   int    `json:"pk"`  // msgfix.Pattern kind
	Arg  int64  `json:"arg"` // lie delta / declared / flag value / bomb size
	Tag  uint32 `json:"tag"` // pattern tag
}

type scenario struct {
	Role   string `json:"role"`  // server | client : the receiver under test
	Limit  int    `json:"limit"` // -1 = do not configure (default 4 MB)
	E      ecfg   `json:"e"`
	Items  []item `json:"items"`
	Cut    int    `json:"cut"`   // drop this many bytes from the end of the stream (truncation)
	Split  int64  `json:"split"` // PRNG seed of the segmentation
	Mode   string `json:"mode"`  // whole | rand | tiny
	Pad    bool   `json:"pad"`
	EndSep bool   `json:"endsep"` // server role: END_STREAM on a separate empty DATA frame
}

func (sc *scenario) limit() int64 {
	if sc.Limit < 0 {
		return defaultLimit
	}
	return int64(sc.Limit)
}

func light() bool { return os.Getenv("VERIF_LIGHT") != "" }

// build renders the items into the byte stream.
func (sc *scenario) build() []byte {
	var out []byte
	enc := sc.E.encForBytes()
	for _, it := range sc.Items {
		p := msgfix.Pattern(it.Tag, it.Size, it.PK)
		switch it.K {
		case "plain":
			out = append(out, msgfix.Frame(0, uint32(len(p)), p)...)
		case "comp":
			c := msgfix.Encode(enc, p)
			out = append(out, msgfix.Frame(1, uint32(len(c)), c)...)
		case "empty1": // compressed flag on a zero-length payload
			out = append(out, msgfix.Frame(1, 0, nil)...)
		case "lie-long":
			out = append(out, msgfix.Frame(0, uint32(int64(len(p))+it.Arg), p)...)
		case "lie-short":
			d := int64(len(p)) - it.Arg
			if d < 0 {
				d = 0
			}
			out = append(out, msgfix.Frame(0, uint32(d), p)...)
		case "lie-huge":
			out = append(out, msgfix.Frame(byte(it.PK&1), uint32(it.Arg), p)...)
		case "flag":
			out = append(out, msgfix.Frame(byte(it.Arg), uint32(len(p)), p)...)
		case "corrupt":
			c := msgfix.Encode(enc, p)
			if len(c) > 3 {
				switch it.Arg % 3 {
				case 0:
					c = c[:len(c)-1-int(it.Arg)%(len(c)-1)] // truncated compressed stream
				case 1:
					c[0] ^= 0x5a // magic destroyed
				default:
					c = append(c, 0x7f, 0x7f, 0x7f) // trailing garbage
				}
			}
			out = append(out, msgfix.Frame(1, uint32(len(c)), c)...)
		case "bomb":
			c := msgfix.VZBomb(enc, it.Arg, byte(it.Tag))
			out = append(out, msgfix.Frame(1, uint32(len(c)), c)...)
		case "gzbomb":
			c := msgfix.GzipBomb()
			out = append(out, msgfix.Frame(1, uint32(len(c)), c)...)
		}
	}
	if sc.Cut > 0 && sc.Cut < len(out) {
		out = out[:len(out)-sc.Cut]
	}
	return out
}

// chunks segments n bytes into DATA frame payload lengths.
func (sc *scenario) chunks(n int) []int {
	rng := rand.New(rand.NewSource(sc.Split))
	var cs []int
	budget := 300
	if light() {
		budget = 80
	}
	for n > 0 {
		c := 16384
		if budget > 0 {
			switch sc.Mode {
			case "tiny":
				c = 1 + rng.Intn(6)
			case "rand":
				c = vlib.Pick(rng, 0, 1, 1, 2, 3, 4, 5, 6, 7, 1+rng.Intn(100), 1+rng.Intn(16384), 16384)
			}
			budget--
		}
		if c > n {
			c = n
		}
		cs = append(cs, c)
		n -= c
	}
	return cs
}

type recvRec struct {
	mu      sync.Mutex
	invoked bool
	msgs    [][]byte
	err     error
	done    bool
}

func (a *recvRec) loop(recv func(m *[]byte) error) error {
	a.mu.Lock()
	a.invoked = true
	a.mu.Unlock()
	for {
		var m []byte
		err := recv(&m)
		a.mu.Lock()
		if err != nil {
			a.err, a.done = err, true
			a.mu.Unlock()
			return err
		}
		a.msgs = append(a.msgs, m)
		a.mu.Unlock()
	}
}

type result struct {
	viol     [][2]string
	counters map[string]int64
	sig      string
}

func (res *result) v(key, f string, a ...any) {
	res.viol = append(res.viol, [2]string{key, fmt.Sprintf(f, a...)})
}

func legacyDecomp(name string) grpc.Decompressor {
	switch name {
	case "":
		return nil
	case "gzip":
		return grpc.NewGZIPDecompressor()
	}
	return msgfix.LegacyDecompressor{Legacy: msgfix.Legacy{TypeName: name}}
}

const window = 24 << 20

// runWire executes one E1 scenario.
func runWire(sc scenario) *result {
	res := &result{counters: map[string]int64{}}
	stream := sc.build()
	rs := msgfix.RecvSide{Server: sc.Role == "server", Limit: sc.limit(), Encoding: sc.E.Enc, Usable: sc.E.usable()}
	ex := msgfix.Reference(stream, rs)
	app := &recvRec{}
	dc := legacyDecomp(sc.E.Legacy)
	mark := msgfix.Draws.Mark()

	var peer *wire.Peer
	var cleanup func()
	var wg msgfix.Group // not sync.WaitGroup: see msgfix.Group
	var id uint32
	if sc.Role == "server" {
		sopts := []grpc.ServerOption{grpc.InitialWindowSize(window), grpc.InitialConnWindowSize(window)}
		if sc.Limit >= 0 {
			sopts = append(sopts, grpc.MaxRecvMsgSize(sc.Limit))
		}
		if dc != nil {
			sopts = append(sopts, grpc.RPCDecompressor(dc))
		}
		handler := func(_ any, ss grpc.ServerStream) error {
			wg.Add()
			defer wg.Done()
			err := app.loop(func(m *[]byte) error { return ss.RecvMsg(m) })
			if err == io.EOF {
				return nil
			}
			return err
		}
		fx := wire.NewServerFixture(handler, sopts...)
		fx.Serve()
		p, err := fx.Connect()
		if err != nil {
			res.v("harness", "connect: %v", err)
			return res
		}
		peer = p
		if err := peer.Start(); err != nil {
			res.v("harness", "start: %v", err)
			return res
		}
		synctest.Wait()
		id = 1
		hdr := wire.RequestHeaders("/verif.Framing/Recv")
		if sc.E.Enc != "" {
			hdr = append(hdr, wire.F("grpc-encoding", sc.E.Enc))
		}
		peer.WriteHeaders(id, false, 0, hdr...)
		cleanup = func() { peer.Close(); fx.S.Stop() }
	} else {
		dopts := []grpc.DialOption{grpc.WithInitialWindowSize(window), grpc.WithInitialConnWindowSize(window)}
		if sc.Limit >= 0 {
			dopts = append(dopts, grpc.WithDefaultCallOptions(grpc.MaxCallRecvMsgSize(sc.Limit)))
		}
		if dc != nil {
			dopts = append(dopts, grpc.WithDecompressor(dc))
		}
		fx, err := wire.NewClientFixture(dopts...)
		if err != nil {
			res.v("harness", "fixture: %v", err)
			return res
		}
		ctx, cancel := context.WithCancel(context.Background())
		wg.Add()
		go func() {
			defer wg.Done()
			st, err := fx.CC.NewStream(ctx, &grpc.StreamDesc{ClientStreams: true, ServerStreams: true}, "/verif.Framing/Recv")
			if err != nil {
				app.mu.Lock()
				app.err, app.done = err, true
				app.mu.Unlock()
				return
			}
			st.CloseSend()
			app.loop(func(m *[]byte) error { return st.RecvMsg(m) })
		}()
		peer = fx.Accept()
		if err := peer.Start(); err != nil {
			res.v("harness", "start: %v", err)
			cancel()
			return res
		}
		synctest.Wait()
		for _, e := range peer.Log() {
			if e.Dir == wire.In && e.Type == http2.FrameHeaders {
				id = e.Stream
			}
		}
		if id == 0 {
			res.v("harness", "client never opened a stream")
			cancel()
			fx.CC.Close()
			peer.Close()
			wg.Wait()
			<-peer.Done()
			return res
		}
		hdr := wire.ResponseHeaders()
		if sc.E.Enc != "" {
			hdr = append(hdr, wire.F("grpc-encoding", sc.E.Enc))
		}
		peer.WriteHeaders(id, false, 0, hdr...)
		cleanup = func() { cancel(); fx.CC.Close(); peer.Close() }
	}

	var ms0, ms1 runtime.MemStats
	measure := false
	for _, it := range sc.Items {
		if it.K == "gzbomb" {
			measure = true
		}
	}
	if measure {
		msgfix.GzipBomb() // built outside the measured window
		synctest.Wait()
		runtime.ReadMemStats(&ms0)
	}
	rng := rand.New(rand.NewSource(sc.Split ^ 0x5bd1e995))
	rest := stream
	cs := sc.chunks(len(stream))
	for i, c := range cs {
		pad := -1
		if sc.Pad && rng.Intn(3) == 0 {
			pad = vlib.Pick(rng, 0, 1, 7, 200)
			if c+pad+1 > 16384 {
				pad = -1
			}
		}
		last := i == len(cs)-1 && sc.Role == "server" && !sc.EndSep
		peer.WriteData(id, rest[:c], last, pad)
		rest = rest[c:]
		res.counters["data_frames"]++
	}
	if sc.Role == "server" {
		if sc.EndSep || len(cs) == 0 {
			peer.WriteData(id, nil, true, -1)
		}
	} else {
		peer.WriteHeaders(id, true, 0, wire.Trailers(0, "")...)
	}
	synctest.Wait()
	if measure {
		runtime.ReadMemStats(&ms1)
		delta := int64(ms1.TotalAlloc - ms0.TotalAlloc)
		res.counters["gzbomb_cases"]++
		if delta > res.counters["max_gzbomb_alloc"] {
			res.counters["max_gzbomb_alloc"] = delta
		}
		if bound := 8*rs.Limit + (24 << 20); delta > bound {
			res.v("gzip-bomb-materialized", "a %d-byte gzip payload inflating to %d bytes was received with limit %d: the process allocated %d bytes while handling it (bound %d): decompression is not bounded by the receive limit", len(msgfix.GzipBomb()), msgfix.GzipBombSize, rs.Limit, delta, bound)
		}
	}

	// ---- judge ----
	wireStatus := -1
	if sc.Role == "server" {
		for _, e := range peer.Log() {
			if e.Dir == wire.In && e.Type == http2.FrameHeaders && e.Stream == id {
				if s, ok := e.Field("grpc-status"); ok {
					wireStatus, _ = strconv.Atoi(s)
				}
			}
		}
	}
	app.mu.Lock()
	got := app.msgs
	gerr := app.err
	done := app.done
	invoked := app.invoked
	app.mu.Unlock()
	judge(res, sc.Role, ex, got, gerr, done, invoked, wireStatus, rs)

	// drawn-bytes oracle: a decompressor the library drives itself must never be
	// asked for more than limit+1 bytes (the EOF probe draws nothing).
	for _, d := range msgfix.Draws.Since(mark) {
		res.counters["vz_readers"]++
		if d.Drawn > res.counters["max_vz_drawn"] {
			res.counters["max_vz_drawn"] = d.Drawn
		}
		if sc.E.legacyCustom() {
			continue // third-party legacy Decompressor.Do(r): no limit can be passed to it (R2)
		}
		if d.Drawn > rs.Limit+1 || d.Overdraw {
			res.v("decompressor-overdrawn", "the %s decompressor's reader was drawn for %d bytes (overdraw=%v) with receive limit %d: more than limit+1 bytes materialized", d.Name, d.Drawn, d.Overdraw, rs.Limit)
		}
		if d.Drawn == rs.Limit+1 {
			res.counters["vz_drawn_exactly_limit_plus_1"]++
		}
	}

	cleanup()
	wg.Wait()
	<-peer.Done()
	res.sig = fmt.Sprintf("%s/%s+%s/%s/%s", sc.Role, sc.E.Enc, sc.E.Legacy, ex.End, boundary(ex, rs))
	res.counters["end_"+ex.End]++
	res.counters["messages_expected"] += int64(len(ex.Msgs))
	res.counters["messages_delivered"] += int64(len(got))
	return res
}

// boundary classifies how close the case came to the limit.
func boundary(ex msgfix.Expect, rs msgfix.RecvSide) string {
	b := ""
	for _, m := range ex.Msgs {
		if int64(len(m)) == rs.Limit {
			b = "delivered-at-limit"
		}
	}
	if ex.End == msgfix.EndTooLarge {
		switch {
		case ex.EndDeclared == rs.Limit+1:
			b += "+declared-limit+1"
		case ex.EndInflated == rs.Limit+1:
			b += "+inflated-limit+1"
		case ex.EndInflated > rs.Limit:
			b += "+inflated"
		default:
			b += "+declared"
		}
	}
	return b
}

func code(err error) codes.Code {
	if err == nil || err == io.EOF {
		return codes.OK
	}
	return status.Code(err)
}

// judge compares what the receiver's application saw with the reference.
func judge(res *result, role string, ex msgfix.Expect, got [][]byte, gerr error, done, invoked bool, wireStatus int, rs msgfix.RecvSide) {
	for i, m := range got {
		if i >= len(ex.Msgs) {
			key := "extra-message-delivered"
			switch ex.End {
			case msgfix.EndTooLarge:
				key = "oversize-message-delivered"
			case msgfix.EndBadFlag:
				key = "unknown-flag-delivered"
			case msgfix.EndFlagIdentity, msgfix.EndNoDecomp, msgfix.EndUnsupported:
				key = "compressed-without-decompressor-delivered"
			case msgfix.EndTruncBody, msgfix.EndTruncHeader:
				key = "truncated-message-delivered"
			case msgfix.EndCorrupt:
				key = "corrupt-message-delivered"
			}
			res.v(key, "%s application received message %d (%d bytes) but the byte stream holds only %d acceptable messages and then ends with %q (declared %d, inflated %d, limit %d)", role, i, len(m), len(ex.Msgs), ex.End, ex.EndDeclared, ex.EndInflated, rs.Limit)
			return
		}
		if !bytes.Equal(m, ex.Msgs[i]) {
			res.v("delivered-bytes-differ", "%s application received message %d with %d bytes, the stream holds %d bytes there (first difference at %d)", role, i, len(m), len(ex.Msgs[i]), firstDiff(m, ex.Msgs[i]))
			return
		}
	}
	if role == "server" && ex.End == msgfix.EndUnsupported {
		if wireStatus != int(codes.Unimplemented) {
			res.v("unsupported-encoding-wrong-status", "request with grpc-encoding %q (no decompressor at the server) ended with wire grpc-status %d, want UNIMPLEMENTED(12); handler invoked=%v", rs.Encoding, wireStatus, invoked)
		}
		return
	}
	if !done {
		res.v("receiver-never-finished", "%s application still blocked in RecvMsg at quiescence after the stream ended (got %d messages, expected end %q)", role, len(got), ex.End)
		return
	}
	if len(got) < len(ex.Msgs) {
		res.v("messages-lost", "%s application received %d of the %d acceptable messages before failing with %v (expected end %q)", role, len(got), len(ex.Msgs), gerr, ex.End)
		return
	}
	c := code(gerr)
	switch ex.End {
	case msgfix.EndClean:
		if gerr != io.EOF {
			res.v("clean-stream-failed", "%s: all %d messages are within the limit %d and well-formed, RecvMsg ended with %v, want EOF", role, len(ex.Msgs), rs.Limit, gerr)
		}
	case msgfix.EndTooLarge:
		if ex.TooLargeAlsoTruncated && c != codes.OK {
			break
		}
		if c != codes.ResourceExhausted {
			res.v("oversize-wrong-status", "%s: message declares %d bytes / inflates to %d with limit %d: RecvMsg ended with %v, want RESOURCE_EXHAUSTED", role, ex.EndDeclared, ex.EndInflated, rs.Limit, gerr)
		}
	case msgfix.EndTruncBody:
		if c == codes.OK {
			res.v("truncated-body-accepted", "%s: stream ended inside a payload declared as %d bytes, RecvMsg ended with %v (a clean end)", role, ex.EndDeclared, gerr)
		}
	case msgfix.EndTruncHeader:
		// The statement does not say what a stream cut inside the 5-byte prefix
		// must yield beyond "no message": both EOF and an error are accepted.
		if c == codes.OK {
			res.counters["trunc_header_reported_as_clean_eof"]++
		} else {
			res.counters["trunc_header_reported_as_error"]++
		}
	case msgfix.EndFlagIdentity:
		if c != codes.Internal && c != codes.Unimplemented {
			res.v("compressed-flag-identity-wrong-status", "%s: compressed flag on a stream with grpc-encoding %q: RecvMsg ended with %v, want INTERNAL", role, rs.Encoding, gerr)
		}
	case msgfix.EndNoDecomp:
		if c != codes.Internal {
			res.v("no-decompressor-wrong-status", "%s: compressed message with grpc-encoding %q for which no decompressor exists: RecvMsg ended with %v, want INTERNAL", role, rs.Encoding, gerr)
		}
	case msgfix.EndBadFlag, msgfix.EndCorrupt:
		if c == codes.OK {
			res.v("malformed-message-accepted", "%s: stream ends with %q but RecvMsg ended with %v (a clean end)", role, ex.End, gerr)
		}
		res.counters[fmt.Sprintf("%s_code_%v", ex.End, c)]++
	}
	if role == "server" && wireStatus >= 0 && wireStatus != int(c) {
		res.v("wire-status-differs", "server handler returned the RecvMsg error %v (code %d) but the trailers carry grpc-status %d", gerr, c, wireStatus)
	}
}

func firstDiff(a, b []byte) int {
	for i := 0; i < len(a) && i < len(b); i++ {
		if a[i] != b[i] {
			return i
		}
	}
	return min(len(a), len(b))
}

// ---- generators ----

var limits = []int{0, 1, 4, 5, 6, 100, 1000, 16384, 65535, 100000}

func sizeNear(rng *rand.Rand, limit int64, maxBytes int) int {
	var s int64
	switch rng.Intn(8) {
	case 0:
		s = 0
	case 1:
		s = 1
	case 2:
		s = limit - 1
	case 3, 4:
		s = limit
	case 5:
		s = int64(rng.Intn(maxBytes + 1))
	default:
		s = int64(rng.Intn(200))
	}
	if s < 0 {
		s = 0
	}
	if s > limit {
		s = limit
	}
	if s > int64(maxBytes) {
		s = int64(maxBytes)
	}
	return int(s)
}

func validItem(rng *rand.Rand, sc *scenario, maxBytes int) item {
	it := item{K: "plain", Size: sizeNear(rng, sc.limit(), maxBytes), PK: rng.Intn(3), Tag: rng.Uint32()}
	if sc.E.usable() && rng.Intn(2) == 0 {
		it.K = "comp"
	}
	return it
}

func genBase(rng *rand.Rand, i int) (scenario, int) {
	sc := scenario{Role: []string{"server", "client"}[i%2], E: ecfgs[(i/2)%len(ecfgs)], Split: rng.Int63(),
		Mode: vlib.Pick(rng, "whole", "rand", "rand", "tiny"), Pad: rng.Intn(3) == 0, EndSep: rng.Intn(2) == 0}
	sc.Limit = vlib.Pick(rng, limits...)
	maxBytes := 120000
	if light() {
		maxBytes = 6000
	}
	if rng.Intn(25) == 0 && !light() {
		sc.Limit = -1 // default 4 MB
		maxBytes = defaultLimit
		sc.Mode = "whole"
	}
	return sc, maxBytes
}

func genSeg(rng *rand.Rand, i int) scenario {
	sc, maxBytes := genBase(rng, i)
	n := 1 + rng.Intn(6)
	if sc.Limit < 0 {
		n = 1 + rng.Intn(2)
	}
	for k := 0; k < n; k++ {
		sc.Items = append(sc.Items, validItem(rng, &sc, maxBytes))
	}
	// and, in half of the cases, one message just over the limit at the end
	lim := sc.limit()
	switch rng.Intn(4) {
	case 0:
		sc.Items = append(sc.Items, item{K: "plain", Size: int(lim) + 1, PK: rng.Intn(3), Tag: rng.Uint32()})
	case 1:
		if sc.E.usable() {
			// compressible: the wire size is far below the limit, only the inflated size is over
			sc.Items = append(sc.Items, item{K: "comp", Size: int(lim) + 1 + vlib.Pick(rng, 0, 0, 1, 100), PK: 1 + rng.Intn(2), Tag: rng.Uint32()})
		}
	}
	if rng.Intn(3) == 0 {
		sc.Items = append(sc.Items, validItem(rng, &sc, 100))
	}
	return sc
}

var hostileKinds = []string{"lie-long", "lie-short", "lie-huge", "flag", "flag1", "empty1", "corrupt", "cut", "over-plain", "over-comp"}

func genHostile(rng *rand.Rand, i int) scenario {
	sc, _ := genBase(rng, i)
	if sc.Limit < 0 {
		sc.Limit = 65535
	}
	maxBytes := 5000
	kind := hostileKinds[(i/(2*len(ecfgs)))%len(hostileKinds)]
	for k := rng.Intn(3); k > 0; k-- {
		sc.Items = append(sc.Items, validItem(rng, &sc, maxBytes))
	}
	lim := sc.limit()
	sz := sizeNear(rng, lim, maxBytes)
	tag := rng.Uint32()
	switch kind {
	case "lie-long":
		sc.Items = append(sc.Items, item{K: "lie-long", Size: sz, Tag: tag, Arg: vlib.Pick(rng, int64(1), 1, 2, 5, 6, 100, 70000)})
	case "lie-short":
		if sz == 0 {
			sz = 1 + rng.Intn(50)
		}
		sc.Items = append(sc.Items, item{K: "lie-short", Size: sz, Tag: tag, Arg: vlib.Pick(rng, int64(1), 1, 2, 4, 5, 6, int64(sz))})
	case "lie-huge":
		sc.Items = append(sc.Items, item{K: "lie-huge", Size: rng.Intn(20), Tag: tag, PK: rng.Intn(2), Arg: vlib.Pick(rng, lim+1, lim+1, lim+2, 1<<31-1, 1<<31, 1<<32-1, 1<<32-1)})
	case "flag":
		sc.Items = append(sc.Items, item{K: "flag", Size: sz, Tag: tag, Arg: vlib.Pick(rng, int64(2), 2, 3, 0x80, 0x81, 0xfe, 0xff)})
	case "flag1": // compressed flag, whatever the stream's encoding is
		sc.Items = append(sc.Items, item{K: "comp", Size: sz, PK: rng.Intn(3), Tag: tag})
	case "empty1":
		sc.Items = append(sc.Items, item{K: "empty1"})
	case "corrupt":
		sc.Items = append(sc.Items, item{K: "corrupt", Size: 1 + sz, PK: rng.Intn(3), Tag: tag, Arg: int64(rng.Intn(1000))})
	case "cut":
		sc.Items = append(sc.Items, validItem(rng, &sc, maxBytes))
		last := sc.Items[len(sc.Items)-1]
		sc.Cut = 1 + rng.Intn(5+min(last.Size, 40))
	case "over-plain":
		sc.Items = append(sc.Items, item{K: "plain", Size: int(lim) + 1, PK: rng.Intn(3), Tag: tag})
	case "over-comp":
		sc.Items = append(sc.Items, item{K: "comp", Size: int(lim) + 1, PK: 1 + rng.Intn(2), Tag: tag})
	}
	for k := rng.Intn(3); k > 0; k-- {
		sc.Items = append(sc.Items, validItem(rng, &sc, 200))
	}
	if kind != "cut" && rng.Intn(6) == 0 {
		sc.Cut = 1 + rng.Intn(8)
	}
	return sc
}

// bombEcfgs: configurations in which the library itself drives a vz reader.
var bombEcfgs = []ecfg{{msgfix.VZA, ""}, {msgfix.VZB, ""}, {msgfix.VZA, msgfix.LZQ}, {msgfix.VZB, "gzip"}}

func genBomb(rng *rand.Rand, i int) scenario {
	sc, _ := genBase(rng, i)
	sc.E = bombEcfgs[(i/2)%len(bombEcfgs)]
	if sc.Limit < 0 {
		sc.Limit = 100000
	}
	lim := sc.limit()
	for k := rng.Intn(3); k > 0; k-- {
		sc.Items = append(sc.Items, validItem(rng, &sc, 3000))
	}
	sc.Items = append(sc.Items, item{K: "bomb", Tag: rng.Uint32(), Arg: vlib.Pick(rng, lim+1, lim+2, 2*lim+7, 1<<20, 1<<24, 1<<30, 1<<40, 1<<62)})
	if rng.Intn(2) == 0 {
		sc.Items = append(sc.Items, validItem(rng, &sc, 100))
	}
	return sc
}

var gzEcfgs = []ecfg{{msgfix.Gzip, ""}, {msgfix.Gzip, "gzip"}, {msgfix.Gzip, msgfix.LZQ}}

func genGzBomb(rng *rand.Rand, i int) scenario {
	sc := scenario{Role: []string{"server", "client"}[i%2], E: gzEcfgs[(i/2)%len(gzEcfgs)], Split: rng.Int63(), Mode: "whole", EndSep: rng.Intn(2) == 0}
	// the 80 KB compressed payload itself must pass the declared-size check
	sc.Limit = vlib.Pick(rng, 100000, 200000, 1<<20)
	if rng.Intn(2) == 0 {
		sc.Items = append(sc.Items, validItem(rng, &sc, 1000))
	}
	sc.Items = append(sc.Items, item{K: "gzbomb"})
	return sc
}

func runFam(t *testing.T, r *vlib.Run, fam string, n int, gen func(*rand.Rand, int) scenario) {
	if f := os.Getenv("VERIF_FAM"); f != "" && f != fam { // debugging aid only
		return
	}
	for i := 0; i < n; i++ {
		if !r.Want(fam, i) {
			continue
		}
		sc := gen(r.Rand(fam, i), i)
		r.Progress(fam, i, fmt.Sprintf("role=%s enc=%q legacy=%q limit=%d items=%d cut=%d mode=%s", sc.Role, sc.E.Enc, sc.E.Legacy, sc.Limit, len(sc.Items), sc.Cut, sc.Mode))
		var res *result
		synctest.Test(t, func(t *testing.T) { res = runWire(sc) })
		report(r, fam, i, sc, res)
	}
}

func report(r *vlib.Run, fam string, i int, sc any, res *result) {
	r.Eval(1)
	for _, x := range res.viol {
		r.Violation(x[0], fam, i, sc, "%s", x[1])
	}
	keys := make([]string, 0, len(res.counters))
	for k := range res.counters {
		keys = append(keys, k)
	}
	sort.Strings(keys)
	for _, k := range keys {
		if len(k) > 4 && k[:4] == "max_" {
			r.Max(k, res.counters[k])
		} else {
			r.Count(k, res.counters[k])
		}
	}
	if res.sig != "" {
		r.Nontrivial(fam + ":" + res.sig)
	}
	if i < 1 {
		r.Sample(map[string]any{"family": fam, "scenario": sc, "counters": res.counters, "signature": res.sig})
	}
}

// floor: the must-hit prefix (role x encoding configuration x hostile kind by
// index) guarantees far more distinct signatures than this in either mode.
func floor() int {
	if light() {
		return 25
	}
	return 150
}

func div() int {
	if light() {
		return 16
	}
	return 1
}

func TestVerifC06(t *testing.T) {
	r := vlib.Start(t, "C06")
	runFam(t, r, "seg", r.N(700, 7000)/div(), genSeg)
	runFam(t, r, "hostile", r.N(960, 9600)/div(), genHostile)
	runFam(t, r, "bomb", r.N(160, 1600)/div(), genBomb)
	runFam(t, r, "gzbomb", r.N(12, 60)/div(), genGzBomb)
	runE2E(t, r, r.N(200, 2000)/div())
	r.Finish(vlib.Spec{
		Level: "exploration",
		Rule:  "E1: a scripted HTTP/2 peer sends a byte stream to a real server handler / real client application (receive limit in {0,1,4,5,6,100,1000,16384,65535,100000, default 4MB}; 12 grpc-encoding x decompressor configurations: absent, identity, registered gzip / vz-a / vz-b, legacy gzip, legacy custom, legacy shadowing a registered one, unknown, mismatching legacy) segmented into DATA frames of 0..16384 bytes (1-6 byte frames in mode tiny) with optional padding. Families: seg = valid messages of sizes {0,1,limit-1,limit,random} plain or compressed plus optionally one of size limit+1 (plain or highly compressible); hostile = one of {declared>actual, declared<actual, declared in {limit+1,2^31-1,2^31,2^32-1}, flag byte in {2,3,0x80,0x81,0xfe,0xff}, compressed flag on any encoding, compressed flag on empty payload, corrupt compressed payload, stream cut 1..45 bytes short, limit+1 plain, limit+1 inflated} between valid messages; bomb = 12-byte vz payload declaring limit+1..2^62 bytes; gzbomb = 64KB gzip inflating to 64MB; e2e = real client <-> real server echo with 0-6 messages around both limits and compressor in {none, gzip, vz-a, legacy gzip, legacy custom}. Oracle = msgfix.Reference (independent parser of the length-prefixed stream): delivered messages equal the acceptable prefix byte for byte, oversize (declared or inflated) => RESOURCE_EXHAUSTED, truncated body / unknown flag / corrupt => error, compressed flag with identity => INTERNAL, without decompressor => INTERNAL (client) / UNIMPLEMENTED (server), bytes drawn from a library-driven decompressor <= limit+1, TotalAlloc delta of a gzip bomb <= 8*limit+24MB. non-trivial = the case reached its judged end; distinct = (role, encoding+legacy, reference end, boundary class: delivered-at-limit / declared-limit+1 / inflated-limit+1 / ...)",
		Assumptions: []string{
			"compress/gzip (stdlib) is the reference for gzip payloads; the vz format's reference decoder is msgfix.VZDecode",
			"a stream cut inside the 5-byte prefix may be reported as clean EOF or as an error (the statement only requires that no message is delivered); counted in trunc_header_reported_as_*",
			"third-party legacy Decompressor.Do(io.Reader) cannot be told the limit: the limit+1 materialization bound is judged for registered compressors and the built-in legacy gzip decompressor only",
			"a declaration over the limit that is also cut short may fail with RESOURCE_EXHAUSTED or a truncation error",
		},
		Floor: floor(),
	})
}
