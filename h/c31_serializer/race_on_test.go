//go:build race

package c31

const raceEnabled = true
