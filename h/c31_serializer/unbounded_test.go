package c31

import (
	"fmt"
	"math/rand"
	"runtime"
	"sync"
	"sync/atomic"

	"github.com/anishathalye/porcupine"
	"google.golang.org/grpc/internal/buffer"
	"google.golang.org/grpc/verif/hist"
	"google.golang.org/grpc/verif/vlib"
)

type ubIn struct {
	ID       int64 `json:"id"`
	Producer int   `json:"p"`
	Seq      int   `json:"seq"`
}

type ubCfg struct {
	Producers  int  `json:"producers"`
	PerProd    int  `json:"per_producer"`
	CloseAt    int  `json:"close_after_puts"` // > total: after all producers returned
	LateProd   int  `json:"late_puts"`        // puts invoked after Close() returned
	ExtraLoads bool `json:"extra_loads"`      // a bystander calls Load() concurrently (legal: all methods are thread-safe)
	SpinMax    int  `json:"spin_max"`
	DoubleClos bool `json:"double_close"`
}

type ubViolation struct {
	Cfg     ubCfg     `json:"cfg"`
	Witness any       `json:"witness,omitempty"`
	History []hist.Op `json:"history,omitempty"`
}

// ubState is the porcupine state of the FIFO-queue-with-close model: queued ids
// (one byte each) and the closing flag.
type ubState struct {
	q      string
	closed bool
}

// ubModel: sequential specification written from the statement: "delivers
// every value exactly once in order and signals end-of-stream only after all
// values were consumed"; Put fails once Close took effect.
var ubModel = porcupine.Model{
	Init: func() any { return ubState{} },
	Step: func(st, in, out any) (bool, any) {
		s := st.(ubState)
		op := in.(hist.Op)
		_, open := out.(hist.OpenOutput)
		switch op.Kind {
		case "put":
			id := byte(op.In.(ubIn).ID)
			if open {
				// effect may or may not have happened: model "happened if not closed"
				if s.closed {
					return true, s
				}
				return true, ubState{q: s.q + string([]byte{id}), closed: false}
			}
			if out.(string) == "ok" {
				if s.closed {
					return false, s
				}
				return true, ubState{q: s.q + string([]byte{id}), closed: false}
			}
			return s.closed, s
		case "close":
			return true, ubState{q: s.q, closed: true}
		case "recv":
			if open {
				return true, s
			}
			v := out.(int64)
			if v == -1 { // end of stream
				return s.closed && len(s.q) == 0, s
			}
			if len(s.q) == 0 || s.q[0] != byte(v) {
				return false, s
			}
			return true, ubState{q: s.q[1:], closed: s.closed}
		}
		return false, s
	},
}

func runUnboundedShort(r *vlib.Run, mode string) {
	const fam = "ub-short"
	n := r.N(5000, 50000)
	if raceEnabled {
		n = r.N(2200, 14000)
	}
	var hangs atomic.Int32
	forCases(r, fam, n, 8, func(i int, rng *rand.Rand) {
		if hangs.Load() >= 2 {
			return
		}
		cfg := ubCfg{
			Producers:  2 + rng.Intn(2),
			PerProd:    2 + rng.Intn(4),
			LateProd:   rng.Intn(3),
			ExtraLoads: rng.Intn(3) == 0,
			SpinMax:    vlib.Pick(rng, 0, 0, 20, 200),
			DoubleClos: rng.Intn(4) == 0,
		}
		total := cfg.Producers * cfg.PerProd
		cfg.CloseAt = rng.Intn(total*3/2 + 1)
		if !ubCase(r, mode, fam, i, cfg, rng, true) {
			hangs.Add(1)
		}
	})
}

func runUnboundedLong(r *vlib.Run, mode string) {
	const fam = "ub-long"
	n := r.N(160, 1500)
	perMax := r.N(1500, 3000)
	if raceEnabled {
		n = r.N(70, 350)
		perMax = r.N(200, 600)
	}
	var hangs atomic.Int32
	forCases(r, fam, n, 8, func(i int, rng *rand.Rand) {
		if hangs.Load() >= 2 {
			return
		}
		cfg := ubCfg{
			Producers:  2 + rng.Intn(7),
			PerProd:    20 + rng.Intn(perMax),
			LateProd:   rng.Intn(4),
			ExtraLoads: rng.Intn(3) == 0,
			SpinMax:    vlib.Pick(rng, 0, 0, 50, 1000),
			DoubleClos: rng.Intn(4) == 0,
		}
		total := cfg.Producers * cfg.PerProd
		cfg.CloseAt = rng.Intn(total*5/4 + 1)
		if i%4 == 0 {
			cfg.CloseAt = total + 1
		}
		if !ubCase(r, mode, fam, i, cfg, rng, false) {
			hangs.Add(1)
		}
	})
}

func ubCase(r *vlib.Run, mode, fam string, ci int, cfg ubCfg, rng *rand.Rand, short bool) bool {
	b := buffer.NewUnbounded[int64]()
	rec := hist.NewRecorder()
	var puts atomic.Int64
	var mainDone, consumerDone, abandon atomic.Bool
	var all, mainWG sync.WaitGroup
	var nextID atomic.Int64
	closedCh := make(chan struct{})
	nb := cfg.Producers + 2
	if cfg.ExtraLoads {
		nb++
	}
	bar := newBarrier(nb)

	put := func(l *hist.Log, p, seq int) {
		id := nextID.Add(1)
		h := l.Call("put", "", ubIn{ID: id, Producer: p, Seq: seq})
		if err := b.Put(id); err != nil {
			l.Return(h, "err")
		} else {
			l.Return(h, "ok")
		}
		puts.Add(1)
	}
	for p := 0; p < cfg.Producers; p++ {
		l := rec.Client()
		prng := rand.New(rand.NewSource(rng.Int63()))
		all.Add(1)
		mainWG.Add(1)
		go func(p int) {
			defer all.Done()
			bar.wait()
			for s := 0; s < cfg.PerProd; s++ {
				put(l, p, s)
				pause(prng, cfg.SpinMax)
			}
			mainWG.Done()
			if p == 0 && cfg.LateProd > 0 {
				<-closedCh // Close() has returned
				for s := 0; s < cfg.LateProd; s++ {
					put(l, p, cfg.PerProd+s)
				}
			}
		}(p)
	}
	go func() { mainWG.Wait(); mainDone.Store(true) }()
	// the single consumer: receive, then Load (the documented protocol)
	cl := rec.Client()
	crng := rand.New(rand.NewSource(rng.Int63()))
	all.Add(1)
	go func() {
		defer all.Done()
		defer consumerDone.Store(true)
		bar.wait()
		for {
			h := cl.Call("recv", "", nil)
			v, ok := <-b.Get()
			if !ok {
				cl.Return(h, int64(-1))
				return
			}
			cl.Return(h, v)
			pause(crng, cfg.SpinMax)
			b.Load()
		}
	}()
	// the closer
	kl := rec.Client()
	all.Add(1)
	go func() {
		defer all.Done()
		bar.wait()
		waitUntil(func() bool { return puts.Load() >= int64(cfg.CloseAt) || mainDone.Load() })
		h := kl.Call("close", "", nil)
		b.Close()
		kl.Return(h, nil)
		close(closedCh)
		if cfg.DoubleClos {
			h := kl.Call("close", "", nil)
			b.Close()
			kl.Return(h, nil)
		}
	}()
	if cfg.ExtraLoads {
		lrng := rand.New(rand.NewSource(rng.Int63()))
		go func() {
			bar.wait()
			for !consumerDone.Load() && !abandon.Load() {
				b.Load()
				spin(lrng.Intn(4*cfg.SpinMax + 400))
				runtime.Gosched()
			}
		}()
	}
	finished := waitTimeout(&all, hangTimeout)
	abandon.Store(true)
	if !finished {
		r.Inconclusive("%s case %d: consumer never saw end-of-stream within %v after Close(); partial history judged", fam, ci, hangTimeout)
	}
	ops := rec.Ops()
	judgeUnbounded(r, mode, fam, ci, cfg, ops, finished, short)
	return finished
}

func judgeUnbounded(r *vlib.Run, mode, fam string, ci int, cfg ubCfg, ops []hist.Op, finished, short bool) {
	r.Eval(1)
	viol := func(key string, witness any, format string, a ...any) {
		h := ops
		if len(h) > 400 {
			h = nil
		}
		r.Violation(key, fam, ci, ubViolation{Cfg: cfg, Witness: witness, History: h}, format, a...)
	}
	var closeCall, closeRet int64 // of the first Close
	var must, never, may, recvd []int64
	sub := map[int64]hist.Submitted{}
	sawEOS := false
	var eosAt int64
	concurrent, nOK, nErr := 0, 0, 0
	var maxRet int64
	for _, o := range ops {
		switch o.Kind {
		case "close":
			if closeCall == 0 {
				closeCall, closeRet = o.Call, o.Ret
			}
		}
	}
	for _, o := range ops {
		switch o.Kind {
		case "put":
			in := o.In.(ubIn)
			if o.Call < maxRet {
				concurrent++
			}
			if o.Ret > maxRet {
				maxRet = o.Ret
			}
			sub[in.ID] = hist.Submitted{ID: in.ID, Producer: in.Producer, Seq: in.Seq, Call: o.Call, Ret: o.Ret}
			if o.Open() {
				may = append(may, in.ID)
				continue
			}
			if o.Out.(string) == "ok" {
				nOK++
				must = append(must, in.ID)
				if closeRet != 0 && o.Call > closeRet {
					viol("put-accepted-after-close", o, "Put(%d) was invoked (stamp %d) after Close() had returned (stamp %d) and returned nil", in.ID, o.Call, closeRet)
				}
			} else {
				nErr++
				never = append(never, in.ID)
				if closeCall == 0 || o.Ret < closeCall {
					viol("put-rejected-before-close", o, "Put(%d) returned an error (stamp %d) before Close() was invoked (stamp %d)", in.ID, o.Ret, closeCall)
				}
			}
		case "recv":
			if o.Open() {
				continue
			}
			v := o.Out.(int64)
			if v == -1 {
				sawEOS, eosAt = true, o.Ret
			} else {
				recvd = append(recvd, v)
				if sawEOS {
					viol("value-after-end-of-stream", o, "value %d received after the channel had been reported closed", v)
				}
			}
		}
	}
	if sawEOS && closeCall != 0 && eosAt < closeCall {
		viol("end-of-stream-before-close", eosAt, "channel closed (observed at stamp %d) before Close() was invoked (stamp %d)", eosAt, closeCall)
	}
	if !sawEOS {
		// the consumer is still blocked: accepted values may legitimately be pending
		may = append(may, must...)
		must = nil
	}
	rep := hist.ExactlyOnce(must, may, never, recvd)
	if len(rep.Missing) > 0 {
		viol("closed-before-drained", rep, "end-of-stream was signalled although %d accepted value(s) were never delivered, e.g. %d", len(rep.Missing), rep.Missing[0])
	}
	if len(rep.Duplicate) > 0 {
		viol("value-delivered-twice", rep, "value %d delivered more than once", rep.Duplicate[0])
	}
	if len(rep.Forbidden) > 0 {
		viol("rejected-value-delivered", rep, "value %d was delivered although its Put returned an error", rep.Forbidden[0])
	}
	if len(rep.Phantom) > 0 {
		viol("phantom-value", rep, "value %d was delivered but never Put", rep.Phantom[0])
	}
	if sawEOS && rep.OK() && !hist.Conservation(int64(nOK), int64(len(recvd)), 0) {
		viol("conservation", []int{nOK, len(recvd)}, "accepted %d values, delivered %d, none held after end-of-stream", nOK, len(recvd))
	}
	effects := make([]hist.Submitted, 0, len(recvd))
	seen := map[int64]bool{}
	for _, id := range recvd {
		if s, ok := sub[id]; ok && !seen[id] {
			seen[id] = true
			effects = append(effects, s)
		}
	}
	if inv := hist.PerProducerFIFO(effects); inv != nil {
		viol("fifo-per-producer", inv, "value %d (seq %d) of producer %d was delivered after its later value %d (seq %d)", inv.Later.ID, inv.Later.Seq, inv.Later.Producer, inv.Earlier.ID, inv.Earlier.Seq)
	}
	if inv := hist.RealTimeOrder(effects); inv != nil {
		viol("real-time-order", inv, "value %d was delivered before value %d although Put(%d) had returned (stamp %d) before Put(%d) was invoked (stamp %d)",
			inv.Earlier.ID, inv.Later.ID, inv.Later.ID, inv.Later.Ret, inv.Earlier.ID, inv.Earlier.Call)
	}
	if short {
		if len(ops) <= 60 {
			switch hist.CheckLinearizable(ubModel, ops) {
			case hist.NotLinearizable:
				viol("not-linearizable-fifo-queue", nil, "history of %d operations has no sequential FIFO-queue-with-close explanation", len(ops))
			case hist.Unknown:
				r.Inconclusive("%s case %d: porcupine timed out on %d operations", fam, ci, len(ops))
			default:
				r.Count("ub_porcupine_histories_ok", 1)
			}
			r.Count("ub_porcupine_ops", int64(len(ops)))
		} else {
			r.Count("ub_short_history_too_long_for_porcupine", 1)
		}
	}
	r.Count("ub_puts_ok", int64(nOK))
	r.Count("ub_puts_rejected", int64(nErr))
	r.Count("ub_values_delivered", int64(len(recvd)))
	r.Count("ub_concurrent_puts", int64(concurrent))
	mid := nOK > 0 && nErr > 0
	if mid {
		r.Count("ub_cases_close_midstream", 1)
	}
	if concurrent > 0 || mid {
		r.Nontrivial(fmt.Sprintf("%s/%s/p%d/ov%d/mid%d/xl%d", mode, fam, cfg.Producers, bucket(concurrent), b2i(mid), b2i(cfg.ExtraLoads)))
	}
	if ci < 1 {
		r.Sample(map[string]any{"family": fam, "case": ci, "cfg": cfg, "puts_ok": nOK, "puts_rejected": nErr, "delivered": len(recvd), "concurrent_puts": concurrent})
	}
}
