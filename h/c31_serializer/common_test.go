// C31: grpcsync.CallbackSerializer, buffer.Unbounded and grpcsync.PubSub judged
// on recorded concurrent histories (engine E5, package hist).
//
// Everything here judges *safety facts of a finished history*: stamps come
// from hist's global logical clock (call stamped before invoking, return after),
// never from wall-clock time.  The only waiting is "wait for the real code to
// finish or a generous timeout"; a timeout is reported inconclusive.
package c31

import (
	"math/rand"
	"runtime"
	"sync"
	"sync/atomic"
	"testing"
	"time"

	"google.golang.org/grpc/verif/vlib"
)

// hangTimeout bounds how long a case waits for the real code to finish a
// shutdown it must finish.  Expiry is INCONCLUSIVE (rule 1), never a violation.
const hangTimeout = 30 * time.Second

var spinSink atomic.Int64

// spin burns roughly n loop iterations without yielding the processor.
func spin(n int) {
	var x int64
	for i := 0; i < n; i++ {
		x += int64(i)
	}
	spinSink.Add(x & 1)
}

// pause perturbs a goroutine's timing: nothing, a short spin or a yield.
func pause(rng *rand.Rand, max int) {
	switch rng.Intn(4) {
	case 0:
	case 1:
		runtime.Gosched()
	default:
		if max > 0 {
			spin(rng.Intn(max))
		}
	}
}

// barrier releases all participants at (nearly) the same moment so that short
// programs really overlap.
type barrier struct {
	n     int32
	ready atomic.Int32
}

func newBarrier(n int) *barrier { return &barrier{n: int32(n)} }

func (b *barrier) wait() {
	b.ready.Add(1)
	for b.ready.Load() < b.n {
		runtime.Gosched()
	}
}

// waitUntil polls cond: a short yield phase (keeps short programs tightly
// overlapped), then micro-sleeps (keeps long waits from burning a core that the
// goroutines being waited for need on a loaded machine).
func waitUntil(cond func() bool) {
	for i := 0; !cond(); i++ {
		if i < 200 {
			runtime.Gosched()
		} else {
			time.Sleep(5 * time.Microsecond)
		}
	}
}

// waitTimeout waits for wg or the hang timeout.
func waitTimeout(wg *sync.WaitGroup, d time.Duration) bool {
	ch := make(chan struct{})
	go func() { wg.Wait(); close(ch) }()
	select {
	case <-ch:
		return true
	case <-time.After(d):
		return false
	}
}

// forCases runs cases [0,n) of a family on par workers.  Every case is a pure
// function of (seed, family, i) as far as its *program* is concerned; the
// schedule is whatever the Go runtime does.
func forCases(r *vlib.Run, fam string, n, par int, f func(i int, rng *rand.Rand)) {
	var wg sync.WaitGroup
	ch := make(chan int)
	for w := 0; w < par; w++ {
		wg.Add(1)
		go func() {
			defer wg.Done()
			for i := range ch {
				f(i, r.Rand(fam, i))
			}
		}()
	}
	for i := 0; i < n; i++ {
		if r.Want(fam, i) {
			ch <- i
		}
	}
	close(ch)
	wg.Wait()
}

func bucket(n int) int {
	b := 0
	for n > 0 {
		n /= 4
		b++
	}
	return b
}

func b2i(b bool) int {
	if b {
		return 1
	}
	return 0
}

func TestVerifC31(t *testing.T) {
	r := vlib.Start(t, "C31")
	stop := r.Watchdog(time.Duration(r.N(8, 35)) * time.Minute)
	defer stop()
	mode := "norace"
	if raceEnabled {
		mode = "race"
	}
	timed := func(name string, f func(*vlib.Run, string)) {
		t0 := time.Now()
		f(r, mode)
		r.Count("wall_ms_"+name, time.Since(t0).Milliseconds())
	}
	timed("ser", runSerializer)
	timed("ub_short", runUnboundedShort)
	timed("ub_long", runUnboundedLong)
	timed("ps", runPubSub)
	r.Finish(vlib.Spec{
		Level: "exploration",
		Rule: "PRNG-generated concurrent programs against the real CallbackSerializer / Unbounded / PubSub (" + mode + " build); " +
			"families: ser (2-6 producers x TrySchedule/ScheduleOr, ScheduleAndWait waiters, cancel at a PRNG point, late submitters), " +
			"ub-short (<=40-op histories, porcupine FIFO-queue-with-close model), ub-long (linear exactly-once/FIFO/real-time-order), " +
			"ps (permanent + dynamic subscribers). A case is non-trivial when submit calls of different clients overlapped in logical time " +
			"or the shutdown/unsubscribe landed mid-stream; distinct = (family, build mode, #clients, overlap bucket, mid-stream flags, outcome classes seen)",
		Assumptions: []string{
			"stamps: one global atomic logical clock, call stamped before invoking and return after; only 'A returned before B was invoked' is used as precedence",
			"shutdown of a serializer is judged by what the serializer reports (onFailure / ErrSerializerClosed / Done), see R2 note in the test source; submissions that returned before cancel() was invoked must be accepted",
			"schedules are sampled by the Go scheduler (optionally under -race), not enumerated",
			"porcupine v1.3.0 with a 60 s budget per history (timeout => inconclusive)",
		},
		Floor: 25,
	})
}
