package c31

import (
	"context"
	"fmt"
	"math/rand"
	"sync"
	"sync/atomic"
	"time"

	"google.golang.org/grpc/internal/grpcsync"
	"google.golang.org/grpc/verif/hist"
	"google.golang.org/grpc/verif/vlib"
)

type psCfg struct {
	Publishers int `json:"publishers"`
	PerPub     int `json:"per_publisher"`
	Subs       int `json:"dynamic_subscribers"`
	SpinMax    int `json:"spin_max"`
}

type psIn struct {
	ID        int64 `json:"id"`
	Publisher int   `json:"p"`
	Seq       int   `json:"seq"`
}

type psViolation struct {
	Cfg     psCfg     `json:"cfg"`
	Witness any       `json:"witness,omitempty"`
	History []hist.Op `json:"history,omitempty"`
}

// psSub is a Subscriber that records every delivery in its own log.  A fresh
// object is used for every subscription (the helper identifies subscribers by
// identity; re-subscribing the same object is outside the statement).
type psSub struct {
	name string
	log  *hist.Log
}

func (s *psSub) OnMessage(msg any) { s.log.Point("deliver", s.name, msg.(int64)) }

func runPubSub(r *vlib.Run, mode string) {
	const fam = "ps"
	n := r.N(400, 4000)
	if raceEnabled {
		n = r.N(250, 2000)
	}
	var hangs atomic.Int32
	forCases(r, fam, n, 8, func(i int, rng *rand.Rand) {
		if hangs.Load() >= 2 {
			return
		}
		cfg := psCfg{
			Publishers: 1 + rng.Intn(3),
			PerPub:     3 + rng.Intn(r.N(80, 300)),
			Subs:       1 + rng.Intn(6),
			SpinMax:    vlib.Pick(rng, 0, 20, 200, 2000),
		}
		if !psCase(r, mode, fam, i, cfg, rng) {
			hangs.Add(1)
		}
	})
}

func psCase(r *vlib.Run, mode, fam string, ci int, cfg psCfg, rng *rand.Rand) bool {
	ctx, cancel := context.WithCancel(context.Background())
	defer cancel()
	ps := grpcsync.NewPubSub(ctx)
	rec := hist.NewRecorder()

	// S0: subscribed before anything is published, never unsubscribes: its view
	// defines the publish order (after being checked itself).
	s0 := &psSub{name: "s0", log: rec.Client()}
	ps.Subscribe(s0)

	var all, pubWG sync.WaitGroup
	var nextID atomic.Int64
	var published atomic.Int64
	total := cfg.Publishers * cfg.PerPub
	bar := newBarrier(cfg.Publishers + cfg.Subs)
	for p := 0; p < cfg.Publishers; p++ {
		l := rec.Client()
		prng := rand.New(rand.NewSource(rng.Int63()))
		all.Add(1)
		pubWG.Add(1)
		go func(p int) {
			defer all.Done()
			defer pubWG.Done()
			bar.wait()
			for s := 0; s < cfg.PerPub; s++ {
				id := nextID.Add(1)
				h := l.Call("publish", "", psIn{ID: id, Publisher: p, Seq: s})
				ps.Publish(id)
				l.Return(h, nil)
				published.Add(1)
				pause(prng, cfg.SpinMax)
			}
		}(p)
	}
	for s := 0; s < cfg.Subs; s++ {
		l := rec.Client()
		prng := rand.New(rand.NewSource(rng.Int63()))
		name := fmt.Sprintf("d%d", s)
		subAt := prng.Intn(total + 1)
		hold := prng.Intn(total/2 + 2)
		never := prng.Intn(3) == 0 // stays subscribed to the end
		all.Add(1)
		go func() {
			defer all.Done()
			bar.wait()
			waitUntil(func() bool { return published.Load() >= int64(subAt) })
			sub := &psSub{name: name, log: l}
			h := l.Call("subscribe", name, nil)
			cancelSub := ps.Subscribe(sub)
			l.Return(h, nil)
			if never {
				return
			}
			stopAt := published.Load() + int64(hold)
			waitUntil(func() bool { return published.Load() >= stopAt || published.Load() >= int64(total) })
			h = l.Call("unsubscribe", name, nil)
			cancelSub()
			l.Return(h, nil)
		}()
	}
	finished := waitTimeout(&all, hangTimeout)
	var doneAt int64
	if finished {
		// all Publish calls have returned: stop, and wait for the pending deliveries
		cancel()
		select {
		case <-ps.Done():
			doneAt = hist.Tick()
		case <-time.After(hangTimeout):
			finished = false
		}
	}
	if !finished {
		r.Inconclusive("ps case %d: PubSub did not finish within %v", ci, hangTimeout)
		return false
	}
	judgePubSub(r, mode, fam, ci, cfg, rec.Ops(), doneAt)
	return true
}

func judgePubSub(r *vlib.Run, mode, fam string, ci int, cfg psCfg, ops []hist.Op, doneAt int64) {
	r.Eval(1)
	viol := func(key string, witness any, format string, a ...any) {
		h := ops
		if len(h) > 400 {
			h = nil
		}
		r.Violation(key, fam, ci, psViolation{Cfg: cfg, Witness: witness, History: h}, format, a...)
	}
	pubs := map[int64]hist.Submitted{}
	var pubIDs []int64
	deliveries := map[string][]hist.Op{}
	subCall, subRet, unsubRet := map[string]int64{}, map[string]int64{}, map[string]int64{}
	var names []string
	for _, o := range ops {
		switch o.Kind {
		case "publish":
			in := o.In.(psIn)
			pubs[in.ID] = hist.Submitted{ID: in.ID, Producer: in.Publisher, Seq: in.Seq, Call: o.Call, Ret: o.Ret}
			pubIDs = append(pubIDs, in.ID)
		case "deliver":
			deliveries[o.Key] = append(deliveries[o.Key], o)
			if o.Call > doneAt {
				viol("delivery-after-done", o, "delivery of %v to %s at stamp %d after Done() was observed closed (%d)", o.In, o.Key, o.Call, doneAt)
			}
		case "subscribe":
			subCall[o.Key], subRet[o.Key] = o.Call, o.Ret
			names = append(names, o.Key)
		case "unsubscribe":
			unsubRet[o.Key] = o.Ret
		}
	}
	// --- S0: every published value exactly once, in an order that extends the
	// real-time order of the Publish calls and each publisher's program order.
	var s0ids []int64
	for _, d := range deliveries["s0"] {
		s0ids = append(s0ids, d.In.(int64))
	}
	rep := hist.ExactlyOnce(pubIDs, nil, nil, s0ids)
	if len(rep.Missing) > 0 {
		viol("published-value-not-delivered", rep, "%d published value(s) never reached the permanent subscriber before Done(), e.g. %d", len(rep.Missing), rep.Missing[0])
	}
	if len(rep.Duplicate) > 0 {
		viol("value-delivered-twice", rep, "value %d delivered twice to the permanent subscriber", rep.Duplicate[0])
	}
	if len(rep.Phantom) > 0 {
		viol("phantom-value", rep, "value %d delivered but never published", rep.Phantom[0])
	}
	pos := map[int64]int{}
	var effects []hist.Submitted
	for _, id := range s0ids {
		if _, dup := pos[id]; dup {
			continue
		}
		if s, ok := pubs[id]; ok {
			pos[id] = len(effects)
			effects = append(effects, s)
		}
	}
	if inv := hist.PerProducerFIFO(effects); inv != nil {
		viol("publish-order-per-publisher", inv, "value %d (seq %d) of publisher %d delivered after its later value %d", inv.Later.ID, inv.Later.Seq, inv.Later.Producer, inv.Earlier.ID)
	}
	if inv := hist.RealTimeOrder(effects); inv != nil {
		viol("publish-order-real-time", inv, "value %d delivered before %d although Publish(%d) returned before Publish(%d) was invoked", inv.Earlier.ID, inv.Later.ID, inv.Later.ID, inv.Earlier.ID)
	}
	s0ok := rep.OK()
	n := len(effects)
	// --- dynamic subscribers
	midStart, midStop, emptyAfterCancel := 0, 0, 0
	for _, name := range names {
		ds := deliveries[name]
		sc, sr := subCall[name], subRet[name]
		ur, cancelled := unsubRet[name]
		for _, d := range ds {
			if cancelled && ur != 0 && d.Call > ur {
				viol("delivery-after-unsubscribe", d, "value %v delivered to %s at stamp %d after its cancel function had returned (stamp %d)", d.In, name, d.Call, ur)
				break
			}
		}
		if !s0ok {
			continue // no trustworthy publish order to compare with
		}
		// contiguity
		ok := true
		for k, d := range ds {
			p, known := pos[d.In.(int64)]
			if !known {
				viol("phantom-value", d, "value %v delivered to %s but never published", d.In, name)
				ok = false
				break
			}
			if k > 0 {
				if prev := pos[ds[k-1].In.(int64)]; p != prev+1 {
					viol("subscriber-sequence-not-contiguous", []any{ds[k-1], d}, "%s received value %v (publish position %d) right after value %v (position %d): not the next published value", name, d.In, p, ds[k-1].In, prev)
					ok = false
					break
				}
			}
		}
		if !ok {
			continue
		}
		// start: L = number of publishes that took effect before the Subscribe.
		// Publishes that returned before Subscribe was invoked are certainly
		// among them; publishes invoked after Subscribe returned certainly not.
		lo, hi := 0, n
		for id, s := range pubs {
			p := pos[id]
			if s.Ret != 0 && s.Ret < sc && p+1 > lo {
				lo = p + 1
			}
			if s.Call > sr && p < hi {
				hi = p
			}
		}
		startLo, startHi := lo-1, hi-1 // first delivered position = max(L-1, 0)
		if startLo < 0 {
			startLo = 0
		}
		if startHi < 0 {
			startHi = 0
		}
		if len(ds) > 0 {
			first := pos[ds[0].In.(int64)]
			if first < startLo || first > startHi {
				viol("subscriber-wrong-first-value", map[string]any{"sub": name, "first_pos": first, "allowed": []int{startLo, startHi}},
					"%s first received publish position %d; with %d publishes certainly before and position >= %d certainly after the Subscribe call the first value must be at a position in [%d,%d]", name, first, lo, hi, startLo, startHi)
			}
			if first > 0 {
				midStart++
			}
			last := pos[ds[len(ds)-1].In.(int64)]
			if !cancelled && last != n-1 {
				viol("subscriber-missed-tail", map[string]any{"sub": name, "last_pos": last, "n": n}, "%s never unsubscribed but its last value is publish position %d of %d", name, last, n)
			}
			if cancelled && last < n-1 {
				midStop++
			}
		} else {
			if !cancelled && n > 0 {
				viol("subscriber-missed-tail", map[string]any{"sub": name, "n": n}, "%s never unsubscribed, %d values were published, none was delivered to it", name, n)
			}
			if cancelled {
				emptyAfterCancel++
			}
		}
	}
	r.Count("ps_published", int64(len(pubIDs)))
	r.Count("ps_subscriptions", int64(len(names)))
	r.Count("ps_subscribed_midstream", int64(midStart))
	r.Count("ps_unsubscribed_midstream", int64(midStop))
	concurrent := 0
	var maxRet int64
	for _, o := range ops {
		if o.Kind != "publish" && o.Kind != "subscribe" && o.Kind != "unsubscribe" {
			continue
		}
		if o.Call < maxRet {
			concurrent++
		}
		if o.Ret > maxRet {
			maxRet = o.Ret
		}
	}
	r.Count("ps_concurrent_calls", int64(concurrent))
	if midStart > 0 || midStop > 0 || concurrent > 0 {
		r.Nontrivial(fmt.Sprintf("%s/ps/pub%d/sub%d/ms%d/mu%d/ov%d", mode, cfg.Publishers, cfg.Subs, b2i(midStart > 0), b2i(midStop > 0), bucket(concurrent)))
	}
	if ci < 1 {
		r.Sample(map[string]any{"family": fam, "case": ci, "cfg": cfg, "published": len(pubIDs), "subscribed_midstream": midStart, "unsubscribed_midstream": midStop})
	}
}
