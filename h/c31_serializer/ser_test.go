package c31

import (
	"context"
	"fmt"
	"math/rand"
	"sync"
	"sync/atomic"
	"time"

	"google.golang.org/grpc/internal/grpcsync"
	"google.golang.org/grpc/verif/hist"
	"google.golang.org/grpc/verif/vlib"
)

// serIn is the input of a recorded submit.
type serIn struct {
	ID       int64  `json:"id"`
	Producer int    `json:"p"`
	Seq      int    `json:"seq"`
	Mode     string `json:"mode"`  // try | or | wait
	Phase    string `json:"phase"` // main | late (late = invoked after Done() was observed closed)
}

type serCfg struct {
	Producers int `json:"producers"`
	Waiters   int `json:"waiters"`
	PerProd   int `json:"per_producer"`
	PerWaiter int `json:"per_waiter"`
	CancelAt  int `json:"cancel_after_submits"` // > total: after the main phase
	Late      int `json:"late_per_producer"`
	SlowEvery int `json:"slow_every"`
	SpinMax   int `json:"spin_max"`
}

type serViolation struct {
	Cfg     serCfg    `json:"cfg"`
	Witness any       `json:"witness,omitempty"`
	History []hist.Op `json:"history,omitempty"`
}

// R2 note.  The statement says "work submitted after shutdown never runs and
// its submitter is told so".  The serializer is shut down by cancelling its
// context, but the implementation closes its queue from a context.AfterFunc
// goroutine, i.e. asynchronously: a submit invoked shortly after cancel()
// returned can still be accepted (and then runs before Done()).  The callers in
// grpc (balancer_wrapper, resolver_wrapper) are written for that (they test
// ctx.Err() inside the callback).  The verdict therefore uses the reading that
// correct code satisfies and that still catches real breaks:
//   * a submit that RETURNED before cancel() was INVOKED must be accepted;
//   * a submit whose submitter was told "failed" never runs;
//   * a submit whose submitter was not told "failed" (ScheduleOr without
//     onFailure, ScheduleAndWait == nil) runs exactly once, before Done();
//   * a submit INVOKED after Done() was observed closed is rejected / never runs;
//   * nothing runs after Done() was observed closed.
// Submits accepted although they were invoked after cancel() had returned are
// only *counted* (counter ser_accepted_after_cancel_returned): the doc comments
// of TrySchedule/ScheduleOr promise a rejection there, the statement does not
// unambiguously do so (DESIGN.md §4 C31 does not list it as an oracle).

func runSerializer(r *vlib.Run, mode string) {
	const fam = "ser"
	n := r.N(260, 2500)
	if raceEnabled {
		n = r.N(140, 900)
	}
	var hangs atomic.Int32
	forCases(r, fam, n, 8, func(i int, rng *rand.Rand) {
		if hangs.Load() >= 2 {
			return
		}
		cfg := serCfg{
			Producers: 2 + rng.Intn(5),
			Waiters:   rng.Intn(3),
			PerProd:   5 + rng.Intn(r.N(150, 400)),
			PerWaiter: 1 + rng.Intn(20),
			Late:      1 + rng.Intn(3),
			SlowEvery: vlib.Pick(rng, 0, 0, 3, 10, 50),
			SpinMax:   vlib.Pick(rng, 0, 50, 500, 5000),
		}
		if i%7 == 0 { // must-hit prefix: small, dense programs
			cfg.PerProd = 5 + rng.Intn(10)
		}
		total := cfg.Producers * cfg.PerProd
		cfg.CancelAt = rng.Intn(total*5/4 + 1)
		if i%5 == 1 {
			cfg.CancelAt = total + 1
		}
		if !serCase(r, mode, fam, i, cfg, rng) {
			hangs.Add(1)
		}
	})
}

// serCase runs one program and judges its history; false = the real code hung.
func serCase(r *vlib.Run, mode, fam string, ci int, cfg serCfg, rng *rand.Rand) bool {
	ctx, cancel := context.WithCancel(context.Background())
	defer cancel()
	cs := grpcsync.NewCallbackSerializer(ctx)
	rec := hist.NewRecorder()
	execLog := rec.Client()
	var running atomic.Int32
	var overlapSeen atomic.Bool
	var submitted atomic.Int64
	var mainDone atomic.Bool

	nItems := cfg.Producers*(cfg.PerProd+cfg.Late) + cfg.Waiters*cfg.PerWaiter
	failed := make([]atomic.Bool, nItems+1)
	var nextID atomic.Int64

	mkcb := func(id int64, slow int) func(context.Context) {
		return func(context.Context) {
			if running.Add(1) > 1 {
				overlapSeen.Store(true)
			}
			execLog.Point("run", "", id)
			if slow > 0 {
				spin(slow)
			}
			execLog.Point("end", "", id)
			running.Add(-1)
		}
	}

	doneCh := make(chan struct{})
	watchLog := rec.Client()
	go func() {
		<-cs.Done()
		watchLog.Point("done", "", nil)
		close(doneCh)
	}()

	var all, mainWG sync.WaitGroup
	bar := newBarrier(cfg.Producers + cfg.Waiters + 1)

	submit := func(l *hist.Log, prng *rand.Rand, p, seq int, modeS, phase string) {
		id := nextID.Add(1)
		slow := 0
		if cfg.SlowEvery > 0 && prng.Intn(cfg.SlowEvery) == 0 {
			slow = prng.Intn(cfg.SpinMax + 1)
		}
		f := mkcb(id, slow)
		h := l.Call("sched", "", serIn{ID: id, Producer: p, Seq: seq, Mode: modeS, Phase: phase})
		switch modeS {
		case "try":
			cs.TrySchedule(f)
			l.Return(h, "unknown")
		case "or":
			cs.ScheduleOr(f, func() { failed[id].Store(true) })
			if failed[id].Load() {
				l.Return(h, "rejected")
			} else {
				l.Return(h, "accepted")
			}
		case "wait":
			if err := cs.ScheduleAndWait(f); err != nil {
				l.Return(h, "rejected")
			} else {
				l.Return(h, "accepted")
			}
		}
		submitted.Add(1)
	}

	for p := 0; p < cfg.Producers; p++ {
		l := rec.Client()
		prng := rand.New(rand.NewSource(rng.Int63()))
		all.Add(1)
		mainWG.Add(1)
		go func(p int) {
			defer all.Done()
			bar.wait()
			for s := 0; s < cfg.PerProd; s++ {
				submit(l, prng, p, s, vlib.Pick(prng, "try", "or", "or"), "main")
				pause(prng, cfg.SpinMax/4)
			}
			mainWG.Done()
			select {
			case <-doneCh:
			case <-time.After(hangTimeout):
				return
			}
			for s := 0; s < cfg.Late; s++ {
				submit(l, prng, p, cfg.PerProd+s, vlib.Pick(prng, "try", "or"), "late")
			}
		}(p)
	}
	for w := 0; w < cfg.Waiters; w++ {
		l := rec.Client()
		prng := rand.New(rand.NewSource(rng.Int63()))
		all.Add(1)
		mainWG.Add(1)
		go func(p int) {
			defer all.Done()
			defer mainWG.Done()
			bar.wait()
			for s := 0; s < cfg.PerWaiter; s++ {
				submit(l, prng, p, s, "wait", "main")
				pause(prng, cfg.SpinMax/4)
			}
		}(cfg.Producers + w)
	}
	cancelLog := rec.Client()
	all.Add(1)
	go func() {
		defer all.Done()
		bar.wait()
		waitUntil(func() bool { return submitted.Load() >= int64(cfg.CancelAt) || mainDone.Load() })
		h := cancelLog.Call("cancel", "", nil)
		cancel()
		cancelLog.Return(h, nil)
	}()
	go func() { mainWG.Wait(); mainDone.Store(true) }()

	finished := waitTimeout(&all, hangTimeout+hangTimeout/2)
	if !finished {
		r.Inconclusive("ser case %d: serializer did not finish within %v (blocked ScheduleAndWait or Done() never closed); partial history judged", ci, hangTimeout)
	}
	ops := rec.Ops()
	if finished && len(hist.Filter(ops, "done")) == 0 {
		r.Inconclusive("ser case %d: Done() was not closed %v after cancel()", ci, hangTimeout)
		finished = false
	}
	judgeSerializer(r, mode, fam, ci, cfg, ops, failed, overlapSeen.Load(), finished)
	return finished
}

func judgeSerializer(r *vlib.Run, mode, fam string, ci int, cfg serCfg, ops []hist.Op, failed []atomic.Bool, overlapSeen, finished bool) {
	r.Eval(1)
	var cancelCall, cancelRet, doneAt int64
	type run struct{ start, end int64 }
	runs := map[int64][]run{}
	var runOrder []int64
	var events []hist.Op // run/end points in stamp order
	var items []hist.Op
	for _, o := range ops {
		switch o.Kind {
		case "cancel":
			cancelCall, cancelRet = o.Call, o.Ret
		case "done":
			doneAt = o.Call
		case "sched":
			items = append(items, o)
		case "run", "end":
			events = append(events, o)
		}
	}
	viol := func(key string, witness any, format string, a ...any) {
		h := ops
		if len(h) > 400 {
			h = nil // long histories: the witness is enough, the case regenerates from (seed, case)
		}
		r.Violation(key, fam, ci, serViolation{Cfg: cfg, Witness: witness, History: h}, format, a...)
	}

	// (1) one callback at a time: points must read run(a) end(a) run(b) end(b) ...
	var open int64 = -1
	for _, e := range events {
		id := e.In.(int64)
		if e.Kind == "run" {
			if open != -1 {
				viol("callbacks-overlap", []int64{open, id}, "callback %d started while callback %d was still running", id, open)
				break
			}
			open = id
			runs[id] = append(runs[id], run{start: e.Call})
			runOrder = append(runOrder, id)
		} else {
			if open != id {
				viol("callbacks-overlap", []int64{open, id}, "callback %d ended while callback %d was the running one", id, open)
				break
			}
			rs := runs[id]
			rs[len(rs)-1].end = e.Call
			open = -1
		}
	}
	if overlapSeen {
		viol("callbacks-overlap", nil, "two callbacks were inside the serializer at the same time (entry counter > 1)")
	}

	// (2) classes
	var must, may, never []int64
	sub := map[int64]hist.Submitted{}
	nRejected, nAccepted, nLate, afterCancelAccepted, concurrentSubmits := 0, 0, 0, 0, 0
	var maxRet int64
	for _, o := range items { // ops are ordered by Call
		in := o.In.(serIn)
		if o.Call < maxRet {
			concurrentSubmits++
		}
		if o.Ret > maxRet {
			maxRet = o.Ret
		}
		sub[in.ID] = hist.Submitted{ID: in.ID, Producer: in.Producer, Seq: in.Seq, Call: o.Call, Ret: o.Ret}
		out, _ := o.Out.(string)
		ran := len(runs[in.ID]) > 0
		late := doneAt != 0 && o.Call > doneAt
		beforeCancel := o.Ret != 0 && cancelCall != 0 && o.Ret < cancelCall
		switch {
		case o.Open():
			may = append(may, in.ID)
		case late:
			nLate++
			never = append(never, in.ID)
			if out == "accepted" {
				viol("accepted-after-done", o, "%s of item %d was invoked after Done() was observed closed (stamp %d > %d) but the submitter was not told it failed", in.Mode, in.ID, o.Call, doneAt)
			}
		case out == "rejected":
			nRejected++
			never = append(never, in.ID)
			if beforeCancel {
				viol("rejected-before-shutdown", o, "%s of item %d returned (stamp %d) before cancel() was invoked (stamp %d) but was rejected", in.Mode, in.ID, o.Ret, cancelCall)
			}
		case out == "accepted" || beforeCancel:
			nAccepted++
			must = append(must, in.ID)
		default:
			may = append(may, in.ID)
		}
		if out == "accepted" && failed[in.ID].Load() {
			viol("onfailure-after-accept", o, "onFailure of item %d ran although ScheduleOr had returned without it", in.ID)
		}
		if (ran || out == "accepted") && cancelRet != 0 && o.Call > cancelRet && !late {
			afterCancelAccepted++
		}
		if in.Mode == "wait" && out == "accepted" {
			rs := runs[in.ID]
			if len(rs) == 0 || rs[0].end == 0 || rs[0].end > o.Ret {
				viol("wait-returned-before-callback", o, "ScheduleAndWait(item %d) returned nil at stamp %d but its callback had not finished by then (%+v)", in.ID, o.Ret, rs)
			}
		}
	}
	if !finished || doneAt == 0 {
		// the shutdown did not complete: "must" items may legitimately still be pending
		may = append(may, must...)
		must = nil
	}
	rep := hist.ExactlyOnce(must, may, never, runOrder)
	if len(rep.Missing) > 0 {
		viol("accepted-callback-not-run", rep, "%d accepted callback(s) never ran although Done() closed, e.g. item %d", len(rep.Missing), rep.Missing[0])
	}
	if len(rep.Duplicate) > 0 {
		viol("callback-ran-twice", rep, "callback of item %d ran more than once", rep.Duplicate[0])
	}
	if len(rep.Forbidden) > 0 {
		viol("rejected-callback-ran", rep, "callback of item %d ran although its submitter was told it failed / it was submitted after Done()", rep.Forbidden[0])
	}
	if len(rep.Phantom) > 0 {
		viol("phantom-callback", rep, "a callback ran that nobody submitted: %d", rep.Phantom[0])
	}
	// (3) nothing runs after Done() was observed closed
	if doneAt != 0 {
		for _, e := range events {
			if e.Call > doneAt {
				viol("callback-after-done", e, "callback %v %s at stamp %d, after Done() was observed closed at %d", e.In, e.Kind, e.Call, doneAt)
				break
			}
		}
	}
	// (4) order
	effects := make([]hist.Submitted, 0, len(runOrder))
	seen := map[int64]bool{}
	for _, id := range runOrder {
		if s, ok := sub[id]; ok && !seen[id] {
			seen[id] = true
			effects = append(effects, s)
		}
	}
	if inv := hist.PerProducerFIFO(effects); inv != nil {
		viol("fifo-per-producer", inv, "item %d (seq %d) of producer %d ran after its later item %d (seq %d)", inv.Later.ID, inv.Later.Seq, inv.Later.Producer, inv.Earlier.ID, inv.Earlier.Seq)
	}
	if inv := hist.RealTimeOrder(effects); inv != nil {
		viol("real-time-order", inv, "item %d ran before item %d although Schedule(%d) had returned (stamp %d) before Schedule(%d) was invoked (stamp %d)",
			inv.Earlier.ID, inv.Later.ID, inv.Later.ID, inv.Later.Ret, inv.Earlier.ID, inv.Earlier.Call)
	}
	// (5) documented-contract gap: counted, not judged (see R2 note above)
	if afterCancelAccepted > 0 {
		r.Count("ser_accepted_after_cancel_returned", int64(afterCancelAccepted))
		r.Count("ser_cases_with_accept_after_cancel_returned", 1)
	}

	r.Count("ser_items", int64(len(items)))
	r.Count("ser_callbacks_run", int64(len(runOrder)))
	r.Count("ser_rejected", int64(nRejected))
	r.Count("ser_accepted_must_run", int64(len(must)))
	r.Count("ser_late_submits", int64(nLate))
	r.Count("ser_concurrent_submits", int64(concurrentSubmits))
	mid := nRejected > 0 && nAccepted > 0
	if mid {
		r.Count("ser_cases_cancel_midstream", 1)
	}
	if concurrentSubmits > 0 || mid {
		r.Nontrivial(fmt.Sprintf("%s/ser/p%d/w%d/ov%d/mid%d/slow%d", mode, cfg.Producers, cfg.Waiters, bucket(concurrentSubmits), b2i(mid), b2i(cfg.SlowEvery > 0)))
	}
	if ci < 2 {
		r.Sample(map[string]any{"family": fam, "case": ci, "cfg": cfg, "items": len(items), "ran": len(runOrder), "rejected": nRejected, "concurrent_submits": concurrentSubmits})
	}
}
