// C09: user metadata crosses the wire unchanged and reserved headers never leak.
//
// Families (one synctest bubble per case, several RPCs per bubble):
//
//	e2e        real ClientConn <-> real Server over memconn with a byte tap on both
//	           directions.  Outgoing metadata = optional NewOutgoingContext(MD) + 0-3
//	           AppendToOutgoingContext calls (mixed-case keys) with -bin keys of arbitrary
//	           bytes, empty values, repeated keys and reserved names carrying unique
//	           marker values.  Plan-driven unary and streaming handlers record
//	           FromIncomingContext and SetHeader / SendHeader / SetTrailer generated
//	           metadata (again with reserved names + markers); the client collects
//	           Header() / Trailer().  Afterwards the tapped bytes are decoded (own framer +
//	           HPACK decoder per direction) and every header block is scanned.
//	invalid    real client -> scripted server: invalid metadata (upper-case key in the MD
//	           map, non-printable / non-ASCII value, bad key characters, empty key; through
//	           NewOutgoingContext or AppendToOutgoingContext) mixed with valid RPCs: the
//	           call must fail with INTERNAL and the scripted server must never read a
//	           HEADERS frame for it.
//	to-server  scripted client -> real server: hand-built request headers (repeated keys,
//	           -bin values in padded and unpadded base64, reserved names with markers).
//	to-client  scripted server -> real client: hand-built response headers and trailers
//	           (same ingredients; trailers-only, headers+trailers, headers+data+trailers).
//
// Reference (written from the statement): metadata is an ordered multimap keyed by
// the ASCII-lowercased key; the receiver must see exactly the sender's non-reserved
// pairs, per-key value order = base MD values followed by appended pairs in call
// order (server side: SetHeader calls in order, then SendHeader; SetTrailer calls in
// order).  Reserved = names starting with ':' and content-type, te, user-agent,
// grpc-status, grpc-message, grpc-encoding, grpc-timeout, grpc-message-type.
//
// Picker metadata (e2e): the channel uses a registered test LB policy (pick_first
// wrapped so that its pickers add balancer.PickResult.Metadata chosen by the plan:
// nothing, an empty non-nil MD, or 1-4 keys - unique ones, keys colliding with the
// user's keys, -bin values, reserved names with markers).  The handler must then
// observe the user's multimap PLUS the picker's non-reserved pairs.  balancer.PickResult
// documents only that the metadata "will be merged with existing metadata added by
// the client application" - no order for colliding keys - so for a colliding key
// both "user values, then picker values" (what ships) and "picker values, then user
// values" are accepted; each block keeps its own order.  Reserved names from the
// picker are judged like user-supplied ones, except ":authority", which gRFC A81
// defines as the per-pick authority override and is therefore not injected.
//
// R2 notes (weakest readings that still catch real breaks):
//   - the transport surfaces its own values for :authority, user-agent, content-type
//     and grpc-accept-encoding (server side) / content-type (client side); those keys
//     are allowed to appear but must never carry a user marker;
//   - user keys avoid "host", "connection" and every "grpc-" prefixed name other than
//     the reserved ones injected on purpose (HTTP/2 and gRPC give them own semantics);
//   - only stream handlers' ServerStream.SetHeader/SendHeader validate metadata
//     (grpc.SetHeader(ctx) does not), so server-side invalid metadata is exercised
//     through the stream API only.
package c09

import (
	"bytes"
	"context"
	"encoding/base64"
	"fmt"
	"io"
	"math/rand"
	"net"
	"os"
	"sort"
	"strconv"
	"strings"
	"sync"
	"testing"
	"testing/synctest"

	"golang.org/x/net/http2"
	"golang.org/x/net/http2/hpack"
	"google.golang.org/grpc"
	"google.golang.org/grpc/balancer"
	"google.golang.org/grpc/balancer/pickfirst"
	"google.golang.org/grpc/codes"
	"google.golang.org/grpc/credentials/insecure"
	"google.golang.org/grpc/grpclog"
	"google.golang.org/grpc/metadata"
	"google.golang.org/grpc/status"
	"google.golang.org/grpc/verif/memconn"
	"google.golang.org/grpc/verif/vlib"
	"google.golang.org/grpc/verif/wire"
)

func init() {
	grpclog.SetLoggerV2(grpclog.NewLoggerV2(io.Discard, io.Discard, io.Discard))
}

// ---------- generators ----------

type kv struct {
	K string `json:"k"`
	V []byte `json:"v"`
	// raw families: how a -bin value is put on the wire
	Padded bool `json:"padded,omitempty"`
}

var reservedNames = []string{":path", ":foo", ":method", ":scheme", ":status", ":authority", "content-type", "te", "user-agent",
	"grpc-status", "grpc-message", "grpc-encoding", "grpc-timeout", "grpc-message-type"}

func isReservedRef(k string) bool {
	if k != "" && k[0] == ':' {
		return true
	}
	switch k {
	case "content-type", "te", "user-agent", "grpc-status", "grpc-message", "grpc-encoding", "grpc-timeout", "grpc-message-type":
		return true
	}
	return false
}

func asciiLower(s string) string {
	b := []byte(s)
	for i, c := range b {
		if c >= 'A' && c <= 'Z' {
			b[i] = c + 32
		}
	}
	return string(b)
}

const keyChars = "abcdefghijklmnopqrstuvwxyz0123456789-_."

var keyPool = []string{"x-a", "x-b", "k", "0", "a.b_c-d", "-", "_", ".", "x-trace-id", "custom-bin", "-bin", "x-bin", "a-bin", "authorization", "x-forwarded-for", "cookie", "accept", "grpc"}

func forbiddenUserKey(k string) bool {
	return k == "host" || k == "connection" || strings.HasPrefix(k, "grpc-") || isReservedRef(k) || k == "x-rid" || k == ""
}

func genKey(rng *rand.Rand) string {
	for {
		var k string
		if rng.Intn(2) == 0 {
			k = keyPool[rng.Intn(len(keyPool))]
		} else {
			n := 1 + rng.Intn(12)
			b := make([]byte, n)
			for i := range b {
				b[i] = keyChars[rng.Intn(len(keyChars))]
			}
			k = string(b)
			if rng.Intn(3) == 0 {
				k += "-bin"
			}
		}
		if !forbiddenUserKey(k) {
			return k
		}
	}
}

func mixCase(rng *rand.Rand, k string) string {
	b := []byte(k)
	for i, c := range b {
		if c >= 'a' && c <= 'z' && rng.Intn(2) == 0 {
			b[i] = c - 32
		}
	}
	return string(b)
}

func genValue(rng *rand.Rand, bin bool) []byte {
	if bin {
		n := vlib.Pick(rng, 0, 1, 2, 3, 4, 5, 16, 33, 100, 1000)
		if rng.Intn(40) == 0 {
			n = 20000 // forces CONTINUATION frames
		}
		b := make([]byte, n)
		rng.Read(b)
		return b
	}
	switch rng.Intn(8) {
	case 0:
		return nil // empty value
	case 1:
		return []byte(vlib.Pick(rng, " ", "  lead", "trail  ", "a  b", "~", "a,b", "a, b", "\"q\"", "=", "%41", "Bearer abc.def", "MiXeD Case"))
	case 2:
		n := 200 + rng.Intn(3000)
		b := make([]byte, n)
		for i := range b {
			b[i] = byte(0x20 + rng.Intn(0x5f))
		}
		return b
	}
	b := make([]byte, 1+rng.Intn(24))
	for i := range b {
		b[i] = byte(0x20 + rng.Intn(0x5f))
	}
	return b
}

type markers struct {
	n    int
	list []string
}

func (m *markers) next() []byte {
	m.n++
	s := fmt.Sprintf("VMARK%dq%dz", m.n, m.n*7919)
	m.list = append(m.list, s)
	return []byte(s)
}

// genPairs produces an ordered list of pairs: user keys (some repeated) and
// nReserved reserved names with marker values.
func genPairs(rng *rand.Rand, mk *markers, maxKeys int, reservedPool []string, pReserved int, mixed bool) []kv {
	var out []kv
	nk := rng.Intn(maxKeys + 1)
	var keys []string
	for i := 0; i < nk; i++ {
		keys = append(keys, genKey(rng))
	}
	for _, k := range keys {
		nv := vlib.Pick(rng, 1, 1, 1, 2, 3, 4)
		for j := 0; j < nv; j++ {
			out = append(out, kv{K: k, V: genValue(rng, strings.HasSuffix(k, "-bin")), Padded: rng.Intn(2) == 0})
		}
	}
	for len(reservedPool) > 0 && rng.Intn(100) < pReserved {
		out = append(out, kv{K: reservedPool[rng.Intn(len(reservedPool))], V: mk.next()})
		pReserved /= 2
	}
	rng.Shuffle(len(out), func(i, j int) { out[i], out[j] = out[j], out[i] })
	if mixed {
		for i := range out {
			if rng.Intn(2) == 0 {
				out[i].K = mixCase(rng, out[i].K)
			}
		}
	}
	return out
}

func toMD(ps []kv) metadata.MD {
	if ps == nil {
		return nil
	}
	md := metadata.MD{}
	for _, p := range ps {
		md[p.K] = append(md[p.K], string(p.V))
	}
	return md
}

// mm is the reference ordered multimap.
type mm map[string][]string

func (m mm) add(ps []kv) {
	for _, p := range ps {
		k := asciiLower(p.K)
		if isReservedRef(k) {
			continue
		}
		m[k] = append(m[k], string(p.V))
	}
}

// addMapOrder adds pairs the way a metadata.MD built from them holds them:
// per key in list order (keys of one MD are independent).
func (m mm) addMD(ps []kv) { m.add(ps) }

type srvOp struct {
	Op string `json:"op"` // set-header | send-header | send-msg | set-trailer | set-header-invalid | send-header-invalid
	MD []kv   `json:"md,omitempty"`
}

type rpcPlan struct {
	Kind    string   `json:"kind"` // unary | stream
	HasBase bool     `json:"has_base"`
	Base    []kv     `json:"base,omitempty"`
	Appends [][]kv   `json:"appends,omitempty"`
	Ops     []srvOp  `json:"ops,omitempty"`
	Fail    bool     `json:"fail"`
	Pick    pickDef  `json:"pick"`              // e2e: what the LB picker adds to the pick
	Invalid string   `json:"invalid,omitempty"` // family invalid: kind of defect ("" = valid RPC)
	Resp    respPlan `json:"resp,omitempty"`    // family to-client
}

type pickDef struct {
	Mode string `json:"mode,omitempty"` // "" / none | empty | md
	MD   []kv   `json:"md,omitempty"`
}

type respPlan struct {
	Shape   string `json:"shape,omitempty"` // trailers-only | headers-trailers | headers-data-trailers
	Header  []kv   `json:"header,omitempty"`
	Trailer []kv   `json:"trailer,omitempty"`
}

func genInvalidMD(rng *rand.Rand) []kv {
	switch rng.Intn(3) {
	case 0:
		return []kv{{K: vlib.Pick(rng, "Bad-Key", "X", "bad key", "k@", "ké"), V: []byte("v")}}
	case 1:
		return []kv{{K: "x-ok", V: []byte("fine")}, {K: "x-np", V: []byte(vlib.Pick(rng, "a\x01b", "\x7f", "é", "line\nbreak", "\x00"))}}
	}
	return []kv{{K: "", V: []byte("v")}}
}

func genE2E(rng *rand.Rand, idx int, mk *markers) rpcPlan {
	p := rpcPlan{Kind: vlib.Pick(rng, "unary", "stream")}
	if (idx+rng.Intn(2))%3 != 0 {
		p.HasBase = true
		p.Base = genPairs(rng, mk, 5, reservedNames, 40, false)
		if p.Base == nil {
			p.Base = []kv{}
		}
	}
	na := vlib.Pick(rng, 0, 1, 1, 2, 3)
	for a := 0; a < na; a++ {
		p.Appends = append(p.Appends, genPairs(rng, mk, 3, reservedNames, 30, true))
	}
	// server side
	nset := rng.Intn(3)
	for s := 0; s < nset; s++ {
		p.Ops = append(p.Ops, srvOp{Op: "set-header", MD: genPairs(rng, mk, 4, reservedNames, 35, false)})
	}
	if p.Kind == "stream" && rng.Intn(6) == 0 {
		p.Ops = append(p.Ops, srvOp{Op: vlib.Pick(rng, "set-header-invalid", "send-header-invalid"), MD: genInvalidMD(rng)})
	}
	if rng.Intn(3) == 0 {
		p.Ops = append(p.Ops, srvOp{Op: "set-trailer", MD: genPairs(rng, mk, 3, reservedNames, 35, false)})
	}
	switch rng.Intn(4) {
	case 0:
		p.Ops = append(p.Ops, srvOp{Op: "send-header", MD: genPairs(rng, mk, 3, reservedNames, 35, false)})
	case 1:
		if p.Kind == "stream" {
			p.Ops = append(p.Ops, srvOp{Op: "send-msg"})
		}
	}
	ntr := rng.Intn(3)
	for s := 0; s < ntr; s++ {
		p.Ops = append(p.Ops, srvOp{Op: "set-trailer", MD: genPairs(rng, mk, 4, reservedNames, 35, false)})
	}
	p.Fail = rng.Intn(3) == 0
	// what the LB picker adds (drawn last so that the rest of the plan does not depend on it)
	switch (idx + rng.Intn(3)) % 5 {
	case 0, 1:
		p.Pick.Mode = "none"
	case 2:
		p.Pick.Mode = "empty"
	default:
		p.Pick.Mode = "md"
		p.Pick.MD = genPairs(rng, mk, 3, pickerReserved, 35, false)
		// keys that collide with the user's keys
		var userKeys []string
		for _, x := range p.Base {
			userKeys = append(userKeys, asciiLower(x.K))
		}
		for _, a := range p.Appends {
			for _, x := range a {
				userKeys = append(userKeys, asciiLower(x.K))
			}
		}
		for n := rng.Intn(3); n > 0 && len(userKeys) > 0; n-- {
			k := userKeys[rng.Intn(len(userKeys))]
			if isReservedRef(k) {
				continue
			}
			for nv := 1 + rng.Intn(2); nv > 0; nv-- {
				p.Pick.MD = append(p.Pick.MD, kv{K: k, V: genValue(rng, strings.HasSuffix(k, "-bin"))})
			}
		}
		if len(p.Pick.MD) == 0 {
			p.Pick.MD = []kv{{K: "x-lb", V: []byte("picked")}}
		}
	}
	return p
}

// pickerReserved: reserved names a picker may try to inject (":authority" is the
// gRFC A81 authority override, a documented feature, and is left out).
var pickerReserved = []string{":path", ":foo", ":method", ":scheme", ":status", "content-type", "te", "user-agent",
	"grpc-status", "grpc-message", "grpc-encoding", "grpc-timeout", "grpc-message-type"}

// ---------- the test LB policy ----------

const lbName = "verif_c09_pick_metadata"

type lbBuilder struct{}

func (lbBuilder) Name() string { return lbName }
func (lbBuilder) Build(cc balancer.ClientConn, opts balancer.BuildOptions) balancer.Balancer {
	return balancer.Get(pickfirst.Name).Build(&lbCC{ClientConn: cc}, opts)
}

type lbCC struct{ balancer.ClientConn }

func (c *lbCC) UpdateState(s balancer.State) {
	s.Picker = &mdPicker{p: s.Picker}
	c.ClientConn.UpdateState(s)
}

type pickKey struct{}

// pickState travels in the application's context; the picker reads the plan
// from it and counts the successful picks.
type pickState struct {
	def   pickDef
	mu    sync.Mutex
	picks int
}

type mdPicker struct{ p balancer.Picker }

func (p *mdPicker) Pick(info balancer.PickInfo) (balancer.PickResult, error) {
	res, err := p.p.Pick(info)
	if err != nil {
		return res, err
	}
	ps, _ := info.Ctx.Value(pickKey{}).(*pickState)
	if ps == nil {
		return res, nil
	}
	ps.mu.Lock()
	ps.picks++
	ps.mu.Unlock()
	switch ps.def.Mode {
	case "empty":
		res.Metadata = metadata.MD{}
	case "md":
		res.Metadata = toMD(ps.def.MD) // a fresh MD per pick
	}
	return res, nil
}

func init() { balancer.Register(lbBuilder{}) }

// ---------- tap ----------

type capture struct {
	mu       sync.Mutex
	c2s, s2c bytes.Buffer
}

type tapListener struct {
	ch   chan net.Conn
	done chan struct{}
	once sync.Once
}

func newTapListener() *tapListener {
	return &tapListener{ch: make(chan net.Conn, 16), done: make(chan struct{})}
}
func (l *tapListener) Accept() (net.Conn, error) {
	select {
	case c := <-l.ch:
		return c, nil
	case <-l.done:
		return nil, net.ErrClosed
	}
}
func (l *tapListener) Close() error   { l.once.Do(func() { close(l.done) }); return nil }
func (l *tapListener) Addr() net.Addr { return tapAddr{} }

type tapAddr struct{}

func (tapAddr) Network() string { return "mem" }
func (tapAddr) String() string  { return "c09-tap" }

func (l *tapListener) dial(cp *capture) (net.Conn, error) {
	c, s := memconn.Pipe(0)
	c.WriteHook = func(p []byte) error { cp.mu.Lock(); cp.c2s.Write(p); cp.mu.Unlock(); return nil }
	s.WriteHook = func(p []byte) error { cp.mu.Lock(); cp.s2c.Write(p); cp.mu.Unlock(); return nil }
	select {
	case l.ch <- s:
		return c, nil
	case <-l.done:
		return nil, net.ErrClosed
	}
}

type block struct {
	stream uint32
	end    bool
	fields []hpack.HeaderField
}

// decodeBlocks parses one direction of a tapped connection with an own framer
// and HPACK decoder.
func decodeBlocks(b []byte, fromClient bool) ([]block, error) {
	if fromClient {
		if len(b) < len(http2.ClientPreface) && bytes.HasPrefix([]byte(http2.ClientPreface), b) {
			return nil, nil // the channel was closed before the client finished its preface: no frames
		}
		if !bytes.HasPrefix(b, []byte(http2.ClientPreface)) {
			return nil, fmt.Errorf("no client preface")
		}
		b = b[len(http2.ClientPreface):]
	}
	fr := http2.NewFramer(io.Discard, bytes.NewReader(b))
	fr.SetMaxReadFrameSize(1 << 24)
	fr.AllowIllegalReads = true
	dec := hpack.NewDecoder(4096, nil)
	var out []block
	var cur *block
	var frag []byte
	for {
		f, err := fr.ReadFrame()
		if err != nil {
			if err == io.EOF || err == io.ErrUnexpectedEOF {
				return out, nil
			}
			return out, err
		}
		ended := false
		switch f := f.(type) {
		case *http2.HeadersFrame:
			cur = &block{stream: f.StreamID, end: f.StreamEnded()}
			frag = append(frag[:0], f.HeaderBlockFragment()...)
			ended = f.HeadersEnded()
		case *http2.ContinuationFrame:
			if cur == nil {
				return out, fmt.Errorf("CONTINUATION without HEADERS")
			}
			frag = append(frag, f.HeaderBlockFragment()...)
			ended = f.HeadersEnded()
		default:
			continue
		}
		if ended && cur != nil {
			fields, err := dec.DecodeFull(frag)
			if err != nil {
				return out, fmt.Errorf("hpack: %v", err)
			}
			cur.fields = fields
			out = append(out, *cur)
			cur = nil
		}
	}
}

// ---------- result plumbing ----------

type result struct {
	viol     [][2]string
	counters map[string]int64
	sigs     []string
}

func (r *result) v(key, f string, a ...any) { r.viol = append(r.viol, [2]string{key, fmt.Sprintf(f, a...)}) }

func clip(s string) string {
	if len(s) > 100 {
		return fmt.Sprintf("%q…(%d bytes)", s[:100], len(s))
	}
	return fmt.Sprintf("%q", s)
}

// compareMD judges got (as handed to the application) against the reference.
// own = keys the transport may add by itself.
func compareMD(res *result, what string, got metadata.MD, want mm, own map[string]bool, mk *markers, alts ...mm) bool {
	ok := true
	eq := func(a, b []string) bool {
		if len(a) != len(b) {
			return false
		}
		for i := range a {
			if a[i] != b[i] {
				return false
			}
		}
		return true
	}
	for k, vs := range got {
		for _, v := range vs {
			for _, m := range mk.list {
				if strings.Contains(v, m) || strings.Contains(k, m) {
					ok = false
					res.v("reserved-user-value-surfaced", "%s: key %q carries the marker %s of a reserved user key", what, k, m)
				}
			}
		}
		if own[k] {
			continue
		}
		if _, exp := want[k]; !exp && len(vs) > 0 {
			ok = false
			res.v("unexpected-key", "%s: key %q = %s was never sent", what, k, clip(strings.Join(vs, "|")))
		}
	}
	for k, ws := range want {
		gs := got[k]
		altOK := false
		for _, alt := range alts {
			if as, has := alt[k]; has && eq(gs, as) {
				altOK = true // the other documented-as-acceptable order of a merged key
			}
		}
		if altOK {
			continue
		}
		if len(gs) != len(ws) {
			ok = false
			res.v("values-lost-or-added", "%s: key %q has %d values, want %d (got %s)", what, k, len(gs), len(ws), clip(strings.Join(gs, "|")))
			continue
		}
		for i := range ws {
			if gs[i] != ws[i] {
				ok = false
				key := "value-changed"
				sg, sw := append([]string{}, gs...), append([]string{}, ws...)
				sort.Strings(sg)
				sort.Strings(sw)
				if strings.Join(sg, "\x00") == strings.Join(sw, "\x00") {
					key = "value-order-changed"
				}
				res.v(key, "%s: key %q value %d is %s, want %s", what, k, i, clip(gs[i]), clip(ws[i]))
				break
			}
		}
	}
	return ok
}

var serverOwn = map[string]bool{":authority": true, "user-agent": true, "content-type": true, "grpc-accept-encoding": true}
var clientOwn = map[string]bool{"content-type": true}

// scanWire checks every header block of a tapped direction.
func scanWire(res *result, dir string, blocks []block, mk *markers) {
	for _, b := range blocks {
		res.counters["wire_header_blocks_scanned"]++
		for _, f := range b.fields {
			res.counters["wire_header_fields_scanned"]++
			if f.Name != asciiLower(f.Name) {
				res.v("wire-name-not-lowercase", "%s stream %d: header name %q on the wire is not lower case", dir, b.stream, f.Name)
			}
			for _, m := range mk.list {
				if strings.Contains(f.Value, m) || strings.Contains(f.Name, m) {
					res.v("reserved-user-value-on-wire", "%s stream %d: field %q: %s carries the marker of a reserved user key", dir, b.stream, f.Name, clip(f.Value))
				}
			}
			if strings.HasSuffix(f.Name, "-bin") {
				res.counters["wire_bin_fields"]++
				if _, err := b64any(f.Value); err != nil {
					res.v("wire-bin-not-base64", "%s stream %d: field %q: %s is not base64", dir, b.stream, f.Name, clip(f.Value))
				}
			}
		}
	}
}

func b64any(s string) ([]byte, error) {
	if b, err := base64.StdEncoding.DecodeString(s); err == nil {
		return b, nil
	}
	return base64.RawStdEncoding.DecodeString(s)
}

// ---------- the plan-driven real server ----------

type srvObs struct {
	incoming metadata.MD
	ran      int
	opErrs   []string // for *-invalid ops: "" if the call wrongly succeeded, else code string
}

type server struct {
	mu    sync.Mutex
	plans []rpcPlan
	obs   map[int]*srvObs
	lost  int // handler invocations that could not be attributed
	gs    *grpc.Server
}

func (s *server) lookup(ctx context.Context) (int, *rpcPlan, metadata.MD) {
	md, _ := metadata.FromIncomingContext(ctx)
	s.mu.Lock()
	defer s.mu.Unlock()
	if v := md.Get("x-rid"); len(v) >= 1 {
		if n, err := strconv.Atoi(v[0]); err == nil && n >= 0 && n < len(s.plans) {
			o := s.obs[n]
			if o == nil {
				o = &srvObs{}
				s.obs[n] = o
			}
			o.ran++
			o.incoming = md
			return n, &s.plans[n], md
		}
	}
	s.lost++
	return -1, nil, md
}

type hdrAPI struct {
	set, send func(metadata.MD) error
	trailer   func(metadata.MD)
	sendMsg   func() error
}

func (s *server) play(n int, p *rpcPlan, api hdrAPI) error {
	for _, op := range p.Ops {
		md := toMD(op.MD)
		switch op.Op {
		case "set-header":
			if err := api.set(md); err != nil {
				return status.Errorf(codes.DataLoss, "verif: SetHeader failed: %v", err)
			}
		case "send-header":
			if err := api.send(md); err != nil {
				return status.Errorf(codes.DataLoss, "verif: SendHeader failed: %v", err)
			}
		case "set-trailer":
			api.trailer(md)
		case "send-msg":
			if api.sendMsg != nil {
				if err := api.sendMsg(); err != nil {
					return err
				}
			}
		case "set-header-invalid", "send-header-invalid":
			f := api.set
			if op.Op == "send-header-invalid" {
				f = api.send
			}
			err := f(md)
			r := ""
			if err != nil {
				r = status.Code(err).String()
			}
			s.mu.Lock()
			s.obs[n].opErrs = append(s.obs[n].opErrs, r)
			s.mu.Unlock()
		}
	}
	if p.Fail {
		return status.Error(codes.Aborted, "verif: planned failure")
	}
	return nil
}

func newServer(plans []rpcPlan) *server {
	s := &server{plans: plans, obs: map[int]*srvObs{}}
	s.gs = grpc.NewServer(grpc.ForceServerCodec(wire.RawCodec{}), grpc.MaxHeaderListSize(16<<20))
	sd := &grpc.ServiceDesc{ServiceName: "verif.MD", HandlerType: (*any)(nil)}
	sd.Methods = append(sd.Methods, grpc.MethodDesc{MethodName: "Unary", Handler: func(_ any, ctx context.Context, dec func(any) error, _ grpc.UnaryServerInterceptor) (any, error) {
		var in []byte
		if err := dec(&in); err != nil {
			return nil, err
		}
		n, p, _ := s.lookup(ctx)
		if p == nil {
			return nil, status.Error(codes.FailedPrecondition, "verif: no plan for this RPC")
		}
		err := s.play(n, p, hdrAPI{
			set:     func(md metadata.MD) error { return grpc.SetHeader(ctx, md) },
			send:    func(md metadata.MD) error { return grpc.SendHeader(ctx, md) },
			trailer: func(md metadata.MD) { grpc.SetTrailer(ctx, md) },
		})
		if err != nil {
			return nil, err
		}
		return []byte("reply"), nil
	}})
	sd.Streams = append(sd.Streams, grpc.StreamDesc{StreamName: "Stream", ClientStreams: true, ServerStreams: true, Handler: func(_ any, ss grpc.ServerStream) error {
		n, p, _ := s.lookup(ss.Context())
		if p == nil {
			return status.Error(codes.FailedPrecondition, "verif: no plan for this RPC")
		}
		return s.play(n, p, hdrAPI{
			set:     ss.SetHeader,
			send:    ss.SendHeader,
			trailer: ss.SetTrailer,
			sendMsg: func() error { return ss.SendMsg([]byte("m")) },
		})
	}})
	s.gs.RegisterService(sd, nil)
	return s
}

// ---------- client side helpers ----------

// buildCtx attaches the plan's metadata.  The request id travels in the base MD
// when there is one and as an appended pair otherwise, so that the loss of either
// part is reported for what it is and not as an unattributable handler run.
func buildCtx(i int, p rpcPlan) context.Context {
	ctx := context.Background()
	if p.HasBase {
		md := toMD(p.Base)
		if md == nil {
			md = metadata.MD{}
		}
		md["x-rid"] = []string{strconv.Itoa(i)}
		ctx = metadata.NewOutgoingContext(ctx, md)
	}
	for _, a := range p.Appends {
		var flat []string
		for _, x := range a {
			flat = append(flat, x.K, string(x.V))
		}
		ctx = metadata.AppendToOutgoingContext(ctx, flat...)
	}
	if !p.HasBase {
		ctx = metadata.AppendToOutgoingContext(ctx, "X-Rid", strconv.Itoa(i))
	}
	return ctx
}

type clientObs struct {
	err     error
	header  metadata.MD
	trailer metadata.MD
}

func call(cc *grpc.ClientConn, ctx context.Context, kind string) clientObs {
	var o clientObs
	ctx, cancel := context.WithCancel(ctx)
	defer cancel()
	if kind == "unary" {
		var reply []byte
		o.err = cc.Invoke(ctx, "/verif.MD/Unary", []byte("req"), &reply, grpc.Header(&o.header), grpc.Trailer(&o.trailer))
		return o
	}
	st, err := cc.NewStream(ctx, &grpc.StreamDesc{ClientStreams: true, ServerStreams: true}, "/verif.MD/Stream")
	if err != nil {
		o.err = err
		return o
	}
	if err := st.SendMsg([]byte("req")); err == nil {
		st.CloseSend()
	}
	o.header, _ = st.Header()
	for {
		var m []byte
		if err := st.RecvMsg(&m); err != nil {
			if err != io.EOF {
				o.err = err
			}
			break
		}
	}
	o.trailer = st.Trailer()
	return o
}

func expectedIncoming(i int, p rpcPlan) mm {
	want := mm{}
	want.add(p.Base)
	for _, a := range p.Appends {
		want.add(a)
	}
	want["x-rid"] = append(want["x-rid"], strconv.Itoa(i))
	return want
}

func hasBin(ps []kv) bool {
	for _, p := range ps {
		if strings.HasSuffix(asciiLower(p.K), "-bin") {
			return true
		}
	}
	return false
}
func hasRepeat(ps []kv) bool {
	seen := map[string]bool{}
	for _, p := range ps {
		k := asciiLower(p.K)
		if seen[k] {
			return true
		}
		seen[k] = true
	}
	return false
}
func hasReserved(ps []kv) bool {
	for _, p := range ps {
		if isReservedRef(asciiLower(p.K)) {
			return true
		}
	}
	return false
}
func hasUpper(ps []kv) bool {
	for _, p := range ps {
		if p.K != asciiLower(p.K) {
			return true
		}
	}
	return false
}

func flags(names []string, bs ...bool) string {
	var out []string
	for i, b := range bs {
		if b {
			out = append(out, names[i])
		}
	}
	return strings.Join(out, "+")
}

// ---------- family e2e ----------

func runE2E(plans []rpcPlan, mk *markers) *result {
	res := &result{counters: map[string]int64{}}
	srv := newServer(plans)
	lis := newTapListener()
	go srv.gs.Serve(lis)
	cp := &capture{}
	cc, err := grpc.NewClient("passthrough:///c09",
		grpc.WithTransportCredentials(insecure.NewCredentials()),
		grpc.WithContextDialer(func(context.Context, string) (net.Conn, error) { return lis.dial(cp) }),
		grpc.WithDefaultCallOptions(grpc.ForceCodec(wire.RawCodec{})),
		grpc.WithDefaultServiceConfig(`{"loadBalancingConfig": [{"`+lbName+`":{}}]}`),
		grpc.WithMaxHeaderListSize(16<<20))
	if err != nil {
		res.v("harness", "NewClient: %v", err)
		return res
	}
	for i, p := range plans {
		pre := fmt.Sprintf("e2e rpc %d (%s)", i, p.Kind)
		ps := &pickState{def: p.Pick}
		o := call(cc, context.WithValue(buildCtx(i, p), pickKey{}, ps), p.Kind)
		ps.mu.Lock()
		npicks := ps.picks
		ps.mu.Unlock()
		srv.mu.Lock()
		so := srv.obs[i]
		srv.mu.Unlock()
		// the RPC itself: valid metadata must not fail it
		wantCode := codes.OK
		if p.Fail {
			wantCode = codes.Aborted
		}
		if status.Code(o.err) != wantCode {
			res.v("valid-metadata-rpc-failed", "%s: all metadata is valid but the RPC ended with %v (want %v)", pre, o.err, wantCode)
		}
		if so == nil || so.ran != 1 {
			res.v("handler-not-reached", "%s: handler invocations attributed to this RPC: %v", pre, so)
			continue
		}
		all := append([]kv{}, p.Base...)
		for _, a := range p.Appends {
			all = append(all, a...)
		}
		// the user's multimap plus the picker's non-reserved pairs; for a key both supplied, either
		// block may come first (undocumented), each block in its own order
		want, alt, pk := expectedIncoming(i, p), mm{}, mm{}
		pk.add(p.Pick.MD)
		collide := false
		for k, vs := range pk {
			if len(want[k]) > 0 {
				collide = true
				alt[k] = append(append([]string{}, vs...), want[k]...)
			}
			want[k] = append(want[k], vs...)
		}
		if npicks == 0 {
			res.v("harness", "%s: the test LB policy's picker was never consulted", pre)
		}
		okS := compareMD(res, pre+" server FromIncomingContext (picker: "+p.Pick.Mode+")", so.incoming, want, serverOwn, mk, alt)
		if okS {
			res.counters["incoming_md_identical"]++
			switch p.Pick.Mode {
			case "md":
				res.counters["picker_md_merged_and_user_md_intact"]++
				if collide {
					res.counters["picker_md_colliding_with_user_keys"]++
				}
				if len(p.Appends) > 0 {
					res.counters["picker_md_with_appended_user_pairs"]++
				}
			case "empty":
				res.counters["picker_empty_md_and_user_md_intact"]++
			}
		}
		// what the handler set
		wantH, wantT := mm{}, mm{}
		invalidOps := 0
		for _, op := range p.Ops {
			switch op.Op {
			case "set-header", "send-header":
				wantH.add(op.MD)
			case "set-trailer":
				wantT.add(op.MD)
			case "set-header-invalid", "send-header-invalid":
				invalidOps++
			}
		}
		for _, r := range so.opErrs {
			if r != codes.Internal.String() {
				res.v("invalid-server-metadata-accepted", "%s: ServerStream.SetHeader/SendHeader with invalid metadata returned %q, want an INTERNAL error", pre, r)
			} else {
				res.counters["invalid_server_md_rejected_internal"]++
			}
		}
		if len(so.opErrs) != invalidOps {
			res.v("harness", "%s: %d invalid ops recorded, planned %d", pre, len(so.opErrs), invalidOps)
		}
		okH := compareMD(res, pre+" client Header()", o.header, wantH, clientOwn, mk)
		okT := compareMD(res, pre+" client Trailer()", o.trailer, wantT, clientOwn, mk)
		if okH && okT {
			res.counters["header_and_trailer_identical"]++
		}
		var srvAll []kv
		for _, op := range p.Ops {
			srvAll = append(srvAll, op.MD...)
		}
		res.sigs = append(res.sigs, fmt.Sprintf("e2e/%s/base=%v/appends=%d/pick=%s/req:%s/resp:%s/fail=%v",
			p.Kind, p.HasBase, len(p.Appends),
			p.Pick.Mode+flags([]string{":bin", ":collide", ":rsv"}, hasBin(p.Pick.MD), collide, hasReserved(p.Pick.MD)),
			flags([]string{"bin", "rep", "rsv", "mixed"}, hasBin(all), hasRepeat(all), hasReserved(all), hasUpper(all)),
			flags([]string{"bin", "rep", "rsv", "hdr", "trl", "inv"}, hasBin(srvAll), hasRepeat(srvAll), hasReserved(srvAll), len(wantH) > 0, len(wantT) > 0, invalidOps > 0), p.Fail))
	}
	srv.mu.Lock()
	if srv.lost > 0 {
		res.v("handler-got-no-request-id", "%d handler invocations did not carry the x-rid the client sent", srv.lost)
	}
	srv.mu.Unlock()
	cc.Close()
	srv.gs.Stop()
	// the wire
	cp.mu.Lock()
	c2s, s2c := append([]byte(nil), cp.c2s.Bytes()...), append([]byte(nil), cp.s2c.Bytes()...)
	cp.mu.Unlock()
	if len(c2s) == 0 && len(s2c) == 0 {
		// no RPC got as far as connecting (each one is already reported above)
		res.counters["cases_without_any_connection"]++
	} else {
		bc, err1 := decodeBlocks(c2s, true)
		bs, err2 := decodeBlocks(s2c, false)
		if err1 != nil || err2 != nil {
			res.v("harness-tap", "cannot decode the tapped bytes: %v / %v", err1, err2)
		}
		scanWire(res, "client->server", bc, mk)
		scanWire(res, "server->client", bs, mk)
	}
	res.counters["reserved_user_pairs_injected"] += int64(len(mk.list))
	return res
}

// ---------- family invalid ----------

var invalidKinds = []string{"upper-key-md", "nonprintable-value-md", "nonascii-value-md", "bad-key-char-md", "empty-key-md",
	"nonprintable-value-append", "bad-key-char-append", "empty-key-append", "upper-bin-key-md", "invalid-among-valid-md", "invalid-among-valid-append"}

func genInvalid(rng *rand.Rand, idx int, mk *markers) rpcPlan {
	p := rpcPlan{Kind: vlib.Pick(rng, "unary", "stream")}
	if rng.Intn(3) == 0 {
		// a valid RPC in between
		p.HasBase = true
		p.Base = genPairs(rng, mk, 3, nil, 0, false)
		p.Appends = [][]kv{genPairs(rng, mk, 2, nil, 0, true)}
		return p
	}
	p.Invalid = invalidKinds[(idx+rng.Intn(3))%len(invalidKinds)]
	np := vlib.Pick(rng, "a\x01b", "\x00", "\x7f", "\n", "a\tb", "x\r\ny", "\x1f")
	switch p.Invalid {
	case "upper-key-md":
		p.HasBase, p.Base = true, []kv{{K: vlib.Pick(rng, "Key", "X-Custom", "aB", "UPPER"), V: []byte("v")}}
	case "nonprintable-value-md":
		p.HasBase, p.Base = true, []kv{{K: "x-np", V: []byte(np)}}
	case "nonascii-value-md":
		p.HasBase, p.Base = true, []kv{{K: "x-na", V: []byte(vlib.Pick(rng, "é", "世界", "\xff", "caf\xc3\xa9"))}}
	case "bad-key-char-md":
		p.HasBase, p.Base = true, []kv{{K: vlib.Pick(rng, "k y", "k@", "ké", "k:", "a/b", "a=b", "k\x00", " k", "k,"), V: []byte("v")}}
	case "empty-key-md":
		p.HasBase, p.Base = true, []kv{{K: "", V: []byte("v")}}
	case "nonprintable-value-append":
		p.Appends = [][]kv{{{K: "X-Np", V: []byte(np)}}}
	case "bad-key-char-append":
		p.Appends = [][]kv{{{K: vlib.Pick(rng, "k y", "k@", "ké", "k:", "a/b", "k\x00"), V: []byte("v")}}}
	case "empty-key-append":
		p.Appends = [][]kv{{{K: "", V: []byte("v")}}}
	case "upper-bin-key-md":
		p.HasBase, p.Base = true, []kv{{K: "Data-bin", V: []byte{0, 1, 2}}}
	case "invalid-among-valid-md":
		p.HasBase = true
		p.Base = genPairs(rng, mk, 4, nil, 0, false)
		p.Base = append(p.Base, kv{K: "x-np", V: []byte(np)})
		rng.Shuffle(len(p.Base), func(i, j int) { p.Base[i], p.Base[j] = p.Base[j], p.Base[i] })
		p.Appends = [][]kv{genPairs(rng, mk, 2, nil, 0, true)}
	case "invalid-among-valid-append":
		p.HasBase = true
		p.Base = genPairs(rng, mk, 3, nil, 0, false)
		p.Appends = [][]kv{genPairs(rng, mk, 2, nil, 0, true), {{K: "x-ok", V: []byte("fine")}, {K: "X-Np", V: []byte(np)}}, genPairs(rng, mk, 2, nil, 0, true)}
	}
	return p
}

func runInvalid(plans []rpcPlan) *result {
	res := &result{counters: map[string]int64{}}
	fx, err := wire.NewClientFixture()
	if err != nil {
		res.v("harness", "fixture: %v", err)
		return res
	}
	fx.CC.Connect()
	peer := fx.Accept()
	if err := peer.Start(); err != nil {
		res.v("harness", "start: %v", err)
		return res
	}
	synctest.Wait()
	fed := 0
	headersSeen := 0
	validStarted := 0
	for i, p := range plans {
		pre := fmt.Sprintf("invalid rpc %d (%s, %s)", i, p.Kind, p.Invalid)
		var o clientObs
		done := make(chan struct{})
		go func() {
			defer close(done)
			o = call(fx.CC, buildCtx(i, p), p.Kind)
		}()
		synctest.Wait()
		var mine []wire.Entry
		for _, e := range peer.LogFrom(fed) {
			if e.Dir == wire.In && e.Type == http2.FrameHeaders {
				headersSeen++
				mine = append(mine, e)
			}
		}
		fed = peer.Len()
		if p.Invalid == "" {
			validStarted++
			if len(mine) != 1 {
				res.v("valid-metadata-rpc-failed", "%s: a valid RPC produced %d HEADERS frames", pre, len(mine))
				<-done
				continue
			}
			id := mine[0].Stream
			peer.WriteHeaders(id, false, 0, wire.ResponseHeaders()...)
			peer.WriteData(id, wire.Msg([]byte("ok")), false, -1)
			peer.WriteHeaders(id, true, 0, wire.Trailers(0, "")...)
			<-done
			if o.err != nil {
				res.v("valid-metadata-rpc-failed", "%s: valid RPC answered OK by the scripted server ended with %v", pre, o.err)
			} else {
				res.counters["valid_rpcs_between_invalid_ones_ok"]++
			}
			continue
		}
		if len(mine) > 0 {
			res.v("invalid-metadata-sent", "%s: the scripted server read a HEADERS frame: %s", pre, mine[0].String())
			for _, e := range mine {
				peer.WriteRST(e.Stream, http2.ErrCodeCancel)
			}
		}
		<-done
		switch {
		case o.err == nil:
			res.v("invalid-metadata-accepted", "%s: the RPC did not fail", pre)
		case status.Code(o.err) != codes.Internal:
			res.v("invalid-metadata-wrong-code", "%s: the RPC failed with %v, want INTERNAL", pre, o.err)
		case len(mine) == 0:
			res.counters["invalid_rpcs_internal_and_nothing_sent"]++
			res.sigs = append(res.sigs, "invalid/"+p.Kind+"/"+p.Invalid)
		}
	}
	synctest.Wait()
	for _, e := range peer.LogFrom(fed) {
		if e.Dir == wire.In && e.Type == http2.FrameHeaders {
			headersSeen++
		}
	}
	if headersSeen > validStarted { // fewer: a valid RPC failed, reported above
		res.v("invalid-metadata-sent", "the scripted server read %d HEADERS frames in total but only %d valid RPCs were started", headersSeen, validStarted)
	}
	res.counters["headers_frames_read_by_scripted_server"] += int64(headersSeen)
	fx.CC.Close()
	peer.Close()
	<-peer.Done()
	return res
}

// ---------- family to-server ----------

var rawReqReserved = []string{"grpc-status", "grpc-message", "grpc-message-type", "te"}
var rawRespReserved = []string{"te", "grpc-timeout", "grpc-message-type"}

func wireFields(ps []kv) []hpack.HeaderField {
	var out []hpack.HeaderField
	for _, p := range ps {
		v := string(p.V)
		if strings.HasSuffix(p.K, "-bin") {
			if p.Padded {
				v = base64.StdEncoding.EncodeToString(p.V)
			} else {
				v = base64.RawStdEncoding.EncodeToString(p.V)
			}
		}
		out = append(out, wire.F(p.K, v))
	}
	return out
}

func padStats(res *result, ps []kv) (padded, unpadded bool) {
	for _, p := range ps {
		if strings.HasSuffix(p.K, "-bin") && len(p.V)%3 != 0 {
			if p.Padded {
				padded = true
				res.counters["bin_values_sent_with_padding_chars"]++
			} else {
				unpadded = true
				res.counters["bin_values_sent_unpadded"]++
			}
		}
	}
	return
}

func runToServer(plans []rpcPlan, mk *markers) *result {
	res := &result{counters: map[string]int64{}}
	srv := newServer(plans)
	lis := memconn.NewListener()
	go srv.gs.Serve(lis)
	c, err := lis.Dial()
	if err != nil {
		res.v("harness", "dial: %v", err)
		return res
	}
	peer := wire.NewPeer(c, false)
	if err := peer.Start(); err != nil {
		res.v("harness", "start: %v", err)
		return res
	}
	synctest.Wait()
	for i, p := range plans {
		id := uint32(1 + 2*i)
		path := "/verif.MD/Stream"
		if p.Kind == "unary" {
			path = "/verif.MD/Unary"
		}
		extra := append(wireFields(p.Base), wire.F("x-rid", strconv.Itoa(i)))
		peer.WriteHeaders(id, false, 0, wire.RequestHeaders(path, extra...)...)
		peer.WriteData(id, wire.Msg([]byte("req")), true, -1)
	}
	synctest.Wait()
	codesSeen := map[uint32]string{}
	for _, e := range peer.Log() {
		if e.Dir == wire.In && e.Type == http2.FrameHeaders && e.EndStream() {
			codesSeen[e.Stream], _ = e.Field("grpc-status")
		}
		if e.Dir == wire.In && (e.Type == http2.FrameGoAway || e.Type == wire.TypeConnEnd) {
			res.v("connection-killed", "to-server: the server ended the connection: %s", e)
		}
	}
	srv.mu.Lock()
	for i, p := range plans {
		pre := fmt.Sprintf("to-server rpc %d (%s)", i, p.Kind)
		so := srv.obs[i]
		if so == nil || so.ran != 1 || codesSeen[uint32(1+2*i)] != "0" {
			res.v("valid-metadata-rpc-failed", "%s: hand-built valid request did not run its handler exactly once and end OK (handler %v, grpc-status %q)", pre, so, codesSeen[uint32(1+2*i)])
			continue
		}
		want := mm{}
		want.add(p.Base)
		want["x-rid"] = []string{strconv.Itoa(i)}
		if compareMD(res, pre+" server FromIncomingContext", so.incoming, want, serverOwn, mk) {
			res.counters["incoming_md_identical"]++
		}
		pd, up := padStats(res, p.Base)
		res.sigs = append(res.sigs, fmt.Sprintf("to-server/%s/%s", p.Kind, flags([]string{"bin", "rep", "rsv", "padded", "unpadded"}, hasBin(p.Base), hasRepeat(p.Base), hasReserved(p.Base), pd, up)))
	}
	srv.mu.Unlock()
	peer.Close()
	srv.gs.Stop()
	<-peer.Done()
	return res
}

// ---------- family to-client ----------

func runToClient(plans []rpcPlan, mk *markers) *result {
	res := &result{counters: map[string]int64{}}
	fx, err := wire.NewClientFixture(grpc.WithMaxHeaderListSize(16 << 20))
	if err != nil {
		res.v("harness", "fixture: %v", err)
		return res
	}
	fx.CC.Connect()
	peer := fx.Accept()
	if err := peer.Start(); err != nil {
		res.v("harness", "start: %v", err)
		return res
	}
	synctest.Wait()
	fed := 0
	for i, p := range plans {
		pre := fmt.Sprintf("to-client rpc %d (%s, %s)", i, p.Kind, p.Resp.Shape)
		var o clientObs
		done := make(chan struct{})
		go func() {
			defer close(done)
			o = call(fx.CC, buildCtx(i, p), p.Kind)
		}()
		synctest.Wait()
		var id uint32
		for _, e := range peer.LogFrom(fed) {
			if e.Dir == wire.In && e.Type == http2.FrameHeaders {
				if v, _ := e.Field("x-rid"); v == strconv.Itoa(i) {
					id = e.Stream
				}
			}
		}
		fed = peer.Len()
		if id == 0 {
			select {
			case <-done:
				res.v("valid-metadata-rpc-failed", "%s: the RPC ended with %v before any HEADERS frame was sent although all metadata is valid", pre, o.err)
				continue
			default:
			}
			res.v("harness", "%s: request HEADERS never arrived and the RPC is still running", pre)
			for _, e := range peer.Log() {
				if e.Dir == wire.In && e.Type == http2.FrameHeaders {
					peer.WriteRST(e.Stream, http2.ErrCodeCancel)
				}
			}
			<-done
			break
		}
		switch p.Resp.Shape {
		case "trailers-only":
			peer.WriteHeaders(id, true, 0, append(wire.TrailersOnly(0, ""), wireFields(p.Resp.Trailer)...)...)
		case "headers-trailers":
			peer.WriteHeaders(id, false, 0, wire.ResponseHeaders(wireFields(p.Resp.Header)...)...)
			peer.WriteHeaders(id, true, 0, wire.Trailers(0, "", wireFields(p.Resp.Trailer)...)...)
		default:
			peer.WriteHeaders(id, false, 0, wire.ResponseHeaders(wireFields(p.Resp.Header)...)...)
			peer.WriteData(id, wire.Msg([]byte("m")), false, -1)
			peer.WriteHeaders(id, true, 0, wire.Trailers(0, "", wireFields(p.Resp.Trailer)...)...)
		}
		<-done
		if o.err != nil {
			res.v("valid-metadata-rpc-failed", "%s: hand-built valid response ended the RPC with %v", pre, o.err)
			continue
		}
		wantH, wantT := mm{}, mm{}
		wantH.add(p.Resp.Header)
		wantT.add(p.Resp.Trailer)
		okH := compareMD(res, pre+" client Header()", o.header, wantH, clientOwn, mk)
		okT := compareMD(res, pre+" client Trailer()", o.trailer, wantT, clientOwn, mk)
		if okH && okT {
			res.counters["header_and_trailer_identical"]++
		}
		all := append(append([]kv{}, p.Resp.Header...), p.Resp.Trailer...)
		pd, up := padStats(res, all)
		res.sigs = append(res.sigs, fmt.Sprintf("to-client/%s/%s/%s", p.Kind, p.Resp.Shape, flags([]string{"bin", "rep", "rsv", "padded", "unpadded"}, hasBin(all), hasRepeat(all), hasReserved(all), pd, up)))
	}
	// the client's own request blocks as seen by the scripted server
	for _, e := range peer.Log() {
		if e.Dir == wire.In && e.Type == http2.FrameHeaders {
			scanWire(res, "client->scripted-server", []block{{stream: e.Stream, fields: e.Fields}}, mk)
		}
	}
	fx.CC.Close()
	peer.Close()
	<-peer.Done()
	return res
}

func genToClient(rng *rand.Rand, idx int, mk *markers) rpcPlan {
	p := rpcPlan{Kind: vlib.Pick(rng, "unary", "stream")}
	p.Resp.Shape = vlib.Pick(rng, "trailers-only", "headers-trailers", "headers-data-trailers")
	if p.Kind == "unary" {
		p.Resp.Shape = "headers-data-trailers" // a unary RPC that ends OK needs its response message
	}
	if p.Resp.Shape != "trailers-only" {
		p.Resp.Header = genPairs(rng, mk, 4, append([]string{"grpc-message"}, rawRespReserved...), 40, false)
	}
	p.Resp.Trailer = genPairs(rng, mk, 4, rawRespReserved, 40, false)
	// request side: some reserved names too, to look at the client's request block
	p.Appends = [][]kv{genPairs(rng, mk, 2, reservedNames, 50, true)}
	return p
}

func genToServer(rng *rand.Rand, idx int, mk *markers) rpcPlan {
	p := rpcPlan{Kind: vlib.Pick(rng, "unary", "stream")}
	p.Base = genPairs(rng, mk, 6, rawReqReserved, 50, false)
	return p
}

// describe renders a plan compactly for the evidence file.
func describe(p rpcPlan) map[string]any {
	short := func(ps []kv) []string {
		var out []string
		for _, x := range ps {
			v := x.V
			if len(v) > 12 {
				v = v[:12]
			}
			out = append(out, fmt.Sprintf("%s=%q(%dB)", x.K, v, len(x.V)))
		}
		return out
	}
	d := map[string]any{"kind": p.Kind, "has_base": p.HasBase, "base": short(p.Base), "fail": p.Fail}
	for i, a := range p.Appends {
		d[fmt.Sprintf("append%d", i)] = short(a)
	}
	for i, op := range p.Ops {
		d[fmt.Sprintf("op%d_%s", i, op.Op)] = short(op.MD)
	}
	if p.Pick.Mode != "" {
		d["picker_mode"], d["picker_md"] = p.Pick.Mode, short(p.Pick.MD)
	}
	if p.Invalid != "" {
		d["invalid"] = p.Invalid
	}
	if p.Resp.Shape != "" {
		d["resp_shape"], d["resp_header"], d["resp_trailer"] = p.Resp.Shape, short(p.Resp.Header), short(p.Resp.Trailer)
	}
	return d
}

// ---------- driver ----------

func light() int {
	if os.Getenv("VERIF_LIGHT") != "" {
		return 5
	}
	return 1
}

func runFam(t *testing.T, r *vlib.Run, fam string, n, perCase int) {
	for i := 0; i < n; i++ {
		if !r.Want(fam, i) {
			continue
		}
		rng := r.Rand(fam, i)
		mk := &markers{}
		var plans []rpcPlan
		for k := 0; k < perCase; k++ {
			switch fam {
			case "e2e":
				plans = append(plans, genE2E(rng, i*perCase+k, mk))
			case "invalid":
				plans = append(plans, genInvalid(rng, i*perCase+k, mk))
			case "to-server":
				plans = append(plans, genToServer(rng, i*perCase+k, mk))
			case "to-client":
				plans = append(plans, genToClient(rng, i*perCase+k, mk))
			}
		}
		r.Progress(fam, i, fmt.Sprintf("rpcs=%d", len(plans)))
		var res *result
		synctest.Test(t, func(t *testing.T) {
			switch fam {
			case "e2e":
				res = runE2E(plans, mk)
			case "invalid":
				res = runInvalid(plans)
			case "to-server":
				res = runToServer(plans, mk)
			case "to-client":
				res = runToClient(plans, mk)
			}
		})
		r.Eval(len(plans))
		for _, x := range res.viol {
			r.Violation(x[0], fam, i, plans, "%s", x[1])
		}
		keys := make([]string, 0, len(res.counters))
		for k := range res.counters {
			keys = append(keys, k)
		}
		sort.Strings(keys)
		for _, k := range keys {
			r.Count(k, res.counters[k])
		}
		for _, s := range res.sigs {
			r.Nontrivial(s)
		}
		if i == 0 {
			r.Sample(map[string]any{"family": fam, "first_plan": describe(plans[0]), "signatures": res.sigs, "counters": res.counters})
		}
	}
}

func TestVerifC09(t *testing.T) {
	r := vlib.Start(t, "C09")
	runFam(t, r, "e2e", r.N(250, 5000)/light(), 6)
	runFam(t, r, "invalid", r.N(100, 2000)/light(), 8)
	runFam(t, r, "to-server", r.N(100, 2000)/light(), 8)
	runFam(t, r, "to-client", r.N(100, 2000)/light(), 6)
	r.Finish(vlib.Spec{
		Level: "exploration",
		Rule: "keys over [0-9a-z-_.] (pool + random, a third -bin), values: printable ASCII incl. empty / leading-trailing spaces / 3 KB, -bin: random bytes of 0..1000 (rarely 20000) bytes, 1-4 values per key, shuffled; reserved names (pseudo-headers, content-type, te, user-agent, grpc-status/-message/-encoding/-timeout/-message-type) injected with unique marker values; e2e: base MD and 0-3 AppendToOutgoingContext calls with mixed-case keys, a registered test LB policy (wrapped pick_first) whose picker adds PickResult.Metadata for ~60% of the picks (empty non-nil MD, or 1-4 keys: unique, colliding with user keys, -bin, reserved names with markers; handler must see user multimap + picker pairs, colliding key: user-then-picker or picker-then-user), handlers with 0-2 SetHeader, optional SendHeader / message, 0-3 SetTrailer, OK or error, unary (grpc.SetHeader...) and stream API: handler's incoming MD, client's Header()/Trailer() == reference multimap (per-key order), no marker surfaced or on the tapped wire, wire names lower-case, -bin wire values base64; invalid: 11 kinds of invalid metadata => INTERNAL and no HEADERS read by the scripted server; to-server / to-client: hand-built blocks with padded and unpadded base64; every RPC judged; distinct = (family, kind, API path / shape, ingredient flags)",
		Assumptions: []string{
			"the transport's own :authority, user-agent, content-type and grpc-accept-encoding may be surfaced (never with a user marker)",
			"user keys avoid host, connection and non-reserved grpc-* names; hand-built peer blocks avoid unknown pseudo-headers (the HTTP/2 layer rejects them)",
			"server-side invalid metadata is exercised through ServerStream.SetHeader/SendHeader only (grpc.SetHeader(ctx) does not validate by design)",
			"balancer.PickResult.Metadata is documented as 'merged' without an order for keys the application also set: both block orders are accepted; ':authority' from a picker is the gRFC A81 authority override and is not injected",
		},
		Floor: 60,
	})
}
