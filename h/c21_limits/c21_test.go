// C21: effective message size limits are the minimum of all configured limits.
//
// Engine E2: a real client (service config maxRequestMessageBytes /
// maxResponseMessageBytes x dial default call options x per-call options)
// against a real server (MaxRecvMsgSize / MaxSendMsgSize) over a tapped memconn
// inside a synctest bubble.  For every distinct limit L of the configuration,
// probes with wire sizes L-1, L, L+1 are sent in each direction, uncompressed
// and compressed (wire size = post-compression size; highly compressible
// payloads separate the wire size from the decompressed size).  A small
// reference model, written from the statement, says which of five stages stops
// the message; the client status, the handler's view and the tapped wire must
// agree with it.
package c21

import (
	"bytes"
	"context"
	"fmt"
	"io"
	"math"
	"math/rand"
	"os"
	"sort"
	"strconv"
	"sync"
	"testing"
	"testing/synctest"

	"google.golang.org/grpc"
	"google.golang.org/grpc/codes"
	"google.golang.org/grpc/metadata"
	"google.golang.org/grpc/verif/msgfix"
	"google.golang.org/grpc/verif/vlib"
)

const (
	defRecv = 4 << 20       // documented default receive limit (client and server)
	defSend = math.MaxInt32 // documented default send limit
	window  = 32 << 20
)

func light() bool { return os.Getenv("VERIF_LIGHT") != "" }

// cfg is one channel + server configuration (one bubble). -1 = not configured.
type cfg struct {
	SCReq  int    `json:"sc_req"`  // service config maxRequestMessageBytes
	SCRsp  int    `json:"sc_rsp"`  // service config maxResponseMessageBytes
	SCForm int    `json:"sc_form"` // 0: name {service,method}; 1: {service}; 2: {} (default method config)
	DSend  int    `json:"d_send"`  // WithDefaultCallOptions(MaxCallSendMsgSize)
	DRecv  int    `json:"d_recv"`  // WithDefaultCallOptions(MaxCallRecvMsgSize)
	SSend  int    `json:"s_send"`  // server MaxSendMsgSize
	SRecv  int    `json:"s_recv"`  // server MaxRecvMsgSize
	Comp   string `json:"comp"`    // "" | gzip | vz-a : client UseCompressor (the server answers in the same encoding)
	Big    bool   `json:"big"`     // also probe the 4 MB default where it is the effective limit
}

// probe is one RPC.
type probe struct {
	CSend   int    `json:"c_send"` // per-call MaxCallSendMsgSize, -1 unset
	CRecv   int    `json:"c_recv"` // per-call MaxCallRecvMsgSize, -1 unset
	ReqSize int    `json:"req_size"`
	ReqPK   int    `json:"req_pk"` // 0 incompressible, 1 zeros
	RspSize int    `json:"rsp_size"`
	RspPK   int    `json:"rsp_pk"`
	ReqWire bool   `json:"req_wire"` // ReqSize is the targeted POST-compression size; the payload size is derived
	RspWire bool   `json:"rsp_wire"`
	Unary   bool   `json:"unary"` // cc.Invoke instead of NewStream
	What    string `json:"what"`  // which limit / delta the probe aims at (evidence only)
}

// ---- the reference model (from the statement) ----

func minRule(sc, opt, def int) (int, string) {
	switch {
	case sc < 0 && opt < 0:
		return def, "default"
	case sc < 0:
		return opt, "option"
	case opt < 0:
		return sc, "service-config"
	case sc < opt:
		return sc, "service-config<option"
	case sc == opt:
		return sc, "equal"
	}
	return opt, "option<service-config"
}

func pick(call, dial int) int {
	if call >= 0 {
		return call // a per-call option overrides the dial default
	}
	return dial
}

type limits struct {
	cSend, cRecv, sSend, sRecv int
	cSendBy, cRecvBy           string
}

func (c cfg) limits(p probe) limits {
	var l limits
	l.cSend, l.cSendBy = minRule(c.SCReq, pick(p.CSend, c.DSend), defSend)
	l.cRecv, l.cRecvBy = minRule(c.SCRsp, pick(p.CRecv, c.DRecv), defRecv)
	l.sSend, l.sRecv = defSend, defRecv
	if c.SSend >= 0 {
		l.sSend = c.SSend
	}
	if c.SRecv >= 0 {
		l.sRecv = c.SRecv
	}
	return l
}

// Stages at which a message exchange can stop.
const (
	stClientSend = "client-send-limit" // never transmitted, RESOURCE_EXHAUSTED
	stServerRecv = "server-recv-limit" // transmitted, not delivered to the handler, RESOURCE_EXHAUSTED
	stServerSend = "server-send-limit" // request delivered, response never transmitted, RESOURCE_EXHAUSTED
	stClientRecv = "client-recv-limit" // response transmitted, not delivered, RESOURCE_EXHAUSTED
	stOK         = "delivered"
)

func wireLen(comp string, p []byte) int {
	if comp == "" || len(p) == 0 {
		return len(p) // empty messages are never compressed
	}
	return len(msgfix.Encode(comp, p))
}

func model(c cfg, l limits, req, rsp []byte) (stage string, wreq, wrsp int) {
	wreq, wrsp = wireLen(c.Comp, req), wireLen(c.Comp, rsp)
	switch {
	case wreq > l.cSend:
		return stClientSend, wreq, wrsp
	case wreq > l.sRecv || len(req) > l.sRecv:
		return stServerRecv, wreq, wrsp
	case wrsp > l.sSend:
		return stServerSend, wreq, wrsp
	case wrsp > l.cRecv || len(rsp) > l.cRecv:
		return stClientRecv, wreq, wrsp
	}
	return stOK, wreq, wrsp
}

// ---- payloads with an exact wire size ----

// payloadForWire returns n such that wireLen(comp, Pattern(tag,n,0)) == w (or
// the closest reachable size below).
func payloadForWire(comp string, tag uint32, w int) int {
	if comp == "" || w <= 0 {
		return max(w, 0)
	}
	if comp == msgfix.VZA {
		// run-free payload: wire = magic + kind + uvarint(n) + n
		for _, vl := range []int{1, 2, 3, 4} {
			if n := w - 2 - vl; n >= 1 && uvarintLen(n) == vl {
				return n
			}
		}
		return max(w-4, 1)
	}
	n := w
	for tries := 0; tries < 64 && n > 0; tries++ {
		got := wireLen(comp, msgfix.Pattern(tag, n, 0))
		if got == w {
			return n
		}
		n -= got - w
		if n < 1 {
			n = 1
		}
	}
	// fall back to a linear scan around the estimate
	for k := max(n-40, 1); k < n+40; k++ {
		if wireLen(comp, msgfix.Pattern(tag, k, 0)) == w {
			return k
		}
	}
	return n
}

func uvarintLen(n int) int {
	l := 1
	for n >= 0x80 {
		n >>= 7
		l++
	}
	return l
}

// ---- harness ----

type srvRec struct {
	mu   sync.Mutex
	reqs map[int][]byte // rid -> request as delivered to the handler
	rerr map[int]error  // rid -> RecvMsg error
	serr map[int]error  // rid -> SendMsg error (nil = sent)
	sent map[int]bool
}

func serviceConfig(c cfg) string {
	if c.SCReq < 0 && c.SCRsp < 0 {
		return ""
	}
	name := `{"service":"verif.Lim","method":"Call"}`
	switch c.SCForm {
	case 1:
		name = `{"service":"verif.Lim"}`
	case 2:
		name = `{}`
	}
	s := `{"methodConfig":[{"name":[` + name + `]`
	if c.SCReq >= 0 {
		s += `,"maxRequestMessageBytes":` + strconv.Itoa(c.SCReq)
	}
	if c.SCRsp >= 0 {
		s += `,"maxResponseMessageBytes":` + strconv.Itoa(c.SCRsp)
	}
	return s + `}]}`
}

type outcome struct {
	P     probe  `json:"probe"`
	Stage string `json:"stage"`
	L     string `json:"limits"`
	Code  string `json:"code"`
}

type result struct {
	f    *msgfix.Findings
	sigs []string
	outs []outcome
}

func run(c cfg, probes []probe, tag uint32) *result {
	res := &result{f: msgfix.NewFindings()}
	f := res.f
	sr := &srvRec{reqs: map[int][]byte{}, rerr: map[int]error{}, serr: map[int]error{}, sent: map[int]bool{}}
	var hwg msgfix.Group // not sync.WaitGroup: see msgfix.Group
	handler := func(_ any, ss grpc.ServerStream) error {
		hwg.Add()
		defer hwg.Done()
		md, _ := metadata.FromIncomingContext(ss.Context())
		rid, _ := strconv.Atoi(first(md.Get("x-rid")))
		rsz, _ := strconv.Atoi(first(md.Get("x-rsp-size")))
		rpk, _ := strconv.Atoi(first(md.Get("x-rsp-pk")))
		var m []byte
		if err := ss.RecvMsg(&m); err != nil {
			sr.mu.Lock()
			sr.rerr[rid] = err
			sr.mu.Unlock()
			return err
		}
		sr.mu.Lock()
		sr.reqs[rid] = m
		sr.mu.Unlock()
		err := ss.SendMsg(msgfix.Pattern(tag+uint32(rid)*31+7, rsz, rpk))
		sr.mu.Lock()
		sr.serr[rid], sr.sent[rid] = err, err == nil
		sr.mu.Unlock()
		return err
	}
	sopts := []grpc.ServerOption{grpc.InitialWindowSize(window), grpc.InitialConnWindowSize(window)}
	if c.SSend >= 0 {
		sopts = append(sopts, grpc.MaxSendMsgSize(c.SSend))
	}
	if c.SRecv >= 0 {
		sopts = append(sopts, grpc.MaxRecvMsgSize(c.SRecv))
	}
	dopts := []grpc.DialOption{grpc.WithInitialWindowSize(window), grpc.WithInitialConnWindowSize(window)}
	if sc := serviceConfig(c); sc != "" {
		dopts = append(dopts, grpc.WithDefaultServiceConfig(sc))
	}
	if c.DSend >= 0 {
		dopts = append(dopts, grpc.WithDefaultCallOptions(grpc.MaxCallSendMsgSize(c.DSend)))
	}
	if c.DRecv >= 0 {
		dopts = append(dopts, grpc.WithDefaultCallOptions(grpc.MaxCallRecvMsgSize(c.DRecv)))
	}
	p, err := msgfix.NewPair(handler, sopts, dopts)
	if err != nil {
		f.Add("harness", "pair: %v", err)
		return res
	}
	type cliOut struct {
		err error
		rsp []byte
		got bool
	}
	outs := make([]cliOut, len(probes))
	reqs := make([][]byte, len(probes))
	rsps := make([][]byte, len(probes))
	for rid, pr := range probes {
		rq, rs := pr.ReqSize, pr.RspSize
		if pr.ReqWire {
			rq = payloadForWire(c.Comp, tag+uint32(rid)*31, pr.ReqSize)
		}
		if pr.RspWire {
			rs = payloadForWire(c.Comp, tag+uint32(rid)*31+7, pr.RspSize)
		}
		reqs[rid] = msgfix.Pattern(tag+uint32(rid)*31, rq, pr.ReqPK)
		rsps[rid] = msgfix.Pattern(tag+uint32(rid)*31+7, rs, pr.RspPK)
	}
	for rid, pr := range probes {
		req := reqs[rid]
		ctx := metadata.AppendToOutgoingContext(context.Background(), "x-rid", strconv.Itoa(rid), "x-rsp-size", strconv.Itoa(len(rsps[rid])), "x-rsp-pk", strconv.Itoa(pr.RspPK))
		ctx, cancel := context.WithCancel(ctx)
		var copts []grpc.CallOption
		if pr.CSend >= 0 {
			copts = append(copts, grpc.MaxCallSendMsgSize(pr.CSend))
		}
		if pr.CRecv >= 0 {
			copts = append(copts, grpc.MaxCallRecvMsgSize(pr.CRecv))
		}
		if c.Comp != "" {
			copts = append(copts, grpc.UseCompressor(c.Comp))
		}
		done := make(chan struct{})
		go func() {
			defer close(done)
			o := &outs[rid]
			if pr.Unary {
				var rsp []byte
				o.err = p.CC.Invoke(ctx, "/verif.Lim/Call", req, &rsp, copts...)
				if o.err == nil {
					o.rsp, o.got = rsp, true
				}
				return
			}
			st, err := p.CC.NewStream(ctx, &grpc.StreamDesc{ClientStreams: true, ServerStreams: true}, "/verif.Lim/Call", copts...)
			if err != nil {
				o.err = err
				return
			}
			if err := st.SendMsg(req); err != nil && err != io.EOF {
				o.err = err
				return
			}
			st.CloseSend()
			var rsp []byte
			if err := st.RecvMsg(&rsp); err != nil {
				o.err = err
				return
			}
			o.rsp, o.got = rsp, true
			var extra []byte
			if err := st.RecvMsg(&extra); err != io.EOF {
				o.err = err
				if err == nil {
					o.err = fmt.Errorf("second response message of %d bytes", len(extra))
				}
			}
		}()
		synctest.Wait() // the RPC, the handler and both transports are quiescent
		select {
		case <-done:
		default:
			f.Add("rpc-never-finished", "probe %d (%+v) has not returned at quiescence", rid, pr)
			cancel()
			<-done
		}
		cancel()
	}
	synctest.Wait()

	c2s, s2c, derr := p.Tap.Decode(0)
	if derr != nil || p.Tap.Conns() != 1 {
		f.Add("harness", "tap: conns=%d err=%v", p.Tap.Conns(), derr)
		c2s, s2c = nil, nil
	}
	byRid := map[int]*msgfix.StreamView{}
	for _, sv := range c2s {
		if v, ok := sv.Field("x-rid"); ok {
			rid, _ := strconv.Atoi(v)
			byRid[rid] = sv
		}
	}
	for rid, pr := range probes {
		l := c.limits(pr)
		rsp := rsps[rid]
		stage, wreq, wrsp := model(c, l, reqs[rid], rsp)
		o := outs[rid]
		code := msgfix.CodeOf(o.err)
		ls := fmt.Sprintf("client send %d (%s) recv %d (%s); server send %d recv %d; request %d bytes (wire %d), response %d bytes (wire %d)", l.cSend, l.cSendBy, l.cRecv, l.cRecvBy, l.sSend, l.sRecv, len(reqs[rid]), wreq, len(rsp), wrsp)
		res.outs = append(res.outs, outcome{P: pr, Stage: stage, L: ls, Code: code.String()})
		f.C["probes"]++
		f.C["stage_"+stage]++
		// (a) client status and delivered response
		if stage == stOK {
			switch {
			case code != codes.OK:
				f.Add("within-limits-rejected", "probe %d %s: everything is within the effective limits (%s) but the RPC failed with %v", rid, pr.What, ls, o.err)
			case !o.got || !bytes.Equal(o.rsp, rsp):
				f.Add("response-not-intact", "probe %d: the response delivered to the client has %d bytes, the handler sent %d bytes (%s)", rid, len(o.rsp), len(rsp), ls)
			}
		} else {
			if code != codes.ResourceExhausted {
				key := "over-limit-not-rejected"
				if code != codes.OK {
					key = "over-limit-wrong-status"
				}
				f.Add(key+"/"+stage, "probe %d %s: expected to stop at %s with RESOURCE_EXHAUSTED (%s) but the RPC ended with code %v (%v), response delivered=%v", rid, pr.What, stage, ls, code, o.err, o.got)
			}
			if o.got && code != codes.OK {
				f.Add("over-limit-response-delivered", "probe %d %s: a %d-byte response was delivered although the exchange must stop at %s (%s)", rid, pr.What, len(o.rsp), stage, ls)
			}
		}
		// (b) the handler's view
		sr.mu.Lock()
		hreq, hgot := sr.reqs[rid]
		hsent := sr.sent[rid]
		hserr := sr.serr[rid]
		sr.mu.Unlock()
		switch stage {
		case stClientSend, stServerRecv:
			if hgot {
				f.Add("over-limit-request-delivered/"+stage, "probe %d %s: the handler received the %d-byte request although it must stop at %s (%s)", rid, pr.What, len(hreq), stage, ls)
			}
		default:
			if !hgot {
				f.Add("request-not-delivered", "probe %d %s: the request is within the client send and server receive limits (%s) but the handler did not receive it (client status %v)", rid, pr.What, ls, o.err)
			} else if !bytes.Equal(hreq, reqs[rid]) {
				f.Add("request-not-intact", "probe %d: the handler received %d bytes, the client sent %d bytes", rid, len(hreq), len(reqs[rid]))
			}
			if stage == stServerSend && (hsent || msgfix.CodeOf(hserr) != codes.ResourceExhausted) {
				f.Add("server-send-limit-not-enforced", "probe %d %s: the handler's SendMsg of %d wire bytes returned %v with server MaxSendMsgSize %d (%s)", rid, pr.What, wrsp, hserr, l.sSend, ls)
			}
			if stage != stServerSend && hgot && !hsent {
				f.Add("server-send-rejected-within-limit", "probe %d %s: the handler's SendMsg of %d wire bytes failed with %v although the server send limit is %d", rid, pr.What, wrsp, hserr, l.sSend)
			}
		}
		// (c) the wire
		if c2s == nil {
			continue
		}
		reqView := byRid[rid]
		var rspView *msgfix.StreamView
		if reqView != nil {
			rspView = s2c[reqView.ID]
		}
		reqOnWire := reqView != nil && len(reqView.Data) > 0
		rspOnWire := rspView != nil && len(rspView.Data) > 0
		if stage == stClientSend && reqOnWire {
			f.Add("over-limit-request-transmitted", "probe %d %s: %d bytes of request DATA are on the wire although the %d-byte wire message exceeds the client's effective send limit %d (%s)", rid, pr.What, len(reqView.Data), wreq, l.cSend, l.cSendBy)
		}
		if stage != stClientSend && !reqOnWire {
			f.Add("request-not-transmitted", "probe %d %s: no request DATA on the wire although the wire size %d is within the client's send limit %d (%s)", rid, pr.What, wreq, l.cSend, l.cSendBy)
		}
		if (stage == stClientSend || stage == stServerRecv || stage == stServerSend) && rspOnWire {
			f.Add("over-limit-response-transmitted", "probe %d %s: %d bytes of response DATA are on the wire although the exchange must stop at %s (%s)", rid, pr.What, len(rspView.Data), stage, ls)
		}
		// every complete message on the wire respects its sender's limit and has the modelled size
		if reqOnWire {
			pl, _, _ := reqView.Msgs()
			for _, m := range pl {
				f.C["request_messages_on_wire"]++
				if len(m) > l.cSend {
					f.Add("wire-message-over-send-limit", "probe %d: a %d-byte request message is on the wire, client send limit %d (%s)", rid, len(m), l.cSend, l.cSendBy)
				}
				if len(m) != wreq {
					f.Add("harness-wire-size-model", "probe %d: request wire size %d differs from the modelled %d (comp %q)", rid, len(m), wreq, c.Comp)
				}
			}
		}
		if rspOnWire {
			pl, _, _ := rspView.Msgs()
			for _, m := range pl {
				f.C["response_messages_on_wire"]++
				if len(m) > l.sSend {
					f.Add("wire-message-over-send-limit", "probe %d: a %d-byte response message is on the wire, server send limit %d", rid, len(m), l.sSend)
				}
				if len(m) != wrsp {
					f.Add("harness-wire-size-model", "probe %d: response wire size %d differs from the modelled %d (comp %q)", rid, len(m), wrsp, c.Comp)
				}
			}
		}
		res.sigs = append(res.sigs, fmt.Sprintf("%s/send-by:%s/recv-by:%s/srv:%v,%v/comp:%v/%s", stage, l.cSendBy, l.cRecvBy, c.SSend >= 0, c.SRecv >= 0, c.Comp != "", pr.What))
	}
	p.Close()
	hwg.Wait()
	return res
}

func first(v []string) string {
	if len(v) == 0 {
		return ""
	}
	return v[0]
}

// ---- generators ----

var pool = []int{0, 7, 100, 1000, 3000, 10000, 20000, 50000, 70000}

// genCfg: index i walks the product {sc unset/set}^2 x {dial unset/set}^2 x
// {server unset/set}^2 x comp (must-hit prefix); the values are drawn.
func genCfg(rng *rand.Rand, i int, thorough bool) cfg {
	perm := rng.Perm(len(pool))
	val := func(k int) int { return pool[perm[k%len(pool)]] }
	bit := func(b int) bool { return (i>>b)&1 == 1 }
	c := cfg{SCReq: -1, SCRsp: -1, DSend: -1, DRecv: -1, SSend: -1, SRecv: -1, SCForm: rng.Intn(3)}
	if bit(0) {
		c.SCReq = val(0)
	}
	if bit(1) {
		c.SCRsp = val(1)
	}
	if bit(2) {
		c.DSend = val(2)
	}
	if bit(3) {
		c.DRecv = val(3)
	}
	if bit(4) {
		c.SSend = val(4)
	}
	if bit(5) {
		c.SRecv = val(5)
	}
	c.Comp = []string{"", msgfix.Gzip, msgfix.VZA}[(i>>6)%3]
	c.Big = !light() && rng.Intn(12) == 0
	if c.Comp == msgfix.Gzip && !thorough {
		c.Big = false // gzip of 4 MB payloads (dozens per configuration) is left to the thorough tier
	}
	return c
}

// genProbes: for every per-call combination and every distinct limit L of the
// resulting configuration, L-1 / L / L+1 in each direction.
func genProbes(rng *rand.Rand, c cfg) []probe {
	var out []probe
	perm := rng.Perm(len(pool))
	cv := []int{pool[perm[0]], pool[perm[1]]}
	calls := [][2]int{{-1, -1}, {cv[0], -1}, {-1, cv[1]}, {cv[0], cv[1]}}
	if light() {
		calls = [][2]int{calls[rng.Intn(4)], calls[rng.Intn(4)]}
	}
	for _, cl := range calls {
		base := probe{CSend: cl[0], CRecv: cl[1]}
		l := c.limits(base)
		type lim struct {
			v    int
			name string
		}
		reqLims := []lim{{l.cSend, "client-send"}, {l.sRecv, "server-recv"}}
		rspLims := []lim{{l.sSend, "server-send"}, {l.cRecv, "client-recv"}}
		add := func(dir string, lm lim) {
			if lm.v == defSend {
				return // MaxInt32: not reachable
			}
			if lm.v == defRecv && !c.Big {
				return
			}
			for _, d := range []int{-1, 0, 1} {
				w := lm.v + d
				if w < 0 {
					continue
				}
				kinds := []string{"plain"}
				if c.Comp != "" {
					kinds = []string{"wire", "inflated"}
				}
				for _, k := range kinds {
					pr := base
					pr.Unary = rng.Intn(2) == 0
					pr.What = fmt.Sprintf("%s%+d/%s", lm.name, d, k)
					// "wire": incompressible payload whose post-compression size is w;
					// "inflated": zeros, tiny on the wire, w bytes decompressed
					pk := 0
					if k == "inflated" {
						pk = 1
					}
					if dir == "req" {
						pr.ReqSize, pr.ReqPK, pr.ReqWire = w, pk, k == "wire"
						pr.RspSize = rng.Intn(4)
					} else {
						pr.RspSize, pr.RspPK, pr.RspWire = w, pk, k == "wire"
						pr.ReqSize = rng.Intn(4)
					}
					out = append(out, pr)
				}
			}
		}
		for _, lm := range reqLims {
			add("req", lm)
		}
		for _, lm := range rspLims {
			add("rsp", lm)
		}
		// one exchange far inside every limit, one with both directions at their tightest limit
		small := base
		small.What = "tiny"
		small.Unary = rng.Intn(2) == 0
		out = append(out, small)
		both := base
		both.What = "both-at-limit"
		both.ReqSize = min(l.cSend, l.sRecv, 200000)
		both.RspSize = min(l.sSend, l.cRecv, 200000)
		if c.Comp != "" {
			both.ReqPK, both.RspPK = 1, 1
		}
		out = append(out, both)
	}
	return out
}

func runCase(t *testing.T, r *vlib.Run, fam string, i int, c cfg, probes []probe, tag uint32) {
	r.Progress(fam, i, fmt.Sprintf("%+v probes=%d", c, len(probes)))
	var res *result
	synctest.Test(t, func(t *testing.T) { res = run(c, probes, tag) })
	r.Eval(len(probes))
	for _, x := range res.f.V {
		r.Violation(x.Key, fam, i, map[string]any{"cfg": c, "outcomes": res.outs}, "%s", x.Msg)
	}
	keys := make([]string, 0, len(res.f.C))
	for k := range res.f.C {
		keys = append(keys, k)
	}
	sort.Strings(keys)
	for _, k := range keys {
		r.Count(k, res.f.C[k])
		if fam != "limits" {
			r.Count(fam+"_"+k, res.f.C[k])
		}
	}
	for _, s := range res.sigs {
		if fam != "limits" {
			s = fam + ":" + s
		}
		r.Nontrivial(s)
	}
	if i < 2 {
		r.Sample(map[string]any{"family": fam, "cfg": c, "service_config": serviceConfig(c), "probes": len(probes), "first_outcomes": res.outs[:min(4, len(res.outs))]})
	}
}

// ---- family above-default ----
//
// The pool of the main family stays below the built-in defaults, so there a
// service-config limit can only LOWER a limit.  Here the service-config limits
// lie above the 4 MiB default receive limit (and, for requests, above what a
// default server would take), alone and combined with options below / above
// them, and the effective limit is probed at L-1, L, L+1 with multi-MiB
// messages: uncompressed, post-compression size (vz-a: exact; gzip: one or two)
// and decompressed size (zeros).  Kept to a handful of RPCs per configuration.

const mib = 1 << 20

func unset() cfg {
	return cfg{SCReq: -1, SCRsp: -1, DSend: -1, DRecv: -1, SSend: -1, SRecv: -1}
}

// around returns the probes L-1, L, L+1 in one direction.
func around(dir string, l int, name, kind string, base probe, deltas ...int) []probe {
	var out []probe
	if len(deltas) == 0 {
		deltas = []int{-1, 0, 1}
	}
	for n, d := range deltas {
		pr := base
		pr.Unary = n%2 == 0
		pr.What = fmt.Sprintf("%s%+d/%s", name, d, kind)
		pk := 0
		if kind == "inflated" {
			pk = 1
		}
		if dir == "req" {
			pr.ReqSize, pr.ReqPK, pr.ReqWire = l+d, pk, kind == "wire"
			pr.RspSize = 3
		} else {
			pr.RspSize, pr.RspPK, pr.RspWire = l+d, pk, kind == "wire"
			pr.ReqSize = 3
		}
		out = append(out, pr)
	}
	return out
}

var none = probe{CSend: -1, CRecv: -1}

var aboveDefault = []func(rng *rand.Rand) (cfg, []probe){
	// 0: only the service config raises the receive limit above the default
	func(rng *rand.Rand) (cfg, []probe) {
		c := unset()
		c.SCRsp, c.SCForm = 5*mib+rng.Intn(1000), rng.Intn(3)
		return c, around("rsp", c.SCRsp, "client-recv", "plain", none)
	},
	// 1: just above the default: 4 MiB + 1
	func(rng *rand.Rand) (cfg, []probe) {
		c := unset()
		c.SCRsp, c.SCForm = defRecv+1, rng.Intn(3)
		return c, around("rsp", c.SCRsp, "client-recv", "plain", none)
	},
	// 2: nothing configured at all: the 4 MiB default itself
	func(rng *rand.Rand) (cfg, []probe) {
		return unset(), around("rsp", defRecv, "client-recv", "plain", none)
	},
	// 3: service config above the default, dial option below it but also above the default
	func(rng *rand.Rand) (cfg, []probe) {
		c := unset()
		c.SCRsp, c.DRecv = 6*mib+rng.Intn(1000), 5*mib+rng.Intn(1000)
		return c, around("rsp", c.DRecv, "client-recv", "plain", none)
	},
	// 4: service config above the default, per-call option above the service config;
	//    and a per-call option below the default on the same channel
	func(rng *rand.Rand) (cfg, []probe) {
		c := unset()
		c.SCRsp = 5*mib + rng.Intn(1000)
		hi := probe{CSend: -1, CRecv: 7 * mib}
		lo := probe{CSend: -1, CRecv: 3*mib + rng.Intn(1000)}
		return c, append(around("rsp", c.SCRsp, "client-recv", "plain", hi), around("rsp", lo.CRecv, "client-recv", "plain", lo, 0, 1)...)
	},
	// 5: request side: service config above 4 MiB only (server accepts 8 MiB)
	func(rng *rand.Rand) (cfg, []probe) {
		c := unset()
		c.SCReq, c.SRecv, c.SCForm = 5*mib+rng.Intn(1000), 8*mib, rng.Intn(3)
		return c, around("req", c.SCReq, "client-send", "plain", none)
	},
	// 6: request side: service config above a dial option, both above 4 MiB; server default
	//    receive limit (4 MiB) is then what stops the message
	func(rng *rand.Rand) (cfg, []probe) {
		c := unset()
		c.SCReq, c.DSend = 6*mib+rng.Intn(1000), 5*mib+rng.Intn(1000)
		return c, append(around("req", defRecv, "server-recv", "plain", none), around("req", c.DSend, "client-send", "plain", none, 1)...)
	},
	// 7: custom compressor: post-compression size exactly around the raised receive limit,
	//    and zeros whose decompressed size is around it
	func(rng *rand.Rand) (cfg, []probe) {
		c := unset()
		c.SCRsp, c.Comp = 5*mib+rng.Intn(1000), msgfix.VZA
		return c, append(around("rsp", c.SCRsp, "client-recv", "wire", none), around("rsp", c.SCRsp, "client-recv", "inflated", none)...)
	},
	// 8: gzip: decompressed size around the raised receive limit; one incompressible
	//    payload whose gzip form is one byte over it
	func(rng *rand.Rand) (cfg, []probe) {
		c := unset()
		c.SCRsp, c.Comp = 5*mib+rng.Intn(1000), msgfix.Gzip
		return c, append(around("rsp", c.SCRsp, "client-recv", "inflated", none), around("rsp", c.SCRsp, "client-recv", "wire", none, 1)...)
	},
	// 9: request side with the custom compressor: the raised send limit is judged on the
	//    post-compression size (zeros far larger than the limit must pass)
	func(rng *rand.Rand) (cfg, []probe) {
		c := unset()
		c.SCReq, c.SRecv, c.Comp = 5*mib+rng.Intn(1000), 8*mib, msgfix.VZA
		return c, append(around("req", c.SCReq, "client-send", "wire", none), around("req", 6*mib, "client-send", "inflated", none, 0)...)
	},
}

func TestVerifC21(t *testing.T) {
	r := vlib.Start(t, "C21")
	n := r.N(128, 1280)
	if light() {
		n = 12
	}
	for i := 0; i < n; i++ {
		if !r.Want("limits", i) {
			continue
		}
		rng := r.Rand("limits", i)
		c := genCfg(rng, i, r.Thorough())
		tag := rng.Uint32()
		probes := genProbes(rng, c)
		runCase(t, r, "limits", i, c, probes, tag)
	}
	// service-config limits ABOVE the built-in defaults (a handful of multi-MiB probes)
	rounds := r.N(1, 3)
	for round := 0; round < rounds; round++ {
		for j := 0; j < len(aboveDefault); j++ {
			i := round*len(aboveDefault) + j
			if !r.Want("above-default", i) || (light() && i != 0) {
				continue
			}
			rng := r.Rand("above-default", i)
			c, probes := aboveDefault[j](rng)
			if light() {
				probes = probes[1:2] // -race: one 5 MiB exchange exactly at the raised limit
			}
			runCase(t, r, "above-default", i, c, probes, rng.Uint32())
		}
	}
	floor := 150
	if light() {
		floor = 25
	}
	r.Finish(vlib.Spec{
		Level: "exploration",
		Rule:  "configurations: service config maxRequestMessageBytes / maxResponseMessageBytes (method, service or default name form) x dial default MaxCallSendMsgSize / MaxCallRecvMsgSize x server MaxSendMsgSize / MaxRecvMsgSize, each unset or a value drawn without replacement from {0,7,100,1000,3000,10000,20000,50000,70000}; the first 64 indices enumerate all set/unset combinations, x compression {none (indices 0-63), gzip (64-127), vz-a (128-191, thorough tier)}; per configuration all four per-call combinations (MaxCallSendMsgSize, MaxCallRecvMsgSize set/unset) and for each of the four effective limits L (client send, server receive, server send, client receive; the 4 MB default in 1/12 of the configurations) one RPC with a message of L-1, L, L+1 bytes in that direction — uncompressed, or with compression both an incompressible payload whose POST-compression size is L-1/L/L+1 and an all-zero payload whose decompressed size is L-1/L/L+1 — plus a tiny exchange and one with both directions exactly at their limits; unary (Invoke) and streaming APIs mixed. Family above-default (10 configurations, 3-6 multi-MiB RPCs each): service-config maxResponseMessageBytes / maxRequestMessageBytes ABOVE the 4 MiB default (5-6 MiB, and exactly 4 MiB+1) alone, with a dial option between default and service config, with per-call options above the service config and below the default, nothing configured at all (4 MiB-1, 4 MiB, 4 MiB+1), request side with a server accepting 8 MiB and with a default server, with vz-a (post-compression and decompressed size around the raised limit) and gzip. Reference: effective client limit = min(service config, per-call option else dial default) or the default (send MaxInt32, receive 4 MB); stages client-send (wire size) -> server-receive (wire or decompressed size) -> server-send (wire) -> client-receive (wire or decompressed). Oracles: status OK and intact payloads iff no stage stops the exchange, else RESOURCE_EXHAUSTED; the handler never receives a request stopped at client-send/server-receive; tapped wire: no request DATA when stopped at client-send, no response DATA when stopped before client-receive, every wire message <= its sender's limit and of the modelled size. non-trivial = every judged probe; distinct = (stopping stage, which source decided the client send / receive limit, server limits set, compression, probe aim)",
		Assumptions: []string{
			"a per-call option replaces the dial default option of the same kind (CallOption semantics); the statement's 'dial/call option limit' is read that way",
			"the server answers in the request's encoding (documented default), so response wire sizes are post-compression sizes of the same compressor",
			"wire sizes are modelled with the harness' own codecs and cross-checked against every message seen on the tap (key harness-wire-size-model)",
		},
		Floor: floor,
	})
}
