module google.golang.org/grpc/verif

go 1.25.0

require (
	github.com/anishathalye/porcupine v1.3.0
	google.golang.org/grpc v0.0.0
)

replace google.golang.org/grpc => /repo
