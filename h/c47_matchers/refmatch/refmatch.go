// Package refmatch is the reference evaluator of the Envoy/xDS matcher
// semantics used by the C46, C47 and C48 monitors.  It is written from the
// property statements and the Envoy proto documentation, not from grpc-go's
// implementation:
//
//   - string matchers: exact / prefix / suffix / contains compare bytes;
//     ignore_case folds ASCII letters only (Envoy uses absl::AsciiStrToLower /
//     absl::EqualsIgnoreCase); safe_regex must match the WHOLE string and is not
//     affected by ignore_case.
//   - header matchers: evaluated on the comma-joined values of the header; when
//     the header is absent nothing matches (invert does not apply) except
//     present_match, which compares presence (xor invert).
//   - range: the value is a base-10 integer that fits int64 and start <= v < end.
//   - path matchers: exact / prefix, case_insensitive folds ASCII only; regex is
//     a full match.
//
// Regular expressions are generated as ASTs, rendered to RE2 syntax for the
// code under test and evaluated here directly on the AST by a backtracking
// full-match, so the reference never goes through package regexp.
package refmatch

import (
	"math/big"
	"math/rand"
	"regexp"
	"strings"
	"unicode"
	"unicode/utf8"
)

// FoldASCII lower-cases 'A'..'Z' and nothing else.
func FoldASCII(s string) string {
	b := []byte(s)
	for i, c := range b {
		if c >= 'A' && c <= 'Z' {
			b[i] = c + ('a' - 'A')
		}
	}
	return string(b)
}

// NonASCII reports whether s has a byte >= 0x80.
func NonASCII(s string) bool {
	for i := 0; i < len(s); i++ {
		if s[i] >= 0x80 {
			return true
		}
	}
	return false
}

// ---------------------------------------------------------------- strings

type StrKind int

const (
	Exact StrKind = iota
	Prefix
	Suffix
	Contains
	Regex
)

func (k StrKind) String() string {
	return [...]string{"exact", "prefix", "suffix", "contains", "regex"}[k]
}

// StringSpec is one configured StringMatcher.
type StringSpec struct {
	Kind       StrKind
	Pattern    string // literal pattern, or the rendered regex
	IgnoreCase bool
	Re         *Node // Kind == Regex
}

// Match is the reference result.
func (s StringSpec) Match(in string) bool {
	if s.Kind == Regex {
		return s.Re.FullMatch(in)
	}
	p := s.Pattern
	if s.IgnoreCase {
		p, in = FoldASCII(p), FoldASCII(in)
	}
	switch s.Kind {
	case Exact:
		return in == p
	case Prefix:
		return strings.HasPrefix(in, p)
	case Suffix:
		return strings.HasSuffix(in, p)
	case Contains:
		return strings.Contains(in, p)
	}
	return false
}

// MatchUnicodeFold evaluates the same matcher with full Unicode simple case
// folding on both sides.  It is NOT an oracle: monitors use it only to
// attribute an observed discrepancy to finding F3 (Unicode instead of ASCII
// folding) so that any other ignore_case defect keeps its own key.
func (s StringSpec) MatchUnicodeFold(in string, upper bool) bool {
	f := strings.ToLower
	if upper {
		f = strings.ToUpper
	}
	p := f(s.Pattern)
	in = f(in)
	switch s.Kind {
	case Exact:
		return in == p
	case Prefix:
		return strings.HasPrefix(in, p)
	case Suffix:
		return strings.HasSuffix(in, p)
	case Contains:
		return strings.Contains(in, p)
	}
	return false
}

// ---------------------------------------------------------------- regex AST

type op int

const (
	opLit op = iota
	opAny
	opClass
	opCat
	opAlt
	opStar
	opPlus
	opQuest
	opEmpty
)

// Node is a regular expression over runes.
type Node struct {
	op   op
	lit  rune
	lo   []rune // class ranges
	hi   []rune
	neg  bool
	subs []*Node
}

func atomic(n *Node) bool { return n.op == opLit || n.op == opAny || n.op == opClass }

func wrap(n *Node) string {
	if atomic(n) {
		return n.String()
	}
	return "(?:" + n.String() + ")"
}

// String renders RE2 syntax.
func (n *Node) String() string {
	switch n.op {
	case opLit:
		return regexp.QuoteMeta(string(n.lit))
	case opAny:
		return "."
	case opClass:
		var sb strings.Builder
		sb.WriteByte('[')
		if n.neg {
			sb.WriteByte('^')
		}
		for i := range n.lo {
			sb.WriteRune(n.lo[i])
			if n.hi[i] != n.lo[i] {
				sb.WriteByte('-')
				sb.WriteRune(n.hi[i])
			}
		}
		sb.WriteByte(']')
		return sb.String()
	case opCat:
		var sb strings.Builder
		for _, s := range n.subs {
			if s.op == opAlt {
				sb.WriteString(wrap(s))
			} else {
				sb.WriteString(s.String())
			}
		}
		return sb.String()
	case opAlt:
		parts := make([]string, len(n.subs))
		for i, s := range n.subs {
			parts[i] = s.String()
		}
		return strings.Join(parts, "|")
	case opStar:
		return wrap(n.subs[0]) + "*"
	case opPlus:
		return wrap(n.subs[0]) + "+"
	case opQuest:
		return wrap(n.subs[0]) + "?"
	case opEmpty:
		return "(?:)"
	}
	return ""
}

// ends returns the set of positions at which a match of n starting at position
// i of in can end (out[j] == true).  Set-based evaluation: polynomial in the
// input length, no backtracking blow-up on nested repetitions.
func (n *Node) ends(in []rune, i int) []bool {
	out := make([]bool, len(in)+1)
	switch n.op {
	case opEmpty:
		out[i] = true
	case opLit:
		if i < len(in) && in[i] == n.lit {
			out[i+1] = true
		}
	case opAny: // RE2 '.' does not match newline without (?s)
		if i < len(in) && in[i] != '\n' {
			out[i+1] = true
		}
	case opClass:
		if i < len(in) {
			inside := false
			for j := range n.lo {
				if in[i] >= n.lo[j] && in[i] <= n.hi[j] {
					inside = true
					break
				}
			}
			if inside != n.neg {
				out[i+1] = true
			}
		}
	case opCat:
		cur := make([]bool, len(in)+1)
		cur[i] = true
		for _, s := range n.subs {
			next := make([]bool, len(in)+1)
			for p, ok := range cur {
				if ok {
					for j, e := range s.ends(in, p) {
						if e {
							next[j] = true
						}
					}
				}
			}
			cur = next
		}
		return cur
	case opAlt:
		for _, s := range n.subs {
			for j, e := range s.ends(in, i) {
				if e {
					out[j] = true
				}
			}
		}
	case opQuest:
		out = n.subs[0].ends(in, i)
		out[i] = true
	case opStar, opPlus:
		// closure: positions reachable by repeating the sub-expression
		reach := make([]bool, len(in)+1)
		var work []int
		if n.op == opStar {
			reach[i] = true
			work = append(work, i)
		} else {
			for j, e := range n.subs[0].ends(in, i) {
				if e && !reach[j] {
					reach[j] = true
					work = append(work, j)
				}
			}
		}
		for len(work) > 0 {
			p := work[len(work)-1]
			work = work[:len(work)-1]
			for j, e := range n.subs[0].ends(in, p) {
				if e && !reach[j] {
					reach[j] = true
					work = append(work, j)
				}
			}
		}
		return reach
	}
	return out
}

// FullMatch reports whether the whole of s is in the language of n.  s must be
// valid UTF-8 (the generators only produce such inputs for regex cases).
func (n *Node) FullMatch(s string) bool {
	in := []rune(s)
	return n.ends(in, 0)[len(in)]
}

func lit(r rune) *Node { return &Node{op: opLit, lit: r} }

// Lit builds a literal string node.
func Lit(s string) *Node {
	n := &Node{op: opCat}
	for _, r := range s {
		n.subs = append(n.subs, lit(r))
	}
	if len(n.subs) == 1 {
		return n.subs[0]
	}
	if len(n.subs) == 0 {
		return &Node{op: opEmpty}
	}
	return n
}

// RegexAlphabet is what generated regexes and their inputs are made of.
var RegexAlphabet = []rune{'a', 'b', 'c', 'A', '1', '/', '.', ',', '-', 'é', 'K'}

// GenRegex generates a random AST of bounded depth.
func GenRegex(rng *rand.Rand, depth int) *Node {
	if depth <= 0 {
		switch rng.Intn(8) {
		case 0:
			return &Node{op: opAny}
		case 1:
			a := RegexAlphabet[rng.Intn(3)]
			return &Node{op: opClass, lo: []rune{a}, hi: []rune{a + rune(rng.Intn(3))}, neg: rng.Intn(3) == 0}
		case 2:
			return &Node{op: opClass, lo: []rune{'a', '0'}, hi: []rune{'z', '9'}, neg: rng.Intn(4) == 0}
		default:
			return lit(RegexAlphabet[rng.Intn(len(RegexAlphabet))])
		}
	}
	switch rng.Intn(9) {
	case 0, 1, 2:
		n := &Node{op: opCat}
		for k := 2 + rng.Intn(3); k > 0; k-- {
			n.subs = append(n.subs, GenRegex(rng, depth-1))
		}
		return n
	case 3, 4:
		n := &Node{op: opAlt}
		for k := 2 + rng.Intn(2); k > 0; k-- {
			n.subs = append(n.subs, GenRegex(rng, depth-1))
		}
		return n
	case 5:
		return &Node{op: opStar, subs: []*Node{GenRegex(rng, depth-1)}}
	case 6:
		return &Node{op: opPlus, subs: []*Node{GenRegex(rng, depth-1)}}
	case 7:
		return &Node{op: opQuest, subs: []*Node{GenRegex(rng, depth-1)}}
	default:
		return GenRegex(rng, depth-1)
	}
}

// Sample produces a string that is usually in the language of n (random walk
// through the AST), so that positive cases are frequent.
func (n *Node) Sample(rng *rand.Rand) string {
	var sb strings.Builder
	n.sample(rng, &sb)
	return sb.String()
}

func (n *Node) sample(rng *rand.Rand, sb *strings.Builder) {
	switch n.op {
	case opLit:
		sb.WriteRune(n.lit)
	case opAny:
		sb.WriteRune(RegexAlphabet[rng.Intn(len(RegexAlphabet))])
	case opClass:
		if n.neg {
			sb.WriteRune(RegexAlphabet[rng.Intn(len(RegexAlphabet))]) // may or may not be in the class
		} else {
			j := rng.Intn(len(n.lo))
			sb.WriteRune(n.lo[j] + rune(rng.Intn(int(n.hi[j]-n.lo[j])+1)))
		}
	case opCat:
		for _, s := range n.subs {
			s.sample(rng, sb)
		}
	case opAlt:
		n.subs[rng.Intn(len(n.subs))].sample(rng, sb)
	case opStar:
		for k := rng.Intn(3); k > 0; k-- {
			n.subs[0].sample(rng, sb)
		}
	case opPlus:
		for k := 1 + rng.Intn(2); k > 0; k-- {
			n.subs[0].sample(rng, sb)
		}
	case opQuest:
		if rng.Intn(2) == 0 {
			n.subs[0].sample(rng, sb)
		}
	}
}

// Perturb makes a near miss of s: drop, add or replace one rune, or add a
// prefix / suffix (the inputs an unanchored search would wrongly accept).
func Perturb(rng *rand.Rand, s string) string {
	rs := []rune(s)
	a := RegexAlphabet[rng.Intn(len(RegexAlphabet))]
	switch rng.Intn(5) {
	case 0:
		return string(a) + s
	case 1:
		return s + string(a)
	case 2:
		if len(rs) > 0 {
			i := rng.Intn(len(rs))
			return string(rs[:i]) + string(rs[i+1:])
		}
		return string(a)
	case 3:
		if len(rs) > 0 {
			rs[rng.Intn(len(rs))] = a
			return string(rs)
		}
		return string(a)
	default:
		return string(a) + s + string(a)
	}
}

// ---------------------------------------------------------------- headers

type HKind int

const (
	HExact HKind = iota // deprecated exact_match: case sensitive
	HPrefix
	HSuffix
	HContains
	HRegex
	HRange
	HPresent
	HString // string_match (may carry ignore_case)
)

func (k HKind) String() string {
	return [...]string{"exact", "prefix", "suffix", "contains", "regex", "range", "present", "string"}[k]
}

// HeaderSpec is one configured HeaderMatcher.
type HeaderSpec struct {
	Name       string
	Kind       HKind
	Str        StringSpec // HExact..HRegex, HString
	Start, End int64      // HRange: [Start, End)
	Present    bool       // HPresent
	Invert     bool
}

// JoinedValue is the value all header matchers look at.
func JoinedValue(md map[string][]string, name string) (string, bool) {
	vs, ok := md[name]
	if !ok {
		return "", false
	}
	return strings.Join(vs, ","), true
}

// IntClass classifies a header value for the range matcher.
type IntClass int

const (
	IntCanonical IntClass = iota // -?[1-9][0-9]* or 0: unambiguous
	IntNot                       // cannot be read as an integer by any reasonable parser
	IntAmbiguous                 // "+5", "007", "-0", surrounding blanks: parsers differ, not judged
)

// ClassifyInt decides how v reads as a base-10 integer.
func ClassifyInt(v string) (IntClass, *big.Int) {
	t := strings.TrimFunc(v, func(r rune) bool { return r == ' ' || r == '\t' || r == '\n' || r == '\r' || r == '\v' || r == '\f' })
	if t == "" {
		return IntNot, nil
	}
	body := t
	if body[0] == '+' || body[0] == '-' {
		body = body[1:]
	}
	if body == "" {
		return IntNot, nil
	}
	for i := 0; i < len(body); i++ {
		if body[i] < '0' || body[i] > '9' {
			return IntNot, nil
		}
	}
	n, _ := new(big.Int).SetString(t, 10)
	canonical := t == v && t[0] != '+' && !(len(body) > 1 && body[0] == '0') && t != "-0"
	if !canonical {
		return IntAmbiguous, n
	}
	return IntCanonical, n
}

// Match returns the reference result; judged is false when the statement does
// not pin the outcome (ambiguous integer spellings for the range matcher).
func (h HeaderSpec) Match(md map[string][]string) (result, judged bool) {
	v, present := JoinedValue(md, h.Name)
	if h.Kind == HPresent {
		return (present == h.Present) != h.Invert, true
	}
	if !present {
		return false, true
	}
	var m bool
	switch h.Kind {
	case HRange:
		cl, n := ClassifyInt(v)
		switch cl {
		case IntAmbiguous:
			return false, false
		case IntNot:
			m = false
		default:
			m = n.IsInt64() && n.Int64() >= h.Start && n.Int64() < h.End
		}
	default:
		m = h.Str.Match(v)
	}
	return m != h.Invert, true
}

// ---------------------------------------------------------------- paths

type PathKind int

const (
	PathExact PathKind = iota
	PathPrefix
	PathRegex
)

func (k PathKind) String() string { return [...]string{"path", "prefix", "regex"}[k] }

// PathSpec is a route's path matcher.
type PathSpec struct {
	Kind            PathKind
	Pattern         string
	CaseInsensitive bool
	Re              *Node
}

func (p PathSpec) Match(path string) bool {
	switch p.Kind {
	case PathRegex:
		return p.Re.FullMatch(path)
	case PathExact:
		if p.CaseInsensitive {
			return FoldASCII(path) == FoldASCII(p.Pattern)
		}
		return path == p.Pattern
	default:
		if p.CaseInsensitive {
			return strings.HasPrefix(FoldASCII(path), FoldASCII(p.Pattern))
		}
		return strings.HasPrefix(path, p.Pattern)
	}
}

// MatchUnicodeFold: attribution helper only (see StringSpec.MatchUnicodeFold).
func (p PathSpec) MatchUnicodeFold(path string) bool {
	k := Exact
	if p.Kind == PathPrefix {
		k = Prefix
	}
	s := StringSpec{Kind: k, Pattern: p.Pattern}
	return s.MatchUnicodeFold(path, true) || s.MatchUnicodeFold(path, false)
}

// ---------------------------------------------------------------- text generators

// Fragments are the building blocks of patterns and inputs: ASCII words in
// several casings plus characters whose Unicode case mapping crosses into or
// out of ASCII (Kelvin sign, long s, dotted / dotless i), 'ß', accented and
// full-width letters, Greek sigma forms and title-case digraphs.
var Fragments = []string{
	"key", "Key", "KEY", "kEy", "service", "Service", "SERVICE", "item", "ITEM", "Item",
	"abc", "ABC", "x", "X", "strasse", "STRASSE", "value-1", "VALUE-1", "a,b", "A,B", "/", ".", "-", "_", "42",
	// ---- index 25 and up: non-ASCII
	"\u212Aey", "\u212AEY", "\u017Fervice", "\u017FERVICE", "\u0130tem", "\u0131tem", "\u0130TEM", "\u0131TEM",
	"stra\u00DFe", "STRA\u1E9EE", "\uFF2B\uFF25\uFF39", "\uFF4B\uFF45\uFF59", "\u00E9", "\u00C9", "\u00FF", "\u0178",
	"\u01C5", "\u01C6", "\u01C4", "\u03A3", "\u03C3", "\u03C2", "caf\u00E9", "CAF\u00C9",
}

// NumASCIIFragments is the length of the ASCII-only prefix of Fragments.
const NumASCIIFragments = 25

const (
	kelvin   = '\u212A' // KELVIN SIGN: lower-cases to ASCII 'k'
	longS    = '\u017F' // LATIN SMALL LETTER LONG S: upper-cases to ASCII 'S'
	dottedI  = '\u0130' // LATIN CAPITAL LETTER I WITH DOT ABOVE: lower-cases to ASCII 'i'
	dotlessI = '\u0131' // LATIN SMALL LETTER DOTLESS I: upper-cases to ASCII 'I'
)

var confusable = map[rune][]rune{
	'k': {'K', kelvin}, 'K': {'k', kelvin}, kelvin: {'k', 'K'},
	's': {'S', longS}, 'S': {'s', longS}, longS: {'s', 'S'},
	'i': {'I', dottedI, dotlessI}, 'I': {'i', dottedI, dotlessI}, dottedI: {'i', 'I'}, dotlessI: {'i', 'I'},
}

// MutateCase returns s with some runes case-flipped: ASCII flips, Unicode
// simple case mapping, and ASCII<->non-ASCII "confusable" case partners.
func MutateCase(rng *rand.Rand, s string, unicodeToo bool) string {
	if !utf8.ValidString(s) {
		return s
	}
	var sb strings.Builder
	for _, r := range s {
		switch rng.Intn(4) {
		case 0:
			if r < 0x80 {
				if unicode.IsUpper(r) {
					r = unicode.ToLower(r)
				} else {
					r = unicode.ToUpper(r)
				}
			} else if unicodeToo {
				if unicode.IsUpper(r) {
					r = unicode.ToLower(r)
				} else {
					r = unicode.ToUpper(r)
				}
			}
		case 1:
			if c, ok := confusable[r]; ok && unicodeToo {
				r = c[rng.Intn(len(c))]
			} else if c, ok := confusable[r]; ok {
				r = c[0]
			}
		}
		sb.WriteRune(r)
	}
	return sb.String()
}

// Text returns 1..3 concatenated fragments.
func Text(rng *rand.Rand) string {
	var sb strings.Builder
	for k := 1 + rng.Intn(3); k > 0; k-- {
		sb.WriteString(Fragments[rng.Intn(len(Fragments))])
	}
	return sb.String()
}

// ASCIIText is Text restricted to ASCII fragments.
func ASCIIText(rng *rand.Rand) string {
	var sb strings.Builder
	for k := 1 + rng.Intn(3); k > 0; k-- {
		sb.WriteString(Fragments[rng.Intn(NumASCIIFragments)])
	}
	return sb.String()
}

// Any is the '.' node; Cat concatenates nodes.
func Any() *Node { return &Node{op: opAny} }

func Cat(ns ...*Node) *Node { return &Node{op: opCat, subs: ns} }

// Star is n*.
func Star(n *Node) *Node { return &Node{op: opStar, subs: []*Node{n}} }
