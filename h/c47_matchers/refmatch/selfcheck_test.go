package refmatch

import (
	"math/rand"
	"regexp"
	"testing"
)

// Self-check of the harness' own regex evaluator (not a monitor): on the
// unchanged toolchain, the AST evaluator must agree with package regexp's
// anchored match for generated (regex, input) pairs.
func TestRefRegexSelfCheck(t *testing.T) {
	rng := rand.New(rand.NewSource(7))
	for i := 0; i < 50000; i++ {
		n := GenRegex(rng, 1+rng.Intn(3))
		re := regexp.MustCompile(`\A(?:` + n.String() + `)\z`)
		in := n.Sample(rng)
		if rng.Intn(2) == 0 {
			in = Perturb(rng, in)
		}
		if got, want := n.FullMatch(in), re.MatchString(in); got != want {
			t.Fatalf("regex %q input %q: AST evaluator %v, package regexp %v", n.String(), in, got, want)
		}
	}
}
