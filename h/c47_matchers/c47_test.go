// C47: header / string / path matchers against the reference evaluator in
// ./refmatch (written from the property statement and the Envoy proto docs).
//
// Real code driven:
//   - internal/xds/matcher: StringMatcher (constructors and StringMatcherFromProto),
//     every Header*Matcher, CompileSafeRegex;
//   - xdsresource path matchers and the HeaderMatcher -> matcher conversion, through
//     the exported RouteToMatcher.
package c47

import (
	"fmt"
	"math"
	"math/rand"
	"strconv"
	"strings"
	"testing"
	"unicode/utf8"

	v3matcherpb "github.com/envoyproxy/go-control-plane/envoy/type/matcher/v3"
	"google.golang.org/grpc/internal/xds/matcher"
	"google.golang.org/grpc/internal/xds/xdsclient/xdsresource"
	"google.golang.org/grpc/metadata"
	"google.golang.org/grpc/verif/c47_matchers/refmatch"
	"google.golang.org/grpc/verif/vlib"
)

// Keys of the findings this monitor can attribute precisely (DESIGN.md §5 F3 and
// the empty-valued-header presence defect).  Everything else gets its own key.
const (
	keyF3String = "ignore-case-unicode-folding"           // StringMatcher ignore_case uses strings.ToLower
	keyF3Path   = "path-case-insensitive-unicode-folding" // path matchers use strings.ToUpper
	keyPresent  = "present-match-empty-value-treated-as-absent"
)

type strCase struct {
	Via        string `json:"via"`
	Kind       string `json:"kind"`
	Pattern    string `json:"pattern"`
	IgnoreCase bool   `json:"ignore_case"`
	Input      string `json:"input"`
	Got        bool   `json:"got"`
	Want       bool   `json:"want"`
}

func q(s string) string { return strconv.QuoteToASCII(s) }

// buildString builds the real StringMatcher for spec, alternating between the
// Go constructors and the proto path.  ok=false: the proto was rejected
// (empty prefix/suffix/contains are invalid protos) and the case is skipped.
func buildString(spec refmatch.StringSpec, viaProto bool) (sm matcher.StringMatcher, ok bool, err error) {
	if viaProto {
		p := &v3matcherpb.StringMatcher{IgnoreCase: spec.IgnoreCase}
		switch spec.Kind {
		case refmatch.Exact:
			p.MatchPattern = &v3matcherpb.StringMatcher_Exact{Exact: spec.Pattern}
		case refmatch.Prefix:
			p.MatchPattern = &v3matcherpb.StringMatcher_Prefix{Prefix: spec.Pattern}
		case refmatch.Suffix:
			p.MatchPattern = &v3matcherpb.StringMatcher_Suffix{Suffix: spec.Pattern}
		case refmatch.Contains:
			p.MatchPattern = &v3matcherpb.StringMatcher_Contains{Contains: spec.Pattern}
		case refmatch.Regex:
			p.MatchPattern = &v3matcherpb.StringMatcher_SafeRegex{SafeRegex: &v3matcherpb.RegexMatcher{Regex: spec.Pattern}}
		}
		sm, err := matcher.StringMatcherFromProto(p)
		if err != nil {
			return sm, false, err
		}
		return sm, true, nil
	}
	switch spec.Kind {
	case refmatch.Exact:
		return matcher.NewExactStringMatcher(spec.Pattern, spec.IgnoreCase), true, nil
	case refmatch.Prefix:
		return matcher.NewPrefixStringMatcher(spec.Pattern, spec.IgnoreCase), true, nil
	case refmatch.Suffix:
		return matcher.NewSuffixStringMatcher(spec.Pattern, spec.IgnoreCase), true, nil
	case refmatch.Contains:
		return matcher.NewContainsStringMatcher(spec.Pattern, spec.IgnoreCase), true, nil
	default:
		re, err := matcher.CompileSafeRegex(spec.Pattern)
		if err != nil {
			return sm, false, err
		}
		return matcher.NewRegexStringMatcher(re), true, nil
	}
}

// genLiteralCase produces (pattern, input) pairs that are related: the input
// is the pattern with case changes (ASCII, Unicode simple mapping, confusable
// partners) and kind-dependent padding, or sometimes an unrelated string.
func genLiteralCase(rng *rand.Rand, kind refmatch.StrKind, asciiOnly bool) (pat, in string) {
	text := refmatch.Text
	if asciiOnly {
		text = refmatch.ASCIIText
	}
	pat = text(rng)
	if rng.Intn(12) == 0 {
		pat = "" // only reachable through the constructors
	}
	core := pat
	switch rng.Intn(6) {
	case 0: // identical
	case 1, 2, 3:
		core = refmatch.MutateCase(rng, pat, !asciiOnly)
	case 4:
		core = text(rng)
	default:
		core = refmatch.Perturb(rng, refmatch.MutateCase(rng, pat, !asciiOnly))
	}
	l, r := "", ""
	switch kind {
	case refmatch.Prefix:
		r = text(rng)
	case refmatch.Suffix:
		l = text(rng)
	case refmatch.Contains:
		l, r = text(rng), text(rng)
	}
	if rng.Intn(3) == 0 {
		l, r = r, l // padding on the wrong side
	}
	if rng.Intn(4) == 0 {
		l, r = "", ""
	}
	in = l + core + r
	if !asciiOnly && rng.Intn(40) == 0 {
		// header values are byte strings: a truncated UTF-8 sequence next to the text
		in = in + "\xc3"
	}
	return pat, in
}

func sigBool(b bool) string {
	if b {
		return "T"
	}
	return "F"
}

func checkString(r *vlib.Run, fam string, i int, spec refmatch.StringSpec, viaProto bool, in string) {
	sm, ok, err := buildString(spec, viaProto)
	if !ok {
		r.Count("string_protos_rejected", 1)
		if spec.Kind == refmatch.Regex {
			r.Violation("generated-regex-rejected", fam, i, map[string]string{"regex": spec.Pattern}, "CompileSafeRegex / StringMatcherFromProto rejected the valid RE2 pattern %q: %v", spec.Pattern, err)
		} else if spec.Pattern != "" {
			r.Violation("valid-string-matcher-rejected", fam, i, map[string]string{"pattern": q(spec.Pattern)}, "StringMatcherFromProto rejected %s %s: %v", spec.Kind, q(spec.Pattern), err)
		}
		return
	}
	got := sm.Match(in)
	want := spec.Match(in)
	r.Eval(1)
	via := "ctor"
	if viaProto {
		via = "proto"
	}
	c := strCase{Via: via, Kind: spec.Kind.String(), Pattern: q(spec.Pattern), IgnoreCase: spec.IgnoreCase, Input: q(in), Got: got, Want: want}
	if got != want {
		key := "string-" + spec.Kind.String() + "-mismatch"
		if spec.IgnoreCase && spec.Kind != refmatch.Regex {
			key = "string-" + spec.Kind.String() + "-ignore-case-mismatch"
			if got && !want && (refmatch.NonASCII(spec.Pattern) || refmatch.NonASCII(in)) && spec.MatchUnicodeFold(in, false) {
				key = keyF3String
			}
		}
		r.Violation(key, fam, i, c, "StringMatcher(%s %s ignore_case=%v via %s).Match(%s) = %v, reference (ASCII-only folding, full-string regex) says %v",
			spec.Kind, q(spec.Pattern), spec.IgnoreCase, via, q(in), got, want)
	}
	r.Nontrivial(fmt.Sprintf("str/%s/ic%s/%s/nonascii%s/%s", spec.Kind, sigBool(spec.IgnoreCase), sigBool(want),
		sigBool(refmatch.NonASCII(spec.Pattern) || refmatch.NonASCII(in)), via))
	if want {
		r.Count("string_matches", 1)
	} else {
		r.Count("string_non_matches", 1)
	}
	if i < 2 {
		r.Sample(c)
	}
}

func genRegexSpec(rng *rand.Rand) (refmatch.StringSpec, string) {
	n := refmatch.GenRegex(rng, 1+rng.Intn(3))
	spec := refmatch.StringSpec{Kind: refmatch.Regex, Pattern: n.String(), Re: n, IgnoreCase: rng.Intn(4) == 0}
	in := n.Sample(rng)
	if rng.Intn(2) == 0 {
		in = refmatch.Perturb(rng, in)
	}
	if rs := []rune(in); len(rs) > 14 {
		in = string(rs[:14])
	}
	return spec, in
}

// ---------------------------------------------------------------- headers

type hdrCase struct {
	Via     string              `json:"via"`
	Kind    string              `json:"kind"`
	Name    string              `json:"name"`
	Pattern string              `json:"pattern,omitempty"`
	IC      bool                `json:"ignore_case,omitempty"`
	Start   int64               `json:"start,omitempty"`
	End     int64               `json:"end,omitempty"`
	Present bool                `json:"present_match,omitempty"`
	Invert  bool                `json:"invert"`
	MD      map[string][]string `json:"md"`
	Got     bool                `json:"got"`
	Want    bool                `json:"want"`
}

var hdrNames = []string{"th", "x-user", "k", "content-type"}

func genInt(rng *rand.Rand, lo, hi int64) string {
	switch rng.Intn(14) {
	case 0:
		return strconv.FormatInt(lo, 10)
	case 1:
		return strconv.FormatInt(hi, 10)
	case 2:
		if lo > math.MinInt64 {
			return strconv.FormatInt(lo-1, 10)
		}
		return "-9223372036854775809"
	case 3:
		if hi > math.MinInt64 {
			return strconv.FormatInt(hi-1, 10)
		}
		return "0"
	case 4:
		return "9223372036854775807"
	case 5:
		return "9223372036854775808" // does not fit int64
	case 6:
		return "-9223372036854775808"
	case 7:
		return "+" + strconv.FormatInt(int64(rng.Intn(100)), 10) // ambiguous
	case 8:
		return "00" + strconv.FormatInt(int64(rng.Intn(100)), 10) // ambiguous
	case 9:
		return vlib.Pick(rng, " 5", "5 ", "-0", "\t7") // ambiguous
	case 10:
		return vlib.Pick(rng, "12a", "", "0x10", "1e3", "1.0", "\u0661\u0662", "1_000", "--1", "+", "-")
	case 11:
		return strconv.FormatInt(rng.Int63()-rng.Int63(), 10)
	default:
		if hi > lo && hi-lo > 0 {
			return strconv.FormatInt(lo+rng.Int63n(hi-lo), 10)
		}
		return strconv.FormatInt(int64(rng.Intn(200)-100), 10)
	}
}

func genBound(rng *rand.Rand) int64 {
	switch rng.Intn(6) {
	case 0:
		return math.MinInt64
	case 1:
		return math.MaxInt64
	case 2:
		return 0
	default:
		return int64(rng.Intn(400) - 200)
	}
}

func genHeaderCase(rng *rand.Rand) (refmatch.HeaderSpec, map[string][]string) {
	h := refmatch.HeaderSpec{Name: hdrNames[rng.Intn(len(hdrNames))], Kind: refmatch.HKind(rng.Intn(8)), Invert: rng.Intn(2) == 0}
	md := map[string][]string{}
	var val []string
	switch h.Kind {
	case refmatch.HExact, refmatch.HPrefix, refmatch.HSuffix, refmatch.HContains:
		k := refmatch.StrKind(h.Kind)
		pat, in := genLiteralCase(rng, k, rng.Intn(3) != 0)
		h.Str = refmatch.StringSpec{Kind: k, Pattern: pat}
		val = []string{in}
	case refmatch.HString:
		k := refmatch.StrKind(rng.Intn(4))
		ic := rng.Intn(2) == 0
		pat, in := genLiteralCase(rng, k, rng.Intn(2) == 0)
		if pat == "" {
			pat = "v"
		}
		h.Str = refmatch.StringSpec{Kind: k, Pattern: pat, IgnoreCase: ic}
		val = []string{in}
	case refmatch.HRegex:
		spec, in := genRegexSpec(rng)
		spec.IgnoreCase = false
		h.Str = spec
		val = []string{in}
	case refmatch.HRange:
		h.Start, h.End = genBound(rng), genBound(rng)
		if rng.Intn(3) != 0 && h.Start > h.End {
			h.Start, h.End = h.End, h.Start
		}
		val = []string{genInt(rng, h.Start, h.End)}
	case refmatch.HPresent:
		h.Present = rng.Intn(2) == 0
		val = []string{vlib.Pick(rng, "tv", "", "0", "a,b")}
	}
	// multi-valued headers: split the value at a comma or add a second value
	if len(val) == 1 && rng.Intn(4) == 0 {
		if i := strings.IndexByte(val[0], ','); i >= 0 && rng.Intn(2) == 0 {
			val = []string{val[0][:i], val[0][i+1:]} // joins back to the same string
		} else {
			val = append(val, vlib.Pick(rng, "", "x", "7", val[0]))
		}
	}
	switch rng.Intn(5) {
	case 0: // header absent, others present
		md[hdrNames[(rng.Intn(len(hdrNames)-1)+1+indexOf(h.Name))%len(hdrNames)]] = val
	default:
		md[h.Name] = val
		if rng.Intn(3) == 0 {
			md["other"] = []string{"zzz"}
		}
	}
	return h, md
}

func indexOf(n string) int {
	for i, x := range hdrNames {
		if x == n {
			return i
		}
	}
	return 0
}

// buildHeader constructs the real matcher, directly or through
// xdsresource.RouteToMatcher (the route-validation output format).
func buildHeader(h refmatch.HeaderSpec, viaRoute bool) (func(metadata.MD) bool, string, error) {
	if viaRoute && (h.Kind == refmatch.HRegex || h.Kind == refmatch.HRange || h.Kind == refmatch.HPresent || h.Kind == refmatch.HString) {
		inv := h.Invert
		hm := &xdsresource.HeaderMatcher{Name: h.Name, InvertMatch: &inv}
		switch h.Kind {
		case refmatch.HRegex:
			re, err := matcher.CompileSafeRegex(h.Str.Pattern)
			if err != nil {
				return nil, "", err
			}
			hm.RegexMatch = re
		case refmatch.HRange:
			hm.RangeMatch = &xdsresource.Int64Range{Start: h.Start, End: h.End}
		case refmatch.HPresent:
			p := h.Present
			hm.PresentMatch = &p
		case refmatch.HString:
			sm, ok, err := buildString(h.Str, true)
			if !ok {
				return nil, "", err
			}
			hm.StringMatch = &sm
		}
		empty := ""
		cm := xdsresource.RouteToMatcher(&xdsresource.Route{Prefix: &empty, Headers: []*xdsresource.HeaderMatcher{hm}})
		return func(md metadata.MD) bool { return cm.Match("/s/m", md) }, "route", nil
	}
	var m matcher.HeaderMatcher
	switch h.Kind {
	case refmatch.HExact:
		m = matcher.NewHeaderExactMatcher(h.Name, h.Str.Pattern, h.Invert)
	case refmatch.HPrefix:
		m = matcher.NewHeaderPrefixMatcher(h.Name, h.Str.Pattern, h.Invert)
	case refmatch.HSuffix:
		m = matcher.NewHeaderSuffixMatcher(h.Name, h.Str.Pattern, h.Invert)
	case refmatch.HContains:
		m = matcher.NewHeaderContainsMatcher(h.Name, h.Str.Pattern, h.Invert)
	case refmatch.HRegex:
		re, err := matcher.CompileSafeRegex(h.Str.Pattern)
		if err != nil {
			return nil, "", err
		}
		m = matcher.NewHeaderRegexMatcher(h.Name, re, h.Invert)
	case refmatch.HRange:
		m = matcher.NewHeaderRangeMatcher(h.Name, h.Start, h.End, h.Invert)
	case refmatch.HPresent:
		m = matcher.NewHeaderPresentMatcher(h.Name, h.Present, h.Invert)
	case refmatch.HString:
		sm, ok, err := buildString(h.Str, false)
		if !ok {
			return nil, "", err
		}
		m = matcher.NewHeaderStringMatcher(h.Name, sm, h.Invert)
	}
	return m.Match, "direct", nil
}

func checkHeader(r *vlib.Run, fam string, i int, h refmatch.HeaderSpec, md map[string][]string, viaRoute bool) {
	match, via, err := buildHeader(h, viaRoute)
	if err != nil {
		r.Violation("generated-regex-rejected", fam, i, map[string]string{"regex": h.Str.Pattern}, "header matcher construction failed for %q: %v", h.Str.Pattern, err)
		return
	}
	mdCopy := metadata.MD{}
	for k, v := range md {
		mdCopy[k] = append([]string(nil), v...)
	}
	got := match(mdCopy)
	want, judged := h.Match(md)
	r.Eval(1)
	if !judged {
		r.Count("header_range_ambiguous_integer_unjudged", 1)
		return
	}
	_, present := md[h.Name]
	c := hdrCase{Via: via, Kind: h.Kind.String(), Name: h.Name, Pattern: q(h.Str.Pattern), IC: h.Str.IgnoreCase, Start: h.Start, End: h.End,
		Present: h.Present, Invert: h.Invert, MD: quoteMD(md), Got: got, Want: want}
	if got != want {
		key := "header-" + h.Kind.String() + "-mismatch"
		v, _ := refmatch.JoinedValue(md, h.Name)
		switch {
		case !present && h.Kind != refmatch.HPresent:
			key = "header-absent-matched"
		case h.Kind == refmatch.HPresent && present && v == "":
			key = keyPresent
		case h.Kind == refmatch.HString && h.Str.IgnoreCase && (got != h.Invert) && (refmatch.NonASCII(v) || refmatch.NonASCII(h.Str.Pattern)) && h.Str.MatchUnicodeFold(v, false):
			key = keyF3String
		}
		r.Violation(key, fam, i, c, "header matcher %s(name=%q pattern=%s ic=%v range=[%d,%d) present=%v invert=%v via %s) on %v = %v, reference says %v",
			h.Kind, h.Name, q(h.Str.Pattern), h.Str.IgnoreCase, h.Start, h.End, h.Present, h.Invert, via, quoteMD(md), got, want)
	}
	multi := len(md[h.Name]) > 1
	r.Nontrivial(fmt.Sprintf("hdr/%s/inv%s/present%s/multi%s/%s/%s", h.Kind, sigBool(h.Invert), sigBool(present), sigBool(multi), sigBool(want), via))
	if present {
		r.Count("header_present_cases", 1)
	} else {
		r.Count("header_absent_cases", 1)
	}
	if multi {
		r.Count("header_multi_valued_cases", 1)
	}
	if i < 2 {
		r.Sample(c)
	}
}

func quoteMD(md map[string][]string) map[string][]string {
	out := map[string][]string{}
	for k, vs := range md {
		for _, v := range vs {
			out[k] = append(out[k], q(v))
		}
	}
	return out
}

// ---------------------------------------------------------------- paths

type pathCase struct {
	Kind            string `json:"kind"`
	Pattern         string `json:"pattern"`
	CaseInsensitive bool   `json:"case_insensitive"`
	Path            string `json:"path"`
	Got             bool   `json:"got"`
	Want            bool   `json:"want"`
}

func checkPath(r *vlib.Run, fam string, i int, p refmatch.PathSpec, path string) {
	rt := &xdsresource.Route{CaseInsensitive: p.CaseInsensitive}
	switch p.Kind {
	case refmatch.PathExact:
		rt.Path = &p.Pattern
	case refmatch.PathPrefix:
		rt.Prefix = &p.Pattern
	default:
		re, err := matcher.CompileSafeRegex(p.Pattern)
		if err != nil {
			r.Violation("generated-regex-rejected", fam, i, map[string]string{"regex": p.Pattern}, "CompileSafeRegex(%q): %v", p.Pattern, err)
			return
		}
		rt.Regex = re
	}
	got := xdsresource.RouteToMatcher(rt).Match(path, nil)
	want := p.Match(path)
	r.Eval(1)
	c := pathCase{Kind: p.Kind.String(), Pattern: q(p.Pattern), CaseInsensitive: p.CaseInsensitive, Path: q(path), Got: got, Want: want}
	if got != want {
		key := "path-" + p.Kind.String() + "-mismatch"
		if p.CaseInsensitive && p.Kind != refmatch.PathRegex {
			key = "path-" + p.Kind.String() + "-case-insensitive-mismatch"
			if got && !want && (refmatch.NonASCII(p.Pattern) || refmatch.NonASCII(path)) && p.MatchUnicodeFold(path) {
				key = keyF3Path
			}
		}
		r.Violation(key, fam, i, c, "path matcher %s %s case_insensitive=%v on %s = %v, reference (ASCII-only folding, full-string regex) says %v",
			p.Kind, q(p.Pattern), p.CaseInsensitive, q(path), got, want)
	}
	r.Nontrivial(fmt.Sprintf("path/%s/ci%s/%s/nonascii%s", p.Kind, sigBool(p.CaseInsensitive), sigBool(want), sigBool(refmatch.NonASCII(p.Pattern) || refmatch.NonASCII(path))))
	if i < 2 {
		r.Sample(c)
	}
}

func genPathCase(rng *rand.Rand) (refmatch.PathSpec, string) {
	if rng.Intn(4) == 0 {
		spec, in := genRegexSpec(rng)
		return refmatch.PathSpec{Kind: refmatch.PathRegex, Pattern: spec.Pattern, Re: spec.Re, CaseInsensitive: rng.Intn(2) == 0}, in
	}
	p := refmatch.PathSpec{Kind: refmatch.PathKind(rng.Intn(2)), CaseInsensitive: rng.Intn(3) != 0}
	ascii := rng.Intn(2) == 0
	text := refmatch.Text
	if ascii {
		text = refmatch.ASCIIText
	}
	svc, mth := text(rng), text(rng)
	full := "/" + svc + "/" + mth
	switch {
	case p.Kind == refmatch.PathExact:
		p.Pattern = full
	case rng.Intn(3) == 0:
		p.Pattern = "/" + svc + "/"
	case rng.Intn(3) == 0:
		p.Pattern = ""
	default:
		p.Pattern = full[:1+rng.Intn(len(full))]
		for !utf8.ValidString(p.Pattern) { // config strings are valid UTF-8 (proto3)
			p.Pattern = p.Pattern[:len(p.Pattern)-1]
		}
	}
	path := full
	switch rng.Intn(6) {
	case 0:
	case 1, 2, 3:
		path = refmatch.MutateCase(rng, full, !ascii)
	case 4:
		path = "/" + text(rng) + "/" + mth
	default:
		path = refmatch.Perturb(rng, refmatch.MutateCase(rng, full, !ascii))
	}
	return p, path
}

// ---------------------------------------------------------------- fixed must-hit prefix

// fixedStringCases are executed with every seed: the witnesses named in
// DESIGN.md (§4 C47, §5 F3) and one plain case per matcher kind.
var fixedStringCases = []struct {
	spec refmatch.StringSpec
	in   string
}{
	{refmatch.StringSpec{Kind: refmatch.Exact, Pattern: "key", IgnoreCase: true}, "KEY"},
	{refmatch.StringSpec{Kind: refmatch.Exact, Pattern: "key", IgnoreCase: true}, "\u212Aey"}, // Kelvin sign: F3
	{refmatch.StringSpec{Kind: refmatch.Exact, Pattern: "\u212Aey", IgnoreCase: true}, "key"},
	{refmatch.StringSpec{Kind: refmatch.Prefix, Pattern: "Item", IgnoreCase: true}, "\u0130TEM-1"}, // dotted capital I
	{refmatch.StringSpec{Kind: refmatch.Suffix, Pattern: "caf\u00C9", IgnoreCase: true}, "le caf\u00E9"},
	{refmatch.StringSpec{Kind: refmatch.Contains, Pattern: "\uFF4B\uFF45\uFF59", IgnoreCase: true}, "a\uFF2B\uFF25\uFF39b"},
	{refmatch.StringSpec{Kind: refmatch.Exact, Pattern: "key", IgnoreCase: false}, "KEY"},
	{refmatch.StringSpec{Kind: refmatch.Prefix, Pattern: "ab", IgnoreCase: false}, "abc"},
	{refmatch.StringSpec{Kind: refmatch.Suffix, Pattern: "bc", IgnoreCase: true}, "aBC"},
	{refmatch.StringSpec{Kind: refmatch.Contains, Pattern: "B", IgnoreCase: true}, "abc"},
	{refmatch.StringSpec{Kind: refmatch.Regex, Pattern: "a", Re: refmatch.Lit("a")}, "xa"}, // full-string, not search
	{refmatch.StringSpec{Kind: refmatch.Regex, Pattern: "a", Re: refmatch.Lit("a")}, "ax"},
	{refmatch.StringSpec{Kind: refmatch.Regex, Pattern: "a", Re: refmatch.Lit("a")}, "a"},
	{refmatch.StringSpec{Kind: refmatch.Regex, Pattern: "a", Re: refmatch.Lit("a"), IgnoreCase: true}, "A"},
}

var fixedPathCases = []struct {
	spec refmatch.PathSpec
	path string
}{
	{refmatch.PathSpec{Kind: refmatch.PathExact, Pattern: "/service/Method", CaseInsensitive: true}, "/SERVICE/method"},
	{refmatch.PathSpec{Kind: refmatch.PathExact, Pattern: "/service/Method", CaseInsensitive: true}, "/\u017Fervice/Method"}, // long s: F3
	{refmatch.PathSpec{Kind: refmatch.PathPrefix, Pattern: "/item/", CaseInsensitive: true}, "/\u0131tem/Get"}, // dotless i
	{refmatch.PathSpec{Kind: refmatch.PathPrefix, Pattern: "/caf\u00E9/", CaseInsensitive: true}, "/CAF\u00C9/Get"},
	{refmatch.PathSpec{Kind: refmatch.PathExact, Pattern: "/s/M", CaseInsensitive: false}, "/s/m"},
	{refmatch.PathSpec{Kind: refmatch.PathPrefix, Pattern: "/s/", CaseInsensitive: false}, "/s/m"},
	{refmatch.PathSpec{Kind: refmatch.PathRegex, Pattern: "/s/.", Re: refmatch.Cat(refmatch.Lit("/s/"), refmatch.Any())}, "/s/mm"},
}

func TestVerifC47(t *testing.T) {
	r := vlib.Start(t, "C47")

	// ---- fixed prefix
	for i, c := range fixedStringCases {
		if !r.Want("fixed-string", i) {
			continue
		}
		checkString(r, "fixed-string", i, c.spec, false, c.in)
		checkString(r, "fixed-string", i, c.spec, true, c.in)
	}
	for i, c := range fixedPathCases {
		if !r.Want("fixed-path", i) {
			continue
		}
		checkPath(r, "fixed-path", i, c.spec, c.path)
	}
	fixedHdr := []struct {
		h  refmatch.HeaderSpec
		md map[string][]string
	}{
		{refmatch.HeaderSpec{Name: "th", Kind: refmatch.HPresent, Present: true}, map[string][]string{"th": {""}}}, // empty value is still present
		{refmatch.HeaderSpec{Name: "th", Kind: refmatch.HPresent, Present: false, Invert: true}, map[string][]string{"th": {""}}},
		{refmatch.HeaderSpec{Name: "th", Kind: refmatch.HPresent, Present: true, Invert: true}, map[string][]string{"x": {"y"}}},
		{refmatch.HeaderSpec{Name: "th", Kind: refmatch.HExact, Str: refmatch.StringSpec{Kind: refmatch.Exact, Pattern: "a,b"}}, map[string][]string{"th": {"a", "b"}}},
		{refmatch.HeaderSpec{Name: "th", Kind: refmatch.HExact, Str: refmatch.StringSpec{Kind: refmatch.Exact, Pattern: "a"}, Invert: true}, map[string][]string{"x": {"a"}}},
		{refmatch.HeaderSpec{Name: "th", Kind: refmatch.HRange, Start: 1, End: 10}, map[string][]string{"th": {"10"}}},
		{refmatch.HeaderSpec{Name: "th", Kind: refmatch.HRange, Start: 1, End: 10}, map[string][]string{"th": {"9"}}},
		{refmatch.HeaderSpec{Name: "th", Kind: refmatch.HRange, Start: 1, End: 10}, map[string][]string{"th": {"1"}}},
		{refmatch.HeaderSpec{Name: "th", Kind: refmatch.HRange, Start: 1, End: 10, Invert: true}, map[string][]string{"th": {"1", "2"}}},
		{refmatch.HeaderSpec{Name: "th", Kind: refmatch.HString, Str: refmatch.StringSpec{Kind: refmatch.Exact, Pattern: "key", IgnoreCase: true}}, map[string][]string{"th": {"\u212Aey"}}},
	}
	for i, c := range fixedHdr {
		if !r.Want("fixed-header", i) {
			continue
		}
		checkHeader(r, "fixed-header", i, c.h, c.md, false)
		checkHeader(r, "fixed-header", i, c.h, c.md, true)
	}

	// ---- generated string matchers
	n := r.N(60000, 1500000)
	for i := 0; i < n; i++ {
		if !r.Want("string", i) {
			continue
		}
		rng := r.Rand("string", i)
		var spec refmatch.StringSpec
		var in string
		if rng.Intn(5) == 0 {
			spec, in = genRegexSpec(rng)
		} else {
			k := refmatch.StrKind(rng.Intn(4))
			pat, s := genLiteralCase(rng, k, rng.Intn(3) == 0)
			spec, in = refmatch.StringSpec{Kind: k, Pattern: pat, IgnoreCase: rng.Intn(3) != 0}, s
		}
		viaProto := rng.Intn(2) == 0
		if spec.Pattern == "" && spec.Kind != refmatch.Exact {
			viaProto = false // the proto forbids empty prefix/suffix/contains
		}
		checkString(r, "string", i, spec, viaProto, in)
	}

	// ---- generated header matchers
	n = r.N(60000, 1500000)
	for i := 0; i < n; i++ {
		if !r.Want("header", i) {
			continue
		}
		rng := r.Rand("header", i)
		h, md := genHeaderCase(rng)
		checkHeader(r, "header", i, h, md, rng.Intn(2) == 0)
	}

	// ---- generated path matchers
	n = r.N(40000, 1000000)
	for i := 0; i < n; i++ {
		if !r.Want("path", i) {
			continue
		}
		rng := r.Rand("path", i)
		p, path := genPathCase(rng)
		checkPath(r, "path", i, p, path)
	}

	r.Finish(vlib.Spec{
		Level: "exploration",
		Rule: "fixed witnesses (Kelvin sign, long s, dotted/dotless i, accented, full-width; unanchored-regex near misses; empty-valued header) + PRNG cases: " +
			"pattern from ASCII/Unicode fragments, input = pattern with ASCII / Unicode / confusable case changes, padding on the right or wrong side, near misses; " +
			"regexes generated as ASTs (literals, '.', classes, concat, alt, * + ?) with inputs sampled from the language and perturbed; " +
			"headers absent / single / multi-valued, range bounds incl. MinInt64/MaxInt64 and values at start-1,start,end-1,end, non-integers and overflow; " +
			"distinct = (matcher family, kind, ignore_case|invert, header present, multi-valued, reference result, non-ASCII involved, construction path)",
		Assumptions: []string{
			"reference semantics: Envoy string/header/path matcher docs + property statement; ignore_case / case_insensitive fold A-Z only",
			"integer spellings on which parsers legitimately differ (+5, 007, -0, surrounding blanks) are executed but not judged",
			"config strings are valid UTF-8 (proto3); header values may contain a truncated UTF-8 sequence; regex inputs are valid UTF-8 without newlines",
			"header names are lower-case (gRPC metadata keys)",
		},
		Floor: 120,
	})
}
