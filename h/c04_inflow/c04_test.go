// C04: inbound flow control of a real grpc server / client audited from the
// wire by a scripted HTTP/2 sender (engine E1) inside synctest bubbles.
package c04

import (
	"bytes"
	"context"
	"fmt"
	"io"
	"math/rand"
	"os"
	"runtime"
	"sort"
	"strconv"
	"sync"
	"testing"
	"testing/synctest"
	"time"

	"golang.org/x/net/http2"
	"google.golang.org/grpc"
	"google.golang.org/grpc/metadata"
	"google.golang.org/grpc/verif/vlib"
	"google.golang.org/grpc/verif/wire"
)

type step struct {
	K   string `json:"k"` // send | release | ackpings | sleep | wait | overshoot
	S   int    `json:"s,omitempty"`
	N   int    `json:"n,omitempty"`   // byte budget for send / overshoot amount
	F   int    `json:"f,omitempty"`   // max frame payload
	Pad int    `json:"pad"` // -1 none, else max padding
}

type scenario struct {
	Role     string   `json:"role"` // server | client (the endpoint under test)
	IWS      int      `json:"iws"`  // 0 = library default + BDP (dynamic), else static stream window
	CW       int      `json:"cw"`   // static connection window (only when IWS != 0)
	Msgs     [][]int  `json:"msgs"`
	Stall    [][]bool `json:"stall"` // app waits for a release before reading message i
	Steps    []step   `json:"steps"`
	HoldPing bool     `json:"hold_ping"` // BDP pings are acked only by ackpings steps
	Over     bool     `json:"overshoot_family"`
}

func pattern(s, i, n int) []byte {
	b := make([]byte, n)
	x := uint32(s*1000003 + i*7919 + 29)
	for j := range b {
		x = x*1664525 + 1013904223
		b[j] = byte(x >> 24)
	}
	return b
}

func light() int {
	if os.Getenv("VERIF_LIGHT") != "" {
		return 8
	}
	return 1
}

func gen(rng *rand.Rand, fam string) scenario {
	sc := scenario{Role: vlib.Pick(rng, "server", "client")}
	switch rng.Intn(3) {
	case 0: // dynamic
	case 1:
		sc.IWS = vlib.Pick(rng, 65536, 70000, 131072, 1<<20)
		sc.CW = vlib.Pick(rng, 65536, 100000, 1<<20)
	default:
		sc.IWS, sc.CW = 65536, 65536
	}
	sc.HoldPing = sc.IWS == 0 && rng.Intn(2) == 0
	sc.Over = fam == "overshoot"
	win := sc.IWS
	if win == 0 {
		win = 65535
	}
	scale := 1
	if light() > 1 {
		scale = 4
	}
	ns := 1 + rng.Intn(4)
	for s := 0; s < ns; s++ {
		nm := 1 + rng.Intn(5)
		var ms []int
		var st []bool
		for i := 0; i < nm; i++ {
			switch rng.Intn(6) {
			case 0:
				ms = append(ms, 0)
			case 1:
				ms = append(ms, 1+rng.Intn(100))
			case 2:
				ms = append(ms, win-5+rng.Intn(11)-5)
			case 3:
				ms = append(ms, (win+rng.Intn(3*win))/scale)
			default:
				ms = append(ms, rng.Intn(win))
			}
			if ms[len(ms)-1] < 0 {
				ms[len(ms)-1] = 0
			}
			st = append(st, rng.Intn(3) == 0)
		}
		sc.Msgs = append(sc.Msgs, ms)
		sc.Stall = append(sc.Stall, st)
	}
	n := 20 + rng.Intn(60)
	if fam == "padded-long" {
		n = 400 + rng.Intn(400)
	}
	for k := 0; k < n; k++ {
		s := rng.Intn(ns)
		switch r := rng.Intn(100); {
		case r < 60 || fam == "padded-long" && r < 90:
			pad := -1
			if rng.Intn(2) == 0 || fam == "padded-long" {
				pad = vlib.Pick(rng, 0, 1, 7, 100, 255)
			}
			sc.Steps = append(sc.Steps, step{K: "send", S: s, N: vlib.Pick(rng, 1, 5, 100, 5000, 16384, 40000, 70000, 300000), F: vlib.Pick(rng, 1, 9, 100, 1000, 16384, 16384), Pad: pad})
		case r < 75:
			sc.Steps = append(sc.Steps, step{K: "release", S: s})
		case r < 82:
			sc.Steps = append(sc.Steps, step{K: "ackpings"})
		case r < 90:
			sc.Steps = append(sc.Steps, step{K: "sleep", N: 1 + rng.Intn(50)})
		case r < 93 && sc.Over:
			sc.Steps = append(sc.Steps, step{K: "overshoot", S: s, N: vlib.Pick(rng, 1, 1, 2, 100, 16384)})
		default:
			sc.Steps = append(sc.Steps, step{K: "wait"})
		}
	}
	return sc
}

type appState struct {
	inRecv   bool
	got      int // messages fully received
	err      error
	done     bool
	mismatch string
}

type result struct {
	viol     [][2]string
	counters map[string]int64
	sig      string
}

func run(sc scenario) *result {
	res := &result{counters: map[string]int64{}}
	v := func(key, f string, a ...any) { res.viol = append(res.viol, [2]string{key, fmt.Sprintf(f, a...)}) }
	ns := len(sc.Msgs)
	var mu sync.Mutex
	apps := make([]*appState, ns)
	gates := make([]chan struct{}, ns)
	payloads := make([][][]byte, ns)
	streamBytes := make([][]byte, ns) // framed bytes still to send per stream
	for s := range apps {
		apps[s] = &appState{}
		gates[s] = make(chan struct{}, 1024)
		for i, n := range sc.Msgs[s] {
			p := pattern(s, i, n)
			payloads[s] = append(payloads[s], p)
			streamBytes[s] = append(streamBytes[s], wire.Msg(p)...)
		}
	}
	// the application under test: reads all messages of its stream
	recvAll := func(s int, recv func(m *[]byte) error) {
		a := apps[s]
		for i := 0; ; i++ {
			if i < len(sc.Stall[s]) && sc.Stall[s][i] {
				<-gates[s]
			}
			mu.Lock()
			a.inRecv = true
			mu.Unlock()
			var m []byte
			err := recv(&m)
			mu.Lock()
			a.inRecv = false
			if err != nil {
				a.err = err
				a.done = true
				mu.Unlock()
				return
			}
			if i >= len(payloads[s]) {
				a.mismatch = fmt.Sprintf("extra message %d of %d bytes", i, len(m))
			} else if !bytes.Equal(m, payloads[s][i]) {
				a.mismatch = fmt.Sprintf("message %d differs (got %d bytes, want %d)", i, len(m), len(payloads[s][i]))
			}
			a.got = i + 1
			mu.Unlock()
		}
	}

	var peer *wire.Peer
	var cleanup func()
	var wg sync.WaitGroup
	ids := make([]uint32, ns)
	if sc.Role == "server" {
		var sopts []grpc.ServerOption
		if sc.IWS != 0 {
			sopts = append(sopts, grpc.InitialWindowSize(int32(sc.IWS)), grpc.InitialConnWindowSize(int32(sc.CW)))
		}
		sopts = append(sopts, grpc.MaxRecvMsgSize(1<<30))
		handler := func(_ any, ss grpc.ServerStream) error {
			wg.Add(1)
			defer wg.Done()
			md, _ := metadata.FromIncomingContext(ss.Context())
			s, _ := strconv.Atoi(md.Get("x-sid")[0])
			recvAll(s, func(m *[]byte) error { return ss.RecvMsg(m) })
			return nil
		}
		fx := wire.NewServerFixture(handler, sopts...)
		fx.Serve()
		p, err := fx.Connect()
		if err != nil {
			v("harness", "connect: %v", err)
			return res
		}
		peer = p
		peer.AutoPingAck = !sc.HoldPing
		if err := peer.Start(); err != nil {
			v("harness", "start: %v", err)
			return res
		}
		synctest.Wait()
		for s := 0; s < ns; s++ {
			ids[s] = uint32(1 + 2*s)
			peer.WriteHeaders(ids[s], false, 0, wire.RequestHeaders("/verif.In/Recv", wire.F("x-sid", strconv.Itoa(s)))...)
		}
		cleanup = func() { peer.Close(); fx.S.Stop() }
	} else {
		var dopts []grpc.DialOption
		if sc.IWS != 0 {
			dopts = append(dopts, grpc.WithInitialWindowSize(int32(sc.IWS)), grpc.WithInitialConnWindowSize(int32(sc.CW)))
		}
		dopts = append(dopts, grpc.WithDefaultCallOptions(grpc.MaxCallRecvMsgSize(1<<30)))
		fx, err := wire.NewClientFixture(dopts...)
		if err != nil {
			v("harness", "fixture: %v", err)
			return res
		}
		fx.CC.Connect()
		peer = fx.Accept()
		peer.AutoPingAck = !sc.HoldPing
		if err := peer.Start(); err != nil {
			v("harness", "start: %v", err)
			return res
		}
		synctest.Wait()
		cancels := []context.CancelFunc{}
		for s := 0; s < ns; s++ {
			ctx, cancel := context.WithCancel(metadata.AppendToOutgoingContext(context.Background(), "x-sid", strconv.Itoa(s)))
			cancels = append(cancels, cancel)
			wg.Add(1)
			go func() {
				defer wg.Done()
				st, err := fx.CC.NewStream(ctx, &grpc.StreamDesc{ClientStreams: true, ServerStreams: true}, "/verif.In/Recv")
				if err != nil {
					mu.Lock()
					apps[s].err, apps[s].done = err, true
					mu.Unlock()
					return
				}
				st.CloseSend()
				recvAll(s, func(m *[]byte) error { return st.RecvMsg(m) })
			}()
		}
		synctest.Wait()
		for _, e := range peer.Log() {
			if e.Dir == wire.In && e.Type == http2.FrameHeaders {
				if sid, ok := e.Field("x-sid"); ok {
					s, _ := strconv.Atoi(sid)
					ids[s] = e.Stream
				}
			}
		}
		for s := 0; s < ns; s++ {
			if ids[s] == 0 {
				v("harness", "client stream %d never opened", s)
				return res
			}
			peer.WriteHeaders(ids[s], false, 0, wire.ResponseHeaders()...)
		}
		cleanup = func() {
			for _, c := range cancels {
				c()
			}
			fx.CC.Close()
			peer.Close()
		}
	}

	led := wire.NewRecvLedger()
	fed := 0
	overshot := map[uint32]bool{}
	connOvershot := false
	rejected := map[uint32]bool{}
	ended := make([]bool, ns)
	var unackedPings [][8]byte
	connDead := false
	climit := int64(65535)
	if sc.CW != 0 {
		climit = int64(sc.CW)
	}
	feed := func() {
		log := peer.LogFrom(fed)
		for i := range log {
			e := &log[i]
			led.Feed(e)
			if e.Dir != wire.In {
				continue
			}
			switch e.Type {
			case http2.FrameRSTStream:
				if e.Code == http2.ErrCodeFlowControl {
					rejected[e.Stream] = true
					if !overshot[e.Stream] {
						v("rejected-within-window", "RST_STREAM(FLOW_CONTROL_ERROR) on stream %d although the sender never exceeded the advertised stream window: %s", e.Stream, e)
					}
					res.counters["flow_control_rst"]++
				}
			case http2.FrameGoAway:
				if !connOvershot && e.Code != http2.ErrCodeNo {
					v("goaway-within-window", "GOAWAY(%v) although the sender stayed within the advertised windows: %s", e.Code, e)
				}
			case http2.FramePing:
				if !e.Ack() && sc.HoldPing {
					unackedPings = append(unackedPings, e.Ping)
				}
			case wire.TypeConnEnd:
				connDead = true
				if !connOvershot {
					v("conn-closed-within-window", "the endpoint closed the connection although the sender stayed within the advertised windows: %s", e)
				}
			}
		}
		fed += len(log)
		if led.MaxConn > 1<<31-1 || led.MaxStream > 1<<31-1 {
			v("window-overflow", "advertised window exceeds 2^31-1: conn max %d stream max %d", led.MaxConn, led.MaxStream)
		}
	}
	quiesce := func(label string) {
		synctest.Wait()
		feed()
		res.counters["quiescent_checks"]++
		if connDead {
			return
		}
		mu.Lock()
		defer mu.Unlock()
		iws := led.IWS
		for s, a := range apps {
			if a.mismatch != "" {
				v("delivered-bytes-differ", "stream %d: %s", ids[s], a.mismatch)
				a.mismatch = ""
			}
			if a.done || !a.inRecv || overshot[ids[s]] || ended[s] {
				continue
			}
			// the application has consumed everything delivered and is blocked reading more
			res.counters["blocked_reader_checks"]++
			sv := led.StreamAvail(ids[s])
			if sv <= 0 || sv < iws-iws/4 {
				v("stream-window-not-restored", "after %q: reader of stream %d is blocked with everything consumed, but the sender's view of the stream window is %d (advertised initial window %d; required >= %d)", label, ids[s], sv, iws, iws-iws/4)
			}
			if led.Conn <= 0 || led.Conn < climit-climit/4 {
				v("conn-window-not-restored", "after %q: a reader is blocked with everything consumed, but the sender's view of the connection window is %d (configured %d; required >= %d)", label, led.Conn, climit, climit-climit/4)
			}
		}
	}
	quiesce("open")
	sendSome := func(s, budget, maxF, pad int, allowOver int) {
		id := ids[s]
		for frames := 0; budget > 0 && len(streamBytes[s]) > 0 && frames < 300; frames++ {
			avail := led.StreamAvail(id)
			if led.Conn < avail {
				avail = led.Conn
			}
			avail += int64(allowOver)
			if avail <= 0 {
				return
			}
			n := maxF
			if n > len(streamBytes[s]) {
				n = len(streamBytes[s])
			}
			if n > budget {
				n = budget
			}
			p := pad
			over := 0
			if p >= 0 {
				over = p + 1
			}
			if n+over > 16384 { // the whole frame payload must fit MAX_FRAME_SIZE
				n = 16384 - over
			}
			if int64(n+over) > avail {
				if p >= 0 && avail >= 1 {
					// shrink padding first, then data
					if int64(over) >= avail {
						p = int(avail) - 1
						over = p + 1
						n = 0
					} else {
						n = int(avail) - over
					}
				} else {
					n = int(avail)
				}
			}
			if n == 0 && p < 0 {
				return
			}
			if p >= 0 && frames%4 == 1 && int64(over) <= avail {
				// padding-only DATA frame (legal HTTP/2: pad-length octet and
				// padding, no data); its whole length counts against both windows
				n = 0
			}
			chunk := streamBytes[s][:n]
			streamBytes[s] = streamBytes[s][n:]
			last := len(streamBytes[s]) == 0 && sc.Role == "server"
			peer.WriteData(id, chunk, last, p)
			feed() // keeps the ledger in step with our own writes
			budget -= n
			if n == 0 {
				budget-- // padding-only frame
			}
			res.counters["data_frames_sent"]++
			if p >= 0 {
				res.counters["padded_frames_sent"]++
			}
			if last {
				ended[s] = true
			}
		}
		if len(streamBytes[s]) == 0 && !ended[s] && sc.Role == "client" {
			ended[s] = true
			peer.WriteHeaders(id, true, 0, wire.Trailers(0, "")...)
		}
	}
	for _, st := range sc.Steps {
		if connDead {
			break
		}
		label := st.K
		switch st.K {
		case "send":
			if overshot[ids[st.S]] {
				continue
			}
			sendSome(st.S, st.N, st.F, st.Pad, 0)
		case "overshoot":
			id := ids[st.S]
			if overshot[id] || len(streamBytes[st.S]) == 0 {
				continue
			}
			// fill the stream window exactly, then exceed it by N bytes
			av := led.StreamAvail(id)
			if led.Conn < av+int64(st.N) {
				continue // connection window would be exceeded too: keep the two cases apart
			}
			if int(av)+st.N > len(streamBytes[st.S]) {
				continue
			}
			overshot[id] = true
			res.counters["overshoots"]++
			sendSome(st.S, int(av)+st.N, 16384, -1, st.N)
		case "release":
			select {
			case gates[st.S] <- struct{}{}:
			default:
			}
		case "ackpings":
			for _, d := range unackedPings {
				peer.WritePing(true, d)
			}
			res.counters["held_pings_acked"] += int64(len(unackedPings))
			unackedPings = nil
		case "sleep":
			time.Sleep(time.Duration(st.N) * time.Millisecond)
		}
		quiesce(label)
	}
	// drain: release all readers, ack pings, send the rest within the windows
	idleRounds := 0
	for round := 0; round < 2000 && !connDead; round++ {
		progress := false
		for s := range apps {
			for k := 0; k < 8; k++ {
				select {
				case gates[s] <- struct{}{}:
				default:
				}
			}
		}
		for _, d := range unackedPings {
			peer.WritePing(true, d)
		}
		unackedPings = nil
		for s := range apps {
			if overshot[ids[s]] {
				continue
			}
			before := len(streamBytes[s])
			wasEnded := ended[s]
			sendSome(s, 1<<20, 16384, -1, 0)
			if len(streamBytes[s]) != before || ended[s] != wasEnded {
				progress = true
			}
		}
		quiesce("drain")
		allSent := true
		for s := range apps {
			if !overshot[ids[s]] && (len(streamBytes[s]) > 0 || !ended[s]) {
				allSent = false
			}
		}
		if allSent {
			break
		}
		if progress {
			idleRounds = 0
		} else {
			idleRounds++
		}
		// one idle round may just mean that the credit released by the readers
		// arrived during this round's quiescence; two in a row is a wedge
		if idleRounds >= 2 {
			if os.Getenv("VERIF_DEBUG") != "" {
				buf := make([]byte, 1<<20)
				n := runtime.Stack(buf, true)
				fmt.Printf("STACKS\n%s\n", buf[:n])
			}
			views := ""
			mu.Lock()
			for s := range apps {
				views += fmt.Sprintf(" [stream %d: view %d, left %d, inRecv %v, got %d, done %v]", ids[s], led.StreamAvail(ids[s]), len(streamBytes[s]), apps[s].inRecv, apps[s].got, apps[s].done)
			}
			mu.Unlock()
			v("sender-wedged", "drain: all readers released and reading, yet the advertised windows do not allow sending the remaining bytes (conn view %d, iws %d;%s)", led.Conn, led.IWS, views)
			break
		}
	}
	quiesce("final")
	if os.Getenv("VERIF_DEBUG") != "" {
		var sent int64
		for _, e := range peer.Log() {
			if e.Dir == wire.Out && e.Type == http2.FrameData {
				sent += int64(e.Len)
			}
			if e.Type != http2.FrameData && e.Type != http2.FramePing {
				fmt.Printf("DBG sent=%d %s\n", sent, e.String())
			}
		}
	}
	mu.Lock()
	for s, a := range apps {
		if overshot[ids[s]] || connDead {
			continue
		}
		if !a.done {
			v("reader-never-finished", "stream %d: all %d messages were sent within the windows and the stream ended, but the application is still blocked (got %d)", ids[s], len(payloads[s]), a.got)
		} else if a.got != len(payloads[s]) {
			v("messages-lost", "stream %d: application received %d of %d messages, err=%v", ids[s], a.got, len(payloads[s]), a.err)
		} else if a.err != io.EOF {
			v("bad-end", "stream %d: the reader's RecvMsg ended with %v, want EOF", ids[s], a.err)
		}
	}
	mu.Unlock()
	cleanup()
	for s := range gates {
		for k := 0; k < 16; k++ {
			select {
			case gates[s] <- struct{}{}:
			default:
			}
		}
	}
	wg.Wait()
	<-peer.Done()
	dyn := "static"
	if sc.IWS == 0 {
		dyn = "bdp"
		if led.IWS > 65535 {
			dyn = "bdp-grown"
			res.counters["bdp_window_growths"]++
		}
	}
	if res.counters["blocked_reader_checks"] > 0 {
		res.sig = fmt.Sprintf("%s/%s/pad%v/over%d/frames%d", sc.Role, dyn, res.counters["padded_frames_sent"] > 0, res.counters["overshoots"], bucket(res.counters["data_frames_sent"]))
	}
	return res
}

func bucket(n int64) int {
	b := 0
	for n > 0 {
		n /= 4
		b++
	}
	return b
}

func runFam(t *testing.T, r *vlib.Run, fam string, n int) {
	for i := 0; i < n; i++ {
		if !r.Want(fam, i) {
			continue
		}
		sc := gen(r.Rand(fam, i), fam)
		r.Progress(fam, i, fmt.Sprintf("role=%s iws=%d streams=%d steps=%d", sc.Role, sc.IWS, len(sc.Msgs), len(sc.Steps)))
		var res *result
		synctest.Test(t, func(t *testing.T) { res = run(sc) })
		r.Eval(1)
		for _, x := range res.viol {
			r.Violation(x[0], fam, i, sc, "%s", x[1])
		}
		keys := make([]string, 0, len(res.counters))
		for k := range res.counters {
			keys = append(keys, k)
		}
		sort.Strings(keys)
		for _, k := range keys {
			r.Count(k, res.counters[k])
		}
		if res.sig != "" {
			r.Nontrivial(fam + ":" + res.sig)
		}
		if i < 2 {
			r.Sample(map[string]any{"family": fam, "role": sc.Role, "iws": sc.IWS, "cw": sc.CW, "msgs": sc.Msgs, "steps": len(sc.Steps), "first_steps": sc.Steps[:min(6, len(sc.Steps))], "counters": res.counters})
		}
	}
}

func TestVerifC04(t *testing.T) {
	r := vlib.Start(t, "C04")
	runFam(t, r, "within", r.N(250, 5000)/light())
	runFam(t, r, "overshoot", r.N(120, 2500)/light())
	runFam(t, r, "padded-long", r.N(16, 300)/light())
	runHuge(t, r, r.N(40, 800)/light())
	runParked(t, r, r.N(24, 500)/light())
	r.Finish(vlib.Spec{
		Level: "exploration",
		Rule:  "scripted sender against a real server (handler reading) or client (app receiving), static windows {64K..1MB} or BDP-dynamic with pings acked at script-chosen points; 1-4 streams, messages 0..4x window, readers that stall until released, DATA frames of 1..16384 bytes with padding 0..255, always within the receive-window ledger (family within/padded-long, the latter 400-800 padded sends) or exceeding one stream window by k>=1 bytes (family overshoot); oracles: no FLOW_CONTROL rejection/GOAWAY/close without a real overshoot, advertised windows <= 2^31-1, at every quiescent point a blocked reader that consumed everything sees stream and connection windows restored to >= limit-limit/4, all bytes delivered intact; non-trivial = a blocked-reader check was taken; distinct = (role, static|bdp|bdp-grown, padding, overshoots, frame-count bucket)",
		Assumptions: []string{"'restored' is judged minus the documented quarter-window batching slack of inFlow/trInFlow (DESIGN.md R2 note for C04)",
			"the reverse direction (an overshoot must be rejected) is not required by the statement and not judged"},
		Floor: 12,
	})
}
