package c04

import (
	"context"
	"encoding/binary"
	"fmt"
	"math"
	"testing"
	"testing/synctest"

	"golang.org/x/net/http2"
	"google.golang.org/grpc"
	"google.golang.org/grpc/verif/vlib"
	"google.golang.org/grpc/verif/wire"
)

// Family huge-window: the endpoint is configured with a stream window close
// to 2^31-1 and the application asks for a message whose declared length
// exceeds what the window still allows, which makes the receiver grant an
// extra WINDOW_UPDATE for the message.  Whatever it grants, the window the
// peer sees must never exceed 2^31-1 (RFC 9113 6.9.1).
func runHuge(t *testing.T, r *vlib.Run, n int) {
	const fam = "huge-window"
	for i := 0; i < n; i++ {
		if !r.Want(fam, i) {
			continue
		}
		rng := r.Rand(fam, i)
		role := vlib.Pick(rng, "server", "client")
		iws := int32(math.MaxInt32 - rng.Intn(200000))
		if rng.Intn(4) == 0 {
			iws = math.MaxInt32
		}
		declared := uint32(int64(iws) - int64(rng.Intn(100000)))
		if rng.Intn(3) == 0 {
			declared = uint32(math.MaxInt32 - 5 - rng.Intn(10))
		}
		pre := rng.Intn(5000) // payload bytes sent before and after the header
		sc := map[string]any{"role": role, "iws": iws, "declared_len": declared, "payload_sent": pre}
		r.Progress(fam, i, fmt.Sprint(sc))
		var maxStream, maxConn int64
		var wus int
		var herr string
		synctest.Test(t, func(t *testing.T) {
			var peer *wire.Peer
			var cleanup func()
			var id uint32 = 1
			done := make(chan struct{})
			if role == "server" {
				handler := func(_ any, ss grpc.ServerStream) error {
					defer close(done)
					var m []byte
					ss.RecvMsg(&m)
					return nil
				}
				fx := wire.NewServerFixture(handler, grpc.StaticStreamWindowSize(iws), grpc.StaticConnWindowSize(iws), grpc.MaxRecvMsgSize(math.MaxInt32))
				fx.Serve()
				p, err := fx.Connect()
				if err != nil {
					herr = err.Error()
					return
				}
				peer = p
				peer.Start()
				synctest.Wait()
				peer.WriteHeaders(id, false, 0, wire.RequestHeaders("/verif.In/Huge")...)
				cleanup = func() { peer.Close(); fx.S.Stop() }
			} else {
				fx, err := wire.NewClientFixture(grpc.WithStaticStreamWindowSize(iws), grpc.WithStaticConnWindowSize(iws), grpc.WithDefaultCallOptions(grpc.MaxCallRecvMsgSize(math.MaxInt32)))
				if err != nil {
					herr = err.Error()
					return
				}
				fx.CC.Connect()
				peer = fx.Accept()
				peer.Start()
				synctest.Wait()
				ctx, cancel := context.WithCancel(context.Background())
				go func() {
					defer close(done)
					st, err := fx.CC.NewStream(ctx, &grpc.StreamDesc{ClientStreams: true, ServerStreams: true}, "/verif.In/Huge")
					if err != nil {
						return
					}
					st.CloseSend()
					var m []byte
					st.RecvMsg(&m)
				}()
				synctest.Wait()
				for _, e := range peer.Log() {
					if e.Dir == wire.In && e.Type == http2.FrameHeaders {
						id = e.Stream
					}
				}
				peer.WriteHeaders(id, false, 0, wire.ResponseHeaders()...)
				cleanup = func() { cancel(); fx.CC.Close(); peer.Close() }
			}
			synctest.Wait()
			hdr := make([]byte, 5)
			binary.BigEndian.PutUint32(hdr[1:], declared)
			// dribble the header so that the read request for the body is issued with pending updates
			peer.WriteData(id, hdr[:2], false, 3)
			synctest.Wait()
			peer.WriteData(id, hdr[2:], false, -1)
			synctest.Wait()
			peer.WriteData(id, make([]byte, pre), false, -1)
			synctest.Wait()
			led := wire.NewRecvLedger()
			for _, e := range peer.Log() {
				led.Feed(&e)
				if e.Dir == wire.In && e.Type == http2.FrameWindowUpdate && e.Stream == id {
					wus++
				}
			}
			maxStream, maxConn = led.MaxStream, led.MaxConn
			if a := led.StreamAvail(id); a > maxStream {
				maxStream = a
			}
			cleanup()
			<-peer.Done()
			<-done
		})
		r.Eval(1)
		if herr != "" {
			r.Violation("harness", fam, i, sc, "%s", herr)
			continue
		}
		r.Count("huge_window_stream_updates", int64(wus))
		if maxStream > math.MaxInt32 || maxConn > math.MaxInt32 {
			r.Violation("window-overflow", fam, i, sc, "advertised window exceeds 2^31-1: stream view peaked at %d, connection at %d (initial window %d, message of declared length %d requested)", maxStream, maxConn, iws, declared)
		}
		if wus > 0 {
			r.Nontrivial(fmt.Sprintf("huge:%s:extra-update:%v", role, maxStream == math.MaxInt32))
		}
		if i < 1 {
			sc["max_stream_view"] = maxStream
			r.Sample(sc)
		}
	}
}
