package c04

import (
	"bytes"
	"context"
	"fmt"
	"io"
	"testing"
	"testing/synctest"
	"time"

	"golang.org/x/net/http2"
	"google.golang.org/grpc"
	"google.golang.org/grpc/metadata"
	"google.golang.org/grpc/verif/vlib"
	"google.golang.org/grpc/verif/wire"
)

// Family parked-bdp (client under test): the server allows one concurrent
// stream, so a second RPC is parked waiting for stream quota while the first
// one receives enough data for the BDP estimator to raise the advertised
// stream window (SETTINGS_INITIAL_WINDOW_SIZE = n > 65535).  When the parked
// stream is finally created, the server may send it n bytes before the
// application reads anything: the client advertised n, so it must accept them.
func runParked(t *testing.T, r *vlib.Run, n int) {
	const fam = "parked-bdp"
	for i := 0; i < n; i++ {
		if !r.Want(fam, i) {
			continue
		}
		rng := r.Rand(fam, i)
		frame := vlib.Pick(rng, 4096, 16384, 16384)
		rtt := time.Duration(1+rng.Intn(20)) * time.Millisecond
		extraParked := rng.Intn(3) // more parked RPCs behind the first one
		sc := map[string]any{"frame": frame, "rtt_ms": rtt.Milliseconds(), "extra_parked": extraParked}
		r.Progress(fam, i, fmt.Sprint(sc))
		var viol [][2]string
		grown, sentB := int64(0), 0
		synctest.Test(t, func(t *testing.T) {
			v := func(k, f string, a ...any) { viol = append(viol, [2]string{k, fmt.Sprintf(f, a...)}) }
			fx, err := wire.NewClientFixture(grpc.WithDefaultCallOptions(grpc.MaxCallRecvMsgSize(1 << 30)))
			if err != nil {
				v("harness", "%v", err)
				return
			}
			fx.CC.Connect()
			peer := fx.Accept()
			peer.AutoPingAck = false
			peer.Start(http2.Setting{ID: http2.SettingMaxConcurrentStreams, Val: 1})
			synctest.Wait()
			type app struct {
				got  [][]byte
				err  error
				done chan struct{}
				gate chan struct{}
			}
			nApps := 2 + extraParked
			apps := make([]*app, nApps)
			ctx, cancel := context.WithCancel(context.Background())
			for k := range apps {
				a := &app{done: make(chan struct{}), gate: make(chan struct{})}
				apps[k] = a
				go func() {
					defer close(a.done)
					st, err := fx.CC.NewStream(metadata.AppendToOutgoingContext(ctx, "x-sid", fmt.Sprint(k)), &grpc.StreamDesc{ClientStreams: true, ServerStreams: true}, "/verif.In/Parked")
					if err != nil {
						a.err = err
						return
					}
					st.CloseSend()
					if k > 0 {
						<-a.gate // the parked streams' applications read only when released
					}
					for {
						var m []byte
						if err := st.RecvMsg(&m); err != nil {
							a.err = err
							return
						}
						a.got = append(a.got, m)
					}
				}()
				if k == 0 {
					synctest.Wait() // stream 0 takes the only slot first
				}
			}
			synctest.Wait()
			led := wire.NewRecvLedger()
			fed := 0
			ids := map[int]uint32{}
			var pings [][8]byte
			feed := func() {
				for _, e := range peer.LogFrom(fed) {
					led.Feed(&e)
					fed++
					if e.Dir != wire.In {
						continue
					}
					switch e.Type {
					case http2.FrameHeaders:
						if s, ok := e.Field("x-sid"); ok {
							var k int
							fmt.Sscan(s, &k)
							ids[k] = e.Stream
						}
					case http2.FramePing:
						if !e.Ack() {
							pings = append(pings, e.Ping)
						}
					case http2.FrameRSTStream:
						if e.Code == http2.ErrCodeFlowControl {
							v("rejected-within-window", "RST_STREAM(FLOW_CONTROL_ERROR) on stream %d although the sender stayed within the advertised window (initial window advertised %d): %s", e.Stream, led.IWS, e.String())
						}
					case http2.FrameGoAway:
						if e.Code != http2.ErrCodeNo {
							v("goaway-within-window", "GOAWAY(%v): %s", e.Code, e.String())
						}
					}
				}
			}
			feed()
			if len(ids) != 1 {
				v("harness", "expected exactly one open stream under MAX_CONCURRENT_STREAMS=1, have %v", ids)
				cancel()
				fx.CC.Close()
				peer.Close()
				return
			}
			idA := ids[0]
			peer.WriteHeaders(idA, false, 0, wire.ResponseHeaders()...)
			msg := wire.Msg(pattern(0, 0, frame-5))
			sentA := 0
			for round := 0; round < 400 && led.IWS <= 65535; round++ {
				for led.StreamAvail(idA) >= int64(len(msg)) && led.Conn >= int64(len(msg)) {
					peer.WriteData(idA, msg, false, -1)
					sentA++
					feed()
				}
				time.Sleep(rtt)
				for _, d := range pings {
					peer.WritePing(true, d)
				}
				pings = nil
				synctest.Wait()
				feed()
			}
			grown = led.IWS
			// finish stream 0: the first parked stream gets the slot
			peer.WriteHeaders(idA, true, 0, wire.Trailers(0, "")...)
			synctest.Wait()
			feed()
			<-apps[0].done
			for k := 1; k < nApps; k++ {
				id, ok := ids[k]
				if !ok {
					// which parked RPC gets the slot is not specified: find the one that did
					continue
				}
				_ = id
			}
			// serve the parked streams one after the other, whichever order the client admits them in
			served := map[int]bool{0: true}
			for len(served) < nApps {
				cur := -1
				for k, id := range ids {
					if !served[k] && id != 0 {
						cur = k
					}
				}
				if cur < 0 {
					v("parked-stream-never-opened", "after stream %d ended no parked RPC opened a stream (ids %v)", idA, ids)
					break
				}
				id := ids[cur]
				peer.WriteHeaders(id, false, 0, wire.ResponseHeaders()...)
				// one message that fills exactly what the client advertised for this stream
				avail := led.StreamAvail(id)
				if led.Conn < avail {
					avail = led.Conn
				}
				big := wire.Msg(pattern(cur, 1, int(avail)-5))
				rest := big
				for len(rest) > 0 {
					nn := 16384
					if nn > len(rest) {
						nn = len(rest)
					}
					peer.WriteData(id, rest[:nn], false, -1)
					rest = rest[nn:]
				}
				sentB += len(big)
				synctest.Wait() // the application has not read anything yet
				feed()
				close(apps[cur].gate)
				synctest.Wait()
				feed()
				peer.WriteHeaders(id, true, 0, wire.Trailers(0, "")...)
				synctest.Wait()
				feed()
				select {
				case <-apps[cur].done:
					if apps[cur].err != io.EOF || len(apps[cur].got) != 1 || !bytes.Equal(apps[cur].got[0], big[5:]) {
						v("parked-stream-data-lost", "parked stream %d: %d bytes sent within the advertised window %d, application got %d messages, err=%v", id, len(big), led.IWS, len(apps[cur].got), apps[cur].err)
					}
				default:
					v("reader-never-finished", "parked stream %d: application still blocked after the whole message and trailers were sent", id)
				}
				served[cur] = true
			}
			cancel()
			fx.CC.Close()
			peer.Close()
			for _, a := range apps {
				select {
				case <-a.gate:
				default:
					close(a.gate)
				}
				<-a.done
			}
			<-peer.Done()
		})
		r.Eval(1)
		for _, x := range viol {
			r.Violation(x[0], fam, i, sc, "%s", x[1])
		}
		r.Count("parked_bytes_sent_before_read", int64(sentB))
		if grown > 65535 {
			r.Count("parked_cases_with_bdp_growth", 1)
			r.Nontrivial(fmt.Sprintf("parked:grown>%dKB:extra%d:frame%d", grown/65536*64, extraParked, frame))
		}
		if i < 1 {
			sc["advertised_window_after_growth"] = grown
			r.Sample(sc)
		}
	}
}
