// C19 (black-box part): retry backoff arithmetic and retry throttling judged
// in exact VIRTUAL time.  Same engine as C18 (package retryplan: real
// grpc.ClientConn against a scripted HTTP/2 server in a synctest bubble), with
// generator biases towards many trailers-only failures, pushback values and
// long sequences of calls sharing one small token bucket.
//
// The time between "the failure of attempt i is visible to the library" (the
// instant the scripted server wrote the trailers when a RecvMsg/Invoke is in
// progress, otherwise the start of the application's next SendMsg/RecvMsg) and
// the next attempt's HEADERS reaching the server IS the backoff, because
// processing takes zero virtual time:
//
//	pushback p           => delay == p ms exactly
//	no pushback          => delay in [0.8, 1.2] x min(initial x multiplier^k, max), k = retries since the last pushback
//	transparent retry    => delay == 0
//	negative / malformed / repeated pushback => no retry
//	retry refused iff the token bucket is <= maxTokens/2 after removing one token
//
// grpc-go draws the jitter from the global math/rand/v2 source (stream.go:
// rand.Float64()), which the harness cannot control, hence bounds.  The
// white-box part (wb/grpc_root/c19_throttle.go) drives the real retryThrottler
// and parseServiceConfig directly.
package c19

import (
	"fmt"
	"os"
	"sort"
	"testing"
	"time"

	"google.golang.org/grpc/verif/retryplan"
	"google.golang.org/grpc/verif/vlib"
)

func light() int {
	if os.Getenv("VERIF_LIGHT") != "" {
		return 8
	}
	return 1
}

func has(props []string, p string) bool {
	for _, x := range props {
		if x == p {
			return true
		}
	}
	return false
}

// runFam returns false when a case got stuck (wall-clock guard): the run stops.
func runFam(t *testing.T, r *vlib.Run, fam string, bias retryplan.Bias, n int) bool {
	for i := 0; i < n; i++ {
		if !r.Want(fam, i) {
			continue
		}
		sc := retryplan.Gen(r.Rand(fam, i), bias)
		r.Progress(fam, i, fmt.Sprintf("rpcs=%d", len(sc.RPCs)))
		obs, ok := retryplan.RunGuarded(t, &sc, 3*time.Minute)
		if !ok {
			r.Inconclusive("case %s/%d did not finish within 3 min of wall-clock time (virtual time cannot advance: see retryplan.RunGuarded)", fam, i)
			return false
		}
		v := retryplan.Judge(&sc, obs)
		r.Eval(1)
		for _, f := range v.Findings {
			if has(f.Props, "C19") {
				r.Violation(f.Key, fam, i, map[string]any{"scenario": sc, "observed": obs}, "%s", f.Msg)
			}
		}
		keys := make([]string, 0, len(v.Counters))
		for k := range v.Counters {
			keys = append(keys, k)
		}
		sort.Strings(keys)
		for _, k := range keys {
			switch k {
			case "backoff_delays_checked", "pushback_delays_checked", "transparent_delays_checked", "policy_retries", "transparent_retries",
				"decision_throttled", "decision_throttle-undetermined", "decision_bad-pushback", "decision_policy", "decision_max-attempts",
				"retries_cut_by_deadline", "attempts_seen", "rpcs", "throttle_decision_points_yes", "throttle_decision_points_no", "throttle_decision_points_maybe":
				r.Count(k, v.Counters[k])
			}
		}
		for _, s := range v.TimingSigs {
			r.Nontrivial(fam + ":" + s)
		}
		if i < 2 {
			r.Sample(map[string]any{"family": fam, "scenario": sc, "timing_signatures": v.TimingSigs})
		}
	}
	return true
}

func TestVerifC19(t *testing.T) {
	r := vlib.Start(t, "C19")
	// unary calls first: they have no context-watcher goroutine, so a library that
	// sleeps through the deadline shows up as a verdict before it can wedge a
	// streaming case (see retryplan.RunGuarded)
	_ = runFam(t, r, "unary", retryplan.BiasUnary, r.N(800, 10000)/light()) &&
		runFam(t, r, "overflow", retryplan.BiasOverflow, r.N(600, 8000)/light()) &&
		runFam(t, r, "timing", retryplan.BiasTiming, r.N(2000, 30000)/light()) &&
		runFam(t, r, "throttle", retryplan.BiasThrottle, r.N(1200, 16000)/light())
	r.Finish(vlib.Spec{
		Level: "exploration",
		Rule: "family unary: 1-3 unary calls with short deadlines (1-5 s) against backoffs up to 2.5 s x multiplier; family overflow: policies whose uncapped backoff initial x multiplier^k leaves the int64-nanosecond / float64 range at a reached retry (multiplier 1e10..1e300, or 10..1000 with chains of up to 24 retries under WithMaxCallAttempts(25)) while maxBackoff is 1 ms-3 s; family timing: 1-3 mostly unary calls, 72% of attempts fail trailers-only, 40% of those carry grpc-retry-pushback-ms (valid 0..2^31-1, negative, malformed, repeated), policies initial 1ms-2.5s, multiplier 0.5-3, max below/above initial, maxAttempts 2-7 capped by WithMaxCallAttempts, deadlines 1-60 s; family throttle: 5-14 calls sharing a bucket of maxTokens 1-8 (also 2.5/7.5), tokenRatio 0.001-2; " +
			"oracle: virtual time from failure-visible to next HEADERS == pushback exactly / within [0.8,1.2] x min(initial x mult^k, max) (-2ns/+2ns truncation slack) / 0 for transparent retries; no retry after bad pushback; retry refused iff the token interval model is <= maxTokens/2 after the removal (judged only when the whole interval is on one side); backoff past the deadline => no attempt and DEADLINE_EXCEEDED by the deadline; non-trivial = a call with >=1 judged delay or throttle decision; distinct = (family, sequence of B<k> / P<size> / T0 / thr:<decision>:<side>)",
		Assumptions: []string{
			"zero virtual processing time between timer expiry and the HEADERS frame reaching the scripted server (synctest)",
			"jitter source is uncontrolled (global math/rand/v2): bounds only",
			"token accounting for failures after response headers / after commit / at the deadline is left open (interval model)",
		},
		Floor: 40,
	})
}
