package xdsfake

import (
	"fmt"
	"strings"

	"google.golang.org/grpc/internal/xds/clients/xdsclient"
)

// Callback kinds.
const (
	CBChanged  = "changed"
	CBResErr   = "resource-error"
	CBAmbient  = "ambient-error"
	ErrNACK    = "nack"      // error text carries the fake decoder's marker
	ErrGone    = "not-found" // "has been removed": watch expiry or SotW deletion
	ErrConn    = "conn"      // "error received from xDS stream"
	ErrOtherCl = "other"
)

// ClassifyErr maps a watcher error text to a class, from the documented texts
// of the generic client (the typed error is in a nested internal package and
// cannot be inspected from here).
func ClassifyErr(s string) string {
	switch {
	case strings.Contains(s, InvalidMarker) || strings.Contains(s, GarbageMarker):
		return ErrNACK
	case strings.Contains(s, "has been removed"):
		return ErrGone
	case strings.Contains(s, "error received from xDS stream"):
		return ErrConn
	}
	return ErrOtherCl
}

// Watcher is a recording xdsclient.ResourceWatcher for exactly one (type,
// name).  Every callback is logged before anything else happens; the done
// callback is either invoked at once or parked until the script releases it.
type Watcher struct {
	w       *World
	ID      int
	TypeURL string
	Name    string

	// guarded by World.mu
	hold    bool
	parked  []parkedDone
	cancel  func()
	Active  bool // between watch-ret and cancel-call
	Started bool
}

type parkedDone struct {
	cb   int
	done func()
}

// NewWatcher creates a watcher.  If hold is true its done callbacks are parked.
func (w *World) NewWatcher(typeURL, name string, hold bool) *Watcher {
	w.mu.Lock()
	defer w.mu.Unlock()
	w.nextW++
	return &Watcher{w: w, ID: w.nextW, TypeURL: typeURL, Name: name, hold: hold}
}

func (x *Watcher) record(kind string, val *ResVal, errText string, done func()) {
	w := x.w
	w.mu.Lock()
	w.nextCB++
	cb := w.nextCB
	w.addLocked(Event{Kind: EvCallback, W: x.ID, CB: cb, CBKind: kind, Val: val, Err: errText})
	if x.hold {
		x.parked = append(x.parked, parkedDone{cb: cb, done: done})
		w.mu.Unlock()
		return
	}
	w.addLocked(Event{Kind: EvDone, W: x.ID, CB: cb})
	w.mu.Unlock()
	done()
}

// ResourceChanged implements xdsclient.ResourceWatcher.
func (x *Watcher) ResourceChanged(d xdsclient.ResourceData, done func()) {
	var v *ResVal
	if fd, ok := d.(*Data); ok && fd != nil {
		c := fd.Val
		v = &c
	} else {
		v = &ResVal{Name: fmt.Sprintf("<foreign ResourceData %T>", d)}
	}
	x.record(CBChanged, v, "", done)
}

// ResourceError implements xdsclient.ResourceWatcher.
func (x *Watcher) ResourceError(err error, done func()) {
	x.record(CBResErr, nil, fmt.Sprint(err), done)
}

// AmbientError implements xdsclient.ResourceWatcher.
func (x *Watcher) AmbientError(err error, done func()) {
	x.record(CBAmbient, nil, fmt.Sprint(err), done)
}

// Parked returns the callback ids whose done is parked.
func (x *Watcher) Parked() []int {
	x.w.mu.Lock()
	defer x.w.mu.Unlock()
	var out []int
	for _, p := range x.parked {
		out = append(out, p.cb)
	}
	return out
}

// Release invokes the parked done callbacks (all of them if cb == 0, else only
// the one of callback cb).  The done event is stamped before the call.
func (x *Watcher) Release(cb int) int {
	w := x.w
	w.mu.Lock()
	var run []parkedDone
	var keep []parkedDone
	for _, p := range x.parked {
		if cb == 0 || p.cb == cb {
			run = append(run, p)
			w.addLocked(Event{Kind: EvDone, W: x.ID, CB: p.cb})
		} else {
			keep = append(keep, p)
		}
	}
	x.parked = keep
	w.mu.Unlock()
	for _, p := range run {
		p.done()
	}
	return len(run)
}

// SetHold changes the done policy for future callbacks.
func (x *Watcher) SetHold(h bool) {
	x.w.mu.Lock()
	x.hold = h
	x.w.mu.Unlock()
}

// Start registers the watch with the client (stamped call / return).
func (x *Watcher) Start(c *xdsclient.XDSClient) {
	w := x.w
	w.Add(Event{Kind: EvWatchCall, W: x.ID, Note: w.ShortType(x.TypeURL) + "/" + x.Name})
	cancel := c.WatchResource(x.TypeURL, x.Name, x)
	w.mu.Lock()
	x.cancel = cancel
	x.Active = true
	x.Started = true
	w.addLocked(Event{Kind: EvWatchRet, W: x.ID, Note: w.ShortType(x.TypeURL) + "/" + x.Name})
	w.mu.Unlock()
}

// Stop cancels the watch (stamped call / return).
func (x *Watcher) Stop() {
	w := x.w
	w.mu.Lock()
	cancel := x.cancel
	x.Active = false
	w.addLocked(Event{Kind: EvCancelCall, W: x.ID, Note: w.ShortType(x.TypeURL) + "/" + x.Name})
	w.mu.Unlock()
	if cancel != nil {
		cancel()
	}
	w.Add(Event{Kind: EvCancelRet, W: x.ID, Note: w.ShortType(x.TypeURL) + "/" + x.Name})
}

// IsActive reports whether the watch is registered and not cancelled.
func (x *Watcher) IsActive() bool {
	x.w.mu.Lock()
	defer x.w.mu.Unlock()
	return x.Active
}
