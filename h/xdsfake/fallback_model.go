package xdsfake

import (
	"fmt"
	"sort"
	"strconv"
	"strings"
)

// FallbackModel is the reference for C44 (gRFC A71) for a configuration with
// one authority and 1..3 management servers in priority order.  It judges the
// transports created and closed and the origin of the resources handed to
// watchers; whether a resource "has a cached value" is read off the watcher
// callbacks observed so far (the last non-ambient callback of a name's watchers
// is a ResourceChanged), which C43 checks independently.
//
// Rules, from the property statement and gRFC A71:
//
//	F1 a transport to server i>0 is created only if, in the same step, the stream
//	   of the active server failed before delivering any response, and some
//	   watched resource is uncached (gRFC A71: neither a value nor the knowledge
//	   that it does not exist - watch expiry / SotW deletion - has been obtained).
//	F2 if a stream of server j fails before delivering any response while some
//	   watched resource has never received anything (no value, no error other
//	   than connectivity errors) and a server below j has no transport, then a
//	   transport to the next such server is created (unless Build is scripted to
//	   fail).
//	F3 once a response carrying a valid watched resource has been read from
//	   server j, at the next quiescent point every transport to a server below j
//	   is closed; a transport is closed while resources are still watched only
//	   for that reason.
//	F4 after a resource from server j was handed to a watcher, no resource from a
//	   server below j is handed to any watcher until the client falls back
//	   again (delivery of the cached value to a newly registered watcher excepted).
type FallbackModel struct {
	cfg   SimConfig
	winfo map[int]WInfo

	openTr     map[int]int       // server -> transport id
	trServer   map[int]int       // transport -> server
	streams    map[int]*fmStream // stream id
	watched    map[string]int    // typeURL|name -> watcher count
	wOf        map[int]string    // watcher -> key
	hasValue   map[string]bool   // key -> last non-ambient callback was a ResourceChanged
	notExist   map[string]bool   // key -> last non-ambient callback was a "does not exist" ResourceError (watch expiry / SotW deletion)
	touched    map[string]bool   // key -> any callback other than a connectivity error was seen
	newW       map[int]bool
	allowedMax int
	holds      int // responses whose decoding the harness is holding back right now

	// per step
	failures         []int // servers whose stream failed before any response in this step (in order)
	reverts          []fmRevert
	anyReads         []int // servers from which a response of a registered type was read in this step
	cancels          int
	closes           []fmClose
	builds           []int
	buildFails       []int
	touchedAtFailure map[int]map[string]bool
	closed           bool

	findings []Finding
	Stats    map[string]int
}

type fmStream struct {
	id, server int
	reads      int
	requested  map[string]bool
}

type fmRevert struct {
	server int
	tag    string
	below  map[int]int // server -> transport id, open below `server` when the response was read
}

type fmClose struct {
	server     int
	afterReads []int // servers from which a response was read earlier in this step
}

// NewFallbackModel creates the model.
func NewFallbackModel(s *Sim) *FallbackModel {
	return &FallbackModel{cfg: s.Cfg, winfo: s.WInfo, openTr: map[int]int{}, trServer: map[int]int{}, streams: map[int]*fmStream{},
		watched: map[string]int{}, wOf: map[int]string{}, hasValue: map[string]bool{}, notExist: map[string]bool{}, touched: map[string]bool{}, newW: map[int]bool{},
		allowedMax: -1, Stats: map[string]int{}, touchedAtFailure: map[int]map[string]bool{}}
}

func (m *FallbackModel) fail(key, format string, a ...any) {
	m.findings = append(m.findings, Finding{Key: key, Msg: fmt.Sprintf(format, a...)})
}

// Take returns and clears the findings.
func (m *FallbackModel) Take() []Finding {
	f := m.findings
	m.findings = nil
	return f
}

// Feed consumes the events of one step.
func (m *FallbackModel) Feed(evs []Event) {
	for _, e := range evs {
		m.one(e)
	}
}

// ActiveServer returns the highest-priority-index server with an open
// transport (-1 if none).
func (m *FallbackModel) ActiveServer() int {
	a := -1
	for s := range m.openTr {
		if s > a {
			a = s
		}
	}
	return a
}

func (m *FallbackModel) uncachedNames() []string {
	var out []string
	for k, n := range m.watched {
		// gRFC A71: "cached" includes resources known not to exist
		if n > 0 && !m.hasValue[k] && !m.notExist[k] {
			out = append(out, k)
		}
	}
	sort.Strings(out)
	return out
}

func (m *FallbackModel) untouchedNames() map[string]bool {
	out := map[string]bool{}
	for k, n := range m.watched {
		if n > 0 && !m.touched[k] {
			out[k] = true
		}
	}
	return out
}

func tagServer(tag string) int {
	// "s<idx>/st<id>/r<n>"
	if !strings.HasPrefix(tag, "s") {
		return -1
	}
	i := strings.Index(tag, "/")
	if i < 0 {
		return -1
	}
	n, err := strconv.Atoi(tag[1:i])
	if err != nil {
		return -1
	}
	return n
}

func (m *FallbackModel) failure(server int) {
	m.failures = append(m.failures, server)
	m.Stats["failures_before_response"]++
	if _, ok := m.touchedAtFailure[server]; !ok {
		m.touchedAtFailure[server] = m.untouchedNames()
	}
}

func (m *FallbackModel) one(e Event) {
	switch e.Kind {
	case EvStep:
		if e.Note == "close" {
			m.closed = true
		}
		m.failures, m.reverts, m.closes, m.builds, m.buildFails = nil, nil, nil, nil, nil
		m.anyReads, m.cancels = nil, 0
		m.touchedAtFailure = map[int]map[string]bool{}
		m.newW = map[int]bool{}
	case EvScript:
		switch {
		case strings.HasPrefix(e.Note, "decode-hold "):
			m.holds++
		case strings.HasPrefix(e.Note, "decode-resume "):
			m.holds--
		}
	case EvWatchCall:
		wi := m.winfo[e.W]
		k := wi.TypeURL + "|" + wi.Name
		m.watched[k]++
		m.wOf[e.W] = k
		m.newW[e.W] = true
	case EvCancelCall:
		m.cancels++
		k, ok := m.wOf[e.W]
		if !ok {
			return
		}
		delete(m.wOf, e.W)
		m.watched[k]--
		if m.watched[k] <= 0 {
			delete(m.watched, k)
			delete(m.hasValue, k)
			delete(m.notExist, k)
			delete(m.touched, k)
		}
	case EvBuildFail:
		m.buildFails = append(m.buildFails, e.Server)
	case EvBuild:
		m.builds = append(m.builds, e.Server)
		m.Stats["transports_built"]++
		if e.Server > 0 && !m.closed {
			m.Stats["fallback_transports_built"]++
			act := m.ActiveServer()
			okActive, okHigher := false, false
			for _, f := range m.failures {
				if f == act {
					okActive = true
				}
				if f < e.Server {
					okHigher = true
				}
			}
			switch {
			case okActive:
			case okHigher:
				m.fail("fallback-triggered-by-failure-of-non-active-server", "a transport to lower-priority server %d was created after the stream of server(s) %v failed, but the active server is %d and its stream did not fail", e.Server, m.failures, act)
			default:
				m.fail("fallback-without-connectivity-failure", "a transport to lower-priority server %d was created although no stream of a higher-priority server failed before delivering a response in this step (failures so far: %v)", e.Server, m.failures)
			}
			if un := m.uncachedNames(); len(un) == 0 {
				m.fail("fallback-although-every-resource-is-cached", "a transport to lower-priority server %d was created although every watched resource has a cached value or is known not to exist (gRFC A71 counts both as cached)", e.Server)
			}
		}
		m.openTr[e.Server] = e.Tr
		m.trServer[e.Tr] = e.Server
		if e.Server > m.allowedMax {
			m.allowedMax = e.Server
		}
	case EvTrClose:
		srv, ok := m.trServer[e.Tr]
		if !ok {
			return
		}
		if m.openTr[srv] == e.Tr {
			delete(m.openTr, srv)
		}
		m.closes = append(m.closes, fmClose{server: srv, afterReads: append([]int{}, m.anyReads...)})
		if len(m.openTr) == 0 {
			m.allowedMax = -1
		}
	case EvNewStream:
		m.streams[e.Stream] = &fmStream{id: e.Stream, server: e.Server, requested: map[string]bool{}}
	case EvNewStreamFail:
		if _, open := m.openTr[e.Server]; open {
			m.failure(e.Server)
		}
	case EvSend:
		if s := m.streams[e.Stream]; s != nil && e.Err == "" && e.Req != nil {
			s.requested[e.Req.TypeURL] = true
		}
	case EvRecvRet:
		s := m.streams[e.Stream]
		if s == nil {
			return
		}
		if e.Resp == nil {
			if !strings.Contains(e.Err, "context canceled") && s.reads == 0 {
				m.failure(s.server)
			}
			return
		}
		s.reads++
		if e.Resp.TypeURL != TypeURLA && e.Resp.TypeURL != TypeURLB {
			return
		}
		m.anyReads = append(m.anyReads, s.server)
		// does it carry a valid resource somebody watches?
		for _, rv := range e.Resp.Resources {
			if !rv.Garbage && rv.Valid && m.watched[e.Resp.TypeURL+"|"+rv.Name] > 0 {
				below := map[int]int{}
				for srv, id := range m.openTr {
					if srv > s.server {
						below[srv] = id
					}
				}
				m.reverts = append(m.reverts, fmRevert{server: s.server, tag: e.Resp.Tag, below: below})
				break
			}
		}
	case EvCallback:
		k := m.wOf[e.W]
		if m.watched[k] <= 0 {
			return
		}
		switch e.CBKind {
		case CBChanged:
			m.hasValue[k] = true
			m.notExist[k] = false
			m.touched[k] = true
			if e.Val != nil && !m.newW[e.W] {
				src := tagServer(e.Val.Tag)
				if src > m.allowedMax && m.allowedMax >= 0 {
					m.fail("update-from-lower-priority-server-delivered", "watcher %d received %s@%s which came from server %d after a resource from higher-priority server %d had been delivered (no fallback in between)", e.W, e.Val.Name, e.Val.Version, src, m.allowedMax)
				} else if src >= 0 && src < m.allowedMax {
					m.allowedMax = src
				}
				m.Stats["deliveries_with_origin_checked"]++
			}
		case CBResErr:
			if ClassifyErr(e.Err) != ErrConn {
				m.hasValue[k] = false
				m.notExist[k] = ClassifyErr(e.Err) == ErrGone
				m.touched[k] = true
			}
		case CBAmbient:
			if ClassifyErr(e.Err) != ErrConn {
				m.touched[k] = true
			}
		}
	case EvQuiet:
		m.quiescent()
	}
}

func (m *FallbackModel) quiescent() {
	if m.closed {
		return
	}
	if m.holds > 0 {
		// a response read in this step is still being decoded (harness gate timed
		// out): its effects belong to a later step, do not judge this one
		m.Stats["quiescent_checks_skipped_decode_held"]++
		return
	}
	m.Stats["quiescent_checks"]++
	anyWatched := len(m.watched) > 0
	// F2: fallback must have been triggered
	seen := map[int]bool{}
	for _, j := range m.failures {
		if seen[j] {
			continue
		}
		seen[j] = true
		// names that were untouched at the failure and still are
		still := []string{}
		for k := range m.touchedAtFailure[j] {
			if m.watched[k] > 0 && !m.touched[k] {
				still = append(still, k)
			}
		}
		if len(still) == 0 {
			continue
		}
		sort.Strings(still)
		next := -1
		for k := j + 1; k < m.cfg.Servers; k++ {
			if _, open := m.openTr[k]; !open {
				next = k
				break
			}
		}
		built := false
		for _, b := range m.builds {
			if b > j {
				built = true
			}
		}
		if built {
			m.Stats["fallbacks_observed"]++
			continue
		}
		if next < 0 {
			m.Stats["failures_with_nothing_to_fall_back_to"]++
			continue
		}
		bf := false
		for _, b := range m.buildFails {
			if b == next {
				bf = true
			}
		}
		if bf {
			continue
		}
		m.fail("fallback-not-triggered", "the stream of server %d failed before delivering any response while %v never received anything, and server %d has no transport, but no lower-priority transport was created", j, still, next)
	}
	// F3: revert closes everything below
	for _, rv := range m.reverts {
		for srv, id := range rv.below {
			if m.openTr[srv] == id {
				m.fail("lower-priority-server-not-released-after-revert", "response %s with a valid watched resource was read from server %d, but the transport %d to lower-priority server %d that was open at that moment is still open at quiescence", rv.tag, rv.server, id, srv)
			}
		}
	}
	if anyWatched && m.cancels == 0 {
		for _, c := range m.closes {
			ok := false
			for _, r := range c.afterReads {
				if r < c.server {
					ok = true
				}
			}
			if !ok {
				m.fail("server-released-without-update-from-higher-priority-server", "the transport to server %d was closed while resources are still watched, but no response from a higher-priority server was read before in this step (responses read from %v)", c.server, c.afterReads)
			} else {
				m.Stats["reverts_observed"]++
			}
		}
	}
}
