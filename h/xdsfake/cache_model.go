package xdsfake

import (
	"fmt"
	"sort"
	"strings"
	"time"
)

// CacheModel is the reference resource cache of C43 for a configuration with a
// single authority and a single management server.  It is written from the
// property statement, the xDS protocol specification ("knowing when a
// requested resource does not exist": 15 s after the request was sent; SotW
// deletion for types that require every resource in each response), gRFC A53
// (ignore_resource_deletion) and gRFC A57 (a stream that fails before any
// response is a connectivity error reported to every watcher; the
// does-not-exist timer only runs while a stream carries the request).
//
// It consumes the boundary log (API calls, requests sent, responses and errors
// returned by Recv, virtual time) and predicts, per step, the callbacks every
// watcher must, may and must not receive.
//
// R2 notes (weakest reading): (1) an error callback for a rejected update whose
// error text equals the previous rejection of the same resource is optional (the
// shipped client suppresses exact duplicates); (2) a ResourceChanged for an
// update identical to the cached one after an intervening NACK is optional (the
// statement only forbids it when no NACK intervened); (3) on a connectivity
// failure a watcher without a cached resource may get either error kind.
type CacheModel struct {
	cfg   SimConfig
	winfo map[int]WInfo

	res      map[string]*cmRes // typeURL|name
	watchers map[int]*cmW
	streams  map[int]*cmStream
	now      time.Duration

	exp       map[int][]*cmExp // expected callbacks of the current step, per watcher
	act       map[int][]Event  // actual callbacks of the current step, per watcher
	ambiguous bool

	findings []Finding
	Stats    map[string]int
}

type cmRes struct {
	typeURL, name string
	watchers      map[int]bool
	cache         string // accepted version, "" = none
	hasCache      bool
	nacked        bool
	nackText      string
	notExist      bool
	delIgnored    bool
	ws            int // 0 started, 1 requested, 2 received, 3 timeout
	deadline      time.Duration
	everAccepted  map[string]bool
}

type cmW struct {
	id        int
	key       string
	active    bool
	cancelled bool
}

type cmStream struct {
	id    int
	reads int
}

type cmExp struct {
	kind     string // CBChanged / CBResErr / CBAmbient
	anyErr   bool   // either error kind is fine
	class    string // for errors
	contains string // changed: "name@ver"; nack: decoder text
	optional bool
	matched  bool
	why      string
}

// NewCacheModel creates the model.
func NewCacheModel(s *Sim) *CacheModel {
	return &CacheModel{cfg: s.Cfg, winfo: s.WInfo, res: map[string]*cmRes{}, watchers: map[int]*cmW{}, streams: map[int]*cmStream{},
		exp: map[int][]*cmExp{}, act: map[int][]Event{}, Stats: map[string]int{}}
}

func (m *CacheModel) fail(key, format string, a ...any) {
	m.findings = append(m.findings, Finding{Key: key, Msg: fmt.Sprintf(format, a...)})
}

// Take returns and clears the findings.
func (m *CacheModel) Take() []Finding {
	f := m.findings
	m.findings = nil
	return f
}

// Feed consumes the events of one step.
func (m *CacheModel) Feed(evs []Event) {
	for _, e := range evs {
		m.one(e)
	}
}

func (m *CacheModel) expect(w int, x *cmExp) {
	m.exp[w] = append(m.exp[w], x)
}

func (m *CacheModel) expectAll(r *cmRes, mk func() *cmExp) {
	for w := range r.watchers {
		m.expect(w, mk())
	}
}

func (m *CacheModel) sortedRes() []*cmRes {
	keys := sortedKeys(m.res)
	out := make([]*cmRes, 0, len(keys))
	for _, k := range keys {
		out = append(out, m.res[k])
	}
	return out
}

// expire fires the does-not-exist timers due before (or, if incl, at) t.
func (m *CacheModel) expire(t time.Duration, incl bool) {
	for _, r := range m.sortedRes() {
		if r.ws != 1 {
			continue
		}
		if r.deadline < t || (incl && r.deadline == t) {
			r.ws = 3
			r.hasCache, r.cache = false, ""
			r.notExist, r.nacked, r.nackText = true, false, ""
			m.Stats["watch_expiries"]++
			m.expectAll(r, func() *cmExp {
				return &cmExp{kind: CBResErr, class: ErrGone, why: fmt.Sprintf("no response for %s within %v of the request sent at %v", r.name, WatchExpiry, r.deadline-WatchExpiry)}
			})
		}
	}
}

func (m *CacheModel) one(e Event) {
	m.expire(e.At, e.Kind == EvCallback)
	m.now = e.At
	switch e.Kind {
	case EvStep:
		m.exp = map[int][]*cmExp{}
		m.act = map[int][]Event{}
		m.ambiguous = false
	case EvWatchCall:
		// the client may subscribe and send the request before WatchResource
		// returns, so the watch is effective from the call on
		wi := m.winfo[e.W]
		k := wi.TypeURL + "|" + wi.Name
		r := m.res[k]
		if r == nil {
			r = &cmRes{typeURL: wi.TypeURL, name: wi.Name, watchers: map[int]bool{}, everAccepted: map[string]bool{}}
			m.res[k] = r
		}
		r.watchers[e.W] = true
		m.watchers[e.W] = &cmW{id: e.W, key: k, active: true}
		if r.hasCache {
			m.expect(e.W, &cmExp{kind: CBChanged, contains: r.name + "@" + r.cache, why: "new watcher gets the cached resource"})
		}
		if r.nacked {
			kind := CBAmbient
			if !r.hasCache {
				kind = CBResErr
			}
			m.expect(e.W, &cmExp{kind: kind, class: ErrNACK, contains: r.nackText, why: "new watcher gets the current (rejected update) error state"})
		}
		if r.notExist {
			m.expect(e.W, &cmExp{kind: CBResErr, class: ErrGone, why: "new watcher gets the current (does not exist) error state"})
		}
		m.Stats["watches"]++
	case EvCancelCall:
		w := m.watchers[e.W]
		if w == nil || w.cancelled {
			return
		}
		w.active, w.cancelled = false, true
		if r := m.res[w.key]; r != nil {
			delete(r.watchers, e.W)
			if len(r.watchers) == 0 {
				delete(m.res, w.key)
			}
		}
	case EvNewStream:
		m.streams[e.Stream] = &cmStream{id: e.Stream}
	case EvSend:
		if e.Err != "" || e.Req == nil {
			return
		}
		for _, n := range e.Req.Names {
			if r := m.res[e.Req.TypeURL+"|"+n]; r != nil && r.ws == 0 {
				r.ws = 1
				r.deadline = e.At + WatchExpiry
			}
		}
	case EvNewStreamFail:
		m.streamFailed(true)
	case EvRecvRet:
		s := m.streams[e.Stream]
		if s == nil {
			return
		}
		if e.Resp == nil {
			if strings.Contains(e.Err, "context canceled") {
				return // the channel is being closed by the client itself
			}
			m.streamFailed(s.reads == 0)
			return
		}
		s.reads++
		m.response(e.Resp)
	case EvCallback:
		m.act[e.W] = append(m.act[e.W], e)
	case EvQuiet:
		m.compare(e)
	}
}

func (m *CacheModel) streamFailed(beforeAnyResponse bool) {
	for _, r := range m.res {
		if r.ws == 1 {
			r.ws = 0
		}
	}
	if !beforeAnyResponse {
		m.Stats["stream_failures_after_response"]++
		return
	}
	m.Stats["stream_failures_before_response"]++
	for _, r := range m.sortedRes() {
		r := r
		m.expectAll(r, func() *cmExp {
			if r.hasCache {
				return &cmExp{kind: CBAmbient, class: ErrConn, why: "stream failed before any response; resource is cached"}
			}
			return &cmExp{kind: CBResErr, anyErr: true, class: ErrConn, why: "stream failed before any response; nothing cached"}
		})
	}
}

func (m *CacheModel) response(rp *Resp) {
	if rp.TypeURL != TypeURLA && rp.TypeURL != TypeURLB {
		return
	}
	m.Stats["responses"]++
	present := map[string]bool{}
	for _, rv := range rp.Resources {
		if rv.Garbage {
			continue
		}
		present[rv.Name] = true
		r := m.res[rp.TypeURL+"|"+rv.Name]
		if r == nil {
			continue
		}
		if r.ws == 0 || r.ws == 1 {
			r.ws = 2
		}
		rv := rv
		if rv.Valid {
			identical := r.hasCache && r.cache == rv.Version
			if !identical || r.nacked {
				opt := identical && r.nacked
				m.expectAll(r, func() *cmExp {
					return &cmExp{kind: CBChanged, contains: rv.Name + "@" + rv.Version, optional: opt, why: "accepted update " + rp.Tag}
				})
				m.Stats["updates_delivered"]++
			} else {
				m.Stats["identical_updates_suppressed"]++
			}
			r.hasCache, r.cache = true, rv.Version
			r.everAccepted[rv.Version] = true
			r.nacked, r.nackText, r.notExist, r.delIgnored = false, "", false, false
			continue
		}
		text := InvalidErrText(rv.Name, rv.Version)
		dup := r.nacked && r.nackText == text
		kind := CBAmbient
		if !r.hasCache {
			kind = CBResErr
		}
		m.expectAll(r, func() *cmExp {
			return &cmExp{kind: kind, class: ErrNACK, contains: text, optional: dup, why: "rejected update " + rp.Tag}
		})
		m.Stats["rejected_updates"]++
		r.nacked, r.nackText, r.notExist = true, text, false
	}
	if rp.TypeURL != TypeURLA {
		return
	}
	// state-of-the-world deletion
	ignore := len(m.cfg.IgnoreDeletion) > 0 && m.cfg.IgnoreDeletion[0]
	for _, r := range m.sortedRes() {
		if r.typeURL != rp.TypeURL || present[r.name] || !r.hasCache {
			continue
		}
		if ignore {
			r.delIgnored = true
			m.Stats["deletions_ignored"]++
			continue
		}
		r.hasCache, r.cache = false, ""
		r.notExist, r.nacked, r.nackText = true, false, ""
		m.Stats["sotw_deletions"]++
		m.expectAll(r, func() *cmExp {
			return &cmExp{kind: CBResErr, class: ErrGone, why: "resource absent from state-of-the-world response " + rp.Tag}
		})
	}
}

func cbSig(e Event) string {
	if e.CBKind == CBChanged && e.Val != nil {
		return fmt.Sprintf("%s(%s@%s)", e.CBKind, e.Val.Name, e.Val.Version)
	}
	return fmt.Sprintf("%s(%s)", e.CBKind, ClassifyErr(e.Err))
}

func (x *cmExp) String() string {
	o := ""
	if x.optional {
		o = "optional "
	}
	k := x.kind
	if x.anyErr {
		k = "any-error"
	}
	return fmt.Sprintf("%s%s(%s%s) because %s", o, k, x.class, x.contains, x.why)
}

func (x *cmExp) matches(e Event) bool {
	if x.kind == CBChanged {
		return e.CBKind == CBChanged && e.Val != nil && e.Val.Name+"@"+e.Val.Version == x.contains && e.Val.Valid
	}
	if e.CBKind == CBChanged {
		return false
	}
	if !x.anyErr && e.CBKind != x.kind {
		return false
	}
	if ClassifyErr(e.Err) != x.class {
		return false
	}
	if x.contains != "" && !strings.Contains(e.Err, x.contains) {
		return false
	}
	return true
}

func (m *CacheModel) compare(q Event) {
	// a timer due exactly now may or may not have fired: do not judge this step
	for _, r := range m.res {
		if r.ws == 1 && r.deadline == q.At {
			m.ambiguous = true
		}
	}
	if m.ambiguous {
		m.Stats["ambiguous_steps_skipped"]++
		m.expire(q.At, true)
		return
	}
	m.Stats["quiescent_compares"]++
	ids := map[int]bool{}
	for w := range m.exp {
		ids[w] = true
	}
	for w := range m.act {
		ids[w] = true
	}
	var ws []int
	for w := range ids {
		ws = append(ws, w)
	}
	sort.Ints(ws)
	for _, w := range ws {
		exp := m.exp[w]
		wi := m.winfo[w]
		for _, a := range m.act[w] {
			m.Stats["callbacks_judged"]++
			// required predictions are matched before optional ones, so that an
			// optional duplicate never steals the callback a required one needs
			found := false
			for pass := 0; pass < 2 && !found; pass++ {
				for _, x := range exp {
					if !x.matched && x.optional == (pass == 1) && x.matches(a) {
						x.matched, found = true, true
						break
					}
				}
			}
			if found {
				continue
			}
			key := "unexpected-" + a.CBKind
			cw := m.watchers[w]
			r := m.res[wi.TypeURL+"|"+wi.Name]
			switch {
			case cw == nil || cw.cancelled:
				key = "callback-after-cancel"
			case a.CBKind == CBChanged && a.Val != nil && !a.Val.Valid:
				key = "changed-with-rejected-resource"
			case a.CBKind == CBChanged && a.Val != nil && (a.Val.Name != wi.Name):
				key = "changed-with-foreign-resource"
			case a.CBKind == CBChanged && a.Val != nil && r != nil && r.hasCache && r.cache == a.Val.Version:
				key = "changed-for-identical-update"
			case a.CBKind != CBChanged:
				key = "unexpected-" + a.CBKind + "-" + ClassifyErr(a.Err)
				// the right class of error through the wrong method
				for _, x := range exp {
					if !x.matched && x.kind != CBChanged && x.class == ClassifyErr(a.Err) {
						key = "wrong-error-kind-" + a.CBKind + "-instead-of-" + x.kind
						x.matched = true
						break
					}
				}
			}
			var es []string
			for _, x := range exp {
				es = append(es, x.String())
			}
			m.fail(key, "watcher %d (%s/%s) received %s %q which the reference cache does not predict in this step; predicted: %v", w, TypeNames[wi.TypeURL], wi.Name, cbSig(a), a.Err, es)
		}
		for _, x := range exp {
			if x.matched || x.optional {
				if x.optional && !x.matched {
					m.Stats["optional_callbacks_absent"]++
				}
				continue
			}
			k := x.kind
			if x.anyErr {
				k = "error"
			}
			key := "missing-" + k
			if x.class != "" {
				key += "-" + x.class
			}
			var as []string
			for _, a := range m.act[w] {
				as = append(as, cbSig(a))
			}
			m.fail(key, "watcher %d (%s/%s) did not receive %s; received in this step: %v", w, TypeNames[wi.TypeURL], wi.Name, x.String(), as)
		}
	}
}

// Uncached reports the watched names without a cached value (for evidence).
func (m *CacheModel) Uncached() int {
	n := 0
	for _, r := range m.res {
		if !r.hasCache {
			n++
		}
	}
	return n
}
