package xdsfake

import (
	"fmt"
	"math/rand"
	"sort"
	"sync"
	"time"
)

// GenOpts parametrises the random script generator shared by the C42/C43/C44
// monitors.  All randomness comes from the *rand.Rand handed in, so a case is a
// pure function of (seed, family, index).
type GenOpts struct {
	Names        []string // candidate resource names (top-level authority)
	NamesB       []string // candidate names of authority "b" (optional)
	HoldProb     float64  // probability that a new watcher parks its done callbacks
	MaxWatchers  int
	UnknownType  bool // may send a response of an unregistered type
	Batch        bool // may issue several operations without waiting for quiescence in between
	Burst        bool // may queue several responses at once
	Garbage      bool // may include undecodable resources
	AllGarbage   bool // may send responses in which EVERY resource is undecodable
	StreamFail   bool // may toggle "NewStream fails" on servers
	Simultaneous bool // may respond on two servers in the same step
	Weights      map[string]int
}

// Gen produces random script steps against a Sim.
type Gen struct {
	S    *Sim
	R    *rand.Rand
	O    GenOpts
	ver  int
	last map[string]string // server|type|name -> last version sent
	// Feat records the script features exercised by this case.
	Feat   map[string]int
	Notes  []string
	picked map[int]bool
}

// NewGen creates a generator.
func NewGen(s *Sim, r *rand.Rand, o GenOpts) *Gen {
	if o.MaxWatchers == 0 {
		o.MaxWatchers = 10
	}
	return &Gen{S: s, R: r, O: o, last: map[string]string{}, Feat: map[string]int{}}
}

func (g *Gen) weight(k string, def int) int {
	if v, ok := g.O.Weights[k]; ok {
		return v
	}
	return def
}

func (g *Gen) active() []*Watcher {
	var out []*Watcher
	for _, x := range g.S.Ws {
		if x.IsActive() {
			out = append(out, x)
		}
	}
	return out
}

func (g *Gen) watchedNames(typeURL string, server int) []string {
	set := map[string]bool{}
	for _, x := range g.active() {
		if x.TypeURL != typeURL {
			continue
		}
		if !hasServer(g.S.Cfg.ServersOf(AuthorityOf(x.Name)), server) {
			continue
		}
		set[x.Name] = true
	}
	return sortedKeys(set)
}

func (g *Gen) pickType() string {
	if g.R.Intn(3) == 0 {
		return TypeURLB
	}
	return TypeURLA
}

// OpWatch returns a step that registers a new watcher.
func (g *Gen) OpWatch() (string, func()) {
	typ := g.pickType()
	names := g.O.Names
	if len(g.O.NamesB) > 0 && g.R.Intn(3) == 0 {
		names = g.O.NamesB
	}
	name := names[g.R.Intn(len(names))]
	hold := g.R.Float64() < g.O.HoldProb
	x := g.S.NewWatcher(typ, name, hold)
	g.Feat["watch"]++
	return fmt.Sprintf("watch w%d %s/%s hold=%v", x.ID, TypeNames[typ], name, hold), func() { x.Start(g.S.C) }
}

// OpCancel returns a step that cancels a random active watcher (nil if none).
func (g *Gen) OpCancel() (string, func()) {
	act := g.active()
	if len(act) == 0 {
		return "", nil
	}
	x := act[g.R.Intn(len(act))]
	if g.picked == nil {
		g.picked = map[int]bool{}
	}
	if g.picked[x.ID] && g.R.Intn(4) > 0 { // a second cancel of the same watch is legal but rare
		return "", nil
	}
	g.picked[x.ID] = true
	g.Feat["cancel"]++
	return fmt.Sprintf("cancel w%d %s/%s", x.ID, TypeNames[x.TypeURL], x.Name), func() { x.Stop() }
}

// MakeResponse builds a response for typeURL on server srv.  kind: "valid",
// "identical", "subset", "invalid", "garbage", "all-garbage", "empty", "extra".
func (g *Gen) MakeResponse(srv int, typeURL, kind string) Resp {
	names := g.watchedNames(typeURL, srv)
	g.ver++
	rv := fmt.Sprintf("s%dv%d", srv, g.ver)
	rsp := Resp{TypeURL: typeURL, Version: rv}
	key := func(n string) string { return fmt.Sprintf("%d|%s|%s", srv, typeURL, n) }
	add := func(n, ver string, valid bool) {
		rsp.Resources = append(rsp.Resources, ResVal{Name: n, Version: ver, Valid: valid})
		g.last[key(n)] = ver
	}
	switch kind {
	case "empty":
	case "identical":
		for _, n := range names {
			v := g.last[key(n)]
			if v == "" {
				v = rv
			}
			add(n, v, true)
		}
	case "subset":
		drop := -1
		if len(names) > 0 {
			drop = g.R.Intn(len(names))
		}
		for i, n := range names {
			if i == drop {
				continue
			}
			v := rv
			if g.R.Intn(2) == 0 && g.last[key(n)] != "" {
				v = g.last[key(n)]
			}
			add(n, v, true)
		}
	case "invalid":
		bad := -1
		if len(names) > 0 {
			bad = g.R.Intn(len(names))
		}
		for i, n := range names {
			if i == bad {
				// sometimes repeat the very same invalid resource (same error text)
				v := rv
				if g.R.Intn(3) == 0 && g.last[key(n)+"|bad"] != "" {
					v = g.last[key(n)+"|bad"]
				}
				rsp.Resources = append(rsp.Resources, ResVal{Name: n, Version: v, Valid: false})
				g.last[key(n)+"|bad"] = v
				continue
			}
			v := rv
			if g.R.Intn(2) == 0 && g.last[key(n)] != "" {
				v = g.last[key(n)]
			}
			add(n, v, true)
		}
	case "garbage":
		for _, n := range names {
			add(n, rv, true)
		}
		rsp.Resources = append(rsp.Resources, ResVal{Garbage: true})
	case "all-garbage":
		for k := 0; k < 1+len(names)%2; k++ {
			rsp.Resources = append(rsp.Resources, ResVal{Garbage: true})
		}
	case "extra":
		for _, n := range names {
			add(n, rv, true)
		}
		add("not-watched", rv, true)
	default: // valid
		for _, n := range names {
			add(n, rv, true)
		}
	}
	if g.R.Intn(2) == 0 {
		g.R.Shuffle(len(rsp.Resources), func(i, j int) { rsp.Resources[i], rsp.Resources[j] = rsp.Resources[j], rsp.Resources[i] })
	}
	return rsp
}

func (g *Gen) pickKind() string {
	kinds := []string{"valid", "valid", "valid", "identical", "subset", "invalid", "invalid", "empty", "extra"}
	if g.O.Garbage {
		kinds = append(kinds, "garbage")
	}
	if g.O.AllGarbage {
		kinds = append(kinds, "all-garbage")
	}
	return kinds[g.R.Intn(len(kinds))]
}

// respondable lists (server, type) pairs for which the protocol assumption
// allows a response: a request of that type was captured on the live stream.
func (g *Gen) respondable() [][2]string {
	var out [][2]string
	for i := 0; i < g.S.W.NumServers(); i++ {
		id, req, _ := g.S.W.Server(i).LiveStream()
		if id == 0 {
			continue
		}
		for _, t := range []string{TypeURLA, TypeURLB} {
			if req[t] {
				out = append(out, [2]string{fmt.Sprint(i), t})
			}
		}
	}
	return out
}

// OpRespond returns a step sending one response (nil if no stream may be
// answered).
func (g *Gen) OpRespond() (string, func()) {
	rs := g.respondable()
	if len(rs) == 0 {
		return "", nil
	}
	p := rs[g.R.Intn(len(rs))]
	var srv int
	fmt.Sscan(p[0], &srv)
	kind := g.pickKind()
	rsp := g.MakeResponse(srv, p[1], kind)
	g.Feat["respond-"+kind]++
	return fmt.Sprintf("respond srv%d %s %s %s", srv, TypeNames[p[1]], kind, resString(rsp)), func() { g.S.W.Server(srv).Respond(rsp) }
}

func resString(r Resp) string {
	s := r.Version + "["
	for i, v := range r.Resources {
		if i > 0 {
			s += " "
		}
		switch {
		case v.Garbage:
			s += "GARBAGE"
		case v.Valid:
			s += v.Name + "@" + v.Version
		default:
			s += "!" + v.Name + "@" + v.Version
		}
	}
	return s + "]"
}

// OpBurst queues 2..3 responses in one step.
func (g *Gen) OpBurst() (string, func()) {
	rs := g.respondable()
	if len(rs) == 0 {
		return "", nil
	}
	n := 2 + g.R.Intn(2)
	var fns []func()
	note := "burst"
	for i := 0; i < n; i++ {
		p := rs[g.R.Intn(len(rs))]
		var srv int
		fmt.Sscan(p[0], &srv)
		kind := g.pickKind()
		rsp := g.MakeResponse(srv, p[1], kind)
		note += fmt.Sprintf(" | srv%d %s %s %s", srv, TypeNames[p[1]], kind, resString(rsp))
		fns = append(fns, func() { g.S.W.Server(srv).Respond(rsp) })
	}
	g.Feat["burst"]++
	return note, func() {
		for _, f := range fns {
			f()
		}
	}
}

// OpSimultaneous responds on two different servers in the same step (valid
// content), higher-priority server first or second at random.
func (g *Gen) OpSimultaneous() (string, func()) {
	rs := g.respondable()
	bySrv := map[string][][2]string{}
	for _, p := range rs {
		bySrv[p[0]] = append(bySrv[p[0]], p)
	}
	if len(bySrv) < 2 {
		return "", nil
	}
	srvs := sortedKeys(bySrv)
	g.R.Shuffle(len(srvs), func(i, j int) { srvs[i], srvs[j] = srvs[j], srvs[i] })
	srvs = srvs[:2]
	if g.R.Intn(3) > 0 { // mostly: higher priority first
		sort.Strings(srvs)
	}
	note := "simultaneous"
	var srvIdx []int
	var rsps []Resp
	for _, sk := range srvs {
		ps := bySrv[sk]
		p := ps[g.R.Intn(len(ps))]
		var srv int
		fmt.Sscan(p[0], &srv)
		rsp := g.MakeResponse(srv, p[1], "valid")
		note += fmt.Sprintf(" | srv%d %s %s", srv, TypeNames[p[1]], resString(rsp))
		srvIdx = append(srvIdx, srv)
		rsps = append(rsps, rsp)
	}
	g.Feat["simultaneous"]++
	// mostly: hold the second response back until the first is decoded
	ordered := g.R.Intn(4) > 0 && g.S.ParkedTotal() == 0
	if ordered {
		note += " (ordered)"
	}
	return note, func() {
		w := g.S.W
		if ordered && w.RespondOrdered(w.Server(srvIdx[0]), rsps[0], w.Server(srvIdx[1]), rsps[1]) {
			return
		}
		for i := range rsps {
			w.Server(srvIdx[i]).Respond(rsps[i])
		}
	}
}

// OpUnknownType sends a response of an unregistered type.
func (g *Gen) OpUnknownType() (string, func()) {
	for i := 0; i < g.S.W.NumServers(); i++ {
		id, _, _ := g.S.W.Server(i).LiveStream()
		if id == 0 {
			continue
		}
		srv := i
		g.ver++
		rsp := Resp{TypeURL: TypeURLUnknown, Version: fmt.Sprintf("u%d", g.ver)}
		g.Feat["respond-unknown-type"]++
		return fmt.Sprintf("respond srv%d unknown-type", srv), func() { g.S.W.Server(srv).Respond(rsp) }
	}
	return "", nil
}

// OpBreak breaks the live stream of a random server.
func (g *Gen) OpBreak() (string, func()) {
	var live []int
	for i := 0; i < g.S.W.NumServers(); i++ {
		if id, _, _ := g.S.W.Server(i).LiveStream(); id != 0 {
			live = append(live, i)
		}
	}
	if len(live) == 0 {
		return "", nil
	}
	srv := live[g.R.Intn(len(live))]
	g.Feat["break"]++
	return fmt.Sprintf("break srv%d", srv), func() { g.S.W.Server(srv).Break() }
}

// OpToggleStreamFail flips the "NewStream fails" mode of a random server.
func (g *Gen) OpToggleStreamFail() (string, func()) {
	srv := g.R.Intn(g.S.W.NumServers())
	v := !g.S.W.Server(srv).StreamFail()
	g.Feat["toggle-stream-fail"]++
	return fmt.Sprintf("stream-fail srv%d=%v", srv, v), func() { g.S.W.Server(srv).SetStreamFail(v) }
}

// OpSleep advances virtual time.
func (g *Gen) OpSleep() (string, func()) {
	ds := []time.Duration{200 * time.Millisecond, time.Second, 2 * time.Second, 5 * time.Second, 9 * time.Second, 14 * time.Second, 15 * time.Second, 16 * time.Second, 31 * time.Second, 150 * time.Second}
	d := ds[g.R.Intn(len(ds))]
	g.Feat["sleep"]++
	return fmt.Sprintf("sleep %v", d), func() {
		g.S.W.Add(Event{Kind: EvScript, Note: "sleep"})
		g.S.Sleep(d)
	}
}

// OpRelease releases one parked done, or all of them.
func (g *Gen) OpRelease() (string, func()) {
	var holders []*Watcher
	for _, x := range g.S.Ws {
		if len(x.Parked()) > 0 {
			holders = append(holders, x)
		}
	}
	if len(holders) == 0 {
		return "", nil
	}
	if g.R.Intn(2) == 0 {
		g.Feat["release-all"]++
		return "release all", func() { g.S.ReleaseAll() }
	}
	x := holders[g.R.Intn(len(holders))]
	p := x.Parked()
	cb := p[g.R.Intn(len(p))]
	g.Feat["release-one"]++
	return fmt.Sprintf("release w%d cb%d", x.ID, cb), func() { x.Release(cb) }
}

// OpBatch runs 2..4 API operations (and possibly a response) without waiting
// for quiescence in between, half of the time from concurrent goroutines.
func (g *Gen) OpBatch() (string, func()) {
	n := 2 + g.R.Intn(3)
	var fns []func()
	note := "batch"
	for i := 0; i < n; i++ {
		var nt string
		var f func()
		switch g.R.Intn(5) {
		case 0, 1:
			nt, f = g.OpWatch()
		case 2:
			nt, f = g.OpCancel()
		case 3:
			nt, f = g.OpRespond()
		default:
			nt, f = g.OpWatch()
		}
		if f == nil {
			continue
		}
		note += " | " + nt
		fns = append(fns, f)
	}
	if len(fns) == 0 {
		return "", nil
	}
	conc := g.R.Intn(2) == 0
	g.Feat["batch"]++
	if conc {
		note += " (concurrent)"
		return note, func() {
			var wg sync.WaitGroup
			for _, f := range fns {
				wg.Add(1)
				go func() { defer wg.Done(); f() }()
			}
			wg.Wait()
		}
	}
	return note, func() {
		for _, f := range fns {
			f()
		}
	}
}

// Next picks a random step.  It never returns a nil func.
func (g *Gen) Next() (string, func()) {
	type op struct {
		w int
		f func() (string, func())
	}
	ops := []op{
		{g.weight("watch", 20), g.OpWatch},
		{g.weight("cancel", 10), g.OpCancel},
		{g.weight("respond", 30), g.OpRespond},
		{g.weight("break", 6), g.OpBreak},
		{g.weight("sleep", 10), g.OpSleep},
		{g.weight("release", 12), g.OpRelease},
	}
	if g.O.Burst {
		ops = append(ops, op{g.weight("burst", 5), g.OpBurst})
	}
	if g.O.Batch {
		ops = append(ops, op{g.weight("batch", 8), g.OpBatch})
	}
	if g.O.StreamFail {
		ops = append(ops, op{g.weight("stream-fail", 4), g.OpToggleStreamFail})
	}
	if g.O.Simultaneous {
		ops = append(ops, op{g.weight("simultaneous", 8), g.OpSimultaneous})
	}
	if g.O.UnknownType {
		ops = append(ops, op{g.weight("unknown-type", 1), g.OpUnknownType})
	}
	if len(g.active()) >= g.O.MaxWatchers {
		ops[0].w = 0
	}
	total := 0
	for _, o := range ops {
		total += o.w
	}
	for tries := 0; tries < 50; tries++ {
		x := g.R.Intn(total)
		for _, o := range ops {
			if x < o.w {
				if note, f := o.f(); f != nil {
					g.Notes = append(g.Notes, note)
					return note, f
				}
				break
			}
			x -= o.w
		}
	}
	note, f := g.OpSleep()
	g.Notes = append(g.Notes, note)
	return note, f
}
