package xdsfake

import (
	"fmt"
	"sort"
	"strings"
)

// ProtoModel is the reference ADS protocol state of C42, written from the xDS
// protocol specification ("ACK/NACK and resource type instance version",
// "xDS resource subscriptions in SotW") and the property statement:
//
//   - per (channel = transport incarnation, type): the version of the last
//     accepted response (it survives stream restarts);
//   - per (stream, type): the nonce of the latest response whose ACK/NACK has been
//     sent on this stream ("" on a new stream), and the response read by the
//     client that still awaits its ACK/NACK;
//   - the first request of every stream, and only that one, carries the node;
//   - a response is read (Recv called) only after every watcher callback caused
//     by the previous response on that stream has called done;
//   - the names listed are the names currently watched.
//
// R2 (weakest reading that the shipped design satisfies): a request may carry
// the pre-response (version, nonce) pair while the ACK/NACK of the response
// just read has not been sent yet (the client sends subscription changes and
// ACKs from two goroutines); the names of a request sent *during* a step may be
// any subset of the names watched at some time during that step (the client
// queues snapshots), but at every quiescent point the last request of every
// type on the live stream of the active server lists exactly the watched names.
type ProtoModel struct {
	cfg        SimConfig
	winfo      map[int]WInfo
	registered map[string]bool

	// ExactNames enables the quiescent exact-names check (single authority).
	ExactNames bool

	tr      map[int]*pmTr
	st      map[int]*pmStream
	openTr  map[int]int // server -> open transport id
	exact   map[string]map[string]int
	wide    map[string]map[string]int
	stepU   map[string]map[string]bool
	undone  map[int]int // cb -> stream it is attributed to (0 = unattributed)
	newW    map[int]bool
	wst     map[int]int // watcher -> bit0: cancel called, bit1: cancel returned
	orphan  map[string]map[string]bool
	holds   int      // responses whose decoding the harness is holding back right now
	reads   []pmRead // responses read in the current step
	sleepy  bool
	failSeq bool // a stream failure happened in this step
	maxAct  int
	revert  bool
	closed  bool

	findings []Finding
	Stats    map[string]int
}

type pmTr struct {
	id, server int
	ver        map[string]string
	closed     bool
	last       *pmStream
}

type pmPend struct {
	nonce, version string
	accepted       bool
	k              int
}

type pmStream struct {
	id, server  int
	tr          *pmTr
	nonce       map[string]string
	rejected    map[string]bool
	pend        map[string]*pmPend
	requested   map[string]bool
	lastNames   map[string][]string
	sends       int
	dead        bool
	recvCalls   int
	lastReadK   int          // ordinal of the last Recv that returned a response
	lastRead    *Resp        // that response
	attr        map[int]bool // callbacks attributed to lastRead, done outstanding
	attrTotal   int
	unknownRd   bool // lastRead is of an unregistered type
	simulHigher bool // lastRead was read in the same step as a response from a higher-priority server
	// closeNack: an acceptable response was answered with a well-formed NACK.  That is
	// what the client does when the response arrives while it is closing the channel
	// ("xdsChannel is closed"); the statement does not say which responses are accepted,
	// so it is a violation only if the client does not close this transport before the
	// next quiescent point.
	closeNack string
}

type pmRead struct {
	stream *pmStream
	resp   *Resp
	k      int
}

// NewProtoModel creates the model.
func NewProtoModel(s *Sim) *ProtoModel {
	m := &ProtoModel{cfg: s.Cfg, winfo: s.WInfo, registered: map[string]bool{TypeURLA: true, TypeURLB: true},
		tr: map[int]*pmTr{}, st: map[int]*pmStream{}, openTr: map[int]int{},
		exact: map[string]map[string]int{}, wide: map[string]map[string]int{}, stepU: map[string]map[string]bool{},
		undone: map[int]int{}, newW: map[int]bool{}, wst: map[int]int{}, orphan: map[string]map[string]bool{}, Stats: map[string]int{}, maxAct: -1}
	m.ExactNames = s.Cfg.AuthB == nil
	return m
}

func (m *ProtoModel) fail(key, format string, a ...any) {
	m.findings = append(m.findings, Finding{Key: key, Msg: fmt.Sprintf(format, a...)})
}

// Take returns and clears the findings.
func (m *ProtoModel) Take() []Finding {
	f := m.findings
	m.findings = nil
	return f
}

func key2(auth, typ string) string { return auth + "|" + typ }

func inc(mm map[string]map[string]int, k, name string, d int) {
	if mm[k] == nil {
		mm[k] = map[string]int{}
	}
	mm[k][name] += d
	if mm[k][name] <= 0 {
		delete(mm[k], name)
	}
}

func sortedKeys[V any](m map[string]V) []string {
	out := make([]string, 0, len(m))
	for k := range m {
		out = append(out, k)
	}
	sort.Strings(out)
	return out
}

func hasServer(l []int, x int) bool {
	for _, v := range l {
		if v == x {
			return true
		}
	}
	return false
}

// upper returns the names that may legitimately be listed in a request of type
// typ to server srv during the current step.
func (m *ProtoModel) upper(srv int, typ string) map[string]bool {
	u := map[string]bool{}
	for _, a := range m.cfg.Authorities() {
		if !hasServer(m.cfg.ServersOf(a), srv) {
			continue
		}
		for n := range m.stepU[key2(a, typ)] {
			u[n] = true
		}
	}
	return u
}

// Feed consumes the events of one step (in log order) and judges them; the
// last event must be the quiescence marker.
func (m *ProtoModel) Feed(evs []Event) {
	for _, e := range evs {
		m.one(e)
	}
}

func (m *ProtoModel) one(e Event) {
	switch e.Kind {
	case EvStep:
		if e.Note == "close" {
			m.closed = true
		}
		m.stepU = map[string]map[string]bool{}
		for k, names := range m.wide {
			m.stepU[k] = map[string]bool{}
			for n := range names {
				m.stepU[k][n] = true
			}
		}
		m.newW = map[int]bool{}
		m.reads = nil
		m.sleepy = false
		m.failSeq = false
	case EvScript:
		switch {
		case e.Note == "sleep":
			m.sleepy = true
		case strings.HasPrefix(e.Note, "decode-hold "):
			m.holds++
		case strings.HasPrefix(e.Note, "decode-resume "):
			m.holds--
		}
	case EvWatchCall:
		wi := m.winfo[e.W]
		k := key2(wi.Auth, wi.TypeURL)
		inc(m.wide, k, wi.Name, 1)
		if m.stepU[k] == nil {
			m.stepU[k] = map[string]bool{}
		}
		m.stepU[k][wi.Name] = true
		m.newW[e.W] = true
	case EvWatchRet:
		wi := m.winfo[e.W]
		inc(m.exact, key2(wi.Auth, wi.TypeURL), wi.Name, 1)
	case EvCancelCall:
		// cancel is idempotent: only the first call counts
		if m.wst[e.W]&1 != 0 {
			return
		}
		m.wst[e.W] |= 1
		wi := m.winfo[e.W]
		inc(m.exact, key2(wi.Auth, wi.TypeURL), wi.Name, -1)
	case EvCancelRet:
		if m.wst[e.W]&2 != 0 {
			return
		}
		m.wst[e.W] |= 2
		wi := m.winfo[e.W]
		inc(m.wide, key2(wi.Auth, wi.TypeURL), wi.Name, -1)
	case EvBuild:
		t := &pmTr{id: e.Tr, server: e.Server, ver: map[string]string{}}
		m.tr[e.Tr] = t
		m.openTr[e.Server] = e.Tr
	case EvTrClose:
		if t := m.tr[e.Tr]; t != nil {
			t.closed = true
			for _, st := range m.st {
				if st.tr == t && st.closeNack != "" {
					st.closeNack = ""
					m.Stats["nacks_while_channel_closing_tolerated"]++
				}
			}
			if m.openTr[t.server] == e.Tr {
				delete(m.openTr, t.server)
			}
		}
	case EvNewStream:
		t := m.tr[e.Tr]
		s := &pmStream{id: e.Stream, server: e.Server, tr: t, nonce: map[string]string{}, rejected: map[string]bool{},
			pend: map[string]*pmPend{}, requested: map[string]bool{}, lastNames: map[string][]string{}, attr: map[int]bool{}}
		m.st[e.Stream] = s
		if t != nil {
			t.last = s
		}
		m.Stats["streams"]++
	case EvNewStreamFail:
		m.failSeq = true
	case EvRecvCall:
		s := m.st[e.Stream]
		if s == nil {
			return
		}
		s.recvCalls = e.K
		m.Stats["recv_calls"]++
		if len(s.attr) > 0 {
			var cbs []int
			for cb := range s.attr {
				cbs = append(cbs, cb)
			}
			sort.Ints(cbs)
			m.fail("recv-before-done", "stream %d (srv %d): Recv #%d was called although the done callbacks of watcher callbacks %v, caused by the previous response %s, have not been invoked", s.id, s.server, e.K, cbs, s.lastRead.Tag)
		}
		if s.lastRead != nil && s.attrTotal > 0 {
			m.Stats["recv_after_all_done"]++
		}
	case EvRecvRet:
		s := m.st[e.Stream]
		if s == nil {
			return
		}
		if e.Resp == nil {
			s.dead = true
			m.failSeq = true
			return
		}
		s.lastReadK = e.K
		s.lastRead = e.Resp
		s.attr = map[int]bool{}
		s.attrTotal = 0
		s.unknownRd = !m.registered[e.Resp.TypeURL]
		m.Stats["responses_read"]++
		if s.unknownRd {
			m.Stats["responses_unknown_type"]++
			return
		}
		m.reads = append(m.reads, pmRead{s, e.Resp, e.K})
		if !s.requested[e.Resp.TypeURL] {
			m.Stats["assumption_broken_response_before_request"]++
			return
		}
		acc := true
		for _, r := range e.Resp.Resources {
			if r.Garbage || !r.Valid {
				acc = false
			}
		}
		s.pend[e.Resp.TypeURL] = &pmPend{nonce: e.Resp.Nonce, version: e.Resp.Version, accepted: acc, k: e.K}
	case EvSend:
		m.send(e)
	case EvCallback:
		m.callback(e)
	case EvDone:
		if sid, ok := m.undone[e.CB]; ok {
			if s := m.st[sid]; s != nil {
				delete(s.attr, e.CB)
			}
			delete(m.undone, e.CB)
		}
	case EvQuiet:
		m.quiescent()
	}
}

func (m *ProtoModel) callback(e Event) {
	m.undone[e.CB] = 0
	wi := m.winfo[e.W]
	if m.newW[e.W] || m.sleepy {
		return // cache delivery to a new watcher / timer driven: its done does not gate the stream
	}
	var rd *pmRead
	switch {
	case e.CBKind == CBChanged && e.Val != nil:
		for i := range m.reads {
			if r := &m.reads[i]; r.resp.Tag == e.Val.Tag && r.resp.TypeURL == wi.TypeURL {
				rd = r
			}
		}
	case ClassifyErr(e.Err) == ErrNACK || ClassifyErr(e.Err) == ErrGone:
		if len(m.reads) == 1 && m.reads[0].resp.TypeURL == wi.TypeURL && !m.failSeq {
			rd = &m.reads[0]
		}
	}
	if rd == nil {
		return
	}
	s := rd.stream
	m.Stats["callbacks_attributed"]++
	if s.lastReadK == rd.k {
		s.attrTotal++
	}
	if s.recvCalls > rd.k {
		m.fail("recv-before-done", "stream %d (srv %d): Recv #%d was called before watcher %d had called done for callback %d (%s) caused by response %s (read by Recv #%d)", s.id, s.server, s.recvCalls, e.W, e.CB, e.CBKind, rd.resp.Tag, rd.k)
		return
	}
	s.attr[e.CB] = true
	m.undone[e.CB] = s.id
}

func (m *ProtoModel) send(e Event) {
	s := m.st[e.Stream]
	if s == nil || e.Req == nil {
		return
	}
	if e.Err != "" {
		m.Stats["sends_failed"]++
		return
	}
	r := e.Req
	s.sends++
	m.Stats["requests_judged"]++
	if r.Garbled {
		m.fail("garbled-request", "stream %d: bytes sent do not parse as DiscoveryRequest", s.id)
		return
	}
	short := TypeNames[r.TypeURL]
	// node identity
	if (s.sends == 1) != r.HasNode {
		if s.sends == 1 {
			m.fail("node-missing-on-first-request", "stream %d (srv %d): first request carries no node: %+v", s.id, s.server, *r)
		} else {
			m.fail("node-on-later-request", "stream %d (srv %d): request #%d carries the node again: %+v", s.id, s.server, s.sends, *r)
		}
	} else if r.HasNode && r.NodeID != m.cfg.NodeID {
		m.fail("node-identity-wrong", "stream %d: node id %q, configured %q", s.id, r.NodeID, m.cfg.NodeID)
	}
	if !m.registered[r.TypeURL] {
		m.fail("request-for-unregistered-type", "stream %d: request for type %q", s.id, r.TypeURL)
		return
	}
	first := !s.requested[r.TypeURL]
	s.requested[r.TypeURL] = true
	tr := s.tr
	curVer := ""
	if tr != nil {
		curVer = tr.ver[r.TypeURL]
	}
	p := s.pend[r.TypeURL]
	if p != nil && r.Nonce == p.nonce && r.Nonce != s.nonce[r.TypeURL] {
		// the ACK or NACK of the response just read
		if p.accepted && r.HasError && r.ErrMsg != "" && r.Version == curVer && s.closeNack == "" {
			// a well-formed NACK (previously accepted version, this nonce, error detail)
			// of a response the reference would accept: judged at tr-close / quiescence
			m.Stats["nacks_of_acceptable_response_deferred"]++
			s.closeNack = fmt.Sprintf("stream %d type %s: response (version %q nonce %q) has only valid resources but was NACKed with error_detail %q, and the client did not close the channel", s.id, short, p.version, p.nonce, r.ErrMsg)
			p.accepted = false
		}
		want := curVer
		if p.accepted {
			want = p.version
		}
		if p.accepted {
			m.Stats["acks"]++
			if r.Version != want {
				m.fail("ack-version-wrong", "stream %d type %s: ACK of response (version %q nonce %q) carries version %q", s.id, short, p.version, p.nonce, r.Version)
			}
			if r.HasError {
				m.fail("ack-with-error-detail", "stream %d type %s: ACK of nonce %q carries error_detail %q", s.id, short, p.nonce, r.ErrMsg)
			}
		} else {
			m.Stats["nacks"]++
			if r.Version != want {
				m.fail("nack-version-wrong", "stream %d type %s: NACK of response (version %q nonce %q) carries version %q, previously accepted version is %q", s.id, short, p.version, p.nonce, r.Version, want)
			}
			if !r.HasError || r.ErrMsg == "" {
				m.fail("nack-without-error-detail", "stream %d type %s: NACK of nonce %q carries no error_detail", s.id, short, p.nonce)
			}
		}
		if tr != nil {
			tr.ver[r.TypeURL] = want
		}
		s.nonce[r.TypeURL] = p.nonce
		s.rejected[r.TypeURL] = !p.accepted
		delete(s.pend, r.TypeURL)
	} else {
		if r.Nonce != s.nonce[r.TypeURL] {
			switch {
			case s.nonce[r.TypeURL] == "" && p == nil:
				m.fail("nonce-not-empty-on-new-stream", "stream %d (srv %d) type %s: request carries nonce %q but no response of this type has been received on this stream: %+v", s.id, s.server, short, r.Nonce, *r)
			default:
				m.fail("nonce-wrong", "stream %d (srv %d) type %s: request carries nonce %q, latest response nonce on this stream is %q: %+v", s.id, s.server, short, r.Nonce, s.nonce[r.TypeURL], *r)
			}
		}
		if r.Version != curVer {
			if first && s.nonce[r.TypeURL] == "" {
				m.fail("version-wrong-on-new-stream", "stream %d (srv %d) type %s: first request on the stream carries version %q, last accepted version on this channel is %q", s.id, s.server, short, r.Version, curVer)
			} else {
				m.fail("version-wrong", "stream %d (srv %d) type %s: request carries version %q, last accepted version is %q: %+v", s.id, s.server, short, r.Version, curVer, *r)
			}
		}
		if r.HasError && !s.rejected[r.TypeURL] {
			m.fail("error-detail-on-non-nack", "stream %d type %s: request with nonce %q carries error_detail %q but the latest response was not rejected", s.id, short, r.Nonce, r.ErrMsg)
		}
		if first && curVer != "" {
			m.Stats["restart_requests_with_version"]++
		}
	}
	// names: never a name nobody watched during this step
	u := m.upper(s.server, r.TypeURL)
	for _, n := range r.Names {
		if !u[n] {
			m.fail("request-lists-unwatched-name", "stream %d (srv %d) type %s: request lists %q which is not watched (names %v, watched during this step %v)", s.id, s.server, short, n, r.Names, sortedKeys(u))
			break
		}
	}
	for i := 1; i < len(r.Names); i++ {
		if r.Names[i] == r.Names[i-1] {
			m.Stats["duplicate_names_in_request"]++
		}
	}
	s.lastNames[r.TypeURL] = r.Names
	if len(r.Names) == 0 {
		m.Stats["unsubscribe_all_requests"]++
	}
}

// activeServer returns the highest-index server with an open transport, -1 if
// none (single-authority configurations only).
func (m *ProtoModel) activeServer() int {
	a := -1
	for s := range m.openTr {
		if s > a {
			a = s
		}
	}
	return a
}

func (m *ProtoModel) liveStream(server int) *pmStream {
	id, ok := m.openTr[server]
	if !ok {
		return nil
	}
	t := m.tr[id]
	if t == nil || t.last == nil || t.last.dead {
		return nil
	}
	return t.last
}

func (m *ProtoModel) quiescent() {
	if m.closed {
		return
	}
	if m.holds > 0 {
		m.Stats["quiescent_checks_skipped_decode_held"]++
		return
	}
	m.Stats["quiescent_checks"]++
	{
		var ids []int
		for id, st := range m.st {
			if st.closeNack != "" {
				ids = append(ids, id)
			}
		}
		sort.Ints(ids)
		for _, id := range ids {
			m.fail("ack-with-error-detail", "%s", m.st[id].closeNack)
			m.st[id].closeNack = ""
		}
	}
	for _, rd := range m.reads {
		if rd.stream.lastReadK != rd.k {
			continue
		}
		rd.stream.simulHigher = false
		for _, o := range m.reads {
			if o.stream.server < rd.stream.server {
				rd.stream.simulHigher = true
			}
		}
	}
	servers := make([]int, 0, len(m.openTr))
	for s := range m.openTr {
		servers = append(servers, s)
	}
	sort.Ints(servers)
	for _, srv := range servers {
		s := m.liveStream(srv)
		if s == nil {
			continue
		}
		// every response of a requested type that was read has been ACKed or NACKed
		for typ, p := range s.pend {
			m.fail("response-not-acked", "stream %d (srv %d) type %s: response (version %q nonce %q) was read but neither ACKed nor NACKed at quiescence", s.id, s.server, TypeNames[typ], p.version, p.nonce)
		}
		// flow control liveness: nobody holds a done, yet the next Recv was never issued
		if s.lastRead != nil && s.recvCalls == s.lastReadK && len(m.undone) == 0 {
			switch {
			case s.unknownRd:
				m.fail("recv-wedged-after-unknown-type-response", "stream %d (srv %d): after the response %s of unregistered type %q was read, Recv was never called again although no watcher holds a done callback; the stream no longer reads responses nor notices stream errors", s.id, s.server, s.lastRead.Tag, s.lastRead.TypeURL)
			case m.cfg.AuthB != nil && s.simulHigher:
				m.fail("recv-wedged-after-update-ignored-by-reverting-authority", "stream %d (srv %d, channel shared by two authorities): response %s was read in the same instant as a response from a higher-priority server that made one authority revert to that server; Recv was never called again on this stream although no watcher holds a done callback, so the other authority no longer receives updates", s.id, s.server, s.lastRead.Tag)
			default:
				m.fail("recv-wedged", "stream %d (srv %d): after response %s was read and every watcher called done, Recv was never called again", s.id, s.server, s.lastRead.Tag)
			}
		}
		if s.lastRead != nil && s.recvCalls == s.lastReadK && len(m.undone) > 0 {
			m.Stats["quiescent_recv_blocked_by_held_done"]++
		}
	}
	if !m.ExactNames {
		return
	}
	// no channel of the authority - active or not, old or re-created - may still
	// list a name nobody watches ("after all watchers are removed the resource
	// is unsubscribed"): the last request of each type on every live stream is
	// a subset of the watched names
	for _, srv := range servers {
		s := m.liveStream(srv)
		if s == nil {
			continue
		}
		for _, typ := range []string{TypeURLA, TypeURLB} {
			got, sent := s.lastNames[typ]
			if !sent {
				continue
			}
			m.Stats["quiescent_surplus_checks"]++
			var surplus []string
			for _, n := range got {
				if m.exact[key2("", typ)][n] == 0 {
					surplus = append(surplus, n)
				}
			}
			if len(surplus) > 0 {
				m.fail("unwatched-name-still-subscribed-at-quiescence", "stream %d (srv %d) type %s: at quiescence the last request lists %v, of which %v are not watched by anybody (watched: %v)", s.id, s.server, TypeNames[typ], got, surplus, sortedKeys(m.exact[key2("", typ)]))
			}
		}
	}
	act := m.activeServer()
	if act < 0 {
		m.maxAct, m.revert = -1, false
		return
	}
	if act < m.maxAct {
		m.revert = true
	}
	m.maxAct = act
	s := m.liveStream(act)
	if s == nil {
		return
	}
	for _, typ := range []string{TypeURLA, TypeURLB} {
		must := sortedKeys(m.exact[key2("", typ)])
		// names already reported as orphaned by a revert stay optional while
		// they are watched, so that the rest of the history can still be judged
		for n := range m.orphan[typ] {
			if m.exact[key2("", typ)][n] == 0 {
				delete(m.orphan[typ], n)
			}
		}
		got, sent := s.lastNames[typ]
		if !sent && len(must) == 0 {
			continue
		}
		m.Stats["quiescent_names_checks"]++
		missing, extra := diff(must, got)
		var miss2 []string
		for _, n := range missing {
			if !m.orphan[typ][n] {
				miss2 = append(miss2, n)
			}
		}
		if len(miss2) == 0 && len(extra) == 0 {
			continue
		}
		key := "names-mismatch-at-quiescence"
		if len(extra) == 0 && m.revert {
			key = "watched-resource-not-subscribed-on-active-server-after-revert"
			if m.orphan[typ] == nil {
				m.orphan[typ] = map[string]bool{}
			}
			for _, n := range miss2 {
				m.orphan[typ][n] = true
			}
		}
		m.fail(key, "stream %d (active srv %d) type %s: at quiescence the last request lists %v (sent=%v) but the watched names are %v (missing %v, extra %v)", s.id, s.server, TypeNames[typ], got, sent, must, miss2, extra)
	}
}

func diff(a, b []string) (onlyA, onlyB []string) {
	ma := map[string]bool{}
	mb := map[string]bool{}
	for _, x := range a {
		ma[x] = true
	}
	for _, x := range b {
		mb[x] = true
	}
	for _, x := range a {
		if !mb[x] {
			onlyA = append(onlyA, x)
		}
	}
	for _, x := range b {
		if !ma[x] {
			onlyB = append(onlyB, x)
		}
	}
	return
}
