package xdsfake

import (
	"fmt"
	"strings"

	"google.golang.org/grpc/internal/xds/clients/xdsclient"
)

// Type URLs of the two fake resource types.  Type A behaves like LDS/CDS (every
// SotW response must contain all resources: absence == deletion), type B like
// RDS/EDS (absence means nothing).
const (
	TypeURLA       = "type.googleapis.com/verif.xdsfake.TypeA"
	TypeURLB       = "type.googleapis.com/verif.xdsfake.TypeB"
	TypeURLUnknown = "type.googleapis.com/verif.xdsfake.NotRegistered"
)

// TypeNames maps the type URLs to short names.
var TypeNames = map[string]string{TypeURLA: "A", TypeURLB: "B", TypeURLUnknown: "U"}

// InvalidMarker is contained in every error produced by the fake decoder for a
// named-but-invalid resource.
const InvalidMarker = "xdsfake: invalid resource"

// GarbageMarker is contained in every error produced by the fake decoder for an
// undecodable resource.
const GarbageMarker = "xdsfake: undecodable resource"

// InvalidErrText is the decoder's error text for an invalid resource; it is a
// function of (name, version) only, so re-sending the same invalid resource
// reproduces the same text.
func InvalidErrText(name, ver string) string {
	return fmt.Sprintf("%s name=%s ver=%s", InvalidMarker, name, ver)
}

// EncodeResource serialises a fake resource: name|version|valid-bit|tag.
func EncodeResource(v ResVal) []byte {
	if v.Garbage {
		return []byte("GARBAGE|" + v.Tag)
	}
	bit := "0"
	if v.Valid {
		bit = "1"
	}
	return []byte("R|" + v.Name + "|" + v.Version + "|" + bit + "|" + v.Tag)
}

// DecodeResource is the inverse of EncodeResource.
func DecodeResource(b []byte) (ResVal, bool) {
	p := strings.Split(string(b), "|")
	if len(p) != 5 || p[0] != "R" {
		return ResVal{Garbage: true}, false
	}
	return ResVal{Name: p[1], Version: p[2], Valid: p[3] == "1", Tag: p[4]}, true
}

// Data is the ResourceData of the fake types.
type Data struct {
	Val ResVal
}

// Equal compares name and version only (the tag identifies the carrying
// response and is not part of the resource's identity).
func (d *Data) Equal(o xdsclient.ResourceData) bool {
	od, ok := o.(*Data)
	if !ok || od == nil || d == nil {
		return false
	}
	return d.Val.Name == od.Val.Name && d.Val.Version == od.Val.Version
}

// Bytes implements ResourceData.
func (d *Data) Bytes() []byte {
	v := d.Val
	v.Tag = ""
	return EncodeResource(v)
}

type decoder struct {
	short string
	w     *World
}

func (dc decoder) Decode(r *xdsclient.AnyProto, _ xdsclient.DecodeOptions) (*xdsclient.DecodeResult, error) {
	a := r.ToAny()
	v, ok := DecodeResource(a.GetValue())
	if dc.w != nil && ok {
		dc.w.decodeEnter(v.Tag)
		defer dc.w.decodeExit(v.Tag)
	}
	if !ok {
		// like a proto that fails to unmarshal: no name is known
		return nil, fmt.Errorf("%s %q", GarbageMarker, string(a.GetValue()))
	}
	v.Type = dc.short
	if !v.Valid {
		return &xdsclient.DecodeResult{Name: v.Name, Resource: &Data{Val: v}}, fmt.Errorf("%s", InvalidErrText(v.Name, v.Version))
	}
	return &xdsclient.DecodeResult{Name: v.Name, Resource: &Data{Val: v}}, nil
}

// ResourceTypes returns the ResourceTypes map for the client's Config.
func ResourceTypes(w *World) map[string]xdsclient.ResourceType {
	return map[string]xdsclient.ResourceType{
		TypeURLA: {TypeURL: TypeURLA, TypeName: "FakeA", AllResourcesRequiredInSotW: true, Decoder: decoder{"A", w}},
		TypeURLB: {TypeURL: TypeURLB, TypeName: "FakeB", AllResourcesRequiredInSotW: false, Decoder: decoder{"B", w}},
	}
}
