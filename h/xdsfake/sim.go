package xdsfake

import (
	"fmt"
	"strings"
	"testing/synctest"
	"time"

	"google.golang.org/grpc/internal/xds/clients"
	"google.golang.org/grpc/internal/xds/clients/xdsclient"
)

// WatchExpiry is the xDS "resource does not exist" timeout (the client's
// default; the harness does not override it).
const WatchExpiry = 15 * time.Second

// SimConfig describes the client configuration of one case.
type SimConfig struct {
	Servers        int    `json:"servers"`          // top-level servers srv-0 … srv-(n-1), in priority order
	IgnoreDeletion []bool `json:"ignore_deletion"`  // per server: ignore_resource_deletion feature
	AuthB          []int  `json:"auth_b,omitempty"` // if set: authority "b" served by these servers (shared channels)
	NodeID         string `json:"node_id"`
}

// WInfo describes a watcher for the models.
type WInfo struct {
	ID      int
	TypeURL string
	Name    string
	Auth    string // "" = top-level authority
}

// Finding is one oracle verdict.
type Finding struct {
	Key string
	Msg string
}

// Sim couples a World, the real client and the step discipline.
type Sim struct {
	W       *World
	C       *xdsclient.XDSClient
	Cfg     SimConfig
	WInfo   map[int]WInfo
	Ws      []*Watcher
	StepNo  int
	closed  bool
	stepIdx int
}

// AuthorityOf returns the authority a resource name belongs to.
func AuthorityOf(name string) string {
	if strings.HasPrefix(name, "xdstp://") {
		rest := strings.TrimPrefix(name, "xdstp://")
		if i := strings.Index(rest, "/"); i >= 0 {
			return rest[:i]
		}
	}
	return ""
}

// ServersOf returns the server indexes (priority order) of an authority.
func (c SimConfig) ServersOf(auth string) []int {
	if auth == "b" && c.AuthB != nil {
		return c.AuthB
	}
	out := make([]int, c.Servers)
	for i := range out {
		out[i] = i
	}
	return out
}

// Authorities lists the authorities of the configuration.
func (c SimConfig) Authorities() []string {
	if c.AuthB != nil {
		return []string{"", "b"}
	}
	return []string{""}
}

func (c SimConfig) serverConfig(i int) xdsclient.ServerConfig {
	sc := xdsclient.ServerConfig{ServerIdentifier: clients.ServerIdentifier{ServerURI: fmt.Sprintf("srv-%d", i)}}
	if i < len(c.IgnoreDeletion) && c.IgnoreDeletion[i] {
		sc.ServerFeature = xdsclient.ServerFeatureIgnoreResourceDeletion
	}
	return sc
}

// NewSim creates the world and the real client.  Must be called inside a
// synctest bubble.
func NewSim(cfg SimConfig) (*Sim, error) {
	if cfg.NodeID == "" {
		cfg.NodeID = "verif-node"
	}
	w := NewWorld(cfg.Servers, TypeNames)
	cc := xdsclient.Config{
		Node:             clients.Node{ID: cfg.NodeID, UserAgentName: "verif"},
		TransportBuilder: w.Builder(),
		ResourceTypes:    ResourceTypes(w),
	}
	for i := 0; i < cfg.Servers; i++ {
		cc.Servers = append(cc.Servers, cfg.serverConfig(i))
	}
	if cfg.AuthB != nil {
		var l []xdsclient.ServerConfig
		for _, i := range cfg.AuthB {
			l = append(l, cfg.serverConfig(i))
		}
		cc.Authorities = map[string]xdsclient.Authority{"b": {XDSServers: l}}
	}
	c, err := xdsclient.New(cc)
	if err != nil {
		return nil, err
	}
	return &Sim{W: w, C: c, Cfg: cfg, WInfo: map[int]WInfo{}}, nil
}

// NewWatcher creates (but does not start) a watcher.
func (s *Sim) NewWatcher(typeURL, name string, hold bool) *Watcher {
	x := s.W.NewWatcher(typeURL, name, hold)
	s.WInfo[x.ID] = WInfo{ID: x.ID, TypeURL: typeURL, Name: name, Auth: AuthorityOf(name)}
	s.Ws = append(s.Ws, x)
	return x
}

// Step runs f as one script step and then waits for exact quiescence.  It
// returns the events of the step (from the step marker to the quiescence
// marker, inclusive).
func (s *Sim) Step(note string, f func()) []Event {
	s.StepNo++
	start := s.W.Add(Event{Kind: EvStep, K: s.StepNo, Note: note})
	if f != nil {
		f()
	}
	synctest.Wait()
	s.W.Add(Event{Kind: EvQuiet, K: s.StepNo})
	return s.W.Since(start)
}

// Sleep advances virtual time by d (+1ns, so that no timer deadline computed
// from an earlier step instant coincides with the quiescent instant).
func (s *Sim) Sleep(d time.Duration) {
	time.Sleep(d + time.Nanosecond)
}

// ParkedTotal returns the number of parked done callbacks in the world.
func (s *Sim) ParkedTotal() int {
	n := 0
	for _, x := range s.Ws {
		n += len(x.Parked())
	}
	return n
}

// ReleaseAll releases every parked done.
func (s *Sim) ReleaseAll() int {
	n := 0
	for _, x := range s.Ws {
		n += x.Release(0)
	}
	return n
}

// Close releases all parked dones and closes the client.
func (s *Sim) Close() {
	if s.closed {
		return
	}
	s.closed = true
	for _, x := range s.Ws {
		x.SetHold(false)
	}
	s.ReleaseAll()
	s.W.Add(Event{Kind: EvStep, Note: "close"})
	s.C.Close()
	synctest.Wait()
}
