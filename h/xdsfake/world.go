// Package xdsfake is engine E6 of /verif: an in-memory, scripted
// implementation of the generic xDS client's transport interfaces
// (clients.TransportBuilder / Transport / Stream), a trivial ResourceType /
// Decoder, recording watchers and the reference protocol / cache / fallback
// models used by the C42, C43 and C44 monitors.
//
// The generic client (internal/xds/clients/xdsclient) runs unmodified on top of
// it.  Everything that crosses the boundary between the client and the fake is
// appended to ONE ordered event log (World.Log) together with the (virtual)
// time; the oracles only ever judge that log.  Calls are stamped before the
// boundary is crossed, returns after (R3).
//
// All state of the fake is guarded by World.mu; nothing in here reads client
// state.  The package is meant to be used inside testing/synctest bubbles: all
// blocking is on channels created inside the bubble, so synctest.Wait() is an
// exact quiescence detector.
package xdsfake

import (
	"context"
	"errors"
	"fmt"
	"sort"
	"strings"
	"sync"
	"time"

	v3discoverypb "github.com/envoyproxy/go-control-plane/envoy/service/discovery/v3"
	"google.golang.org/grpc/internal/xds/clients"
	"google.golang.org/protobuf/proto"
	"google.golang.org/protobuf/types/known/anypb"
)

// Kind names an event of the boundary log.
type Kind string

// Event kinds.
const (
	EvBuild         Kind = "build"          // TransportBuilder.Build returned a transport (Server, Tr)
	EvBuildFail     Kind = "build-fail"     // TransportBuilder.Build returned an error (Server)
	EvTrClose       Kind = "tr-close"       // Transport.Close called (Server, Tr)
	EvNewStream     Kind = "new-stream"     // Transport.NewStream returned a stream (Server, Tr, Stream)
	EvNewStreamFail Kind = "new-stream-err" // Transport.NewStream returned an error (Server, Tr)
	EvSend          Kind = "send"           // Stream.Send called (Req; Err if it failed)
	EvRecvCall      Kind = "recv-call"      // Stream.Recv called (K = ordinal on the stream)
	EvRecvRet       Kind = "recv-ret"       // Stream.Recv returned (Resp or Err)
	EvCallback      Kind = "callback"       // a watcher method was invoked (W, CB, CBKind, Val / Err)
	EvDone          Kind = "done"           // the done func of callback CB of watcher W was called
	EvWatchCall     Kind = "watch-call"     // harness is about to call WatchResource (W)
	EvWatchRet      Kind = "watch-ret"      // WatchResource returned (W)
	EvCancelCall    Kind = "cancel-call"    // harness is about to call the cancel func (W)
	EvCancelRet     Kind = "cancel-ret"     // cancel func returned (W)
	EvStep          Kind = "step"           // script step boundary (Note)
	EvQuiet         Kind = "quiescent"      // synctest.Wait() returned
	EvScript        Kind = "script"         // a scripted server action (Note): respond / break / mode change
	EvDecode        Kind = "decode"         // Decoder.Decode was called (Server, Val)
)

// ResVal is the decoded content of one fake resource.
type ResVal struct {
	Type    string `json:"type,omitempty"` // short type name ("A","B")
	Name    string `json:"name"`
	Version string `json:"ver"`
	Valid   bool   `json:"valid"`
	Garbage bool   `json:"garbage,omitempty"` // undecodable (no name can be extracted)
	Tag     string `json:"tag,omitempty"`     // response tag: "<server>/<stream>/<ordinal>" (not part of equality)
}

// Req is a captured DiscoveryRequest.
type Req struct {
	TypeURL  string   `json:"type_url"`
	Version  string   `json:"version"`
	Nonce    string   `json:"nonce"`
	Names    []string `json:"names"` // sorted copy
	HasNode  bool     `json:"has_node"`
	NodeID   string   `json:"node_id,omitempty"`
	HasError bool     `json:"has_error"`
	ErrCode  int32    `json:"err_code,omitempty"`
	ErrMsg   string   `json:"err_msg,omitempty"`
	Garbled  bool     `json:"garbled,omitempty"` // bytes did not parse as DiscoveryRequest
}

// Resp is a scripted DiscoveryResponse.
type Resp struct {
	TypeURL   string   `json:"type_url"`
	Version   string   `json:"version"`
	Nonce     string   `json:"nonce"`
	Resources []ResVal `json:"resources"`
	Tag       string   `json:"tag"`
}

// Event is one entry of the boundary log.
type Event struct {
	Seq    int           `json:"seq"`
	At     time.Duration `json:"at_ns"` // virtual time since World creation
	Kind   Kind          `json:"kind"`
	Server int           `json:"server,omitempty"`
	Tr     int           `json:"tr,omitempty"`
	Stream int           `json:"stream,omitempty"`
	K      int           `json:"k,omitempty"`
	Req    *Req          `json:"req,omitempty"`
	Resp   *Resp         `json:"resp,omitempty"`
	Err    string        `json:"err,omitempty"`
	W      int           `json:"w,omitempty"`
	CB     int           `json:"cb,omitempty"`
	CBKind string        `json:"cb_kind,omitempty"` // "changed" | "resource-error" | "ambient-error"
	Val    *ResVal       `json:"val,omitempty"`
	Note   string        `json:"note,omitempty"`
}

func (e Event) String() string {
	var sb strings.Builder
	fmt.Fprintf(&sb, "#%d @%v %s", e.Seq, e.At, e.Kind)
	switch e.Kind {
	case EvBuild, EvBuildFail, EvTrClose, EvNewStreamFail:
		fmt.Fprintf(&sb, " srv=%d tr=%d %s", e.Server, e.Tr, e.Err)
	case EvNewStream:
		fmt.Fprintf(&sb, " srv=%d tr=%d stream=%d", e.Server, e.Tr, e.Stream)
	case EvSend:
		fmt.Fprintf(&sb, " srv=%d stream=%d %+v err=%q", e.Server, e.Stream, *e.Req, e.Err)
	case EvRecvCall:
		fmt.Fprintf(&sb, " srv=%d stream=%d k=%d", e.Server, e.Stream, e.K)
	case EvRecvRet:
		if e.Resp != nil {
			fmt.Fprintf(&sb, " srv=%d stream=%d k=%d %+v", e.Server, e.Stream, e.K, *e.Resp)
		} else {
			fmt.Fprintf(&sb, " srv=%d stream=%d k=%d err=%q", e.Server, e.Stream, e.K, e.Err)
		}
	case EvCallback:
		if e.Val != nil {
			fmt.Fprintf(&sb, " w=%d cb=%d %s %+v", e.W, e.CB, e.CBKind, *e.Val)
		} else {
			fmt.Fprintf(&sb, " w=%d cb=%d %s err=%q", e.W, e.CB, e.CBKind, e.Err)
		}
	case EvDone:
		fmt.Fprintf(&sb, " w=%d cb=%d", e.W, e.CB)
	case EvWatchCall, EvWatchRet, EvCancelCall, EvCancelRet:
		fmt.Fprintf(&sb, " w=%d %s", e.W, e.Note)
	default:
		fmt.Fprintf(&sb, " %s", e.Note)
	}
	return sb.String()
}

// World is one scripted universe: a set of fake management servers, the
// transport builder handed to the client, and the boundary log.
type World struct {
	mu      sync.Mutex
	t0      time.Time
	log     []Event
	servers []*Server
	nextTr  int
	nextStr int
	nextW   int
	nextCB  int
	nextRsp int
	types   map[string]string // typeURL -> short name

	// decode gates (see RespondOrdered): response tag -> channel
	waitBefore map[string]chan struct{}
	signalOn   map[string]chan struct{}
}

// Server is one fake management server (identified by its URI
// "srv-<index>").
type Server struct {
	w     *World
	Index int
	URI   string

	// scripted behaviour, guarded by w.mu
	buildFail  bool
	streamFail bool
	trs        []*Transport
}

// Transport is a fake clients.Transport.
type Transport struct {
	srv     *Server
	ID      int
	closed  bool
	streams []*Stream
}

type item struct {
	data []byte
	resp *Resp
	err  error
}

// Stream is a fake clients.Stream.
type Stream struct {
	tr  *Transport
	ID  int
	ctx context.Context
	in  chan item

	// guarded by World.mu
	dead      bool            // an error was returned by Recv (or Send refused)
	breakSent bool            // the script queued an error
	recvK     int             // number of Recv calls so far
	requested map[string]bool // typeURLs for which a request was captured on this stream
	sends     int
	queued    int // responses queued, not yet returned by Recv
}

// NewWorld creates a world with n servers.  typeNames maps type URLs to the
// short names used in logs.
func NewWorld(n int, typeNames map[string]string) *World {
	w := &World{t0: time.Now(), types: typeNames, waitBefore: map[string]chan struct{}{}, signalOn: map[string]chan struct{}{}}
	for i := 0; i < n; i++ {
		w.servers = append(w.servers, &Server{w: w, Index: i, URI: fmt.Sprintf("srv-%d", i)})
	}
	return w
}

// Now returns the virtual time since the world was created.
func (w *World) Now() time.Duration { return time.Since(w.t0) }

// add appends an event; caller holds w.mu.
func (w *World) addLocked(e Event) int {
	e.Seq = len(w.log)
	e.At = time.Since(w.t0)
	w.log = append(w.log, e)
	return e.Seq
}

// Add appends a harness-side event (step markers, API call stamps).
func (w *World) Add(e Event) int {
	w.mu.Lock()
	defer w.mu.Unlock()
	return w.addLocked(e)
}

// Len returns the current length of the log.
func (w *World) Len() int {
	w.mu.Lock()
	defer w.mu.Unlock()
	return len(w.log)
}

// Since returns a copy of the log from index i on.
func (w *World) Since(i int) []Event {
	w.mu.Lock()
	defer w.mu.Unlock()
	if i > len(w.log) {
		i = len(w.log)
	}
	out := make([]Event, len(w.log)-i)
	copy(out, w.log[i:])
	return out
}

// Tail returns the last n events formatted, for violation details.
func (w *World) Tail(n int) []string {
	w.mu.Lock()
	defer w.mu.Unlock()
	i := len(w.log) - n
	if i < 0 {
		i = 0
	}
	var out []string
	for _, e := range w.log[i:] {
		out = append(out, e.String())
	}
	return out
}

// Server returns server i.
func (w *World) Server(i int) *Server { return w.servers[i] }

// NumServers returns the number of servers.
func (w *World) NumServers() int { return len(w.servers) }

// ShortType maps a type URL to its short name.
func (w *World) ShortType(url string) string {
	if s, ok := w.types[url]; ok {
		return s
	}
	return "?" + url
}

// ---- TransportBuilder ----

// Builder returns the clients.TransportBuilder of this world.
func (w *World) Builder() clients.TransportBuilder { return builder{w} }

type builder struct{ w *World }

func (b builder) Build(si clients.ServerIdentifier) (clients.Transport, error) {
	w := b.w
	w.mu.Lock()
	defer w.mu.Unlock()
	var srv *Server
	for _, s := range w.servers {
		if s.URI == si.ServerURI {
			srv = s
		}
	}
	if srv == nil {
		w.addLocked(Event{Kind: EvBuildFail, Server: -1, Err: "unknown server " + si.ServerURI})
		return nil, fmt.Errorf("xdsfake: unknown server %q", si.ServerURI)
	}
	if srv.buildFail {
		w.addLocked(Event{Kind: EvBuildFail, Server: srv.Index, Err: "scripted build failure"})
		return nil, errors.New("xdsfake: scripted build failure")
	}
	w.nextTr++
	tr := &Transport{srv: srv, ID: w.nextTr}
	srv.trs = append(srv.trs, tr)
	w.addLocked(Event{Kind: EvBuild, Server: srv.Index, Tr: tr.ID})
	return tr, nil
}

// NewStream implements clients.Transport.
func (t *Transport) NewStream(ctx context.Context, method string) (clients.Stream, error) {
	w := t.srv.w
	w.mu.Lock()
	defer w.mu.Unlock()
	if t.closed {
		w.addLocked(Event{Kind: EvNewStreamFail, Server: t.srv.Index, Tr: t.ID, Err: "transport closed"})
		return nil, errors.New("xdsfake: transport closed")
	}
	if t.srv.streamFail {
		w.addLocked(Event{Kind: EvNewStreamFail, Server: t.srv.Index, Tr: t.ID, Err: "scripted stream failure"})
		return nil, errors.New("xdsfake: scripted stream creation failure")
	}
	w.nextStr++
	s := &Stream{tr: t, ID: w.nextStr, ctx: ctx, in: make(chan item, 4096), requested: map[string]bool{}}
	t.streams = append(t.streams, s)
	w.addLocked(Event{Kind: EvNewStream, Server: t.srv.Index, Tr: t.ID, Stream: s.ID, Note: method})
	return s, nil
}

// Close implements clients.Transport.
func (t *Transport) Close() {
	w := t.srv.w
	w.mu.Lock()
	defer w.mu.Unlock()
	t.closed = true
	w.addLocked(Event{Kind: EvTrClose, Server: t.srv.Index, Tr: t.ID})
}

func parseReq(b []byte) *Req {
	var dr v3discoverypb.DiscoveryRequest
	if err := proto.Unmarshal(b, &dr); err != nil {
		return &Req{Garbled: true}
	}
	r := &Req{TypeURL: dr.GetTypeUrl(), Version: dr.GetVersionInfo(), Nonce: dr.GetResponseNonce()}
	r.Names = append([]string{}, dr.GetResourceNames()...)
	sort.Strings(r.Names)
	if dr.Node != nil {
		r.HasNode = true
		r.NodeID = dr.Node.GetId()
	}
	if dr.ErrorDetail != nil {
		r.HasError = true
		r.ErrCode = dr.ErrorDetail.GetCode()
		r.ErrMsg = dr.ErrorDetail.GetMessage()
	}
	return r
}

// Send implements clients.Stream.
func (s *Stream) Send(b []byte) error {
	w := s.tr.srv.w
	req := parseReq(b)
	w.mu.Lock()
	defer w.mu.Unlock()
	if s.dead || s.ctx.Err() != nil {
		w.addLocked(Event{Kind: EvSend, Server: s.tr.srv.Index, Tr: s.tr.ID, Stream: s.ID, Req: req, Err: "stream is dead"})
		return errors.New("xdsfake: send on a dead stream")
	}
	s.sends++
	s.requested[req.TypeURL] = true
	w.addLocked(Event{Kind: EvSend, Server: s.tr.srv.Index, Tr: s.tr.ID, Stream: s.ID, Req: req})
	return nil
}

// Recv implements clients.Stream.
func (s *Stream) Recv() ([]byte, error) {
	w := s.tr.srv.w
	w.mu.Lock()
	s.recvK++
	k := s.recvK
	w.addLocked(Event{Kind: EvRecvCall, Server: s.tr.srv.Index, Tr: s.tr.ID, Stream: s.ID, K: k})
	w.mu.Unlock()

	var it item
	select {
	case it = <-s.in:
	case <-s.ctx.Done():
		it = item{err: s.ctx.Err()}
	}

	w.mu.Lock()
	defer w.mu.Unlock()
	if it.err != nil {
		s.dead = true
		w.addLocked(Event{Kind: EvRecvRet, Server: s.tr.srv.Index, Tr: s.tr.ID, Stream: s.ID, K: k, Err: it.err.Error()})
		return nil, it.err
	}
	s.queued--
	w.addLocked(Event{Kind: EvRecvRet, Server: s.tr.srv.Index, Tr: s.tr.ID, Stream: s.ID, K: k, Resp: it.resp})
	return it.data, nil
}

// ---- script side ----

// SetBuildFail makes TransportBuilder.Build fail for this server.
func (s *Server) SetBuildFail(v bool) {
	s.w.mu.Lock()
	defer s.w.mu.Unlock()
	s.buildFail = v
	s.w.addLocked(Event{Kind: EvScript, Server: s.Index, Note: fmt.Sprintf("build-fail=%v", v)})
}

// SetStreamFail makes Transport.NewStream fail for this server.
func (s *Server) SetStreamFail(v bool) {
	s.w.mu.Lock()
	defer s.w.mu.Unlock()
	s.streamFail = v
	s.w.addLocked(Event{Kind: EvScript, Server: s.Index, Note: fmt.Sprintf("stream-fail=%v", v)})
}

// StreamFail reports the scripted stream-creation mode.
func (s *Server) StreamFail() bool {
	s.w.mu.Lock()
	defer s.w.mu.Unlock()
	return s.streamFail
}

// liveLocked returns the server's live stream: the latest stream of the latest
// open transport that is not dead and has no queued break.
func (s *Server) liveLocked() *Stream {
	for i := len(s.trs) - 1; i >= 0; i-- {
		tr := s.trs[i]
		if tr.closed {
			continue
		}
		if n := len(tr.streams); n > 0 {
			st := tr.streams[n-1]
			if !st.dead && !st.breakSent && st.ctx.Err() == nil {
				return st
			}
		}
		return nil
	}
	return nil
}

// LiveStream returns the id of the live stream of this server (0 if none) and
// the set of type URLs already requested on it.
func (s *Server) LiveStream() (id int, requested map[string]bool, queued int) {
	s.w.mu.Lock()
	defer s.w.mu.Unlock()
	st := s.liveLocked()
	if st == nil {
		return 0, nil, 0
	}
	r := map[string]bool{}
	for k := range st.requested {
		r[k] = true
	}
	return st.ID, r, st.queued
}

// HasOpenTransport reports whether a transport to this server is open.
func (s *Server) HasOpenTransport() bool {
	s.w.mu.Lock()
	defer s.w.mu.Unlock()
	for _, tr := range s.trs {
		if !tr.closed {
			return true
		}
	}
	return false
}

// Respond queues a DiscoveryResponse on the live stream.  version and nonce
// are taken from r; every resource is tagged with the response tag.  It returns
// false if the server has no live stream.
func (s *Server) Respond(r Resp) (Resp, bool) {
	w := s.w
	w.mu.Lock()
	defer w.mu.Unlock()
	return s.respondLocked(r)
}

func (s *Server) respondLocked(r Resp) (Resp, bool) {
	w := s.w
	st := s.liveLocked()
	if st == nil || !st.mayAnswerLocked(r.TypeURL) {
		return r, false
	}
	w.nextRsp++
	r.Tag = fmt.Sprintf("s%d/st%d/r%d", s.Index, st.ID, w.nextRsp)
	if r.Nonce == "" {
		r.Nonce = fmt.Sprintf("n%d", w.nextRsp)
	}
	dr := &v3discoverypb.DiscoveryResponse{TypeUrl: r.TypeURL, VersionInfo: r.Version, Nonce: r.Nonce}
	res := make([]ResVal, len(r.Resources))
	for i, rv := range r.Resources {
		rv.Tag = r.Tag
		rv.Type = w.ShortType(r.TypeURL)
		res[i] = rv
		dr.Resources = append(dr.Resources, &anypb.Any{TypeUrl: r.TypeURL, Value: EncodeResource(rv)})
	}
	r.Resources = res
	b, err := proto.Marshal(dr)
	if err != nil {
		panic(err)
	}
	rc := r
	st.queued++
	w.addLocked(Event{Kind: EvScript, Server: s.Index, Stream: st.ID, Resp: &rc, Note: "respond"})
	st.in <- item{data: b, resp: &rc}
	return r, true
}

// mayAnswerLocked enforces the protocol assumption of the monitors: a server
// never sends a response of a type before it received a request of that type
// on that stream (for a type the client does not know: before any request).
func (st *Stream) mayAnswerLocked(typeURL string) bool {
	if _, known := st.tr.srv.w.types[typeURL]; known && typeURL != TypeURLUnknown {
		return st.requested[typeURL]
	}
	return st.sends > 0
}

// RespondOrdered queues ra on server a and rb on server b in the same instant
// and widens, from outside the client, the window in which both are in flight:
// the (harness-owned) decoder holds back the decoding of rb until the first
// resource of ra has been decoded, so the client hands ra to its authorities
// first while rb follows within microseconds.  The hold is bounded by one
// second of virtual time, so it can never wedge the client.  ra must contain at
// least one resource.
func (w *World) RespondOrdered(a *Server, ra Resp, b *Server, rb Resp) bool {
	w.mu.Lock()
	defer w.mu.Unlock()
	sa, sb := a.liveLocked(), b.liveLocked()
	if sa == nil || sb == nil || len(ra.Resources) == 0 || !sa.mayAnswerLocked(ra.TypeURL) || !sb.mayAnswerLocked(rb.TypeURL) {
		return false
	}
	qa, _ := a.respondLocked(ra)
	qb, _ := b.respondLocked(rb)
	ch := make(chan struct{})
	w.signalOn[qa.Tag] = ch
	w.waitBefore[qb.Tag] = ch
	return true
}

// decodeEnter / decodeExit are called by the fake decoder around every
// resource it decodes.
func (w *World) decodeEnter(tag string) {
	w.mu.Lock()
	ch := w.waitBefore[tag]
	delete(w.waitBefore, tag)
	w.mu.Unlock()
	if ch != nil {
		w.Add(Event{Kind: EvScript, Note: "decode-hold " + tag})
		select {
		case <-ch:
		case <-time.After(time.Second):
		}
		w.Add(Event{Kind: EvScript, Note: "decode-resume " + tag})
	}
}

func (w *World) decodeExit(tag string) {
	w.mu.Lock()
	ch := w.signalOn[tag]
	delete(w.signalOn, tag)
	w.mu.Unlock()
	if ch != nil {
		close(ch)
	}
}

// Break queues a stream error on the live stream (delivered after any
// responses queued before it).  It returns false if there is no live stream.
func (s *Server) Break() bool {
	w := s.w
	w.mu.Lock()
	defer w.mu.Unlock()
	st := s.liveLocked()
	if st == nil {
		return false
	}
	st.breakSent = true
	w.addLocked(Event{Kind: EvScript, Server: s.Index, Stream: st.ID, Note: "break"})
	st.in <- item{err: errors.New("xdsfake: scripted stream break")}
	return true
}
