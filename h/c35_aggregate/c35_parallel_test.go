// C35, parallel picks: k picks issued CONCURRENTLY on one endpointsharding
// picker with n READY children (plus non-READY ones) must still give every READY
// child floor(k/n) or ceil(k/n) picks and the others none — the statement's
// bound is about pick counts, not about who issued the picks.  Needs goroutines
// that really run in parallel (multi-core runner).
package c35

import (
	"fmt"
	"runtime"
	"sync"

	"google.golang.org/grpc/balancer"
	"google.golang.org/grpc/balancer/endpointsharding"
	"google.golang.org/grpc/connectivity"
	"google.golang.org/grpc/resolver"
	"google.golang.org/grpc/verif/lbfake"
	"google.golang.org/grpc/verif/vlib"
)

func runParallelPicks(r *vlib.Run, rounds, goroutines, picksEach int) {
	const fam = "par"
	prev := runtime.GOMAXPROCS(0)
	if prev < 4 {
		runtime.GOMAXPROCS(4)
		defer runtime.GOMAXPROCS(prev)
	}
	r.Max("par_gomaxprocs", int64(runtime.GOMAXPROCS(0)))
	r.Max("par_numcpu", int64(runtime.NumCPU()))
	ns := []int{2, 3, 5, 7}
	for i := 0; i < rounds; i++ {
		if !r.Want(fam, i) {
			continue
		}
		rng := r.Rand(fam, i)
		n := ns[i%len(ns)]
		extra := rng.Intn(4) // non-READY children
		cc := lbfake.New("c35:///par")
		var mu sync.Mutex
		var pickers []*lbfake.Picker
		var ready []bool
		cc.SetHook(func(e lbfake.Event) {
			if e.Kind != lbfake.ChildUpdateClientConnState {
				return
			}
			mu.Lock()
			id := len(pickers)
			st := connectivity.Ready
			if id >= n {
				st = vlib.Pick(rng, connectivity.Connecting, connectivity.Idle, connectivity.TransientFailure)
			}
			p := &lbfake.Picker{ID: id}
			pickers = append(pickers, p)
			ready = append(ready, id < n)
			mu.Unlock()
			e.Child.CC.UpdateState(balancer.State{ConnectivityState: st, Picker: p})
		})
		b := endpointsharding.NewBalancer(cc, cc.BuildOptions(), lbfake.StubBuilder(stubName).Build, endpointsharding.Options{DisableAutoReconnect: true})
		var eps []resolver.Endpoint
		for j := 0; j < n+extra; j++ {
			eps = append(eps, resolver.Endpoint{Addresses: []resolver.Address{{Addr: fmt.Sprintf("10.9.%d.%d:80", i%250, j+1)}}})
		}
		if err := b.UpdateClientConnState(balancer.ClientConnState{ResolverState: resolver.State{Endpoints: eps}}); err != nil {
			r.Inconclusive("par round %d: update failed: %v", i, err)
			return
		}
		st, _ := cc.LastState()
		if st.ConnectivityState != connectivity.Ready {
			r.Violation("aggregate-precedence", fam, i, nil, "%d READY children but aggregate %v", n, st.ConnectivityState)
			return
		}
		p := st.Picker
		start := make(chan struct{})
		var wg sync.WaitGroup
		for g := 0; g < goroutines; g++ {
			wg.Add(1)
			go func() {
				defer wg.Done()
				<-start // barrier: all goroutines start picking together
				for k := 0; k < picksEach; k++ {
					p.Pick(balancer.PickInfo{})
				}
			}()
		}
		close(start)
		wg.Wait()
		k := int64(goroutines) * int64(picksEach)
		lo, hi := k/int64(n), (k+int64(n)-1)/int64(n)
		var counts []int64
		worst := int64(0)
		badChild := -1
		for id, pk := range pickers {
			c := pk.Picks()
			counts = append(counts, c)
			if !ready[id] {
				if c != 0 {
					r.Violation("delegated-to-child-not-in-aggregate-state", fam, i, counts, "non-READY child %d received %d of %d concurrent picks", id, c, k)
				}
				continue
			}
			if d := max(lo-c, c-hi); d > 0 && d > worst {
				worst, badChild = d, id
			}
		}
		if badChild >= 0 {
			r.Violation("round-robin-unfair-under-concurrent-picks", fam, i, map[string]any{"n": n, "k": k, "counts": counts, "goroutines": goroutines},
				"%d goroutines x %d picks on one picker with n=%d READY children: child %d was chosen %d times, allowed %d..%d (counts %v)", goroutines, picksEach, n, badChild, counts[badChild], lo, hi, counts)
		}
		r.Eval(1)
		r.Count("par_rounds", 1)
		r.Count("par_concurrent_picks", k)
		r.Nontrivial(fmt.Sprintf("par/n%d/x%d/g%d", n, extra, goroutines))
		cc.SetHook(nil)
		b.Close()
		cc.Release()
	}
}
