// C35: aggregated connectivity state and endpoint round robin.
//
// Four monitors over the REAL code, each with a reference written from the
// property statement (READY > CONNECTING > IDLE > TRANSIENT_FAILURE, TF when
// there are no children; the endpoint-sharding picker delegates only to
// children in the aggregate state, each floor(k/n) or ceil(k/n) times in any k
// consecutive picks):
//
//	eval  balancer.ConnectivityStateEvaluator under random slot transitions
//	shard balancer/endpointsharding over lbfake stub children (synctest bubble):
//	      resolver updates adding/removing/duplicating endpoints, child reports
//	      (also inline while the parent inhibits updates, and from removed
//	      children), ResolverError, ExitIdle; judged at quiescence after each event
//	rr    the real round_robin (endpointsharding + real pick_first children) over
//	      lbfake subchannels, single-address endpoints, health listener
//	wrap  (thorough only) 2^32+2n picks on the real picker: F7 of DESIGN.md §5
//
// R2 note: the quick tier never lets a window span the uint32 wrap of the
// picker's counter; the thorough tier looks at exactly that.
package c35

import (
	"errors"
	"fmt"
	"math/rand"
	"runtime"
	"sort"
	"strings"
	"sync"
	"testing"
	"testing/synctest"

	"google.golang.org/grpc/balancer"
	"google.golang.org/grpc/balancer/endpointsharding"
	"google.golang.org/grpc/balancer/roundrobin"
	"google.golang.org/grpc/connectivity"
	"google.golang.org/grpc/resolver"
	"google.golang.org/grpc/verif/lbfake"
	"google.golang.org/grpc/verif/vlib"
)

const stubName = "c35_child"

func init() { lbfake.RegisterStub(stubName) }

// ---------------------------------------------------------------- reference

// precedence is the statement's rule over a multiset of child states.
func precedence(states []connectivity.State) connectivity.State {
	has := map[connectivity.State]bool{}
	for _, s := range states {
		has[s] = true
	}
	switch {
	case has[connectivity.Ready]:
		return connectivity.Ready
	case has[connectivity.Connecting]:
		return connectivity.Connecting
	case has[connectivity.Idle]:
		return connectivity.Idle
	default:
		return connectivity.TransientFailure
	}
}

// fairWindows checks the floor/ceil bound on EVERY window of the pick
// sequence seq over the n children in ids.  It returns a description of the
// first offending window, or "".
func fairWindows(seq []int, ids []int) string {
	n := len(ids)
	if n == 0 {
		return ""
	}
	for start := 0; start < len(seq); start++ {
		cnt := map[int]int{}
		for end := start; end < len(seq); end++ {
			cnt[seq[end]]++
			k := end - start + 1
			lo, hi := k/n, (k+n-1)/n
			for _, id := range ids {
				if c := cnt[id]; c < lo || c > hi {
					return fmt.Sprintf("window picks[%d..%d] (k=%d, n=%d): child %d chosen %d times, allowed %d..%d; sequence %v", start, end, k, n, id, c, lo, hi, seq)
				}
			}
		}
	}
	return ""
}

var fourStates = []connectivity.State{connectivity.Ready, connectivity.Connecting, connectivity.Idle, connectivity.TransientFailure}

func randState(rng *rand.Rand) connectivity.State {
	switch x := rng.Intn(10); {
	case x < 3:
		return connectivity.Ready
	case x < 6:
		return connectivity.Connecting
	case x < 8:
		return connectivity.TransientFailure
	default:
		return connectivity.Idle
	}
}

// ---------------------------------------------------------------- family eval

func runEvalCase(r *vlib.Run, i int) {
	const fam = "eval"
	rng := r.Rand(fam, i)
	var cse balancer.ConnectivityStateEvaluator
	m := rng.Intn(13)
	if i < 3 {
		m = []int{0, 1, 5}[i]
	}
	slots := make([]connectivity.State, m)
	for j := range slots {
		slots[j] = connectivity.Shutdown // absent
	}
	present := func() []connectivity.State {
		var out []connectivity.State
		for _, s := range slots {
			if s != connectivity.Shutdown {
				out = append(out, s)
			}
		}
		return out
	}
	if got := cse.CurrentState(); got != connectivity.TransientFailure {
		r.Violation("evaluator-empty-not-tf", fam, i, nil, "fresh evaluator reports %v, want TRANSIENT_FAILURE", got)
	}
	steps := 5 + rng.Intn(60)
	seen := map[connectivity.State]bool{}
	changes := 0
	prevAgg := connectivity.TransientFailure
	var trace []string
	for s := 0; s < steps && m > 0; s++ {
		j := rng.Intn(m)
		old := slots[j]
		var nw connectivity.State
		switch x := rng.Intn(12); {
		case x == 0:
			nw = connectivity.Shutdown
		case x == 1:
			nw = old // same-state "transition"
		default:
			nw = fourStates[rng.Intn(4)]
		}
		slots[j] = nw
		got := cse.RecordTransition(old, nw)
		want := precedence(present())
		trace = append(trace, fmt.Sprintf("slot%d %v->%v", j, old, nw))
		if got != want || cse.CurrentState() != want {
			if len(trace) > 40 {
				trace = trace[len(trace)-40:]
			}
			r.Violation("evaluator-precedence", fam, i, trace, "after %s the evaluator returns %v / CurrentState %v, multiset %v demands %v", trace[len(trace)-1], got, cse.CurrentState(), present(), want)
			return
		}
		seen[want] = true
		if want != prevAgg {
			changes++
			prevAgg = want
		}
		r.Count("eval_transitions", 1)
	}
	r.Eval(1)
	if changes >= 2 && m >= 2 {
		r.Nontrivial(fmt.Sprintf("eval/m%d/agg%d/ch%d", bucket(m), len(seen), bucket(changes)))
	}
}

func bucket(n int) int {
	switch {
	case n == 0:
		return 0
	case n < 3:
		return 1
	case n < 6:
		return 2
	default:
		return 3
	}
}

// ---------------------------------------------------------------- family shard

type tagErr struct {
	child int // lbfake child ID
	seq   int
}

func (e tagErr) Error() string { return fmt.Sprintf("picker of child %d #%d", e.child, e.seq) }

type skid struct {
	real   *lbfake.Child
	key    string // endpoint key, bound at the first UpdateClientConnState
	seq    int
	last   connectivity.State
	has    bool
	closed bool // model: endpoint removed / balancer closed
	// behaviour
	inlineOnUpdate bool
	inlineOnError  bool
	inlineOnExit   bool
}

type shard struct {
	r   *vlib.Run
	fam string
	idx int
	rng *rand.Rand
	cc  *lbfake.ClientConn
	b   balancer.Balancer
	bad bool
	ops []string

	mu     sync.Mutex
	kids   map[*lbfake.Child]*skid
	byKey  map[string]*skid // live child per endpoint key (model)
	order  []*skid
	noAuto bool

	aggSeen                                                     map[connectivity.State]bool
	aggChanges, staleReports, inlineReports, picksDone, maxKids int
	fairChecks, dupEndpoints, removed, emptyUpdates, qchecks    int
	lastAgg                                                     connectivity.State
}

func epKey(e resolver.Endpoint) string {
	var a []string
	for _, x := range e.Addresses {
		a = append(a, x.Addr)
	}
	sort.Strings(a)
	return strings.Join(a, ",")
}

func (h *shard) opf(format string, args ...any) { h.ops = append(h.ops, fmt.Sprintf(format, args...)) }

func (h *shard) violate(key, format string, args ...any) {
	h.bad = true
	ev := h.cc.Events()
	if len(ev) > 50 {
		ev = ev[len(ev)-50:]
	}
	var evs []string
	for _, e := range ev {
		evs = append(evs, e.String())
	}
	h.r.Violation(key, h.fam, h.idx, map[string]any{"ops": h.ops, "last_events": evs}, format, args...)
}

// report makes child k publish state s (model first).
func (h *shard) report(k *skid, s connectivity.State, where string) {
	h.mu.Lock()
	k.seq++
	k.last, k.has = s, true
	st := balancer.State{ConnectivityState: s, Picker: &lbfake.Picker{Tag: fmt.Sprintf("c%d#%d", k.real.ID, k.seq), ID: k.real.ID, Err: tagErr{k.real.ID, k.seq}}}
	if k.closed {
		h.staleReports++
	}
	if where != "spontaneous" {
		h.inlineReports++
	}
	h.opf("%s: child %d (%s) reports %v", where, k.real.ID, k.key, s)
	h.mu.Unlock()
	k.real.CC.UpdateState(st)
}

func (h *shard) hook(e lbfake.Event) {
	switch e.Kind {
	case lbfake.ChildBuild:
		h.mu.Lock()
		k := &skid{real: e.Child, inlineOnUpdate: h.rng.Intn(3) == 0, inlineOnError: h.rng.Intn(2) == 0, inlineOnExit: h.rng.Intn(2) == 0}
		h.kids[e.Child] = k
		h.order = append(h.order, k)
		h.mu.Unlock()
	case lbfake.ChildUpdateClientConnState:
		h.mu.Lock()
		k := h.kids[e.Child]
		first := k.key == ""
		if first {
			if len(e.CCS.ResolverState.Endpoints) != 1 {
				h.mu.Unlock()
				h.violate("child-got-many-endpoints", "a child received %d endpoints", len(e.CCS.ResolverState.Endpoints))
				return
			}
			k.key = epKey(e.CCS.ResolverState.Endpoints[0])
		}
		inl := first || k.inlineOnUpdate
		var s connectivity.State
		if first {
			s = vlib.Pick(h.rng, connectivity.Connecting, connectivity.Connecting, connectivity.Idle, connectivity.TransientFailure, connectivity.Ready)
		} else {
			s = randState(h.rng)
		}
		h.mu.Unlock()
		if inl { // real children always publish an initial state
			h.report(k, s, "inline in UpdateClientConnState")
		}
	case lbfake.ChildResolverError:
		h.mu.Lock()
		k := h.kids[e.Child]
		h.mu.Unlock()
		if k.inlineOnError {
			h.report(k, connectivity.TransientFailure, "inline in ResolverError")
		}
	case lbfake.ChildExitIdle:
		// may run on the auto-reconnect goroutine of endpointsharding
		h.mu.Lock()
		k := h.kids[e.Child]
		idle := k.has && k.last == connectivity.Idle
		h.mu.Unlock()
		if k.inlineOnExit && idle {
			h.report(k, connectivity.Connecting, "inline in ExitIdle")
		}
	case lbfake.ChildClose:
		h.mu.Lock()
		k := h.kids[e.Child]
		h.mu.Unlock()
		_ = k
	}
}

func (h *shard) opUpdate(eps []resolver.Endpoint) {
	// model: the set of endpoint keys; children of vanished keys are closed
	want := map[string]bool{}
	for _, e := range eps {
		if want[epKey(e)] {
			h.dupEndpoints++
		}
		want[epKey(e)] = true
	}
	h.mu.Lock()
	for key, k := range h.byKey {
		if !want[key] {
			k.closed = true
			delete(h.byKey, key)
			h.removed++
		}
	}
	var keys []string
	for _, e := range eps {
		keys = append(keys, epKey(e))
	}
	h.opf("resolver update endpoints=%v", keys)
	h.mu.Unlock()
	if len(eps) == 0 {
		h.emptyUpdates++
	}
	err := h.b.UpdateClientConnState(balancer.ClientConnState{ResolverState: resolver.State{Endpoints: eps}})
	if len(want) == 0 && err == nil {
		h.violate("empty-update-accepted", "an update without endpoints returned no error")
	}
	// bind: every wanted key must now have exactly one open child
	h.mu.Lock()
	for _, k := range h.order {
		if !k.closed && k.key != "" && want[k.key] && h.byKey[k.key] == nil {
			h.byKey[k.key] = k
		}
	}
	missing := ""
	for key := range want {
		if h.byKey[key] == nil {
			missing = key
		}
	}
	if len(h.byKey) > h.maxKids {
		h.maxKids = len(h.byKey)
	}
	h.mu.Unlock()
	if missing != "" {
		h.violate("endpoint-without-child", "endpoint %s has no child policy after the update", missing)
	}
}

func (h *shard) liveKids() []*skid {
	h.mu.Lock()
	defer h.mu.Unlock()
	var out []*skid
	for _, k := range h.byKey {
		out = append(out, k)
	}
	sort.Slice(out, func(i, j int) bool { return out[i].real.ID < out[j].real.ID })
	return out
}

// judge: aggregate, delegation set, fairness — at a quiescent point.
func (h *shard) judge(requirePublication bool) {
	if h.bad {
		return
	}
	h.qchecks++
	kids := h.liveKids()
	var sts []connectivity.State
	for _, k := range kids {
		if !k.has {
			h.violate("harness-child-without-state", "child %d never published (harness error)", k.real.ID)
			return
		}
		sts = append(sts, k.last)
	}
	want := precedence(sts)
	st, n := h.cc.LastState()
	if n == 0 {
		if requirePublication {
			h.violate("aggregate-missing", "nothing was published although %d children exist", len(kids))
		}
		return
	}
	if st.ConnectivityState != want {
		h.violate("aggregate-precedence", "published aggregate %v, children %v demand %v", st.ConnectivityState, sts, want)
		return
	}
	h.aggSeen[want] = true
	if want != h.lastAgg {
		h.aggChanges++
		h.lastAgg = want
	}
	// documented side channel: the child states carried by the picker
	if cs := endpointsharding.ChildStatesFromPicker(st.Picker); cs != nil || len(kids) > 0 {
		got := map[string]connectivity.State{}
		for _, c := range cs {
			got[epKey(c.Endpoint)] = c.State.ConnectivityState
		}
		if len(got) != len(kids) {
			h.violate("picker-child-states-wrong", "picker carries %d child states, %d children are configured", len(got), len(kids))
			return
		}
		for _, k := range kids {
			if s, ok := got[k.key]; !ok || s != k.last {
				h.violate("picker-child-states-wrong", "picker says endpoint %s is %v (present=%v), child last reported %v", k.key, s, ok, k.last)
				return
			}
		}
	}
	// delegation
	var ids []int
	latest := map[int]int{}
	for _, k := range kids {
		if k.last == want {
			ids = append(ids, k.real.ID)
			latest[k.real.ID] = k.seq
		}
	}
	if len(kids) == 0 {
		if _, err := st.Picker.Pick(balancer.PickInfo{}); err == nil {
			h.violate("pick-succeeds-without-children", "no children, but Pick succeeded")
		}
		return
	}
	K := 3*len(ids) + 2
	var seq []int
	for p := 0; p < K; p++ {
		_, err := st.Picker.Pick(balancer.PickInfo{})
		var te tagErr
		if !errors.As(err, &te) {
			h.violate("delegated-to-unknown-picker", "Pick returned %v, not the result of any child's picker", err)
			return
		}
		ls, ok := latest[te.child]
		if !ok {
			h.violate("delegated-to-child-not-in-aggregate-state", "aggregate %v: pick %d was delegated to child %d which is not in that state (children in it: %v)", want, p, te.child, ids)
			return
		}
		if ls != te.seq {
			h.violate("delegated-to-stale-picker", "pick %d used picker #%d of child %d, its latest is #%d", p, te.seq, te.child, ls)
			return
		}
		seq = append(seq, te.child)
	}
	h.picksDone += K
	if len(ids) >= 2 {
		h.fairChecks++
	}
	if bad := fairWindows(seq, ids); bad != "" {
		h.violate("round-robin-unfair", "%s", bad)
	}
}

var shardPool = func() []resolver.Endpoint {
	var p []resolver.Endpoint
	for i := 0; i < 9; i++ {
		e := resolver.Endpoint{Addresses: []resolver.Address{{Addr: fmt.Sprintf("10.5.0.%d:80", i+1)}}}
		if i%3 == 2 {
			e.Addresses = append(e.Addresses, resolver.Address{Addr: fmt.Sprintf("[fd05::%x]:80", i+1)})
		}
		p = append(p, e)
	}
	return p
}()

func (h *shard) genEndpoints() []resolver.Endpoint {
	rng := h.rng
	n := rng.Intn(8)
	if rng.Intn(15) == 0 {
		n = 0
	}
	var out []resolver.Endpoint
	for j := 0; j < n; j++ {
		e := shardPool[rng.Intn(len(shardPool))]
		if len(e.Addresses) == 2 && rng.Intn(2) == 0 { // same endpoint, addresses in the other order
			e = resolver.Endpoint{Addresses: []resolver.Address{e.Addresses[1], e.Addresses[0]}}
		}
		out = append(out, e)
	}
	return out
}

func runShardCase(t *testing.T, r *vlib.Run, i int) {
	const fam = "shard"
	rng := r.Rand(fam, i)
	synctest.Test(t, func(t *testing.T) {
		h := &shard{r: r, fam: fam, idx: i, rng: rng, kids: map[*lbfake.Child]*skid{}, byKey: map[string]*skid{}, aggSeen: map[connectivity.State]bool{}, lastAgg: connectivity.Shutdown}
		h.cc = lbfake.New("c35:///shard")
		h.cc.SetHook(h.hook)
		h.noAuto = rng.Intn(2) == 0
		h.b = endpointsharding.NewBalancer(h.cc, h.cc.BuildOptions(), lbfake.StubBuilder(stubName).Build, endpointsharding.Options{DisableAutoReconnect: h.noAuto})
		steps := 8 + rng.Intn(40)
		if i%4 == 0 {
			h.opUpdate(h.genEndpoints())
			synctest.Wait()
			h.judge(true)
		}
		for s := 0; s < steps && !h.bad; s++ {
			switch x := rng.Intn(100); {
			case x < 15:
				h.opUpdate(h.genEndpoints())
				synctest.Wait()
				h.judge(true)
			case x < 75:
				// a child reports: mostly a configured one, sometimes one whose endpoint was removed
				h.mu.Lock()
				var live, dead []*skid
				for _, k := range h.order {
					if k.key == "" {
						continue
					}
					if k.closed {
						dead = append(dead, k)
					} else {
						live = append(live, k)
					}
				}
				h.mu.Unlock()
				var k *skid
				switch {
				case len(dead) > 0 && (len(live) == 0 || rng.Intn(6) == 0):
					k = dead[rng.Intn(len(dead))]
				case len(live) > 0:
					k = live[rng.Intn(len(live))]
				}
				if k != nil {
					h.report(k, randState(rng), "spontaneous")
					synctest.Wait()
					h.judge(true)
				}
			case x < 85:
				h.opf("ResolverError")
				h.b.ResolverError(errors.New("c35 resolver error"))
				synctest.Wait()
				h.judge(true)
			default:
				h.opf("ExitIdle")
				h.b.ExitIdle()
				synctest.Wait()
				h.judge(true)
			}
		}
		h.mu.Lock()
		for _, k := range h.byKey {
			k.closed = true
		}
		h.byKey = map[string]*skid{}
		h.mu.Unlock()
		h.b.Close()
		synctest.Wait()
		h.cc.SetHook(nil)
		r.Eval(1)
		r.Count("shard_events", int64(len(h.ops)))
		r.Count("shard_quiescent_checks", int64(h.qchecks))
		r.Count("shard_children_built", int64(len(h.order)))
		r.Count("shard_aggregate_changes", int64(h.aggChanges))
		r.Count("shard_reports_from_removed_children", int64(h.staleReports))
		r.Count("shard_inline_reports", int64(h.inlineReports))
		r.Count("shard_picks", int64(h.picksDone))
		r.Count("shard_fairness_checks_n_ge_2", int64(h.fairChecks))
		r.Count("shard_duplicate_endpoints_in_update", int64(h.dupEndpoints))
		r.Count("shard_endpoints_removed", int64(h.removed))
		r.Count("shard_empty_updates", int64(h.emptyUpdates))
		r.Max("shard_max_children", int64(h.maxKids))
		if h.maxKids >= 2 && h.aggChanges >= 2 && h.fairChecks > 0 {
			r.Nontrivial(fmt.Sprintf("shard/k%d/agg%d/ch%d/st%d/rm%d/auto%v", bucket(h.maxKids), len(h.aggSeen), bucket(h.aggChanges), bucket(h.staleReports), bucket(h.removed), !h.noAuto))
		}
		if i < 2 {
			r.Sample(map[string]any{"family": fam, "case": i, "ops": h.ops})
		}
		h.cc.Release()
	})
}

// ---------------------------------------------------------------- family rr (real round_robin, real pick_first children)

type rrEP struct {
	addr  string
	state connectivity.State // reference state of this endpoint's pick_first child
}

func runRRCase(t *testing.T, r *vlib.Run, i int) {
	const fam = "rr"
	rng := r.Rand(fam, i)
	synctest.Test(t, func(t *testing.T) {
		cc := lbfake.New("c35:///rr")
		b := balancer.Get(roundrobin.Name).Build(cc, cc.BuildOptions())
		var ops []string
		bad := false
		violate := func(key, format string, args ...any) {
			bad = true
			var evs []string
			ev := cc.Events()
			if len(ev) > 60 {
				ev = ev[len(ev)-60:]
			}
			for _, e := range ev {
				evs = append(evs, e.String())
			}
			r.Violation(key, fam, i, map[string]any{"ops": ops, "last_events": evs}, format, args...)
		}
		eps := map[string]*rrEP{} // configured endpoints (reference)
		liveSC := func(addr string) *lbfake.SubConn {
			var out *lbfake.SubConn
			for _, sc := range cc.SubConns() {
				if sc.Addr().Addr == addr && !sc.IsShutdown() {
					out = sc
				}
			}
			return out
		}
		aggSeen := map[connectivity.State]bool{}
		fair, picks, maxReady, changes := 0, 0, 0, 0
		lastAgg := connectivity.Shutdown
		judge := func() {
			if bad {
				return
			}
			var sts []connectivity.State
			var readySCs []*lbfake.SubConn
			var addrs []string
			for a := range eps {
				addrs = append(addrs, a)
			}
			sort.Strings(addrs)
			for _, a := range addrs {
				sts = append(sts, eps[a].state)
				if eps[a].state == connectivity.Ready {
					readySCs = append(readySCs, liveSC(a))
				}
			}
			want := precedence(sts)
			st, n := cc.LastState()
			if n == 0 {
				violate("aggregate-missing", "round_robin published nothing")
				return
			}
			if st.ConnectivityState != want {
				violate("aggregate-precedence", "round_robin reports %v, endpoint states %v (%v) demand %v", st.ConnectivityState, sts, addrs, want)
				return
			}
			aggSeen[want] = true
			if want != lastAgg {
				changes++
				lastAgg = want
			}
			if want != connectivity.Ready {
				if res, err := st.Picker.Pick(balancer.PickInfo{}); err == nil && res.SubConn != nil {
					violate("pick-returns-subconn-while-not-ready", "aggregate %v but Pick returned %v", want, res.SubConn)
				}
				return
			}
			idOf := map[balancer.SubConn]int{}
			var ids []int
			for j, sc := range readySCs {
				if sc == nil {
					violate("harness-ready-endpoint-without-subconn", "reference says READY but no live subchannel (harness error)")
					return
				}
				idOf[sc] = j
				ids = append(ids, j)
			}
			if len(ids) > maxReady {
				maxReady = len(ids)
			}
			K := 3*len(ids) + 2
			var seq []int
			for p := 0; p < K; p++ {
				res, err := st.Picker.Pick(balancer.PickInfo{})
				id, ok := idOf[res.SubConn]
				if err != nil || !ok {
					violate("delegated-to-child-not-in-aggregate-state", "aggregate READY: pick %d returned (%v, %v), which is not a subchannel of a READY endpoint", p, res.SubConn, err)
					return
				}
				seq = append(seq, id)
			}
			picks += K
			if len(ids) >= 2 {
				fair++
			}
			if w := fairWindows(seq, ids); w != "" {
				violate("round-robin-unfair", "%s", w)
			}
		}
		pool := []string{"10.7.0.1:80", "10.7.0.2:80", "10.7.0.3:80", "[fd07::4]:80", "[fd07::5]:80", "svc6.example.test:80", "10.7.0.7:80"}
		update := func() {
			n := 1 + rng.Intn(6)
			perm := rng.Perm(len(pool))[:n]
			want := map[string]bool{}
			var list []resolver.Endpoint
			for _, p := range perm {
				want[pool[p]] = true
				list = append(list, resolver.Endpoint{Addresses: []resolver.Address{{Addr: pool[p]}}})
				if rng.Intn(5) == 0 { // duplicate endpoint in the list
					list = append(list, resolver.Endpoint{Addresses: []resolver.Address{{Addr: pool[p]}}})
				}
			}
			for a := range eps {
				if !want[a] {
					delete(eps, a)
				}
			}
			for a := range want {
				if eps[a] == nil {
					eps[a] = &rrEP{addr: a, state: connectivity.Connecting}
				}
			}
			ops = append(ops, fmt.Sprintf("update %v", list))
			if err := b.UpdateClientConnState(balancer.ClientConnState{ResolverState: resolver.State{Endpoints: list}}); err != nil {
				violate("update-rejected", "round_robin rejected %v: %v", list, err)
			}
		}
		update()
		synctest.Wait()
		judge()
		steps := 20 + rng.Intn(80)
		for s := 0; s < steps && !bad; s++ {
			if rng.Intn(20) == 0 {
				update()
				synctest.Wait()
				judge()
				continue
			}
			// one legal subchannel / health event on a configured endpoint
			var addrs []string
			for a := range eps {
				addrs = append(addrs, a)
			}
			sort.Strings(addrs)
			a := addrs[rng.Intn(len(addrs))]
			e := eps[a]
			sc := liveSC(a)
			if sc == nil {
				violate("endpoint-without-subconn", "endpoint %s is configured but has no live subchannel", a)
				break
			}
			if lh, ok := sc.LastHealth(); sc.HealthRegistered() && (!ok || lh.ConnectivityState != connectivity.Ready || rng.Intn(4) == 0) {
				hs := vlib.Pick(rng, connectivity.Ready, connectivity.Ready, connectivity.Ready, connectivity.Ready, connectivity.TransientFailure, connectivity.Connecting)
				ops = append(ops, fmt.Sprintf("health %v on %v", hs, sc))
				e.state = hs
				sc.DeliverHealth(balancer.SubConnState{ConnectivityState: hs, ConnectionError: errors.New("unhealthy")})
				synctest.Wait()
				judge()
				continue
			}
			ns := sc.NextStates()
			if len(ns) == 0 {
				continue
			}
			st := ns[rng.Intn(len(ns))]
			if len(ns) == 2 && rng.Intn(4) != 0 {
				st = connectivity.Ready
			}
			if last, ok := sc.Last(); ok && last.ConnectivityState == connectivity.Ready && rng.Intn(3) != 0 {
				continue // keep READY subchannels READY most of the time
			}
			last, _ := sc.Last()
			ops = append(ops, fmt.Sprintf("deliver %v to %v", st, sc))
			// reference state of a single-address pick_first child (A62)
			switch st {
			case connectivity.Connecting:
				if e.state != connectivity.TransientFailure {
					e.state = connectivity.Connecting
				}
			case connectivity.TransientFailure:
				e.state = connectivity.TransientFailure
			case connectivity.Ready:
				e.state = connectivity.Connecting // until the health listener says READY
			case connectivity.Idle:
				if last.ConnectivityState == connectivity.Ready {
					// the child goes IDLE and round_robin reconnects it at once
					e.state = connectivity.Connecting
				}
			}
			se := balancer.SubConnState{ConnectivityState: st}
			if st == connectivity.TransientFailure {
				se.ConnectionError = errors.New("refused")
			}
			sc.Deliver(se)
			synctest.Wait()
			judge()
		}
		b.Close()
		synctest.Wait()
		cc.Release()
		r.Eval(1)
		r.Count("rr_events", int64(len(ops)))
		r.Count("rr_picks", int64(picks))
		r.Count("rr_fairness_checks_n_ge_2", int64(fair))
		r.Max("rr_max_ready_endpoints", int64(maxReady))
		if maxReady >= 2 && changes >= 2 {
			r.Nontrivial(fmt.Sprintf("rr/r%d/agg%d/ch%d", bucket(maxReady), len(aggSeen), bucket(changes)))
		}
	})
}

// ---------------------------------------------------------------- TestVerifC35 (eval, shard, rr, wrap)

func TestVerifC35(t *testing.T) {
	r := vlib.Start(t, "C35")
	wrapDone := make(chan struct{})
	if r.Thorough() {
		// 2^32 picks per n take minutes: run them next to the other families
		go func() { defer close(wrapDone); runWrap(r) }()
	} else {
		close(wrapDone)
	}
	n := r.N(20000, 200000)
	for i := 0; i < n; i++ {
		if r.Want("eval", i) {
			runEvalCase(r, i)
		}
	}
	n = r.N(2500, 25000)
	for i := 0; i < n; i++ {
		if r.Want("shard", i) {
			runShardCase(t, r, i)
		}
	}
	n = r.N(1000, 10000)
	for i := 0; i < n; i++ {
		if r.Want("rr", i) {
			runRRCase(t, r, i)
		}
	}
	n = r.N(6000, 60000)
	for i := 0; i < n; i++ {
		if r.Want("wagg", i) {
			runWAggCase(r, i)
		}
	}
	n = r.N(1200, 12000)
	for i := 0; i < n; i++ {
		if r.Want("wt", i) {
			runWTCase(t, r, i)
		}
	}
	runParallelPicks(r, r.N(48, 480), 12, 40000)
	<-wrapDone
	r.Finish(vlib.Spec{
		Level: "exploration",
		Rule:  "eval: random RecordTransition sequences over 0-12 slots (incl. add/remove via SHUTDOWN and same-state transitions), result compared with the precedence rule over the multiset after every call. shard: PRNG histories over the real endpointsharding balancer with lbfake stub children in a synctest bubble (updates with 0-7 endpoints drawn from 9, duplicates, reordered addresses; child reports incl. inline during UpdateClientConnState/ResolverError/ExitIdle and from removed children); at quiescence after every event: aggregate == precedence(last child states), ChildStatesFromPicker agrees, 3n+2 picks go only to the latest pickers of children in the aggregate state and every window obeys floor/ceil. rr: the real round_robin with real pick_first children over lbfake subchannels (1-6 single-address endpoints, health listener), same checks with a per-endpoint A62 reference. wrap (thorough): 2^32+2n picks for n in {3,5,6,7}. wagg / wt: the real weightedaggregator driven directly (Add/Remove/UpdateWeight/UpdateState/Pause/Resume) and the real weighted_target policy with stub children (config updates adding/removing targets or changing their child policy, reports from current and removed children, ResolverError, ExitIdle); after every step the published aggregate must equal precedence over the states the children are COUNTED under per the documented sticky-TF rule (every third case starts by removing a child that is in the sticky condition). par: 12 goroutines released by a barrier x 40000 picks on one fresh picker with n in {2,3,5,7} READY children plus 0-3 non-READY ones, exact floor/ceil on the totals. Non-trivial = >=2 children, >=2 aggregate changes and >=1 fairness check with n>=2; distinct = bucketed signatures per family",
		Assumptions: []string{
			"stub children always publish an initial state from their first UpdateClientConnState, as real child policies do (DESIGN.md §4 C35)",
			"quick tier: no pick window spans the uint32 wrap of the picker's counter (2^32 picks away)",
			"rr family: endpoints have one address each, so the per-endpoint pick_first reference is the A62 single-subchannel machine",
			"weighted_target counts a child as documented in weightedaggregator (CONNECTING until its first report; a CONNECTING report right after a TRANSIENT_FAILURE report does not change what it counts as)",
			"par family needs goroutines that really run in parallel (GOMAXPROCS is raised to >=4; on a single-core runner it cannot expose non-atomic rotation)",
		},
		Floor: 30,
	})
}

// runWrap performs 2^32+2n picks on the real endpointsharding picker with n
// READY children and checks every window of n consecutive picks for a
// repeated child (F7).
func runWrap(r *vlib.Run) {
	const fam = "wrap"
	ns := []int{3, 5, 6, 7}
	var wg sync.WaitGroup
	for ci, n := range ns {
		if !r.Want(fam, ci) {
			continue
		}
		wg.Add(1)
		go func(ci, n int) {
			defer wg.Done()
			cc := lbfake.New("c35:///wrap")
			rec := &wrapRec{n: n, last: make([]int64, n)}
			for j := range rec.last {
				rec.last[j] = -1
			}
			var built []*lbfake.Child
			var bmu sync.Mutex
			cc.SetHook(func(e lbfake.Event) {
				if e.Kind == lbfake.ChildUpdateClientConnState {
					bmu.Lock()
					id := len(built)
					built = append(built, e.Child)
					bmu.Unlock()
					e.Child.CC.UpdateState(balancer.State{ConnectivityState: connectivity.Ready, Picker: &wrapPicker{id: id, rec: rec}})
				}
			})
			b := endpointsharding.NewBalancer(cc, cc.BuildOptions(), lbfake.StubBuilder(stubName).Build, endpointsharding.Options{DisableAutoReconnect: true})
			var eps []resolver.Endpoint
			for j := 0; j < n; j++ {
				eps = append(eps, resolver.Endpoint{Addresses: []resolver.Address{{Addr: fmt.Sprintf("10.8.%d.%d:80", n, j+1)}}})
			}
			if err := b.UpdateClientConnState(balancer.ClientConnState{ResolverState: resolver.State{Endpoints: eps}}); err != nil {
				r.Inconclusive("wrap n=%d: update failed: %v", n, err)
				return
			}
			st, _ := cc.LastState()
			if st.ConnectivityState != connectivity.Ready {
				r.Inconclusive("wrap n=%d: aggregate %v", n, st.ConnectivityState)
				return
			}
			p := st.Picker
			total := int64(1)<<32 + int64(2*n)
			for k := int64(0); k < total; k++ {
				p.Pick(balancer.PickInfo{})
			}
			r.Eval(1)
			r.Count("wrap_picks", total)
			r.Count("wrap_unfair_windows", rec.bad)
			if rec.bad > 0 {
				r.Violation("rr-uint32-counter-wrap", fam, ci, map[string]any{"n": n, "first_bad_pick_index": rec.firstBad, "detail": rec.firstMsg},
					"n=%d READY children: after %d picks the real endpointsharding picker chose the same child twice within %d consecutive picks (%s); %d such windows in 2^32+%d picks", n, rec.firstBad, n, rec.firstMsg, rec.bad, 2*n)
			} else {
				r.Count("wrap_refuted_for_n", 1)
			}
			r.Nontrivial(fmt.Sprintf("wrap/n%d/bad%v", n, rec.bad > 0))
			cc.SetHook(nil)
			b.Close()
			cc.Release()
		}(ci, n)
	}
	wg.Wait()
	runtime.GC()
}

type wrapRec struct {
	n        int
	pos      int64
	last     []int64
	bad      int64
	firstBad int64
	firstMsg string
}

type wrapPicker struct {
	id  int
	rec *wrapRec
}

// Pick is called from one goroutine only (the wrap loop of its n).
func (p *wrapPicker) Pick(balancer.PickInfo) (balancer.PickResult, error) {
	rec := p.rec
	if l := rec.last[p.id]; l >= 0 && rec.pos-l != int64(rec.n) {
		// with n children in strict rotation each child recurs exactly every n picks
		if rec.bad == 0 {
			rec.firstBad = rec.pos
			rec.firstMsg = fmt.Sprintf("child %d picked at pick #%d and again at #%d", p.id, l, rec.pos)
		}
		rec.bad++
	}
	rec.last[p.id] = rec.pos
	rec.pos++
	return balancer.PickResult{}, nil
}

// ---------------------------------------------------------------- concurrent family (own process, -race)

func TestVerifC35Conc(t *testing.T) {
	r := vlib.Start(t, "C35")
	const fam = "conc"
	n := r.N(400, 8000)
	for i := 0; i < n; i++ {
		if !r.Want(fam, i) {
			continue
		}
		runConcCase(r, i)
	}
	r.Finish(vlib.Spec{
		Level:       "exploration",
		Rule:        "conc (outside a bubble, -race): every stub child reports 5-40 tagged states from its own goroutine while one goroutine issues resolver updates (changing endpoint sets), ResolverError and ExitIdle; after all goroutines were joined the LAST published state must equal precedence(last states of the finally configured children) and the last picker must delegate only to their latest pickers, fairly. Non-trivial = >=2 final children and >=3 publications; distinct = bucketed (children, publications, aggregate)",
		Assumptions: []string{"only the final quiescent state is judged in the concurrent family; joins are plain channel waits"},
		Floor:       4,
	})
}

func runConcCase(r *vlib.Run, i int) {
	const fam = "conc"
	rng := r.Rand(fam, i)
	cc := lbfake.New("c35:///conc")
	type ck struct {
		real *lbfake.Child
		key  string
		mu   sync.Mutex
		seq  int
		last connectivity.State
		done chan struct{}
	}
	var kmu sync.Mutex
	kids := map[*lbfake.Child]*ck{}
	var order []*ck
	reports := 5 + rng.Intn(36)
	seeds := make([]int64, 64)
	for j := range seeds {
		seeds[j] = rng.Int63()
	}
	cc.SetHook(func(e lbfake.Event) {
		switch e.Kind {
		case lbfake.ChildBuild:
			k := &ck{real: e.Child, done: make(chan struct{})}
			kmu.Lock()
			kids[e.Child] = k
			order = append(order, k)
			kmu.Unlock()
		case lbfake.ChildUpdateClientConnState:
			kmu.Lock()
			k := kids[e.Child]
			kmu.Unlock()
			if k.key != "" {
				return
			}
			k.key = epKey(e.CCS.ResolverState.Endpoints[0])
			// initial state inline, then keep reporting from an own goroutine
			pub := func(s connectivity.State) {
				k.mu.Lock()
				k.seq++
				k.last = s
				st := balancer.State{ConnectivityState: s, Picker: &lbfake.Picker{ID: k.real.ID, Err: tagErr{k.real.ID, k.seq}}}
				// publish under k.mu so that "last" is the last one handed to the parent
				k.real.CC.UpdateState(st)
				k.mu.Unlock()
			}
			pub(connectivity.Connecting)
			krng := rand.New(rand.NewSource(seeds[k.real.ID%len(seeds)]))
			go func() {
				defer close(k.done)
				for n := 0; n < reports; n++ {
					pub(randState(krng))
					if krng.Intn(3) == 0 {
						runtime.Gosched()
					}
				}
			}()
		}
	})
	b := endpointsharding.NewBalancer(cc, cc.BuildOptions(), lbfake.StubBuilder(stubName).Build, endpointsharding.Options{DisableAutoReconnect: true})
	steps := 4 + rng.Intn(12)
	var final map[string]bool
	for s := 0; s < steps; s++ {
		switch x := rng.Intn(10); {
		case x < 6 || s == 0:
			nEp := 1 + rng.Intn(6)
			final = map[string]bool{}
			var eps []resolver.Endpoint
			for _, p := range rng.Perm(len(shardPool))[:nEp] {
				eps = append(eps, shardPool[p])
				final[epKey(shardPool[p])] = true
			}
			_ = b.UpdateClientConnState(balancer.ClientConnState{ResolverState: resolver.State{Endpoints: eps}})
		case x < 8:
			b.ResolverError(errors.New("conc"))
		default:
			b.ExitIdle()
		}
		runtime.Gosched()
	}
	kmu.Lock()
	all := append([]*ck(nil), order...)
	kmu.Unlock()
	for _, k := range all {
		if k.key != "" {
			<-k.done
		}
	}
	// final state
	var sts []connectivity.State
	latest := map[int]int{}
	liveByKey := map[string]*ck{}
	for _, k := range all {
		if final[k.key] && !k.real.Closed() {
			liveByKey[k.key] = k
		}
	}
	for _, k := range liveByKey {
		sts = append(sts, k.last)
	}
	want := precedence(sts)
	st, pubs := cc.LastState()
	det := map[string]any{"final_endpoints": len(final), "children_built": len(all), "publications": pubs}
	switch {
	case len(liveByKey) != len(final):
		r.Violation("endpoint-without-child", fam, i, det, "%d endpoints configured, %d open children", len(final), len(liveByKey))
	case st.ConnectivityState != want:
		r.Violation("aggregate-precedence", fam, i, det, "after all goroutines finished the last published aggregate is %v, final child states %v demand %v", st.ConnectivityState, sts, want)
	default:
		var ids []int
		for _, k := range liveByKey {
			if k.last == want {
				ids = append(ids, k.real.ID)
				latest[k.real.ID] = k.seq
			}
		}
		var seq []int
		for p := 0; p < 3*len(ids)+2; p++ {
			_, err := st.Picker.Pick(balancer.PickInfo{})
			var te tagErr
			if !errors.As(err, &te) {
				r.Violation("delegated-to-unknown-picker", fam, i, det, "Pick returned %v", err)
				break
			}
			if ls, ok := latest[te.child]; !ok {
				r.Violation("delegated-to-child-not-in-aggregate-state", fam, i, det, "final aggregate %v: pick delegated to child %d (in that state: %v)", want, te.child, ids)
				break
			} else if ls != te.seq {
				r.Violation("delegated-to-stale-picker", fam, i, det, "pick used picker #%d of child %d, its last published one is #%d", te.seq, te.child, ls)
				break
			}
			seq = append(seq, te.child)
		}
		if w := fairWindows(seq, ids); w != "" && len(seq) == 3*len(ids)+2 {
			r.Violation("round-robin-unfair", fam, i, det, "%s", w)
		}
	}
	r.Eval(1)
	r.Count("conc_children_built", int64(len(all)))
	r.Count("conc_publications", int64(pubs))
	if len(liveByKey) >= 2 && pubs >= 3 {
		r.Nontrivial(fmt.Sprintf("conc/k%d/p%d/%v", bucket(len(liveByKey)), bucket(pubs/8), want))
	}
	cc.SetHook(nil)
	b.Close()
	cc.Release()
}
