// C35, weighted_target part: the aggregate state of balancer/weightedtarget
// (anchor of the property) and of its weightedaggregator.
//
// Reference = the statement's precedence rule over the states the children are
// COUNTED under, where the counting follows what the package documents
// (aggregator.go: type weightedPickerState, Add, UpdateState):
//
//   - an added child counts as CONNECTING until it reports ("Start everything in
//     CONNECTING"), and CONNECTING is also its "last reported" state;
//   - "If old state is TransientFailure, and new state is Connecting, don't
//     update the state, to prevent the aggregated state from being always
//     CONNECTING.  Otherwise, stateToAggregate is the same as
//     state.ConnectivityState" — old = the child's last REPORTED state;
//   - a removed child stops counting, later reports of it are ignored;
//   - no children => TRANSIENT_FAILURE.
package c35

import (
	"errors"
	"fmt"
	"math/rand"
	"sort"
	"sync"
	"testing"
	"testing/synctest"

	"google.golang.org/grpc/balancer"
	"google.golang.org/grpc/balancer/weightedtarget"
	"google.golang.org/grpc/balancer/weightedtarget/weightedaggregator"
	"google.golang.org/grpc/connectivity"
	"google.golang.org/grpc/grpclog"
	internalgrpclog "google.golang.org/grpc/internal/grpclog"
	internalserviceconfig "google.golang.org/grpc/internal/serviceconfig"
	"google.golang.org/grpc/internal/wrr"
	"google.golang.org/grpc/resolver"
	"google.golang.org/grpc/verif/lbfake"
	"google.golang.org/grpc/verif/vlib"
)

const stubNameB = "c35_child_b"

func init() { lbfake.RegisterStub(stubNameB) }

// wChild is the reference's view of one weighted child.
type wChild struct {
	counted  connectivity.State // state it is aggregated under
	reported connectivity.State // last reported state (CONNECTING before the first report)
	seq      int                // sequence number of its latest picker (0: none yet)
	sticky   bool               // counted TF while reporting CONNECTING
}

func newWChild() *wChild {
	return &wChild{counted: connectivity.Connecting, reported: connectivity.Connecting}
}

// report applies the documented counting rule.
func (c *wChild) report(s connectivity.State, seq int) {
	if c.reported == connectivity.TransientFailure && s == connectivity.Connecting {
		c.sticky = true // keeps counting as before (TRANSIENT_FAILURE)
	} else {
		c.counted = s
		c.sticky = false
	}
	c.reported = s
	c.seq = seq
}

func wAggregate(cs map[string]*wChild) connectivity.State {
	var sts []connectivity.State
	for _, c := range cs {
		sts = append(sts, c.counted)
	}
	return precedence(sts)
}

// wJudgePicker: light membership check of the published picker.
func wJudgePicker(st balancer.State, cs map[string]*wChild, idOf func(te tagErr) (string, bool)) (string, string) {
	switch st.ConnectivityState {
	case connectivity.Connecting:
		if _, err := st.Picker.Pick(balancer.PickInfo{}); !errors.Is(err, balancer.ErrNoSubConnAvailable) {
			return "weighted-connecting-picker-does-not-queue", fmt.Sprintf("aggregate CONNECTING but Pick returned %v", err)
		}
	case connectivity.Ready, connectivity.TransientFailure:
		for p := 0; p < 12; p++ {
			_, err := st.Picker.Pick(balancer.PickInfo{})
			var te tagErr
			if !errors.As(err, &te) {
				if st.ConnectivityState == connectivity.TransientFailure && err != nil {
					continue // a child that never published a picker of ours (placeholder)
				}
				return "weighted-delegated-to-unknown-picker", fmt.Sprintf("aggregate %v: Pick returned %v", st.ConnectivityState, err)
			}
			name, ok := idOf(te)
			c := cs[name]
			if !ok || c == nil {
				return "weighted-delegated-to-removed-child", fmt.Sprintf("aggregate %v: pick delegated to %v which is not a configured child", st.ConnectivityState, te)
			}
			if c.seq != te.seq {
				return "weighted-delegated-to-stale-picker", fmt.Sprintf("pick used picker #%d of %s, latest is #%d", te.seq, name, c.seq)
			}
			if st.ConnectivityState == connectivity.Ready && c.counted != connectivity.Ready {
				return "weighted-delegated-to-non-ready-child", fmt.Sprintf("aggregate READY: pick delegated to %s which counts as %v", name, c.counted)
			}
		}
	}
	return "", ""
}

// ---------------------------------------------------------------- family wagg: the Aggregator driven directly

func runWAggCase(r *vlib.Run, i int) {
	const fam = "wagg"
	rng := r.Rand(fam, i)
	cc := lbfake.New("c35:///wagg")
	defer cc.Release()
	agg := weightedaggregator.New(cc, internalgrpclog.NewPrefixLogger(grpclog.Component("c35"), "[c35-wagg] "), wrr.NewRandom)
	agg.Start()
	ids := []string{"a", "b", "c", "d", "e"}
	cs := map[string]*wChild{}
	idNum := map[string]int{}
	for k, id := range ids {
		idNum[id] = k
	}
	seq := 0
	paused, dirty := false, false
	var ops []string
	stickyRemovals, removals, stickies, checks, changes := 0, 0, 0, 0, 0
	seen := map[connectivity.State]bool{}
	last := connectivity.Shutdown
	steps := 10 + rng.Intn(60)
	prefix := [][2]string{}
	if i%3 == 0 { // must-hit: remove a child that is in the sticky condition while others are TF/IDLE
		prefix = [][2]string{{"add", "a"}, {"add", "b"}, {"TF", "a"}, {"TF", "b"}, {"CONNECTING", "a"}, {"remove", "a"}, {"IDLE", "b"}, {"add", "c"}, {"TF", "c"}}
	}
	do := func(op, id string) bool {
		ops = append(ops, op+" "+id)
		switch op {
		case "add":
			if cs[id] != nil {
				return true
			}
			cs[id] = newWChild()
			agg.Add(id, uint32(1+rng.Intn(3)))
			dirty = true
		case "remove":
			if c := cs[id]; c != nil {
				removals++
				if c.sticky {
					stickyRemovals++
				}
				dirty = true
			}
			delete(cs, id)
			agg.Remove(id)
		case "weight":
			agg.UpdateWeight(id, uint32(1+rng.Intn(5)))
		case "pause":
			paused = true
			agg.PauseStateUpdates()
			dirty = false
		case "resume":
			paused = false
			agg.ResumeStateUpdates()
		default:
			var s connectivity.State
			switch op {
			case "READY":
				s = connectivity.Ready
			case "CONNECTING":
				s = connectivity.Connecting
			case "IDLE":
				s = connectivity.Idle
			default:
				s = connectivity.TransientFailure
			}
			seq++
			if c := cs[id]; c != nil {
				c.report(s, seq)
				if c.sticky {
					stickies++
				}
				dirty = true
			}
			agg.UpdateState(id, balancer.State{ConnectivityState: s, Picker: &lbfake.Picker{ID: idNum[id], Err: tagErr{idNum[id], seq}}})
		}
		if paused {
			return true
		}
		// judge
		st, n := cc.LastState()
		if n == 0 {
			if dirty {
				r.Violation("weighted-aggregate-missing", fam, i, ops, "the aggregator published nothing after %v", ops)
				return false
			}
			return true
		}
		checks++
		want := wAggregate(cs)
		if st.ConnectivityState != want {
			var desc []string
			for id, c := range cs {
				desc = append(desc, fmt.Sprintf("%s:counted=%v,reported=%v", id, c.counted, c.reported))
			}
			sort.Strings(desc)
			r.Violation("weighted-aggregate-precedence", fam, i, ops, "weightedaggregator publishes %v, children %v demand %v (after %s %s)", st.ConnectivityState, desc, want, op, id)
			return false
		}
		seen[want] = true
		if want != last {
			changes++
			last = want
		}
		if k, msg := wJudgePicker(st, cs, func(te tagErr) (string, bool) {
			if te.child < 0 || te.child >= len(ids) {
				return "", false
			}
			return ids[te.child], true
		}); k != "" {
			r.Violation(k, fam, i, ops, "%s", msg)
			return false
		}
		return true
	}
	ok := true
	for _, p := range prefix {
		if ok = do(p[0], p[1]); !ok {
			break
		}
	}
	for s := 0; s < steps && ok; s++ {
		id := ids[rng.Intn(len(ids))]
		switch x := rng.Intn(100); {
		case x < 14:
			ok = do("add", id)
		case x < 26:
			ok = do("remove", id)
		case x < 30:
			ok = do("weight", id)
		case x < 34:
			if paused {
				ok = do("resume", "")
			} else {
				ok = do("pause", "")
			}
		default:
			// reports; after a TF prefer CONNECTING so that the sticky condition is common
			op := vlib.Pick(rng, "READY", "CONNECTING", "CONNECTING", "IDLE", "TF", "TF", "TF")
			if c := cs[id]; c != nil && c.reported == connectivity.TransientFailure && rng.Intn(2) == 0 {
				op = "CONNECTING"
			}
			ok = do(op, id)
		}
	}
	if ok && paused {
		do("resume", "")
	}
	agg.Stop()
	r.Eval(1)
	r.Count("wagg_ops", int64(len(ops)))
	r.Count("wagg_aggregate_checks", int64(checks))
	r.Count("wagg_removals", int64(removals))
	r.Count("wagg_removals_of_sticky_tf_children", int64(stickyRemovals))
	r.Count("wagg_sticky_tf_reports", int64(stickies))
	if removals > 0 && stickies > 0 && changes >= 2 {
		r.Nontrivial(fmt.Sprintf("wagg/rm%d/srm%d/st%d/agg%d/ch%d", bucket(removals), bucket(stickyRemovals), bucket(stickies), len(seen), bucket(changes)))
	}
}

// ---------------------------------------------------------------- family wt: the real weighted_target policy with stub children

type wtKid struct {
	real   *lbfake.Child
	name   string // target (locality) name, bound at the first UpdateClientConnState
	inline bool
}

func runWTCase(t *testing.T, r *vlib.Run, i int) {
	const fam = "wt"
	rng := r.Rand(fam, i)
	synctest.Test(t, func(t *testing.T) {
		cc := lbfake.New("c35:///wt")
		var mu sync.Mutex
		kids := map[*lbfake.Child]*wtKid{}
		cur := map[string]*wtKid{} // current child of a target
		cs := map[string]*wChild{} // reference
		policy := map[string]string{}
		seq := 0
		var ops []string
		bad := false
		violate := func(key, format string, args ...any) {
			bad = true
			var evs []string
			ev := cc.Events()
			if len(ev) > 50 {
				ev = ev[len(ev)-50:]
			}
			for _, e := range ev {
				evs = append(evs, e.String())
			}
			r.Violation(key, fam, i, map[string]any{"ops": ops, "last_events": evs}, format, args...)
		}
		stickyRemovals, removals, stickies, checks, changes := 0, 0, 0, 0, 0
		seen := map[connectivity.State]bool{}
		lastAgg := connectivity.Shutdown
		report := func(k *wtKid, s connectivity.State, where string) {
			mu.Lock()
			seq++
			n := seq
			ops = append(ops, fmt.Sprintf("%s: child %d of %q reports %v (#%d)", where, k.real.ID, k.name, s, n))
			if c := cs[k.name]; c != nil && cur[k.name] == k {
				c.report(s, n)
				if c.sticky {
					stickies++
				}
			}
			mu.Unlock()
			k.real.CC.UpdateState(balancer.State{ConnectivityState: s, Picker: &lbfake.Picker{ID: k.real.ID, Err: tagErr{k.real.ID, n}}})
		}
		cc.SetHook(func(e lbfake.Event) {
			switch e.Kind {
			case lbfake.ChildBuild:
				mu.Lock()
				kids[e.Child] = &wtKid{real: e.Child, inline: rng.Intn(2) == 0}
				mu.Unlock()
			case lbfake.ChildUpdateClientConnState:
				mu.Lock()
				k := kids[e.Child]
				first := k.name == ""
				if first {
					k.name = weightedtarget.LocalityFromResolverState(e.CCS.ResolverState)
					cur[k.name] = k
				}
				s := randState(rng)
				inl := k.inline && (first || rng.Intn(3) == 0)
				mu.Unlock()
				if inl {
					report(k, s, "inline in UpdateClientConnState")
				}
			case lbfake.ChildResolverError:
				mu.Lock()
				k := kids[e.Child]
				mu.Unlock()
				if k.inline {
					report(k, connectivity.TransientFailure, "inline in ResolverError")
				}
			}
		})
		b := balancer.Get(weightedtarget.Name).Build(cc, cc.BuildOptions())
		names := []string{"t0", "t1", "t2", "t3", "t4"}
		updated := false
		update := func(targets map[string]string) {
			cfg := &weightedtarget.LBConfig{Targets: map[string]weightedtarget.Target{}}
			var desc []string
			for n, pol := range targets {
				cfg.Targets[n] = weightedtarget.Target{Weight: uint32(1 + rng.Intn(3)), ChildPolicy: &internalserviceconfig.BalancerConfig{Name: pol}}
				desc = append(desc, n+"="+pol)
			}
			sort.Strings(desc)
			mu.Lock()
			ops = append(ops, fmt.Sprintf("config %v", desc))
			for n := range cs {
				if pol, ok := targets[n]; !ok || pol != policy[n] {
					removals++
					if cs[n].sticky {
						stickyRemovals++
					}
					delete(cs, n)
					delete(cur, n)
					delete(policy, n)
				}
			}
			for n, pol := range targets {
				if cs[n] == nil {
					cs[n] = newWChild()
					policy[n] = pol
				}
			}
			mu.Unlock()
			updated = true
			if err := b.UpdateClientConnState(balancer.ClientConnState{BalancerConfig: cfg, ResolverState: resolver.State{}}); err != nil {
				violate("update-rejected", "weighted_target rejected %v: %v", desc, err)
			}
		}
		judge := func() {
			if bad || !updated {
				return
			}
			synctest.Wait()
			st, n := cc.LastState()
			if n == 0 {
				violate("weighted-aggregate-missing", "weighted_target published nothing after a config update")
				return
			}
			checks++
			mu.Lock()
			want := wAggregate(cs)
			var desc []string
			for id, c := range cs {
				desc = append(desc, fmt.Sprintf("%s:counted=%v,reported=%v", id, c.counted, c.reported))
			}
			snapshot := map[string]*wChild{}
			for id, c := range cs {
				cp := *c
				snapshot[id] = &cp
			}
			byID := map[int]string{}
			for n, k := range cur {
				byID[k.real.ID] = n
			}
			mu.Unlock()
			sort.Strings(desc)
			if st.ConnectivityState != want {
				violate("weighted-aggregate-precedence", "weighted_target reports %v, children %v demand %v", st.ConnectivityState, desc, want)
				return
			}
			seen[want] = true
			if want != lastAgg {
				changes++
				lastAgg = want
			}
			if k, msg := wJudgePicker(st, snapshot, func(te tagErr) (string, bool) { n, ok := byID[te.child]; return n, ok }); k != "" {
				violate(k, "%s", msg)
			}
		}
		genTargets := func() map[string]string {
			out := map[string]string{}
			n := rng.Intn(5)
			if rng.Intn(12) == 0 {
				n = 0
			}
			for _, p := range rng.Perm(len(names))[:n] {
				out[names[p]] = vlib.Pick(rng, stubName, stubName, stubNameB)
			}
			return out
		}
		if i%3 == 0 { // must-hit prefix: sticky child removed while the rest is TF
			update(map[string]string{"t0": stubName, "t1": stubName})
			judge()
			for _, st := range []connectivity.State{connectivity.TransientFailure, connectivity.Connecting} {
				if k := cur["t0"]; k != nil && !bad {
					report(k, st, "prefix")
					judge()
				}
			}
			if k := cur["t1"]; k != nil && !bad {
				report(k, connectivity.TransientFailure, "prefix")
				judge()
			}
			if i%6 == 0 {
				update(map[string]string{"t1": stubName})
			} else {
				update(map[string]string{"t0": stubNameB, "t1": stubName}) // policy change = remove + add
			}
			judge()
		}
		steps := 10 + rng.Intn(50)
		for s := 0; s < steps && !bad; s++ {
			switch x := rng.Intn(100); {
			case x < 18:
				update(genTargets())
				judge()
			case x < 88:
				mu.Lock()
				var live, dead []*wtKid
				for _, k := range kids {
					if k.name == "" {
						continue
					}
					if cur[k.name] == k {
						live = append(live, k)
					} else {
						dead = append(dead, k)
					}
				}
				sort.Slice(live, func(a, b int) bool { return live[a].real.ID < live[b].real.ID })
				sort.Slice(dead, func(a, b int) bool { return dead[a].real.ID < dead[b].real.ID })
				mu.Unlock()
				var k *wtKid
				switch {
				case len(dead) > 0 && (len(live) == 0 || rng.Intn(8) == 0):
					k = dead[rng.Intn(len(dead))]
				case len(live) > 0:
					k = live[rng.Intn(len(live))]
				}
				if k != nil {
					st := vlib.Pick(rng, connectivity.Ready, connectivity.Connecting, connectivity.Connecting, connectivity.Idle, connectivity.TransientFailure, connectivity.TransientFailure, connectivity.TransientFailure)
					mu.Lock()
					if c := cs[k.name]; c != nil && cur[k.name] == k && c.reported == connectivity.TransientFailure && rng.Intn(2) == 0 {
						st = connectivity.Connecting
					}
					mu.Unlock()
					report(k, st, "spontaneous")
					judge()
				}
			case x < 94:
				ops = append(ops, "ResolverError")
				b.ResolverError(errors.New("c35 wt"))
				judge()
			default:
				ops = append(ops, "ExitIdle")
				b.ExitIdle()
				judge()
			}
		}
		cc.SetHook(nil)
		b.Close()
		synctest.Wait()
		cc.Release()
		r.Eval(1)
		r.Count("wt_events", int64(len(ops)))
		r.Count("wt_aggregate_checks", int64(checks))
		r.Count("wt_target_removals", int64(removals))
		r.Count("wt_removals_of_sticky_tf_children", int64(stickyRemovals))
		r.Count("wt_sticky_tf_reports", int64(stickies))
		if removals > 0 && stickies > 0 && changes >= 2 {
			r.Nontrivial(fmt.Sprintf("wt/rm%d/srm%d/st%d/agg%d/ch%d", bucket(removals), bucket(stickyRemovals), bucket(stickies), len(seen), bucket(changes)))
		}
		if i < 1 {
			r.Sample(map[string]any{"family": fam, "case": i, "ops": ops})
		}
	})
}

var _ = rand.Int
