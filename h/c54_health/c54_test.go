// C54: health.Server Watch streams converge to the latest status.
//
// The real health.Server is driven inside testing/synctest bubbles (virtual
// time, synctest.Wait() = exact quiescence) by in-process Watch streams whose
// Send blocks for script-chosen spans (pass through, virtual sleep, gate that
// the script opens later, error), concurrently with SetServingStatus /
// Shutdown / Resume / Check calls.  Run with -race.
//
// Reference (from the statement): a map service -> status (initially
// {"": SERVING}) and a shutdown flag; Set is ignored while shut down; Shutdown
// turns every registered service NOT_SERVING, Resume SERVING; an unregistered
// service is SERVICE_UNKNOWN for Watch and NotFound for Check.
//
// Mutations are totally ordered by the monitor (they are serialised by the
// server's own mutex anyway); Watch/Check/Send are stamped with the number of
// mutations completed before the call and started before the return (R3), so
// each observation is judged against the interval of model states it may
// legitimately reflect:
//   - Check result == model state at some point of its call interval;
//   - per stream: first status == status at some point between the Watch call
//     and the first Send; no status twice in a row; the received sequence is a
//     subsequence (strictly increasing positions) of the service's state
//     history, each status not later than its Send;
//   - at every quiescent point every stream whose Send is not being held by
//     the script has last received the current status;
//   - at a quiescent point no SetServingStatus/Shutdown/Resume/Check call is
//     still blocked (a slow or stuck watcher must not block the service:
//     otherwise other streams and Check would never see the latest status).
//
// R2 note: "every service reports NOT_SERVING between Shutdown and Resume" is
// read for registered services; a never-registered name stays SERVICE_UNKNOWN
// (statement: "SERVICE_UNKNOWN if unregistered") and Check stays NotFound.
package c54

import (
	"context"
	"errors"
	"fmt"
	"math/rand"
	"os"
	"sort"
	"strings"
	"sync"
	"testing"
	"testing/synctest"
	"time"

	"google.golang.org/grpc/codes"
	"google.golang.org/grpc/health"
	healthpb "google.golang.org/grpc/health/grpc_health_v1"
	"google.golang.org/grpc/metadata"
	"google.golang.org/grpc/status"
	"google.golang.org/grpc/verif/vlib"
)

type st = healthpb.HealthCheckResponse_ServingStatus

const (
	stUnknown        = healthpb.HealthCheckResponse_UNKNOWN
	stServing        = healthpb.HealthCheckResponse_SERVING
	stNotServing     = healthpb.HealthCheckResponse_NOT_SERVING
	stServiceUnknown = healthpb.HealthCheckResponse_SERVICE_UNKNOWN
	stNotFound       = st(-100) // Check on an unregistered service
)

var services = []string{"", "a", "b", "late"}

// ---------- reference model ----------

type mutation struct {
	kind string // set | shutdown | resume
	svc  string
	val  st
}

func (m mutation) String() string {
	if m.kind == "set" {
		return fmt.Sprintf("Set(%q,%v)", m.svc, m.val)
	}
	return strings.ToUpper(m.kind[:1]) + m.kind[1:] + "()"
}

type modelState struct {
	reg      map[string]st
	shutdown bool
}

func (s modelState) clone() modelState {
	o := modelState{reg: map[string]st{}, shutdown: s.shutdown}
	for k, v := range s.reg {
		o.reg[k] = v
	}
	return o
}

func (s modelState) apply(m mutation) modelState {
	o := s.clone()
	switch m.kind {
	case "set":
		if !o.shutdown {
			o.reg[m.svc] = m.val
		}
	case "shutdown":
		o.shutdown = true
		for k := range o.reg {
			o.reg[k] = stNotServing
		}
	case "resume":
		o.shutdown = false
		for k := range o.reg {
			o.reg[k] = stServing
		}
	}
	return o
}

func (s modelState) watchView(svc string) st {
	if v, ok := s.reg[svc]; ok {
		return v
	}
	return stServiceUnknown
}

func (s modelState) checkView(svc string) st {
	if v, ok := s.reg[svc]; ok {
		return v
	}
	return stNotFound
}

// ---------- monitor ----------

type recvEvt struct {
	val st
	hi  int // mutations started when Send was entered
}

type sendBehav struct {
	kind string // pass | sleep | gate | fail
	d    time.Duration
}

type stream struct {
	m        *mon
	id       int
	svc      string
	ctx      context.Context
	cancel   context.CancelFunc
	behav    []sendBehav
	lo       int // mutations completed when Watch was called
	recv     []recvEvt
	inflight bool          // a Send is being held by the script
	gate     chan struct{} // gate of the Send in flight (nil if none)
	canceled bool
	failed   bool
	returned bool
	retErr   error
}

func (s *stream) Send(resp *healthpb.HealthCheckResponse) error {
	m := s.m
	m.mu.Lock()
	idx := len(s.recv)
	s.recv = append(s.recv, recvEvt{val: resp.GetStatus(), hi: m.started})
	b := sendBehav{kind: "pass"}
	if idx < len(s.behav) {
		b = s.behav[idx]
	}
	var gate chan struct{}
	switch b.kind {
	case "gate":
		gate = make(chan struct{})
		s.gate, s.inflight = gate, true
	case "sleep":
		s.inflight = true
	case "fail":
		s.failed = true
	}
	m.sends++
	m.mu.Unlock()
	switch b.kind {
	case "gate":
		<-gate
	case "sleep":
		time.Sleep(b.d)
	case "fail":
		return errors.New("c54: transport is closing")
	}
	m.mu.Lock()
	s.inflight, s.gate = false, nil
	m.mu.Unlock()
	return nil
}

func (s *stream) Context() context.Context     { return s.ctx }
func (s *stream) SetHeader(metadata.MD) error  { return nil }
func (s *stream) SendHeader(metadata.MD) error { return nil }
func (s *stream) SetTrailer(metadata.MD)       {}
func (s *stream) SendMsg(any) error            { return errors.New("c54: SendMsg not expected") }
func (s *stream) RecvMsg(any) error            { return errors.New("c54: RecvMsg not expected") }

type checkObs struct {
	svc    string
	lo, hi int
	got    st
	err    error
}

type mon struct {
	r   *vlib.Run
	fam string
	idx int
	srv *health.Server

	opLock chan struct{} // serialises mutations (durably blocking inside the bubble)

	mu        sync.Mutex
	started   int
	hist      []mutation
	streams   []*stream
	checks    []checkObs
	pending   map[int]string
	pendSeq   int
	sends     int
	trace     []string
	feats     map[string]bool
	bad       bool
	qChecks   int
	converged int
}

func (m *mon) tracef(f string, a ...any) {
	m.mu.Lock()
	m.trace = append(m.trace, fmt.Sprintf(f, a...))
	m.mu.Unlock()
}

func (m *mon) viol(key, f string, a ...any) {
	m.mu.Lock()
	tr := append([]string{}, m.trace...)
	hist := fmt.Sprint(m.hist)
	m.bad = true
	m.mu.Unlock()
	if len(tr) > 60 {
		tr = tr[len(tr)-60:]
	}
	m.r.Violation(key, m.fam, m.idx, map[string]any{"mutations": hist, "trace_tail": tr}, f+" | mutations so far: %s", append(a, hist)...)
}

func (m *mon) begin(desc string) int {
	m.mu.Lock()
	m.pendSeq++
	id := m.pendSeq
	m.pending[id] = desc
	m.mu.Unlock()
	return id
}

func (m *mon) end(id int) {
	m.mu.Lock()
	delete(m.pending, id)
	m.mu.Unlock()
}

// mutate performs one SetServingStatus/Shutdown/Resume as an atomic, totally
// ordered step of the history.
func (m *mon) mutate(mu mutation) {
	id := m.begin(mu.String())
	m.opLock <- struct{}{}
	m.mu.Lock()
	m.started++
	m.trace = append(m.trace, mu.String())
	m.mu.Unlock()
	switch mu.kind {
	case "set":
		m.srv.SetServingStatus(mu.svc, mu.val)
	case "shutdown":
		m.srv.Shutdown()
	case "resume":
		m.srv.Resume()
	}
	m.mu.Lock()
	m.hist = append(m.hist, mu)
	m.mu.Unlock()
	<-m.opLock
	m.end(id)
}

func (m *mon) check(svc string) {
	id := m.begin("Check(" + svc + ")")
	m.mu.Lock()
	lo := len(m.hist)
	m.mu.Unlock()
	resp, err := m.srv.Check(context.Background(), &healthpb.HealthCheckRequest{Service: svc})
	m.mu.Lock()
	o := checkObs{svc: svc, lo: lo, hi: m.started, err: err}
	if err == nil {
		o.got = resp.GetStatus()
	} else if status.Code(err) == codes.NotFound {
		o.got = stNotFound
	} else {
		o.got = st(-1)
	}
	m.checks = append(m.checks, o)
	m.mu.Unlock()
	m.end(id)
}

func (m *mon) startWatch(svc string, behav []sendBehav) *stream {
	ctx, cancel := context.WithCancel(context.Background())
	m.mu.Lock()
	s := &stream{m: m, id: len(m.streams), svc: svc, ctx: ctx, cancel: cancel, behav: behav, lo: len(m.hist)}
	m.streams = append(m.streams, s)
	m.trace = append(m.trace, fmt.Sprintf("Watch#%d(%q) behav=%v", s.id, svc, behav))
	m.mu.Unlock()
	go func() {
		err := m.srv.Watch(&healthpb.HealthCheckRequest{Service: svc}, s)
		m.mu.Lock()
		s.returned, s.retErr = true, err
		m.mu.Unlock()
	}()
	return s
}

func (m *mon) cancelStream(s *stream) {
	m.mu.Lock()
	s.canceled = true
	m.trace = append(m.trace, fmt.Sprintf("cancel#%d", s.id))
	m.mu.Unlock()
	s.cancel()
}

func (m *mon) release(s *stream) {
	m.mu.Lock()
	g := s.gate
	s.gate = nil
	if g != nil {
		m.trace = append(m.trace, fmt.Sprintf("open-gate#%d", s.id))
	}
	m.mu.Unlock()
	if g != nil {
		close(g)
	}
}

func (m *mon) states() []modelState {
	out := []modelState{{reg: map[string]st{"": stServing}}}
	for _, mu := range m.hist {
		out = append(out, out[len(out)-1].apply(mu))
	}
	return out
}

// quiescent is called right after synctest.Wait(): nothing in the bubble can
// run any more without the script (or virtual time) moving.
func (m *mon) quiescent(where string) bool {
	m.mu.Lock()
	var stuck []string
	for _, d := range m.pending {
		stuck = append(stuck, d)
	}
	m.qChecks++
	m.mu.Unlock()
	if len(stuck) > 0 {
		sort.Strings(stuck)
		m.viol("health-call-blocked-by-slow-watcher", "%s: at a quiescent point these health.Server calls have not returned: %v (only watcher Sends are being held by the script)", where, stuck)
		// The server is wedged on its own mutex; unwinding the bubble could hang (mutex
		// waiters are not durably blocked).  The verdict is out: end the process here.
		m.r.Finish(theSpec)
		os.Exit(1)
		return false
	}
	m.mu.Lock()
	defer m.mu.Unlock()
	sts := m.states()
	cur := sts[len(sts)-1]
	for _, s := range m.streams {
		if s.returned || s.canceled || s.failed || s.inflight {
			continue
		}
		want := cur.watchView(s.svc)
		if len(s.recv) == 0 {
			m.mu.Unlock()
			m.viol("no-initial-status", "%s: stream #%d on %q is idle at a quiescent point but never received its initial status", where, s.id, s.svc)
			m.mu.Lock()
			return false
		}
		if got := s.recv[len(s.recv)-1].val; got != want {
			recv := fmt.Sprint(s.recv)
			m.mu.Unlock()
			m.viol("not-converged-at-quiescence", "%s: stream #%d on %q last received %v but the service's status is %v and nothing is in flight (received %s)", where, s.id, s.svc, got, want, recv)
			m.mu.Lock()
			return false
		}
		m.converged++
	}
	return true
}

// judge runs the history oracles once the case is over (history complete).
func (m *mon) judge() {
	m.mu.Lock()
	defer m.mu.Unlock()
	sts := m.states()
	report := func(key, f string, a ...any) {
		m.mu.Unlock()
		m.viol(key, f, a...)
		m.mu.Lock()
	}
	for _, c := range m.checks {
		ok := false
		var allowed []st
		for k := c.lo; k <= c.hi && k < len(sts); k++ {
			v := sts[k].checkView(c.svc)
			allowed = append(allowed, v)
			if v == c.got {
				ok = true
			}
		}
		if !ok {
			report("check-not-latest", "Check(%q) returned %v (err %v); the model allows %v for a call that overlapped mutations %d..%d", c.svc, c.got, c.err, allowed, c.lo, c.hi)
			return
		}
	}
	for _, s := range m.streams {
		k := s.lo
		for j, e := range s.recv {
			if j > 0 && e.val == s.recv[j-1].val {
				report("same-status-twice-in-a-row", "stream #%d on %q received %v twice in a row (position %d of %v)", s.id, s.svc, e.val, j, s.recv)
				return
			}
			from := k
			if j > 0 {
				from = k + 1
			}
			found := -1
			for q := from; q <= e.hi && q < len(sts); q++ {
				if sts[q].watchView(s.svc) == e.val {
					found = q
					break
				}
			}
			if found < 0 {
				var span []st
				for q := from; q <= e.hi && q < len(sts); q++ {
					span = append(span, sts[q].watchView(s.svc))
				}
				key := "status-not-in-order-of-history"
				if j == 0 {
					key = "first-status-not-status-at-subscription"
				}
				report(key, "stream #%d on %q: status #%d = %v cannot be matched: the service's statuses at history positions %d..%d were %v (received so far %v, subscribed at position >= %d)", s.id, s.svc, j, e.val, from, e.hi, span, s.recv[:j+1], s.lo)
				return
			}
			k = found
		}
		// evidence: did the slow sender skip intermediate statuses?
		if len(s.recv) > 0 {
			distinct := 0
			for q := s.lo + 1; q < len(sts); q++ {
				if sts[q].watchView(s.svc) != sts[q-1].watchView(s.svc) {
					distinct++
				}
			}
			if distinct > len(s.recv)-1 && len(s.recv) > 1 {
				m.feats["slow-stream-skipped-intermediate-statuses"] = true
			}
		}
	}
}

// ---------- script generation ----------

func genStatus(rng *rand.Rand) st {
	return []st{stServing, stNotServing, stServing, stNotServing, stUnknown, stServiceUnknown}[rng.Intn(6)]
}

func genMutation(rng *rand.Rand, m *mon) mutation {
	switch rng.Intn(12) {
	case 0:
		return mutation{kind: "shutdown"}
	case 1:
		return mutation{kind: "resume"}
	}
	return mutation{kind: "set", svc: services[rng.Intn(len(services))], val: genStatus(rng)}
}

func genBehav(rng *rand.Rand) []sendBehav {
	var b []sendBehav
	n := rng.Intn(6)
	for i := 0; i < n; i++ {
		switch rng.Intn(8) {
		case 0, 1, 2:
			b = append(b, sendBehav{kind: "gate"})
		case 3, 4:
			b = append(b, sendBehav{kind: "sleep", d: time.Duration(1+rng.Intn(5)) * time.Millisecond})
		case 5:
			if i > 0 {
				b = append(b, sendBehav{kind: "fail"})
			} else {
				b = append(b, sendBehav{kind: "pass"})
			}
		default:
			b = append(b, sendBehav{kind: "pass"})
		}
	}
	return b
}

// cleanup lets every goroutine of the bubble finish.
func (m *mon) cleanup() {
	m.mu.Lock()
	ss := append([]*stream{}, m.streams...)
	m.mu.Unlock()
	for round := 0; round < 50; round++ {
		for _, s := range ss {
			m.release(s)
			if round >= 5 {
				s.cancel()
			}
		}
		time.Sleep(10 * time.Millisecond)
		synctest.Wait()
		all := true
		m.mu.Lock()
		for _, s := range ss {
			if !s.returned {
				all = false
			}
		}
		m.mu.Unlock()
		if all {
			return
		}
	}
}

func (m *mon) liveStreams(pred func(*stream) bool) []*stream {
	m.mu.Lock()
	defer m.mu.Unlock()
	var out []*stream
	for _, s := range m.streams {
		if !s.returned && !s.canceled && !s.failed && (pred == nil || pred(s)) {
			out = append(out, s)
		}
	}
	return out
}

func (m *mon) classify() {
	// feature flags for the evidence, from the completed history
	sts := m.states()
	for i, mu := range m.hist {
		before := sts[i]
		switch mu.kind {
		case "set":
			if before.shutdown {
				m.feats["set-ignored-during-shutdown"] = true
			}
			if _, ok := before.reg[mu.svc]; !ok && !before.shutdown {
				m.feats["service-registered-late"] = true
			}
			if v, ok := before.reg[mu.svc]; ok && v == mu.val {
				m.feats["set-same-status-again"] = true
			}
		case "shutdown":
			m.feats["shutdown"] = true
		case "resume":
			if before.shutdown {
				m.feats["resume-after-shutdown"] = true
			}
		}
	}
	perSvc := map[string]int{}
	for _, s := range m.streams {
		perSvc[s.svc]++
		if s.failed {
			m.feats["send-failed"] = true
		}
		if s.canceled {
			m.feats["stream-cancelled"] = true
		}
		if len(s.recv) > 0 && s.recv[0].val == stServiceUnknown {
			m.feats["watch-unregistered-service"] = true
		}
		for _, b := range s.behav {
			m.feats["send-"+b.kind] = true
		}
	}
	for _, n := range perSvc {
		if n > 1 {
			m.feats["several-watchers-one-service"] = true
		}
	}
}

func (m *mon) finish(r *vlib.Run, conc bool) {
	m.mu.Lock()
	defer m.mu.Unlock()
	m.classify()
	var fs []string
	for f := range m.feats {
		fs = append(fs, f)
		r.Nontrivial("feature:" + f)
	}
	sort.Strings(fs)
	r.Eval(1)
	r.Count("mutations", int64(len(m.hist)))
	r.Count("watch_streams", int64(len(m.streams)))
	r.Count("sends_observed", int64(m.sends))
	r.Count("check_calls", int64(len(m.checks)))
	r.Count("quiescent_checks", int64(m.qChecks))
	r.Count("stream_convergence_checks", int64(m.converged))
	// non-trivial: a stream was held by the script while the status changed
	if m.feats["send-gate"] || m.feats["send-sleep"] {
		sig := fmt.Sprintf("conc=%v/streams%d", conc, min(len(m.streams), 6))
		for _, f := range []string{"slow-stream-skipped-intermediate-statuses", "shutdown", "resume-after-shutdown", "set-ignored-during-shutdown", "service-registered-late", "send-failed", "stream-cancelled", "several-watchers-one-service"} {
			if m.feats[f] {
				sig += "/" + f
			}
		}
		r.Nontrivial(sig)
	}
	if m.idx < 2 {
		r.Sample(map[string]any{"family": m.fam, "case": m.idx, "features": fs, "mutations": fmt.Sprint(m.hist), "trace_head": m.trace[:min(10, len(m.trace))]})
	}
}

func newMon(r *vlib.Run, fam string, idx int) *mon {
	return &mon{r: r, fam: fam, idx: idx, srv: health.NewServer(), opLock: make(chan struct{}, 1), pending: map[int]string{}, feats: map[string]bool{}}
}

// ---------- family seq: one step at a time, quiescence after every step ----------

func seqCase(t *testing.T, r *vlib.Run, fam string, idx int) {
	rng := r.Rand(fam, idx)
	synctest.Test(t, func(t *testing.T) {
		m := newMon(r, fam, idx)
		defer m.cleanup()
		step := func(where string) bool {
			synctest.Wait()
			return m.quiescent(where)
		}
		nsteps := 10 + rng.Intn(40)
		for i := 0; i < nsteps; i++ {
			var where string
			switch op := rng.Intn(20); {
			case op < 8:
				mu := genMutation(rng, m)
				where = mu.String()
				go m.mutate(mu)
			case op < 11:
				svc := services[rng.Intn(len(services))]
				where = "Watch(" + svc + ")"
				m.startWatch(svc, genBehav(rng))
			case op < 14:
				if ss := m.liveStreams(func(s *stream) bool { return s.gate != nil }); len(ss) > 0 {
					s := ss[rng.Intn(len(ss))]
					where = fmt.Sprintf("open-gate#%d", s.id)
					m.release(s)
				}
			case op < 15:
				if ss := m.liveStreams(nil); len(ss) > 0 {
					s := ss[rng.Intn(len(ss))]
					where = fmt.Sprintf("cancel#%d", s.id)
					m.cancelStream(s)
				}
			case op < 18:
				svc := services[rng.Intn(len(services))]
				where = "Check(" + svc + ")"
				go m.check(svc)
			default:
				where = "advance time"
				time.Sleep(time.Duration(1+rng.Intn(6)) * time.Millisecond)
			}
			if where == "" {
				continue
			}
			if !step("after " + where) {
				return
			}
		}
		// open every gate, let every sleeping Send finish: all streams must converge
		for round := 0; round < 8; round++ {
			for _, s := range m.liveStreams(nil) {
				m.release(s)
			}
			time.Sleep(10 * time.Millisecond)
			if !step("final drain") {
				return
			}
		}
		if ss := m.liveStreams(func(s *stream) bool { return s.inflight }); len(ss) > 0 {
			m.viol("send-never-released", "harness: %d streams still in flight after the final drain", len(ss))
			return
		}
		m.judge()
		if !m.bad {
			m.finish(r, false)
		}
	})
}

// ---------- family conc: batches of concurrent calls, quiescence between batches ----------

func concCase(t *testing.T, r *vlib.Run, fam string, idx int) {
	rng := r.Rand(fam, idx)
	synctest.Test(t, func(t *testing.T) {
		m := newMon(r, fam, idx)
		defer m.cleanup()
		nbatches := 2 + rng.Intn(5)
		for b := 0; b < nbatches; b++ {
			// pre-generate the batch so that the PRNG is used by the controller only
			type action func()
			var workers [][]action
			nw := 2 + rng.Intn(5)
			for w := 0; w < nw; w++ {
				var acts []action
				for k := 1 + rng.Intn(5); k > 0; k-- {
					switch op := rng.Intn(16); {
					case op < 7:
						mu := genMutation(rng, m)
						acts = append(acts, func() { m.mutate(mu) })
					case op < 10:
						svc, bh := services[rng.Intn(len(services))], genBehav(rng)
						acts = append(acts, func() { m.startWatch(svc, bh) })
					case op < 12:
						pick := rng.Intn(1 << 20)
						acts = append(acts, func() {
							if ss := m.liveStreams(func(s *stream) bool { return s.gate != nil }); len(ss) > 0 {
								m.release(ss[pick%len(ss)])
							}
						})
					case op < 13:
						pick := rng.Intn(1 << 20)
						acts = append(acts, func() {
							if ss := m.liveStreams(nil); len(ss) > 0 {
								m.cancelStream(ss[pick%len(ss)])
							}
						})
					case op < 15:
						svc := services[rng.Intn(len(services))]
						acts = append(acts, func() { m.check(svc) })
					default:
						d := time.Duration(rng.Intn(3)) * time.Millisecond
						acts = append(acts, func() { time.Sleep(d) })
					}
				}
				workers = append(workers, acts)
			}
			var wg sync.WaitGroup
			for _, acts := range workers {
				wg.Add(1)
				go func() {
					defer wg.Done()
					time.Sleep(time.Microsecond) // all workers wake at the same virtual instant and run in parallel
					for _, a := range acts {
						a()
					}
				}()
			}
			wg.Wait()
			synctest.Wait()
			if !m.quiescent(fmt.Sprintf("after batch %d", b)) {
				return
			}
		}
		for round := 0; round < 8; round++ {
			for _, s := range m.liveStreams(nil) {
				m.release(s)
			}
			time.Sleep(10 * time.Millisecond)
			synctest.Wait()
			if !m.quiescent("final drain") {
				return
			}
		}
		m.judge()
		if !m.bad {
			m.finish(r, true)
		}
	})
}

var theSpec = vlib.Spec{
	Level: "exploration",
	Rule:  "synctest bubbles; seq: PRNG scripts of 10-50 steps (Set/Shutdown/Resume on 4 service names incl. a never/late-registered one, Watch with per-Send behaviour pass/sleep/gate/fail, open gate, cancel, Check, advance time) with synctest.Wait() and a quiescent audit after every step; conc: 2-6 batches of 2-6 goroutines x 1-5 such calls released at the same virtual instant under -race, quiescent audit between batches; history oracles (interval-stamped) at the end; distinct = feature flags (gated/sleeping Sends, skipped intermediate statuses, shutdown/resume, ignored set, late registration, failed Send, cancel, several watchers) and their combination per case with stream count",
	Assumptions: []string{
		"reference: map service->status + shutdown flag, written from the statement; never-registered services stay SERVICE_UNKNOWN/NotFound also during shutdown (R2)",
		"mutations are serialised by the monitor (channel lock) to obtain a total order; Watch/Check/Send are judged against the interval of model states between their call and return stamps",
		"quiescence = synctest.Wait(); a health.Server call still pending there is reported as blocked by a slow watcher",
	},
	Floor: 25,
}

func TestVerifC54(t *testing.T) {
	r := vlib.Start(t, "C54")
	stop := r.Watchdog(8 * time.Minute)
	defer stop()
	n := r.N(1200, 20000)
	for i := 0; i < n; i++ {
		if r.Want("seq", i) {
			seqCase(t, r, "seq", i)
		}
	}
	// a server call blocked by a watcher would hang the concurrent family (mutex
	// waiters are not durably blocked): only run it when the sequential family is clean
	if r.Violations() == 0 {
		n = r.N(2400, 30000)
		for i := 0; i < n; i++ {
			if r.Want("conc", i) {
				concCase(t, r, "conc", i)
			}
		}
	}
	r.Finish(theSpec)
}
