//go:build race

package c54

const raceOn = true
