// C54 stress family: real goroutines, real scheduler (no synctest bubble).
//
// The bubble families of c54_test.go serialise mutations to get a total order,
// so a SetServingStatus never overlaps a Shutdown there.  This family lets them
// race for real: per trial 2-6 setter goroutines flip 1-3 services through
// SERVING / NOT_SERVING / UNKNOWN / SERVICE_UNKNOWN (every call asks for a value
// different from the previous one of that setter) and are released by a
// barrier together with one Shutdown().
//
// Safety facts judged after Shutdown() has RETURNED and every setter is joined
// (the state is stable then: nothing else mutates the server):
//   - Check(svc) == NOT_SERVING for every service registered before the barrier
//     (NOT_SERVING or NotFound for a service first set during the race: its
//     registration may legitimately have been ignored);
//   - every entry of List is NOT_SERVING;
//   - the last status delivered to every open Watch stream becomes NOT_SERVING
//     (SERVICE_UNKNOWN only for a stream on a name Check reports NotFound);
//     this is polled — a stream that has not converged when the generous
//     watchdog fires makes the run INCONCLUSIVE, never a violation (rule 1);
//   - then Resume(): every registered service reads SERVING, and
//     SetServingStatus works again.
//
// Call/return stamps from one atomic counter tell whether a setter call really
// overlapped Shutdown; a run in which that never happened is INCONCLUSIVE.
package c54

import (
	"context"
	"fmt"
	"runtime"
	"sync"
	"sync/atomic"
	"testing"
	"time"

	"google.golang.org/grpc/codes"
	"google.golang.org/grpc/health"
	healthpb "google.golang.org/grpc/health/grpc_health_v1"
	"google.golang.org/grpc/metadata"
	"google.golang.org/grpc/status"
	"google.golang.org/grpc/verif/vlib"
)

type stressStream struct {
	ctx  context.Context
	mu   sync.Mutex
	recv []st
	slow int
}

func (s *stressStream) Send(resp *healthpb.HealthCheckResponse) error {
	for i := 0; i < s.slow; i++ {
		runtime.Gosched()
	}
	s.mu.Lock()
	s.recv = append(s.recv, resp.GetStatus())
	s.mu.Unlock()
	return nil
}
func (s *stressStream) last() (st, int) {
	s.mu.Lock()
	defer s.mu.Unlock()
	if len(s.recv) == 0 {
		return st(-1), 0
	}
	return s.recv[len(s.recv)-1], len(s.recv)
}
func (s *stressStream) Context() context.Context     { return s.ctx }
func (s *stressStream) SetHeader(metadata.MD) error  { return nil }
func (s *stressStream) SendHeader(metadata.MD) error { return nil }
func (s *stressStream) SetTrailer(metadata.MD)       {}
func (s *stressStream) SendMsg(any) error            { return nil }
func (s *stressStream) RecvMsg(any) error            { return nil }

var stressCycle = []st{stServing, stNotServing, stUnknown, stServiceUnknown}

// pollUntil polls cond with Gosched/short sleeps; false when the generous budget is exhausted.
func pollUntil(cond func() bool) bool {
	deadline := time.Now().Add(20 * time.Second)
	for i := 0; ; i++ {
		if cond() {
			return true
		}
		if i < 200 {
			runtime.Gosched()
		} else {
			time.Sleep(200 * time.Microsecond)
		}
		if i%64 == 63 && time.Now().After(deadline) {
			return false
		}
	}
}

func checkStatus(srv *health.Server, svc string) st {
	resp, err := srv.Check(context.Background(), &healthpb.HealthCheckRequest{Service: svc})
	if err != nil {
		if status.Code(err) == codes.NotFound {
			return stNotFound
		}
		return st(-1)
	}
	return resp.GetStatus()
}

func TestVerifC54Stress(t *testing.T) {
	r := vlib.Start(t, "C54")
	stop := r.Watchdog(8 * time.Minute)
	defer stop()
	const fam = "stress"
	n := r.N(15000, 200000)
	if raceOn {
		n = r.N(5000, 60000)
	}
	oldProcs := runtime.GOMAXPROCS(0)
	defer runtime.GOMAXPROCS(oldProcs)
	procsChoices := []int{2, 4, oldProcs, 4 * oldProcs}
	var overlappedTrials, overlapCalls, watchConverged int64
	inconclusiveOnce := false
	for i := 0; i < n; i++ {
		if !r.Want(fam, i) {
			continue
		}
		rng := r.Rand(fam, i)
		if i%100 == 0 || r.Replaying() != nil {
			runtime.GOMAXPROCS(procsChoices[(i/100)%len(procsChoices)])
		}
		procs := runtime.GOMAXPROCS(0)
		nsvc := 1 + rng.Intn(3)
		svcs := []string{"", "a", "b"}[:nsvc]
		nset := 2 + rng.Intn(5)
		nwatch := rng.Intn(4)
		srv := health.NewServer()
		registered := map[string]bool{"": true}
		for _, s := range svcs[1:] {
			if rng.Intn(4) > 0 {
				srv.SetServingStatus(s, stressCycle[rng.Intn(4)])
				registered[s] = true
			}
		}
		desc := fmt.Sprintf("services=%d(pre-registered %d) setters=%d watchers=%d GOMAXPROCS=%d race=%v", nsvc, len(registered), nset, nwatch, procs, raceOn)
		fail := func(key, f string, a ...any) {
			r.Violation(key, fam, i, map[string]any{"params": desc}, "[%s] "+f, append([]any{desc}, a...)...)
		}
		// watchers
		ctx, cancel := context.WithCancel(context.Background())
		var streams []*stressStream
		var streamSvc []string
		var watchWG sync.WaitGroup
		for w := 0; w < nwatch; w++ {
			ss := &stressStream{ctx: ctx, slow: rng.Intn(4)}
			svc := svcs[rng.Intn(nsvc)]
			streams, streamSvc = append(streams, ss), append(streamSvc, svc)
			watchWG.Add(1)
			go func() {
				defer watchWG.Done()
				_ = srv.Watch(&healthpb.HealthCheckRequest{Service: svc}, ss)
			}()
		}
		finish := func() bool {
			cancel()
			done := make(chan struct{})
			go func() { watchWG.Wait(); close(done) }()
			select {
			case <-done:
				return true
			case <-time.After(30 * time.Second):
				r.Inconclusive("stress trial %d: Watch goroutines did not return 30s after cancel", i)
				return false
			}
		}
		if !pollUntil(func() bool {
			for _, ss := range streams {
				if _, k := ss.last(); k == 0 {
					return false
				}
			}
			return true
		}) {
			r.Inconclusive("stress trial %d: a Watch stream did not receive its initial status within the watchdog", i)
			finish()
			break
		}
		// the race
		var clock atomic.Int64
		type span struct{ call, ret int64 }
		spans := make([][]span, nset)
		start := make(chan struct{})
		var wg sync.WaitGroup
		for g := 0; g < nset; g++ {
			svc := svcs[rng.Intn(nsvc)]
			calls := 4 + rng.Intn(40)
			phase := rng.Intn(4)
			yield := rng.Intn(3)
			wg.Add(1)
			go func(g int) {
				defer wg.Done()
				<-start
				for k := 0; k < calls; k++ {
					v := stressCycle[(phase+k)%4]
					c := clock.Add(1)
					srv.SetServingStatus(svc, v)
					spans[g] = append(spans[g], span{c, clock.Add(1)})
					if yield > 0 && k%yield == 0 {
						runtime.Gosched()
					}
				}
			}(g)
		}
		var sdCall, sdRet int64
		sdYield := rng.Intn(30)
		wg.Add(1)
		go func() {
			defer wg.Done()
			<-start
			for k := 0; k < sdYield; k++ {
				runtime.Gosched()
			}
			sdCall = clock.Add(1)
			srv.Shutdown()
			sdRet = clock.Add(1)
		}()
		close(start)
		wg.Wait()
		ov := 0
		for _, sp := range spans {
			for _, s := range sp {
				if s.call < sdRet && s.ret > sdCall {
					ov++
				}
			}
		}
		if ov > 0 {
			overlappedTrials++
			overlapCalls += int64(ov)
		}
		// ---- safety facts: Shutdown has returned, every setter is joined
		ok := true
		got := map[string]st{}
		for _, s := range svcs {
			v := checkStatus(srv, s)
			got[s] = v
			if v == stNotServing || (v == stNotFound && !registered[s]) {
				continue
			}
			fail("not-serving-after-shutdown-violated", "after Shutdown() returned (no Resume) and all %d setters finished (%d setter calls overlapped Shutdown), Check(%q) = %v, want NOT_SERVING", nset, ov, s, v)
			ok = false
			break
		}
		if ok {
			lr, err := srv.List(context.Background(), &healthpb.HealthListRequest{})
			if err != nil {
				fail("list-failed", "List: %v", err)
				ok = false
			} else {
				for name, e := range lr.GetStatuses() {
					if e.GetStatus() != stNotServing {
						fail("not-serving-after-shutdown-violated", "after Shutdown() returned and all setters finished, List reports %q = %v, want NOT_SERVING", name, e.GetStatus())
						ok = false
						break
					}
				}
			}
		}
		if ok {
			for w, ss := range streams {
				want := stNotServing
				if got[streamSvc[w]] == stNotFound {
					want = stServiceUnknown
				}
				if !pollUntil(func() bool { v, _ := ss.last(); return v == want }) {
					v, k := ss.last()
					if !inconclusiveOnce {
						inconclusiveOnce = true
						r.Inconclusive("stress trial %d: Watch stream on %q still shows %v (%d statuses) 20s after Shutdown returned, want %v; Check already reads %v — wall-clock wait, not judged", i, streamSvc[w], v, k, want, got[streamSvc[w]])
					}
					ok = false
					break
				}
				watchConverged++
			}
		}
		// ---- Resume: everything registered is SERVING, and sets work again
		if ok && rng.Intn(2) == 0 {
			srv.Resume()
			for _, s := range svcs {
				v := checkStatus(srv, s)
				if v == stServing || (v == stNotFound && got[s] == stNotFound) {
					continue
				}
				fail("not-serving-after-resume", "after Resume() Check(%q) = %v, want SERVING", s, v)
				ok = false
				break
			}
			if ok {
				s := svcs[rng.Intn(nsvc)]
				v := stressCycle[1+rng.Intn(3)]
				srv.SetServingStatus(s, v)
				if g := checkStatus(srv, s); g != v {
					fail("set-ignored-after-resume", "after Resume(), SetServingStatus(%q,%v) then Check = %v", s, v, g)
					ok = false
				}
			}
		}
		if !finish() {
			break
		}
		if !ok && r.Violations() > 3 {
			break
		}
		r.Eval(1)
		if ov > 0 {
			b := 0
			for x := ov; x > 0; x >>= 1 {
				b++
			}
			r.Nontrivial(fmt.Sprintf("stress/race=%v/procs%d/setters%d/svcs%d/watch=%v/overlap~2^%d", raceOn, procs, (nset+1)/2, nsvc, nwatch > 0, b))
		}
		if i < 2 {
			r.Sample(map[string]any{"family": fam, "case": i, "params": desc, "setter_calls_overlapping_shutdown": ov})
		}
	}
	r.Count("stress_trials_with_setter_overlapping_shutdown", overlappedTrials)
	r.Count("stress_setter_calls_overlapping_shutdown", overlapCalls)
	r.Count("stress_watch_streams_converged", watchConverged)
	if overlappedTrials == 0 && r.Replaying() == nil {
		r.Inconclusive("no SetServingStatus call ever overlapped Shutdown(): the race was not exercised")
	}
	r.Finish(vlib.Spec{
		Level: "exploration",
		Rule:  "stress (real goroutines, no bubble): per trial 2-6 setters x 4-43 status-changing SetServingStatus calls on 1-3 services released by a barrier together with one Shutdown() (0-29 Gosched of head start), 0-3 open Watch streams, GOMAXPROCS cycled over {2,4,N,4N} every 100 trials, run once with and once without -race; judged after Shutdown returned and all setters joined: Check/List NOT_SERVING, streams converge (polled; watchdog => inconclusive), Resume => SERVING and sets work; distinct = (race, GOMAXPROCS, setters, services, watchers, log2 of setter calls whose call/return stamps overlapped Shutdown) of trials with at least one overlapping call",
		Assumptions: []string{
			"overlap is measured with call/return stamps from one atomic counter; a run without any overlapping setter call is INCONCLUSIVE",
			"schedules are sampled by the real scheduler (GOMAXPROCS variation, Gosched), not enumerated",
		},
		Floor: 10,
	})
}
