package c27

import (
	"context"
	"fmt"
	"io"
	"math/rand"
	"sync"
	"testing"
	"testing/synctest"
	"time"

	"golang.org/x/net/http2"
	"google.golang.org/grpc"
	"google.golang.org/grpc/codes"
	"google.golang.org/grpc/status"
	"google.golang.org/grpc/verif/msgfix"
	"google.golang.org/grpc/verif/vlib"
	"google.golang.org/grpc/verif/wire"
)

// Family retry (engine E1): the decompressor is a property of the ATTEMPT, not
// of the RPC.  A real client with a retry policy talks to a scripted server
// that answers the first 1-3 attempts Trailers-Only UNAVAILABLE — each with its
// own grpc-encoding value A_k (absent, identity, gzip, vz-a, vz-b, lz-q,
// unregistered: a Trailers-Only block may carry the header) — and the last
// attempt with a full response under encoding B.  The client must decode the
// messages of the last attempt with the compressor named by THAT attempt's
// grpc-encoding and deliver exactly the reference bytes; every attempt's
// request must obey the sender rules.
//
// (pair family: the same with a real server whose handler refuses the first
// attempts, see pairSc.FailFirst.)

// retryServiceConfig makes every /verif.Comp/ method retry UNAVAILABLE up to 5
// attempts.  Backoff is virtual time inside the bubble.
const retryServiceConfig = `{"methodConfig":[{"name":[{"service":"verif.Comp"}],
 "retryPolicy":{"maxAttempts":5,"initialBackoff":"0.1s","maxBackoff":"1s","backoffMultiplier":2,"retryableStatusCodes":["UNAVAILABLE"]}}]}`

// backoffHorizon is longer than any backoff the policy can draw (1s * 1.2).
const backoffHorizon = 3 * time.Second

type retrySc struct {
	C       cliCfg    `json:"c"`
	Fails   []string  `json:"fails"`   // grpc-encoding of each refused (Trailers-Only UNAVAILABLE) attempt, "" = header absent
	RspEnc  string    `json:"rsp_enc"` // grpc-encoding of the final attempt's response
	Req     []int     `json:"req"`
	Rsp     []msgSpec `json:"rsp"`
	PK      int       `json:"pk"`
	Tag     uint32    `json:"tag"`
	SplitSd int64     `json:"split"`
}

func genRetry(rng *rand.Rand, i int) retrySc {
	sc := retrySc{PK: rng.Intn(3), Tag: rng.Uint32(), SplitSd: rng.Int63()}
	n := len(reqEncChoices)
	// must-hit prefix: the index walks first-attempt encoding x final encoding
	sc.Fails = []string{reqEncChoices[i%n]}
	sc.RspEnc = reqEncChoices[(i/n)%n]
	for k := vlib.Pick(rng, 0, 0, 1, 2); k > 0; k-- {
		sc.Fails = append(sc.Fails, vlib.Pick(rng, reqEncChoices...))
	}
	sc.C.Use = useChoices[(i/(n*n))%(len(useChoices)-1)] // never the unregistered name
	sc.C.Cp = vlib.Pick(rng, legacyChoices...)
	sc.C.Dc = vlib.Pick(rng, legacyChoices...)
	switch rng.Intn(4) {
	case 0: // a legacy decompressor matching the final encoding (gzip or custom)
		if sc.RspEnc == msgfix.Gzip || sc.RspEnc == msgfix.LZQ || sc.RspEnc == msgfix.VZA {
			sc.C.Dc = sc.RspEnc
		}
	case 1: // ... or matching a refused attempt's encoding
		if a := sc.Fails[0]; a == msgfix.Gzip || a == msgfix.LZQ || a == msgfix.VZA {
			sc.C.Dc = a
		}
	}
	if rng.Intn(4) == 0 {
		sc.C.Accept = vlib.Pick(rng, acceptChoices[3:9]...) // never the unregistered name
	}
	for k := 1 + rng.Intn(2); k > 0; k-- {
		sc.Req = append(sc.Req, vlib.Pick(rng, 0, 1, 17, 300, 5000))
	}
	sc.Rsp = genMsgs(rng, sc.RspEnc, 1+rng.Intn(3))
	return sc
}

// newStreamAfter returns the id of the first client-opened stream above last.
func newStreamAfter(peer *wire.Peer, last uint32) uint32 {
	for _, e := range peer.Log() {
		if e.Dir == wire.In && e.Type == http2.FrameHeaders && e.Stream > last {
			return e.Stream
		}
	}
	return 0
}

func runRetry(sc retrySc) (*msgfix.Findings, string) {
	f := msgfix.NewFindings()
	dopts := append(sc.C.dialOpts(), grpc.WithDefaultServiceConfig(retryServiceConfig))
	fx, err := wire.NewClientFixture(dopts...)
	if err != nil {
		f.Add("harness", "fixture: %v", err)
		return f, ""
	}
	reqMsgs := payloads(sc.Tag, sc.Req, sc.PK)
	cl := &clientRec{}
	ctx, cancel := context.WithCancel(context.Background())
	var wg msgfix.Group
	wg.Add()
	go func() {
		defer wg.Done()
		st, err := fx.CC.NewStream(ctx, &grpc.StreamDesc{ClientStreams: true, ServerStreams: true}, "/verif.Comp/Call", sc.C.callOpts()...)
		if err != nil {
			cl.mu.Lock()
			cl.streamErr, cl.done = err, true
			cl.mu.Unlock()
			return
		}
		for _, m := range reqMsgs {
			if st.SendMsg(m) != nil {
				break
			}
		}
		st.CloseSend()
		for {
			var m []byte
			err := st.RecvMsg(&m)
			cl.mu.Lock()
			if err != nil {
				cl.err, cl.done = err, true
				cl.mu.Unlock()
				return
			}
			cl.got = append(cl.got, m)
			cl.mu.Unlock()
		}
	}()
	finish := func() {
		cancel()
		fx.CC.Close()
	}
	peer := fx.Accept()
	if err := peer.Start(bigWindow); err != nil {
		f.Add("harness", "start: %v", err)
		finish()
		wg.Wait()
		return f, ""
	}
	peer.WriteWindowUpdate(0, 1<<24)
	synctest.Wait()
	defer func() {
		finish()
		peer.Close()
		wg.Wait()
		<-peer.Done()
	}()

	restrict := acceptRestriction(sc.C.Accept)
	excluded := func(enc string) bool { return len(restrict) > 0 && !identity(enc) && !contains(restrict, enc) }
	anyExcluded := excluded(sc.RspEnc)
	var id uint32
	checkRequest := func(k int) bool {
		id = newStreamAfter(peer, id)
		if id == 0 {
			return false
		}
		req := viewFromLog(peer.Log(), id)
		sv := f.CheckSender("client", req, reqMsgs)
		if want := sc.C.wantReqEnc(); sv.Encoding != want && !(identity(want) && identity(sv.Encoding)) {
			f.Add("request-encoding-not-as-configured", "attempt %d: client configured with UseCompressor(%q) / WithCompressor(%q) sent grpc-encoding %q, want %q", k+1, sc.C.Use, sc.C.Cp, sv.Encoding, want)
		}
		if len(sv.Plain) != len(reqMsgs) || !req.Ended {
			f.Add("request-incomplete", "attempt %d: the application sent %d messages and half-closed; the wire shows %d complete messages, END_STREAM=%v", k+1, len(reqMsgs), len(sv.Plain), req.Ended)
		}
		f.C["retry_attempts_on_wire"]++
		return true
	}
	for k, a := range sc.Fails {
		if !checkRequest(k) {
			// Whether a retry happens is C18's business; without the next attempt
			// there is nothing to judge here.
			cl.mu.Lock()
			err, serr := cl.err, cl.streamErr
			cl.mu.Unlock()
			f.C["retry_not_attempted_code_"+msgfix.CodeOf(err).String()]++
			if k == 0 {
				f.Add("harness", "client never opened a stream: %v", serr)
			}
			return f, ""
		}
		tr := wire.TrailersOnly(int(codes.Unavailable), "attempt refused")
		if a != "" {
			tr = append(tr, wire.F("grpc-encoding", a))
		}
		peer.WriteHeaders(id, true, 0, tr...)
		if excluded(a) {
			anyExcluded = true
		}
		synctest.Wait()
		time.Sleep(backoffHorizon) // virtual: lets the backoff timer of the retry fire
		synctest.Wait()
	}
	if !checkRequest(len(sc.Fails)) {
		cl.mu.Lock()
		err := cl.err
		cl.mu.Unlock()
		f.C["retry_not_attempted_code_"+msgfix.CodeOf(err).String()]++
		return f, ""
	}
	hdr := wire.ResponseHeaders()
	if sc.RspEnc != "" {
		hdr = append(hdr, wire.F("grpc-encoding", sc.RspEnc))
	}
	peer.WriteHeaders(id, false, 0, hdr...)
	stream := buildStream(sc.RspEnc, sc.Tag^0x9e3779b9, sc.PK, sc.Rsp)
	writeChunks(peer, id, stream, false, rand.New(rand.NewSource(sc.SplitSd)))
	peer.WriteHeaders(id, true, 0, wire.Trailers(0, "")...)
	synctest.Wait()

	// The reference only knows the final attempt: its encoding, its bytes.
	rsC := msgfix.RecvSide{Limit: defaultLimit, Encoding: sc.RspEnc, Usable: registered(sc.RspEnc) || (sc.C.Dc != "" && sc.C.Dc == sc.RspEnc)}
	exC := msgfix.Reference(stream, rsC)
	cl.mu.Lock()
	obC := msgfix.Observed{Who: "client", Msgs: cl.got, Err: cl.err, Done: cl.done, WireStatus: 0, Terminal: true}
	cl.mu.Unlock()
	if anyExcluded {
		// an encoding outside experimental.AcceptCompressors was seen on some
		// attempt: rejection is documented; only undecoded delivery is judged
		f.PrefixOK(exC, obC, rsC)
		f.C["response_encoding_outside_accept_option_code_"+msgfix.CodeOf(obC.Err).String()]++
	} else {
		before := len(f.V)
		f.JudgeRecv(exC, obC, rsC)
		if exC.End == msgfix.EndClean && obC.Done && len(obC.Msgs) == len(exC.Msgs) && obC.Err != io.EOF {
			f.Add("clean-stream-failed", "client: every response message of the final attempt is acceptable (grpc-encoding %q, WithDecompressor %q) and its trailers say OK but RecvMsg ended with %v", sc.RspEnc, sc.C.Dc, obC.Err)
		}
		for j := before; j < len(f.V); j++ {
			f.V[j].Msg += fmt.Sprintf(" [attempt %d of a retried RPC; the refused attempts carried grpc-encoding %q, this attempt %q]", len(sc.Fails)+1, sc.Fails, sc.RspEnc)
		}
	}
	f.C["end_client_"+exC.End]++
	f.C["retried_rpcs_judged"]++
	diff := "same"
	if sc.Fails[len(sc.Fails)-1] != sc.RspEnc {
		diff = "differs"
	}
	return f, fmt.Sprintf("retry/fail0=%s/rsp=%s/%s/dc=%s/%s/%v", sc.Fails[0], sc.RspEnc, diff, sc.C.Dc, exC.End, anyExcluded)
}

// failFirst wraps a handler: the first n invocations are refused with
// UNAVAILABLE before anything is read or sent (Trailers-Only response without
// grpc-encoding), so that a client with a retry policy makes n+1 attempts.
func failFirst(n int, inner grpc.StreamHandler) grpc.StreamHandler {
	var mu sync.Mutex
	seen := 0
	return func(srv any, ss grpc.ServerStream) error {
		mu.Lock()
		seen++
		refuse := seen <= n
		mu.Unlock()
		if refuse {
			return status.Error(codes.Unavailable, "attempt refused")
		}
		return inner(srv, ss)
	}
}

func runRetryFamily(t *testing.T, r *vlib.Run) {
	if !famOK("retry") {
		return
	}
	n := r.N(490, 4900) / div()
	for i := 0; i < n; i++ {
		if !r.Want("retry", i) {
			continue
		}
		sc := genRetry(r.Rand("retry", i), i)
		r.Progress("retry", i, fmt.Sprintf("%+v", sc))
		var f *msgfix.Findings
		var sig string
		synctest.Test(t, func(t *testing.T) { f, sig = runRetry(sc) })
		report(r, "retry", i, sc, f, sig)
	}
}
