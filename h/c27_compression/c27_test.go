// C27: compression is negotiated and applied consistently.
//
// Family pair (engine E2): a real client and a real server negotiate over a
// tapped memconn; flag bytes, grpc-encoding and grpc-accept-encoding are read
// from the tapped bytes with an independent HTTP/2 + HPACK decoder.
// Families srv / cli (engine E1, wire_test.go): the scripted peer plays the
// other side so that header values and flag bytes a real peer never produces
// (odd accept lists, unknown encodings, uncompressed messages on a compressed
// stream) are covered and read from the peer's frame log.
package c27

import (
	"context"
	"fmt"
	"io"
	"math/rand"
	"os"
	"sort"
	"strconv"
	"strings"
	"sync"
	"testing"
	"testing/synctest"
	"time"

	"google.golang.org/grpc"
	"google.golang.org/grpc/codes"
	"google.golang.org/grpc/experimental"
	"google.golang.org/grpc/verif/msgfix"
	"google.golang.org/grpc/verif/vlib"
)

const defaultLimit = 4 << 20

func light() bool { return os.Getenv("VERIF_LIGHT") != "" }

func registered(name string) bool {
	return name == msgfix.Gzip || name == msgfix.VZA || name == msgfix.VZB
}

func identity(name string) bool { return name == "" || name == "identity" }

// cliCfg: how the client application is configured.
type cliCfg struct {
	Use    string   `json:"use"`    // grpc.UseCompressor(name); "" = not used
	Cp     string   `json:"cp"`     // grpc.WithCompressor: "" | gzip (grpc.NewGZIPCompressor) | lz-q | vz-a (msgfix.LegacyCompressor)
	Dc     string   `json:"dc"`     // grpc.WithDecompressor: same choices
	Accept []string `json:"accept"` // experimental.AcceptCompressors(names...); nil = not used
}

// srvCfg: how the server and its handler are configured.
type srvCfg struct {
	Cp  string   `json:"cp"`  // grpc.RPCCompressor
	Dc  string   `json:"dc"`  // grpc.RPCDecompressor
	Set []string `json:"set"` // grpc.SetSendCompressor(ctx, name) calls made by the handler before its first send
}

func legacyCp(name string) grpc.Compressor {
	switch name {
	case "":
		return nil
	case "gzip":
		return grpc.NewGZIPCompressor()
	}
	return msgfix.LegacyCompressor{Legacy: msgfix.Legacy{TypeName: name}}
}

func legacyDc(name string) grpc.Decompressor {
	switch name {
	case "":
		return nil
	case "gzip":
		return grpc.NewGZIPDecompressor()
	}
	return msgfix.LegacyDecompressor{Legacy: msgfix.Legacy{TypeName: name}}
}

func (c cliCfg) dialOpts() []grpc.DialOption {
	var o []grpc.DialOption
	if cp := legacyCp(c.Cp); cp != nil {
		o = append(o, grpc.WithCompressor(cp))
	}
	if dc := legacyDc(c.Dc); dc != nil {
		o = append(o, grpc.WithDecompressor(dc))
	}
	return o
}

func (c cliCfg) callOpts() []grpc.CallOption {
	var o []grpc.CallOption
	if c.Use != "" {
		o = append(o, grpc.UseCompressor(c.Use))
	}
	if c.Accept != nil {
		o = append(o, experimental.AcceptCompressors(c.Accept...))
	}
	return o
}

// wantReqEnc is the request encoding the API documentation promises:
// UseCompressor wins over WithCompressor.
func (c cliCfg) wantReqEnc() string {
	if c.Use != "" {
		return c.Use
	}
	return c.Cp
}

func (s srvCfg) serverOpts() []grpc.ServerOption {
	var o []grpc.ServerOption
	if cp := legacyCp(s.Cp); cp != nil {
		o = append(o, grpc.RPCCompressor(cp))
	}
	if dc := legacyDc(s.Dc); dc != nil {
		o = append(o, grpc.RPCDecompressor(dc))
	}
	return o
}

// handlerRec is what the server handler did and saw.
type handlerRec struct {
	mu        sync.Mutex
	invoked   bool
	got       [][]byte
	recvErr   error
	recvDone  bool
	setErr    []error
	supported []string
	sent      [][]byte
	sendErr   error
	finished  bool
}

// makeHandler: read all requests, call SetSendCompressor as scripted, send the responses.
func makeHandler(h *handlerRec, s srvCfg, rsp [][]byte, wg *msgfix.Group) grpc.StreamHandler {
	return func(_ any, ss grpc.ServerStream) error {
		wg.Add()
		defer wg.Done()
		h.mu.Lock()
		h.invoked = true
		h.mu.Unlock()
		for {
			var m []byte
			err := ss.RecvMsg(&m)
			h.mu.Lock()
			if err != nil {
				h.recvErr, h.recvDone = err, true
				h.mu.Unlock()
				if err != io.EOF {
					return err
				}
				break
			}
			h.got = append(h.got, m)
			h.mu.Unlock()
		}
		sup, _ := grpc.ClientSupportedCompressors(ss.Context())
		h.mu.Lock()
		h.supported = sup
		h.mu.Unlock()
		for _, name := range s.Set {
			err := grpc.SetSendCompressor(ss.Context(), name)
			h.mu.Lock()
			h.setErr = append(h.setErr, err)
			h.mu.Unlock()
		}
		for _, m := range rsp {
			h.mu.Lock()
			h.sent = append(h.sent, m)
			h.mu.Unlock()
			if err := ss.SendMsg(m); err != nil {
				h.mu.Lock()
				h.sendErr = err
				h.mu.Unlock()
				return err
			}
		}
		h.mu.Lock()
		h.finished = true
		h.mu.Unlock()
		return nil
	}
}

// advertised parses every grpc-accept-encoding value of a request header block.
func advertised(sv *msgfix.StreamView) (list []string, present bool) {
	for _, f := range sv.Headers {
		if f.Name == "grpc-accept-encoding" {
			present = true
			for _, n := range strings.Split(f.Value, ",") {
				if n = strings.TrimSpace(n); n != "" {
					list = append(list, n)
				}
			}
		}
	}
	return list, present
}

// acceptRestriction is the effective list of experimental.AcceptCompressors
// (identity and blanks are skipped; an empty result means "no restriction").
func acceptRestriction(names []string) []string {
	var out []string
	for _, n := range names {
		if n = strings.TrimSpace(n); n != "" && n != "identity" && !contains(out, n) {
			out = append(out, n)
		}
	}
	return out
}

// lastSetOK returns the name of the handler's last successful SetSendCompressor.
func lastSetOK(s srvCfg, h *handlerRec) (string, bool) {
	h.mu.Lock()
	defer h.mu.Unlock()
	name, ok := "", false
	for k, err := range h.setErr {
		if err == nil {
			name, ok = s.Set[k], true
		}
	}
	return name, ok
}

// specialise renames the generic sender finding for the one configuration in
// which it is a recorded defect of its own (legacy RPCCompressor + explicit
// SetSendCompressor("identity")), so that every other occurrence still fails.
func specialise(f *msgfix.Findings, s srvCfg, h *handlerRec) {
	last, ok := lastSetOK(s, h)
	if !ok || !identity(last) || s.Cp == "" {
		return
	}
	for i := range f.V {
		if f.V[i].Key == "compressed-flag-on-identity-stream" && strings.HasPrefix(f.V[i].Msg, "server ") {
			f.V[i].Key = "rpccompressor-compresses-after-identity-send-compressor"
			f.V[i].Msg += fmt.Sprintf(" [server has RPCCompressor(%q) and the handler's SetSendCompressor(\"identity\") succeeded: the headers say identity but the legacy compressor is still applied]", s.Cp)
		}
	}
}

func contains(l []string, s string) bool {
	for _, x := range l {
		if x == s {
			return true
		}
	}
	return false
}

// judgeNegotiation applies the server-side rules of the statement to what the
// wire shows.  adv = names the client advertised (from the wire), reqEnc = the
// encoding the client used (from the wire), rspEnc = the response's
// grpc-encoding (from the wire).
func judgeNegotiation(f *msgfix.Findings, s srvCfg, h *handlerRec, adv []string, reqEnc, rspEnc string, headersSeen bool) {
	h.mu.Lock()
	setErr := append([]error(nil), h.setErr...)
	h.mu.Unlock()
	last, lastOK := "", false
	for k, err := range setErr {
		name := s.Set[k]
		valid := name == "identity" || (registered(name) && contains(adv, name))
		switch {
		case err == nil && !valid:
			f.Add("set-send-compressor-accepted-unadvertised", "SetSendCompressor(%q) returned nil although the client advertised only %v (request grpc-encoding %q)", name, adv, reqEnc)
		case err != nil && valid:
			f.Add("set-send-compressor-rejected-valid", "SetSendCompressor(%q) failed with %v although the name is registered and the client advertised %v", name, err, adv)
		}
		if err == nil {
			last, lastOK = name, true
			f.C["set_send_compressor_ok"]++
		} else {
			f.C["set_send_compressor_refused"]++
		}
	}
	if !headersSeen {
		return
	}
	if !identity(rspEnc) {
		switch {
		case rspEnc == reqEnc:
			f.C["response_encoding_same_as_request"]++
		case contains(adv, rspEnc):
			f.C["response_encoding_from_accept_list"]++
		case s.Cp != "" && rspEnc == s.Cp:
			// R2: grpc.RPCCompressor is documented to compress every response with
			// that compressor "regardless of incoming message compression".
			f.C["response_encoding_forced_by_legacy_rpccompressor"]++
		default:
			f.Add("response-encoding-not-negotiated", "the server answered with grpc-encoding %q; the client used %q and advertised %v (RPCCompressor=%q)", rspEnc, reqEnc, adv, s.Cp)
		}
	}
	if lastOK {
		if (identity(last) && !identity(rspEnc)) || (!identity(last) && rspEnc != last) {
			key := "send-compressor-not-applied"
			if s.Cp != "" && identity(last) {
				key = "identity-send-compressor-ignored-with-rpccompressor"
			}
			f.Add(key, "the handler's last successful SetSendCompressor(%q) is not what the response headers carry: grpc-encoding %q", last, rspEnc)
		}
	}
}

type pairSc struct {
	C cliCfg `json:"c"`
	S srvCfg `json:"s"`
	// FailFirst: the handler refuses the first n attempts with UNAVAILABLE
	// (Trailers-Only, no grpc-encoding); the client retries (service config
	// retry policy) and only the last attempt is answered.
	FailFirst int    `json:"fail_first"`
	Req       []int  `json:"req"`
	Rsp       []int  `json:"rsp"`
	PK        int    `json:"pk"`
	Tag       uint32 `json:"tag"`
}

var (
	useChoices    = []string{"", "", "identity", msgfix.Gzip, msgfix.VZA, msgfix.VZB, msgfix.Unknown}
	legacyChoices = []string{"", "", "", "gzip", msgfix.LZQ, msgfix.VZA}
	acceptChoices = [][]string{nil, nil, nil, {msgfix.Gzip}, {msgfix.VZA, msgfix.VZB}, {msgfix.Gzip, msgfix.VZA}, {"identity"}, {msgfix.VZB}, {}, {msgfix.Gzip, msgfix.Unknown}}
	setChoices    = []string{"identity", msgfix.Gzip, msgfix.VZA, msgfix.VZB, msgfix.LZQ, msgfix.Unknown}
)

func sizes(rng *rand.Rand, n int) []int {
	var s []int
	for k := 0; k < n; k++ {
		s = append(s, vlib.Pick(rng, 0, 0, 1, 2, 17, 300, 5000, rng.Intn(40000)))
	}
	return s
}

func genPair(rng *rand.Rand, i int) pairSc {
	sc := pairSc{PK: rng.Intn(3), Tag: rng.Uint32()}
	// must-hit prefix: the index walks the product use x server-set, the rest is drawn
	sc.C.Use = useChoices[i%len(useChoices)]
	sc.C.Cp = vlib.Pick(rng, legacyChoices...)
	sc.C.Dc = vlib.Pick(rng, legacyChoices...)
	if rng.Intn(3) == 0 {
		sc.C.Dc = sc.C.Cp
	}
	sc.C.Accept = vlib.Pick(rng, acceptChoices...)
	sc.S.Cp = vlib.Pick(rng, legacyChoices...)
	sc.S.Dc = vlib.Pick(rng, legacyChoices...)
	if rng.Intn(3) == 0 { // make the server able to read what the client's legacy compressor writes
		sc.S.Dc = sc.C.Cp
	}
	switch (i / len(useChoices)) % 4 {
	case 0:
	case 1:
		sc.S.Set = []string{setChoices[(i/(4*len(useChoices)))%len(setChoices)]}
	case 2:
		sc.S.Set = []string{vlib.Pick(rng, setChoices...), vlib.Pick(rng, setChoices...)}
	default:
		sc.S.Set = []string{vlib.Pick(rng, setChoices...)}
	}
	sc.Req = sizes(rng, 1+rng.Intn(3))
	sc.Rsp = sizes(rng, 1+rng.Intn(3))
	// period 9 is coprime with the periods of Use (7) and Set (28): every
	// combination meets every retry count; draws nothing from rng
	sc.FailFirst = []int{0, 1, 0, 2, 0, 1, 0, 0, 1}[i%9]
	if sc.FailFirst > 0 {
		// the replay buffer of a retriable RPC is 256 KB: stay well inside
		for k := range sc.Req {
			sc.Req[k] = min(sc.Req[k], 20000)
		}
	}
	return sc
}

func payloads(tag uint32, sz []int, pk int) [][]byte {
	var out [][]byte
	for i, s := range sz {
		out = append(out, msgfix.Pattern(tag+uint32(i)*977, s, pk))
	}
	return out
}

type clientRec struct {
	mu        sync.Mutex
	streamErr error
	got       [][]byte
	err       error
	done      bool
}

func runPair(sc pairSc) (*msgfix.Findings, string) {
	f := msgfix.NewFindings()
	h := &handlerRec{}
	var hwg msgfix.Group // not sync.WaitGroup: see msgfix.Group
	rspMsgs := payloads(sc.Tag^0x9e3779b9, sc.Rsp, sc.PK)
	reqMsgs := payloads(sc.Tag, sc.Req, sc.PK)
	handler := makeHandler(h, sc.S, rspMsgs, &hwg)
	dopts := sc.C.dialOpts()
	if sc.FailFirst > 0 {
		handler = failFirst(sc.FailFirst, handler)
		dopts = append(dopts, grpc.WithDefaultServiceConfig(retryServiceConfig))
	}
	p, err := msgfix.NewPair(handler, sc.S.serverOpts(), dopts)
	if err != nil {
		f.Add("harness", "pair: %v", err)
		return f, ""
	}
	cl := &clientRec{}
	ctx, cancel := context.WithCancel(context.Background())
	var wg msgfix.Group
	wg.Add()
	go func() {
		defer wg.Done()
		st, err := p.CC.NewStream(ctx, &grpc.StreamDesc{ClientStreams: true, ServerStreams: true}, "/verif.Comp/Call", sc.C.callOpts()...)
		if err != nil {
			cl.mu.Lock()
			cl.streamErr, cl.done = err, true
			cl.mu.Unlock()
			return
		}
		for _, m := range reqMsgs {
			if st.SendMsg(m) != nil {
				break
			}
		}
		st.CloseSend()
		for {
			var m []byte
			err := st.RecvMsg(&m)
			cl.mu.Lock()
			if err != nil {
				cl.err, cl.done = err, true
				cl.mu.Unlock()
				return
			}
			cl.got = append(cl.got, m)
			cl.mu.Unlock()
		}
	}()
	synctest.Wait()
	for k := 0; k < sc.FailFirst; k++ {
		time.Sleep(backoffHorizon) // virtual: the retry's backoff timer fires
		synctest.Wait()
	}
	sig := judgePair(f, sc, p, h, cl, reqMsgs)
	cancel()
	p.Close()
	wg.Wait()
	hwg.Wait()
	return f, sig
}

func judgePair(f *msgfix.Findings, sc pairSc, p *msgfix.Pair, h *handlerRec, cl *clientRec, reqMsgs [][]byte) string {
	cl.mu.Lock()
	streamErr, cgot, cerr, cdone := cl.streamErr, cl.got, cl.err, cl.done
	cl.mu.Unlock()
	if streamErr != nil {
		// The RPC was refused locally (unregistered UseCompressor / AcceptCompressors
		// name): nothing may have reached the wire.
		f.C["rpc_refused_locally_"+msgfix.CodeOf(streamErr).String()]++
		if p.Tap.Conns() > 0 {
			if c2s, _, err := p.Tap.Decode(0); err == nil && c2s[1] != nil {
				f.Add("refused-rpc-on-wire", "NewStream failed with %v but a request stream is on the wire", streamErr)
			}
		}
		if !(sc.C.Use == msgfix.Unknown || contains(sc.C.Accept, msgfix.Unknown)) {
			f.Add("rpc-refused-unexpectedly", "NewStream failed with %v for configuration %+v", streamErr, sc.C)
		}
		return "refused/" + sc.C.Use
	}
	c2s, s2c, derr := p.Tap.Decode(0)
	if derr != nil || p.Tap.Conns() != 1 || c2s[1] == nil {
		f.Add("harness", "tap: conns=%d err=%v", p.Tap.Conns(), derr)
		return ""
	}
	// every attempt is a stream of its own; the last one is the RPC's outcome
	last := uint32(1)
	for id := range c2s {
		if id > last {
			last = id
		}
	}
	attempts := int(last+1) / 2
	f.C["retry_attempts_on_wire"] += int64(attempts - 1)
	if attempts > sc.FailFirst+1 {
		f.Add("unexpected-attempt", "the handler refuses %d attempts but %d request streams are on the wire", sc.FailFirst, attempts)
	}
	// the refused attempts must obey the sender rules too
	for id := uint32(1); id < last; id += 2 {
		if c2s[id] != nil {
			f.CheckSender("client", c2s[id], reqMsgs)
		}
	}
	req, rsp := c2s[last], s2c[last]
	headersSeen := rsp != nil && len(rsp.Blocks) > 0
	if rsp == nil {
		rsp = &msgfix.StreamView{ID: 1}
	}
	// ---- client as sender ----
	sv := f.CheckSender("client", req, reqMsgs)
	reqEnc := sv.Encoding
	if want := sc.C.wantReqEnc(); reqEnc != want && !(identity(want) && identity(reqEnc)) {
		f.Add("request-encoding-not-as-configured", "client configured with UseCompressor(%q) / WithCompressor(%q) sent grpc-encoding %q, want %q", sc.C.Use, sc.C.Cp, reqEnc, want)
	}
	adv, advPresent := advertised(req)
	if len(acceptRestriction(sc.C.Accept)) == 0 {
		for _, n := range []string{msgfix.Gzip, msgfix.VZA, msgfix.VZB} {
			if !contains(adv, n) {
				f.Add("registered-compressor-not-advertised", "grpc-accept-encoding %v (present=%v) lacks the registered compressor %q", adv, advPresent, n)
			}
		}
	}
	// ---- server as receiver ----
	wireStatus := -1
	if v, ok := rsp.AnyField("grpc-status"); ok {
		wireStatus, _ = strconv.Atoi(v)
	}
	rsS := msgfix.RecvSide{Server: true, Limit: defaultLimit, Encoding: reqEnc, Usable: registered(reqEnc) || (sc.S.Dc != "" && sc.S.Dc == reqEnc)}
	exS := msgfix.Reference(req.Data, rsS)
	h.mu.Lock()
	obS := msgfix.Observed{Who: "server", Msgs: h.got, Err: h.recvErr, Done: h.recvDone, Invoked: h.invoked, WireStatus: wireStatus, Terminal: req.Ended && !req.Reset}
	sent := append([][]byte(nil), h.sent...)
	finished := h.finished
	h.mu.Unlock()
	f.JudgeRecv(exS, obS, rsS)
	if exS.End == msgfix.EndClean && obS.Terminal && obS.Done && obS.Err != io.EOF {
		f.Add("clean-stream-failed", "server: every request message is acceptable (grpc-encoding %q) but RecvMsg ended with %v", reqEnc, obS.Err)
	}
	// ---- server as sender, negotiation ----
	rv := f.CheckSender("server", rsp, sent)
	specialise(f, sc.S, h)
	rspEnc := rv.Encoding
	judgeNegotiation(f, sc.S, h, adv, reqEnc, rspEnc, headersSeen)
	// ---- client as receiver ----
	usableC := registered(rspEnc) || (sc.C.Dc != "" && sc.C.Dc == rspEnc)
	rsC := msgfix.RecvSide{Limit: defaultLimit, Encoding: rspEnc, Usable: usableC}
	exC := msgfix.Reference(rsp.Data, rsC)
	obC := msgfix.Observed{Who: "client", Msgs: cgot, Err: cerr, Done: cdone, WireStatus: wireStatus, Terminal: true}
	restrict := acceptRestriction(sc.C.Accept)
	disallowed := len(restrict) > 0 && !identity(rspEnc) && !contains(restrict, rspEnc)
	if disallowed && contains(adv, rspEnc) {
		f.C["encoding_advertised_on_wire_but_excluded_by_accept_option"]++
	}
	if disallowed {
		// AcceptCompressors documents that responses in a non-listed encoding are
		// rejected; the statement only forbids delivering undecoded data.
		f.PrefixOK(exC, obC, rsC)
		f.C["response_encoding_outside_accept_option_code_"+msgfix.CodeOf(cerr).String()]++
	} else {
		f.JudgeRecv(exC, obC, rsC)
		if exC.End == msgfix.EndClean && cdone && len(cgot) == len(exC.Msgs) && wireStatus >= 0 && int(msgfix.CodeOf(cerr)) != wireStatus {
			f.Add("client-status-differs-from-trailers", "server trailers carry grpc-status %d, client RecvMsg ended with %v", wireStatus, cerr)
		}
	}
	f.C["handler_finished"] += b2i(finished)
	f.C["end_server_"+exS.End]++
	f.C["end_client_"+exC.End]++
	return fmt.Sprintf("pair/req=%s/rsp=%s/srvcp=%s/set=%d/%s/%s/%v/retries=%d", reqEnc, rspEnc, sc.S.Cp, len(sc.S.Set), exS.End, exC.End, disallowed, attempts-1)
}

func b2i(b bool) int64 {
	if b {
		return 1
	}
	return 0
}

func report(r *vlib.Run, fam string, i int, sc any, f *msgfix.Findings, sig string) {
	r.Eval(1)
	for _, x := range f.V {
		r.Violation(x.Key, fam, i, sc, "%s", x.Msg)
	}
	keys := make([]string, 0, len(f.C))
	for k := range f.C {
		keys = append(keys, k)
	}
	sort.Strings(keys)
	for _, k := range keys {
		r.Count(k, f.C[k])
	}
	if sig != "" {
		r.Nontrivial(sig)
	}
	if i < 2 {
		r.Sample(map[string]any{"family": fam, "scenario": sc, "signature": sig, "counters": f.C})
	}
}

func famOK(fam string) bool {
	f := os.Getenv("VERIF_FAM") // debugging aid only
	return f == "" || f == fam
}

func div() int {
	if light() {
		return 24
	}
	return 1
}

func TestVerifC27(t *testing.T) {
	r := vlib.Start(t, "C27")
	if famOK("pair") {
		n := r.N(900, 9000) / div()
		for i := 0; i < n; i++ {
			if !r.Want("pair", i) {
				continue
			}
			sc := genPair(r.Rand("pair", i), i)
			r.Progress("pair", i, fmt.Sprintf("%+v", sc))
			var f *msgfix.Findings
			var sig string
			synctest.Test(t, func(t *testing.T) { f, sig = runPair(sc) })
			report(r, "pair", i, sc, f, sig)
		}
	}
	runWireFamilies(t, r)
	runRetryFamily(t, r)
	floor := 120
	if light() {
		floor = 20
	}
	r.Finish(vlib.Spec{
		Level: "exploration",
		Rule:  "pair: real client (UseCompressor in {none, identity, gzip, vz-a, vz-b, unregistered}; legacy WithCompressor / WithDecompressor in {none, builtin gzip, custom lz-q, custom typed vz-a}; experimental.AcceptCompressors in {unused, [gzip], [vz-a vz-b], [gzip vz-a], [identity], [vz-b], []}) against a real server (RPCCompressor / RPCDecompressor same choices; handler calls SetSendCompressor 0-2 times with names in {identity, gzip, vz-a, vz-b, lz-q, unregistered}) exchanging 1-3 messages each way of sizes {0,1,2,17,300,5000,<40000}; srv: the same server against a scripted client sending grpc-encoding in {absent, identity, gzip, vz-a, vz-b, lz-q, unregistered} and grpc-accept-encoding in 11 shapes (absent, empty, spaces, split over two headers, unknown names, identity); cli: the same client against a scripted server answering with any of those encodings, compressed and uncompressed messages mixed; retry: that client with a retry policy (maxAttempts 5, UNAVAILABLE) against a scripted server that refuses 1-3 attempts Trailers-Only (each block carrying its own grpc-encoding value out of the 7) and answers the last attempt under any of the 7 encodings (index walks first-refusal encoding x final encoding x UseCompressor), every attempt's request judged as a sender, the final attempt's messages judged against the reference of THAT attempt's encoding only; 4 of 9 pair cases additionally have the real handler refuse the first 1-2 attempts (judged on the last attempt's stream). All facts (flag bytes, grpc-encoding, grpc-accept-encoding, grpc-status) are read from the wire (tap / peer log). Oracles: flag in {0,1}; flag=1 => stream grpc-encoding non-identity; non-identity and non-empty => flag=1; wire bytes decode with the reference decoder of the encoding named on the wire to the bytes the application sent; request encoding = UseCompressor else WithCompressor type; response encoding in {identity, request encoding, client-advertised name} (or the legacy RPCCompressor's type, R2); SetSendCompressor succeeds iff the name is identity or registered and advertised, and the last success is what the headers carry; receivers deliver exactly what the reference decodes; unusable encoding => UNIMPLEMENTED (server, wire) / INTERNAL (client). non-trivial = RPC reached the wire and was judged; distinct = (family, request encoding, response encoding, legacy server compressor, #SetSendCompressor, reference ends)",
		Assumptions: []string{
			"R2: empty messages may be sent uncompressed (flag 0) on a compressed stream",
			"R2: a server configured with the deprecated grpc.RPCCompressor answers with that compressor regardless of what the client advertised (documented behaviour); the advertised-set rule is judged for SetSendCompressor and default behaviour only",
			"a response in an encoding excluded by experimental.AcceptCompressors may be rejected or decoded; only delivering undecoded bytes is a violation",
			"compressed flag with identity encoding: INTERNAL or UNIMPLEMENTED accepted at the server",
			"whether and when a retry happens belongs to C18: an RPC whose next attempt never reaches the wire is counted (retry_not_attempted_*) and not judged; backoff runs on the bubble's virtual clock",
		},
		Floor: floor,
	})
}

var _ = codes.OK
