package c27

import (
	"context"
	"fmt"
	"io"
	"math/rand"
	"strconv"
	"testing"
	"testing/synctest"

	"golang.org/x/net/http2"
	"golang.org/x/net/http2/hpack"
	"google.golang.org/grpc"
	"google.golang.org/grpc/verif/msgfix"
	"google.golang.org/grpc/verif/vlib"
	"google.golang.org/grpc/verif/wire"
)

// viewFromLog rebuilds what the endpoint under test wrote on stream id from the
// scripted peer's frame log.
func viewFromLog(log []wire.Entry, id uint32) *msgfix.StreamView {
	sv := &msgfix.StreamView{ID: id}
	for i := range log {
		e := &log[i]
		if e.Dir != wire.In || e.Stream != id {
			continue
		}
		switch e.Type {
		case http2.FrameHeaders:
			fields := append([]hpack.HeaderField(nil), e.Fields...)
			sv.Blocks = append(sv.Blocks, fields)
			if len(sv.Blocks) == 1 {
				sv.Headers = fields
			} else {
				sv.Trailers = fields
			}
			if e.EndStream() {
				sv.Ended = true
			}
		case http2.FrameData:
			sv.Data = append(sv.Data, e.Data...)
			if e.EndStream() {
				sv.Ended = true
			}
		case http2.FrameRSTStream:
			sv.Reset = true
		}
	}
	return sv
}

// bigWindow: the scripted peer never throttles the endpoint under test.
var bigWindow = http2.Setting{ID: http2.SettingInitialWindowSize, Val: 1 << 24}

// msgSpec is one message the scripted peer sends.
type msgSpec struct {
	Size int  `json:"size"`
	Comp bool `json:"comp"` // send it compressed (flag 1) with the stream's encoding
}

func buildStream(enc string, tag uint32, pk int, ms []msgSpec) []byte {
	var out []byte
	for i, m := range ms {
		p := msgfix.Pattern(tag+uint32(i)*977, m.Size, pk)
		if m.Comp {
			c := msgfix.Encode(encodable(enc), p)
			out = append(out, msgfix.Frame(1, uint32(len(c)), c)...)
		} else {
			out = append(out, msgfix.Frame(0, uint32(len(p)), p)...)
		}
	}
	return out
}

// encodable maps a stream encoding to something the scripted sender can
// produce bytes for (gzip when the name has no codec of ours).
func encodable(enc string) string {
	switch enc {
	case msgfix.Gzip, msgfix.VZA, msgfix.VZB, msgfix.LZQ, msgfix.LZR:
		return enc
	}
	return msgfix.Gzip
}

func genMsgs(rng *rand.Rand, enc string, n int) []msgSpec {
	var ms []msgSpec
	for k := 0; k < n; k++ {
		m := msgSpec{Size: vlib.Pick(rng, 0, 1, 2, 17, 300, 5000, rng.Intn(20000))}
		switch {
		case identity(enc):
			m.Comp = rng.Intn(12) == 0 // rarely: compressed flag on an identity stream
		default:
			m.Comp = rng.Intn(4) != 0 // a quarter of the messages go uncompressed on a compressed stream (legal)
		}
		ms = append(ms, m)
	}
	return ms
}

func writeChunks(peer *wire.Peer, id uint32, b []byte, endStream bool, rng *rand.Rand) {
	for len(b) > 0 {
		c := vlib.Pick(rng, 1, 5, 6, 100, 16384, 16384)
		if c > len(b) {
			c = len(b)
		}
		peer.WriteData(id, b[:c], endStream && c == len(b), -1)
		b = b[c:]
	}
}

// ---- family srv: real server, scripted client ----

type srvSc struct {
	S       srvCfg    `json:"s"`
	ReqEnc  string    `json:"req_enc"`
	Accept  []string  `json:"accept"` // grpc-accept-encoding header values, one header per element; nil = absent
	Req     []msgSpec `json:"req"`
	Rsp     []int     `json:"rsp"`
	PK      int       `json:"pk"`
	Tag     uint32    `json:"tag"`
	SplitSd int64     `json:"split"`
}

var (
	reqEncChoices = []string{"", "identity", msgfix.Gzip, msgfix.VZA, msgfix.VZB, msgfix.LZQ, msgfix.Unknown}
	acceptHeaders = [][]string{nil, {""}, {"gzip"}, {"gzip,vz-a"}, {"vz-b, gzip"}, {" vz-a ,vz-b"}, {"identity"}, {"identity,gzip"},
		{"zz-unknown,vz-a"}, {"gzip", "vz-a"}, {"identity,deflate"}}
)

func genSrv(rng *rand.Rand, i int) srvSc {
	sc := srvSc{PK: rng.Intn(3), Tag: rng.Uint32(), SplitSd: rng.Int63()}
	sc.ReqEnc = reqEncChoices[i%len(reqEncChoices)]
	sc.Accept = acceptHeaders[(i/len(reqEncChoices))%len(acceptHeaders)]
	sc.S.Cp = vlib.Pick(rng, legacyChoices...)
	sc.S.Dc = vlib.Pick(rng, legacyChoices...)
	if sc.ReqEnc == msgfix.LZQ && rng.Intn(2) == 0 {
		sc.S.Dc = msgfix.LZQ
	}
	for k := rng.Intn(3); k > 0; k-- {
		sc.S.Set = append(sc.S.Set, vlib.Pick(rng, setChoices...))
	}
	sc.Req = genMsgs(rng, sc.ReqEnc, 1+rng.Intn(3))
	sc.Rsp = sizes(rng, 1+rng.Intn(3))
	return sc
}

func runSrv(sc srvSc) (*msgfix.Findings, string) {
	f := msgfix.NewFindings()
	h := &handlerRec{}
	var hwg msgfix.Group
	rspMsgs := payloads(sc.Tag^0x9e3779b9, sc.Rsp, sc.PK)
	fx := wire.NewServerFixture(makeHandler(h, sc.S, rspMsgs, &hwg), sc.S.serverOpts()...)
	fx.Serve()
	peer, err := fx.Connect()
	if err != nil {
		f.Add("harness", "connect: %v", err)
		return f, ""
	}
	if err := peer.Start(bigWindow); err != nil {
		f.Add("harness", "start: %v", err)
		return f, ""
	}
	peer.WriteWindowUpdate(0, 1<<24)
	synctest.Wait()
	hdr := wire.RequestHeaders("/verif.Comp/Call")
	if sc.ReqEnc != "" {
		hdr = append(hdr, wire.F("grpc-encoding", sc.ReqEnc))
	}
	for _, a := range sc.Accept {
		hdr = append(hdr, wire.F("grpc-accept-encoding", a))
	}
	peer.WriteHeaders(1, false, 0, hdr...)
	stream := buildStream(sc.ReqEnc, sc.Tag, sc.PK, sc.Req)
	rng := rand.New(rand.NewSource(sc.SplitSd))
	writeChunks(peer, 1, stream, false, rng)
	peer.WriteData(1, nil, true, -1)
	synctest.Wait()

	rsp := viewFromLog(peer.Log(), 1)
	reqView := &msgfix.StreamView{ID: 1, Headers: hdr}
	adv, _ := advertised(reqView)
	wireStatus := -1
	if v, ok := rsp.AnyField("grpc-status"); ok {
		wireStatus, _ = strconv.Atoi(v)
	}
	rsS := msgfix.RecvSide{Server: true, Limit: defaultLimit, Encoding: sc.ReqEnc, Usable: registered(sc.ReqEnc) || (sc.S.Dc != "" && sc.S.Dc == sc.ReqEnc)}
	exS := msgfix.Reference(stream, rsS)
	h.mu.Lock()
	obS := msgfix.Observed{Who: "server", Msgs: h.got, Err: h.recvErr, Done: h.recvDone, Invoked: h.invoked, WireStatus: wireStatus, Terminal: true}
	sent := append([][]byte(nil), h.sent...)
	sup := append([]string(nil), h.supported...)
	finished, sendErr := h.finished, h.sendErr
	h.mu.Unlock()
	f.JudgeRecv(exS, obS, rsS)
	if exS.End == msgfix.EndClean && obS.Done && obS.Err != io.EOF {
		f.Add("clean-stream-failed", "server: every request message is acceptable (grpc-encoding %q) but RecvMsg ended with %v", sc.ReqEnc, obS.Err)
	}
	if exS.End == msgfix.EndClean {
		if !finished {
			f.Add("handler-never-finished", "the handler did not complete its sends (send error %v)", sendErr)
		}
		// what ClientSupportedCompressors reports must be what the wire carried
		for _, n := range adv {
			if !contains(sup, n) {
				f.Add("advertised-compressor-not-reported", "the client sent grpc-accept-encoding %q; ClientSupportedCompressors returned %q", sc.Accept, sup)
				break
			}
		}
		for _, n := range sup {
			if n != "" && !contains(adv, n) {
				f.Add("unadvertised-compressor-reported", "ClientSupportedCompressors returned %q for grpc-accept-encoding %q", sup, sc.Accept)
				break
			}
		}
	}
	rv := f.CheckSender("server", rsp, sent)
	specialise(f, sc.S, h)
	judgeNegotiation(f, sc.S, h, adv, sc.ReqEnc, rv.Encoding, len(rsp.Blocks) > 0)
	if exS.End == msgfix.EndClean && finished && wireStatus != 0 {
		f.Add("handler-ok-but-status", "the handler returned nil after sending %d messages but the trailers carry grpc-status %d", len(sent), wireStatus)
	}
	f.C["end_server_"+exS.End]++
	peer.Close()
	fx.S.Stop()
	hwg.Wait()
	<-peer.Done()
	return f, fmt.Sprintf("srv/req=%s/rsp=%s/srvcp=%s/adv=%d/set=%d/%s", sc.ReqEnc, rv.Encoding, sc.S.Cp, len(adv), len(sc.S.Set), exS.End)
}

// ---- family cli: real client, scripted server ----

type cliSc struct {
	C       cliCfg    `json:"c"`
	RspEnc  string    `json:"rsp_enc"`
	Req     []int     `json:"req"`
	Rsp     []msgSpec `json:"rsp"`
	PK      int       `json:"pk"`
	Tag     uint32    `json:"tag"`
	SplitSd int64     `json:"split"`
}

func genCli(rng *rand.Rand, i int) cliSc {
	sc := cliSc{PK: rng.Intn(3), Tag: rng.Uint32(), SplitSd: rng.Int63()}
	sc.RspEnc = reqEncChoices[i%len(reqEncChoices)]
	sc.C.Use = useChoices[(i/len(reqEncChoices))%(len(useChoices)-1)] // never the unregistered name here
	sc.C.Cp = vlib.Pick(rng, legacyChoices...)
	sc.C.Dc = vlib.Pick(rng, legacyChoices...)
	if sc.RspEnc == msgfix.LZQ && rng.Intn(2) == 0 {
		sc.C.Dc = msgfix.LZQ
	}
	sc.C.Accept = vlib.Pick(rng, acceptChoices...)
	sc.Req = sizes(rng, 1+rng.Intn(3))
	sc.Rsp = genMsgs(rng, sc.RspEnc, 1+rng.Intn(3))
	return sc
}

func runCli(sc cliSc) (*msgfix.Findings, string) {
	f := msgfix.NewFindings()
	fx, err := wire.NewClientFixture(sc.C.dialOpts()...)
	if err != nil {
		f.Add("harness", "fixture: %v", err)
		return f, ""
	}
	reqMsgs := payloads(sc.Tag, sc.Req, sc.PK)
	cl := &clientRec{}
	ctx, cancel := context.WithCancel(context.Background())
	var wg msgfix.Group
	wg.Add()
	go func() {
		defer wg.Done()
		st, err := fx.CC.NewStream(ctx, &grpc.StreamDesc{ClientStreams: true, ServerStreams: true}, "/verif.Comp/Call", sc.C.callOpts()...)
		if err != nil {
			cl.mu.Lock()
			cl.streamErr, cl.done = err, true
			cl.mu.Unlock()
			return
		}
		for _, m := range reqMsgs {
			if st.SendMsg(m) != nil {
				break
			}
		}
		st.CloseSend()
		for {
			var m []byte
			err := st.RecvMsg(&m)
			cl.mu.Lock()
			if err != nil {
				cl.err, cl.done = err, true
				cl.mu.Unlock()
				return
			}
			cl.got = append(cl.got, m)
			cl.mu.Unlock()
		}
	}()
	peer := fx.Accept()
	if err := peer.Start(bigWindow); err != nil {
		f.Add("harness", "start: %v", err)
		cancel()
		fx.CC.Close()
		wg.Wait()
		return f, ""
	}
	peer.WriteWindowUpdate(0, 1<<24)
	synctest.Wait()
	var id uint32
	for _, e := range peer.Log() {
		if e.Dir == wire.In && e.Type == http2.FrameHeaders {
			id = e.Stream
		}
	}
	sig := ""
	cl.mu.Lock()
	streamErr := cl.streamErr
	cl.mu.Unlock()
	if id == 0 && streamErr != nil && contains(sc.C.Accept, msgfix.Unknown) {
		f.C["rpc_refused_locally_"+msgfix.CodeOf(streamErr).String()]++
		sig = "cli/refused"
	} else if id == 0 {
		f.Add("harness", "client never opened a stream: %v", streamErr)
	} else {
		req := viewFromLog(peer.Log(), id)
		sv := f.CheckSender("client", req, reqMsgs)
		if want := sc.C.wantReqEnc(); sv.Encoding != want && !(identity(want) && identity(sv.Encoding)) {
			f.Add("request-encoding-not-as-configured", "client configured with UseCompressor(%q) / WithCompressor(%q) sent grpc-encoding %q, want %q", sc.C.Use, sc.C.Cp, sv.Encoding, want)
		}
		if len(sv.Plain) != len(reqMsgs) || !req.Ended {
			f.Add("request-incomplete", "the client application sent %d messages and half-closed; the wire shows %d complete messages, END_STREAM=%v", len(reqMsgs), len(sv.Plain), req.Ended)
		}
		adv, present := advertised(req)
		if len(acceptRestriction(sc.C.Accept)) == 0 {
			for _, n := range []string{msgfix.Gzip, msgfix.VZA, msgfix.VZB} {
				if !contains(adv, n) {
					f.Add("registered-compressor-not-advertised", "grpc-accept-encoding %v (present=%v) lacks the registered compressor %q", adv, present, n)
				}
			}
		}
		// respond
		hdr := wire.ResponseHeaders()
		if sc.RspEnc != "" {
			hdr = append(hdr, wire.F("grpc-encoding", sc.RspEnc))
		}
		peer.WriteHeaders(id, false, 0, hdr...)
		stream := buildStream(sc.RspEnc, sc.Tag^0x9e3779b9, sc.PK, sc.Rsp)
		writeChunks(peer, id, stream, false, rand.New(rand.NewSource(sc.SplitSd)))
		peer.WriteHeaders(id, true, 0, wire.Trailers(0, "")...)
		synctest.Wait()
		rsC := msgfix.RecvSide{Limit: defaultLimit, Encoding: sc.RspEnc, Usable: registered(sc.RspEnc) || (sc.C.Dc != "" && sc.C.Dc == sc.RspEnc)}
		exC := msgfix.Reference(stream, rsC)
		cl.mu.Lock()
		obC := msgfix.Observed{Who: "client", Msgs: cl.got, Err: cl.err, Done: cl.done, WireStatus: 0, Terminal: true}
		cl.mu.Unlock()
		restrict := acceptRestriction(sc.C.Accept)
		disallowed := len(restrict) > 0 && !identity(sc.RspEnc) && !contains(restrict, sc.RspEnc)
		if disallowed && contains(adv, sc.RspEnc) {
			f.C["encoding_advertised_on_wire_but_excluded_by_accept_option"]++
		}
		if disallowed {
			f.PrefixOK(exC, obC, rsC)
			f.C["response_encoding_outside_accept_option_code_"+msgfix.CodeOf(obC.Err).String()]++
		} else {
			f.JudgeRecv(exC, obC, rsC)
			if exC.End == msgfix.EndClean && obC.Done && len(obC.Msgs) == len(exC.Msgs) && obC.Err != io.EOF {
				f.Add("clean-stream-failed", "client: every response message is acceptable (grpc-encoding %q, WithDecompressor %q) and the trailers say OK but RecvMsg ended with %v", sc.RspEnc, sc.C.Dc, obC.Err)
			}
		}
		f.C["end_client_"+exC.End]++
		sig = fmt.Sprintf("cli/req=%s/rsp=%s/dc=%s/%s/%v", sv.Encoding, sc.RspEnc, sc.C.Dc, exC.End, disallowed)
	}
	cancel()
	fx.CC.Close()
	peer.Close()
	wg.Wait()
	<-peer.Done()
	return f, sig
}

func runWireFamilies(t *testing.T, r *vlib.Run) {
	if famOK("srv") {
		n := r.N(770, 7700) / div()
		for i := 0; i < n; i++ {
			if !r.Want("srv", i) {
				continue
			}
			sc := genSrv(r.Rand("srv", i), i)
			r.Progress("srv", i, fmt.Sprintf("%+v", sc))
			var f *msgfix.Findings
			var sig string
			synctest.Test(t, func(t *testing.T) { f, sig = runSrv(sc) })
			report(r, "srv", i, sc, f, sig)
		}
	}
	if famOK("cli") {
		n := r.N(420, 4200) / div()
		for i := 0; i < n; i++ {
			if !r.Want("cli", i) {
				continue
			}
			sc := genCli(r.Rand("cli", i), i)
			r.Progress("cli", i, fmt.Sprintf("%+v", sc))
			var f *msgfix.Findings
			var sig string
			synctest.Test(t, func(t *testing.T) { f, sig = runCli(sc) })
			report(r, "cli", i, sc, f, sig)
		}
	}
}
