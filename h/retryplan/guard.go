package retryplan

import (
	"testing"
	"testing/synctest"
	"time"
)

// RunGuarded runs one scenario in its own synctest bubble and waits for it
// under a generous WALL-CLOCK guard.  ok=false means the bubble did not finish:
// virtual time can stop advancing for good when some goroutine is blocked on a
// sync.Mutex (not a durable block for synctest) that is held by a goroutine
// sleeping on a virtual timer — e.g. clientStream.mu held across the retry
// backoff while the context watcher wants it.  The unchanged tree never does
// that past the deadline (the backoff select also waits for ctx.Done), and the
// runner keeps the application goroutines out of that window (see gate and
// triggerLocked); should it happen anyway the caller reports INCONCLUSIVE
// (BUILDING.md rule 1), never a violation.  The stuck bubble is abandoned.
func RunGuarded(t *testing.T, sc *Scenario, guard time.Duration) (obs *Obs, ok bool) {
	done := make(chan *Obs, 1)
	go func() {
		var o *Obs
		synctest.Test(t, func(t *testing.T) { o = Run(sc) })
		done <- o
	}()
	tm := time.NewTimer(guard)
	defer tm.Stop()
	select {
	case o := <-done:
		return o, true
	case <-tm.C:
		return nil, false
	}
}
