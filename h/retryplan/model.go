package retryplan

import (
	"fmt"
	"math/big"
	"sort"
	"strconv"
	"strings"
	"time"

	"google.golang.org/grpc/codes"
)

// This file is the oracle: an executable reading of gRFC A6 ("Client retries")
// and of the property statements C18 / C19.  It is written from the
// specification, not from stream.go.  It is fed with what the scripted server
// executed on each wire attempt (the plan), with the application's op log and
// with virtual timestamps, and says for every attempt whether a further attempt
// must / must not / may follow, when, with which grpc-previous-rpc-attempts
// header, and how the call must end.
//
// Deliberately weak spots (R2: never stricter than correct code):
//   - retry token accounting is only specified by the statement for attempts
//     that fail while a retry is still conceivable (no response headers, not
//     committed); for failures after headers / after commit / at the deadline
//     A6 ("every failed RPC") and grpc-go (no decrement) differ, so the model
//     keeps an INTERVAL [lo,hi] of possible token counts and judges a throttle
//     decision only when the whole interval is on one side of the threshold.
//   - a tokenRatio / maxTokens that is not exactly representable in binary
//     floating point widens the interval by 1e-9 per addition.
//   - the replay buffer limit is judged only where "payload bytes" and
//     "payload + 5-byte frame prefix" accounting agree (the generator only
//     produces such limits); a send racing with the failure is "maybe".
//   - a backoff interval that straddles the deadline allows both outcomes.
//   - the first wire attempt that the server did not process (REFUSED_STREAM /
//     GOAWAY below its id) must be retried transparently exactly once (A6
//     "Transparent retries"); later unprocessed attempts fall under the retry
//     policy as UNAVAILABLE failures without response headers.

type tri int

const (
	no tri = iota
	yes
	maybe
)

func (t tri) String() string { return [...]string{"no", "yes", "maybe"}[t] }

// Verdict is the result of judging one scenario.
type Verdict struct {
	Findings   []Finding
	Counters   map[string]int64
	RetrySigs  []string // one per RPC with >=1 retry decision (C18 distinctness)
	TimingSigs []string // one per RPC with >=1 judged delay or throttle decision (C19 distinctness)
}

func (v *Verdict) find(props []string, key, f string, a ...any) {
	if len(v.Findings) < 60 {
		v.Findings = append(v.Findings, Finding{Props: props, Key: key, Msg: fmt.Sprintf(f, a...)})
	}
}

// ---- token bucket interval model ----

type bucket struct {
	lo, hi, max, thresh, ratio *big.Rat
	inexact                    bool
}

var eps = big.NewRat(1, 1000000000)

func decRat(s string) (*big.Rat, bool) {
	r, ok := new(big.Rat).SetString(s)
	if !ok {
		return nil, false
	}
	f, err := strconv.ParseFloat(s, 64)
	if err != nil {
		return r, false
	}
	fr := new(big.Rat).SetFloat64(f)
	return r, fr != nil && fr.Cmp(r) == 0
}

func newBucket(t *Throttle) *bucket {
	if t == nil {
		return nil
	}
	mx, e1 := decRat(t.MaxTokens)
	ra, e2 := decRat(t.Ratio)
	b := &bucket{max: mx, ratio: ra, inexact: !e1 || !e2}
	b.lo, b.hi = new(big.Rat).Set(mx), new(big.Rat).Set(mx)
	b.thresh = new(big.Rat).Quo(mx, big.NewRat(2, 1))
	return b
}

var one = big.NewRat(1, 1)
var zero = new(big.Rat)

func (b *bucket) dec(x *big.Rat) *big.Rat {
	y := new(big.Rat).Sub(x, one)
	if y.Cmp(zero) < 0 {
		y.Set(zero)
	}
	return y
}

func (b *bucket) inc(x *big.Rat, widen int) *big.Rat {
	y := new(big.Rat).Add(x, b.ratio)
	if b.inexact {
		if widen > 0 {
			y.Add(y, eps)
		} else {
			y.Sub(y, eps)
		}
	}
	if y.Cmp(b.max) > 0 {
		y.Set(b.max)
	}
	if y.Cmp(zero) < 0 {
		y.Set(zero)
	}
	return y
}

func (b *bucket) fail() {
	if b != nil {
		b.lo, b.hi = b.dec(b.lo), b.dec(b.hi)
	}
}
func (b *bucket) maybeFail() {
	if b != nil {
		b.lo = b.dec(b.lo)
	}
}
func (b *bucket) success() {
	if b != nil {
		b.lo, b.hi = b.inc(b.lo, -1), b.inc(b.hi, +1)
	}
}
func (b *bucket) maybeSuccess() {
	if b != nil {
		b.hi = b.inc(b.hi, +1)
	}
}

// refuse: is a retry refused now (tokens <= maxTokens/2)?
func (b *bucket) refuse() tri {
	if b == nil {
		return no
	}
	if b.hi.Cmp(b.thresh) <= 0 {
		return yes
	}
	if b.lo.Cmp(b.thresh) > 0 {
		return no
	}
	return maybe
}

// side describes where the (point) token count sits relative to the threshold.
func (b *bucket) side() string {
	if b == nil || b.lo.Cmp(b.hi) != 0 {
		return "interval"
	}
	d := new(big.Rat).Sub(b.lo, b.thresh)
	switch {
	case d.Sign() == 0:
		return "at"
	case d.Sign() < 0 && b.lo.Sign() == 0:
		return "zero"
	case d.Sign() < 0:
		return "below"
	case d.Cmp(one) <= 0:
		return "just-above"
	}
	return "above"
}

func (b *bucket) String() string {
	if b == nil {
		return "off"
	}
	return fmt.Sprintf("[%s,%s]/%s", b.lo.FloatString(4), b.hi.FloatString(4), b.max.FloatString(3))
}

// ---- helpers ----

// rstToCode is the RST_STREAM error code -> status mapping of the gRPC over
// HTTP/2 specification.
func rstToCode(c uint32) codes.Code {
	switch c {
	case 7:
		return codes.Unavailable
	case 8:
		return codes.Canceled
	case 11:
		return codes.ResourceExhausted
	case 12:
		return codes.PermissionDenied
	}
	return codes.Internal
}

// pushbackParse: absent / valid(ms) / bad (negative, unparsable, several values).
func pushbackParse(vals []string) (present, bad bool, ms int64) {
	if len(vals) == 0 {
		return false, false, 0
	}
	if len(vals) > 1 {
		return true, true, 0
	}
	s := vals[0]
	if s == "" {
		return true, true, 0
	}
	for i, c := range s {
		if c == '-' && i == 0 && len(s) > 1 {
			continue
		}
		if c < '0' || c > '9' {
			return true, true, 0
		}
	}
	n, err := strconv.ParseInt(s, 10, 64)
	if err != nil || n < 0 {
		return true, true, 0
	}
	return true, false, n
}

// overflowState: has a send history with these sizes exceeded the replay
// buffer limit?  yes if even the payload bytes alone exceed it, no if payload
// plus 5-byte prefixes fit, maybe in between.
func overflowState(sizes []int, limit int) tri {
	a, b := 0, 0
	st := no
	for _, s := range sizes {
		a += s + 5
		b += s
		if b > limit {
			return yes
		}
		if a > limit {
			st = maybe
		}
	}
	return st
}

func triOr(a, b tri) tri {
	if a == b {
		return a
	}
	return maybe
}

type detection struct {
	found  bool
	at     time.Duration
	refSeq int64
}

// detect: when does the client library get to look at the failure of attempt
// a?  Immediately if a RecvMsg (or the unary Invoke) is in progress; otherwise
// when the application starts its next SendMsg / RecvMsg.  When a further
// attempt was observed, the op that was in progress when that attempt reached
// the server is the one that performed the retry (it may be a SendMsg that is
// itself in the middle of an earlier retry): the backoff cannot have started
// before that op started, nor before the failure existed.
func detect(r *RPCObs, a, next *AttObs) detection {
	if next != nil {
		// tier 1: in progress (by sequence) when the next HEADERS arrived; tier 2:
		// returned at that very instant (SendMsg returns once the frames are
		// queued, the server reads them a moment later at the same virtual time)
		var perf, perf2 *OpRec
		for _, op := range r.Ops {
			if op.StartSeq >= next.HeadersSeq || op.K != "R" && op.K != "I" && op.K != "S" {
				continue
			}
			switch {
			case op.EndSeq == 0 || op.EndSeq > next.HeadersSeq:
				if perf == nil || op.K != "S" {
					perf = op
				}
			case op.EndAt >= next.HeadersAt:
				perf2 = op // latest started
			}
		}
		if perf == nil {
			perf = perf2
		}
		if perf != nil {
			d := detection{found: true, at: a.ActionAt, refSeq: a.ActionSeq}
			if perf.StartAt > d.at {
				d.at = perf.StartAt
			}
			if perf.K == "S" || perf.StartSeq > d.refSeq {
				d.refSeq = perf.StartSeq
			}
			return d
		}
	}
	for _, op := range r.Ops {
		if (op.K == "R" || op.K == "I") && op.StartSeq < a.ActionSeq && (op.EndSeq == 0 || op.EndSeq > a.ActionSeq) {
			return detection{true, a.ActionAt, a.ActionSeq}
		}
	}
	for _, op := range r.Ops {
		if (op.K == "S" || op.K == "R") && op.StartSeq > a.ActionSeq {
			at := a.ActionAt
			if op.StartAt > at {
				at = op.StartAt
			}
			return detection{true, at, op.StartSeq}
		}
	}
	return detection{}
}

// committedByOverflow at the moment described by d.
func committedByOverflow(rp *RPC, r *RPCObs, a *AttObs, d detection) tri {
	limit := rp.BufLimit
	if limit < 0 {
		limit = DefaultBufLimit
	}
	if rp.Shape == "unary" {
		st := overflowState(r.Sizes, limit)
		if a.Wire == 0 && a.Plan.Trig == "headers" {
			// the server answered the HEADERS while Invoke was still about to send
			// the request: the send may or may not have been buffered yet
			st = triOr(no, st)
		}
		return st
	}
	def, mayb := 0, 0
	for _, op := range r.Ops {
		if op.K != "S" || op.Err != "" {
			continue
		}
		switch {
		case op.EndSeq != 0 && op.EndSeq < d.refSeq:
			def++
			mayb++
		case op.StartSeq < d.refSeq:
			mayb++
		}
	}
	if mayb > len(r.Sizes) {
		mayb = len(r.Sizes)
	}
	return triOr(overflowState(r.Sizes[:def], limit), overflowState(r.Sizes[:mayb], limit))
}

func hasCode(p *Policy, c codes.Code) bool {
	if p == nil {
		return false
	}
	for _, x := range p.Codes {
		if codes.Code(x) == c {
			return true
		}
	}
	return false
}

// Judge runs the reference over the observation.
func Judge(sc *Scenario, o *Obs) *Verdict {
	v := &Verdict{Counters: map[string]int64{}}
	v.Findings = append(v.Findings, o.Findings...)
	for k, c := range o.Counters {
		v.Counters[k] += c
	}
	pol := sc.Cfg.Policy
	var tok *bucket
	if sc.Cfg.DisableRetry {
		pol = nil
	} else {
		tok = newBucket(sc.Cfg.Throttle)
	}
	chanCap := 5
	if sc.Cfg.MaxCallAttempts >= 2 {
		chanCap = sc.Cfg.MaxCallAttempts
	}
	maxAtt := 0
	if pol != nil {
		maxAtt = pol.MaxAttempts
		if chanCap < maxAtt {
			maxAtt = chanCap
		}
	}
	for _, f := range o.Findings {
		if f.Key == "valid-service-config-rejected" {
			return v // the channel could not be created: nothing ran
		}
	}
	for rid, r := range o.RPCs {
		rp := &sc.RPCs[rid]
		judgeRPC(v, sc, rp, rid, r, pol, maxAtt, tok)
	}
	return v
}

func judgeRPC(v *Verdict, sc *Scenario, rp *RPC, rid int, r *RPCObs, pol *Policy, maxAtt int, tok *bucket) {
	if !r.Finished {
		v.find(pBoth, "harness", "rpc %d did not finish", rid)
		return
	}
	v.Counters["rpcs"]++
	if len(r.Atts) == 0 {
		v.Counters["rpcs_without_wire_attempt"]++
		return
	}
	n := 1            // non-transparent attempts so far, including the current one
	firstWire := true // the current attempt is the first one on the wire
	k := 0            // retries since the last pushback
	allowed := map[codes.Code]bool{}
	var parts, tparts []string
	decisions, timed := 0, 0
	var expectMsgs []RecvRec
	strictMsgs := false
	for i, a := range r.Atts {
		last := i == len(r.Atts)-1
		// ---- grpc-previous-rpc-attempts ----
		switch {
		case n == 1 && len(a.Prev) != 0:
			v.find(p18, "previous-attempts-header", "rpc %d wire attempt %d: grpc-previous-rpc-attempts=%q but no non-transparent attempt preceded it", rid, i, a.Prev)
		case n > 1 && (len(a.Prev) != 1 || a.Prev[0] != strconv.Itoa(n-1)):
			v.find(p18, "previous-attempts-header", "rpc %d wire attempt %d: grpc-previous-rpc-attempts=%q, want %d (non-transparent attempts before this one)", rid, i, a.Prev, n-1)
		}
		v.Counters["previous_attempts_headers_checked"]++
		if pol != nil && n > maxAtt {
			v.find(p18, "max-attempts-exceeded", "rpc %d: wire attempt %d is non-transparent attempt number %d but the effective maximum is %d (policy %d, channel cap %d)", rid, i, n, maxAtt, pol.MaxAttempts, sc.Cfg.MaxCallAttempts)
		}
		if a.ActionSeq <= 0 || a.Plan.Act == "SILENT" {
			// the server never answered this attempt: only the deadline ends it
			parts = append(parts, a.Plan.Act+"@"+a.Plan.Trig+"/deadline")
			if !last {
				v.find(p18, "retry-without-failure", "rpc %d: wire attempt %d follows attempt %d which the server never answered or ended", rid, i+1, i)
			}
			if hasCode(pol, codes.DeadlineExceeded) {
				tok.maybeFail()
			}
			allowed[codes.DeadlineExceeded] = true
			v.Counters["attempts_ended_by_deadline"]++
			break
		}
		// ---- classify the executed action ----
		p := a.Plan
		kind := "" // ok | unprocessed | headers | noheaders
		var code codes.Code
		var pbPresent, pbBad bool
		var pbMs int64
		switch p.Act {
		case "OK":
			kind = "ok"
			for j := 0; j < p.NMsgs; j++ {
				expectMsgs = append(expectMsgs, RecvRec{Wire: i, J: j, OK: true})
			}
		case "TO":
			if p.Code == 0 {
				kind = "ok"
			} else {
				kind, code = "noheaders", codes.Code(p.Code)
				pbPresent, pbBad, pbMs = pushbackParse(p.Pushback)
			}
		case "HT":
			kind, code = "headers", codes.Code(p.Code)
			_, pbBad, _ = pushbackParse(p.Pushback)
		case "HMT":
			kind, code = "headers", codes.Code(p.Code)
			if rp.Shape == "bidi" {
				expectMsgs = append(expectMsgs, RecvRec{Wire: i, J: 0, OK: true})
			}
		case "RST":
			code = rstToCode(p.Rst)
			if p.Rst == 7 && firstWire {
				kind = "unprocessed"
			} else {
				kind = "noheaders"
			}
		case "GOAWAY":
			code = codes.Unavailable
			if firstWire {
				kind = "unprocessed"
			} else {
				kind = "noheaders"
			}
		}
		var nextAtt *AttObs
		if !last {
			nextAtt = r.Atts[i+1]
		}
		d := detect(r, a, nextAtt)
		// ---- decision ----
		expect := no // is another attempt expected?
		reason := ""
		transparent := false
		var lo, hi time.Duration
		exact := false
		desc := ""
		switch kind {
		case "ok":
			reason = "success"
			if r.FinalCode == codes.OK && r.FinishAt < r.DeadlineAt {
				tok.success()
			} else {
				// the deadline passed before the application had read everything: the
				// library may have ended the call with DEADLINE_EXCEEDED on its own
				tok.maybeSuccess()
			}
			allowed[codes.OK] = true
			strictMsgs = true
		case "headers":
			reason = "response-headers-received"
			if hasCode(pol, code) || pbBad {
				tok.maybeFail()
			}
			allowed[code] = true
			// messages that preceded a FAILING status need not all be delivered (the
			// statement does not require it; after a replay that the server interrupted
			// the library reports the status at once): prefix check only
		case "unprocessed", "noheaders":
			allowed[code] = true
			if !d.found {
				// the application never looked at the stream again before the call ended
				expect, reason = maybe, "not-detected"
				allowed[codes.DeadlineExceeded] = true
				if hasCode(pol, code) || pbBad || hasCode(pol, codes.DeadlineExceeded) {
					tok.maybeFail()
				}
				break
			}
			com := committedByOverflow(rp, r, a, d)
			if d.at >= r.DeadlineAt {
				com = triOr(com, yes) // the call's context is done: cannot retry; token accounting open
				allowed[codes.DeadlineExceeded] = true
				if hasCode(pol, codes.DeadlineExceeded) {
					tok.maybeFail()
				}
			}
			if kind == "unprocessed" {
				switch com {
				case yes:
					reason = "replay-buffer-exceeded"
				case maybe:
					expect, reason = maybe, "replay-buffer-race"
				default:
					expect, reason, transparent, exact = yes, "transparent", true, true
				}
				break
			}
			if com != no {
				if hasCode(pol, code) || pbBad {
					tok.maybeFail()
				}
				if com == yes {
					reason = "replay-buffer-exceeded"
				} else {
					expect, reason = maybe, "replay-buffer-race"
				}
				break
			}
			if pbBad {
				if pol == nil {
					tok.maybeFail() // without a retry policy A6 does not say whether this counts
				} else {
					tok.fail()
				}
				reason = "bad-pushback"
				break
			}
			if !hasCode(pol, code) {
				reason = "code-not-retryable"
				break
			}
			tok.fail()
			if tok != nil {
				// a throttle decision point (C19 evidence): state of the bucket vs. threshold
				timed++
				tparts = append(tparts, "thr:"+tok.refuse().String()+":"+tok.side())
				v.Counters["throttle_decision_points_"+tok.refuse().String()]++
			}
			switch tok.refuse() {
			case yes:
				reason = "throttled"
			case maybe:
				expect, reason = maybe, "throttle-undetermined"
				if n >= maxAtt {
					expect, reason = no, "max-attempts"
				}
			default:
				if n >= maxAtt {
					reason = "max-attempts"
					break
				}
				expect, reason = yes, "policy"
			}
			if expect != no {
				if pbPresent {
					lo = time.Duration(pbMs) * time.Millisecond
					if pbMs > int64(1<<62)/int64(time.Millisecond) {
						lo = 1 << 62
					}
					hi, exact = lo, true
					desc = fmt.Sprintf("pushback %d ms", pbMs)
				} else {
					b := float64(pol.InitialMs) * 1e6
					for j := 0; j < k; j++ {
						b *= pol.Mult
					}
					if m := float64(pol.MaxMs) * 1e6; b > m {
						b = m
					}
					lo = time.Duration(0.8*b*(1-1e-9)) - 2
					hi = time.Duration(1.2*b*(1+1e-9)) + 2
					desc = fmt.Sprintf("k=%d base=%v", k, time.Duration(b))
				}
			}
		}
		decisions++
		v.Counters["decision_"+reason]++
		parts = append(parts, p.Act+shortCode(p)+"/"+reason)
		// ---- deadline interplay ----
		if expect != no && d.found {
			switch {
			case d.at+hi < r.DeadlineAt:
			case d.at+lo > r.DeadlineAt:
				expect, reason = no, "backoff-beyond-deadline"
				allowed[codes.DeadlineExceeded] = true
				v.Counters["retries_cut_by_deadline"]++
			default:
				// the backoff may end exactly at / around the deadline: both outcomes are
				// legal, and an attempt created at that very instant fails locally with
				// DEADLINE_EXCEEDED before it is sent, which counts as one more failed
				// attempt if that code is retryable.
				expect = maybe
				allowed[codes.DeadlineExceeded] = true
				if hasCode(pol, codes.DeadlineExceeded) {
					tok.maybeFail()
				}
			}
		}
		// ---- compare with the observation ----
		switch {
		case last && expect == yes:
			key, props := "retry-missing", p18
			if transparent {
				key = "transparent-retry-missing"
			}
			v.find(props, key, "rpc %d: wire attempt %d ended with %s (code %v, detected at %v, deadline %v) and the A6 reference requires a %s retry (attempt %d of max %d, tokens %v), but no further attempt reached the server; call ended %v at %v",
				rid, i, p.Act, code, d.at, r.DeadlineAt, reason, n, maxAtt, tok, r.FinalCode, r.FinishAt)
			if tok != nil && !transparent {
				v.find(p19, "retry-refused-above-threshold", "rpc %d: retry after wire attempt %d was not made although the token bucket (%v) is above maxTokens/2 after the removal", rid, i, tok)
			}
		case !last && expect == no:
			key, props := "retry-not-allowed", p18
			switch reason {
			case "success":
				key = "retry-after-success"
			case "response-headers-received":
				key = "retry-after-response-headers"
			case "replay-buffer-exceeded":
				key = "retry-after-replay-buffer-exceeded"
			case "code-not-retryable":
				key = "retry-on-non-retryable-code"
			case "max-attempts":
				key = "max-attempts-exceeded"
			case "throttled":
				key, props = "retry-while-throttled", pBoth
			case "bad-pushback":
				key, props = "retry-after-bad-pushback", pBoth
			case "backoff-beyond-deadline":
				key, props = "retry-earlier-than-backoff-allows", p19
			}
			v.find(props, key, "rpc %d: wire attempt %d (%s code %v pushback %q, non-transparent attempt %d of max %d, tokens %v, detected at %v) must not be retried (%s) but attempt %d reached the server at %v with previous-attempts %q",
				rid, i, p.Act, code, p.Pushback, n, maxAtt, tok, d.at, reason, i+1, r.Atts[i+1].HeadersAt, r.Atts[i+1].Prev)
		}
		if last {
			if expect != no {
				allowed[codes.DeadlineExceeded] = true
			}
			break
		}
		// a further attempt exists: advance the reference state
		next := r.Atts[i+1]
		delay := next.HeadersAt - d.at
		if expect == maybe && kind == "unprocessed" {
			transparent = true
		}
		if expect == no && kind == "unprocessed" {
			transparent = true
		}
		if kind == "unprocessed" && transparent {
			v.Counters["transparent_retries"]++
			if d.found && expect != no {
				timed++
				v.Counters["transparent_delays_checked"]++
				tparts = append(tparts, "T0")
				if delay != 0 {
					v.find(p19, "transparent-retry-delayed", "rpc %d: transparent retry after wire attempt %d reached the server %v after the failure was visible (want 0)", rid, i, delay)
				}
			}
		} else {
			v.Counters["policy_retries"]++
			if expect != no && d.found && (kind == "noheaders") && reason != "replay-buffer-race" {
				timed++
				if exact {
					v.Counters["pushback_delays_checked"]++
					tparts = append(tparts, "P"+bucketMs(lo))
					if delay != lo {
						v.find(p19, "pushback-delay-not-exact", "rpc %d: retry after wire attempt %d (%s) reached the server %v after the failure was visible, want exactly %v", rid, i, desc, delay, lo)
					}
				} else {
					v.Counters["backoff_delays_checked"]++
					tparts = append(tparts, fmt.Sprintf("B%d", k))
					if delay < lo || delay > hi {
						v.find(p19, "backoff-out-of-bounds", "rpc %d: retry after wire attempt %d reached the server %v after the failure was visible, want within [%v, %v] (%s, initial %dms x %v^k capped at %dms, jitter 0.8..1.2)", rid, i, delay, lo, hi, desc, pol.InitialMs, pol.Mult, pol.MaxMs)
					}
				}
			}
			n++
			if pbPresent && !pbBad {
				k = 0
			} else {
				k++
			}
		}
		firstWire = false
	}
	// ---- how the call ended ----
	if r.FinishAt >= r.DeadlineAt {
		allowed[codes.DeadlineExceeded] = true
	}
	if !allowed[r.FinalCode] {
		var as []string
		for c := range allowed {
			as = append(as, c.String())
		}
		sort.Strings(as)
		key := "final-status-mismatch"
		if lostStatus(r) {
			// RecvMsg returned io.EOF (= success) although the last attempt failed: the
			// io.EOF of a replayed SendMsg leaked out as the call's result (defect
			// fixed in /repo 291cb8c; an ordinary violation now, this only refines the message)
			key = "final-status-mismatch"
		}
		v.find(p18, key, "rpc %d (%s) ended with %v (%s) at %v; the reference allows %v after %d wire attempt(s) [%s]", rid, rp.Shape, r.FinalCode, r.FinalErr, r.FinishAt, as, len(r.Atts), strings.Join(parts, " "))
	}
	// response messages must come from the last attempt only
	for j, m := range r.Recv {
		if j >= len(expectMsgs) || m != expectMsgs[j] {
			v.find(p18, "response-messages-mismatch", "rpc %d: the application received message #%d = %+v, the reference expects %+v", rid, j, m, expectMsgs)
			break
		}
	}
	if strictMsgs && r.FinishAt < r.DeadlineAt && len(r.Recv) != len(expectMsgs) && r.FinalCode != codes.DeadlineExceeded {
		key := "response-messages-mismatch"
		v.find(p18, key, "rpc %d: the application received %d message(s), the reference expects %d (call ended %v %q)", rid, len(r.Recv), len(expectMsgs), r.FinalCode, r.FinalErr)
	}
	// no op may outlive the deadline
	for _, op := range r.Ops {
		if op.EndSeq != 0 && op.StartAt <= r.DeadlineAt && op.EndAt > r.DeadlineAt {
			v.find(p19, "op-outlives-deadline", "rpc %d: op %s started at %v returned at %v, after the call's deadline %v", rid, op.K, op.StartAt, op.EndAt, r.DeadlineAt)
			break
		}
	}
	if decisions > 0 {
		sig := rp.Shape
		if rp.TwoG {
			sig += "2g"
		}
		if rp.BufLimit >= 0 {
			sig += "+buf"
		}
		if tok != nil {
			sig += "+thr"
		}
		v.RetrySigs = append(v.RetrySigs, sig+"["+strings.Join(parts, ",")+"]")
	}
	if timed > 0 {
		v.TimingSigs = append(v.TimingSigs, strings.Join(tparts, ","))
	}
}

// lostStatus recognises one specific failure class: the call ended with
// io.EOF (streaming RecvMsg: "clean end"; unary Invoke: a bare or wrapped io.EOF
// error) right after the server interrupted the replay on a retry attempt, so
// the attempt's real status and/or response messages never reached the
// application.
func lostStatus(r *RPCObs) bool {
	la := r.Atts[len(r.Atts)-1]
	eof := r.FinalCode == codes.OK && r.FinalErr == "" || r.FinalErr == "EOF" || strings.HasSuffix(r.FinalErr, ": EOF")
	return eof && la.Wire > 0 && la.ServerEnd && replayInterrupted(r, la)
}

// replayInterrupted: the server ended attempt a before the client had
// re-sent everything the application had already sent.
func replayInterrupted(r *RPCObs, a *AttObs) bool {
	sent, closed := 0, false
	for _, op := range r.Ops {
		if op.K == "S" && op.Err == "" && op.EndSeq != 0 {
			sent++
		}
		if op.K == "C" && op.EndSeq != 0 {
			closed = true
		}
		if op.K == "I" {
			sent, closed = 1, true
		}
	}
	return a.Msgs < sent || closed && !a.EndStream
}

func shortCode(p Att) string {
	switch p.Act {
	case "TO", "HT", "HMT":
		s := fmt.Sprint(p.Code)
		if len(p.Pushback) > 0 {
			_, bad, _ := pushbackParse(p.Pushback)
			if bad {
				s += "pb!"
			} else {
				s += "pb"
			}
		}
		return s
	case "RST":
		return fmt.Sprint(p.Rst)
	}
	return ""
}

func bucketMs(d time.Duration) string {
	switch {
	case d == 0:
		return "0"
	case d < 100*time.Millisecond:
		return "s"
	case d < 10*time.Second:
		return "m"
	}
	return "l"
}
