package retryplan

import (
	"bytes"
	"context"
	"fmt"
	"io"
	"strconv"
	"sync"
	"testing/synctest"
	"time"

	"golang.org/x/net/http2"
	"golang.org/x/net/http2/hpack"
	"google.golang.org/grpc"
	"google.golang.org/grpc/codes"
	"google.golang.org/grpc/metadata"
	"google.golang.org/grpc/status"
	"google.golang.org/grpc/verif/wire"
)

// Finding is one oracle failure.  Props lists the properties whose statement
// it breaks ("C18", "C19" or both).
type Finding struct {
	Props []string `json:"props"`
	Key   string   `json:"key"`
	Msg   string   `json:"msg"`
}

// OpRec is one executed application op.
type OpRec struct {
	K        string        `json:"k"` // N(ewStream) I(nvoke) S C R
	Idx      int           `json:"idx,omitempty"`
	G        int           `json:"g,omitempty"` // 0 main goroutine, 1 receiver goroutine
	StartSeq int64         `json:"sseq"`
	EndSeq   int64         `json:"eseq"`
	StartAt  time.Duration `json:"sat"`
	EndAt    time.Duration `json:"eat"`
	Err      string        `json:"err,omitempty"`
	Code     codes.Code    `json:"code,omitempty"`
}

// AttObs is what the scripted server saw of one wire attempt.
type AttObs struct {
	Wire       int           `json:"wire"`
	Conn       int           `json:"conn"`
	Stream     uint32        `json:"stream"`
	HeadersAt  time.Duration `json:"headers_at"`
	HeadersSeq int64         `json:"headers_seq"`
	Prev       []string      `json:"prev,omitempty"` // values of grpc-previous-rpc-attempts
	Plan       Att           `json:"plan"`
	Msgs       int           `json:"msgs"` // complete messages received before the server ended the stream
	EndStream  bool          `json:"end_stream"`
	ActionAt   time.Duration `json:"action_at"`
	ActionSeq  int64         `json:"action_seq"` // 0: the planned action was never executed
	ServerEnd  bool          `json:"server_end"` // the action ended the stream (everything but SILENT)
	ClientRST  bool          `json:"client_rst"`
	RSTCode    uint32        `json:"rst_code,omitempty"`
	LateBytes  int           `json:"late_bytes,omitempty"`
	buf        []byte
}

// RecvRec is one response message delivered to the application.
type RecvRec struct {
	Wire int  `json:"wire"` // -1: unknown payload
	J    int  `json:"j"`
	OK   bool `json:"ok"`
}

// RPCObs is the observation of one call.
type RPCObs struct {
	Atts       []*AttObs     `json:"atts"`
	Ops        []*OpRec      `json:"ops"`
	StartAt    time.Duration `json:"start_at"`
	DeadlineAt time.Duration `json:"deadline_at"`
	FinishAt   time.Duration `json:"finish_at"`
	Finished   bool          `json:"finished"`
	FinalCode  codes.Code    `json:"final_code"`
	FinalErr   string        `json:"final_err,omitempty"`
	Recv       []RecvRec     `json:"recv,omitempty"`
	Sizes      []int         `json:"sizes"` // sizes of the messages the application sends, in order

	// live application send state (under harness.mu)
	started, completed      int
	closeStarted, closeDone bool
	recvDone                bool
	mainInOp                bool         // two-goroutine calls: the sender is inside SendMsg/CloseSend
	pending                 []pendingAct // server actions deferred until that op has returned
	twoG                    bool
}

type pendingAct struct {
	a    *AttObs
	peer *wire.Peer
}

// Obs is the observation of a scenario.
type Obs struct {
	RPCs     []*RPCObs        `json:"rpcs"`
	Findings []Finding        `json:"findings,omitempty"` // found while running (replay audit at the wire)
	Counters map[string]int64 `json:"counters"`
	Conns    int              `json:"conns"`
}

type streamKey struct {
	conn   int
	stream uint32
}

type harness struct {
	mu       sync.Mutex
	t0       time.Time
	seq      int64
	sc       *Scenario
	obs      *Obs
	byStream map[streamKey]*attRef
	changed  chan struct{}
	peers    []*wire.Peer
}

type attRef struct {
	rid int
	a   *AttObs
}

func (h *harness) now() time.Duration { return time.Since(h.t0) }

func (h *harness) nextSeqLocked() int64 { h.seq++; return h.seq }

func (h *harness) bcastLocked() {
	close(h.changed)
	h.changed = make(chan struct{})
}

func (h *harness) findLocked(props []string, key, f string, a ...any) {
	if len(h.obs.Findings) < 40 {
		h.obs.Findings = append(h.obs.Findings, Finding{Props: props, Key: key, Msg: fmt.Sprintf(f, a...)})
	}
}

var (
	p18   = []string{"C18"}
	p19   = []string{"C19"}
	pBoth = []string{"C18", "C19"}
)

const method = "/verif.Retry/Call"

// onFrame is the scripted server: it audits what every attempt transmits and
// executes the planned action of the attempt when its trigger is reached.
func (h *harness) onFrame(conn int, peer *wire.Peer, e wire.Entry) {
	if e.Dir != wire.In {
		return
	}
	var act func()
	h.mu.Lock()
	switch e.Type {
	case http2.FrameHeaders:
		rid := -1
		if s, ok := e.Field("x-rid"); ok {
			rid, _ = strconv.Atoi(s)
		}
		if rid < 0 || rid >= len(h.obs.RPCs) {
			h.findLocked(pBoth, "harness", "HEADERS without a valid x-rid: %s", e.String())
			break
		}
		r := h.obs.RPCs[rid]
		a := &AttObs{Wire: len(r.Atts), Conn: conn, Stream: e.Stream, HeadersAt: h.now(), HeadersSeq: h.nextSeqLocked()}
		for _, f := range e.Fields {
			if f.Name == "grpc-previous-rpc-attempts" {
				a.Prev = append(a.Prev, f.Value)
			}
		}
		plan := h.sc.RPCs[rid].Plan
		if a.Wire < len(plan) {
			a.Plan = plan[a.Wire]
		} else {
			a.Plan = Att{Trig: "end", Act: "OK", NMsgs: 1}
			if h.sc.RPCs[rid].Shape == "bidi" {
				a.Plan.Trig = "headers"
			}
		}
		if r.Finished {
			h.findLocked(p18, "attempt-after-rpc-finished", "rpc %d: a new attempt (stream %d, conn %d) reached the server after the application's call had returned", rid, e.Stream, conn)
		}
		r.Atts = append(r.Atts, a)
		h.byStream[streamKey{conn, e.Stream}] = &attRef{rid, a}
		h.obs.Counters["attempts_seen"]++
		if e.EndStream() {
			a.EndStream = true
		}
		if a.Plan.Trig == "headers" {
			act = h.triggerLocked(rid, r, a, peer)
		} else if h.sc.Cfg.StarveRetries && a.Wire == 0 {
			sid := e.Stream
			act = func() { peer.WriteWindowUpdate(sid, 1<<24) }
		}
		h.bcastLocked()
	case http2.FrameData:
		ref := h.byStream[streamKey{conn, e.Stream}]
		if ref == nil {
			h.findLocked(pBoth, "harness", "DATA on unknown stream: %s", e.String())
			break
		}
		a, rid := ref.a, ref.rid
		r := h.obs.RPCs[rid]
		if a.ServerEnd {
			a.LateBytes += len(e.Data) // the client had not yet seen our END_STREAM/RST: legal
			break
		}
		if a.EndStream {
			h.findLocked(p18, "data-after-half-close", "rpc %d attempt %d: DATA after END_STREAM", rid, a.Wire)
			break
		}
		a.buf = append(a.buf, e.Data...)
		msgs, flags, rest := wire.SplitMsgs(a.buf)
		for i, m := range msgs {
			pos := a.Msgs
			a.Msgs++
			h.obs.Counters["request_messages_audited"]++
			if a.Wire > 0 {
				h.obs.Counters["replayed_or_resent_messages_audited"]++
			}
			switch {
			case pos >= r.started:
				h.findLocked(p18, "replay-message-not-in-history", "rpc %d attempt %d: message #%d (%d bytes) received but the application has only started %d sends", rid, a.Wire, pos, len(m), r.started)
			case flags[i] != 0:
				h.findLocked(p18, "replay-content-mismatch", "rpc %d attempt %d: message #%d has compressed flag %d", rid, a.Wire, pos, flags[i])
			case !bytes.Equal(m, ReqPayload(rid, pos, r.Sizes[pos])):
				h.findLocked(p18, "replay-content-mismatch", "rpc %d attempt %d: message at position %d (%d bytes) is not the application's message #%d (%d bytes)", rid, a.Wire, pos, len(m), pos, r.Sizes[pos])
			}
		}
		a.buf = append([]byte(nil), rest...)
		if e.EndStream() {
			a.EndStream = true
			h.obs.Counters["half_closes_audited"]++
			if len(a.buf) != 0 {
				h.findLocked(p18, "replay-content-mismatch", "rpc %d attempt %d: END_STREAM inside a message (%d stray bytes)", rid, a.Wire, len(a.buf))
			}
			if !r.closeStarted {
				h.findLocked(p18, "half-close-not-in-history", "rpc %d attempt %d: END_STREAM received but the application has not half-closed", rid, a.Wire)
			} else if a.Msgs != r.started {
				// CloseSend is program-ordered after every send, so a half-close
				// must be preceded by the whole send history.
				h.findLocked(p18, "replay-incomplete-before-half-close", "rpc %d attempt %d: END_STREAM after %d message(s) but the application sent %d before half-closing", rid, a.Wire, a.Msgs, r.started)
			}
		}
		if a.ActionSeq == 0 {
			switch a.Plan.Trig {
			case "msgs":
				if a.Msgs >= a.Plan.K {
					act = h.triggerLocked(rid, r, a, peer)
				}
			case "end":
				if a.EndStream {
					act = h.triggerLocked(rid, r, a, peer)
				}
			}
		}
		h.bcastLocked()
	case http2.FrameRSTStream:
		if ref := h.byStream[streamKey{conn, e.Stream}]; ref != nil {
			ref.a.ClientRST = true
			ref.a.RSTCode = uint32(e.Code)
			h.bcastLocked()
		}
	}
	h.mu.Unlock()
	if act != nil {
		act()
	}
}

// triggerLocked executes the attempt's action now, or defers it.  In a
// two-goroutine call the receiver goroutine sits in RecvMsg; if the server
// failed the attempt while the sender is still inside the SendMsg whose message
// triggered the action, the receiver could take clientStream.mu and sleep in
// the retry backoff before that SendMsg re-acquires the mutex for its
// bookkeeping.  A goroutine blocked on a sync.Mutex is not durably blocked for
// synctest, so virtual time would never advance (a harness hang, not a grpc
// defect).  The action is therefore executed right after the op has returned,
// at the same virtual instant.
func (h *harness) triggerLocked(rid int, r *RPCObs, a *AttObs, peer *wire.Peer) func() {
	if r.mainInOp {
		a.ActionSeq = -1 // reserved: no second trigger
		r.pending = append(r.pending, pendingAct{a, peer})
		return nil
	}
	return h.execLocked(rid, a, peer)
}

// execLocked stamps the action and returns the function that writes it.
func (h *harness) execLocked(rid int, a *AttObs, peer *wire.Peer) func() {
	a.ActionAt, a.ActionSeq = h.now(), h.nextSeqLocked()
	p := a.Plan
	if p.Act != "SILENT" {
		a.ServerEnd = true
	}
	h.obs.Counters["server_action_"+p.Act]++
	id := a.Stream
	var pb []hpack.HeaderField
	for _, v := range p.Pushback {
		pb = append(pb, wire.F("grpc-retry-pushback-ms", v))
	}
	wire0 := a.Wire
	return func() {
		switch p.Act {
		case "TO":
			peer.WriteHeaders(id, true, 0, wire.TrailersOnly(p.Code, "planned failure", pb...)...)
		case "HT":
			peer.WriteHeaders(id, false, 0, wire.ResponseHeaders()...)
			peer.WriteHeaders(id, true, 0, wire.Trailers(p.Code, "planned failure", pb...)...)
		case "HMT":
			peer.WriteHeaders(id, false, 0, wire.ResponseHeaders()...)
			peer.WriteData(id, wire.Msg(RespPayload(rid, wire0, 0)), false, -1)
			peer.WriteHeaders(id, true, 0, wire.Trailers(p.Code, "planned failure", pb...)...)
		case "OK":
			peer.WriteHeaders(id, false, 0, wire.ResponseHeaders()...)
			for j := 0; j < p.NMsgs; j++ {
				peer.WriteData(id, wire.Msg(RespPayload(rid, wire0, j)), false, -1)
			}
			peer.WriteHeaders(id, true, 0, wire.Trailers(0, "")...)
		case "RST":
			peer.WriteRST(id, http2.ErrCode(p.Rst))
		case "GOAWAY":
			last := uint32(0)
			if id >= 2 {
				last = id - 2
			}
			peer.WriteGoAway(last, http2.ErrCodeNo, "planned")
		case "SILENT":
		}
	}
}

// Run executes the scenario.  It must be called inside a synctest bubble.
func Run(sc *Scenario) *Obs {
	h := &harness{t0: time.Now(), sc: sc, byStream: map[streamKey]*attRef{}, changed: make(chan struct{}),
		obs: &Obs{Counters: map[string]int64{}}}
	for i := range sc.RPCs {
		r := &RPCObs{twoG: sc.RPCs[i].TwoG}
		if sc.RPCs[i].Shape == "unary" {
			r.Sizes = []int{sc.RPCs[i].UnarySize}
		}
		for _, op := range sc.RPCs[i].Ops {
			if op.K == "S" {
				r.Sizes = append(r.Sizes, op.N)
			}
		}
		h.obs.RPCs = append(h.obs.RPCs, r)
	}
	dopts := []grpc.DialOption{grpc.WithDefaultServiceConfig(ServiceConfigJSON(&sc.Cfg))}
	if sc.Cfg.MaxCallAttempts != 0 {
		dopts = append(dopts, grpc.WithMaxCallAttempts(sc.Cfg.MaxCallAttempts))
	}
	if sc.Cfg.DisableRetry {
		dopts = append(dopts, grpc.WithDisableRetry())
	}
	fx, err := wire.NewClientFixture(dopts...)
	if err != nil {
		h.obs.Findings = append(h.obs.Findings, Finding{Props: pBoth, Key: "valid-service-config-rejected", Msg: "grpc.NewClient rejected a default service config whose every value is within the gRFC A6 limits: " + err.Error() + "; config " + ServiceConfigJSON(&sc.Cfg)})
		return h.obs
	}
	stop := make(chan struct{})
	accDone := make(chan struct{})
	go func() {
		defer close(accDone)
		for {
			select {
			case c := <-fx.AcceptCh():
				peer := wire.NewPeer(c, true)
				h.mu.Lock()
				idx := len(h.peers)
				h.peers = append(h.peers, peer)
				h.mu.Unlock()
				peer.OnFrame = func(e wire.Entry) { h.onFrame(idx, peer, e) }
				iws := uint32(1 << 24)
				if sc.Cfg.StarveRetries {
					iws = 16
				}
				if err := peer.Start(http2.Setting{ID: http2.SettingInitialWindowSize, Val: iws}); err != nil {
					continue
				}
				peer.WriteWindowUpdate(0, 1<<30)
			case <-stop:
				return
			}
		}
	}()
	fx.CC.Connect()
	synctest.Wait()
	for rid := range sc.RPCs {
		h.runRPC(fx.CC, rid)
		synctest.Wait()
	}
	fx.CC.Close()
	close(stop)
	<-accDone
	h.mu.Lock()
	peers := append([]*wire.Peer(nil), h.peers...)
	h.obs.Conns = len(peers)
	h.mu.Unlock()
	for _, p := range peers {
		p.Close()
	}
	for _, p := range peers {
		<-p.Done()
	}
	// a connection dialed but never accepted (acceptor already stopped)
	for {
		select {
		case c := <-fx.AcceptCh():
			c.Close()
			continue
		default:
		}
		break
	}
	synctest.Wait()
	return h.obs
}

func (h *harness) opStart(r *RPCObs, k string, idx, g int) *OpRec {
	h.mu.Lock()
	defer h.mu.Unlock()
	op := &OpRec{K: k, Idx: idx, G: g, StartSeq: h.nextSeqLocked(), StartAt: h.now()}
	r.Ops = append(r.Ops, op)
	if g == 0 && r.twoG && (k == "S" || k == "C") {
		r.mainInOp = true
	}
	switch k {
	case "S", "I":
		r.started++
		if k == "I" {
			r.closeStarted = true
		}
	case "C":
		r.closeStarted = true
	}
	return op
}

func (h *harness) opEnd(rid int, r *RPCObs, op *OpRec, err error) {
	h.mu.Lock()
	op.EndSeq, op.EndAt = h.nextSeqLocked(), h.now()
	if err != nil {
		op.Err = err.Error()
		op.Code = status.Code(err)
	}
	switch op.K {
	case "S":
		if err == nil {
			r.completed++
		}
	case "C":
		r.closeDone = true
	}
	var acts []func()
	if op.G == 0 && r.mainInOp {
		r.mainInOp = false
		for _, p := range r.pending {
			p.a.ActionSeq = 0
			acts = append(acts, h.execLocked(rid, p.a, p.peer))
		}
		r.pending = nil
		if len(acts) > 0 {
			h.obs.Counters["server_actions_deferred_past_send_op"] += int64(len(acts))
			h.bcastLocked()
		}
	}
	h.mu.Unlock()
	for _, f := range acts {
		f()
	}
}

func (h *harness) finish(r *RPCObs, err error, eofIsOK bool) {
	h.mu.Lock()
	defer h.mu.Unlock()
	r.Finished, r.FinishAt = true, h.now()
	if err == nil || err == io.EOF && eofIsOK {
		r.FinalCode = codes.OK
	} else {
		r.FinalCode = status.Code(err)
		r.FinalErr = err.Error()
	}
	h.bcastLocked()
}

func (h *harness) recordRecv(rid int, r *RPCObs, m []byte) {
	h.mu.Lock()
	defer h.mu.Unlock()
	var rr RecvRec
	rr.Wire = -1
	var a, b, c int
	if n, _ := fmt.Sscanf(string(m), "resp/%d/%d/%d", &a, &b, &c); n == 3 && a == rid {
		rr.Wire, rr.J, rr.OK = b, c, true
	}
	r.Recv = append(r.Recv, rr)
}

// quiescentCheck runs between application ops, after synctest.Wait(): a live
// attempt must have received exactly the application's completed sends (and
// the half-close iff CloseSend has returned).
func (h *harness) quiescentCheck(rid int, r *RPCObs, label string) {
	h.mu.Lock()
	defer h.mu.Unlock()
	if len(r.Atts) == 0 || r.Finished || r.recvDone {
		return
	}
	a := r.Atts[len(r.Atts)-1]
	if a.ServerEnd || a.ClientRST {
		return
	}
	h.obs.Counters["quiescent_replay_checks"]++
	if a.Wire > 0 {
		h.obs.Counters["quiescent_replay_checks_on_retry_attempt"]++
	}
	if a.Msgs != r.completed || a.EndStream != r.closeDone {
		h.findLocked(p18, "attempt-not-in-step-with-application", "rpc %d attempt %d at quiescence after %s: server has %d message(s), END_STREAM=%v; the application has completed %d send(s), CloseSend done=%v",
			rid, a.Wire, label, a.Msgs, a.EndStream, r.completed, r.closeDone)
	}
}

// gate is used by the sending goroutine of a two-goroutine bidi call before
// each send-side op.  While the server has ended the current attempt and the
// receiver goroutine is (possibly) sleeping in the retry backoff inside
// RecvMsg, clientStream.mu is held; a SendMsg would block on that mutex, which
// is not a durable block for synctest, and virtual time could never advance.
// So the sender waits (durably, on a channel) until the next attempt shows up
// at the server or the receiver has finished.
func (h *harness) gate(r *RPCObs) {
	for {
		synctest.Wait()
		h.mu.Lock()
		wait := false
		if !r.recvDone && len(r.Atts) > 0 {
			a := r.Atts[len(r.Atts)-1]
			wait = a.ServerEnd
		}
		ch := h.changed
		h.mu.Unlock()
		if !wait {
			return
		}
		<-ch
	}
}

func (h *harness) runRPC(cc *grpc.ClientConn, rid int) {
	rp := &h.sc.RPCs[rid]
	r := h.obs.RPCs[rid]
	ctx := metadata.AppendToOutgoingContext(context.Background(), "x-rid", strconv.Itoa(rid))
	ctx, cancel := context.WithTimeout(ctx, time.Duration(rp.DeadlineMs)*time.Millisecond)
	defer cancel()
	h.mu.Lock()
	r.StartAt = h.now()
	r.DeadlineAt = r.StartAt + time.Duration(rp.DeadlineMs)*time.Millisecond
	h.mu.Unlock()
	var copts []grpc.CallOption
	if rp.BufLimit >= 0 {
		copts = append(copts, grpc.MaxRetryRPCBufferSize(rp.BufLimit))
	}
	if rp.Shape == "unary" {
		op := h.opStart(r, "I", 0, 0)
		var resp []byte
		err := cc.Invoke(ctx, method, ReqPayload(rid, 0, rp.UnarySize), &resp, copts...)
		h.opEnd(rid, r, op, err)
		if err == nil {
			h.recordRecv(rid, r, resp)
		}
		h.finish(r, err, false)
		return
	}
	desc := &grpc.StreamDesc{ClientStreams: true, ServerStreams: rp.Shape == "bidi"}
	op := h.opStart(r, "N", 0, 0)
	st, err := cc.NewStream(ctx, desc, method, copts...)
	h.opEnd(rid, r, op, err)
	if err != nil {
		h.finish(r, err, false)
		return
	}
	recvLoop := func(g int) error {
		for {
			op := h.opStart(r, "R", 0, g)
			var m []byte
			err := st.RecvMsg(&m)
			h.opEnd(rid, r, op, err)
			if err != nil {
				return err
			}
			h.recordRecv(rid, r, m)
			if rp.Shape != "bidi" {
				return nil // clientStreamWrapper.RecvMsg already waited for the trailers
			}
		}
	}
	var recvErr error
	recvCh := make(chan struct{})
	if rp.TwoG {
		go func() {
			recvErr = recvLoop(1)
			h.mu.Lock()
			r.recvDone = true
			h.bcastLocked()
			h.mu.Unlock()
			close(recvCh)
		}()
	}
	sendIdx := 0
	for _, o := range rp.Ops {
		if rp.TwoG {
			h.gate(r)
		} else {
			synctest.Wait()
		}
		h.quiescentCheck(rid, r, "op "+o.K)
		stopSending := false
		switch o.K {
		case "T":
			time.Sleep(time.Duration(o.N) * time.Millisecond)
		case "S":
			op := h.opStart(r, "S", sendIdx, 0)
			err := st.SendMsg(ReqPayload(rid, sendIdx, o.N))
			h.opEnd(rid, r, op, err)
			sendIdx++
			if err != nil {
				stopSending = true
			}
		case "C":
			op := h.opStart(r, "C", 0, 0)
			err := st.CloseSend()
			h.opEnd(rid, r, op, err)
		}
		if stopSending {
			break
		}
	}
	if rp.TwoG {
		synctest.Wait()
		h.quiescentCheck(rid, r, "last op")
		<-recvCh
	} else {
		synctest.Wait()
		h.quiescentCheck(rid, r, "last op")
		recvErr = recvLoop(0)
	}
	h.finish(r, recvErr, true)
}
