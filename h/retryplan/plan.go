// Package retryplan is the shared engine of the C18 (retry semantics) and C19
// (retry backoff / throttling) monitors: a PRNG scenario generator, a runner
// that executes a scenario with a REAL grpc.ClientConn against a scripted raw
// HTTP/2 server (engine E1, package wire) inside a testing/synctest bubble, and
// an executable gRFC A6 reference (model.go) that judges what was observed.
//
// A scenario is a channel configuration (service config retryPolicy /
// retryThrottling given through grpc.WithDefaultServiceConfig, WithMaxCallAttempts,
// WithDisableRetry) plus a sequence of RPCs issued one after the other on the
// same channel.  Each RPC has a shape (unary / client-streaming / bidi), an
// application op list (send / close-send / recv / think), a replay buffer
// limit, a deadline and a per-wire-attempt server plan.
package retryplan

import (
	"fmt"
	"math/rand"
	"strings"

	"google.golang.org/grpc/codes"
)

// Policy is the retryPolicy of the method config.
type Policy struct {
	MaxAttempts int     `json:"max_attempts"`
	InitialMs   int     `json:"initial_ms"`
	MaxMs       int     `json:"max_ms"`
	Mult        float64 `json:"mult"`
	Codes       []int   `json:"codes"`
}

// Throttle is the retryThrottling section (decimal strings, written verbatim
// into the JSON so that the reference knows the exact decimal value).
type Throttle struct {
	MaxTokens string `json:"max_tokens"`
	Ratio     string `json:"ratio"`
}

// Config is the channel configuration.
type Config struct {
	Policy          *Policy   `json:"policy,omitempty"`
	MaxCallAttempts int       `json:"max_call_attempts"` // 0 = option not used
	Throttle        *Throttle `json:"throttle,omitempty"`
	DisableRetry    bool      `json:"disable_retry,omitempty"`
	// StarveRetries: the scripted server advertises a 16-byte stream window and
	// grants a large window only to the FIRST wire attempt of each call, so the
	// replay of buffered messages on a retry attempt blocks on flow control /
	// write quota and is still in progress when the server answers that attempt.
	StarveRetries bool `json:"starve_retries,omitempty"`
}

// Att is what the scripted server does on one wire attempt (one HEADERS).
type Att struct {
	Trig     string   `json:"trig"`        // headers | msgs | end : when the action is executed
	K        int      `json:"k,omitempty"` // for msgs: after the K-th complete message
	Act      string   `json:"act"`         // TO HT HMT RST GOAWAY SILENT OK
	Code     int      `json:"code"`
	Rst      uint32   `json:"rst,omitempty"`
	Pushback []string `json:"pushback,omitempty"` // values of grpc-retry-pushback-ms (nil: absent)
	NMsgs    int      `json:"nmsgs,omitempty"`    // OK: number of response messages
}

// Op is one application step.
type Op struct {
	K string `json:"k"` // S send(N bytes) | C close-send | R recv one | T think (N ms)
	N int    `json:"n,omitempty"`
}

// RPC is one call.
type RPC struct {
	Shape      string `json:"shape"` // unary | cstream | bidi
	TwoG       bool   `json:"two_g,omitempty"`
	Ops        []Op   `json:"ops,omitempty"`
	UnarySize  int    `json:"unary_size,omitempty"`
	BufLimit   int    `json:"buf_limit"` // -1: library default (256 KiB)
	DeadlineMs int    `json:"deadline_ms"`
	Plan       []Att  `json:"plan"`
}

// Scenario is one case.
type Scenario struct {
	Cfg  Config `json:"cfg"`
	RPCs []RPC  `json:"rpcs"`
}

// Bias tunes the generator per family.
type Bias struct {
	Throttle   int // percent of scenarios with retryThrottling
	Unary      int // percent of RPCs that are unary
	MinRPC     int
	MaxRPC     int
	Pushback   int // percent of trailers-only failures that carry pushback
	FailWeight int // percent of attempts that fail trailers-only with a code
	SmallMax   bool
	BufLimit   int // percent of RPCs with an explicit MaxRetryRPCBufferSize
	// ShortDeadline draws deadlines of 1-5 s so that backoffs often cross them.
	ShortDeadline bool
	// Overflow draws policies whose UNCAPPED backoff initial x multiplier^k leaves
	// the int64 nanosecond range (or float64) at a retry that is reached, while
	// maxBackoff is ordinary: a huge multiplier (1e10..1e300), or a moderate one
	// (10..1000) with a chain of up to 24 retries (maxAttempts and
	// WithMaxCallAttempts raised to 25) and a tiny maxBackoff.
	Overflow bool
}

// Biases of the case families.
var (
	BiasMixed    = Bias{Throttle: 35, Unary: 35, MinRPC: 1, MaxRPC: 4, Pushback: 25, FailWeight: 48, BufLimit: 35}
	BiasTiming   = Bias{Throttle: 15, Unary: 70, MinRPC: 1, MaxRPC: 3, Pushback: 40, FailWeight: 72, BufLimit: 5}
	BiasUnary    = Bias{Throttle: 10, Unary: 100, MinRPC: 1, MaxRPC: 3, Pushback: 35, FailWeight: 75, BufLimit: 5, ShortDeadline: true}
	BiasOverflow = Bias{Throttle: 0, Unary: 85, MinRPC: 1, MaxRPC: 2, Pushback: 6, FailWeight: 88, BufLimit: 0, Overflow: true}
	BiasThrottle = Bias{Throttle: 100, Unary: 85, MinRPC: 5, MaxRPC: 14, Pushback: 15, FailWeight: 62, SmallMax: true, BufLimit: 5}
)

var codePool = []int{int(codes.Unavailable), int(codes.Aborted), int(codes.Internal), int(codes.ResourceExhausted),
	int(codes.Canceled), int(codes.DeadlineExceeded), int(codes.Unknown), int(codes.DataLoss), int(codes.FailedPrecondition)}

func pick[T any](rng *rand.Rand, xs ...T) T { return xs[rng.Intn(len(xs))] }

// DefaultBufLimit is grpc-go's documented default of MaxRetryRPCBufferSize.
const DefaultBufLimit = 256 * 1024

// Gen draws a scenario.
func Gen(rng *rand.Rand, b Bias) Scenario {
	var sc Scenario
	if rng.Intn(100) < 92 {
		p := &Policy{MaxAttempts: 2 + rng.Intn(6)}
		p.InitialMs = pick(rng, 1, 10, 50, 100, 333, 1000, 2500)
		p.MaxMs = pick(rng, p.InitialMs, p.InitialMs*2, p.InitialMs*10, 20000, 7, p.InitialMs/2+1)
		p.Mult = pick(rng, 1, 1.5, 2, 2, 3, 0.5, 1.1)
		n := 1 + rng.Intn(4)
		seen := map[int]bool{}
		for len(p.Codes) < n {
			c := codePool[rng.Intn(len(codePool))]
			if rng.Intn(3) == 0 {
				c = int(codes.Unavailable)
			}
			if !seen[c] {
				seen[c] = true
				p.Codes = append(p.Codes, c)
			}
		}
		sc.Cfg.Policy = p
	}
	if rng.Intn(2) == 0 {
		sc.Cfg.MaxCallAttempts = pick(rng, 1, 2, 2, 3, 3, 4, 5, 6)
	}
	if b.Overflow {
		p := sc.Cfg.Policy
		if p == nil {
			p = &Policy{Codes: []int{int(codes.Unavailable)}}
			sc.Cfg.Policy = p
		}
		if rng.Intn(2) == 0 {
			// huge multiplier: overflows at k = 1 or 2
			p.Mult = pick(rng, 1e10, 1e12, 1e12, 1e15, 1e19, 1e100, 1e300)
			p.InitialMs = pick(rng, 1, 100, 100, 1000, 2500)
			p.MaxMs = pick(rng, 5, 50, 400, 1000, 3000)
			p.MaxAttempts = 3 + rng.Intn(5)
			sc.Cfg.MaxCallAttempts = pick(rng, 0, 5, 6, 7)
		} else {
			// long chain: initial x mult^k crosses 2^63 ns somewhere in the chain
			p.Mult = pick[float64](rng, 10, 10, 30, 100, 1000)
			p.InitialMs = pick(rng, 100, 1000, 2500)
			p.MaxMs = pick(rng, 1, 3, 7, 20)
			p.MaxAttempts = 25
			sc.Cfg.MaxCallAttempts = 25
		}
	} else if sc.Cfg.Policy != nil && rng.Intn(40) == 0 {
		sc.Cfg.Policy.Mult = pick(rng, 1e12, 1e19, 1e300) // also in the ordinary families, rarely
	}
	if rng.Intn(100) < b.Throttle {
		t := &Throttle{}
		if b.SmallMax {
			t.MaxTokens = pick(rng, "1", "2", "3", "4", "4", "5", "6", "6", "8", "2.5", "7.5")
		} else {
			t.MaxTokens = pick(rng, "1", "2", "3", "4", "5", "6", "10", "2.5", "1000")
		}
		t.Ratio = pick(rng, "0.5", "1", "0.25", "2", "0.1", "0.3", "0.001", "0.5", "1.5")
		sc.Cfg.Throttle = t
	}
	if rng.Intn(100) < 4 {
		sc.Cfg.DisableRetry = true
	}
	nrpc := b.MinRPC + rng.Intn(b.MaxRPC-b.MinRPC+1)
	for i := 0; i < nrpc; i++ {
		sc.RPCs = append(sc.RPCs, genRPC(rng, b, &sc.Cfg))
	}
	return sc
}

func genRPC(rng *rand.Rand, b Bias, cfg *Config) RPC {
	r := RPC{BufLimit: -1, DeadlineMs: pick(rng, 1000, 2000, 5000, 5000, 12000, 20000, 60000)}
	if b.ShortDeadline {
		r.DeadlineMs = pick(rng, 1000, 1500, 2000, 3000, 5000)
	}
	if b.Overflow {
		r.DeadlineMs = pick(rng, 20000, 60000, 60000)
	}
	var sizes []int
	switch x := rng.Intn(100); {
	case x < b.Unary:
		r.Shape = "unary"
		r.UnarySize = pick(rng, 0, 1, 10, 100, 1000, 5000)
		sizes = []int{r.UnarySize}
	default:
		if rng.Intn(5) < 2 {
			r.Shape = "cstream"
		} else {
			r.Shape = "bidi"
			r.TwoG = rng.Intn(2) == 0
		}
		nm := rng.Intn(6)
		for j := 0; j < nm; j++ {
			if rng.Intn(8) == 0 {
				r.Ops = append(r.Ops, Op{K: "T", N: pick(rng, 1, 20, 150, 900)})
			}
			sz := pick(rng, 0, 1, 10, 10, 100, 100, 1000, 5000)
			sizes = append(sizes, sz)
			r.Ops = append(r.Ops, Op{K: "S", N: sz})
		}
		if rng.Intn(8) == 0 {
			r.Ops = append(r.Ops, Op{K: "T", N: pick(rng, 1, 20, 150, 900)})
		}
		if r.Shape == "cstream" || rng.Intn(6) != 0 {
			r.Ops = append(r.Ops, Op{K: "C"})
		}
	}
	// replay buffer limit: either the default, or a value that is unambiguous
	// for every prefix of the send history under both accountings (payload
	// only / payload + 5-byte prefix): see overflowState in model.go.
	if rng.Intn(100) < b.BufLimit && len(sizes) > 0 {
		var cands []int
		a, bb := 0, 0
		cands = append(cands, 0, 1<<20)
		for _, s := range sizes {
			a += s + 5
			bb += s
			cands = append(cands, a, a-1, a+1, bb, bb-1)
		}
		for try := 0; try < 20; try++ {
			l := cands[rng.Intn(len(cands))]
			if l < 0 {
				continue
			}
			ok := true
			a, bb = 0, 0
			for _, s := range sizes {
				a += s + 5
				bb += s
				if a > l && bb <= l {
					ok = false
				}
			}
			if ok {
				r.BufLimit = l
				break
			}
		}
	}
	nm := len(sizes)
	// server plan
	planLen := 9
	if b.Overflow {
		planLen = 26
	}
	for w := 0; w < planLen; w++ {
		var a Att
		switch x := rng.Intn(10); {
		case x < 3:
			a.Trig = "headers"
		case x < 5 && nm > 0:
			a.Trig, a.K = "msgs", 1+rng.Intn(nm)
		default:
			a.Trig = "end"
			if r.Shape == "bidi" && rng.Intn(3) == 0 && nm > 0 {
				a.Trig, a.K = "msgs", nm
			}
		}
		failCode := func() int {
			if cfg.Policy != nil && rng.Intn(100) < 80 {
				return cfg.Policy.Codes[rng.Intn(len(cfg.Policy.Codes))]
			}
			return codePool[rng.Intn(len(codePool))]
		}
		x := rng.Intn(100)
		rest := 100 - b.FailWeight
		switch {
		case x < b.FailWeight:
			a.Act, a.Code = "TO", failCode()
			if rng.Intn(100) < b.Pushback {
				switch y := rng.Intn(100); {
				case y < 70:
					a.Pushback = []string{pick(rng, "0", "1", "7", "50", "300", "300", "5000", "2147483647")}
				case y < 90:
					a.Pushback = []string{pick(rng, "-1", "-300", "abc", "", "1.5", "99999999999999999999", " 5", "0x10", "5ms")}
				default:
					a.Pushback = []string{pick(rng, "5", "0", "-1"), pick(rng, "5", "70")}
				}
			}
		case x < b.FailWeight+rest*12/100:
			a.Act, a.Code = "HT", failCode()
			if rng.Intn(3) == 0 {
				a.Pushback = []string{pick(rng, "0", "10", "-1")}
			}
		case x < b.FailWeight+rest*24/100:
			a.Act, a.Code = "HMT", failCode()
		case x < b.FailWeight+rest*44/100:
			a.Act = "RST"
			a.Rst = pick[uint32](rng, 7, 7, 7, 7, 8, 2, 11) // REFUSED_STREAM, CANCEL, INTERNAL_ERROR, ENHANCE_YOUR_CALM
		case x < b.FailWeight+rest*56/100:
			a.Act = "GOAWAY"
		case x < b.FailWeight+rest*62/100:
			a.Act = "SILENT"
		case x < b.FailWeight+rest*66/100 && r.Shape == "bidi":
			a.Act, a.Code = "TO", 0 // trailers-only OK: legal end of a server-streaming call
		default:
			a.Act = "OK"
			a.NMsgs = 1
			if r.Shape == "bidi" {
				a.NMsgs = rng.Intn(4)
			}
		}
		r.Plan = append(r.Plan, a)
		if a.Act == "OK" || a.Act == "SILENT" || a.Act == "TO" && a.Code == 0 {
			break
		}
	}
	return r
}

// ServiceConfigJSON renders the channel's default service config.
func ServiceConfigJSON(c *Config) string {
	var sb strings.Builder
	sb.WriteString(`{"methodConfig":[{"name":[{"service":"verif.Retry"}]`)
	if p := c.Policy; p != nil {
		var cs []string
		for _, x := range p.Codes {
			cs = append(cs, `"`+CodeName(x)+`"`)
		}
		fmt.Fprintf(&sb, `,"retryPolicy":{"maxAttempts":%d,"initialBackoff":"%d.%03ds","maxBackoff":"%d.%03ds","backoffMultiplier":%v,"retryableStatusCodes":[%s]}`,
			p.MaxAttempts, p.InitialMs/1000, p.InitialMs%1000, p.MaxMs/1000, p.MaxMs%1000, p.Mult, strings.Join(cs, ","))
	}
	sb.WriteString(`}]`)
	if t := c.Throttle; t != nil {
		fmt.Fprintf(&sb, `,"retryThrottling":{"maxTokens":%s,"tokenRatio":%s}`, t.MaxTokens, t.Ratio)
	}
	sb.WriteString(`}`)
	return sb.String()
}

var codeNames = map[int]string{0: "OK", 1: "CANCELLED", 2: "UNKNOWN", 3: "INVALID_ARGUMENT", 4: "DEADLINE_EXCEEDED", 5: "NOT_FOUND",
	6: "ALREADY_EXISTS", 7: "PERMISSION_DENIED", 8: "RESOURCE_EXHAUSTED", 9: "FAILED_PRECONDITION", 10: "ABORTED", 11: "OUT_OF_RANGE",
	12: "UNIMPLEMENTED", 13: "INTERNAL", 14: "UNAVAILABLE", 15: "DATA_LOSS", 16: "UNAUTHENTICATED"}

// CodeName is the canonical (service config) name of a status code.
func CodeName(c int) string {
	if s, ok := codeNames[c]; ok {
		return s
	}
	return fmt.Sprint(c)
}

// ReqPayload is message j of RPC rid (deterministic, so that "what the server
// received at position j" can be compared with "what the application sent as
// its j-th message" without keeping the bytes).
func ReqPayload(rid, j, n int) []byte {
	b := make([]byte, n)
	x := uint32(rid*1000003 + j*7919 + 17)
	for i := range b {
		x = x*1664525 + 1013904223
		b[i] = byte(x >> 24)
	}
	return b
}

// RespPayload is response message j of wire attempt w of RPC rid.
func RespPayload(rid, w, j int) []byte {
	return []byte(fmt.Sprintf("resp/%d/%d/%d", rid, w, j))
}

// MustHitVariants is the size of the fixed "replay interrupted" family.
const MustHitVariants = 40

// GenReplayInterrupted builds case i of the must-hit family derived from the
// repro of the (fixed) defect "io.EOF of a replayed SendMsg leaks out of
// RecvMsg": retryPolicy{UNAVAILABLE}; attempt 1 gets the whole request and is
// failed trailers-only UNAVAILABLE; the retry attempt(s) are answered right on
// HEADERS while the buffered sends (first one > the 64 KiB write quota, stream
// window 16 bytes) are still being replayed: trailers-only with a
// non-retryable code / with UNAVAILABLE at maxAttempts / headers+messages+OK
// trailers / RST_STREAM / headers+message+failure, directly or after one more
// UNAVAILABLE on HEADERS, for client-streaming, bidi (one and two application
// goroutines) and unary calls (unary: a single Write, so the interruption is
// only a race there).
func GenReplayInterrupted(rng *rand.Rand, i int) Scenario {
	i %= MustHitVariants
	shape, final, chain := i%4, (i/4)%5, 2+i/20
	sc := Scenario{Cfg: Config{StarveRetries: true, Policy: &Policy{MaxAttempts: 4, InitialMs: 10, MaxMs: 10, Mult: 1, Codes: []int{int(codes.Unavailable)}}}}
	r := RPC{BufLimit: -1, DeadlineMs: 20000}
	switch shape {
	case 0:
		r.Shape = "cstream"
	case 1:
		r.Shape = "bidi"
	case 2:
		r.Shape, r.TwoG = "bidi", true
	default:
		r.Shape, r.UnarySize = "unary", 70000
	}
	nm := 0
	if r.Shape != "unary" {
		r.Ops = append(r.Ops, Op{K: "S", N: 66000 + rng.Intn(30000)})
		nm = 2 + rng.Intn(2)
		for j := 1; j < nm; j++ {
			r.Ops = append(r.Ops, Op{K: "S", N: pick(rng, 1, 100, 3000)})
		}
		if r.Shape == "cstream" || rng.Intn(2) == 0 {
			r.Ops = append(r.Ops, Op{K: "C"})
		}
	}
	first := Att{Trig: "end", Act: "TO", Code: int(codes.Unavailable)}
	if r.Shape != "unary" && r.Ops[len(r.Ops)-1].K != "C" {
		first.Trig, first.K = "msgs", nm
	}
	r.Plan = append(r.Plan, first)
	for c := 2; c < chain; c++ {
		r.Plan = append(r.Plan, Att{Trig: "headers", Act: "TO", Code: int(codes.Unavailable)})
	}
	last := Att{Trig: "headers"}
	switch final {
	case 0:
		last.Act, last.Code = "TO", int(codes.Internal)
	case 1:
		last.Act, last.Code = "TO", int(codes.Unavailable)
		sc.Cfg.Policy.MaxAttempts = chain
	case 2:
		last.Act, last.NMsgs = "OK", 1
		if r.Shape == "bidi" {
			last.NMsgs = 1 + rng.Intn(3)
		}
	case 3:
		last.Act, last.Rst = "RST", 2
	default:
		last.Act, last.Code = "HMT", int(codes.DataLoss)
	}
	r.Plan = append(r.Plan, last)
	sc.RPCs = []RPC{r}
	return sc
}
