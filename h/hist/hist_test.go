package hist

import (
	"testing"
	"time"

	"github.com/anishathalye/porcupine"
)

// Self-test of the checkers on hand-written good and bad histories (a checker
// that cannot reject a bad history decides nothing).
func TestCheckers(t *testing.T) {
	// exactly-once
	rep := ExactlyOnce([]int64{1, 2, 3}, []int64{4}, []int64{5}, []int64{1, 2, 2, 5, 9})
	if len(rep.Missing) != 1 || rep.Missing[0] != 3 || len(rep.Duplicate) != 1 || rep.Duplicate[0] != 2 ||
		len(rep.Forbidden) != 1 || rep.Forbidden[0] != 5 || len(rep.Phantom) != 1 || rep.Phantom[0] != 9 {
		t.Fatalf("ExactlyOnce: %+v", rep)
	}
	if !ExactlyOnce([]int64{1, 2}, []int64{3}, []int64{4}, []int64{2, 1}).OK() {
		t.Fatal("ExactlyOnce rejects a good history")
	}
	// per-producer FIFO
	good := []Submitted{{ID: 1, Producer: 0, Seq: 0}, {ID: 3, Producer: 1, Seq: 0}, {ID: 2, Producer: 0, Seq: 1}}
	if PerProducerFIFO(good) != nil {
		t.Fatal("FIFO rejects good")
	}
	bad := []Submitted{{ID: 2, Producer: 0, Seq: 1}, {ID: 1, Producer: 0, Seq: 0}}
	if PerProducerFIFO(bad) == nil {
		t.Fatal("FIFO accepts bad")
	}
	// real-time order: b submitted entirely after a, but took effect first
	a := Submitted{ID: 1, Producer: 0, Call: 10, Ret: 11}
	b := Submitted{ID: 2, Producer: 1, Call: 12, Ret: 13}
	c := Submitted{ID: 3, Producer: 2, Call: 9, Ret: 14} // concurrent with both
	if RealTimeOrder([]Submitted{a, c, b}) != nil || RealTimeOrder([]Submitted{c, a, b}) != nil || RealTimeOrder([]Submitted{a, b, c}) != nil {
		t.Fatal("RTO rejects good")
	}
	if inv := RealTimeOrder([]Submitted{b, c, a}); inv == nil || inv.Earlier.ID != 2 || inv.Later.ID != 1 {
		t.Fatalf("RTO accepts bad: %+v", inv)
	}
	if Alternation([]bool{true, false, true}, true) != -1 || Alternation([]bool{true, true}, true) != 1 || Alternation([]bool{false}, true) != 0 {
		t.Fatal("Alternation")
	}
	if NothingAfter(10, []int64{3, 9, 11}) != 2 || NothingAfter(0, []int64{99}) != -1 {
		t.Fatal("NothingAfter")
	}
	if MaxOverlap([]Interval{{1, 4}, {2, 3}, {5, 6}}) != 2 || MaxOverlap([]Interval{{1, 2}, {3, 4}}) != 1 {
		t.Fatal("MaxOverlap")
	}
	if !Conservation(5, 3, 2) || Conservation(5, 3, 1) {
		t.Fatal("Conservation")
	}
}

func TestRecorderAndPorcupine(t *testing.T) {
	// a register: write(v) / read()->v
	model := porcupine.Model{
		Init: func() any { return 0 },
		Step: func(st, in, out any) (bool, any) {
			op := in.(Op)
			if op.Kind == "w" {
				return true, op.In.(int)
			}
			if _, open := out.(OpenOutput); open {
				return true, st
			}
			return out.(int) == st.(int), st
		},
	}
	r := NewRecorder()
	l1, l2 := r.Client(), r.Client()
	i := l1.Call("w", "", 1)
	l1.Return(i, nil)
	j := l2.Call("r", "", nil)
	l2.Return(j, 1)
	if v := CheckLinearizableTimeout(model, r.Ops(), time.Second); v != Linearizable {
		t.Fatalf("good history: %v", v)
	}
	k := l2.Call("r", "", nil)
	l2.Return(k, 0) // stale read after the write returned
	if v := CheckLinearizableTimeout(model, r.Ops(), time.Second); v != NotLinearizable {
		t.Fatalf("bad history: %v", v)
	}
	ops := r.Ops()
	for x := 1; x < len(ops); x++ {
		if ops[x-1].Call >= ops[x].Call {
			t.Fatal("Ops not ordered by Call")
		}
	}
}
